(* QInlStep3.v -- T64 (asm): the backtick branch of Inl3e.istep on the two sides (code spans). *)
From Coq Require Import List ZArith Lia Bool.
Import ListNotations.
Require Import Base Tables Utf8 Tree Rdr Link Collect Html Recog Inl3a Inl3b Inl3c Inl3d Driver Inl3e.
Require Import ShapesBase ShapesR IFBase GI6 IS0 IS3 IS6a IS6b IS6 IFTokDef IFTokAux IFTokUm IFFrame IFTokLoop IFTk1 IFTk2 IFTk3 IFTk4.
Require Import SpanSmall.
Require Import QCutsDef QCuts QIRdrBase QInlDefs QInlBytes QInlBytesEmph QInlHtml QInlTree1 QInlTree2 QInlTree3 QInlTree QInlCode1 QInlCode2 QInlCode.
Require Import QInlStep0 QInlStep1.
Open Scope Z_scope.

Section Step3.
  Variables (sD sQ : bytes) (sg : Z -> Z) (U : list inline).
  Hypothesis SG : SGood sD sQ sg.
  Hypothesis GP : GapSp sD sQ sg.
  Hypothesis HG : Forall (gsp sD sg U) U.
  Hypothesis HOK : spOK sD U = true.
  Hypothesis HKl : forall u, In u U -> ikids u = [].
  Hypothesis HLn : IS6b.linesOK sD U = true.
  Hypothesis HNG : NoGtBehindLast sD U.
  Set Default Proof Using "All".
  Local Notation Hy l := (l sD sQ sg U SG GP HG HOK HKl HLn HNG) (only parsing).
  Notation tr := (QInlBytes.tr sg).
  Notation IR := (QInlDefs.IR sD sQ sg).
  Notation SL := (QInlTree1.SL sD).
  Notation eE := (QInlDefs.eE sg).
  Notation qPs := (QInlDefs.qPs sD sg).
  Notation curU := QInlTree3.curU.
  Notation Ctx := (Ctx sD sQ sg U).
  Notation T3 := (T3 sD sQ sg U).
  Notation PosR := (PosR sg U).

  Lemma SL_leaf0 l : Forall leaf0 l -> SL l.
  Proof.
    intros H. unfold QInlTree1.SL. rewrite Forall_forall in *. intros n Hn. destruct (H n Hn) as [A B].
    constructor; [intros N; contradiction|rewrite B; constructor].
  Qed.
  Lemma collectCodeSpan_SL st a bb c d : SL (rk st) -> SL (rk (collectCodeSpan st a bb c d)).
  Proof.
    intros HS. unfold collectCodeSpan. cbv zeta. destruct (_ =? 0).
    - cbv beta iota. apply SL_addNode; [exact HS| |intros K; discriminate K]. apply SL_leaf0, strip_leaf0, cs_addSpan_leaf0. constructor.
    - match goal with |- context [match ?X with pair _ _ => _ end] =>
        match X with
        | context [match ?Y with pair _ _ => _ end] =>
          assert (Hacc : Forall leaf0 (fst Y)); [|destruct Y as [acc up]]
        end
      end.
      { match goal with |- Forall leaf0 (fst ((fix mid (k : nat) (acc : list pn) (up : Z) {struct k} : list pn * Z := _) ?kk ?aa ?uu)) =>
          assert (Ha : Forall leaf0 aa) by (apply cs_addSpan_leaf0; apply Forall_nil); revert Ha; generalize uu aa; generalize kk end.
        intros kk. induction kk as [|kk IH]; intros u0 a0 Ha0; [exact Ha0|].
        apply IH. destruct (_ =? UnparsedKind); [apply cs_addSpan_leaf0; exact Ha0|exact Ha0]. }
      cbn [fst] in Hacc. cbv beta iota. apply SL_addNode; [exact HS| |intros K; discriminate K]. apply SL_leaf0, strip_leaf0, cs_addSpan_leaf0. exact Hacc.
  Qed.

  Lemma q_branch_code st st' u pos pl : Ctx st st' u -> istart u <= pl -> pl <= pos -> pos < iend u ->
    T3 (let '(cS, cE, sE) := parseCodeSpan (rfuelOf st) st pos in
        if 0 <=? sE then
          let st := addText st pl pos in
          let st := collectCodeSpan st pos sE cS cE in (st, sE, sE)
        else (st, cS, pl))
       (let '(cS, cE, sE) := parseCodeSpan (rfuelOf st') st' (tr u pos) in
        if 0 <=? sE then
          let st := addText st' (tr u pl) (tr u pos) in
          let st := collectCodeSpan st (tr u pos) sE cS cE in (st, sE, sE)
        else (st', cS, tr u pl)).
  Proof.
    intros HC H1 H2 H3. pose proof HC as (HI & HS & Eu & Hu & Ecu). destruct ((Hy Ctx_facts) st st' u HC) as (Hin & Gu & Es & Es' & Ee & Ee' & _).
    pose proof ((Hy Ctx_addText) st st' u pl pos HC H1 H2 ltac:(lia)) as HC1. pose proof HC1 as (HI1 & HS1 & _).
    assert (Hcu : u = nth (Z.to_nat (upos st)) (unp st) (mkI 0 0 0)) by exact Ecu.
    destruct (parseCodeSpan (rfuelOf st) st pos) as [[cS cE] sE] eqn:Ep.
    destruct (q_codeSpan_rfuel sD sQ sg SG st st' (addText st pl pos) (addText st' (tr u pl) (tr u pos)) pos HI
               ltac:(rewrite Eu; exact HG) ltac:(rewrite Eu; apply (Hy HW)) ltac:(rewrite Eu; exact Hu) ltac:(rewrite <- Hcu; lia)
               HI1 (unp_addText st pl pos) (upos_addText st pl pos) cS cE sE Ep)
      as (cS' & cE' & sE' & Ep' & Eb & Hr & Hticks & EcS & _ & _ & Hneg & Hpos).
    rewrite <- Hcu in Hr. pose proof ((Hy tr_in) u pos Gu ltac:(lia)) as Etr. rewrite <- Etr in Ep', Hpos. rewrite Ep', Eb.
    destruct (Z.leb_spec 0 sE) as [L|L].
    - destruct (Hpos L) as (HV & E1 & E2 & E3 & HIR2). clear Hneg Hpos.
      unfold CSValid in HV. cbv zeta in HV. destruct HV as (V1 & V2 & V3 & V4 & V5 & V6 & V7 & V8 & V9 & V10 & _).
      cbv zeta. set (st2 := collectCodeSpan (addText st pl pos) pos sE cS cE) in *.
      set (k := nodeIndexForPosition (unpFrom st) cE) in *.
      assert (Ek : nodeIndexForPosition (unpFrom (addText st pl pos)) cE = k).
      { unfold k, unpFrom. rewrite unp_addText, upos_addText. reflexivity. }
      assert (Eup : upos st2 = upos st + k).
      { unfold st2. rewrite collectCodeSpan_upos, Ek, upos_addText. destruct (Z.eqb_spec k 0) as [->|N]; lia. }
      assert (Eun : unp st2 = U).
      { unfold st2. destruct (fr_collectCodeSpan (addText st pl pos) pos sE cS cE) as [_ ->]. rewrite unp_addText. exact Eu. }
      split; [exact HIR2|]. split; [apply collectCodeSpan_SL; exact HS1|]. cbn [fst snd]. split.
      + intros _. cbv zeta. unfold QInlTree3.curU. rewrite Eun, Eup. rewrite Eu in V6, V7, V9.
        set (uE := nth (Z.to_nat (upos st + k)) U (mkI 0 0 0)) in *.
        assert (HinE : In uE U) by (apply nth_In_Z; lia). pose proof ((Hy U_gsp) uE HinE) as GE.
        split; [lia|]. split; [lia|]. split; [lia|]. assert (Ex : sE' = tr uE sE).
        { rewrite E3. replace sE with (sE - 1 + 1) at 2 by lia. rewrite tr_add. rewrite ((Hy tr_in) uE (sE - 1) GE) by lia. reflexivity. }
        split; exact Ex.
      + intros L2. exfalso. rewrite Eup in L2. rewrite Eu in V6. lia.
    - destruct (Hneg L) as (_ & _ & _ & _).
      assert (EcS' : cS' = tr u cS) by (rewrite EcS, <- Etr; unfold QInlBytes.tr; lia).
      rewrite EcS'. apply ((Hy T3_same) st st' u st st' cS pl HC HI HS eq_refl eq_refl); lia.
  Qed.
End Step3.
