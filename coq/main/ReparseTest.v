From Coq Require Import List ZArith Lia Bool String Ascii.
Import ListNotations.
Require Import Base Tree LP Driver Props BSTest SliceReparse.
Open Scope Z_scope.
(* serialisation of a root (all fields) for boolean comparison *)
Fixpoint serI (i : inline) : list Z :=
  match i with Inl k s e ind r ks => [-1; k; s; e; ind; len r] ++ r ++ [-2] ++ flat_map serI ks ++ [-3] end.
Fixpoint serB (b : block) : list Z :=
  match b with Blk k s e bk ik a n c l lb =>
    [-4; k; s; e; a; n; c; (if l then 1 else 0); (if lb then 1 else 0)] ++ flat_map serI ik ++ [-5] ++ flat_map serB bk ++ [-6] end.
Definition serR (r : rootB) : list Z := [rb_line r; rb_start r; rb_end r; len (rb_src r)] ++ rb_src r ++ serB (rb_blk r).
Fixpoint leqb (a b : list Z) : bool := match a, b with [], [] => true | x :: a', y :: b' => (x =? y) && leqb a' b' | _, _ => false end.
Definition rootEqb (a b : rootB) : bool := leqb (serR a) (serR b).
Definition reparseOK (r : rootB) : bool :=
  match parseBlocks (rb_src r) with ([r'], 0) => rootEqb (aloneOf r') (aloneOf r) | _ => false end.
(* exception: a paragraph / setext heading whose start is the end of a preceding definition root *)
Fixpoint failures (prev : option rootB) (rs : list rootB) (i : Z) : list (Z * bool) :=
  match rs with [] => [] | r :: rest =>
    let exc := match prev with Some p => (bkind (rb_blk p) =? LinkReferenceDefinitionKind) && (rb_end p =? rb_start r) &&
                                          ((bkind (rb_blk r) =? ParagraphKind) || (bkind (rb_blk r) =? SetextHeadingKind)) | None => false end in
    (if reparseOK r then [] else [(i, exc)]) ++ failures (Some r) rest (i + 1) end.
Definition chk (input : bytes) := (failures None (fst (parseBlocks input)) 0, List.length (fst (parseBlocks input))).
Definition z := String (ascii_of_nat 0) "".
Open Scope string_scope.
Definition follow : list string := [nl; "para" ++ nl; "# h" ++ nl; "***" ++ nl; "- item" ++ nl; "> q" ++ nl; "```" ++ nl ++ "c" ++ nl ++ "```" ++ nl;
  "    code" ++ nl; "<div>" ++ nl ++ nl; "[r]: /u" ++ nl; "1. x" ++ nl; "===" ++ nl; "---" ++ nl; ""].
Definition blocks : list string := ["para" ++ nl ++ "two" ++ nl; "# h #" ++ nl; "***  " ++ nl; "- a" ++ nl ++ "- b" ++ nl; "- a" ++ nl ++ nl ++ "- b" ++ nl;
  "> q" ++ nl ++ "lazy" ++ nl; "```x" ++ nl ++ "c" ++ nl ++ nl ++ "```  " ++ nl; "~~~" ++ nl ++ "open" ++ nl; "    code" ++ nl ++ nl ++ "    more" ++ nl ++ nl;
  "<div>" ++ nl ++ "x" ++ nl; "<!-- c" ++ nl ++ "-->" ++ nl; "[r]: /u 't'" ++ nl; "[r]: /u" ++ nl ++ "[s]: /v" ++ nl; "h" ++ nl ++ "===" ++ nl;
  "1. a" ++ nl ++ nl ++ "   b" ++ nl; "- a" ++ nl ++ "  - b" ++ nl ++ nl; "> - a" ++ nl ++ ">" ++ nl ++ "> b" ++ nl; "-" ++ nl ++ "  x" ++ nl; tab ++ "c" ++ nl ++ "  " ++ nl;
  "[r]: /u" ++ nl ++ "text" ++ nl; "[r]: /u" ++ nl ++ " t" ++ nl ++ "===" ++ nl; "- a" ++ nl ++ nl; "> q" ++ nl ++ nl; "* a" ++ nl ++ "  " ++ nl ++ "  b" ++ nl].
Definition docs : list bytes := flat_map (fun b => map (fun f => bs (b ++ f)) follow) blocks.
Definition res := filter (fun x => negb (match fst (snd x) with [] => true | _ => false end)) (map (fun d => (d, chk d)) docs).
Time Eval vm_compute in (List.length docs, List.length res).
Time Eval vm_compute in map (fun x => (fst x, fst (snd x))) res.
