(* C17local.v — a purely local (context-free) sufficient condition for the side condition of C17tags.v:
   every raw-HTML span is "closed" (no '<' of it is the last byte, and no tag name that starts in it runs to its end),
   every verbatim span (character reference, soft line break) has no '<' + letter and does not end with '<'.
   Parser output satisfies it except for an HTML block whose last line has no line ending (end of input); that case is
   covered by the context-sensitive check chkB only. *)
From Coq Require Import List ZArith Lia Bool.
Import ListNotations.
Require Import Base Tables Utf8 Tree Recog Inl3b Driver Inl3e Render Safe MainTok C17bytes C17chk C17tags.
Open Scope Z_scope.

Definition closedRaw (s : bytes) : bool := joinOK s [97].
Definition closedVerb (s : bytes) : bool := vsafe s [97].

Lemma nameStable_any r t : nameStable r [97] = true -> nameStable r t = true.
Proof.
  unfold nameStable. destruct r as [|a r]; [discriminate|]. cbn [startsNameCh]. change (nameCh 97) with true. rewrite andb_true_r.
  intros H. apply negb_true_iff in H. rewrite H. reflexivity.
Qed.
Lemma joinOK_any s t : closedRaw s = true -> joinOK s t = true.
Proof.
  unfold closedRaw. induction s as [|x r IH]; [reflexivity|]. cbn [joinOK]. intros H. apply andb_true_iff in H. destruct H as [H1 H2].
  rewrite (IH H2), andb_true_r. destruct (x =? 60); [apply nameStable_any; exact H1|reflexivity].
Qed.
Lemma vsafe_any s t : closedVerb s = true -> vsafe s t = true.
Proof.
  unfold closedVerb. induction s as [|x r IH]; [reflexivity|]. cbn [vsafe]. intros H. apply andb_true_iff in H. destruct H as [H1 H2].
  rewrite (IH H2), andb_true_r. destruct r as [|y r]; [|exact H1]. cbn [app startsLetter] in *. change (isASCIILetter 97) with true in H1.
  rewrite andb_true_r in H1. apply negb_true_iff in H1. rewrite H1. reflexivity.
Qed.

Fixpoint iClosed (ign : bool) (src : bytes) (i : inline) : bool :=
  match i with Inl k s e _ _ ks =>
    (if k =? CharacterReferenceKind then closedVerb (sub src s e) else true) &&
    (if k =? SoftLineBreakKind then closedVerb (sub src s e) else true) &&
    (if k =? RawHTMLKind then ign || closedRaw (sub src s e) else true) &&
    forallb (iClosed ign src) ks
  end.
Fixpoint bClosed (ign : bool) (src : bytes) (b : block) : bool :=
  match b with Blk _ _ _ bk ik _ _ _ _ _ => forallb (bClosed ign src) bk && forallb (iClosed ign src) ik end.

Lemma chkL_all {A} (g : A -> bytes) (chk : A -> bytes -> bool) l :
  (forall x, In x l -> forall t, chk x t = true) -> forall t, chkL g chk l t = true.
Proof.
  induction l as [|x r IH]; intros H t; [reflexivity|]. cbn [chkL]. rewrite H by (left; reflexivity).
  apply IH. intros y Hy. apply H. right. exact Hy.
Qed.

Lemma iClosed_parts ign src i : iClosed ign src i = true ->
  (ikind i = CharacterReferenceKind -> closedVerb (spanOf src i) = true) /\
  (ikind i = SoftLineBreakKind -> closedVerb (spanOf src i) = true) /\
  (ikind i = RawHTMLKind -> ign = false -> closedRaw (spanOf src i) = true) /\
  (forall x, In x (ikids i) -> iClosed ign src x = true).
Proof.
  destruct i as [k s e ind r ks]. cbn [iClosed ikind ikids]. unfold spanOf. cbn [istart iend]. intros H.
  apply andb_true_iff in H. destruct H as [H H4]. apply andb_true_iff in H. destruct H as [H H3]. apply andb_true_iff in H. destruct H as [H1 H2].
  repeat split.
  - intros ->. exact H1.
  - intros ->. exact H2.
  - intros -> ->. exact H3.
  - rewrite forallb_forall in H4. exact H4.
Qed.

Section R.
  Variable c : cfg.
  Variable refs : list (bytes * linkDef).
  Variable src : bytes.

  Lemma chkAlt_local : forall fuel i t, iClosed (ignoreRaw c) src i = true -> chkAlt fuel src i t = true.
  Proof.
    induction fuel as [|f IH]; intros i t H; [reflexivity|]. cbn [chkAlt]. cbv zeta.
    destruct (iClosed_parts _ _ _ H) as (H1 & _ & _ & H4).
    destruct (ikind i =? TextKind); [reflexivity|].
    destruct (Z.eqb_spec (ikind i) CharacterReferenceKind) as [E|_]; [apply vsafe_any, H1, E|].
    destruct (_ || _); [reflexivity|]. destruct (_ || _); [reflexivity|].
    apply chkL_all. intros x Hx t'. apply IH, H4, Hx.
  Qed.

  Lemma chkI_local : forall fuel i t, iClosed (ignoreRaw c) src i = true -> chkI fuel c refs src i t = true.
  Proof.
    induction fuel as [|f IH]; intros i t H; [reflexivity|]. cbn [chkI]. cbv zeta.
    destruct (iClosed_parts _ _ _ H) as (H1 & H2 & H3 & H4).
    assert (Hk : forall t', chkL (renderI f c refs src) (chkI f c refs src) (ikids i) t' = true).
    { apply chkL_all. intros x Hx t'. apply IH, H4, Hx. }
    destruct ((ikind i =? TextKind) || (ikind i =? UnparsedKind)); [reflexivity|].
    destruct (Z.eqb_spec (ikind i) CharacterReferenceKind) as [E|_]; [apply vsafe_any, H1, E|].
    destruct (Z.eqb_spec (ikind i) RawHTMLKind) as [E|_].
    { destruct (ignoreRaw c) eqn:Ei; [reflexivity|]. apply joinOK_any, H3; [exact E|reflexivity]. }
    destruct (Z.eqb_spec (ikind i) SoftLineBreakKind) as [E|_].
    { destruct (softBreak c =? 2); [reflexivity|]. destruct (softBreak c =? 1); [reflexivity|].
      destruct (0 <? _); [apply vsafe_any, H2, E|reflexivity]. }
    destruct (ikind i =? HardLineBreakKind); [reflexivity|].
    destruct (ikind i =? EmphasisKind); [apply Hk|]. destruct (ikind i =? StrongKind); [apply Hk|].
    destruct (ikind i =? CodeSpanKind); [apply Hk|]. destruct (ikind i =? LinkKind); [apply Hk|].
    destruct (ikind i =? ImageKind); [apply chkAlt_local; exact H|].
    destruct (ikind i =? AutolinkKind); [reflexivity|]. destruct (ikind i =? IndentKind); [reflexivity|].
    destruct (ikind i =? HTMLTagKind); [apply Hk|reflexivity].
  Qed.

  Lemma chkB_local : forall fuel pt b t, bClosed (ignoreRaw c) src b = true -> chkB fuel c refs src pt b t = true.
  Proof.
    induction fuel as [|f IH]; intros pt b t H; [reflexivity|]. cbn [chkB]. cbv zeta.
    assert (HB : forall x, In x (bkids b) -> bClosed (ignoreRaw c) src x = true).
    { destruct b. cbn [bClosed bkids] in *. apply andb_true_iff in H. destruct H as [H _]. rewrite forallb_forall in H. exact H. }
    assert (HI : forall x, In x (bik b) -> iClosed (ignoreRaw c) src x = true).
    { destruct b. cbn [bClosed bik] in *. apply andb_true_iff in H. destruct H as [_ H]. rewrite forallb_forall in H. exact H. }
    assert (Hk : forall t',
      (match bkids b with
       | [] => chkL (fun i => renderI (isize i) c refs src i) (fun i => chkI (isize i) c refs src i) (bik b)
       | _ :: _ => chkL (renderB f c refs src (isTightList b)) (chkB f c refs src (isTightList b)) (bkids b) end) t' = true).
    { intros t'. destruct (bkids b) as [|b0 bs] eqn:E.
      - apply chkL_all. intros x Hx t''. apply chkI_local, HI, Hx.
      - apply chkL_all. intros x Hx t''. apply IH, HB, Hx. }
    destruct (bkind b =? ParagraphKind); [destruct pt; apply Hk|]. destruct (bkind b =? ThematicBreakKind); [reflexivity|].
    destruct (isHeading (bkind b)); [apply Hk|]. destruct (isCode (bkind b)); [apply Hk|].
    destruct (bkind b =? BlockQuoteKind); [apply Hk|]. destruct (bkind b =? ListKind); [destruct (isOrdered b); apply Hk|].
    destruct (bkind b =? ListItemKind); [apply Hk|]. destruct (bkind b =? HTMLBlockKind); [destruct (ignoreRaw c); [reflexivity|apply Hk]|reflexivity].
  Qed.
End R.

(* C17, second clause, under the local condition *)
Theorem C17_no_rejected_start_doc_local : forall c refs src fuel pt b, filterOn c = true -> prefix_closed (filterP c) ->
  bClosed (ignoreRaw c) src b = true ->
  forall n, In n (start_tags (renderB fuel c refs src pt b)) -> filterP c n = false.
Proof.
  intros c refs src fuel pt b Hon Hpc Hb. apply C17_no_rejected_start_doc_partial; [exact Hon|exact Hpc|]. apply chkB_local. exact Hb.
Qed.
Print Assumptions C17_no_rejected_start_doc_local.
