From Coq Require Import List ZArith Lia Bool.
Import ListNotations.
Require Import Base Tables Utf8 Tree Rdr Link Collect Html Recog Inl3a Inl3b Inl3c Inl3d Inl3e Render Safe Leaf3a Leaf3b Leaf3c.
Open Scope Z_scope.

(* ---- what parseCharacterEscape accepts is inert ---- *)
Definition inertc (c : Z) : bool := negb (c =? 60) && negb (c =? 62) && negb (c =? 34).
Lemma inertb_cons c l : inertb (c :: l) = inertc c && inertb l. Proof. reflexivity. Qed.

Lemma alnum_inert c : isASCIILetter c || isASCIIDigit c = true -> inertc c = true.
Proof.
  unfold isASCIILetter, isASCIIDigit, inertc. intros H.
  destruct (Z.eqb_spec c 60) as [->|]; [discriminate|]. destruct (Z.eqb_spec c 62) as [->|]; [discriminate|].
  destruct (Z.eqb_spec c 34) as [->|]; [discriminate|]. reflexivity.
Qed.
Lemma hex_inert c : isHex c = true -> inertc c = true.
Proof.
  unfold isHex, isASCIIDigit, inertc. intros H.
  destruct (Z.eqb_spec c 60) as [->|]; [discriminate|]. destruct (Z.eqb_spec c 62) as [->|]; [discriminate|].
  destruct (Z.eqb_spec c 34) as [->|]; [discriminate|]. reflexivity.
Qed.

Lemma pce_named_ok : forall l i acc r, pce_named l i acc = r -> 0 <= r -> 0 <= i ->
  exists k : nat, r = i + Z.of_nat k + 2 /\ (k < length l)%nat /\ inertb (firstn (S k) l) = true.
Proof.
  induction l as [|c t IH]; intros i acc r H Hr Hi; cbn [pce_named] in H; [lia|].
  destruct (c =? 59) eqn:E59.
  - destruct ((i =? 0) || negb (isEntityName (rev acc))); [lia|].
    exists O. cbn [length firstn]. split; [lia|]. split; [lia|].
    apply Z.eqb_eq in E59. subst c. reflexivity.
  - destruct (negb (isASCIILetter c) && negb (isASCIIDigit c)) eqn:En; [lia|].
    destruct (IH (i + 1) (c :: acc) r H Hr ltac:(lia)) as (k & Hk & Hlen & Hin).
    exists (S k). cbn [length]. split; [lia|]. split; [lia|].
    change (firstn (S (S k)) (c :: t)) with (c :: firstn (S k) t). rewrite inertb_cons, Hin, andb_true_r.
    apply alnum_inert. destruct (isASCIILetter c), (isASCIIDigit c); try reflexivity; discriminate.
Qed.

Lemma pce_num_ok p (Hp : forall c, p c = true -> inertc c = true) : forall l i ds r, pce_num p l i ds = r -> 0 <= r -> 0 <= i ->
  exists k : nat, r = ds + i + Z.of_nat k + 1 /\ (k < length l)%nat /\ inertb (firstn (S k) l) = true.
Proof.
  induction l as [|c t IH]; intros i ds r H Hr Hi; cbn [pce_num] in H; [lia|].
  destruct (c =? 59) eqn:E59.
  - destruct (i =? 0); [lia|]. exists O. cbn [length firstn]. split; [lia|]. split; [lia|].
    apply Z.eqb_eq in E59. subst c. reflexivity.
  - destruct (negb (p c)) eqn:En; [lia|].
    destruct (IH (i + 1) ds r H Hr ltac:(lia)) as (k & Hk & Hlen & Hin).
    exists (S k). cbn [length]. split; [lia|]. split; [lia|].
    change (firstn (S (S k)) (c :: t)) with (c :: firstn (S k) t). rewrite inertb_cons, Hin, andb_true_r.
    apply Hp. destruct (p c); [reflexivity|discriminate].
Qed.

Lemma inertb_firstn_le l n m : (n <= m)%nat -> inertb (firstn m l) = true -> inertb (firstn n l) = true.
Proof.
  revert n m; induction l as [|c t IH]; intros n m Hnm H; [rewrite firstn_nil; reflexivity|].
  destruct n as [|n]; [reflexivity|]. destruct m as [|m]; [lia|]. cbn [firstn] in *. rewrite inertb_cons in *.
  apply andb_true_iff in H. destruct H as [Hc Ht]. rewrite Hc. cbn [andb]. apply (IH n m); [lia|assumption].
Qed.

Theorem pce_inert text e : parseCharacterEscape text = e -> 0 <= e ->
  e <= len text /\ inertb (upto text e) = true.
Proof.
  unfold parseCharacterEscape. intros H He.
  destruct ((len text <? 3) || negb (at_ text 0 =? 38)) eqn:E0; [lia|].
  apply orb_false_iff in E0. destruct E0 as [E1 E2]. apply Z.ltb_ge in E1.
  destruct text as [|c0 [|c1 [|c2 t]]]; try (unfold len in E1; cbn in E1; lia).
  assert (c0 = 38).
  { unfold at_ in E2. cbn in E2. destruct (Z.eqb_spec c0 38); [assumption|discriminate]. }
  subst c0.
  change (at_ (38 :: c1 :: c2 :: t) 1) with c1 in H.
  change (at_ (38 :: c1 :: c2 :: t) 2) with c2 in H.
  unfold upto, len. destruct (c1 =? 35) eqn:E35; cbn [negb] in H.
  - (* numeric *)
    apply Z.eqb_eq in E35. subst c1.
    destruct ((c2 =? 120) || (c2 =? 88)) eqn:Ex.
    + unfold from_, upto in H. change (skipn (Z.to_nat 3) (38 :: 35 :: c2 :: t)) with t in H.
      destruct (pce_num_ok isHex hex_inert _ _ _ _ H He ltac:(lia)) as (k & Hk & Hlen & Hin).
      rewrite firstn_length in Hlen.
      split; [cbn [length]; lia|].
      replace (Z.to_nat e) with (S (S (S (S k)))) by lia.
      change (firstn (S (S (S (S k)))) (38 :: 35 :: c2 :: t)) with (38 :: 35 :: c2 :: firstn (S k) t). rewrite !inertb_cons.
      assert (inertc c2 = true).
      { apply orb_true_iff in Ex. destruct Ex as [Ex|Ex]; apply Z.eqb_eq in Ex; subst c2; reflexivity. }
      rewrite H0. cbn [andb]. change (inertc 38) with true. change (inertc 35) with true. cbn [andb].
      rewrite firstn_firstn in Hin. eapply inertb_firstn_le; [|exact Hin]. lia.
    + unfold from_, upto in H. change (skipn (Z.to_nat 2) (38 :: 35 :: c2 :: t)) with (c2 :: t) in H.
      destruct (pce_num_ok isASCIIDigit (fun c Hc => alnum_inert c ltac:(rewrite Hc; apply orb_true_r)) _ _ _ _ H He ltac:(lia)) as (k & Hk & Hlen & Hin).
      rewrite firstn_length in Hlen. cbn [length] in Hlen.
      split; [cbn [length]; lia|].
      replace (Z.to_nat e) with (S (S (S k))) by lia.
      change (firstn (S (S (S k))) (38 :: 35 :: c2 :: t)) with (38 :: 35 :: firstn (S k) (c2 :: t)).
      rewrite !inertb_cons. change (inertc 38) with true. change (inertc 35) with true. cbn [andb].
      rewrite firstn_firstn in Hin. eapply inertb_firstn_le; [|exact Hin]. lia.
  - (* named *)
    unfold from_ in H. change (skipn (Z.to_nat 1) (38 :: c1 :: c2 :: t)) with (c1 :: c2 :: t) in H.
    destruct (pce_named_ok _ _ _ _ H He ltac:(lia)) as (k & Hk & Hlen & Hin).
    cbn [length] in Hlen. split; [cbn [length]; lia|].
    replace (Z.to_nat e) with (S (S k)) by lia.
    change (firstn (S (S k)) (38 :: c1 :: c2 :: t)) with (38 :: firstn (S k) (c1 :: c2 :: t)).
    rewrite inertb_cons. change (inertc 38) with true. cbn [andb]. exact Hin.
Qed.

(* the accepted reference, as a span of the source *)
Lemma sub_upto_prefix (src : bytes) pos lim e : 0 <= e -> e <= len (sub src pos lim) -> sub src pos (pos + e) = upto (sub src pos lim) e.
Proof.
  intros He Hle. unfold sub, upto, len in *. replace (pos + e - pos) with e by lia.
  rewrite firstn_firstn. f_equal. rewrite firstn_length in Hle. lia.
Qed.

Corollary charref_localok src pos lim e : parseCharacterEscape (sub src pos lim) = e -> 0 <= e ->
  localok src CharacterReferenceKind pos (pos + e) = true.
Proof.
  intros H He. destruct (pce_inert _ _ H He) as (Hle & Hin).
  unfold localok. cbn. rewrite (sub_upto_prefix src pos lim e He Hle), Hin. reflexivity.
Qed.

(* single bytes and CRLF *)
Lemma sub_one (src : bytes) pos : at_ src pos <> 0 -> sub src pos (pos + 1) = [at_ src pos].
Proof.
  intros H. unfold at_ in *. destruct (Z.ltb_spec pos 0); [contradiction|].
  unfold sub, upto, from_. replace (pos + 1 - pos) with 1 by lia. cbn [Z.to_nat Pos.to_nat Pos.iter_op Nat.add firstn].
  assert (Hlt : (Z.to_nat pos < length src)%nat).
  { destruct (Nat.lt_ge_cases (Z.to_nat pos) (length src)) as [Hl|Hl]; [assumption|]. rewrite (nth_overflow src 0 Hl) in H. contradiction. }
  revert Hlt H. generalize (Z.to_nat pos). intros n. revert src. induction n as [|n IH]; intros src Hlt H.
  - destruct src; [cbn in Hlt; lia|reflexivity].
  - destruct src as [|x src]; [cbn in Hlt; lia|]. cbn [skipn nth] in *. apply IH; [cbn in Hlt; lia|assumption].
Qed.
Lemma sub_two (src : bytes) pos : at_ src pos <> 0 -> at_ src (pos + 1) <> 0 -> sub src pos (pos + 2) = [at_ src pos; at_ src (pos + 1)].
Proof.
  intros H1 H2.
  assert (Hs : sub src pos (pos + 2) = sub src pos (pos + 1) ++ sub src (pos + 1) (pos + 1 + 1)).
  { unfold at_ in H1. destruct (Z.ltb_spec pos 0); [contradiction|].
    unfold sub, upto, from_. replace (pos + 2 - pos) with 2 by lia. replace (pos + 1 - pos) with 1 by lia.
    replace (pos + 1 + 1 - (pos + 1)) with 1 by lia.
    replace (Z.to_nat 2) with (1 + 1)%nat by reflexivity.
    replace (Z.to_nat (pos + 1)) with (1 + Z.to_nat pos)%nat by lia.
    change (Z.to_nat 1) with 1%nat.
    rewrite firstn_add'. f_equal. rewrite skipn_skipn'. reflexivity. }
  rewrite Hs, sub_one, sub_one by assumption. reflexivity.
Qed.
