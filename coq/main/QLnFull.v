(* QLnFull.v -- T64 (renderer): QRenderDefs.lineOK for EVERY input.
   Block layer: QLnDrv.parseBlocks_okRL (the children of InfoString / LinkLabel / LinkDestination / LinkTitle entries that are character
   references consist of character-reference bytes of the buffer; SoftLineBreak entries are empty);
   inline pass: QLnInlSt2.parseInlines_LNI on every leaf block with an Unparsed entry (L2Kind2: its entries are childless Unparsed /
   RawHTML / Indent entries); valid spans: Props C13 (PropsFull.C13_full). *)
From Coq Require Import List ZArith Lia Bool.
Import ListNotations.
Require Import Base Tables Utf8 Tree Rdr Link Collect Inl3a Inl3e LP Driver Render Props ShapesBase GI0 BlockShapesNul.
Require Import QLnDefs QLnInlG QLnInlSt QLnInlSt2 QLnInv1 QLnDrv QRenderDefs.
Require L2Kind2 GramInline GI6 PropsFull En2OK.
Open Scope Z_scope.

(* the node condition, guarded by the validity of the span *)
Definition gnode (src : bytes) (k s e : Z) : bool := negb (span_valid (len src) s e) || nodeOK src k s e.
Fixpoint GLN (src : bytes) (i : inline) : bool :=
  match i with Inl k s e _ _ ks => gnode src k s e && forallb (GLN src) ks end.
Fixpoint GLNB (src : bytes) (b : block) : bool :=
  match b with Blk _ _ _ bk ik _ _ _ _ _ => forallb (GLN src) ik && forallb (GLNB src) bk end.
Lemma GLNB_eq src b : GLNB src b = forallb (GLN src) (bik b) && forallb (GLNB src) (bkids b).
Proof. destruct b; reflexivity. Qed.

Lemma LNI_GLN src : forall i, LNI src i = true -> GLN src i = true.
Proof.
  fix IH 1. intros [k s e ind rf ks] H. cbn [LNI GLN] in *. apply andb_true_iff in H. destruct H as [A B]. unfold gnode. rewrite A, orb_true_r. cbn [andb].
  induction ks as [|x l IHl]; [reflexivity|]. cbn [forallb] in *. apply andb_true_iff in B. destruct B as [B1 B2]. rewrite (IH x B1), (IHl B2). reflexivity.
Qed.

(* ---- the entries the block layer leaves ---- *)
Section Root.
  Variables (B src : bytes) (n : Z).
  Hypothesis Hn : 0 <= n <= len B.
  Hypothesis Esrc : src = fillNulls (upto B n).
  Hypothesis Htri : tri (upto B n).

  Lemma len_src : len src = n.
  Proof. rewrite Esrc, En2OK.len_fillNulls, ShapesBase.len_upto. lia. Qed.
  Lemma crb_src x : 0 <= x < n -> crb (at_ B x) = true -> crb (at_ src x) = true.
  Proof.
    intros Hx Hc. pose proof (F2_at (upto B n) src x ltac:(rewrite Esrc; apply fill_tri, Htri)) as S.
    rewrite ShapesBase.at_upto in S by lia. pose proof (crb_nz _ Hc) as Nz.
    destruct S as [[[_ E]|[E _]]|[E _]]; [rewrite E; exact Hc|contradiction|contradiction].
  Qed.

  Lemma kid_GLN k : kidOK B k = true -> GLN src k = true.
  Proof.
    unfold kidOK. rewrite !andb_true_iff. intros [[Hk Hkind] Hc]. apply nilb_true in Hk. destruct k as [kd s e ind rf ks]. cbn [ikids ikind] in *. subst ks.
    cbn [GLN forallb]. rewrite andb_true_r. unfold gnode. destruct (span_valid (len src) s e) eqn:Ev; [|reflexivity]. cbn [negb orb].
    unfold span_valid in Ev. rewrite !andb_true_iff, !Z.leb_le, len_src in Ev. destruct Ev as [[V1 V2] V3].
    unfold nodeOK. destruct (Z.eqb_spec kd CharacterReferenceKind) as [Ek|Nk].
    - destruct (crOK_elim B _ Hc Ek ltac:(cbn [istart]; lia) ltac:(cbn [istart iend]; lia)) as (_ & _ & _ & R). cbn [istart iend] in R.
      rewrite rng_spec in *. intros x Hx. apply crb_src; [lia|apply R, Hx].
    - unfold kkind in Hkind. destruct (kd =? SoftLineBreakKind) eqn:Es; [|reflexivity]. apply Z.eqb_eq in Es. subst kd. discriminate Hkind.
  Qed.
  Lemma entry_GLN u : eE B u = true -> GLN src u = true.
  Proof.
    unfold eE. destruct u as [kd s e ind rf ks]. cbn [ikind ikids]. destruct (isExK kd) eqn:Ex.
    - intros H. cbn [GLN]. apply andb_true_iff. split.
      + unfold gnode. rewrite nodeOK_other; [apply orb_true_r|].
        unfold isExK in Ex. unfold brk. destruct (Z.eqb_spec kd CharacterReferenceKind) as [->|_]; [discriminate Ex|].
        destruct (Z.eqb_spec kd SoftLineBreakKind) as [->|_]; [discriminate Ex|reflexivity].
      + apply forallb_forall. intros k Hk. rewrite forallb_forall in H. apply kid_GLN, H, Hk.
    - intros H. apply andb_true_iff in H. destruct H as [Hk Hs]. apply nilb_true in Hk. subst ks. cbn [GLN forallb]. rewrite andb_true_r.
      unfold gnode. destruct (span_valid (len src) s e) eqn:Ev; [|reflexivity]. cbn [negb orb].
      unfold span_valid in Ev. rewrite !andb_true_iff, !Z.leb_le in Ev. destruct Ev as [[V1 V2] V3].
      unfold slOK in Hs. cbn [ikind istart iend] in Hs. apply andb_true_iff in Hs. destruct Hs as [Hc Hs]. apply negb_true_iff in Hc.
      unfold nodeOK. rewrite Hc. destruct (kd =? SoftLineBreakKind); [|reflexivity]. cbn [andb] in Hs.
      destruct (Z.leb_spec 0 s); [|lia]. destruct (Z.leb_spec s e); [|lia]. cbn [andb negb orb] in Hs. apply Z.leb_le in Hs. apply rng_empty. lia.
  Qed.
  Lemma block_GLN : forall b, QLnInv1.inv B b = true -> GLNB src b = true.
  Proof.
    fix IH 1. intros [k s e bk ik a nn c l lb] H. cbn [QLnInv1.inv GLNB] in *. apply andb_true_iff in H. destruct H as [Hi Hk]. apply andb_true_iff. split.
    - apply forallb_forall. intros u Hu. rewrite forallb_forall in Hi. apply entry_GLN, Hi, Hu.
    - clear Hi. induction bk as [|x r IHr]; [reflexivity|]. cbn [forallb] in *. apply andb_true_iff in Hk. destruct Hk as [A1 A2]. rewrite (IH x A1), (IHr A2). reflexivity.
  Qed.

  (* ---- through the inline pass ---- *)
  Lemma leaf_entries b : forallb (L2Kind2.ek (bkind b)) (bik b) = true -> hasUnparsed b = true -> forall u, In u (bik b) -> entOK u.
  Proof.
    intros Hek Hu u Hin. destruct (GramInline.hasUnparsed_kind b Hek Hu) as [Hc Hr].
    pose proof (GramInline.ek_eok _ _ Hek Hc Hr) as He. rewrite forallb_forall in He. specialize (He u Hin).
    unfold GI6.eok in He. apply andb_true_iff in He. destruct He as [Hk Hn0]. apply nilb_true in Hn0. split; [exact Hn0|].
    unfold brk. apply orb_true_iff in Hk. destruct Hk as [Hk|Hk]; [apply orb_true_iff in Hk; destruct Hk as [Hk|Hk]|]; apply Z.eqb_eq in Hk; rewrite Hk; reflexivity.
  Qed.

  Lemma rewriteB_GLN m : forall fuel b, QLnInv1.inv B b = true -> L2Kind2.inv b = true -> GLNB src (rewriteB fuel src m b) = true.
  Proof.
    induction fuel as [|f IH]; intros b Hi Hk; [apply block_GLN, Hi|]. cbn [rewriteB].
    pose proof (block_GLN b Hi) as Hb. rewrite GLNB_eq in Hb. apply andb_true_iff in Hb. destruct Hb as [Hb1 Hb2].
    pose proof (L2Kind2.inv_parts _ Hk) as [Hek Hkk].
    destruct ((0 <? len (bik b)) && hasUnparsed b) eqn:Ec.
    - apply andb_true_iff in Ec. destruct Ec as [_ Eu]. rewrite GLNB_eq.
      replace (bik (set_bik b (parseInlines src m b))) with (parseInlines src m b) by (destruct b; reflexivity).
      replace (bkids (set_bik b (parseInlines src m b))) with (bkids b) by (destruct b; reflexivity).
      rewrite Hb2, andb_true_r. pose proof (parseInlines_LNI src m b (leaf_entries b Hek Eu)) as HL.
      apply forallb_forall. intros x Hx. rewrite forallb_forall in HL. apply LNI_GLN, HL, Hx.
    - rewrite GLNB_eq.
      replace (bik (set_bkids b (map (rewriteB f src m) (bkids b)))) with (bik b) by (destruct b; reflexivity).
      replace (bkids (set_bkids b (map (rewriteB f src m) (bkids b)))) with (map (rewriteB f src m) (bkids b)) by (destruct b; reflexivity).
      rewrite Hb1. cbn [andb]. apply forallb_forall. intros y Hy. apply in_map_iff in Hy. destruct Hy as (x & <- & Hx).
      apply IH.
      + destruct b as [k s e bk ik a nn c l lb]. cbn [QLnInv1.inv bkids] in *. apply andb_true_iff in Hi. destruct Hi as [_ Hi]. rewrite forallb_forall in Hi. apply Hi, Hx.
      + unfold L2Kind2.invL in Hkk. rewrite forallb_forall in Hkk. apply Hkk, Hx.
  Qed.
End Root.

Theorem parseFull_GLN : forall input, forallb (fun r => GLNB (rb_src r) (rb_blk r)) (fst (parseFull input)) = true.
Proof.
  intros input. pose proof (parseBlocks_okRL input) as H1. pose proof (L2Kind2.parseBlocks_kinds input) as H2.
  unfold parseFull. destruct (parseBlocks input) as [roots code]. cbn [fst] in *.
  apply forallb_forall. intros r Hr. apply in_map_iff in Hr. destruct Hr as (r0 & <- & Hr0). cbn [rb_src rb_blk].
  rewrite Forall_forall in H1, H2. destruct (H1 r0 Hr0) as (B & M & Hb & Es & _ & Ht & Hi & _).
  apply (rewriteB_GLN B (rb_src r0) (bend (rb_blk r0)) Hb Es Ht); [exact Hi|apply H2, Hr0].
Qed.
Print Assumptions parseFull_GLN.

(* ---- from the guarded condition and the valid spans of C13 to the checker lineOK ---- *)
Lemma rng_noLFl (P : Z -> bool) src s e' : (forall c, P c = true -> nlf c = true) -> 0 <= s -> rng P src s e' = true -> noLFl (sub src s e') = true.
Proof.
  intros HP Hs H. unfold noLFl. apply forallb_at. intros i Hi. pose proof (len_sub_le src s e') as Hl.
  rewrite at_sub by lia. rewrite rng_spec in H. apply (HP _ (H (s + i) ltac:(lia))).
Qed.
Lemma lineI_of src : forall i, shapesI src i = true -> GLN src i = true -> lineI src i = true.
Proof.
  fix IH 1. intros [k s e ind rf ks] Hs Hg. cbn [shapesI GLN lineI] in *.
  apply andb_true_iff in Hs. destruct Hs as [Hs Hsk]. apply andb_true_iff in Hs. destruct Hs as [Hv _].
  apply andb_true_iff in Hg. destruct Hg as [Hg Hgk]. unfold gnode in Hg. rewrite Hv in Hg. cbn [negb orb] in Hg.
  unfold span_valid in Hv. rewrite !andb_true_iff, !Z.leb_le in Hv. destruct Hv as [[V1 V2] V3].
  apply andb_true_iff. split.
  - unfold brK. unfold nodeOK in Hg. destruct (k =? CharacterReferenceKind).
    + cbn [orb]. apply (rng_noLFl crb); [apply crb_nlf|exact V1|]. revert Hg. apply rng_sub; lia.
    + cbn [orb]. destruct (k =? SoftLineBreakKind); [|reflexivity]. apply (rng_noLFl nlf); [tauto|exact V1|exact Hg].
  - destruct (leafK k); [reflexivity|]. clear Hg. induction ks as [|x l IHl]; [reflexivity|]. cbn [forallb] in *.
    apply andb_true_iff in Hsk, Hgk. destruct Hsk as [A1 A2]. destruct Hgk as [B1 B2]. rewrite (IH x A1 B1), (IHl A2 B2). reflexivity.
Qed.
Lemma lineB_of src : forall b, shapesB src b = true -> GLNB src b = true -> lineB src b = true.
Proof.
  fix IH 1. intros [k s e bk ik a nn c l lb] Hs Hg. cbn [shapesB GLNB lineB] in *.
  rewrite !andb_true_iff in Hs. destruct Hs as [[_ Hsb] Hsi]. apply andb_true_iff in Hg. destruct Hg as [Hgi Hgb]. apply andb_true_iff. split.
  - apply forallb_forall. intros x Hx. rewrite forallb_forall in Hsi, Hgi. apply lineI_of; [apply Hsi, Hx|apply Hgi, Hx].
  - clear Hsi Hgi. induction bk as [|x r IHr]; [reflexivity|]. cbn [forallb] in *.
    apply andb_true_iff in Hsb, Hgb. destruct Hsb as [A1 A2]. destruct Hgb as [B1 B2]. rewrite (IH x A1 B1), (IHr A2 B2). reflexivity.
Qed.

(* character references and soft line breaks contain a line feed only as their last byte: for EVERY input *)
Theorem lineOK_all : forall D, lineOK D = true.
Proof.
  intros D. unfold lineOK. pose proof (parseFull_GLN D) as H1. pose proof (PropsFull.C13_full D) as H2.
  apply forallb_forall. intros r Hr. rewrite forallb_forall in H1, H2. apply lineB_of; [apply (H2 r Hr)|apply (H1 r Hr)].
Qed.
Print Assumptions lineOK_all.
