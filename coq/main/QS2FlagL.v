(* QS2FlagL.v -- T58b part L: TopPara is an invariant of the plain run.
   TopPara_processLine : after a line of the document, the last top-level child, when it is an open paragraph, ends with the
                         text of that line (an Unparsed entry up to the end of the line, not blank).
   TopPara_agree       : the source may grow (the next line is appended).
   TopPara_shift       : makeRoot's cut (from_ / shiftB). *)
From Coq Require Import List ZArith Lia Bool.
Import ListNotations.
Require Import Base Tree Rdr Link Collect Html Recog LP Rules Starts Driver Rec17 L2Kind2 L2CC TDefs TOcp TInv TDesc TStarts TLine NoPanic47 BSOrph
  QS2FlagA QS2FlagB QS2FlagC QS2FlagD QS2FlagG QS2FlagH QS2FlagI QS2FlagJ QS2FlagK.
Open Scope Z_scope.

Definition noOpenSetext (ks : list block) : Prop := forall pre c, ks = pre ++ [c] -> isOpen c = true -> bkind c <> SetextHeadingKind.
Lemma GoodL_noOpenSetext lo ks : GoodL lo ks -> noOpenSetext ks.
Proof.
  intros HG pre c E Ho. rewrite E in HG. apply GoodL_app_inv in HG; [|discriminate]. destruct HG as (_ & _ & HG). cbn [GoodL] in HG. rewrite Ho in HG. apply HG.
Qed.

Lemma TopPara_TopP src M ks : TopP src M (Blk documentKind 0 (-1) ks [] 0 0 0 false false) -> TopPara src M ks.
Proof.
  intros H pre0 c E Ho Hk. apply (H c); [unfold lastBlock; cbn [bkids]; rewrite E, rev_app_distr; reflexivity|exact Ho|exact Hk].
Qed.

(* ---- deferredClose when the line has been consumed ---- *)
Lemma TopNP_K M p : ccP p -> K M p -> state p = stLineConsumed -> containerKind p <> ParagraphKind -> TopNP (root p).
Proof.
  intros Hc [A B] S2 Nk. destruct (cdepth p) as [|[|d]] eqn:Ed.
  - apply (TopNP_done M). apply B; [exact S2|reflexivity].
  - apply (TopNP_cont p Hc Ed Nk).
  - apply (TopNP_deep p Hc). lia.
Qed.
Lemma TopNP_deferredClose_done M p : ccP p -> K M p -> state p = stLineConsumed -> containerKind p <> ParagraphKind -> TopNP (root (deferredClose p)).
Proof.
  intros Hc HK S2 Nk. pose proof (TopNP_K M p Hc HK S2 Nk) as HT. unfold deferredClose. cbv zeta. destruct (_ && _); [exact HT|].
  pose proof (ccP_closeHere p (lineStart p) Hc) as Hc'.
  destruct (cdepth p) as [|[|d]] eqn:Ed.
  - destruct HK as [_ B]. specialize (B S2 Ed). rewrite closeLastChildAt_eq. cbn [root withRoot setLP updAt]. unfold TInv.closeF.
    destruct (lastBlock (root p)) as [c|] eqn:El; [|intros b Hb; rewrite El in Hb; discriminate].
    destruct (B c El) as [Hcl _]. rewrite (closeBlock_closed _ _ c _ Hcl).
    intros b Hb Hob. rewrite (lastBlock_set_lastBlocks_one (root p) c) in Hb. inversion Hb; subst b. congruence.
  - apply (TopNP_cont _ Hc'); [exact Ed|]. rewrite <- Ed. rewrite containerKind_closeHere. exact Nk.
  - apply (TopNP_deep _ Hc'). change (cdepth (closeLastChildAt p (S (S d)) (lineStart p))) with (cdepth p). lia.
Qed.

(* ---- the state handed to addLineText ---- *)
Definition P1 (q : lp) : Prop := containerKind q = ParagraphKind -> isRestBlank q = false.
Definition P2c (q : lp) : Prop := cdepth q = O -> TopNP (root q).

Lemma same_keep p p' : p' = p \/ p' = withState p stOpening ->
  root p' = root p /\ container p' = container p /\ li p' = li p /\ line p' = line p /\ lineStart p' = lineStart p /\ source p' = source p.
Proof. intros [-> | ->]; repeat split; reflexivity. Qed.

Lemma final_true p1 am p' :
  ccP p1 -> 0 <= lineStart p1 -> P1 p1 ->
  (am = true -> cdepth p1 = O -> forall c, lastBlock (root p1) = Some c -> isOpen c = false) ->
  (forall c, lastBlock (root p1) = Some c -> isOpen c = true -> bkind c <> SetextHeadingKind) ->
  ccP p' -> ((p' = p1 \/ p' = withState p1 stOpening) \/ ((1 <= cdepth p')%nat /\ containerKind p' <> ParagraphKind)) ->
  P1 (if am then p' else deferredClose p') /\ P2c (if am then p' else deferredClose p').
Proof.
  intros Hc1 H0 HP1 HD2 HD4 Hc' Hcase.
  assert (HP1' : P1 p').
  { destruct Hcase as [Hk|[_ Nk]]; [|intros E0; contradiction]. destruct (same_keep p1 p' Hk) as (A & B & C & D & _).
    unfold P1, containerKind, contBlock, cdepth, isRestBlank, rest. rewrite A, B, C, D. exact HP1. }
  destruct am.
  - split; [exact HP1'|]. intros Ed. destruct Hcase as [Hk|[Hd _]]; [|lia]. destruct (same_keep p1 p' Hk) as (A & B & _).
    rewrite A. intros c Hl Ho. exfalso. rewrite (HD2 eq_refl ltac:(unfold cdepth in *; rewrite <- B; exact Ed) c Hl) in Ho. discriminate.
  - unfold deferredClose. cbv zeta.
    destruct (getAt (tipDepth (bheight (root p')) (root p')) (root p')) as [t|] eqn:Et.
    + destruct (negb (isRestBlank p') && (bkind t =? ParagraphKind)) eqn:Ec.
      * apply andb_true_iff in Ec. destruct Ec as [Eb Ek]. apply negb_true_iff in Eb. apply Z.eqb_eq in Ek. split; [intros _; exact Eb|].
        intros Ed. exfalso. cbn [cdepth container withCont setLP] in Ed. rewrite Ed in Et. cbn [getAt] in Et. inversion Et; subst t.
        destruct Hc' as (A & _). rewrite A in Ek. discriminate.
      * split.
        -- unfold P1. rewrite containerKind_closeHere. exact HP1'.
        -- intros Ed. change (cdepth (closeLastChildAt p' (cdepth p') (lineStart p'))) with (cdepth p') in Ed.
           destruct Hcase as [Hk|[Hd _]]; [|lia]. destruct (same_keep p1 p' Hk) as (A & B & C & D & E0 & E1).
           rewrite Ed. rewrite closeLastChildAt_eq. cbn [root withRoot setLP updAt]. unfold TInv.closeF. rewrite A, E0, E1.
           destruct (lastBlock (root p1)) as [c|] eqn:El; [|intros b Hb; rewrite El in Hb; discriminate].
           destruct (isOpen c) eqn:Eo.
           ++ destruct (bheight_S (root p1)) as [f Ef]. rewrite Ef.
              destruct (closeBlock_last_np f (source p1) c (lineStart p1) Eo (HD4 c eq_refl Eo) H0) as (pre & x & E2 & Hx).
              rewrite E2. intros b Hb Hob Hkb. rewrite lastBlock_set_lastBlocks_snoc in Hb. inversion Hb; subst b. destruct Hx as [Hx|Hx]; [congruence|contradiction].
           ++ rewrite (closeBlock_closed _ _ c _ Eo). intros b Hb Hob. rewrite (lastBlock_set_lastBlocks_one (root p1) c) in Hb. inversion Hb; subst b. congruence.
    + rewrite andb_false_r. split.
      * unfold P1. rewrite containerKind_closeHere. exact HP1'.
      * intros Ed. change (cdepth (closeLastChildAt p' (cdepth p') (lineStart p'))) with (cdepth p') in Ed.
        exfalso. destruct Hc' as (_ & _ & (x & Hx)). clear - Et.
        (* the tip always exists *)
        assert (G : forall fuel r, exists y, getAt (tipDepth fuel r) r = Some y).
        { induction fuel as [|f IH]; intros r; [exists r; reflexivity|]. cbn [tipDepth]. destruct (lastBlock r) as [c|] eqn:El; [|exists r; reflexivity].
          destruct (isOpen c); [|exists r; reflexivity]. destruct (IH c) as (y & Hy). exists y. rewrite getAt_S, El. exact Hy. }
        destruct (G (bheight (root p')) (root p')) as (y & Hy). congruence.
Qed.

(* the descent does not depend on the state when the last child is open and has a match rule *)
Lemma descend_state_irrel f p s : HM (ks p) -> descend_loop (S f) p O = descend_loop (S f) (withState p s) O.
Proof.
  intros (pre & c & Ek & Ho & Hh). cbn [descend_loop]. cbv zeta. change (root (withState p s)) with (root p).
  rewrite getAt_1. unfold ks in Ek. rewrite (lastBlock_snoc _ _ _ Ek). rewrite Ho, Hh. cbn [negb]. reflexivity.
Qed.

Theorem TopPara_processLine st children ls src :
  0 <= ls -> ccF children = true -> (st = stDescendTerminated -> HM children) -> from_ src ls <> [] -> noOpenSetext children ->
  TopPara src (ls + len (from_ src ls)) (fst (fst (processLine st children ls src))).
Proof.
  intros Hls Hc Hst Hne HNS. set (M := ls + len (from_ src ls)). apply TopPara_TopP.
  unfold processLine. cbv zeta.
  set (p00 := resetLP st children ls src).
  destruct (bheight_S (root p00)) as [f0 Ef0].
  (* normalise a stale stDescendTerminated *)
  set (p0 := if st =? stDescendTerminated then withState p00 stDescending else p00).
  assert (Ed0 : descendOpenBlocks p00 = descend_loop (bheight (root p00)) p0 O).
  { unfold descendOpenBlocks, p0. destruct (Z.eqb_spec st stDescendTerminated) as [E0|N0]; [|reflexivity]. rewrite Ef0. apply descend_state_irrel. apply Hst, E0. }
  rewrite Ed0.
  assert (Er0 : root p0 = root p00 /\ lineStart p0 = ls /\ line p0 = from_ src ls /\ li p0 = 0 /\ cdepth p0 = O /\ source p0 = src)
    by (unfold p0; destruct (_ =? _); repeat split; reflexivity).
  destruct Er0 as (Er0 & Els0 & Eln0 & Eli0 & Ecd0 & Esrc0).
  assert (S0 : state p0 <> stDescendTerminated).
  { unfold p0. destruct (Z.eqb_spec st stDescendTerminated) as [E0|N0]; [cbn; discriminate|exact N0]. }
  assert (H0 : F p0).
  { assert (H00 : F p00) by (split; [|split; cbn; discriminate]; unfold ccP, wf, p00, resetLP, cdepth; cbn [root container]; split; [reflexivity|split; [exact Hc|eexists; reflexivity]]).
    unfold p0. destruct (_ =? _); exact H00. }
  assert (HC0 : CU p0) by (unfold CU; rewrite Els0, Eln0, Eli0; split; [exact Hls|]; unfold len; lia).
  assert (Hw0 : exists x, getAt O (root p0) = Some x) by (eexists; reflexivity).
  assert (HM0 : Mp p0 = M) by (unfold Mp; rewrite Els0, Eln0; reflexivity).
  pose proof (W_descend_loop (bheight (root p00)) M p0 O H0 HC0 (POr_0 _) HM0 Hw0 ltac:(intros E0; contradiction)) as HD. cbv zeta in HD.
  pose proof (descend_extra (bheight (root p00)) p0 O H0 HC0 Hw0
                ltac:(intros x Hx Hk; exfalso; cbn [getAt] in Hx; inversion Hx; subst x; rewrite Er0 in Hk; discriminate)) as HX. cbv zeta in HX.
  pose proof (descend_spec (bheight (root p00)) p0 O HC0 ltac:(intros E0; contradiction)) as HS.
  pose proof (descend_top_closed f0 p0 H0 HC0) as HT. rewrite <- Ef0 in HT.
  destruct (descend_loop (bheight (root p00)) p0 O) as [am p1] eqn:Ed. cbn [fst snd] in *.
  destruct HD as (HF1 & HC1 & HM1 & HD). destruct HX as (_ & HX1 & HX2). destruct HS as (Henv & _ & _ & HS).
  destruct Henv as (Els1 & Eln1 & Esrc1). rewrite Els0 in Els1. rewrite Eln0 in Eln1. rewrite Esrc0 in Esrc1.
  assert (Hshape : forall q, TopP src M (root q) -> TopP src M (Blk documentKind 0 (-1) (bkids (root q)) [] 0 0 0 false false)).
  { intros q H c Hl. apply H. exact Hl. }
  destruct (Z.eqb_spec (state p1) stDescendTerminated) as [S4|S4]; cbn [negb].
  - cbn [fst]. apply Hshape. apply TopP_NP. apply HX2; assumption.
  - destruct HD as [[_ HP1]|[E0 _]]; [|contradiction].
    assert (HV : V M p1) by (split; [exact HF1|split; [exact HC1|split; [exact HP1|exact HM1]]]).
    assert (Hl : len (line p1) <> 0) by (rewrite Eln1; destruct (from_ src ls); [congruence|]; unfold len; cbn [length]; lia).
    pose proof (openNewBlocks_good p1 am) as HG. pose proof (F_openNewBlocks p1 am HF1) as HF2.
    unfold openNewBlocks in *. replace (len (line p1) =? 0) with false in * by (symmetry; apply Z.eqb_neq; exact Hl).
    pose proof (opening_loop2 (S (length (line p1))) M p1 HV) as (O1 & O2 & O3).
    pose proof (envS_opening_loop (S (length (line p1))) p1) as (Els2 & Eln2 & Esrc2).
    destruct (opening_loop (S (length (line p1))) p1) as [ht p'] eqn:Eo. cbn [fst snd] in *.
    destruct O1 as (HF' & HC' & HP' & HM').
    assert (Hq : exists q, (if am then (ht, p') else (ht, deferredClose p')) = (ht, q) /\ q = (if am then p' else deferredClose p')) by (destruct am; eexists; split; reflexivity).
    destruct Hq as (q & Eq1 & Eq2). rewrite Eq1 in *. cbn [fst snd] in *.
    destruct ht; cbn [fst].
    + (* text is added *)
      apply Hshape.
      assert (HS1 : ksRel (ks p0) (ks p1)) by (destruct HS as [[A _]|(_ & B & _)]; [exact A|contradiction]).
      assert (HD4 : forall c, lastBlock (root p1) = Some c -> isOpen c = true -> bkind c <> SetextHeadingKind).
      { intros c Hl1 Ho1. destruct HS1 as [[A1 A2]|(pre & c0 & c' & A1 & A2 & A3)].
        - exfalso. unfold ks in A2. apply lastBlock_ne in Hl1. contradiction.
        - unfold ks in A1, A2. rewrite (lastBlock_snoc _ _ _ A2) in Hl1. inversion Hl1; subst c'.
          rewrite Er0 in A1. change (bkids (root p00)) with children in A1.
          pose proof (shEq_isOpen _ _ A3) as Hio. destruct A3 as (_ & Hk & _). rewrite Hk. apply (HNS pre c0 A1). rewrite <- Hio. exact Ho1. }
      destruct (final_true p1 am p' (proj1 HF1) ltac:(apply HC1) ltac:(intros Ek; apply HX1; [exact S4|exact Ek])
                  ltac:(intros Ea Ec c Hl1; apply HT; [rewrite Ea; reflexivity|exact Ec|exact S4|exact Hl1]) HD4 (proj1 HF') (O3 eq_refl)) as [Q1 Q2].
      rewrite <- Eq2 in Q1, Q2.
      assert (Eq : lineStart q = ls /\ line q = from_ src ls /\ li q = li p' /\ 0 <= li q <= len (line q)).
      { rewrite Eq2. destruct am.
        - split; [congruence|]. split; [congruence|]. split; [reflexivity|apply HC'].
        - destruct (envS_deferredClose p') as (A & B & _). rewrite A, B, li_deferredClose. split; [congruence|]. split; [congruence|]. split; [reflexivity|apply HC']. }
      destruct Eq as (Q3 & Q4 & Q5 & Q6).
      apply (TopP_addLineText src M q).
      * apply HF2.
      * split; [lia|exact Q6].
      * apply HG. reflexivity.
      * rewrite Q3, Q4. reflexivity.
      * unfold Mp. rewrite Q3, Q4. reflexivity.
      * exact Q1.
      * exact Q2.
    + (* the line was consumed by a block start *)
      apply Hshape. apply TopP_NP. destruct (O2 eq_refl) as (S2 & HK & Nk). rewrite Eq2. destruct am.
      * apply (TopNP_K M p' (proj1 HF') HK S2 Nk).
      * apply (TopNP_deferredClose_done M p' (proj1 HF') HK S2 Nk).
Qed.
Print Assumptions TopPara_processLine.
