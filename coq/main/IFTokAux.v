From Coq Require Import List ZArith Lia Bool.
Import ListNotations.
Require Import Base Tables Utf8 Tree Rdr Link Collect Html Recog Inl3a Inl3b Inl3c Inl3d Inl3e Driver.
Require Import ShapesBase ShapesR Leaf3e RdrBound IFBase IFLink IFTokDef IFFrame.
Open Scope Z_scope.

(* ================================================================ the cursor upos: which functions leave it alone *)
Definition ux (st st' : ist) : Prop := upos st' = upos st.
Lemma ux_refl st : ux st st. Proof. reflexivity. Qed.
Lemma ux_trans a b c : ux a b -> ux b c -> ux a c. Proof. unfold ux. congruence. Qed.
Lemma ux_addNode st k s e ks : ux st (fst (addNode st k s e ks)).
Proof. unfold addNode. destruct (_ =? 0); reflexivity. Qed.
Lemma ux_addText st s e : ux st (addText st s e). Proof. apply ux_addNode. Qed.
Lemma ux_wrap st k a b : ux st (fst (wrap st k a b)). Proof. reflexivity. Qed.

Lemma ux_pe_loop : forall fuel st ob cp, ux st (pe_loop fuel st ob cp).
Proof.
  induction fuel as [|f IH]; intros st ob cp; [apply ux_refl|]. cbn [pe_loop].
  destruct (_ <? 0); [apply ux_refl|].
  destruct (_ <=? _).
  - match goal with |- context [wrap ?s ?k ?a ?b] => pose proof (ux_wrap s k a b) as Hw; destruct (wrap s k a b) as [st1 x]; cbn [fst] in Hw end.
    destruct (plen _ =? 0); destruct (plen _ =? 0); (eapply ux_trans; [|apply IH]); exact Hw.
  - destruct (negb _); (eapply ux_trans; [|apply IH]); reflexivity.
Qed.
Lemma ux_processEmphasis st sb : ux st (processEmphasis st sb).
Proof. unfold processEmphasis. exact (ux_pe_loop (4 * (length (stk st) + length (isrc st)) + 8) st (repeat sb 14) sb). Qed.
Lemma ux_finishLink st kind odi : ux st (finishLink st kind odi).
Proof. unfold finishLink. pose proof (ux_processEmphasis st (odi + 1)) as A. destruct (kind =? LinkKind); exact A. Qed.
Lemma ux_lfl : forall fuel st i, ux st (fst (lfl fuel st i)).
Proof.
  induction fuel as [|f IH]; intros st i; [apply ux_refl|]. cbn [lfl]. destruct (i <? 0); [apply ux_refl|].
  destruct (_ || _); [destruct (negb _); reflexivity|apply IH].
Qed.
Lemma ux_lookFor st : ux st (fst (lookForLinkOrImage st)). Proof. apply ux_lfl. Qed.
Lemma ux_parseDelimiterRun st pos : ux st (fst (parseDelimiterRun st pos)).
Proof.
  unfold parseDelimiterRun. cbv zeta.
  match goal with |- context [addNode ?s ?k ?a ?b ?c] => pose proof (ux_addNode s k a b c) as H; destruct (addNode s k a b c) as [st1 id]; cbn [fst] in H end.
  exact H.
Qed.
Lemma ux_parseBackslash st pos : ux st (fst (parseBackslash st pos)).
Proof.
  unfold parseBackslash. cbv zeta. destruct (_ || _ || _).
  - destruct (isLastSpan st); cbn [fst]; [apply ux_addText|]. eapply ux_trans; [|apply ux_addNode]. reflexivity.
  - destruct (isASCIIPunctuation _); cbn [fst]; apply ux_addText.
Qed.

(* ================================================================ entries, spanEnd, unpFrom *)
Lemma spOK_In src : forall U i, spOK src U = true -> In i U -> 0 <= istart i /\ istart i < iend i /\ iend i <= len src.
Proof.
  induction U as [|x r IH]; intros i H Hi; [destruct Hi|]. pose proof (spOK_iend _ _ _ H) as He.
  pose proof (spOK_cons _ _ _ H) as (A & B & _ & _ & _ & G). destruct Hi as [->|Hi]; [lia|apply IH; assumption].
Qed.
Lemma spW_In src : forall U i, spW src U = true -> In i U -> 0 <= istart i /\ istart i <= iend i /\ iend i <= len src.
Proof.
  induction U as [|x r IH]; intros i H Hi; [destruct Hi|].
  pose proof (spW_cons _ _ _ H) as (A & B & C & _ & G). destruct Hi as [->|Hi]; [lia|apply IH; assumption].
Qed.
Lemma nth_In_Z {A} (l : list A) (i : Z) d : 0 <= i < len l -> In (nth (Z.to_nat i) l d) l.
Proof. intros H. apply nth_In. unfold len in H. lia. Qed.
Lemma from_nth {A} (l : list A) (i : Z) d : 0 <= i < len l -> from_ l i = nth (Z.to_nat i) l d :: from_ l (i + 1).
Proof.
  intros H. unfold from_. replace (Z.to_nat (i + 1)) with (S (Z.to_nat i)) by lia.
  unfold len in H. assert (Hn : (Z.to_nat i < length l)%nat) by lia. revert Hn. generalize (Z.to_nat i). clear H.
  induction l as [|x l IH]; intros n Hn; [cbn in Hn; lia|]. destruct n as [|n]; [reflexivity|]. cbn [skipn nth]. apply IH. cbn in Hn. lia.
Qed.
Lemma spanEnd_nth st : upos st < len (unp st) -> spanEnd st = iend (nth (Z.to_nat (upos st)) (unp st) (mkI 0 0 0)).
Proof. intros H. unfold spanEnd. destruct (Z.leb_spec (len (unp st)) (upos st)); [lia|reflexivity]. Qed.

Lemma skipn_skipn {A} (l : list A) a b : skipn a (skipn b l) = skipn (a + b) l.
Proof. revert l; induction b as [|b IH]; intros l; [rewrite Nat.add_0_r; reflexivity|]. destruct l as [|x l]; [rewrite !skipn_nil; reflexivity|].
  rewrite Nat.add_succ_r. cbn [skipn]. apply IH. Qed.
Lemma skipn_head_nth {A} (l : list A) k n rest d : skipn k l = n :: rest -> nth k l d = n /\ (k < length l)%nat.
Proof.
  revert l; induction k as [|k IH]; intros l E; [destruct l; inversion E; subst; cbn; split; [reflexivity|lia]|].
  destruct l as [|x l]; [discriminate|]. cbn [skipn] in E. destruct (IH l E) as [P Q]. cbn [nth length]. split; [exact P|lia].
Qed.

(* the entry found for position p: what nodeIndexForPosition (unpFrom st) p = i >= 0 means *)
Lemma nodeIdx_unpFrom (st : ist) p d : 0 <= upos st ->
  let i := nodeIndexForPosition (unpFrom st) p in
  0 <= i -> upos st + i < len (unp st) /\ spanHas (nth (Z.to_nat (upos st + i)) (unp st) d) p = true.
Proof.
  intros Hu. cbv zeta. unfold nodeIndexForPosition. intros Hi.
  destruct (nodeIdx_split (unpFrom st) p 0 ltac:(lia)) as [Hn|(Hge & pre & n & rest & E1 & E2 & E3)]; [lia|].
  remember (nodeIdx (unpFrom st) p 0) as i eqn:Ei. clear Ei E1.
  unfold unpFrom, from_ in E2. rewrite skipn_skipn in E2.
  replace (Z.to_nat (i - 0) + Z.to_nat (upos st))%nat with (Z.to_nat (upos st + i)) in E2 by lia.
  destruct (skipn_head_nth _ _ _ _ d E2) as [P Q]. rewrite P. split; [unfold len; lia|exact E3].
Qed.

Lemma advanceTo_facts (st : ist) p d : 0 <= upos st <= len (unp st) ->
  let st' := advanceTo st p in
  upos st <= upos st' /\ (upos st' < len (unp st) -> spanHas (nth (Z.to_nat (upos st')) (unp st) d) p = true).
Proof.
  intros Hu. cbv zeta. unfold advanceTo.
  destruct (Z.leb_spec 0 (nodeIndexForPosition (unpFrom st) p)) as [L|L].
  - destruct (nodeIdx_unpFrom st p d ltac:(lia) L) as [A B]. cbn [upos setUpos]. split; [lia|]. intros _. exact B.
  - cbn [upos setUpos]. split; [lia|]. lia.
Qed.

(* ---- collectCodeSpan moves the cursor to the entry that holds the closing run ---- *)
Section Mid.
  Variable src : bytes.
  Variable unpAt : Z -> inline.
  Fixpoint ccs_mid (k : nat) (acc : list pn) (up : Z) : list pn * Z :=
    match k with
    | O => (acc, up)
    | S k' =>
      let up := up + 1 in
      let u := unpAt up in
      ccs_mid k' (if ikind u =? UnparsedKind then cs_addSpan src acc (istart u) (iend u) else acc) up
    end.
  Lemma ccs_mid_snd : forall k acc up, snd (ccs_mid k acc up) = up + Z.of_nat k.
  Proof. induction k as [|k IH]; intros acc up; cbn [ccs_mid]; [cbn; lia|]. rewrite IH. lia. Qed.
End Mid.

Lemma collectCodeSpan_upos st a b c d :
  upos (collectCodeSpan st a b c d) =
  if nodeIndexForPosition (unpFrom st) d =? 0 then upos st
  else upos st + Z.of_nat (Z.to_nat (nodeIndexForPosition (unpFrom st) d - 1)) + 1.
Proof.
  unfold collectCodeSpan. cbv zeta. destruct (_ =? 0).
  - cbv beta iota. apply ux_addNode.
  - match goal with |- context [match ?X with pair _ _ => _ end] =>
      match X with
      | context [match ?Y with pair _ _ => _ end] =>
        assert (Hs : snd Y = upos st + Z.of_nat (Z.to_nat (nodeIndexForPosition (unpFrom st) d - 1)))
          by exact (ccs_mid_snd (isrc st) (fun i => nth (Z.to_nat i) (unp st) (mkI 0 0 0)) _ _ (upos st));
        destruct Y as [acc up]
      end
    end.
    cbn [snd] in Hs. cbv beta iota. rewrite ux_addNode. cbn [upos setUpos]. lia.
Qed.

Lemma nodeIdx_found src : forall l n p k, spW src l = true -> In n l -> spanHas n p = true -> 0 <= k -> k <= nodeIdx l p k.
Proof.
  induction l as [|i r IH]; intros n p k Hw Hin Hh Hk; [destruct Hin|]. cbn [nodeIdx].
  pose proof (spW_cons _ _ _ Hw) as (A & B & C & D & G). pose proof (spanHas_range _ _ Hh) as (R1 & R2 & R3).
  destruct (Z.ltb_spec p (istart i)) as [L|L].
  { exfalso. destruct Hin as [->|Hin]; [lia|]. specialize (D n Hin). lia. }
  destruct (spanHas i p) eqn:Ei; [lia|].
  destruct Hin as [->|Hin]; [congruence|]. specialize (IH n p (k + 1) G Hin Hh ltac:(lia)). lia.
Qed.
