From Coq Require Import List ZArith Lia Bool.
Import ListNotations.
Require Import Base Tables Utf8 Tree Driver Inl3e Render Props EolCRBytes EolCRRdr EolCRRenderRE EolCRLFDefs EolCRLFSimBytes EolCRLFRenderDefs.
Open Scope Z_scope.

(* ====================================================================================================
   C14, CRLF clause, renderer, part 1: the relation RC ("a CR inserted before some LF") is a congruence
   for the byte-level helpers of the renderer.
   ==================================================================================================== *)

(* ---- algebra of RC ---- *)
Lemma RC_refl a : RC a a.
Proof. induction a as [|x a IH]; constructor; exact IH. Qed.
Lemma RC_app a b c d : RC a b -> RC c d -> RC (a ++ c) (b ++ d).
Proof. intros H1 H2. induction H1 as [|x a b H IH|a b H IH]; [exact H2|apply RC_same, IH|apply RC_ins, IH]. Qed.
Lemma crlf_cons c l : crlf (c :: l) = (if c =? 10 then [13; 10] else [c]) ++ crlf l.
Proof. reflexivity. Qed.
Lemma RC_crlf l : RC l (crlf l).
Proof.
  induction l as [|c l IH]; [constructor|]. rewrite crlf_cons. destruct (Z.eqb_spec c 10) as [->|N]; [apply RC_ins, IH|apply RC_same, IH].
Qed.
Lemma RC_length a b : RC a b -> (length a <= length b)%nat.
Proof. induction 1 as [|x a b H IH|a b H IH]; cbn [length]; lia. Qed.
Lemma RC_nil_inv b : RC [] b -> b = [].
Proof. intros H. inversion H. reflexivity. Qed.
Lemma RC_inv3 r r' : RC r r' ->
  (r = [] /\ r' = []) \/ (exists b t t', r = b :: t /\ r' = b :: t' /\ RC t t') \/ (exists t t', r = 10 :: t /\ r' = 13 :: 10 :: t' /\ RC t t').
Proof.
  intros H. destruct H as [|x a b H|a b H]; [left; split; reflexivity|right; left; exists x, a, b; repeat split; exact H|
    right; right; exists a, b; repeat split; exact H].
Qed.
Lemma RC_cons_neq c r s' : c <> 10 -> RC (c :: r) s' -> exists r', s' = c :: r' /\ RC r r'.
Proof. intros N H. inversion H; subst; [eexists; split; [reflexivity|assumption]|congruence]. Qed.

Lemma RC_cons10 r s' : RC (10 :: r) s' -> (exists r', s' = 10 :: r' /\ RC r r') \/ (exists r', s' = 13 :: 10 :: r' /\ RC r r').
Proof. intros H. inversion H; subst; [left|right]; eexists; (split; [reflexivity|assumption]). Qed.
Lemma RC_flat_map {A} (f g : A -> bytes) l : (forall x, In x l -> RC (f x) (g x)) -> RC (flat_map f l) (flat_map g l).
Proof.
  induction l as [|x l IH]; intros H; [constructor|]. cbn [flat_map]. apply RC_app; [apply H; left; reflexivity|].
  apply IH. intros y Hy. apply H. right. exact Hy.
Qed.
Lemma RC_flat_map2 (f : Z -> bytes) a b : f 10 = [10] -> f 13 = [13] -> RC a b -> RC (flat_map f a) (flat_map f b).
Proof.
  intros F10 F13. induction 1 as [|x a b H IH|a b H IH]; [constructor| |].
  - cbn [flat_map]. apply RC_app; [apply RC_refl|exact IH].
  - cbn [flat_map]. rewrite F10, F13. cbn [app]. apply RC_ins, IH.
Qed.

(* ---- what the property test compares ---- *)
Lemma delCR_RC a b : RC a b -> delCR b = delCR a.
Proof.
  induction 1 as [|x a b H IH|a b H IH]; [reflexivity| |].
  - unfold delCR in *. cbn [filter]. rewrite IH. reflexivity.
  - unfold delCR in *. cbn [filter]. change (negb (13 =? 13)) with false. change (negb (10 =? 13)) with true. cbv iota. rewrite IH. reflexivity.
Qed.
Lemma normCrlf_cons c r : normCrlf (c :: r) = if (c =? 13) && (match r with d :: _ => d =? 10 | [] => false end) then normCrlf r else c :: normCrlf r.
Proof. reflexivity. Qed.
Lemma noCrLfb_cons c r : noCrLfb (c :: r) = negb ((c =? 13) && (match r with d :: _ => d =? 10 | [] => false end)) && noCrLfb r.
Proof. reflexivity. Qed.
Lemma RC_head10 a b : RC a b -> match b with d :: _ => d =? 10 | [] => false end = true -> match a with d :: _ => d =? 10 | [] => false end = true.
Proof. intros H. destruct H as [|x a b H|a b H]; intros E; [exact E|exact E|discriminate E]. Qed.
(* when the LF rendering has no CR LF pair, normalising the CR LF rendering gives it back *)
Lemma normCrlf_RC a b : RC a b -> noCrLfb a = true -> normCrlf b = a.
Proof.
  induction 1 as [|x a b H IH|a b H IH]; intros Hn; [reflexivity| |].
  - rewrite noCrLfb_cons in Hn. apply andb_true_iff in Hn. destruct Hn as [Hx Hn]. rewrite normCrlf_cons.
    destruct ((x =? 13) && match b with d :: _ => d =? 10 | [] => false end) eqn:E.
    + apply andb_true_iff in E. destruct E as [E1 E2]. rewrite E1, (RC_head10 a b H E2) in Hx. discriminate Hx.
    + rewrite (IH Hn). reflexivity.
  - rewrite noCrLfb_cons in Hn. apply andb_true_iff in Hn. destruct Hn as [_ Hn].
    rewrite normCrlf_cons. change ((13 =? 13) && (10 =? 10)) with true. cbv iota. rewrite normCrlf_cons. change (10 =? 13) with false. cbn [andb].
    rewrite (IH Hn). reflexivity.
Qed.
Lemma noCrLfb_no13 a : ~ In 13 a -> noCrLfb a = true.
Proof.
  induction a as [|c a IH]; intros H; [reflexivity|]. rewrite noCrLfb_cons. rewrite IH by (intros G; apply H; right; exact G).
  destruct (Z.eqb_spec c 13) as [->|N]; [exfalso; apply H; left; reflexivity|reflexivity].
Qed.
Lemma normCrlf_id a : noCrLfb a = true -> normCrlf a = a.
Proof. intros H. apply normCrlf_RC; [apply RC_refl|exact H]. Qed.

(* ---- escapeHTML / escapeString ---- *)
Lemma escapeHTML_RC a b : RC a b -> RC (escapeHTML a) (escapeHTML b).
Proof. unfold escapeHTML. apply RC_flat_map2; reflexivity. Qed.
Lemma escapeString_RC a b : RC a b -> RC (escapeString a) (escapeString b).
Proof. unfold escapeString. apply RC_flat_map2; reflexivity. Qed.

(* ---- filterRaw ---- *)
Lemma takeName_RC a b : RC a b -> takeName b = takeName a.
Proof.
  induction 1 as [|x a b H IH|a b H IH]; [reflexivity| |reflexivity].
  cbn [takeName]. rewrite IH. reflexivity.
Qed.
Lemma cmName_RC a b : RC a b -> cmName b = cmName a.
Proof.
  intros H. pose proof (takeName_RC a b H) as Ht. destruct H as [|x a b H|a b H]; [reflexivity| |reflexivity].
  unfold cmName. destruct (isASCIILetter x); [exact Ht|reflexivity].
Qed.
Lemma filterRaw_RC c a b : RC a b -> RC (filterRaw c a) (filterRaw c b).
Proof.
  induction 1 as [|x a b H IH|a b H IH]; [constructor| |].
  - cbn [filterRaw]. destruct (x =? 60).
    + rewrite (cmName_RC a b H). apply RC_app; [apply RC_refl|exact IH].
    + apply RC_same, IH.
  - cbn [filterRaw]. change (10 =? 60) with false. change (13 =? 60) with false. cbv iota. apply RC_ins, IH.
Qed.

(* ---- small list facts ---- *)
Lemma rc_from_app_len {A} (p t : list A) : from_ (p ++ t) (len p) = t.
Proof. unfold from_, len. rewrite Nat2Z.id. induction p as [|x p IH]; [reflexivity|exact IH]. Qed.
Lemma rc_upto_app_len {A} (p t : list A) : upto (p ++ t) (len p) = p.
Proof. unfold upto, len. rewrite Nat2Z.id. induction p as [|x p IH]; [reflexivity|]. cbn [app length firstn]. rewrite IH. reflexivity. Qed.
Lemma rc_from_step {A} (l : list A) i w : 0 <= i -> 0 <= w -> from_ l (i + w) = from_ (from_ l i) w.
Proof.
  intros Hi Hw. unfold from_. rewrite Z2Nat.inj_add by lia. generalize (Z.to_nat w) as m. generalize (Z.to_nat i) as k. clear.
  intros k m. revert l. induction k as [|k IH]; intros l; [reflexivity|]. destruct l as [|x l]; [destruct m; reflexivity|]. cbn [Nat.add skipn]. apply IH.
Qed.
Lemma rc_len_cons {A} (x : A) l : len (x :: l) = len l + 1. Proof. unfold len. cbn [length]. lia. Qed.
Lemma rc_len_app {A} (a b : list A) : len (a ++ b) = len a + len b. Proof. unfold len. rewrite app_length. lia. Qed.
Lemma rc_len_nonneg {A} (l : list A) : 0 <= len l. Proof. unfold len. lia. Qed.
Lemma crlf_no10 l : ~ In 10 l -> crlf l = l.
Proof.
  induction l as [|c l IH]; intros H; [reflexivity|]. rewrite crlf_cons.
  destruct (Z.eqb_spec c 10) as [->|N]; [exfalso; apply H; left; reflexivity|]. cbn [app]. rewrite IH; [reflexivity|]. intros G. apply H. right. exact G.
Qed.
Lemma first10 l : In 10 l -> exists a b, l = a ++ 10 :: b /\ ~ In 10 a.
Proof.
  induction l as [|c l IH]; intros H; [destruct H|]. destruct (Z.eq_dec c 10) as [->|N].
  - exists [], l. split; [reflexivity|intros []].
  - destruct H as [E|H]; [congruence|]. destruct (IH H) as (a & b & -> & Ha). exists (c :: a), b. split; [reflexivity|].
    intros [E|G]; [congruence|exact (Ha G)].
Qed.

(* ---- runes / firstField (the class attribute of a fenced code block): equal, not only related ---- *)
Ltac rc_fin H := split; [reflexivity|split; [reflexivity|split; [reflexivity|split; [reflexivity|split; [exact H|cbn; lia]]]]].
Lemma decodeRune_RC c r r' : RC r r' ->
  exists rn p t t', decodeRune (c :: r) = (rn, len p) /\ decodeRune (c :: r') = (rn, len p) /\
                    c :: r = p ++ t /\ c :: r' = p ++ t' /\ RC t t' /\ 1 <= len p.
Proof.
  intros H.
  assert (Fail1 : forall X Y : Z * Z, X = (RuneError, 1) -> Y = (RuneError, 1) ->
          exists rn p t t', X = (rn, len p) /\ Y = (rn, len p) /\ c :: r = p ++ t /\ c :: r' = p ++ t' /\ RC t t' /\ 1 <= len p).
  { intros X Y E1 E2. exists RuneError, [c], r, r'. rewrite E1, E2. rc_fin H. }
  unfold decodeRune.
  destruct (c <? 128).
  { exists c, [c], r, r'. rc_fin H. }
  destruct ((194 <=? c) && (c <=? 223)).
  { destruct (RC_inv3 r r' H) as [[-> ->]|[(b & t & t' & -> & -> & Ht)|(t & t' & -> & -> & Ht)]].
    - apply Fail1; reflexivity.
    - destruct (isCont b) eqn:Eb; [|apply Fail1; reflexivity].
      exists ((c - 192) * 64 + (b - 128)), [c; b], t, t'. rc_fin Ht.
    - apply Fail1; reflexivity. }
  destruct ((224 <=? c) && (c <=? 239)).
  { destruct (RC_inv3 r r' H) as [[-> ->]|[(b & t & t' & -> & -> & Ht)|(t & t' & -> & -> & Ht)]].
    - apply Fail1; reflexivity.
    - destruct (RC_inv3 t t' Ht) as [[-> ->]|[(b2 & u & u' & -> & -> & Hu)|(u & u' & -> & -> & Hu)]].
      + apply Fail1; reflexivity.
      + cbv zeta. destruct (((if c =? 224 then 160 else 128) <=? b) && (b <=? (if c =? 237 then 159 else 191)) && isCont b2) eqn:E; [|apply Fail1; reflexivity].
        exists ((c - 224) * 4096 + (b - 128) * 64 + (b2 - 128)), [c; b; b2], u, u'. rc_fin Hu.
      + cbv zeta. change (isCont 10) with false. change (isCont 13) with false. rewrite !andb_false_r. apply Fail1; reflexivity.
    - cbv zeta.
      assert (L13 : ((if c =? 224 then 160 else 128) <=? 13) = false) by (destruct (c =? 224); reflexivity).
      assert (L10 : ((if c =? 224 then 160 else 128) <=? 10) = false) by (destruct (c =? 224); reflexivity).
      rewrite L13. destruct t as [|b2 u]; [apply Fail1; reflexivity|]. rewrite L10. apply Fail1; reflexivity. }
  destruct ((240 <=? c) && (c <=? 244)); [|apply Fail1; reflexivity].
  destruct (RC_inv3 r r' H) as [[-> ->]|[(b & t & t' & -> & -> & Ht)|(t & t' & -> & -> & Ht)]].
  - apply Fail1; reflexivity.
  - destruct (RC_inv3 t t' Ht) as [[-> ->]|[(b2 & u & u' & -> & -> & Hu)|(u & u' & -> & -> & Hu)]].
    + apply Fail1; reflexivity.
    + destruct (RC_inv3 u u' Hu) as [[-> ->]|[(b3 & v & v' & -> & -> & Hv)|(v & v' & -> & -> & Hv)]].
      * apply Fail1; reflexivity.
      * cbv zeta.
        destruct (((if c =? 240 then 144 else 128) <=? b) && (b <=? (if c =? 244 then 143 else 191)) && isCont b2 && isCont b3) eqn:E; [|apply Fail1; reflexivity].
        exists ((c - 240) * 262144 + (b - 128) * 4096 + (b2 - 128) * 64 + (b3 - 128)), [c; b; b2; b3], v, v'.
        rc_fin Hv.
      * cbv zeta. change (isCont 10) with false. change (isCont 13) with false. rewrite !andb_false_r. apply Fail1; reflexivity.
    + cbv zeta. change (isCont 10) with false. change (isCont 13) with false. rewrite !andb_false_r. cbn [andb].
      destruct u as [|b3 v]; [apply Fail1; reflexivity|]. rewrite ?andb_false_r. cbn [andb]. apply Fail1; reflexivity.
  - cbv zeta.
    assert (L13 : ((if c =? 240 then 144 else 128) <=? 13) = false) by (destruct (c =? 240); reflexivity).
    assert (L10 : ((if c =? 240 then 144 else 128) <=? 10) = false) by (destruct (c =? 240); reflexivity).
    destruct t as [|b2 [|b3 v]]; destruct t' as [|b3' v']; rewrite ?L13, ?L10; cbn [andb]; apply Fail1; reflexivity.
Qed.

Lemma runes_cons f c r i : runes (S f) (c :: r) i =
  let '(rn, w) := decodeRune (c :: r) in let w := if w <? 1 then 1 else w in (i, rn, w) :: runes f (from_ (c :: r) w) (i + w).
Proof. reflexivity. Qed.
Lemma isSpaceRune_10 : isSpaceRune 10 = true. Proof. vm_compute. reflexivity. Qed.
Lemma isSpaceRune_13 : isSpaceRune 13 = true. Proof. vm_compute. reflexivity. Qed.
Lemma firstField_cons i r w rest s b : firstField ((i, r, w) :: rest) s b =
  if isSpaceRune r then (if b then [] else firstField rest s false) else sub s i (i + w) ++ firstField rest s true.
Proof. reflexivity. Qed.

Lemma firstField_RC_gen : forall n s s' S0 S0' i i' fuel fuel' b, (length s <= n)%nat -> RC s s' -> 0 <= i -> 0 <= i' ->
  from_ S0 i = s -> from_ S0' i' = s' -> (length s < fuel)%nat -> (length s' < fuel')%nat ->
  firstField (runes fuel' s' i') S0' b = firstField (runes fuel s i) S0 b.
Proof.
  induction n as [|n IH]; intros s s' S0 S0' i i' fuel fuel' b Hn H Hi Hi' Es Es' Hf Hf'.
  - destruct s; [|cbn in Hn; lia]. rewrite (RC_nil_inv _ H) in *. destruct fuel; [lia|]. destruct fuel'; [lia|]. reflexivity.
  - destruct s as [|c r].
    { rewrite (RC_nil_inv _ H) in *. destruct fuel; [lia|]. destruct fuel'; [lia|]. reflexivity. }
    destruct fuel as [|f]; [lia|]. cbn [length] in Hn, Hf.
    destruct (Z.eq_dec c 10) as [->|Nc].
    + rewrite runes_cons. change (decodeRune (10 :: r)) with (10, 1). cbv iota beta zeta. change (1 <? 1) with false. cbv iota.
      change (from_ (10 :: r) 1) with r. rewrite firstField_cons, isSpaceRune_10.
      assert (Er : from_ S0 (i + 1) = r) by (rewrite rc_from_step by lia; rewrite Es; reflexivity).
      destruct (RC_cons10 r s' H) as [(r' & -> & Hr)|(r' & -> & Hr)].
      * destruct fuel' as [|f']; [lia|]. cbn [length] in Hf'.
        rewrite runes_cons. change (decodeRune (10 :: r')) with (10, 1). cbv iota beta zeta. change (1 <? 1) with false. cbv iota.
        change (from_ (10 :: r') 1) with r'. rewrite firstField_cons, isSpaceRune_10. destruct b; [reflexivity|].
        apply (IH r r'); try lia; try assumption. rewrite rc_from_step by lia. rewrite Es'. reflexivity.
      * destruct fuel' as [|f']; [lia|]. cbn [length] in Hf'. destruct f' as [|f'']; [lia|].
        rewrite runes_cons. change (decodeRune (13 :: 10 :: r')) with (13, 1). cbv iota beta zeta. change (1 <? 1) with false. cbv iota.
        change (from_ (13 :: 10 :: r') 1) with (10 :: r'). rewrite firstField_cons, isSpaceRune_13. destruct b; [reflexivity|].
        rewrite runes_cons. change (decodeRune (10 :: r')) with (10, 1). cbv iota beta zeta. change (1 <? 1) with false. cbv iota.
        change (from_ (10 :: r') 1) with r'. rewrite firstField_cons, isSpaceRune_10.
        apply (IH r r'); try lia; try assumption. rewrite !rc_from_step by lia. rewrite Es'. reflexivity.
    + destruct (RC_cons_neq c r s' Nc H) as (r' & -> & Hr). destruct fuel' as [|f']; [lia|]. cbn [length] in Hf'.
      destruct (decodeRune_RC c r r' Hr) as (rn & p & t & t' & D1 & D2 & E1 & E2 & Ht & Hp).
      rewrite !runes_cons, D1, D2. cbv iota beta zeta.
      replace (len p <? 1) with false by (symmetry; apply Z.ltb_ge; exact Hp).
      rewrite !firstField_cons.
      assert (Q1 : sub S0 i (i + len p) = p).
      { unfold sub. rewrite Es, E1. replace (i + len p - i) with (len p) by lia. apply rc_upto_app_len. }
      assert (Q2 : sub S0' i' (i' + len p) = p).
      { unfold sub. rewrite Es', E2. replace (i' + len p - i') with (len p) by lia. apply rc_upto_app_len. }
      rewrite Q1, Q2. rewrite E1, E2, !rc_from_app_len.
      assert (L1 : length (c :: r) = (length p + length t)%nat) by (rewrite E1; apply app_length).
      assert (L2 : length (c :: r') = (length p + length t')%nat) by (rewrite E2; apply app_length).
      cbn [length] in L1, L2. unfold len in Hp.
      assert (G : forall b', firstField (runes f' t' (i' + len p)) S0' b' = firstField (runes f t (i + len p)) S0 b').
      { intros b'. apply (IH t t'); try lia; try assumption.
        - pose proof (rc_len_nonneg p). lia.
        - pose proof (rc_len_nonneg p). lia.
        - rewrite rc_from_step by (try apply rc_len_nonneg; lia). rewrite Es, E1. apply rc_from_app_len.
        - rewrite rc_from_step by (try apply rc_len_nonneg; lia). rewrite Es', E2. apply rc_from_app_len. }
      destruct (isSpaceRune rn); [destruct b; [reflexivity|apply G]|rewrite G; reflexivity].
Qed.
Lemma firstField_runes_RC t t' : RC t t' ->
  firstField (runes (S (length t')) t' 0) t' false = firstField (runes (S (length t)) t 0) t false.
Proof. intros H. apply (firstField_RC_gen (length t) t t'); try lia; try reflexivity; exact H. Qed.

(* ---- unescapeRef on a reference "&...;" ---- *)
Lemma rc_bytes_eqb_eq a : forall b, Utf8.bytes_eqb a b = true -> a = b.
Proof.
  unfold Utf8.bytes_eqb. induction a as [|x a IH]; intros b H; apply andb_true_iff in H; destruct H as [H1 H2].
  - destruct b; [reflexivity|]. apply Z.eqb_eq in H1. rewrite rc_len_cons in H1. pose proof (rc_len_nonneg b). cbn in H1. lia.
  - destruct b as [|y b]; [apply Z.eqb_eq in H1; rewrite rc_len_cons in H1; pose proof (rc_len_nonneg a); cbn in H1; lia|].
    cbn [hasBytePrefix] in H2. apply andb_true_iff in H2. destruct H2 as [H2 H3]. apply Z.eqb_eq in H2. subst y. f_equal.
    apply IH. apply andb_true_iff. split; [|exact H3]. apply Z.eqb_eq in H1. rewrite !rc_len_cons in H1. apply Z.eqb_eq. lia.
Qed.
Lemma lookupV_eol t n : Forall (fun kv : bytes * bytes => noEolB (fst kv)) t -> (In 10 n \/ In 13 n) -> lookupV t n = None.
Proof.
  induction 1 as [|[k v] t Hk Ht IH]; intros Hn; [reflexivity|]. cbn [lookupV]. cbn [fst] in Hk.
  destruct (Utf8.bytes_eqb k n) eqn:E; [|apply IH, Hn]. apply rc_bytes_eqb_eq in E. subst n. exfalso.
  unfold noEolB in Hk. rewrite Forall_forall in Hk. destruct Hn as [G|G]; destruct (Hk _ G) as [A B]; congruence.
Qed.
Lemma legacyVal_SS j n : legacyVal (S (S j)) n =
  match lookupV entityValuesLegacy (upto n (Z.of_nat (S (S j)))) with Some v => Some (v, Z.of_nat (S (S j))) | None => legacyVal (S j) n end.
Proof. reflexivity. Qed.
Lemma legacyVal_bound n : forall j v k, legacyVal j n = Some (v, k) -> 0 <= k <= Z.of_nat j.
Proof.
  induction j as [|j IH]; intros v k H; [discriminate H|]. destruct j as [|j]; [discriminate H|]. rewrite legacyVal_SS in H.
  destruct (lookupV _ _); [inversion H; subst; lia|]. specialize (IH v k H). lia.
Qed.
Lemma rc_upto_app_le' (a b : bytes) k : (k <= length a)%nat -> firstn k (a ++ b) = firstn k a.
Proof. intros H. rewrite firstn_app. replace (k - length a)%nat with O by lia. cbn [firstn]. apply app_nil_r. Qed.
Lemma rc_In_firstn_mid (a : bytes) c b k : (length a < k)%nat -> In c (firstn k (a ++ c :: b)).
Proof.
  intros H. rewrite firstn_app. apply in_or_app. right. destruct (k - length a)%nat as [|m] eqn:E; [lia|]. left. reflexivity.
Qed.
(* a name with a line ending after m1: only the prefixes inside m1 can match *)
Lemma legacyVal_cut m1 c rest : (c = 10 \/ c = 13) -> forall j, legacyVal j (m1 ++ c :: rest) = legacyVal (Nat.min j (length m1)) m1.
Proof.
  intros Hc. induction j as [|j IH]; [reflexivity|]. destruct j as [|j].
  { destruct (length m1); reflexivity. }
  rewrite legacyVal_SS. destruct (Nat.le_gt_cases (S (S j)) (length m1)) as [L|L].
  - rewrite (Nat.min_l _ _ L), legacyVal_SS. unfold upto. rewrite !Nat2Z.id. rewrite (rc_upto_app_le' m1 (c :: rest) _ L).
    rewrite IH. rewrite Nat.min_l by lia. reflexivity.
  - rewrite lookupV_eol; [|exact legacy_keys|].
    + rewrite IH. f_equal. lia.
    + unfold upto. rewrite Nat2Z.id. pose proof (rc_In_firstn_mid m1 c rest (S (S j)) L) as G. destruct Hc as [-> | ->]; [left; exact G|right; exact G].
Qed.
Lemma parseNum_stop base c t : (c = 10 \/ c = 13) -> forall a x, parseNum base (a ++ c :: t) x = parseNum base a x.
Proof.
  intros Hc. induction a as [|d a IH]; intros x.
  - cbn [app parseNum]. destruct Hc as [-> | ->].
    + change (isASCIIDigit 10) with false. change (97 <=? 10) with false. change (65 <=? 10) with false. rewrite !andb_false_r. reflexivity.
    + change (isASCIIDigit 13) with false. change (97 <=? 13) with false. change (65 <=? 13) with false. rewrite !andb_false_r. reflexivity.
  - cbn [app parseNum]. rewrite !IH. reflexivity.
Qed.
Lemma rc_sub_inner (c d : Z) (mid : bytes) : sub (c :: mid ++ [d]) 1 (len (c :: mid ++ [d]) - 1) = mid.
Proof.
  unfold sub. change (from_ (c :: mid ++ [d]) 1) with (mid ++ [d]). rewrite rc_len_cons, rc_len_app.
  replace (len mid + len [d] + 1 - 1 - 1) with (len mid) by (cbn; lia). apply rc_upto_app_len.
Qed.
Lemma rc_from_succ (c : Z) (l : bytes) k : 0 <= k -> from_ (c :: l) (1 + k) = from_ l k.
Proof. intros H. unfold from_. replace (Z.to_nat (1 + k)) with (S (Z.to_nat k)) by lia. reflexivity. Qed.
Lemma rc_from_app_le (a b : bytes) k : 0 <= k <= len a -> from_ (a ++ b) k = from_ a k ++ b.
Proof.
  intros H. unfold from_. rewrite skipn_app. unfold len in H. replace (Z.to_nat k - length a)%nat with O by lia. reflexivity.
Qed.

Lemma unescapeRef_mid m1 m2 : ~ In 10 m1 ->
  RC (unescapeRef (38 :: m1 ++ 10 :: m2 ++ [59])) (unescapeRef (38 :: m1 ++ 13 :: 10 :: crlf m2 ++ [59])).
Proof.
  intros Hm.
  assert (Hx : RC (38 :: m1 ++ 10 :: m2 ++ [59]) (38 :: m1 ++ 13 :: 10 :: crlf m2 ++ [59])).
  { apply RC_same, RC_app; [apply RC_refl|]. apply RC_ins, RC_app; [apply RC_crlf|apply RC_refl]. }
  unfold unescapeRef.
  assert (A1 : (at_ (38 :: m1 ++ 13 :: 10 :: crlf m2 ++ [59]) 1 =? 35) = (at_ (38 :: m1 ++ 10 :: m2 ++ [59]) 1 =? 35)).
  { destruct m1; reflexivity. }
  rewrite A1. destruct (at_ (38 :: m1 ++ 10 :: m2 ++ [59]) 1 =? 35) eqn:E35.
  - (* numeric *)
    destruct m1 as [|d m1]; [discriminate E35|].
    assert (Ed : d = 35) by (apply Z.eqb_eq; exact E35). subst d.
    change (from_ (38 :: (35 :: m1) ++ 10 :: m2 ++ [59]) 2) with (m1 ++ 10 :: m2 ++ [59]).
    change (from_ (38 :: (35 :: m1) ++ 13 :: 10 :: crlf m2 ++ [59]) 2) with (m1 ++ 13 :: 10 :: crlf m2 ++ [59]).
    rewrite !(parseNum_stop 10) by (auto).
    destruct m1 as [|e m1].
    + change (at_ (38 :: [35] ++ 10 :: m2 ++ [59]) 2) with 10. change (at_ (38 :: [35] ++ 13 :: 10 :: crlf m2 ++ [59]) 2) with 13.
      change ((10 =? 120) || (10 =? 88)) with false. change ((13 =? 120) || (13 =? 88)) with false. cbv iota. apply RC_refl.
    + change (at_ (38 :: (35 :: e :: m1) ++ 10 :: m2 ++ [59]) 2) with e. change (at_ (38 :: (35 :: e :: m1) ++ 13 :: 10 :: crlf m2 ++ [59]) 2) with e.
      change (from_ (38 :: (35 :: e :: m1) ++ 10 :: m2 ++ [59]) 3) with (m1 ++ 10 :: m2 ++ [59]).
      change (from_ (38 :: (35 :: e :: m1) ++ 13 :: 10 :: crlf m2 ++ [59]) 3) with (m1 ++ 13 :: 10 :: crlf m2 ++ [59]).
      rewrite !(parseNum_stop 16) by (auto). apply RC_refl.
  - (* named *)
    replace (38 :: m1 ++ 10 :: m2 ++ [59]) with (38 :: (m1 ++ 10 :: m2) ++ [59]) by (rewrite <- app_assoc; reflexivity).
    replace (38 :: m1 ++ 13 :: 10 :: crlf m2 ++ [59]) with (38 :: (m1 ++ 13 :: 10 :: crlf m2) ++ [59]) by (rewrite <- app_assoc; reflexivity).
    rewrite !rc_sub_inner.
    rewrite (lookupV_eol entityValuesSemi (m1 ++ 10 :: m2)) by (try exact semi_keys; left; apply in_or_app; right; left; reflexivity).
    rewrite (lookupV_eol entityValuesSemi (m1 ++ 13 :: 10 :: crlf m2)) by (try exact semi_keys; right; apply in_or_app; right; left; reflexivity).
    rewrite (legacyVal_cut m1 10 m2) by auto. rewrite (legacyVal_cut m1 13 (10 :: crlf m2)) by auto.
    assert (Emin : Nat.min (Z.to_nat (Z.min (len (m1 ++ 13 :: 10 :: crlf m2)) 6)) (length m1) = Nat.min (Z.to_nat (Z.min (len (m1 ++ 10 :: m2)) 6)) (length m1)).
    { rewrite !rc_len_app, !rc_len_cons. pose proof (rc_len_nonneg m2). pose proof (rc_len_nonneg (crlf m2)). unfold len in *. lia. }
    rewrite Emin.
    destruct (legacyVal _ m1) as [[v k]|] eqn:El.
    + pose proof (legacyVal_bound _ _ _ _ El) as Hk.
      assert (Hk' : 0 <= k <= len m1) by (unfold len; lia).
      rewrite !rc_from_succ by lia. rewrite <- !app_assoc. rewrite !rc_from_app_le by exact Hk'.
      apply RC_app; [apply RC_refl|]. apply RC_app; [apply RC_refl|]. cbn [app]. apply RC_ins, RC_app; [apply RC_crlf|apply RC_refl].
    + rewrite <- !app_assoc. exact Hx.
Qed.

(* the shape of a CharacterReference span (Props.shapeInline): at least 3 bytes, first '&', last ';' *)
Lemma charref_split x : 3 <= len x -> at_ x 0 = 38 -> Props.lastZ x = 59 -> exists mid, x = 38 :: mid ++ [59].
Proof.
  intros Hl H0 Hz. unfold Props.lastZ in Hz. destruct (rev x) as [|z r] eqn:Er; [discriminate Hz|]. subst z.
  assert (Ex : x = rev r ++ [59]) by (rewrite <- (rev_involutive x), Er; reflexivity).
  destruct (rev r) as [|y mid] eqn:Em.
  - rewrite Ex in Hl. cbn in Hl. lia.
  - rewrite Ex in H0. change (at_ ((y :: mid) ++ [59]) 0) with y in H0. subst y. exists mid. exact Ex.
Qed.
Lemma unescapeRef_crlf x : 3 <= len x -> at_ x 0 = 38 -> Props.lastZ x = 59 -> RC (unescapeRef x) (unescapeRef (crlf x)).
Proof.
  intros Hl H0 Hz. destruct (charref_split x Hl H0 Hz) as (mid & ->).
  destruct (in_dec Z.eq_dec 10 mid) as [Hin|Hn].
  - destruct (first10 mid Hin) as (m1 & m2 & -> & Hm1).
    assert (E : crlf (38 :: (m1 ++ 10 :: m2) ++ [59]) = 38 :: m1 ++ 13 :: 10 :: crlf m2 ++ [59]).
    { rewrite crlf_cons. change (38 =? 10) with false. cbv iota. cbn [app]. f_equal. rewrite !crlf_app, (crlf_no10 m1 Hm1).
      rewrite <- app_assoc. f_equal. }
    rewrite E. rewrite <- app_assoc. apply unescapeRef_mid, Hm1.
  - rewrite crlf_no10; [apply RC_refl|]. intros [E|G]; [discriminate E|]. apply in_app_or in G. destruct G as [G|[G|[]]]; [exact (Hn G)|discriminate G].
Qed.
