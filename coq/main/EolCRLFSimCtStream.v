From Coq Require Import List ZArith Lia Bool.
Import ListNotations.
Require Import Base Tables Utf8 Tree Rdr Link Collect Html Recog Inl3a Inl3b Inl3c Inl3d Inl3e LP Rules Starts Driver Leaf3e RdrBound
  L2Kind L2CC L2CCfull L2Bnd L2BndS Rec16 Rec17 Rec18
  BSDef BSRdr BSTree BSOcp BSOrph BSClose BSLine1 BSLine2 BSLine3 BSLine4 BSLine5 BSLine6 BSLine7 BSLine8 BSErase BSLine9 BSLine10 BSShift BlockSpans.
Require Import EolCRLFSimTree EolCRLFSimLeDefs EolCRLFSimLe EolCRLFSimStream EolCRLFSimCtDef EolCRLFSimCtClose EolCRLFSimCtLine3 EolCRLFSimCtStarts
  EolCRLFSimCtSetext EolCRLFSimCtLine9.
Open Scope Z_scope.

(* Single-run containment invariant of the block layer, for inputs without '[' (byte 91).
   ct (EolCRLFSimCtDef) : every position stored in a block is at most M, inside a closed block at most the end of that block,
                          and the entries of every block lie at or after the start of the block.
   KX M ch               : T7's block-span invariant kidsOK M ch together with ct M on every root child. *)
Definition KX (M : Z) (ch : list block) : Prop := kidsOK M ch /\ allP (ct M) ch.

(* 1. one line *)
Theorem KX_processLine H ns st children ls src : ~ In 91 src -> 0 <= H -> 0 <= ls -> ls + len (from_ src ls) = H -> len src <= H ->
  (ns = true -> hasByteSuffixEOL (from_ src ls) = true) -> bndL H ns children = true ->
  ccF children = true -> KX ls children ->
  KX H (fst (fst (processLine st children ls src))).
Proof.
  intros N H0 Hls Hhi Hsrc Hns Hbnd Hcc [Hk Hc]. split.
  - apply (sp_processLine H ns); assumption.
  - apply (ct_processLine H ns); assumption.
Qed.
Print Assumptions KX_processLine.

(* 2. at makeRoot: the closed first root child b contains everything stored in it (U); everything in the later siblings lies
      at or after the end of b (L); the invariant survives the cut of the buffer at bend b *)
Lemma KX_U H b rest : KX H (b :: rest) -> isOpen b = false -> leB (bend b) b = true.
Proof.
  intros [_ [Hb _]] Eo. unfold isOpen in Eo. apply Z.ltb_ge in Eo. eapply ct_closed_leB; eassumption.
Qed.
Lemma KX_L H b rest : KX H (b :: rest) -> geL (bend b) rest = true.
Proof.
  intros [[[_ Sr] (_ & _ & C3)] [_ Cr]]. apply (ct_geL H H (Z.max (bstart b) (bend b)) (-1) rest (bend b) C3 Sr Cr). lia.
Qed.
Lemma KX_cut H b rest : KX H (b :: rest) -> isOpen b = false -> KX (H - bend b) (map (shiftB (- bend b)) rest).
Proof.
  intros [[[Sb Sr] (C1 & _ & C3)] [Cb Cr]] Eo. unfold isOpen in Eo. apply Z.ltb_ge in Eo.
  assert (Hst : forall x, In x rest -> bend b <= bstart x) by (intros x Hx; pose proof (chain_starts _ _ _ x C3 Hx); lia).
  split; [split|].
  - apply allP_map. apply allP_intro. intros x Hx. apply sp_shift; [lia|eapply allP_In; eassumption|apply Hst, Hx].
  - pose proof (chain_shift (bend b) (-1) rest (Z.max (bstart b) (bend b)) ltac:(lia) ltac:(left; lia) C3) as Hc.
    eapply chain_lo; [|exact Hc]. lia.
  - apply allP_map. apply allP_intro. intros x Hx.
    apply (ct_shift (bend b) Eo x H H); [eapply allP_In; eassumption|eapply allP_In; eassumption|apply Hst, Hx].
Qed.
Print Assumptions KX_U. Print Assumptions KX_L. Print Assumptions KX_cut.

(* 3. the stream level, mirroring BlockSpans.v *)
Definition SJx (s : bpst) (ch : list block) (ns : bool) : Prop := SJ s ch ns /\ allP (ct (bi s)) ch /\ ~ In 91 (buf s).
Definition okRJx (r : rootB) : Prop := okRJ r /\ leB (bend (rb_blk r)) (rb_blk r) = true.
Definition okJx (x : nb) : Prop :=
  match x with NBBlock r s' => okRJx r /\ exists ns, SJx s' (pending s') ns | _ => True end.

Lemma SJx_KX s ch ns : SJx s ch ns -> KX (bi s) ch.
Proof. intros ((_ & _ & Hk) & Hc & _). split; assumption. Qed.

Lemma SJx_makeRoot_full s children ns r s' : SJx s children ns -> makeRoot children s = Some (r, s') ->
  okRJx r /\ (forall b rest, children = b :: rest -> geL (bend b) rest = true) /\ SJx s' (pending s') ns.
Proof.
  intros HS Hm. pose proof (SJx_KX _ _ _ HS) as HK. destruct HS as (HJ & Hc & N).
  destruct (SJ_makeRoot _ _ _ _ _ HJ Hm) as [Hr HJ'].
  unfold makeRoot in Hm. destruct children as [|b rest]; [discriminate|].
  destruct (isOpen b) eqn:Eo; [discriminate|]. inversion Hm; subst. clear Hm.
  split; [split; [exact Hr|cbn [rb_blk]; eapply KX_U; eassumption]|]. split.
  - intros b0 rest0 E. inversion E; subst b0 rest0. eapply KX_L; eassumption.
  - split; [exact HJ'|]. cbn [pending bi buf]. split; [apply (KX_cut _ _ _ HK Eo)|apply notIn_from, N].
Qed.
Lemma SJx_makeRoot s children ns r s' : SJx s children ns -> makeRoot children s = Some (r, s') ->
  leB (bend (rb_blk r)) (rb_blk r) = true /\ (forall b rest, children = b :: rest -> geL (bend b) rest = true) /\ SJx s' (pending s') ns.
Proof. intros HS Hm. destruct (SJx_makeRoot_full _ _ _ _ _ HS Hm) as ([_ A] & B & C). tauto. Qed.

(* the hypotheses at the entry of a line that starts at ls (those of BlockSpans.SJ_lineLoop, the entries invariant, no '[') *)
Definition LEx (ls : Z) (s : bpst) (ns : bool) (children : list block) : Prop :=
  0 <= ls <= len (buf s) /\ bi s = lineEnd (buf s) ls /\ bndL ls ns children = true /\ (ns = false -> ls = len (buf s)) /\
  ccF children = true /\ kidsOK ls children /\ allP (ct ls) children /\ ~ In 91 (buf s).
(* the stream state with which lineLoop continues *)
Definition advLine (s : bpst) : bpst :=
  {| buf := buf s; bi := lineEnd (buf s) (bi s); boff := boff s; bline := bline s; pending := pending s |}.

Lemma SJx_step st children ls s ns : LEx ls s ns children ->
  let '(children', st', pn) := processLine st children ls (upto (buf s) (bi s)) in
  exists ns', SJx s children' ns' /\ (makeRoot children' s = None -> LEx (bi s) (advLine s) ns' children').
Proof.
  intros (Hls & Hbi & Hc & Hn & Hcc & Hk & Hct & N).
  destruct (lineEnd_spec (buf s) ls Hls) as [A B]. rewrite <- Hbi in A, B.
  set (ln := from_ (upto (buf s) (bi s)) ls).
  destruct (line_of (buf s) ls (bi s) ltac:(lia) ltac:(lia)) as [Ll _]. fold ln in Ll.
  set (ns' := if ns then hasByteSuffixEOL ln else false).
  assert (Hc' : bndL (bi s) ns' children = true).
  { unfold ns'. destruct ns.
    - pose proof (bndL_mono ls (bi s) children ltac:(lia) Hc) as Hm. destruct (hasByteSuffixEOL ln); [exact Hm|apply bndL_weaken, Hm].
    - rewrite (Hn eq_refl) in *. replace (bi s) with (len (buf s)) by lia. exact Hc. }
  assert (Hn' : ns' = false -> bi s = len (buf s)).
  { unfold ns'. destruct ns; [|intros _; rewrite (Hn eq_refl) in *; lia].
    intros Ee. destruct (Z.lt_ge_cases (bi s) (len (buf s))) as [Lt|Ge]; [|lia].
    exfalso. rewrite Hbi in Lt. pose proof (line_hasEOL (buf s) ls Hls Lt) as Hh. rewrite <- Hbi in Hh. fold ln in Hh. congruence. }
  assert (Nu : ~ In 91 (upto (buf s) (bi s))) by (apply notIn_upto, N).
  pose proof (bnd_processLine (bi s) ns' st children ls (upto (buf s) (bi s)) ltac:(lia) ltac:(lia) ltac:(fold ln; lia)
                ltac:(rewrite len_upto by lia; lia) ltac:(unfold ns'; fold ln; destruct ns; [tauto|discriminate]) Hc') as H1.
  pose proof (KX_processLine (bi s) ns' st children ls (upto (buf s) (bi s)) Nu ltac:(lia) ltac:(lia) ltac:(fold ln; lia)
                ltac:(rewrite len_upto by lia; lia) ltac:(unfold ns'; fold ln; destruct ns; [tauto|discriminate]) Hc' Hcc (conj Hk Hct)) as H2.
  pose proof (cc_processLine st children ls (upto (buf s) (bi s)) Hcc) as H3.
  destruct (processLine st children ls (upto (buf s) (bi s))) as [[children' st'] pn]. cbn [fst] in H1, H2, H3.
  destruct H2 as [H2 H2c].
  exists ns'. split.
  - split; [split; [repeat split; try lia; assumption|split; assumption]|split; assumption].
  - intros _. unfold LEx, advLine. cbn [buf bi].
    split; [lia|]. split; [reflexivity|]. split; [exact H1|]. split; [exact Hn'|]. split; [exact H3|]. split; [exact H2|]. split; [exact H2c|exact N].
Qed.

Lemma SJx_lineLoop : forall fuel st children ls s ns, LEx ls s ns children -> okJx (lineLoop fuel st children ls s).
Proof.
  induction fuel as [|f IH]; intros st children ls s ns HL; [exact I|]. cbn [lineLoop].
  pose proof (SJx_step st children ls s ns HL) as Hs.
  destruct (processLine st children ls (upto (buf s) (bi s))) as [[children' st'] pn].
  destruct Hs as (ns' & HS & Hnext).
  destruct (negb (pn =? 0)); [exact I|].
  destruct (makeRoot children' s) as [[r s']|] eqn:Em.
  - cbn [okJx]. destruct (SJx_makeRoot_full _ _ _ _ _ HS Em) as (Hr & _ & Hs'). split; [exact Hr|eauto].
  - apply (IH st' children' (bi s) (advLine s) ns'). apply Hnext. reflexivity.
Qed.

(* the same with the hypotheses spelled out as in BlockSpans.SJ_lineLoop *)
Lemma SJx_lineLoop' : forall fuel st children ls s ns, 0 <= ls <= len (buf s) -> bi s = lineEnd (buf s) ls ->
  bndL ls ns children = true -> (ns = false -> ls = len (buf s)) -> ccF children = true -> kidsOK ls children ->
  allP (ct ls) children -> ~ In 91 (buf s) ->
  okJx (lineLoop fuel st children ls s).
Proof. intros fuel st children ls s ns H1 H2 H3 H4 H5 H6 H7 H8. apply (SJx_lineLoop fuel st children ls s ns). unfold LEx. tauto. Qed.

Lemma SJx_skipLoop : forall fuel s, bi s = 0 -> ~ In 91 (buf s) -> okJx (skipLoop fuel s).
Proof.
  induction fuel as [|f IH]; intros s Hb N; [exact I|]. cbn [skipLoop]. cbv zeta.
  destruct (negb _); [exact I|]. destruct (isBlankLine _); [apply IH; [reflexivity|cbn [buf]; apply notIn_from, N]|].
  apply (SJx_lineLoop f 0 [] 0 _ true). unfold LEx. cbn [buf bi allP].
  pose proof (len_nonneg (buf s)). rewrite Hb.
  split; [lia|]. split; [reflexivity|]. split; [reflexivity|]. split; [discriminate|]. split; [reflexivity|].
  split; [split; exact I|]. split; [exact I|exact N].
Qed.

Lemma SJx_nextBlock fuel s ns : SJx s (pending s) ns -> okJx (nextBlock fuel s).
Proof.
  intros HS. unfold nextBlock. destruct (makeRoot (pending s) s) as [[r s']|] eqn:Em.
  - cbn [okJx]. destruct (SJx_makeRoot_full _ _ _ _ _ HS Em) as (Hr & _ & Hs'). split; [exact Hr|eauto].
  - destruct HS as (((Hb & Hc & Hn) & Hcc & Hk) & Hct & N). destruct (pending s) as [|b0 rest] eqn:Ep.
    + apply SJx_skipLoop; [reflexivity|cbn [buf]; apply notIn_from, N].
    + apply (SJx_lineLoop fuel 0 (b0 :: rest) (bi s) _ ns). unfold LEx. cbn [buf bi].
      split; [lia|]. split; [reflexivity|]. split; [exact Hc|]. split; [exact Hn|]. split; [exact Hcc|]. split; [exact Hk|]. split; [exact Hct|exact N].
Qed.

Lemma SJx_allBlocks : forall fuel s acc ns, SJx s (pending s) ns -> Forall okRJx acc -> Forall okRJx (fst (allBlocks fuel s acc)).
Proof.
  induction fuel as [|f IH]; intros s acc ns HS Ha; [exact Ha|]. cbn [allBlocks].
  pose proof (SJx_nextBlock (3 + length (buf s)) s ns HS) as Hn.
  destruct (nextBlock _ s) as [r s'| | |]; try exact Ha.
  destruct Hn as [Hr (ns' & Hs')]. apply (IH s' _ ns'); [exact Hs'|]. apply Forall_app. split; [exact Ha|]. constructor; [exact Hr|constructor].
Qed.

Lemma SJx_init input : ~ In 91 input -> SJx {| buf := pad input; bi := 0; boff := 0; bline := 1; pending := [] |} [] true.
Proof.
  intros N. split; [|split; [exact I|cbn [buf]; apply pad_no91, N]].
  split; [|split; [reflexivity|split; exact I]].
  unfold SI. cbn [buf bi pending]. pose proof (len_nonneg (pad input)). repeat split; try lia.
Qed.

Theorem parseBlocks_contained : forall input, ~ In 91 input ->
  Forall (fun r => leB (bend (rb_blk r)) (rb_blk r) = true) (fst (parseBlocks input)).
Proof.
  intros input N. unfold parseBlocks.
  pose proof (SJx_allBlocks (S (length (pad input))) _ [] true (SJx_init input N) ltac:(constructor)) as H.
  eapply Forall_impl; [|exact H]. intros r [_ Hr]. exact Hr.
Qed.
Print Assumptions parseBlocks_contained.
Print Assumptions SJx_makeRoot. Print Assumptions SJx_makeRoot_full. Print Assumptions SJx_step. Print Assumptions SJx_lineLoop. Print Assumptions SJx_lineLoop'. Print Assumptions SJx_skipLoop.
Print Assumptions SJx_nextBlock. Print Assumptions SJx_allBlocks.
