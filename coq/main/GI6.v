From Coq Require Import List ZArith Lia Bool.
Import ListNotations.
Require Import Base Tables Utf8 Tree Rdr Link Collect Html Recog Inl3a Inl3b Inl3c Inl3d Inl3e Render Props PEProof Leaf3e Leaf3n.
Require Import GI0 GI1 GI2 GI3 GI4 GI5.
Open Scope Z_scope.

(* ================================================================== *)
(* GI6: parseEndBracket keeps MI.                                      *)
(* ================================================================== *)

(* entries of a paragraph / heading as the block layer leaves them *)
Definition eok (u : inline) : bool :=
  ((ikind u =? UnparsedKind) || (ikind u =? RawHTMLKind) || (ikind u =? IndentKind)) && nilb (ikids u).

(* the one fact about parseInlineLink that the "title needs a destination" clause of the tail grammar rests on,
   for the calls the parser makes on this source and these entries (its own fuel, any cursor, any position) *)
Definition titleNeedsDestFor (src : bytes) (U : list inline) : Prop :=
  forall st start ispan dspan dtext tspan ttext, isrc st = src -> unp st = U ->
    parseInlineLink (rfuelOf st) st start = (ispan, (dspan, dtext), (tspan, ttext)) ->
    spanValid ispan = true -> spanValid tspan = true -> spanValid dspan = true.

Lemma zid_ofInline : forall i, zid (ofInline i) = true.
Proof.
  fix IH 1. intros [k s e ind r ks]. cbn [ofInline zid]. cbn [Z.eqb andb].
  induction ks as [|x l IHl]; [reflexivity|]. cbn [map forallb]. rewrite (IH x), IHl. reflexivity.
Qed.
Lemma zidF_kidsOf l : forallb zid (kidsOf l) = true.
Proof. unfold kidsOf. apply forallb_forall. intros x Hx. apply in_map_iff in Hx. destruct Hx as (i & <- & _). apply zid_ofInline. Qed.

Lemma lfl_spec : forall fuel st i, i < len (stk st) ->
  (snd (lfl fuel st i) = -1 /\
   (fst (lfl fuel st i) = st \/ exists j, 0 <= j < len (stk st) /\ fst (lfl fuel st i) = setStk st (delStack (stk st) j (j + 1)))) \/
  (0 <= snd (lfl fuel st i) < len (stk st) /\ fst (lfl fuel st i) = st /\
   (d_typ (nthD (stk st) (snd (lfl fuel st i))) = tLink \/ d_typ (nthD (stk st) (snd (lfl fuel st i))) = tImage) /\
   hasFlag (nthD (stk st) (snd (lfl fuel st i))) fActive = true).
Proof.
  induction fuel as [|f IH]; intros st i Hi; cbn [lfl]; [left; split; [reflexivity|left; reflexivity]|].
  destruct (Z.ltb_spec i 0) as [Hneg|Hpos]; [left; split; [reflexivity|left; reflexivity]|].
  destruct ((d_typ (nthD (stk st) i) =? tLink) || (d_typ (nthD (stk st) i) =? tImage)) eqn:Et.
  - destruct (hasFlag (nthD (stk st) i) fActive) eqn:Ea; cbn [negb fst snd].
    + right. split; [lia|]. split; [reflexivity|]. split; [|exact Ea].
      apply orb_true_iff in Et. destruct Et as [Et|Et]; apply Z.eqb_eq in Et; tauto.
    + left. split; [reflexivity|]. right. exists i. split; [lia|reflexivity].
  - apply IH. lia.
Qed.

Section EndBracket.
  Variable tw : bool.
  Variable src : bytes.
  Variable U : list inline.
  Hypothesis HU : forallb eok U = true.
  Hypothesis HTD : tw = true \/ titleNeedsDestFor src U.

  Lemma kids_ok tk spans l : tk = TextKind \/ tk = RawHTMLKind -> sublist spans U -> Forall (freshK tk spans) l ->
    forallb (fun c => lpk (pkind c) && (len (pkids c) =? 0)) (kidsOf l) = true.
  Proof.
    intros Htk Hs H. unfold kidsOf. apply forallb_forall. intros x Hx. apply in_map_iff in Hx. destruct Hx as (i & <- & Hi).
    rewrite Forall_forall in H. destruct (H i Hi) as [(s & e & ->)|[(s & e & ->)|(Hin & Hk)]].
    - destruct Htk as [-> | ->]; reflexivity.
    - reflexivity.
    - rewrite forallb_forall in HU. specialize (HU i (Hs i Hin)). unfold eok in HU. apply andb_true_iff in HU. destruct HU as [_ Hn].
      apply nilb_true in Hn. destruct i as [k s e ind r ks]. cbn [ikind ikids] in *. subst k ks. reflexivity.
  Qed.
  Lemma collected_ok st fuel src0 pos e tk esc : unp st = U -> tk = TextKind \/ tk = RawHTMLKind ->
    forallb (fun c => lpk (pkind c) && (len (pkids c) =? 0)) (kidsOf (collectTextNodes fuel (newReader src0 (unpFrom st) pos) e tk esc)) = true.
  Proof.
    intros Eu Htk. apply (kids_ok tk (unpFrom st)); [exact Htk| |].
    - unfold unpFrom, from_. rewrite Eu. apply sublist_skipn.
    - apply collectTextNodes_kinds. cbn [newReader r_spans]. apply sublist_refl.
  Qed.

  Lemma tailNode_mk st K s e r (c : bool) fuel src0 pos e' : unp st = U -> isLinkPart K = true ->
    tailNode tw (PN 0 K s e 0 r (if c then kidsOf (collectTextNodes fuel (newReader src0 (unpFrom st) pos) e' TextKind true) else [])).
  Proof.
    intros Eu HK. destruct (isLinkPart_notcont K HK) as [Hc _]. split; [exact HK|]. split; [reflexivity|].
    cbn [gk]. rewrite Hc.
    assert (Hu : negb (K =? UnparsedKind) = true).
    { unfold isLinkPart in HK. repeat (apply orb_true_iff in HK; destruct HK as [HK|HK]); apply Z.eqb_eq in HK; subst K; reflexivity. }
    rewrite Hu. unfold leafKids. rewrite HK. cbn [orb].
    replace (K =? CodeSpanKind) with false
      by (unfold isLinkPart in HK; repeat (apply orb_true_iff in HK; destruct HK as [HK|HK]); apply Z.eqb_eq in HK; subst K; reflexivity).
    destruct c; [|reflexivity]. rewrite (collected_ok st) by (exact Eu || (left; reflexivity)). rewrite zidF_kidsOf. reflexivity.
  Qed.
  Lemma tailNode_label st s e r fuel src0 pos e' : unp st = U ->
    tailNode tw (PN 0 LinkLabelKind s e 0 r (kidsOf (collectTextNodes fuel (newReader src0 (unpFrom st) pos) e' TextKind false))).
  Proof.
    intros Eu. split; [reflexivity|]. split; [reflexivity|]. cbn [gk]. change (cont LinkLabelKind) with false.
    change (negb (LinkLabelKind =? UnparsedKind)) with true. unfold leafKids. cbn [Z.eqb isLinkPart orb andb].
    rewrite (collected_ok st) by (exact Eu || (left; reflexivity)). rewrite zidF_kidsOf. reflexivity.
  Qed.

  Lemma MI_lfl st : MI tw U st -> MI tw U (fst (lookForLinkOrImage st)).
  Proof.
    intros HM. unfold lookForLinkOrImage.
    destruct (lfl_spec (S (length (stk st))) st (len (stk st) - 1) ltac:(lia)) as [(_ & [E|(j & Hj & E)])|(_ & E & _)]; rewrite E; try exact HM.
    apply MI_delStack; [exact HM|lia..].
  Qed.

  Lemma parseEndBracket_MI st start : MI tw U st -> isrc st = src -> MI tw U (fst (parseEndBracket st start)).
  Proof.
    intros HM Esrc. unfold parseEndBracket. cbv zeta.
    pose proof (MI_lfl st HM) as HM1. unfold lookForLinkOrImage in *.
    destruct (lfl_spec (S (length (stk st))) st (len (stk st) - 1) ltac:(lia)) as [(Er & _)|(Hr & E1 & Htyp & Hact)].
    { destruct (lfl (S (length (stk st))) st (len (stk st) - 1)) as [st1 odi]. cbn [fst snd] in *. subst odi.
      cbn [Z.ltb Z.compare]. cbn [fst]. apply MI_addText. exact HM1. }
    destruct (lfl (S (length (stk st))) st (len (stk st) - 1)) as [st1 odi]. cbn [fst snd] in *. subst st1.
    replace (odi <? 0) with false by (symmetry; apply Z.ltb_ge; lia).
    destruct (split_at1 (stk st) odi Hr) as (low & high & Es & Hlow).
    remember (nthD (stk st) odi) as od eqn:Eod.
    remember (if d_typ od =? tImage then ImageKind else LinkKind) as kind eqn:Ekind.
    pose proof HM as [M1 M2 M3 M4 M5 M6 M7 M8 M9 M10].
    assert (Hod : In (d_node od) (ids (rk st))).
    { apply (al_In _ _ _ M6). rewrite Es, sids_app. apply in_or_app. right. left. reflexivity. }
    destruct (splitAtId (d_node od) (rk st)) as [pre M] eqn:Esplit.
    assert (Hpre : forallb (idb (nid st)) pre = true).
    { pose proof (sAt_app (d_node od) (rk st)) as Happ. rewrite Esplit in Happ. rewrite Happ, forallb_app in M3. apply andb_true_iff in M3. tauto. }
    pose proof (wrap_None_state st kind (d_node od) pre M Hod Esplit) as LS0.
    assert (Hfail : MI tw U (setStk (addText st start (start + 1)) (delStack (stk st) odi (odi + 1)))).
    { pose proof (MI_addText tw U st start (start + 1) HM) as HA.
      replace (stk st) with (stk (addText st start (start + 1))) by (unfold addText, addNode; destruct (spanLen _ _ =? 0); reflexivity).
      apply MI_delStack; [exact HA|lia|lia|].
      replace (stk (addText st start (start + 1))) with (stk st) by (unfold addText, addNode; destruct (spanLen _ _ =? 0); reflexivity). lia. }
    assert (Hfinish : forall T rf st3, linkState st pre M kind T rf st3 ->
              (T = [] \/ (tailShape tw T = true /\ rf = [])) -> Forall (tailNode tw) T -> MI tw U (finishLink st3 kind odi)).
    { intros T rf st3 HLS HT HTn. rewrite <- Hlow. apply (finishLink_MI tw U st low od high kind pre M T rf st3); assumption. }
    match goal with |- context [match ?X with Some _ => _ | None => _ end] => destruct X as [[[[[ispan dspan] dtext] tspan] ttext]|] eqn:Etry end.
    - assert (Hpil : tw = true \/ (spanValid tspan = true -> spanValid dspan = true)).
      { destruct HTD as [->|HTD']; [left; reflexivity|right]. intros Ht.
        destruct ((start + 1 <? spanEnd st) && (at_ (isrc st) (start + 1) =? 40)); [|discriminate].
        destruct (parseInlineLink (rfuelOf st) st (start + 1)) as [[is0 [ds0 dt0]] [ts0 tt0]] eqn:Ep.
        destruct (spanValid is0) eqn:Ei; [|discriminate]. inversion Etry; subst. eapply (HTD' st); try eassumption; try reflexivity; try exact M1. }
      clear Etry.
      destruct (wrap st kind (d_node od) None) as [st2 lid] eqn:Ew.
      assert (El : lid = nid st) by (pose proof (snd_wrap st kind (d_node od) None) as Hs; rewrite Ew in Hs; exact Hs).
      subst lid. cbn [fst] in LS0 |- *.
      match goal with |- context [updN st2 (nid st) ?G] => set (stS := updN st2 (nid st) G) end.
      assert (LS1 : linkState st pre M kind [] [] stS) by (apply LS_span; assumption).
      assert (EuS : unp stS = U) by (destruct LS1 as (_ & _ & _ & Eu); rewrite Eu; exact M1).
      destruct (spanValid dspan) eqn:Ed; destruct (spanValid tspan) eqn:Et.
      + match goal with |- context [appendKid (appendKid stS (nid st) ?D) (nid st) ?Tt] =>
          apply (Hfinish (([] ++ [D]) ++ [Tt]) []) end.
        * apply LS_advanceTo, LS_append; [exact Hpre|]. apply LS_append; assumption.
        * right. split; reflexivity.
        * constructor; [apply (tailNode_mk stS); [exact EuS|reflexivity]|]. constructor; [|constructor].
          match goal with |- context [unpFrom ?S] => apply (tailNode_mk S); [|reflexivity] end.
          unfold appendKid, updN. cbn [setRk unp]. exact EuS.
      + match goal with |- context [appendKid stS (nid st) ?D] => apply (Hfinish ([] ++ [D]) []) end.
        * apply LS_advanceTo, LS_append; assumption.
        * right. split; reflexivity.
        * constructor; [apply (tailNode_mk stS); [exact EuS|reflexivity]|constructor].
      + match goal with |- context [appendKid stS (nid st) ?Tt] => apply (Hfinish ([] ++ [Tt]) []) end.
        * apply LS_advanceTo, LS_append; assumption.
        * right. split; [|reflexivity]. destruct Hpil as [->|Hp]; [reflexivity|]. specialize (Hp eq_refl). discriminate.
        * constructor; [apply (tailNode_mk stS); [exact EuS|reflexivity]|constructor].
      + apply (Hfinish [] []); [apply LS_advanceTo; exact LS1|left; reflexivity|constructor].
    - clear Etry.
      match goal with |- MI tw U (fst (match ?X with pair _ _ => _ end)) => destruct X as [lspan linner] end.
      destruct (_ && _ && _).
      + destruct (negb (matchRef _ _)); [cbn [fst]; exact Hfail|].
        destruct (wrap st kind (d_node od) None) as [st2 lid] eqn:Ew.
        assert (El : lid = nid st) by (pose proof (snd_wrap st kind (d_node od) None) as Hs; rewrite Ew in Hs; exact Hs).
        subst lid. cbn [fst] in LS0 |- *.
        match goal with |- context [setRef _ ?lab] => apply (Hfinish [] lab) end; [eapply LS_spanRef; [exact Hpre|exact LS0]|left; reflexivity|constructor].
      + destruct (spanValid lspan).
        * destruct (negb (matchRef _ _)); [cbn [fst]; exact Hfail|].
          destruct (wrap st kind (d_node od) None) as [st2 lid] eqn:Ew.
          assert (El : lid = nid st) by (pose proof (snd_wrap st kind (d_node od) None) as Hs; rewrite Ew in Hs; exact Hs).
          subst lid. cbn [fst] in LS0 |- *.
          match goal with |- context [appendKid st2 (nid st) ?Lb] => apply (Hfinish ([] ++ [Lb]) []) end.
          -- apply LS_advanceTo, LS_span; [exact Hpre|]. apply LS_append; assumption.
          -- right. split; reflexivity.
          -- constructor; [apply (tailNode_label st); exact M1|constructor].
        * destruct (negb (matchRef _ _)); [cbn [fst]; exact Hfail|].
          destruct (wrap st kind (d_node od) None) as [st2 lid] eqn:Ew.
          assert (El : lid = nid st) by (pose proof (snd_wrap st kind (d_node od) None) as Hs; rewrite Ew in Hs; exact Hs).
          subst lid. cbn [fst] in LS0 |- *.
          match goal with |- context [setRef _ ?lab] => apply (Hfinish [] lab) end; [eapply LS_spanRef; [exact Hpre|exact LS0]|left; reflexivity|constructor].
  Qed.
End EndBracket.
