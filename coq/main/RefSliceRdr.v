(* RefSliceRdr.v -- exact behaviour of the inline byte reader and of the link scanners of Link.v / Collect.v on ONE
   unparsed span [a,b) of a NUL-free source (used by RefSliceBlk.v and RefSliceInl.v; part of T44, property C12).
   The reader states are LabelNorm.R1 (inside the span) and LabelNorm.Rend (after the last byte of the span). *)
From Coq Require Import List ZArith Lia Bool.
Import ListNotations.
Require Import Base Tables Utf8 Tree Rdr Link Collect SliceBase LabelNorm.
Open Scope Z_scope.

(* ---- "the bytes from position pos on are ..." ---- *)
Lemma from_cons_inv (src : bytes) pos c l : 0 <= pos -> from_ src pos = c :: l ->
  pos < len src /\ at_ src pos = c /\ from_ src (pos + 1) = l.
Proof.
  intros H0 H. unfold from_, at_, len in *.
  destruct (Z.ltb_spec pos 0) as [L|_]; [lia|].
  assert (Hlt : (Z.to_nat pos < length src)%nat).
  { destruct (Nat.lt_ge_cases (Z.to_nat pos) (length src)) as [L|L]; [exact L|].
    rewrite skipn_all2 in H by exact L. discriminate H. }
  rewrite (skipn_nth_cons (Z.to_nat pos) src Hlt) in H. inversion H as [[E1 E2]].
  replace (Z.to_nat (pos + 1)) with (S (Z.to_nat pos)) by lia.
  repeat split; try reflexivity. lia.
Qed.
Lemma from_app_inv (src : bytes) pos : forall t l, 0 <= pos -> from_ src pos = t ++ l -> from_ src (pos + len t) = l.
Proof.
  induction t as [|c t IH] in pos |- *; intros l H0 H.
  - rewrite sl_len_nil, Z.add_0_r. exact H.
  - cbn [app] in H. destruct (from_cons_inv src pos c (t ++ l) H0 H) as (_ & _ & H').
    rewrite sl_len_cons. replace (pos + (len t + 1)) with (pos + 1 + len t) by lia. apply IH; [lia|exact H'].
Qed.
Lemma from_sub (src : bytes) pos t l : 0 <= pos -> from_ src pos = t ++ l -> sub src pos (pos + len t) = t.
Proof.
  intros H0 H. unfold sub. rewrite H. replace (pos + len t - pos) with (len t) by lia. apply sl_upto_app_len.
Qed.
Lemma from_app_at (src : bytes) pos t c l : 0 <= pos -> from_ src pos = t ++ c :: l -> at_ src (pos + len t) = c.
Proof.
  intros H0 H. pose proof (sl_len_nonneg t).
  apply (from_app_inv src pos t (c :: l) H0) in H. apply from_cons_inv in H; [tauto|lia].
Qed.
Lemma from_len (src : bytes) pos l : 0 <= pos -> pos <= len src -> from_ src pos = l -> len src = pos + len l.
Proof.
  intros H0 H1 H. subst l. unfold from_, len in *. rewrite skipn_length. lia.
Qed.
Lemma from_Forall_at (P : Z -> Prop) (src : bytes) pos t l : 0 <= pos -> from_ src pos = t ++ l -> Forall P t ->
  forall i, pos <= i < pos + len t -> P (at_ src i).
Proof.
  revert pos. induction t as [|c t IH]; intros pos H0 H HF i Hi.
  - rewrite sl_len_nil in Hi. lia.
  - cbn [app] in H. destruct (from_cons_inv src pos c (t ++ l) H0 H) as (_ & Hat & H').
    inversion HF as [|x y Hc HF' Exy]. rewrite sl_len_cons in Hi.
    destruct (Z.eq_dec i pos) as [->|Hne]; [rewrite Hat; exact Hc|].
    apply (IH (pos + 1)); try assumption; lia.
Qed.
Lemma noNul_at (src : bytes) i : noNul src -> 0 <= i < len src -> at_ src i <> 0.
Proof.
  intros H Hi. unfold at_. destruct (Z.ltb_spec i 0); [lia|]. unfold noNul in H. rewrite Forall_forall in H.
  apply H. apply nth_In. unfold len in Hi. lia.
Qed.

(* ---- the reader after the last byte of its only span ---- *)
Section One.
  Variables (src : bytes) (a b : Z).
  Hypothesis Ha : 0 <= a.
  Hypothesis Hb : b <= len src.
  Hypothesis Hnz : noNul src.
  Notation R := (R1 src a b).
  Notation RE := (Rend src).

  Lemma curNode_Rend pos v p : curNode (RE pos v p) = (None, RE pos v p).
  Proof. reflexivity. Qed.
  Lemma current_Rend pos v p : pos < len src -> at_ src pos <> 0 -> current (RE pos v p) = (at_ src pos, RE pos v p).
  Proof.
    intros H1 H2. unfold current. cbn [r_src r_pos Rend]. destruct (Z.leb_spec (len src) pos); [lia|].
    rewrite curNode_Rend. cbn [okind]. change (0 =? IndentKind) with false. cbv iota.
    destruct (Z.eqb_spec (at_ src pos) 0); [contradiction|reflexivity].
  Qed.
  Lemma current_Rend_out pos v p : len src <= pos -> current (RE pos v p) = (0, RE pos v p).
  Proof. intros H. unfold current. cbn [r_src r_pos Rend]. destruct (Z.leb_spec (len src) pos); [reflexivity|lia]. Qed.
  Lemma next_Rend pos v p : next (RE pos v p) = (false, RE pos v p).
  Proof. reflexivity. Qed.

  (* reading the byte c at position q inside the span *)
  Lemma cur_at q v p c l : from_ src q = c :: l -> a <= q -> q < b -> c <> 0 -> current (R q v p) = (c, R q v p).
  Proof.
    intros H H1 H2 Hc. destruct (from_cons_inv src q c l ltac:(lia) H) as (Hl & Hat & _).
    rewrite (current_R1 src a b Ha q v p H1 H2 Hl) by (rewrite Hat; exact Hc). rewrite Hat. reflexivity.
  Qed.
  Lemma nxt_at q v p c l : from_ src q = c :: l -> a <= q -> q < b -> c <> 0 ->
    next (R q v p) = if q + 1 <? b then (true, R (q + 1) v q) else (false, RE (q + 1) v q).
  Proof.
    intros H H1 H2 Hc. destruct (from_cons_inv src q c l ltac:(lia) H) as (Hl & Hat & _).
    rewrite (next_R1 src a b Ha q v p H1 H2) by (rewrite Hat; exact Hc).
    destruct (Z.ltb_spec (q + 1) b) as [L|L]; [|reflexivity].
    destruct (Z.eqb_spec (at_ src (q + 1)) 0) as [E|_]; [|reflexivity].
    exfalso. apply (noNul_at src (q + 1) Hnz); [lia|exact E].
  Qed.
  Lemma nxt_in q v p c l : from_ src q = c :: l -> a <= q -> q + 1 < b -> c <> 0 -> next (R q v p) = (true, R (q + 1) v q).
  Proof.
    intros H H1 H2 Hc. rewrite (nxt_at q v p c l H H1 ltac:(lia) Hc). destruct (Z.ltb_spec (q + 1) b); [reflexivity|lia].
  Qed.
  Lemma nxt_last q v p c l : from_ src q = c :: l -> a <= q -> q + 1 = b -> c <> 0 -> next (R q v p) = (false, RE (q + 1) v q).
  Proof.
    intros H H1 H2 Hc. rewrite (nxt_at q v p c l H H1 ltac:(lia) Hc). destruct (Z.ltb_spec (q + 1) b); [lia|reflexivity].
  Qed.

  (* ---- label bytes: anything but NUL, '[', ']' and backslash ---- *)
  Definition lblB (c : Z) : bool := negb ((c =? 0) || (c =? 91) || (c =? 93) || (c =? 92)).
  Lemma lblB_ne c : lblB c = true -> c <> 0 /\ (c =? 91) = false /\ (c =? 93) = false /\ (c =? 92) = false.
  Proof.
    unfold lblB. intros H. apply negb_true_iff in H.
    destruct (Z.eqb_spec c 0); [discriminate|]. destruct (c =? 91); [discriminate|].
    destruct (c =? 93); [discriminate|]. destruct (c =? 92); [discriminate|]. tauto.
  Qed.

  (* innerEnd after scanning t from position pos *)
  Fixpoint ieOf (t : bytes) (pos ie : Z) : Z :=
    match t with [] => ie | c :: r => ieOf r (pos + 1) (if negb (ws c) then pos + 1 else ie) end.
  Lemma ieOf_last : forall t pos ie c, ws c = false -> ieOf (t ++ [c]) pos ie = pos + len (t ++ [c]).
  Proof.
    induction t as [|d t IH]; intros pos ie c Hc.
    - cbn [app ieOf]. rewrite Hc. reflexivity.
    - cbn [app ieOf]. rewrite (IH (pos + 1) _ c Hc). rewrite (sl_len_cons d). lia.
  Qed.

  Lemma ll_body_S f r chars ie : ll_body (S f) r chars ie =
    let '(c, r1) := current r in
    if negb ((chars <? maxChars) && negb (c =? 91) && negb (c =? 93)) then Some (r1, ie) else
    if c =? 92 then
      let innerEnd := r_pos r1 + 1 in
      let chars := chars + 1 in
      let '(ok, r2) := next r1 in
      if negb ok then None else
      let '(c2, r3) := current r2 in
      let innerEnd := if negb (isSpaceTabOrLineEnding c2) then r_pos r3 + 1 else innerEnd in
      let '(ok2, r4) := next r3 in
      if negb ok2 then None else ll_body f r4 (chars + 1) innerEnd
    else
      let innerEnd := if negb (isSpaceTabOrLineEnding c) then r_pos r1 + 1 else ie in
      let '(ok, r2) := next r1 in
      if negb ok then None else ll_body f r2 (chars + 1) innerEnd.
  Proof. reflexivity. Qed.

  (* the body loop of parseLinkLabel over t ++ "]": it stops at the ']' , or earlier when the 999-character limit is hit *)
  Lemma ll_body_R1 : forall t fuel pos v p chars ie rest,
    from_ src pos = t ++ 93 :: rest -> Forall (fun c => lblB c = true) t -> a <= pos -> pos + len t < b ->
    (length t < fuel)%nat ->
    exists k p' ie', 0 <= k <= len t /\ ll_body fuel (R pos v p) chars ie = Some (R (pos + k) v p', ie') /\
      (k = len t -> ie' = ieOf t pos ie) /\ (chars + len t <= maxChars -> k = len t).
  Proof.
    induction t as [|c t IH]; intros fuel pos v p chars ie rest Hfrom HF H1 H2 Hfuel;
      (destruct fuel as [|f]; [cbn [length] in Hfuel; lia|]).
    - cbn [app] in Hfrom. rewrite sl_len_nil in *. rewrite ll_body_S.
      rewrite (cur_at pos v p 93 rest Hfrom H1 ltac:(lia) ltac:(lia)).
      change (93 =? 93) with true. cbn [negb]. rewrite !andb_false_r. cbn [negb].
      exists 0, p, ie. change (len (@nil Z)) with 0. rewrite Z.add_0_r. split; [lia|]. split; [reflexivity|]. split; [intros _; reflexivity|intros _; reflexivity].
    - cbn [app] in Hfrom. inversion HF as [|x y Hc HF' Exy].
      destruct (lblB_ne c Hc) as (Hc0 & E91 & E93 & E92).
      destruct (from_cons_inv src pos c (t ++ 93 :: rest) ltac:(lia) Hfrom) as (_ & _ & Hfrom').
      rewrite sl_len_cons in *. pose proof (sl_len_nonneg t) as Ht0. cbn [length] in Hfuel.
      rewrite ll_body_S. rewrite (cur_at pos v p c _ Hfrom H1 ltac:(lia) Hc0).
      rewrite E91, E93. cbn [negb]. rewrite !andb_true_r.
      destruct (Z.ltb_spec chars maxChars) as [Lc|Lc]; cbn [negb].
      + rewrite E92. rewrite (nxt_in pos v p c _ Hfrom H1 ltac:(lia) Hc0). cbn [negb].
        change (r_pos (R pos v p)) with pos.
        destruct (IH f (pos + 1) v pos (chars + 1) (if negb (ws c) then pos + 1 else ie) rest Hfrom' HF' ltac:(lia) ltac:(lia) ltac:(lia))
          as (k & p' & ie' & Hk & Hrun & Hie & Hfull).
        exists (k + 1), p', ie'. split; [lia|]. split.
        * rewrite Hrun. replace (pos + 1 + k) with (pos + (k + 1)) by lia. reflexivity.
        * split; [intros Hkl; cbn [ieOf]; apply Hie; lia|intros Hlt; rewrite (Hfull ltac:(lia)); reflexivity].
      + exists 0, p, ie. rewrite Z.add_0_r. split; [lia|]. split; [reflexivity|]. split; [intros; lia|intros; lia].
  Qed.

  Lemma ll_skip_S f r chars : ll_skip (S f) r chars =
    let '(ok, r1) := next r in
    if negb ok then None else
    let chars := chars + 1 in
    let '(c, r2) := current r1 in
    if (maxChars <=? chars) || (c =? 91) || (c =? 93) then None
    else if negb (isSpaceTabOrLineEnding c) then Some (r2, chars) else ll_skip f r2 chars.
  Proof. reflexivity. Qed.

  (* parseLinkLabel on "[" t "]" where t starts with a non-blank byte *)
  Definition afterPos (q v : Z) : reader := if q <? b then R q v (q - 1) else RE q v (q - 1).

  Lemma parseLinkLabel_R1 c0 t fuel pos v p rest :
    from_ src pos = 91 :: (c0 :: t) ++ 93 :: rest -> Forall (fun c => lblB c = true) (c0 :: t) -> ws c0 = false ->
    a <= pos -> pos + len (c0 :: t) + 1 < b -> (S (length t) < fuel)%nat ->
    (* either the 999-character limit is hit and the label is rejected, or the label is recognised *)
    (spanValid (fst (fst (parseLinkLabel fuel (R pos v p)))) = false /\ maxChars < 1 + len (c0 :: t)) \/
    (parseLinkLabel fuel (R pos v p) =
       ((pos, pos + len (c0 :: t) + 2), (pos + 1, ieOf (c0 :: t) (pos + 1) (-1)), afterPos (pos + len (c0 :: t) + 2) v)).
  Proof.
    intros Hfrom HF Hws H1 H2 Hfuel. set (T := c0 :: t) in *.
    assert (HT : len T = len t + 1) by (unfold T; apply sl_len_cons). pose proof (sl_len_nonneg t) as Ht0.
    destruct (from_cons_inv src pos 91 (T ++ 93 :: rest) ltac:(lia) Hfrom) as (_ & _ & Hfrom1).
    inversion HF as [|x y Hc0 HF' Exy]. destruct (lblB_ne c0 Hc0) as (Hc00 & E91 & E93 & E92).
    unfold parseLinkLabel. rewrite (cur_at pos v p 91 _ Hfrom H1 ltac:(lia) ltac:(lia)).
    change (negb (91 =? 91)) with false. cbv iota. change (r_pos (R pos v p)) with pos.
    destruct fuel as [|f]; [lia|]. rewrite ll_skip_S.
    rewrite (nxt_in pos v p 91 _ Hfrom H1 ltac:(lia) ltac:(lia)). cbn [negb].
    pose proof Hfrom1 as Hfrom1u. unfold T in Hfrom1u. cbn [app] in Hfrom1u.
    rewrite (cur_at (pos + 1) v pos c0 _ Hfrom1u ltac:(lia) ltac:(lia) Hc00).
    change (maxChars <=? 0 + 1) with false. rewrite E91, E93, Hws. cbn [orb negb].
    change (r_pos (R (pos + 1) v pos)) with (pos + 1).
    destruct (ll_body_R1 T (S f) (pos + 1) v pos (0 + 1) (-1) rest Hfrom1 HF ltac:(lia) ltac:(lia))
      as (k & p' & ie' & Hk & Hrun & Hie & Hfull).
    { unfold T. cbn [length]. lia. }
    rewrite Hrun.
    destruct (Z.eq_dec k (len T)) as [->|Hne].
    - assert (Hfrom2 : from_ src (pos + 1 + len T) = 93 :: rest) by (apply from_app_inv; [lia|exact Hfrom1]).
      rewrite (cur_at (pos + 1 + len T) v p' 93 rest Hfrom2 ltac:(lia) ltac:(lia) ltac:(lia)).
      change (negb (93 =? 93)) with false. cbv iota. change (r_pos (R (pos + 1 + len T) v p')) with (pos + 1 + len T).
      rewrite (nxt_at (pos + 1 + len T) v p' 93 rest Hfrom2 ltac:(lia) ltac:(lia) ltac:(lia)).
      rewrite (Hie eq_refl). right. unfold afterPos.
      replace (pos + len T + 2) with (pos + 1 + len T + 1) by lia.
      replace (pos + 1 + len T + 1 - 1) with (pos + 1 + len T) by lia.
      destruct (pos + 1 + len T + 1 <? b); reflexivity.
    - (* stopped early: the byte there is a label byte, not ']' *)
      left. split; [|destruct (Z.lt_ge_cases maxChars (1 + len T)) as [L|L]; [exact L|exfalso; apply Hne, Hfull; lia]].
      assert (Hin : exists t1 d t2, T = t1 ++ d :: t2 /\ len t1 = k).
      { assert (Hkn : (Z.to_nat k < length T)%nat) by (unfold len in *; lia).
        exists (firstn (Z.to_nat k) T), (nth (Z.to_nat k) T 0), (skipn (S (Z.to_nat k)) T). split.
        - rewrite <- (skipn_nth_cons (Z.to_nat k) T Hkn). symmetry. apply firstn_skipn.
        - unfold len. rewrite firstn_length. lia. }
      destruct Hin as (t1 & d & t2 & ET & Hlk).
      assert (Hd : lblB d = true).
      { rewrite Forall_forall in HF. apply HF. rewrite ET. apply in_or_app. right. left. reflexivity. }
      destruct (lblB_ne d Hd) as (Hd0 & _ & Ed93 & _).
      assert (Hfromk : from_ src (pos + 1 + k) = d :: t2 ++ 93 :: rest).
      { rewrite <- Hlk. apply from_app_inv; [lia|]. rewrite Hfrom1, ET, <- app_assoc. reflexivity. }
      rewrite (cur_at (pos + 1 + k) v p' d _ Hfromk ltac:(lia) ltac:(lia) Hd0).
      rewrite Ed93. reflexivity.
  Qed.
  (* ---- position-indexed forms ---- *)
  Lemma cur_pos q v p : a <= q -> q < b -> current (R q v p) = (at_ src q, R q v p).
  Proof. intros H1 H2. apply (current_R1 src a b Ha q v p H1 H2); [lia|]. apply noNul_at; [exact Hnz|lia]. Qed.
  Lemma nxt_pos q v p : a <= q -> q < b ->
    next (R q v p) = if q + 1 <? b then (true, R (q + 1) v q) else (false, RE (q + 1) v q).
  Proof.
    intros H1 H2. rewrite (next_R1 src a b Ha q v p H1 H2) by (apply noNul_at; [exact Hnz|lia]).
    destruct (Z.ltb_spec (q + 1) b) as [L|L]; [|reflexivity].
    destruct (Z.eqb_spec (at_ src (q + 1)) 0) as [E|_]; [|reflexivity].
    exfalso. apply (noNul_at src (q + 1) Hnz); [lia|exact E].
  Qed.

  (* collectTextNodes over bytes that are neither backslash nor ampersand: one text node *)
  Lemma collect_plain : forall fuel pos v p e tk esc ps acc, a <= pos -> e <= b ->
    (forall i, pos <= i < e -> (at_ src i =? 92) = false /\ (at_ src i =? 38) = false) ->
    collect_loop fuel (R pos v p) e tk esc ps acc = (acc, ps).
  Proof.
    induction fuel as [|f IH]; intros pos v p e tk esc ps acc H1 H2 Hb'; [reflexivity|].
    cbn [collect_loop]. change (r_pos (R pos v p)) with pos.
    destruct (Z.leb_spec e pos) as [L|L]; [reflexivity|].
    rewrite (curNode_R1 src a b Ha pos v p H1 ltac:(lia)). cbn [okind ikind mkI].
    change (UnparsedKind =? IndentKind) with false. change (UnparsedKind =? UnparsedKind) with true. cbv iota. cbv beta zeta.
    assert (Tail : (if e <=? r_pos (R pos v p) then (acc, ps) else
                    let '(ok, r1) := next (R pos v p) in
                    if negb ok then (acc, ps) else
                    if jumped r1 then
                      collect_loop f r1 e tk esc (r_pos r1) (if ps <=? r_prev r1 then acc ++ [mkI tk ps (r_prev r1 + 1)] else acc)
                    else collect_loop f r1 e tk esc ps acc) = (acc, ps)).
    { change (r_pos (R pos v p)) with pos. destruct (Z.leb_spec e pos) as [L'|_]; [lia|].
      rewrite (nxt_pos pos v p H1 ltac:(lia)). destruct (Z.ltb_spec (pos + 1) b) as [Lb|Lb]; cbn [negb]; [|reflexivity].
      unfold jumped. cbn [r_prev r_pos R1]. replace (pos + 1 - pos) with 1 by lia. change (1 <? 1) with false.
      rewrite andb_false_r. apply IH; try lia. intros i Hi. apply Hb'. lia. }
    destruct esc; cbn [andb].
    - rewrite (cur_pos pos v p H1 ltac:(lia)). destruct (Hb' pos ltac:(lia)) as [-> ->]. exact Tail.
    - exact Tail.
  Qed.

  Lemma collectTextNodes_plain fuel pos v p e tk esc : a <= pos -> pos < e -> e <= b ->
    (forall i, pos <= i < e -> (at_ src i =? 92) = false /\ (at_ src i =? 38) = false) ->
    collectTextNodes fuel (R pos v p) e tk esc = [mkI tk pos e].
  Proof.
    intros H1 H2 H3 Hb'. unfold collectTextNodes. rewrite (collect_plain fuel pos v p e tk esc _ [] H1 H3 Hb').
    change (r_pos (R pos v p)) with pos. destruct (Z.ltb_spec pos e); [reflexivity|lia].
  Qed.
End One.
