From Coq Require Import List ZArith Lia Bool.
Import ListNotations.
Require Import Base Tree Rdr Link Collect Html Recog LP Rules Starts Driver L2Kind.
Open Scope Z_scope.

(* C05, containment: every block child is of a kind its parent's canContain accepts, in every tree the block layer returns.
   In particular a list contains only list items, list items and block quotes contain no bare list item, and the leaf
   block kinds have no block children. *)
Fixpoint cc (b : block) : bool :=
  match b with Blk K _ _ bk _ _ _ _ _ _ => forallb (fun c => canContain K (bkind c)) bk && forallb cc bk end.
Definition ccL (l : list block) : bool := forallb cc l.
Definition compat (k k' : Z) : Prop := k' = k \/ (k <> ListItemKind /\ k' <> ListItemKind).

Lemma cc_eq b : cc b = forallb (fun c => canContain (bkind b) (bkind c)) (bkids b) && ccL (bkids b).
Proof. destruct b; reflexivity. Qed.
Lemma cc_parts b : cc b = true -> forallb (fun c => canContain (bkind b) (bkind c)) (bkids b) = true /\ ccL (bkids b) = true.
Proof. rewrite cc_eq. apply andb_true_iff. Qed.
Lemma compat_refl k : compat k k. Proof. left. reflexivity. Qed.
Lemma cc_swap P k k' : canContain P k = true -> compat k k' -> canContain P k' = true.
Proof.
  intros H [->|[N1 N2]]; [assumption|]. unfold canContain in *.
  destruct (P =? documentKind); [apply negb_true_iff, Z.eqb_neq; assumption|].
  destruct (P =? ListKind); [apply Z.eqb_eq in H; contradiction|].
  destruct (P =? ListItemKind); [apply negb_true_iff, Z.eqb_neq; assumption|].
  destruct (P =? BlockQuoteKind); [apply negb_true_iff, Z.eqb_neq; assumption|discriminate].
Qed.

(* setters *)
Lemma cc_set_bend b v : cc (set_bend b v) = cc b. Proof. destruct b; reflexivity. Qed.
Lemma cc_set_bstart b v : cc (set_bstart b v) = cc b. Proof. destruct b; reflexivity. Qed.
Lemma cc_set_bn b v : cc (set_bn b v) = cc b. Proof. destruct b; reflexivity. Qed.
Lemma cc_set_bchar b v : cc (set_bchar b v) = cc b. Proof. destruct b; reflexivity. Qed.
Lemma cc_set_bindent b v : cc (set_bindent b v) = cc b. Proof. destruct b; reflexivity. Qed.
Lemma cc_set_bloose b v : cc (set_bloose b v) = cc b. Proof. destruct b; reflexivity. Qed.
Lemma cc_set_blast b v : cc (set_blast b v) = cc b. Proof. destruct b; reflexivity. Qed.
Lemma cc_set_bik b v : cc (set_bik b v) = cc b. Proof. destruct b; reflexivity. Qed.
Lemma bkind_set_bend b v : bkind (set_bend b v) = bkind b. Proof. destruct b; reflexivity. Qed.
Lemma bkind_set_bn b v : bkind (set_bn b v) = bkind b. Proof. destruct b; reflexivity. Qed.
Lemma bkind_set_bchar b v : bkind (set_bchar b v) = bkind b. Proof. destruct b; reflexivity. Qed.
Lemma bkind_set_bindent b v : bkind (set_bindent b v) = bkind b. Proof. destruct b; reflexivity. Qed.
Lemma bkind_set_bloose b v : bkind (set_bloose b v) = bkind b. Proof. destruct b; reflexivity. Qed.
Lemma bkind_set_blast b v : bkind (set_blast b v) = bkind b. Proof. destruct b; reflexivity. Qed.
Lemma bkind_set_bkids b v : bkind (set_bkids b v) = bkind b. Proof. destruct b; reflexivity. Qed.
Lemma bkind_set_lastBlocks b v : bkind (set_lastBlocks b v) = bkind b. Proof. destruct b; reflexivity. Qed.

Lemma cc_set_bkids b ks : forallb (fun c => canContain (bkind b) (bkind c)) ks = true -> ccL ks = true -> cc (set_bkids b ks) = true.
Proof. intros H1 H2. destruct b. unfold ccL in *. cbn [cc set_bkids bkind] in *. rewrite H1, H2. reflexivity. Qed.

Lemma cc_lastBlock b c : cc b = true -> lastBlock b = Some c -> cc c = true /\ canContain (bkind b) (bkind c) = true.
Proof.
  intros H Hl. apply cc_parts in H. destruct H as [H1 H2]. pose proof (lastBlock_In b c Hl) as Hin.
  unfold ccL in H2. rewrite forallb_forall in H1, H2. split; [apply H2|apply H1]; assumption.
Qed.

Definition okRepl (k : Z) (l : list block) : Prop := Forall (fun x => cc x = true /\ compat k (bkind x)) l.

Lemma cc_set_lastBlocks b c repl : cc b = true -> lastBlock b = Some c -> okRepl (bkind c) repl -> cc (set_lastBlocks b repl) = true.
Proof.
  intros H Hl Hr. destruct (cc_lastBlock b c H Hl) as [_ Hacc]. apply cc_parts in H. destruct H as [H1 H2].
  unfold set_lastBlocks. apply cc_set_bkids.
  - rewrite forallb_app. apply andb_true_iff. split.
    + revert H1. apply forallb_sub. intros x. apply removelast_In.
    + apply forallb_forall. intros x Hx. unfold okRepl in Hr. rewrite Forall_forall in Hr. destruct (Hr x Hx) as [_ Hc].
      eapply cc_swap; eassumption.
  - unfold ccL in *. rewrite forallb_app. apply andb_true_iff. split.
    + revert H2. apply forallb_sub. intros x. apply removelast_In.
    + apply forallb_forall. intros x Hx. unfold okRepl in Hr. rewrite Forall_forall in Hr. apply (Hr x Hx).
Qed.

(* right-spine update: the updated block keeps cc and changes its kind compatibly *)
Lemma cc_updAt_at f : forall d b, cc b = true ->
  (forall x, getAt d b = Some x -> cc x = true -> cc (f x) = true /\ compat (bkind x) (bkind (f x))) ->
  cc (updAt d f b) = true /\ compat (bkind b) (bkind (updAt d f b)).
Proof.
  induction d as [|d IH]; intros b H Hf; [apply Hf; [reflexivity|assumption]|]. cbn [updAt].
  destruct (lastBlock b) as [c|] eqn:El; [|split; [assumption|apply compat_refl]].
  destruct (cc_lastBlock b c H El) as [Hc _].
  destruct (IH c Hc) as [Hc' Hk'].
  { intros x Hx. apply Hf. cbn [getAt]. rewrite El. exact Hx. }
  split; [|rewrite bkind_set_lastBlocks; apply compat_refl].
  eapply cc_set_lastBlocks; [exact H|exact El|]. constructor; [split; assumption|constructor].
Qed.
Lemma bkind_updAt f : forall d b, (d = O -> bkind (f b) = bkind b) -> bkind (updAt d f b) = bkind b.
Proof.
  destruct d as [|d]; intros b H; [apply H; reflexivity|]. cbn [updAt].
  destruct (lastBlock b); [apply bkind_set_lastBlocks|reflexivity].
Qed.

(* ---- onClose handlers ---- *)
Lemma cc_onCloseIndented src b : cc (onCloseIndented src b) = cc b /\ bkind (onCloseIndented src b) = bkind b.
Proof. unfold onCloseIndented. cbv zeta. split; [apply cc_set_bik|apply bkind_set_bik]. Qed.
Lemma cc_onCloseList b : cc b = true -> cc (onCloseList b) = true /\ bkind (onCloseList b) = bkind b.
Proof.
  intros H. unfold onCloseList. cbv zeta. destruct (bloose b || _); [|tauto]. split; [|rewrite bkind_set_bkids; apply bkind_set_bloose].
  apply cc_parts in H. destruct H as [H1 H2]. apply cc_set_bkids.
  - rewrite bkind_set_bloose. rewrite forallb_forall in *. intros x Hx. apply in_map_iff in Hx. destruct Hx as (y & <- & Hy).
    rewrite bkind_set_bloose. apply H1, Hy.
  - unfold ccL in *. rewrite forallb_forall in *. intros x Hx. apply in_map_iff in Hx. destruct Hx as (y & <- & Hy).
    rewrite cc_set_bloose. apply H2, Hy.
Qed.

Definition nli (l : list block) : Prop := Forall (fun x => cc x = true /\ bkind x <> ListItemKind) l.
Lemma nli_app a b : nli a -> nli b -> nli (a ++ b). Proof. intros. apply Forall_app; split; assumption. Qed.
Lemma nli_one x : cc x = true -> bkind x <> ListItemKind -> nli [x]. Proof. intros. constructor; [split; assumption|constructor]. Qed.
Lemma nli_refDef s e kids : nli [refDefBlock s e kids]. Proof. apply nli_one; [reflexivity|discriminate]. Qed.

Lemma nli_ocp : forall fuel rfuel src orig orphan r result,
  cc orig = true -> bkind orig <> ListItemKind ->
  (match orphan with Some o => cc o = true /\ bkind o <> ListItemKind | None => True end) -> nli result ->
  nli (ocp_loop fuel rfuel src orig orphan r result).
Proof.
  induction fuel as [|f IH]; intros rfuel src orig orphan r result Ho Hk Hor Hr.
  { cbn [ocp_loop]. apply nli_app; [assumption|apply nli_one; assumption]. }
  assert (Hkeep : nli (result ++ [orig])) by (apply nli_app; [assumption|apply nli_one; assumption]).
  assert (Hwo : forall res, nli res -> nli (match orphan with Some o => res ++ [o] | None => res end)).
  { intros res Hres. destruct orphan as [o|]; [|assumption]. apply nli_app; [assumption|apply nli_one; tauto]. }
  assert (Hcut : forall pos ik, cc (set_bik (set_bstart orig pos) ik) = true /\ bkind (set_bik (set_bstart orig pos) ik) <> ListItemKind).
  { intros pos ik. rewrite cc_set_bik, cc_set_bstart, bkind_set_bik, bkind_set_bstart. tauto. }
  cbn [ocp_loop]. cbv zeta.
  destruct (parseLinkLabel rfuel r) as [[lspan linner] r1].
  destruct (negb (spanValid lspan)); [assumption|].
  destruct (current r1) as [c r2]. destruct (negb (c =? 58)); [assumption|].
  destruct (next r2) as [? r3]. destruct (skipLinkSpace rfuel r3) as [ok r4]. destruct (negb ok); [assumption|].
  destruct (parseLinkDestination rfuel r4) as [[dspan dtext] r5]. destruct (negb (spanValid dspan)); [assumption|].
  destruct (readEOL rfuel r5) as [destEOL r6]. destruct (current r6) as [c6 r7].
  destruct (_ && _ && _); [assumption|].
  set (labelInline := Inl LinkLabelKind _ _ 0 _ _). set (destInline := Inl LinkDestinationKind _ _ 0 [] _).
  assert (H2 : nli (result ++ [refDefBlock (fst lspan) destEOL [labelInline; destInline]])) by (apply nli_app; [assumption|apply nli_refDef]).
  destruct (skipLinkSpace rfuel r7) as [ok2 r8]. destruct (negb ok2); [apply Hwo; assumption|].
  destruct (parseLinkTitle rfuel r8) as [[tspan ttext] r9].
  destruct (negb (spanValid tspan)).
  { destruct (destEOL <? 0); [assumption|]. destruct (_ <? 0); [apply Hwo; assumption|].
    apply IH; [apply Hcut|apply Hcut|assumption|assumption]. }
  destruct (readEOL rfuel r9) as [titleEOL r10].
  destruct (titleEOL <? 0).
  { destruct (destEOL <? 0); [assumption|]. destruct (_ <? 0); [apply Hwo; assumption|].
    rewrite app_assoc. apply nli_app; [assumption|apply nli_one; apply Hcut]. }
  set (titleInline := Inl LinkTitleKind _ _ 0 [] _).
  assert (H3 : nli (result ++ [refDefBlock (fst lspan) titleEOL [labelInline; destInline; titleInline]])) by (apply nli_app; [assumption|apply nli_refDef]).
  destruct (_ <? 0); [apply Hwo; assumption|]. apply IH; [apply Hcut|apply Hcut|assumption|assumption].
Qed.

Lemma nli_onCloseParagraph src orig : cc orig = true -> bkind orig <> ListItemKind -> nli (onCloseParagraph src orig).
Proof.
  intros H Hk. unfold onCloseParagraph. destruct (bik orig) as [|first rest] eqn:Eb; [apply nli_one; assumption|].
  cbv zeta. rewrite <- Eb. apply nli_ocp; [assumption|assumption| |constructor].
  destruct (bkind orig =? SetextHeadingKind); [|exact I]. split; [reflexivity|discriminate].
Qed.

Lemma nli_okRepl k l : k <> ListItemKind -> nli l -> okRepl k l.
Proof. intros Hk H. unfold okRepl, nli in *. eapply Forall_impl; [|exact H]. intros x [A B]. split; [assumption|right; tauto]. Qed.

Lemma cc_closeBlock src e : forall fuel b, cc b = true -> okRepl (bkind b) (closeBlock fuel src b e).
Proof.
  induction fuel as [|f IH]; intros b H; [constructor; [split; [assumption|apply compat_refl]|constructor]|]. cbn [closeBlock].
  destruct (negb (isOpen b)); [constructor; [split; [assumption|apply compat_refl]|constructor]|]. cbv zeta.
  assert (Hcl : forall x, cc x = true ->
            cc (match lastBlock x with Some c => set_lastBlocks x (closeBlock f src c e) | None => x end) = true /\
            bkind (match lastBlock x with Some c => set_lastBlocks x (closeBlock f src c e) | None => x end) = bkind x).
  { intros x Hx. destruct (lastBlock x) as [c|] eqn:El; [|tauto]. split; [|apply bkind_set_lastBlocks].
    eapply cc_set_lastBlocks; [exact Hx|exact El|]. apply IH. eapply cc_lastBlock; eassumption. }
  assert (H1 : cc (set_bend b e) = true) by (rewrite cc_set_bend; assumption).
  rewrite bkind_set_bend.
  destruct (bkind b =? ListKind).
  { destruct (cc_onCloseList _ H1) as [A B]. destruct (Hcl _ A) as [C D].
    constructor; [split; [exact C|left; rewrite D, B; apply bkind_set_bend]|constructor]. }
  destruct (bkind b =? IndentedCodeBlockKind).
  { destruct (cc_onCloseIndented src (set_bend b e)) as [A B]. rewrite H1 in A. destruct (Hcl _ A) as [C D].
    constructor; [split; [exact C|left; rewrite D, B; apply bkind_set_bend]|constructor]. }
  destruct ((bkind b =? ParagraphKind) || (bkind b =? SetextHeadingKind)) eqn:Ep.
  { assert (Hk : bkind b <> ListItemKind).
    { apply orb_true_iff in Ep. destruct Ep as [Ep|Ep]; apply Z.eqb_eq in Ep; rewrite Ep; discriminate. }
    apply nli_okRepl; [exact Hk|]. apply nli_onCloseParagraph; [assumption|rewrite bkind_set_bend; exact Hk]. }
  destruct (Hcl _ H1) as [C D]. constructor; [split; [exact C|left; rewrite D; apply bkind_set_bend]|constructor].
Qed.

(* ---- spine existence ---- *)
Lemma getAt_S r d : getAt (S d) r = match lastBlock r with Some c => getAt d c | None => None end.
Proof. reflexivity. Qed.
Lemma getAt_prefix : forall d r x, getAt (S d) r = Some x -> exists y, getAt d r = Some y.
Proof.
  induction d as [|d IH]; intros r x H; [exists r; reflexivity|].
  rewrite getAt_S in H. destruct (lastBlock r) as [c|] eqn:El; [|discriminate].
  destruct (IH c x H) as (y & Hy). exists y. rewrite getAt_S, El. exact Hy.
Qed.
Lemma getAt_le : forall d d' r x, (d' <= d)%nat -> getAt d r = Some x -> exists y, getAt d' r = Some y.
Proof.
  induction d as [|d IH]; intros d' r x Hle H.
  - replace d' with O by lia. exists x. exact H.
  - destruct (Nat.eq_dec d' (S d)) as [->|N]; [exists x; exact H|].
    destruct (getAt_prefix d r x H) as (y & Hy). apply (IH d' r y); [lia|exact Hy].
Qed.
Lemma getAt_S_append_some nb : forall d r x, getAt d r = Some x ->
  getAt (S d) (updAt d (fun b => set_bkids b (bkids b ++ [nb])) r) = Some nb.
Proof.
  induction d as [|d IH]; intros r x H.
  - cbn [updAt]. rewrite getAt_S. unfold lastBlock. destruct r as [K s e bk ik a n ch l lb]. cbn [set_bkids bkids].
    rewrite rev_app_distr. reflexivity.
  - rewrite getAt_S in H. destruct (lastBlock r) as [c|] eqn:El; [|discriminate].
    cbn [updAt]. rewrite El. rewrite getAt_S, lastBlock_set_last.
    + apply (IH c x H).
    + intros E. unfold lastBlock in El. rewrite E in El. discriminate.
Qed.

(* ---- the line parser ---- *)
Definition wf (p : lp) : Prop := exists x, getAt (cdepth p) (root p) = Some x.
Definition ccP (p : lp) : Prop := bkind (root p) = documentKind /\ cc (root p) = true /\ wf p.

Lemma ccP_same_cd p p' : root p' = root p -> cdepth p' = cdepth p -> ccP p -> ccP p'.
Proof. intros E1 E2 (A & B & C). unfold ccP, wf. rewrite E1, E2. tauto. Qed.
Lemma ccP_same p p' : same_tree p p' -> ccP p -> ccP p'.
Proof. intros [E1 E2]. apply ccP_same_cd; [exact E1|unfold cdepth; rewrite E2; reflexivity]. Qed.
Lemma ccP_advance p n : ccP p -> ccP (advance p n). Proof. apply ccP_same, same_advance. Qed.
Lemma ccP_consumeLine p : ccP p -> ccP (consumeLine p). Proof. apply ccP_same, same_consumeLine. Qed.
Lemma ccP_consumeIndent p n : ccP p -> ccP (consumeIndent p n). Proof. apply ccP_same, same_consumeIndent. Qed.
Lemma ccP_opened p : ccP p -> ccP (if state p =? stOpening then withState p stOpenMatched else p).
Proof. apply ccP_same, same_opened. Qed.

(* an update at depth d with a kind-preserving function, then the container moved to depth d' <= cdepth or kept *)
Lemma ccP_updRoot p d f c' : ccP p ->
  (forall x, getAt d (root p) = Some x -> cc x = true -> cc (f x) = true /\ bkind (f x) = bkind x) ->
  (exists y, getAt (match c' with Some k => k | None => O end) (updAt d f (root p)) = Some y) ->
  ccP (withCont (withRoot p (updAt d f (root p))) c').
Proof.
  intros (A & B & C) Hf Hw. unfold ccP, wf, cdepth. cbn [root container withCont withRoot setLP].
  destruct (cc_updAt_at f d (root p) B) as [Hc _].
  { intros x Hx Hcx. destruct (Hf x Hx Hcx) as [H1 H2]. split; [exact H1|left; exact H2]. }
  split; [|split; [exact Hc|exact Hw]].
  rewrite bkind_updAt; [exact A|]. intros ->. apply (Hf (root p) eq_refl B).
Qed.
Lemma getAt_updAt_exists g d r x : getAt d r = Some x -> exists y, getAt d (updAt d g r) = Some y.
Proof. intros H. rewrite getAt_updAt_same, H. eexists. reflexivity. Qed.
Lemma getAt_updAt_below g : forall d d' r x, (d' <= d)%nat -> getAt d' r = Some x -> exists y, getAt d' (updAt d g r) = Some y.
Proof.
  induction d as [|d IH]; intros d' r x Hle H.
  - replace d' with O in * by lia. eexists. reflexivity.
  - destruct d' as [|d']; [eexists; reflexivity|].
    rewrite getAt_S in H. destruct (lastBlock r) as [c|] eqn:El; [|discriminate]. cbn [updAt]. rewrite El.
    rewrite getAt_S, lastBlock_set_last; [apply (IH d' c x); [lia|exact H]|].
    intros E. unfold lastBlock in El. rewrite E in El. discriminate.
Qed.

Lemma ccP_updCont p f : ccP p ->
  (forall x, getAt (cdepth p) (root p) = Some x -> cc x = true -> cc (f x) = true /\ bkind (f x) = bkind x) -> ccP (updCont p f).
Proof.
  intros H Hf. pose proof H as (_ & _ & (x & Hx)).
  change (updCont p f) with (withCont (withRoot p (updAt (cdepth p) f (root p))) (container p)).
  apply ccP_updRoot; [exact H|exact Hf|]. fold (cdepth p). eapply getAt_updAt_exists. exact Hx.
Qed.

Definition closeF (p : lp) (e : Z) (b : block) : block :=
  match lastBlock b with Some c => set_lastBlocks b (closeBlock (bheight (root p)) (source p) c e) | None => b end.
Lemma closeF_ok p e x : cc x = true -> cc (closeF p e x) = true /\ bkind (closeF p e x) = bkind x.
Proof.
  intros Hx. unfold closeF. destruct (lastBlock x) as [c|] eqn:El; [|tauto]. split; [|apply bkind_set_lastBlocks].
  eapply cc_set_lastBlocks; [exact Hx|exact El|]. apply cc_closeBlock. eapply cc_lastBlock; eassumption.
Qed.
(* close the last child at depth d and make depth d' <= cdepth the container *)
Lemma ccP_closeAt p d e d' : ccP p -> (d' <= d)%nat -> (exists x, getAt d' (root p) = Some x) ->
  ccP (withCont (closeLastChildAt p d e) (Some d')).
Proof.
  intros H Hle (x & Hx). unfold closeLastChildAt. fold (closeF p e).
  apply (ccP_updRoot p d (closeF p e) (Some d')); [exact H|intros y _ Hy; apply closeF_ok, Hy|].
  eapply getAt_updAt_below; eassumption.
Qed.
Lemma ccP_closeHere p e : ccP p -> ccP (closeLastChildAt p (cdepth p) e).
Proof.
  intros H. pose proof H as (_ & _ & Hw).
  apply (ccP_same_cd (withCont (closeLastChildAt p (cdepth p) e) (Some (cdepth p)))); [reflexivity|reflexivity|].
  apply ccP_closeAt; [exact H|lia|exact Hw].
Qed.

(* ---- openBlock ---- *)
Lemma containerKind_root p : cdepth p = O -> containerKind p = bkind (root p).
Proof. intros E. unfold containerKind, contBlock. rewrite E. reflexivity. Qed.

Lemma ccP_openBlock_up : forall fuel p kind, ccP p -> ccP (openBlock_up fuel p kind).
Proof.
  induction fuel as [|f IH]; intros p kind H; [assumption|]. cbn [openBlock_up].
  destruct (canContain _ _); [assumption|]. destruct (cdepth p) as [|d] eqn:Ed; [exact H|].
  apply IH. pose proof H as (_ & _ & (x & Hx)). rewrite Ed in Hx.
  apply ccP_closeAt; [exact H|lia|]. eapply getAt_prefix. exact Hx.
Qed.
Lemma openBlock_up_accepts : forall fuel p kind, ccP p -> (cdepth p < fuel)%nat ->
  (kind <> ListItemKind \/ canContain (containerKind p) kind = true) ->
  canContain (containerKind (openBlock_up fuel p kind)) kind = true.
Proof.
  induction fuel as [|f IH]; intros p kind H Hf Hk; [lia|]. cbn [openBlock_up].
  destruct (canContain (containerKind p) kind) eqn:Ec; [exact Ec|].
  assert (Nk : kind <> ListItemKind) by (destruct Hk as [Hk|Hk]; [exact Hk|discriminate]).
  destruct (cdepth p) as [|d] eqn:Ed.
  - exfalso. rewrite (containerKind_root p Ed) in Ec. destruct H as (A & _). rewrite A in Ec.
    unfold canContain in Ec. cbn in Ec. apply negb_false_iff, Z.eqb_eq in Ec. contradiction.
  - apply IH; [|cbn; lia|left; exact Nk].
    pose proof H as (_ & _ & (x & Hx)). rewrite Ed in Hx. apply ccP_closeAt; [exact H|lia|]. eapply getAt_prefix. exact Hx.
Qed.

Lemma containerKind_same p p' : same_tree p p' -> containerKind p' = containerKind p.
Proof. intros [E1 E2]. unfold containerKind, contBlock, cdepth. rewrite E1, E2. reflexivity. Qed.
Lemma containerKind_closeHere p e : containerKind (closeLastChildAt p (cdepth p) e) = containerKind p.
Proof.
  unfold containerKind, contBlock, closeLastChildAt. cbn [root container withRoot setLP cdepth]. fold (cdepth p). fold (closeF p e).
  rewrite getAt_updAt_same. destruct (getAt (cdepth p) (root p)) as [x|]; [|reflexivity]. cbn [option_map].
  unfold closeF. destruct (lastBlock x); [apply bkind_set_lastBlocks|reflexivity].
Qed.

Lemma ccP_openBlock p kind : ccP p -> (kind <> ListItemKind \/ canContain (containerKind p) kind = true) -> ccP (openBlock p kind).
Proof.
  intros H Hk. unfold openBlock. destruct (_ || _); [exact H|]. cbv zeta.
  set (p0 := if state p =? stOpening then withState p stOpenMatched else p).
  assert (H0 : ccP p0) by (apply ccP_opened, H).
  assert (K0 : kind <> ListItemKind \/ canContain (containerKind p0) kind = true).
  { rewrite (containerKind_same p p0 (same_opened p)). exact Hk. }
  set (p2 := openBlock_up (S (cdepth p0)) p0 kind).
  assert (H2 : ccP p2) by (apply ccP_openBlock_up, H0).
  assert (A2 : canContain (containerKind p2) kind = true) by (apply openBlock_up_accepts; [exact H0|lia|exact K0]).
  set (p3 := closeLastChildAt p2 (cdepth p2) (lineStart p2)).
  assert (H3 : ccP p3) by (apply ccP_closeHere, H2).
  assert (A3 : canContain (containerKind p3) kind = true) by (unfold p3; rewrite containerKind_closeHere; exact A2).
  assert (E3 : cdepth p3 = cdepth p2) by reflexivity.
  pose proof H3 as (R3 & C3 & (x & Hx)).
  unfold ccP, wf, cdepth. cbn [root container withCont withRoot setLP updCont]. fold (cdepth p3). rewrite E3 in *.
  set (nb := newBlock kind (lineStart p3 + li p3)).
  destruct (cc_updAt_at (fun b => set_bkids b (bkids b ++ [nb])) (cdepth p2) (root p3) C3) as [Hc _].
  { intros y Hy Hcy. split; [|left; apply bkind_set_bkids].
    assert (Ey : bkind y = containerKind p3) by (unfold containerKind, contBlock; rewrite E3, Hy; reflexivity).
    apply cc_parts in Hcy. destruct Hcy as [Y1 Y2]. apply cc_set_bkids.
    - rewrite forallb_app, Y1. cbn [forallb andb]. rewrite Ey. cbn [nb newBlock bkind]. rewrite A3. reflexivity.
    - unfold ccL in *. rewrite forallb_app, Y2. reflexivity. }
  split; [|split; [exact Hc|]].
  - rewrite bkind_updAt; [exact R3|]. intros _. apply bkind_set_bkids.
  - exists nb. eapply getAt_S_append_some. exact Hx.
Qed.

Lemma ccP_endBlock p : ccP p -> ccP (endBlock p).
Proof.
  intros H. unfold endBlock. destruct (_ || _); [exact H|]. cbv zeta.
  set (p0 := if state p =? stOpening then withState p stOpenMatched else p).
  assert (H0 : ccP p0) by (apply ccP_opened, H).
  destruct (cdepth p0) as [|d] eqn:Ed; [exact H0|].
  pose proof H0 as (_ & _ & (x & Hx)). rewrite Ed in Hx.
  apply ccP_closeAt; [exact H0|lia|]. eapply getAt_prefix. exact Hx.
Qed.

Lemma ccP_updCont_ik p (g : block -> list inline) : ccP p -> ccP (updCont p (fun b => set_bik b (g b))).
Proof. intros H. apply ccP_updCont; [exact H|]. intros x _ Hx. rewrite cc_set_bik, bkind_set_bik. tauto. Qed.

Lemma ccP_collectInline p kind n : ccP p -> ccP (collectInline p kind n).
Proof.
  intros H. unfold collectInline. destruct (_ =? stDescendTerminated); [exact H|]. cbv zeta.
  apply (ccP_updCont_ik _ (fun b => bik b ++ [_])). apply ccP_advance.
  destruct (0 <? _); [|apply ccP_opened, H].
  apply (ccP_updCont_ik _ (fun b => bik b ++ [_])). apply ccP_advance, ccP_opened, H.
Qed.

Lemma ccP_matchRule p : ccP p -> ccP (snd (matchRule p)).
Proof.
  intros H. unfold matchRule. cbv zeta.
  destruct (_ || _); [assumption|].
  destruct (_ =? ListItemKind).
  { unfold matchListItem. destruct (isRestBlank p); [destruct (negb _); [assumption|apply ccP_consumeIndent, H]|].
    destruct (_ <=? _); [apply ccP_consumeIndent, H|assumption]. }
  destruct (_ =? BlockQuoteKind).
  { unfold matchBlockQuote. cbv zeta. destruct (_ <=? _); [assumption|]. destruct (negb _); [assumption|]. cbn [snd].
    unfold eatQuoteMarker. cbv zeta. destruct (0 <? _); repeat first [apply ccP_consumeIndent|apply ccP_advance]; assumption. }
  destruct (_ =? FencedCodeBlockKind).
  { unfold matchFenced. cbv zeta. destruct (if _ <? _ then _ else false); cbn [snd]; [apply ccP_consumeLine|apply ccP_consumeIndent]; assumption. }
  destruct (_ =? IndentedCodeBlockKind).
  { unfold matchIndented. cbv zeta. destruct (_ <? _); [destruct (negb _)|]; cbn [snd]; try apply ccP_consumeIndent; assumption. }
  destruct (_ =? HTMLBlockKind).
  { unfold matchHTML. destruct (htmlEnd _ _); [|assumption]. destruct (isRestBlank _); [assumption|]. cbn [snd]. apply ccP_consumeLine.
    apply ccP_collectInline; assumption. }
  assumption.
Qed.

Lemma ccP_withCont p d : ccP p -> (exists x, getAt d (root p) = Some x) -> ccP (withCont p (Some d)).
Proof. intros (A & B & _) Hw. split; [exact A|split; [exact B|exact Hw]]. Qed.

Lemma cd_same a b : same_tree a b -> cdepth b = cdepth a.
Proof. intros [_ E]. unfold cdepth. rewrite E. reflexivity. Qed.
Lemma cdepth_updCont p f : cdepth (updCont p f) = cdepth p. Proof. reflexivity. Qed.
Lemma cdepth_collectInline p kind n : cdepth (collectInline p kind n) = cdepth p.
Proof.
  unfold collectInline. destruct (_ =? stDescendTerminated); [reflexivity|]. cbv zeta.
  rewrite cdepth_updCont, (cd_same _ _ (same_advance _ _)).
  destruct (0 <? _); [|apply cd_same, same_opened].
  rewrite cdepth_updCont, (cd_same _ _ (same_advance _ _)). apply cd_same, same_opened.
Qed.
Lemma cdepth_matchRule q : cdepth (snd (matchRule q)) = cdepth q.
Proof.
  unfold matchRule. cbv zeta.
  destruct (_ || _); [reflexivity|].
  destruct (_ =? ListItemKind).
  { unfold matchListItem. destruct (isRestBlank q); [destruct (negb _); [reflexivity|apply cd_same, same_consumeIndent]|].
    destruct (_ <=? _); [apply cd_same, same_consumeIndent|reflexivity]. }
  destruct (_ =? BlockQuoteKind).
  { unfold matchBlockQuote. cbv zeta. destruct (_ <=? _); [reflexivity|]. destruct (negb _); [reflexivity|]. cbn [snd].
    unfold eatQuoteMarker. cbv zeta. destruct (0 <? _).
    - rewrite (cd_same _ _ (same_consumeIndent _ _)), (cd_same _ _ (same_advance _ _)). apply cd_same, same_consumeIndent.
    - rewrite (cd_same _ _ (same_advance _ _)). apply cd_same, same_consumeIndent. }
  destruct (_ =? FencedCodeBlockKind).
  { unfold matchFenced. cbv zeta. destruct (if _ <? _ then _ else false); cbn [snd]; apply cd_same; [apply same_consumeLine|apply same_consumeIndent]. }
  destruct (_ =? IndentedCodeBlockKind).
  { unfold matchIndented. cbv zeta. destruct (_ <? _); [destruct (negb _)|]; cbn [snd]; try reflexivity; apply cd_same, same_consumeIndent. }
  destruct (_ =? HTMLBlockKind); [|reflexivity].
  unfold matchHTML. destruct (htmlEnd _ _); [|reflexivity]. destruct (isRestBlank _); [reflexivity|]. cbn [snd]. rewrite (cd_same _ _ (same_consumeLine _)).
  apply cdepth_collectInline.
Qed.

Lemma ccP_descend_loop : forall fuel p d, ccP p -> (exists x, getAt d (root p) = Some x) -> ccP (snd (descend_loop fuel p d)).
Proof.
  induction fuel as [|f IH]; intros p d H Hd; [apply ccP_withCont; assumption|]. cbn [descend_loop]. cbv zeta.
  destruct (getAt (S d) (root p)) as [c|] eqn:Ec; [|apply ccP_withCont; assumption].
  destruct (negb (isOpen c)); [apply ccP_withCont; assumption|].
  destruct (negb (hasMatch _)); [apply ccP_withCont; [apply (ccP_withCont p (S d) H); eauto|exact Hd]|].
  set (q := withState (withCont p (Some (S d))) stDescending).
  assert (Hc : ccP q) by (apply (ccP_withCont p (S d) H); eauto).
  pose proof (ccP_matchRule q Hc) as H2. pose proof (cdepth_matchRule q) as Ecd.
  destruct (matchRule q) as [ok p2]. cbn [snd] in H2, Ecd. change (cdepth q) with (S d) in Ecd.
  pose proof H2 as (_ & _ & (x & Hx)). rewrite Ecd in Hx.
  assert (Hd2 : exists y, getAt d (root p2) = Some y) by (eapply getAt_prefix; exact Hx).
  destruct (state p2 =? stDescendTerminated); [cbn [snd]; apply ccP_closeAt; [exact H2|lia|exact Hd2]|].
  destruct (negb ok); [apply ccP_withCont; assumption|]. apply IH; [exact H2|eauto].
Qed.

Lemma ccP_updCont_compat p f : ccP p ->
  (forall x, getAt (cdepth p) (root p) = Some x -> cc x = true -> cc (f x) = true /\ compat (bkind x) (bkind (f x))) ->
  (cdepth p = O -> bkind (f (root p)) = bkind (root p)) -> ccP (updCont p f).
Proof.
  intros (A & B & (x & Hx)) Hf H0. unfold ccP, wf, updCont, cdepth. cbn [root container withRoot setLP]. fold (cdepth p).
  destruct (cc_updAt_at f (cdepth p) (root p) B Hf) as [Hc _].
  split; [|split; [exact Hc|eapply getAt_updAt_exists; exact Hx]].
  rewrite bkind_updAt; [exact A|exact H0].
Qed.

Lemma containerKind_of p K : ccP p -> ckind p K -> containerKind p = K.
Proof. intros (_ & _ & (x & Hx)) Hc. unfold containerKind, contBlock. rewrite Hx. apply Hc, Hx. Qed.

Ltac chainc H :=
  repeat match goal with
  | |- ccP (consumeLine _) => apply ccP_consumeLine
  | |- ccP (endBlock _) => apply ccP_endBlock
  | |- ccP (advance _ _) => apply ccP_advance
  | |- ccP (consumeIndent _ _) => apply ccP_consumeIndent
  | |- ccP (collectInline _ _ _) => apply ccP_collectInline
  | |- ccP (openBlock _ _) => apply ccP_openBlock; [|left; discriminate]
  | |- ccP (updCont _ _) => apply ccP_updCont; [|intros ? _ ?;
        rewrite ?cc_set_bn, ?cc_set_bchar, ?cc_set_bindent, ?bkind_set_bn, ?bkind_set_bchar, ?bkind_set_bindent; tauto]
  end;
  try exact H.

Lemma ccP_startBlockQuote p : ccP p -> ccP (startBlockQuote p).
Proof. intros H. unfold startBlockQuote. cbv zeta. destruct (_ <=? _); [assumption|]. destruct (negb _); [assumption|].
       destruct (0 <? _); chainc H. Qed.
Lemma ccP_startATX p : ccP p -> ccP (startATX p).
Proof. intros H. unfold startATX. cbv zeta. destruct (_ <=? _); [assumption|].
       destruct (parseATXHeading _) as [[level cs] ce]. destruct (level <? 1); [assumption|]. chainc H. Qed.
Lemma ccP_startFenced p : ccP p -> ccP (startFenced p).
Proof. intros H. unfold startFenced. cbv zeta. destruct (_ <=? _); [assumption|].
       destruct (parseCodeFence _) as [[[fc fnn] is_] ie]. destruct (fnn =? 0); [assumption|].
       destruct (spanValid _); chainc H. Qed.
Lemma ccP_startHTML p : ccP p -> ccP (startHTML p).
Proof. intros H. unfold startHTML. cbv zeta. destruct (_ <=? _); [assumption|]. destruct (negb _); [assumption|].
       destruct (_ <? 0); [assumption|]. destruct (negb _ && _); [assumption|]. destruct (htmlEnd _ _); chainc H. Qed.
Lemma ccP_startThematic p : ccP p -> ccP (startThematic p).
Proof. intros H. unfold startThematic. cbv zeta. destruct (_ <=? _); [assumption|]. destruct (_ <? 0); [assumption|]. chainc H. Qed.
Lemma ccP_startIndented p : ccP p -> ccP (startIndented p).
Proof. intros H. unfold startIndented. destruct (_ || _ || _); [assumption|]. chainc H. Qed.

Lemma forallb_false_nil {A} (l : list A) : forallb (fun _ => false) l = true -> l = [].
Proof. destruct l; [reflexivity|discriminate]. Qed.
Lemma ccP_startSetext p : ccP p -> ccP (startSetext p).
Proof.
  intros H. unfold startSetext. cbv zeta. destruct (negb (containerKind p =? ParagraphKind)) eqn:Ek; [assumption|].
  do 3 (match goal with |- ccP (if ?c then _ else _) => destruct c end; [assumption|]).
  apply negb_false_iff, Z.eqb_eq in Ek.
  apply ccP_endBlock, ccP_consumeLine. apply ccP_updCont_compat; [exact H| |].
  - intros x Hx Hc. pose proof (ckind_self p x Hx) as Ex. rewrite Ek in Ex.
    apply cc_parts in Hc. destruct Hc as [C1 _]. rewrite Ex in C1.
    assert (Ekids : bkids x = []) by (apply forallb_false_nil; exact C1).
    destruct x as [K s e bk ik a n c l lb]. cbn [bkids bkind] in *. subst bk K. split; [reflexivity|].
    right. split; discriminate.
  - intros E0. exfalso. rewrite (containerKind_root p E0) in Ek. destruct H as (A & _). rewrite A in Ek. discriminate.
Qed.

Lemma ccP_startListItem p : st_open p -> ccP p -> ccP (startListItem p).
Proof.
  intros Hs H. unfold startListItem. cbv zeta. destruct (_ <=? _); [assumption|].
  destruct (parseListMarker _) as [[delim n] mend]. destruct (_ || _); [assumption|]. destruct (_ && _); [assumption|].
  set (p1 := consumeIndent p (indent p)).
  assert (H1 : ccP p1) by (apply ccP_consumeIndent, H). assert (S1 : st_open p1) by (apply st_open_consumeIndent, Hs).
  set (cdelim := if (containerKind p1 =? ListKind) || (containerKind p1 =? ListItemKind) then bchar (contBlock p1) else 0).
  set (p2 := if negb (containerKind p1 =? ListKind) || negb (cdelim =? delim) then _ else p1).
  assert (H2 : ccP p2 /\ containerKind p2 = ListKind).
  { unfold p2. destruct (negb (containerKind p1 =? ListKind) || negb (cdelim =? delim)) eqn:Ec.
    - assert (Hq : ccP (updCont (openBlock p1 ListKind) (fun b => set_bchar b delim))) by chainc H1.
      split; [exact Hq|]. apply containerKind_of; [exact Hq|].
      apply ckind_updCont; [intros b; apply bkind_set_bchar|]. apply ckind_openBlock, S1.
    - apply orb_false_iff in Ec. destruct Ec as [Ec _]. apply negb_false_iff, Z.eqb_eq in Ec. tauto. }
  destruct H2 as [H2 K2].
  assert (H3 : ccP (openBlock p2 ListItemKind)) by (apply ccP_openBlock; [exact H2|right; rewrite K2; reflexivity]).
  match goal with |- context [endBlock ?X] => assert (H4 : ccP (endBlock X)) end.
  { chainc H3. }
  match goal with |- context [endBlock ?X] => set (q := endBlock X) in * end.
  destruct (isRestBlank q); [chainc H4|].
  destruct (indent q <? 1); [chainc H4|]. destruct (4 <? indent q); chainc H4.
Qed.

Definition startOKc (f : lp -> lp) : Prop := forall p, st_open p -> ccP p -> ccP (f p).
Lemma blockStarts_okc : Forall startOKc blockStarts.
Proof.
  unfold blockStarts.
  apply Forall_cons; [intros p Hs H; apply ccP_startBlockQuote; assumption|].
  apply Forall_cons; [intros p Hs H; apply ccP_startATX; assumption|].
  apply Forall_cons; [intros p Hs H; apply ccP_startFenced; assumption|].
  apply Forall_cons; [intros p Hs H; apply ccP_startHTML; assumption|].
  apply Forall_cons; [intros p Hs H; apply ccP_startSetext; assumption|].
  apply Forall_cons; [intros p Hs H; apply ccP_startThematic; assumption|].
  apply Forall_cons; [intros p Hs H; apply ccP_startListItem; assumption|].
  apply Forall_cons; [intros p Hs H; apply ccP_startIndented; assumption|].
  apply Forall_nil.
Qed.
Lemma ccP_tryStarts : forall fs p, Forall startOKc fs -> ccP p -> ccP (snd (tryStarts fs p)).
Proof.
  induction fs as [|f r IH]; intros p Hfs H; [assumption|]. cbn [tryStarts]. cbv zeta. inversion Hfs as [|? ? Hf Hr]; subst.
  assert (H1 : ccP (f (withState p stOpening))) by (apply Hf; [left; reflexivity|exact H]).
  destruct (_ || _); [assumption|]. apply IH; assumption.
Qed.
Lemma ccP_opening_loop : forall fuel p, ccP p -> ccP (snd (opening_loop fuel p)).
Proof.
  induction fuel as [|f IH]; intros p H; [assumption|]. cbn [opening_loop].
  destruct (_ || _); [|assumption].
  pose proof (ccP_tryStarts blockStarts p blockStarts_okc H) as H1. destruct (tryStarts blockStarts p) as [[|] p1]; cbn [snd] in H1.
  - destruct (_ =? stLineConsumed); [assumption|apply IH; assumption].
  - assumption.
Qed.
Lemma ccP_deferredClose p : ccP p -> ccP (deferredClose p).
Proof.
  intros H. unfold deferredClose. cbv zeta.
  destruct (getAt (tipDepth (bheight (root p)) (root p)) (root p)) as [t|] eqn:Et.
  - destruct (_ && _); [apply ccP_withCont; [exact H|eauto]|apply ccP_closeHere, H].
  - rewrite andb_false_r. apply ccP_closeHere, H.
Qed.

Lemma closeBlock_doc src e : forall fuel b, cc b = true -> bkind b = documentKind ->
  exists x, closeBlock fuel src b e = [x] /\ cc x = true /\ bkind x = documentKind.
Proof.
  intros fuel b H Hk. destruct fuel as [|f]; [exists b; tauto|]. cbn [closeBlock].
  destruct (negb (isOpen b)); [exists b; tauto|]. cbv zeta. rewrite bkind_set_bend, Hk.
  cbn [Z.eqb Pos.eqb orb].
  eexists. split; [reflexivity|].
  destruct (lastBlock (set_bend b e)) as [c|] eqn:El.
  - split; [|rewrite bkind_set_lastBlocks, bkind_set_bend; exact Hk].
    eapply cc_set_lastBlocks; [rewrite cc_set_bend; exact H|exact El|]. apply cc_closeBlock.
    eapply cc_lastBlock; [rewrite cc_set_bend; exact H|exact El].
  - rewrite cc_set_bend, bkind_set_bend. tauto.
Qed.

Lemma ccP_openNewBlocks p am : ccP p -> ccP (snd (openNewBlocks p am)).
Proof.
  intros H. unfold openNewBlocks. destruct (_ =? 0).
  - cbn [snd]. destruct H as (A & B & _).
    destruct (closeBlock_doc (source p) (lineStart p) (bheight (root p)) (root p) B A) as (x & E & Cx & Kx). rewrite E.
    unfold ccP, wf, cdepth. cbn. split; [exact Kx|split; [exact Cx|eauto]].
  - pose proof (ccP_opening_loop (S (length (line p))) p H) as H1. destruct (opening_loop _ p) as [ht p1]. cbn [snd] in H1.
    destruct am; cbn [snd]; [assumption|apply ccP_deferredClose, H1].
Qed.

Lemma getAt_updAt_keep g : (forall x, bkids (g x) = bkids x) ->
  forall d k r x, getAt k r = Some x -> exists y, getAt k (updAt d g r) = Some y.
Proof.
  intros Hg. induction d as [|d IH]; intros k r x H.
  - cbn [updAt]. destruct k as [|k]; [eexists; reflexivity|]. rewrite getAt_S in *. unfold lastBlock in *. rewrite Hg. eauto.
  - cbn [updAt]. destruct (lastBlock r) as [c|] eqn:El; [|eauto].
    destruct k as [|k]; [eexists; reflexivity|]. rewrite getAt_S in H. rewrite El in H.
    rewrite getAt_S, lastBlock_set_last; [apply (IH k c x H)|].
    intros E. unfold lastBlock in El. rewrite E in El. discriminate.
Qed.
Lemma bkids_set_blast b v : bkids (set_blast b v) = bkids b. Proof. destruct b; reflexivity. Qed.

Lemma cc_setLastBlankUpTo v : forall d rt k, cc rt = true -> (exists x, getAt k rt = Some x) ->
  cc (setLastBlankUpTo d v rt) = true /\ bkind (setLastBlankUpTo d v rt) = bkind rt /\ (exists y, getAt k (setLastBlankUpTo d v rt) = Some y).
Proof.
  assert (Step : forall d rt k, cc rt = true -> (exists x, getAt k rt = Some x) ->
           cc (updAt d (fun b => set_blast b v) rt) = true /\ bkind (updAt d (fun b => set_blast b v) rt) = bkind rt /\
           (exists y, getAt k (updAt d (fun b => set_blast b v) rt) = Some y)).
  { intros d rt k H (x & Hx). split; [|split].
    - apply (cc_updAt_at (fun b => set_blast b v) d rt H). intros y _ Hy. rewrite cc_set_blast, bkind_set_blast. split; [exact Hy|apply compat_refl].
    - apply bkind_updAt. intros _. apply bkind_set_blast.
    - eapply getAt_updAt_keep; [intros y; apply bkids_set_blast|exact Hx]. }
  induction d as [|d IH]; intros rt k H Hw; cbn [setLastBlankUpTo]; [apply Step; assumption|].
  destruct (Step (S d) rt k H Hw) as (A & B & C). destruct (IH _ k A C) as (A' & B' & C').
  split; [exact A'|split; [rewrite B'; exact B|exact C']].
Qed.

Lemma ccP_addLineText p : ccP p -> ccP (addLineText p).
Proof.
  intros H. unfold addLineText. cbv zeta.
  set (p1 := if isRestBlank p then _ else p).
  assert (H1 : ccP p1).
  { unfold p1. destruct (isRestBlank p); [|assumption]. apply ccP_updCont; [assumption|].
    intros b _ Hb. destruct (lastBlock b) as [c|] eqn:El; [|tauto]. split; [|apply bkind_set_lastBlocks].
    eapply cc_set_lastBlocks; [exact Hb|exact El|]. constructor; [|constructor].
    rewrite cc_set_blast, bkind_set_blast. split; [eapply cc_lastBlock; eassumption|apply compat_refl]. }
  set (p2 := withRoot p1 _).
  assert (H2 : ccP p2).
  { destruct H1 as (A & B & C). unfold p2, ccP, wf, cdepth. cbn [root container withRoot setLP]. fold (cdepth p1).
    destruct (cc_setLastBlankUpTo (isRestBlank p && negb ((bkind (contBlock p1) =? BlockQuoteKind) || (bkind (contBlock p1) =? FencedCodeBlockKind) ||
                 (bkind (contBlock p1) =? ListItemKind) && (childCount (contBlock p1) =? 1) && (lineStart p1 <=? bstart (contBlock p1))))
               (cdepth p1) (root p1) (cdepth p1) B C) as (A' & B' & C').
    split; [rewrite B'; exact A|split; [exact A'|exact C']]. }
  assert (Hgo : forall q, ccP q ->
    ccP (let k := containerKind q in
         let inlineKind := if isCode k then TextKind else if k =? HTMLBlockKind then RawHTMLKind else UnparsedKind in
         let q' := updCont q (fun b => set_bik b (bik b ++ [mkI inlineKind (lineStart q + li q) (lineStart q + len (line q))])) in
         if isCode k && negb (hasByteSuffixEOL (line q')) then
           updCont q' (fun b => set_bik b (bik b ++ [mkI SoftLineBreakKind (lineStart q' + len (line q')) (lineStart q' + len (line q'))]))
         else q')).
  { intros q Hq. cbv zeta.
    match goal with |- ccP (if ?c then _ else _) => destruct c end;
      repeat (apply (ccP_updCont_ik _ (fun b => bik b ++ [_]))); exact Hq. }
  match goal with |- ccP (if ?c then _ else _) => destruct c end.
  - apply Hgo. match goal with |- ccP (if ?c then _ else _) => destruct c end; [|assumption].
    apply ccP_consumeIndent. apply (ccP_updCont_ik _ (fun b => bik b ++ [_])). exact H2.
  - match goal with |- ccP (if ?c then _ else _) => destruct c end; [|assumption]. apply Hgo.
    apply ccP_consumeIndent, ccP_openBlock; [exact H2|left; discriminate].
Qed.

(* ---- one line, then the stream layer ---- *)
Definition ccF (children : list block) : bool :=
  forallb (fun c => canContain documentKind (bkind c)) children && ccL children.

Theorem cc_processLine st children ls src : ccF children = true -> ccF (fst (fst (processLine st children ls src))) = true.
Proof.
  intros H. unfold processLine. cbv zeta.
  assert (H0 : ccP (resetLP st children ls src)).
  { unfold ccP, wf, resetLP, cdepth. cbn [root container]. split; [reflexivity|split; [exact H|eexists; reflexivity]]. }
  pose proof (ccP_descend_loop (bheight (root (resetLP st children ls src))) _ O H0 ltac:(eexists; reflexivity)) as H1.
  fold (descendOpenBlocks (resetLP st children ls src)) in H1.
  destruct (descendOpenBlocks _) as [am p1]. cbn [snd] in H1.
  assert (H2 : ccP (snd (if negb (state p1 =? stDescendTerminated) then openNewBlocks p1 am else (false, p1)))).
  { destruct (negb _); [apply ccP_openNewBlocks; assumption|assumption]. }
  destruct (if negb (state p1 =? stDescendTerminated) then openNewBlocks p1 am else (false, p1)) as [ht p2]. cbn [snd] in H2.
  cbn [fst].
  assert (H3 : ccP (if ht then addLineText p2 else p2)) by (destruct ht; [apply ccP_addLineText|]; assumption).
  destruct H3 as (A & B & _). apply cc_parts in B. rewrite A in B. unfold ccF. destruct B as [B1 B2]. rewrite B1, B2. reflexivity.
Qed.

Lemma bkind_shiftB n b : bkind (shiftB n b) = bkind b. Proof. destruct b; reflexivity. Qed.
Lemma cc_shiftB n : forall b, cc (shiftB n b) = cc b.
Proof.
  fix IH 1. intros [k s e bk ik a nn c l lb]. cbn [shiftB cc]. f_equal.
  - induction bk as [|x r IHr]; [reflexivity|]. cbn [map forallb]. rewrite bkind_shiftB, IHr. reflexivity.
  - induction bk as [|x r IHr]; [reflexivity|]. cbn [map forallb]. rewrite (IH x), IHr. reflexivity.
Qed.
Lemma ccF_shift n l : ccF (map (shiftB n) l) = ccF l.
Proof.
  unfold ccF, ccL. f_equal; induction l as [|x r IH]; try reflexivity; cbn [map forallb];
    [rewrite bkind_shiftB, IH|rewrite cc_shiftB, IH]; reflexivity.
Qed.

Definition rootOK (b : block) : Prop := cc b = true /\ canContain documentKind (bkind b) = true.
Lemma cc_makeRoot children s r s' : ccF children = true -> makeRoot children s = Some (r, s') ->
  rootOK (rb_blk r) /\ ccF (pending s') = true.
Proof.
  intros H Hm. unfold makeRoot in Hm. destruct children as [|b rest]; [discriminate|].
  destruct (isOpen b); [discriminate|]. inversion Hm; subst. cbn [rb_blk pending].
  unfold ccF, ccL in H. cbn [forallb] in H. apply andb_true_iff in H. destruct H as [H1 H2].
  apply andb_true_iff in H1. destruct H1 as [Hb Hr]. apply andb_true_iff in H2. destruct H2 as [Cb Cr].
  split; [split; assumption|]. rewrite ccF_shift. unfold ccF, ccL. rewrite Hr, Cr. reflexivity.
Qed.
Definition nb_okc (x : nb) : Prop :=
  match x with NBBlock r s' => rootOK (rb_blk r) /\ ccF (pending s') = true | _ => True end.
Lemma cc_lineLoop : forall fuel st children ls s, ccF children = true -> ccF (pending s) = true ->
  nb_okc (lineLoop fuel st children ls s).
Proof.
  induction fuel as [|f IH]; intros st children ls s Hc Hp; [exact I|]. cbn [lineLoop].
  pose proof (cc_processLine st children ls (upto (buf s) (bi s)) Hc) as H1.
  destruct (processLine st children ls (upto (buf s) (bi s))) as [[children' st'] pn]. cbn [fst] in H1.
  destruct (negb (pn =? 0)); [exact I|].
  destruct (makeRoot children' s) as [[r s']|] eqn:Em.
  - cbn [nb_okc]. eapply cc_makeRoot; eassumption.
  - apply IH; assumption.
Qed.
Lemma cc_skipLoop : forall fuel s, ccF (pending s) = true -> nb_okc (skipLoop fuel s).
Proof.
  induction fuel as [|f IH]; intros s Hp; [exact I|]. cbn [skipLoop]. cbv zeta.
  destruct (negb _); [exact I|]. destruct (isBlankLine _); [apply IH; assumption|].
  apply cc_lineLoop; [reflexivity|assumption].
Qed.
Lemma cc_nextBlock fuel s : ccF (pending s) = true -> nb_okc (nextBlock fuel s).
Proof.
  intros Hp. unfold nextBlock. destruct (makeRoot (pending s) s) as [[r s']|] eqn:Em.
  - cbn [nb_okc]. eapply cc_makeRoot; eassumption.
  - destruct (pending s) eqn:Ep; [apply cc_skipLoop; reflexivity|].
    rewrite <- Ep in Hp |- *. apply cc_lineLoop; [exact Hp|cbn [pending]; exact Hp].
Qed.
Lemma cc_allBlocks : forall fuel s acc, ccF (pending s) = true -> Forall (fun r => rootOK (rb_blk r)) acc ->
  Forall (fun r => rootOK (rb_blk r)) (fst (allBlocks fuel s acc)).
Proof.
  induction fuel as [|f IH]; intros s acc Hp Ha; [exact Ha|]. cbn [allBlocks].
  pose proof (cc_nextBlock (3 + length (buf s)) s Hp) as Hn.
  destruct (nextBlock _ s) as [r s'| | |]; try exact Ha.
  destruct Hn as [Hr Hp']. apply IH; [assumption|]. apply Forall_app. split; [assumption|]. constructor; [assumption|constructor].
Qed.
(* C05, containment: for every input, in every root block the block layer returns, every block child is of a kind its
   parent accepts (lists hold only list items; list items only elsewhere than at the top level or in quotes/items;
   leaf blocks have no block children), and no root block is a list item *)
Theorem parseBlocks_contain input : Forall (fun r => rootOK (rb_blk r)) (fst (parseBlocks input)).
Proof. unfold parseBlocks. apply cc_allBlocks; [reflexivity|constructor]. Qed.
Print Assumptions parseBlocks_contain.
