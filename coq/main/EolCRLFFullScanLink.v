From Coq Require Import List ZArith Lia Bool.
Import ListNotations.
Require Import Base Tables Utf8 Tree Rdr Link Collect Html Recog Inl3a Inl3b Inl3c Inl3d ShapesBase ShapesR IFBase IFLink
  EolCRLFDefs EolCRLFSimBytes EolCRLFSimStream
  EolGenCrlfRdrDefs EolGenCrlfRdrStep EolGenCrlfRdrNext EolGenCrlfRdrLink EolGenCrlfRdrLink2 EolGenCrlfRdrLink3.
Open Scope Z_scope.

(* C14 (ii), CRLF clause, inline layer (S2): parseInlineLink on R and on crlf R. *)
Section InlineLinkSim.
  Variable R : bytes.
  Variable Eb : Z.
  Hypothesis R13 : ~ In 13 R.
  Notation P := (phiP R).
  Notation R' := (crlf R).
  Notation F := (phiI R).
  Notation RR := (RR R Eb).
  Notation SPI := (SPI R Eb).
  Notation mapS := (mapS R).

  Lemma spanValid_mapS x : spanValid (mapS x) = spanValid x.
  Proof. unfold spanValid, EolGenCrlfRdrLink3.mapS. cbn [fst snd]. rewrite !(P_nonneg_b R), (P_leb R). reflexivity. Qed.
  Lemma mapS_null : mapS nullSpan = nullSpan. Proof. reflexivity. Qed.

  Theorem parseInlineLink_sim f f' (st st' : ist) s : isrc st = R -> isrc st' = R' -> unpFrom st' = map F (unpFrom st) -> SPI (unpFrom st) ->
    at_ R s <> 10 -> len R + ibudget (unpFrom st) < Z.of_nat f -> len R' + ibudget (unpFrom st) < Z.of_nat f' ->
    parseInlineLink f' st' (P s) =
      (let '(i, (d, dt), (t, tt0)) := parseInlineLink f st s in (mapS i, (mapS d, mapS dt), (mapS t, mapS tt0))).
  Proof.
    intros Es Es' Eu G N10 Hf Hf'. unfold parseInlineLink. cbv zeta. rewrite Es, Es', Eu.
    rewrite <- (P_succ_n R s N10).
    pose proof (RR_new R Eb (unpFrom st) (s + 1) G) as H. destruct (RR_PL R Eb _ _ H) as [Q Q'].
    pose proof (nu_new R (unpFrom st) (s + 1) (proj1 G)) as M.
    pose proof (nu_new R' (map F (unpFrom st)) (P (s + 1)) ltac:(apply (spW_F R), G)) as M'. rewrite ibudget_F in M'.
    set (r := newReader R (unpFrom st) (s + 1)) in *. set (r' := newReader R' (map F (unpFrom st)) (P (s + 1))) in *.
    (* skipLinkSpace *)
    destruct (skipLinkSpace_sim R Eb R13 f f' r r' H ltac:(lia) ltac:(lia)) as [Eo H1].
    pose proof (skipLinkSpace_prog R f r Q) as (Q1 & _ & K1 & _). pose proof (skipLinkSpace_prog R' f' r' Q') as (Q1' & _ & K1' & _).
    destruct (skipLinkSpace f r) as [ok r1]. destruct (skipLinkSpace f' r') as [ok' r1']. cbn [fst snd] in Eo, H1, Q1, Q1', K1, K1'. subst ok'.
    destruct ok; cbn [negb]; [|reflexivity].
    (* parseLinkDestination *)
    pose proof (parseLinkDestination_sim R Eb R13 f f' r1 r1' H1 ltac:(lia) ltac:(lia)) as (D1 & D2 & H2).
    pose proof (parseLinkDestination_prog R f r1 Q1) as (Q2 & _ & K2 & _). pose proof (parseLinkDestination_prog R' f' r1' Q1') as (Q2' & _ & K2' & _).
    destruct (parseLinkDestination f r1) as [[dspan dtext] r2]. destruct (parseLinkDestination f' r1') as [[dspan' dtext'] r2'].
    cbn [fst snd] in D1, D2, H2, Q2, Q2', K2, K2'. subst dspan' dtext'. rewrite spanValid_mapS.
    assert (S3 : fst (if spanValid dspan then skipLinkSpace f' r2' else (true, r2')) = fst (if spanValid dspan then skipLinkSpace f r2 else (true, r2)) /\
                 RR (snd (if spanValid dspan then skipLinkSpace f r2 else (true, r2))) (snd (if spanValid dspan then skipLinkSpace f' r2' else (true, r2'))) /\
                 nu R (snd (if spanValid dspan then skipLinkSpace f r2 else (true, r2))) <= nu R r2 /\
                 nu R' (snd (if spanValid dspan then skipLinkSpace f' r2' else (true, r2'))) <= nu R' r2').
    { destruct (spanValid dspan).
      - destruct (skipLinkSpace_sim R Eb R13 f f' r2 r2' H2 ltac:(lia) ltac:(lia)) as [A B]. split; [exact A|]. split; [exact B|].
        pose proof (skipLinkSpace_prog R f r2 Q2) as (_ & _ & K3 & _). pose proof (skipLinkSpace_prog R' f' r2' Q2') as (_ & _ & K3' & _). split; assumption.
      - cbn [fst snd]. split; [reflexivity|]. split; [exact H2|]. split; lia. }
    destruct S3 as (Eo2 & H3 & K3 & K3').
    destruct (if spanValid dspan then skipLinkSpace f r2 else (true, r2)) as [ok2 r3].
    destruct (if spanValid dspan then skipLinkSpace f' r2' else (true, r2')) as [ok2' r3']. cbn [fst snd] in Eo2, H3, K3, K3'. subst ok2'.
    destruct ok2; cbn [negb]; [|reflexivity].
    destruct (RR_PL R Eb _ _ H3) as [Q3 Q3'].
    (* parseLinkTitle *)
    pose proof (parseLinkTitle_sim R Eb R13 f f' r3 r3' H3 ltac:(lia) ltac:(lia)) as (T1 & T2 & H4).
    pose proof (parseLinkTitle_prog R f r3 Q3) as (Q4 & _ & K4 & _). pose proof (parseLinkTitle_prog R' f' r3' Q3') as (Q4' & _ & K4' & _).
    destruct (parseLinkTitle f r3) as [[tspan ttext] r4]. destruct (parseLinkTitle f' r3') as [[tspan' ttext'] r4'].
    cbn [fst snd] in T1, T2, H4, Q4, Q4', K4, K4'. subst tspan' ttext'. rewrite spanValid_mapS.
    assert (S5 : fst (if spanValid tspan then skipLinkSpace f' r4' else (true, r4')) = fst (if spanValid tspan then skipLinkSpace f r4 else (true, r4)) /\
                 RR (snd (if spanValid tspan then skipLinkSpace f r4 else (true, r4))) (snd (if spanValid tspan then skipLinkSpace f' r4' else (true, r4')))).
    { destruct (spanValid tspan).
      - apply (skipLinkSpace_sim R Eb R13 f f' r4 r4' H4); lia.
      - cbn [fst snd]. split; [reflexivity|exact H4]. }
    destruct S5 as (Eo3 & H5).
    destruct (if spanValid tspan then skipLinkSpace f r4 else (true, r4)) as [ok3 r5].
    destruct (if spanValid tspan then skipLinkSpace f' r4' else (true, r4')) as [ok3' r5']. cbn [fst snd] in Eo3, H5. subst ok3'.
    destruct ok3; cbn [negb]; [|reflexivity].
    destruct (RR_current R Eb r5 r5' H5) as [Ec _]. rewrite Ec.
    change (if cur r5 =? 10 then 13 else cur r5) with (m13 (cur r5)). rewrite m13_eqb by discriminate.
    destruct (Z.eqb_spec (cur r5) 41) as [E41|N41]; cbn [negb]; [|reflexivity].
    rewrite (pos_succ R Eb r5 r5' H5 ltac:(rewrite E41; discriminate) ltac:(rewrite E41; discriminate)). reflexivity.
  Qed.
End InlineLinkSim.
Print Assumptions parseInlineLink_sim.
