From Coq Require Import List ZArith Lia Bool.
Import ListNotations.
Require Import Base Tree Rdr Link Collect Html Recog LP Rec16 Rec17 Rec18 Cursor.
Open Scope Z_scope.

(* ---- ConsumeIndent (Indent ()) stops exactly at the first non-blank byte ---- *)
Lemma wsWidth_pos p : 0 <= li p -> wsRun p <> [] -> 0 < wsWidth p.
Proof.
  intros H0 Hne. unfold wsWidth.
  destruct (Z.lt_ge_cases (li p) (len (line p))) as [L|L]; [|rewrite (wsRun_stop p H0 (or_introl L)) in Hne; contradiction].
  destruct (isSpTab (at_ (line p) (li p))) eqn:Es; [|rewrite (wsRun_stop p H0 (or_intror Es)) in Hne; contradiction].
  rewrite (wsRun_step p H0 L Es). unfold isSpTab in Es. apply orb_true_iff in Es. destruct Es as [E|E]; apply Z.eqb_eq in E; rewrite E.
  - rewrite columnWidth_sp. pose proof (columnWidth_nonneg (col p + 1) (upto (from_ (line p) (li p + 1)) (indentLength (from_ (line p) (li p + 1))))). lia.
  - rewrite columnWidth_tab. pose proof (ts_gt (col p)).
    pose proof (columnWidth_nonneg (ts (col p)) (upto (from_ (line p) (li p + 1)) (indentLength (from_ (line p) (li p + 1))))). lia.
Qed.

Definition envSame (p p' : lp) : Prop := line p' = line p /\ lineStart p' = lineStart p /\ root p' = root p /\ container p' = container p.

Lemma consume_exact : forall fuel p, Itab p -> len (wsRun p) < Z.of_nat fuel ->
  li (consumeIndent_loop fuel p (wsWidth p)) = li p + len (wsRun p) /\ envSame p (consumeIndent_loop fuel p (wsWidth p)).
Proof.
  induction fuel as [|f IH]; intros p Hi Hf; [pose proof (len_nonneg (wsRun p)); lia|]. cbn [consumeIndent_loop].
  pose proof Hi as [Hi0 Hit].
  destruct (Z.leb_spec (wsWidth p) 0) as [L0|L0].
  { assert (E : wsRun p = []).
    { destruct (wsRun p) eqn:Er; [reflexivity|]. exfalso. assert (Hne : wsRun p <> []) by (rewrite Er; discriminate).
      pose proof (wsWidth_pos p Hi0 Hne). lia. }
    rewrite E. unfold len. cbn. split; [lia|repeat split]. }
  cbv zeta.
  set (p0 := if state p =? stOpening then withState p stOpenMatched else p).
  assert (E0 : li p0 = li p /\ col p0 = col p /\ tabRem p0 = tabRem p /\ line p0 = line p /\ envSame p p0)
    by (unfold p0; destruct (_ =? _); repeat split).
  destruct E0 as (El & Ec & Et & Eln & Een). rewrite El, Ec, Et, Eln.
  destruct (Z.ltb_spec (li p) (len (line p))) as [Ll|Ll]; cbn [andb];
    [|exfalso; unfold wsWidth in L0; rewrite (wsRun_stop p Hi0 (or_introl Ll)), columnWidth_nil in L0; lia].
  destruct (Z.eqb_spec (at_ (line p) (li p)) 32) as [E32|N32].
  - assert (Es : isSpTab (at_ (line p) (li p)) = true) by (rewrite E32; reflexivity).
    set (p1 := withCursor p0 (li p + 1) (col p + 1) (computeTabRem (line p) (li p + 1) (col p + 1))).
    assert (I1 : Itab p1) by (unfold p1; rewrite <- Eln; apply Itab_cursor; lia).
    assert (R1 : wsRun p1 = upto (from_ (line p) (li p + 1)) (indentLength (from_ (line p) (li p + 1)))).
    { unfold wsRun, rest, p1. cbn [li line withCursor setLP]. rewrite Eln. reflexivity. }
    assert (W1 : wsWidth p - 1 = wsWidth p1).
    { unfold wsWidth at 1. rewrite (wsRun_step p Hi0 Ll Es), E32, columnWidth_sp. unfold wsWidth. rewrite R1. unfold p1. cbn [col withCursor setLP]. lia. }
    assert (L1 : len (wsRun p) = 1 + len (wsRun p1)) by (rewrite (wsRun_step p Hi0 Ll Es), R1, len_cons; lia).
    rewrite W1. destruct (IH p1 I1 ltac:(lia)) as [A Bq]. split.
    + rewrite A. unfold p1 at 1. cbn [li withCursor setLP]. lia.
    + destruct Bq as (B1 & B2 & B3 & B4). destruct Een as (C1 & C2 & C3 & C4).
      unfold envSame. rewrite B1, B2, B3, B4. unfold p1. cbn [line lineStart root container withCursor setLP]. tauto.
  - destruct (Z.eqb_spec (at_ (line p) (li p)) 9) as [E9|N9].
    + assert (Es : isSpTab (at_ (line p) (li p)) = true) by (rewrite E9; reflexivity).
      pose proof (Hit Ll E9) as Etr.
      assert (Wp : wsWidth p = (ts (col p) - col p) + columnWidth (ts (col p)) (upto (from_ (line p) (li p + 1)) (indentLength (from_ (line p) (li p + 1))))).
      { unfold wsWidth. rewrite (wsRun_step p Hi0 Ll Es), E9. apply columnWidth_tab. }
      pose proof (columnWidth_nonneg (ts (col p)) (upto (from_ (line p) (li p + 1)) (indentLength (from_ (line p) (li p + 1))))) as Hnn.
      replace (wsWidth p <? tabRem p) with false by (symmetry; apply Z.ltb_ge; lia).
      set (p1 := withCursor p0 (li p + 1) (col p + tabRem p) (computeTabRem (line p) (li p + 1) (col p + tabRem p))).
      assert (I1 : Itab p1) by (unfold p1; rewrite <- Eln; apply Itab_cursor; lia).
      assert (R1 : wsRun p1 = upto (from_ (line p) (li p + 1)) (indentLength (from_ (line p) (li p + 1)))).
      { unfold wsRun, rest, p1. cbn [li line withCursor setLP]. rewrite Eln. reflexivity. }
      assert (W1 : wsWidth p - tabRem p = wsWidth p1).
      { unfold wsWidth at 2. rewrite R1. unfold p1. cbn [col withCursor setLP]. rewrite Etr.
        replace (col p + (ts (col p) - col p)) with (ts (col p)) by lia. lia. }
      assert (L1 : len (wsRun p) = 1 + len (wsRun p1)) by (rewrite (wsRun_step p Hi0 Ll Es), R1, len_cons; lia).
      rewrite W1. destruct (IH p1 I1 ltac:(lia)) as [A Bq]. split.
      * rewrite A. unfold p1 at 1. cbn [li withCursor setLP]. lia.
      * destruct Bq as (B1 & B2 & B3 & B4). destruct Een as (C1 & C2 & C3 & C4).
        unfold envSame. rewrite B1, B2, B3, B4. unfold p1. cbn [line lineStart root container withCursor setLP]. tauto.
    + exfalso. unfold wsWidth in L0. rewrite (wsRun_stop p Hi0) in L0; [rewrite columnWidth_nil in L0; lia|].
      right. unfold isSpTab. apply orb_false_iff. split; apply Z.eqb_neq; assumption.
Qed.

Lemma trimLeft_from : forall l, trimLeftSpTab l = from_ l (indentLength l).
Proof.
  induction l as [|c r IH]; [reflexivity|]. cbn [trimLeftSpTab indentLength]. destruct (isSpTab c); [|reflexivity].
  rewrite IH. unfold from_. pose proof (indentLength_nonneg r). replace (Z.to_nat (1 + indentLength r)) with (S (Z.to_nat (indentLength r))) by lia. reflexivity.
Qed.
Lemma indentLength_le : forall l, indentLength l <= len l.
Proof. induction l as [|c r IH]; [unfold len; cbn; lia|]. cbn [indentLength]. rewrite len_cons. destruct (isSpTab c); [lia|pose proof (len_nonneg r); lia]. Qed.
Lemma len_wsRun p : len (wsRun p) = indentLength (rest p).
Proof. unfold wsRun. apply (split_at (rest p) (indentLength (rest p))). split; [apply indentLength_nonneg|apply indentLength_le]. Qed.

(* after consuming the indentation the rest of the line is what the recognizers were shown *)
Theorem consume_all p : Itab p -> li p <= len (line p) ->
  let p' := consumeIndent p (indent p) in
  rest p' = bytesAfterIndent p /\ li p' = li p + indentLength (rest p) /\ li p' <= len (line p) /\ envSame p p'.
Proof.
  intros Hi Hl. cbv zeta. unfold consumeIndent. rewrite (indent_eq p Hi).
  pose proof Hi as [Hi0 _].
  assert (Hrl : len (rest p) = len (line p) - li p) by (unfold rest; apply len_from; lia).
  pose proof (indentLength_le (rest p)) as Hle. rewrite Hrl in Hle.
  pose proof (indentLength_nonneg (rest p)) as Hnn.
  assert (Hf : len (wsRun p) < Z.of_nat (S (length (line p)))) by (rewrite len_wsRun; unfold len in *; lia).
  destruct (consume_exact (S (length (line p))) p Hi Hf) as [A Bq]. rewrite len_wsRun in A.
  split; [|split; [exact A|split; [rewrite A; lia|exact Bq]]].
  unfold bytesAfterIndent. rewrite trimLeft_from. unfold rest at 1. rewrite A. destruct Bq as (B1 & _). rewrite B1.
  change (from_ (rest p) (indentLength (rest p))) with (from_ (from_ (line p) (li p)) (indentLength (rest p))).
  rewrite from_from by lia. reflexivity.
Qed.
Print Assumptions consume_all.
