From Coq Require Import List ZArith Lia Bool.
Import ListNotations.
Require Import Base Tree Rdr Link Collect Html Recog LP Rules Starts Driver L2Kind L2CC BSDef BSRdr BSTree BSOcp BSOrph BSClose BSLine1 BSLine2 BSLine3 BSLine4.
Open Scope Z_scope.

Definition LI2 (p : lp) : Prop := LI p \/ (acceptsLines (containerKind p) = true /\ containerKind p <> ParagraphKind).
Definition startOKs (f : lp -> lp) : Prop :=
  forall p, st_open p -> OPx p -> LI p -> OPx (f p) /\ LI2 (f p) /\ (LI (f p) \/ ms (f p)).

Lemma LI_pre p kind : ccP p -> LI p -> kind <> ListItemKind ->
  canContain (containerKind p) kind = true \/ (kind <> ListItemKind /\ cleanC p).
Proof.
  intros D H N. destruct (wf_le p (cdepth p) D ltac:(lia)) as (x & Ex). destruct (H x Ex) as [S|Wd].
  - right. split; [exact N|]. intros x' Ex'. rewrite Ex in Ex'. inversion Ex'; subst x'. exact S.
  - left. rewrite (containerKind_at p x Ex). apply wide_accepts; assumption.
Qed.
Lemma LI_of_ckind p K : ckind p K -> wide K -> LI p.
Proof. intros Hc Hw x Ex. right. rewrite (Hc x Ex). exact Hw. Qed.
Lemma OPx_field p f : OPx p -> keeps f -> (forall M x, sp M x -> sp M (f x)) -> OPx (updCont p f).
Proof. intros H Hk Hf. apply OPx_updCont; [exact H|exact Hk|]. intros x _. apply Hf. Qed.
Lemma st_open_state p : state p = stOpenMatched -> st_open p. Proof. intros E. right. exact E. Qed.
Lemma ms_state p : state p = stOpenMatched -> ms p. Proof. intros E. left. exact E. Qed.

(* a freshly opened block of kind K after consuming the indentation *)
Lemma open_fresh p ind K : st_open p -> OPx p -> LI p -> K <> ListItemKind -> K <> SetextHeadingKind ->
  let q := openBlock (consumeIndent p ind) K in OPx q /\ ckind q K /\ state q = stOpenMatched.
Proof.
  intros Hs H HL N1 N2 q. pose proof (cstep_consumeIndent p ind) as Hc.
  assert (S1 : st_open (consumeIndent p ind)) by (apply st_open_consumeIndent, Hs).
  assert (H1 : OPx (consumeIndent p ind)) by (eapply OPx_cstep; eassumption).
  assert (L1 : LI (consumeIndent p ind)) by (eapply LI_cstep; eassumption).
  split; [|split; [apply ckind_openBlock, S1|apply state_openBlock, S1]].
  apply OPx_openBlock; [exact H1|exact S1|exact N2|]. apply LI_pre; [apply H1|exact L1|exact N1].
Qed.

Lemma sOK_startBlockQuote : startOKs startBlockQuote.
Proof.
  intros p Hs H HL. unfold startBlockQuote. cbv zeta.
  assert (Same : OPx p /\ LI2 p /\ (LI p \/ ms p)) by (split; [exact H|split; [left; exact HL|left; exact HL]]).
  destruct (_ <=? _); [exact Same|]. destruct (negb _); [exact Same|].
  destruct (open_fresh p (indent p) BlockQuoteKind Hs H HL ltac:(discriminate) ltac:(discriminate)) as (A & B & _).
  set (q := openBlock (consumeIndent p (indent p)) BlockQuoteKind) in *.
  assert (Hc : cstep q (if 0 <? indent (advance q 1) then consumeIndent (advance q 1) 1 else advance q 1)).
  { destruct (0 <? _); [eapply cstep_trans; [apply cstep_advance|apply cstep_consumeIndent]|apply cstep_advance]. }
  assert (L : LI (if 0 <? indent (advance q 1) then consumeIndent (advance q 1) 1 else advance q 1)).
  { eapply LI_of_ckind; [eapply ckind_cstep; eassumption|right; left; reflexivity]. }
  split; [eapply OPx_cstep; eassumption|split; [left; exact L|left; exact L]].
Qed.

Lemma sOK_startATX : startOKs startATX.
Proof.
  intros p Hs H HL. unfold startATX. cbv zeta.
  assert (Same : OPx p /\ LI2 p /\ (LI p \/ ms p)) by (split; [exact H|split; [left; exact HL|left; exact HL]]).
  destruct (_ <=? _); [exact Same|]. destruct (parseATXHeading _) as [[level cs] ce]. destruct (level <? 1); [exact Same|].
  destruct (open_fresh p (indent p) ATXHeadingKind Hs H HL ltac:(discriminate) ltac:(discriminate)) as (A & B & C).
  set (q := openBlock (consumeIndent p (indent p)) ATXHeadingKind) in *.
  set (q1 := updCont q (fun b => set_bn b level)).
  assert (A1 : OPx q1) by (apply OPx_field; [exact A|apply keeps_bn|intros M x; apply sp_set_bn]).
  assert (B1 : ckind q1 ATXHeadingKind) by (apply ckind_updCont; [intros b; apply bkind_set_bn|exact B]).
  assert (M1 : ms q1) by (apply ms_state; exact C).
  set (q2 := advance q1 cs).
  assert (A2 : OPx q2) by (eapply OPx_cstep; [apply cstep_advance|exact A1]).
  assert (B2 : ckind q2 ATXHeadingKind) by (eapply ckind_cstep; [apply cstep_advance|exact B1]).
  assert (M2 : ms q2) by (eapply ms_sstep; [apply sstep_advance|exact M1]).
  destruct (OPx_collectInline q2 UnparsedKind (ce - cs) ATXHeadingKind A2 B2 ltac:(discriminate)) as [A3 B3].
  assert (M3 : ms (collectInline q2 UnparsedKind (ce - cs))) by (eapply ms_sstep; [apply sstep_collectInline|exact M2]).
  set (q3 := collectInline q2 UnparsedKind (ce - cs)) in *.
  assert (A4 : OPx (consumeLine q3)) by (eapply OPx_cstep; [apply cstep_consumeLine|exact A3]).
  assert (B4 : ckind (consumeLine q3) ATXHeadingKind) by (eapply ckind_cstep; [apply cstep_consumeLine|exact B3]).
  destruct (ms_consumeLine q3 (ms_nd _ M3)) as [_ N4].
  destruct (OPx_endBlock _ ATXHeadingKind A4 N4 B4 ltac:(discriminate) ltac:(discriminate)) as [A5 L5].
  specialize (L5 ltac:(discriminate)). split; [exact A5|split; [left; exact L5|left; exact L5]].
Qed.

Lemma LI2_of_ckind p K : ccP p -> ckind p K -> acceptsLines K = true -> K <> ParagraphKind -> LI2 p.
Proof. intros D Hc Ha N. right. rewrite (containerKind_of p K D Hc). tauto. Qed.

Lemma sOK_startFenced : startOKs startFenced.
Proof.
  intros p Hs H HL. unfold startFenced. cbv zeta.
  assert (Same : OPx p /\ LI2 p /\ (LI p \/ ms p)) by (split; [exact H|split; [left; exact HL|left; exact HL]]).
  destruct (_ <=? _); [exact Same|]. destruct (parseCodeFence _) as [[[fc fnn] is_] ie]. destruct (fnn =? 0); [exact Same|].
  destruct (open_fresh p (indent p) FencedCodeBlockKind Hs H HL ltac:(discriminate) ltac:(discriminate)) as (A & B & C).
  set (q := openBlock (consumeIndent p (indent p)) FencedCodeBlockKind) in *.
  set (q1 := updCont q (fun b => set_bn (set_bchar b fc) fnn)).
  assert (A1 : OPx q1) by (apply OPx_field; [exact A|apply keeps_fence|intros M x Hx; apply sp_set_bn, sp_set_bchar, Hx]).
  assert (B1 : ckind q1 FencedCodeBlockKind) by (apply ckind_updCont; [intros b; destruct b; reflexivity|exact B]).
  set (q2 := updCont q1 (fun b => set_bindent b (indent p))).
  assert (A2 : OPx q2) by (apply OPx_field; [exact A1|apply keeps_bindent|intros M x; apply sp_set_bindent]).
  assert (B2 : ckind q2 FencedCodeBlockKind) by (apply ckind_updCont; [intros b; apply bkind_set_bindent|exact B1]).
  assert (M2 : ms q2) by (apply ms_state; exact C).
  set (q3 := if spanValid (is_, ie) then collectInline (advance q2 is_) InfoStringKind (ie - is_) else q2).
  assert (H3 : OPx q3 /\ ckind q3 FencedCodeBlockKind /\ ms q3).
  { unfold q3. destruct (spanValid _); [|tauto].
    assert (Aa : OPx (advance q2 is_)) by (eapply OPx_cstep; [apply cstep_advance|exact A2]).
    assert (Ba : ckind (advance q2 is_) FencedCodeBlockKind) by (eapply ckind_cstep; [apply cstep_advance|exact B2]).
    destruct (OPx_collectInline _ InfoStringKind (ie - is_) FencedCodeBlockKind Aa Ba ltac:(discriminate)) as [P1 P2].
    split; [exact P1|split; [exact P2|]]. eapply ms_sstep; [apply sstep_collectInline|]. eapply ms_sstep; [apply sstep_advance|exact M2]. }
  destruct H3 as (A3 & B3 & M3).
  assert (A4 : OPx (consumeLine q3)) by (eapply OPx_cstep; [apply cstep_consumeLine|exact A3]).
  assert (B4 : ckind (consumeLine q3) FencedCodeBlockKind) by (eapply ckind_cstep; [apply cstep_consumeLine|exact B3]).
  destruct (ms_consumeLine q3 (ms_nd _ M3)) as [M4 _].
  split; [exact A4|split; [|right; exact M4]]. eapply LI2_of_ckind; [apply A4|exact B4|reflexivity|discriminate].
Qed.

Lemma sOK_startHTML : startOKs startHTML.
Proof.
  intros p Hs H HL. unfold startHTML. cbv zeta.
  assert (Same : OPx p /\ LI2 p /\ (LI p \/ ms p)) by (split; [exact H|split; [left; exact HL|left; exact HL]]).
  destruct (_ <=? _); [exact Same|]. destruct (negb _); [exact Same|]. destruct (_ <? 0); [exact Same|]. destruct (negb _ && _); [exact Same|].
  set (i := firstHtmlCond 0 7 (bytesAfterIndent p)).
  assert (A : OPx (openBlock p HTMLBlockKind)).
  { apply OPx_openBlock; [exact H|exact Hs|discriminate|]. apply LI_pre; [apply H|exact HL|discriminate]. }
  pose proof (ckind_openBlock p HTMLBlockKind Hs) as B. pose proof (state_openBlock p HTMLBlockKind Hs) as C.
  set (q := openBlock p HTMLBlockKind) in *.
  set (q1 := updCont q (fun b => set_bn b i)).
  assert (A1 : OPx q1) by (apply OPx_field; [exact A|apply keeps_bn|intros M x; apply sp_set_bn]).
  assert (B1 : ckind q1 HTMLBlockKind) by (apply ckind_updCont; [intros b; apply bkind_set_bn|exact B]).
  assert (M1 : ms q1) by (apply ms_state; exact C).
  destruct (htmlEnd _ _).
  - destruct (OPx_collectInline q1 RawHTMLKind (len (bytesAfterIndent q1)) HTMLBlockKind A1 B1 ltac:(discriminate)) as [A3 B3].
    assert (M3 : ms (collectInline q1 RawHTMLKind (len (bytesAfterIndent q1)))) by (eapply ms_sstep; [apply sstep_collectInline|exact M1]).
    set (q3 := collectInline q1 RawHTMLKind (len (bytesAfterIndent q1))) in *.
    assert (A4 : OPx (consumeLine q3)) by (eapply OPx_cstep; [apply cstep_consumeLine|exact A3]).
    assert (B4 : ckind (consumeLine q3) HTMLBlockKind) by (eapply ckind_cstep; [apply cstep_consumeLine|exact B3]).
    destruct (ms_consumeLine q3 (ms_nd _ M3)) as [_ N4].
    destruct (OPx_endBlock _ HTMLBlockKind A4 N4 B4 ltac:(discriminate) ltac:(discriminate)) as [A5 L5].
    specialize (L5 ltac:(discriminate)). split; [exact A5|split; [left; exact L5|left; exact L5]].
  - split; [exact A1|split; [|right; exact M1]]. eapply LI2_of_ckind; [apply A1|exact B1|reflexivity|discriminate].
Qed.

Lemma sOK_startThematic : startOKs startThematic.
Proof.
  intros p Hs H HL. unfold startThematic. cbv zeta.
  assert (Same : OPx p /\ LI2 p /\ (LI p \/ ms p)) by (split; [exact H|split; [left; exact HL|left; exact HL]]).
  destruct (_ <=? _); [exact Same|]. destruct (_ <? 0); [exact Same|].
  destruct (open_fresh p (indent p) ThematicBreakKind Hs H HL ltac:(discriminate) ltac:(discriminate)) as (A & B & C).
  set (q := openBlock (consumeIndent p (indent p)) ThematicBreakKind) in *.
  set (q2 := advance q (parseThematicBreak (bytesAfterIndent p))).
  assert (A2 : OPx q2) by (eapply OPx_cstep; [apply cstep_advance|exact A]).
  assert (B2 : ckind q2 ThematicBreakKind) by (eapply ckind_cstep; [apply cstep_advance|exact B]).
  assert (M2 : ms q2) by (eapply ms_sstep; [apply sstep_advance|apply ms_state; exact C]).
  assert (A4 : OPx (consumeLine q2)) by (eapply OPx_cstep; [apply cstep_consumeLine|exact A2]).
  assert (B4 : ckind (consumeLine q2) ThematicBreakKind) by (eapply ckind_cstep; [apply cstep_consumeLine|exact B2]).
  destruct (ms_consumeLine q2 (ms_nd _ M2)) as [_ N4].
  destruct (OPx_endBlock _ ThematicBreakKind A4 N4 B4 ltac:(discriminate) ltac:(discriminate)) as [A5 L5].
  specialize (L5 ltac:(discriminate)). split; [exact A5|split; [left; exact L5|left; exact L5]].
Qed.

Lemma sOK_startIndented : startOKs startIndented.
Proof.
  intros p Hs H HL. unfold startIndented.
  assert (Same : OPx p /\ LI2 p /\ (LI p \/ ms p)) by (split; [exact H|split; [left; exact HL|left; exact HL]]).
  destruct (_ || _ || _); [exact Same|].
  destruct (open_fresh p codeBlockIndentLimit IndentedCodeBlockKind Hs H HL ltac:(discriminate) ltac:(discriminate)) as (A & B & C).
  split; [exact A|split; [|right; apply ms_state; exact C]]. eapply LI2_of_ckind; [apply A|exact B|reflexivity|discriminate].
Qed.
