From Coq Require Import List ZArith Lia Bool.
Import ListNotations.
Require Import Base Tables Utf8 Tree Rdr Link Collect Html Recog Inl3a Inl3b Leaf3e ShapesBase ShapesR.
Open Scope Z_scope.

(* ================================================================ (1) parseCodeSpan *)
Section CS.
  Variable src : bytes.
  Variable sp0 : list inline.     (* the span list the scan started from *)
  Definition RJ (r : reader) : Prop := RI src r /\ sublist (r_spans r) sp0.

  Lemma RJ_current r : RJ r -> RJ (snd (current r)).
  Proof. intros (A & B). split; [apply RI_current, A|]. eapply sublist_trans; [apply current_spans|exact B]. Qed.
  Lemma RJ_next r ok r1 : RJ r -> next r = (ok, r1) -> sublist (r_spans r1) sp0.
  Proof. intros (A & B) E. pose proof (next_spans r) as H. rewrite E in H. cbn [snd] in H. eapply sublist_trans; eassumption. Qed.

  Lemma tick_lt p : at_ src p = 96 -> 0 <= p < len src.
  Proof. intros H. apply at_nonzero_lt. lia. Qed.

  (* a step from a backtick is contiguous *)
  Lemma tick_step r r1 : RJ r -> at_ src (r_pos r) = 96 -> next r = (true, r1) ->
    RJ r1 /\ InNode r1 /\ r_prev r1 = r_pos r /\ r_pos r1 = r_pos r + 1 /\ mu src r1 < mu src r.
  Proof.
    intros HJ Ht E. pose proof HJ as (HRI & HS). pose proof (tick_lt _ Ht) as Hlt.
    destruct (next_step src r r1 HRI E) as (H1 & H2 & H3 & Hcase).
    split; [split; [exact H1|eapply RJ_next; eassumption]|]. split; [exact H2|]. split; [exact H3|].
    split; [|apply next_mu; assumption].
    destruct Hcase as [(A & _)|[(A & [B|B])|(A & B & [C|[C|C]] & _)]]; try lia; try congruence.
    - apply blank_not in B. lia.
    - apply blank_not in C. lia.
  Qed.
  (* a step from a byte that is not a backtick: if it lands on a backtick, the source byte before that is not one *)
  Lemma nontick_step r r1 : RJ r -> at_ src (r_pos r) <> 96 -> next r = (true, r1) ->
    RJ r1 /\ InNode r1 /\ r_prev r1 = r_pos r /\ r_pos r <= r_pos r1 /\ mu src r1 < mu src r /\
    (at_ src (r_pos r1) = 96 -> at_ src (r_pos r1 - 1) <> 96).
  Proof.
    intros HJ Ht E. pose proof HJ as (HRI & HS).
    destruct (next_step src r r1 HRI E) as (H1 & H2 & H3 & Hcase).
    split; [split; [exact H1|eapply RJ_next; eassumption]|]. split; [exact H2|]. split; [exact H3|].
    split; [destruct Hcase as [(A & _)|[(A & _)|(A & _)]]; lia|]. split; [apply next_mu; assumption|].
    destruct Hcase as [(A & _)|[(A & _)|(A & B & _)]]; intros H96.
    - rewrite A. replace (r_pos r + 1 - 1) with (r_pos r) by lia. exact Ht.
    - rewrite A in H96. congruence.
    - exact B.
  Qed.
  (* the input ends right after a backtick: the reader stood on the last byte of one of the spans *)
  Lemma tick_end r r1 : RJ r -> InNode r -> at_ src (r_pos r) = 96 -> next r = (false, r1) ->
    r_prev r1 = r_pos r /\ exists node, In node sp0 /\ iend node = r_pos r + 1.
  Proof.
    intros ((Hs & Hok) & HS) (node & Hn) Ht E. pose proof (tick_lt _ Ht) as Hlt.
    destruct (next_false r r1 E) as (_ & _ & Hf). destruct (Hf node Hn) as (A & B & C).
    split; [exact A|]. exists node. split; [apply HS; apply curNode_in; exact Hn|].
    destruct C as [C|C]; [|exact C]. exfalso.
    destruct (curNode_cases r) as [E0|(pre & n & rest & E1 & E0 & E3)]; rewrite E0 in Hn; cbn [fst] in Hn; [discriminate|].
    inversion Hn; subst n. rewrite E1 in Hok. apply spOK_app_r in Hok. pose proof (spOK_cons _ _ _ Hok) as (_ & _ & _ & D & _).
    destruct (indent_blank src node _ (D C) E3) as [L|L]; [lia|]. apply blank_not in L. lia.
  Qed.

  (* ---- the opening run ---- *)
  Lemma cs_open_spec : forall fuel r n cstart r1 n1 c1 c2, RJ r ->
    cs_open fuel r n cstart = (Some (r1, n1, c1), c2) ->
    RJ r1 /\ n <= n1 /\ r_pos r1 = r_pos r + (n1 - n) /\
    (forall i, 0 <= i < n1 - n -> at_ src (r_pos r + i) = 96) /\ cur r1 <> 96 /\
    (n < n1 -> InNode r1 /\ c1 = r_pos r1) /\ (n1 = n -> c1 = cstart /\ r1 = r) /\ mu src r1 <= mu src r.
  Proof.
    induction fuel as [|f IH]; intros r n cstart r1 n1 c1 c2 HJ H; [discriminate|]. cbn [cs_open] in H.
    destruct (Z.eqb_spec (cur r) 96) as [Ec|Ec].
    - rewrite next_current in H. destruct (next r) as [ok r'] eqn:En. destruct ok; cbn [negb] in H; [|discriminate].
      pose proof HJ as ((Hs & _) & _). destruct (cur_tick src r Hs Ec) as (Ht & _).
      destruct (tick_step r r' HJ Ht En) as (HJ' & HI' & _ & Hp' & Hmu').
      destruct (IH _ _ _ _ _ _ _ HJ' H) as (A & B & C & D & E & F & G & M).
      split; [exact A|]. split; [lia|]. split; [lia|]. split.
      { intros i Hi. destruct (Z.eq_dec i 0) as [->|Hne]; [replace (r_pos r + 0) with (r_pos r) by lia; exact Ht|].
        replace (r_pos r + i) with (r_pos r' + (i - 1)) by lia. apply D. lia. }
      split; [exact E|]. split; [|split; [intros; lia|lia]].
      intros _. destruct (Z.eq_dec n1 (n + 1)) as [E1|E1].
      + destruct (G E1) as (G1 & G2). subst r1. split; [exact HI'|exact G1].
      + apply F. lia.
    - inversion H; subst. split; [exact HJ|]. split; [lia|]. split; [lia|]. split; [intros; lia|].
      split; [exact Ec|]. split; [intros; lia|]. split; [intros; split; reflexivity|lia].
  Qed.

  (* ---- a run of backticks, entered at a backtick ---- *)
  Lemma cs_run_k : forall fuel r k, k <= snd (fst (cs_run fuel r k)).
  Proof.
    induction fuel as [|f IH]; intros r k; cbn [cs_run]; [cbn; lia|].
    destruct (next r) as [ok r1]. destruct ok; cbn [negb]; [|cbn; lia].
    destruct (cur r1 =? 96); [|cbn; lia]. specialize (IH (snd (current r1)) (k + 1)). lia.
  Qed.

  Lemma cs_run_spec : forall fuel r k r1 k1 alive, RJ r -> InNode r -> at_ src (r_pos r) = 96 -> mu src r < Z.of_nat fuel ->
    cs_run fuel r k = (r1, k1, alive) ->
    k <= k1 /\ (forall i, 0 <= i <= k1 - k -> at_ src (r_pos r + i) = 96) /\
    r_prev r1 = r_pos r + (k1 - k) /\
    (alive = true -> RJ r1 /\ InNode r1 /\ r_pos r1 = r_pos r + (k1 - k) + 1 /\ cur r1 <> 96 /\ mu src r1 < mu src r) /\
    (alive = false -> fst (next r1) = false /\ exists node, In node sp0 /\ iend node = r_pos r + (k1 - k) + 1).
  Proof.
    induction fuel as [|f IH]; intros r k r1 k1 alive HJ HI Ht Hmu H.
    { pose proof (mu_nonneg src r (proj1 HJ) HI). lia. }
    cbn [cs_run] in H. destruct (next r) as [ok r'] eqn:En. destruct ok; cbn [negb] in H.
    - destruct (tick_step r r' HJ Ht En) as (HJ' & HI' & Hprev' & Hp' & Hmu').
      destruct (Z.eqb_spec (cur r') 96) as [Ec|Ec].
      + pose proof HJ' as ((Hs' & _) & _). destruct (cur_tick src r' Hs' Ec) as (Ht' & _).
        destruct (current_fields r') as (F1 & F2 & F3 & F4). cbv zeta in *.
        destruct (IH (snd (current r')) (k + 1) r1 k1 alive (RJ_current _ HJ') (InNode_current _ HI')
                     ltac:(rewrite F2; exact Ht') ltac:(rewrite mu_current; lia) H) as (A & B & C & D & E).
        rewrite F2 in *. rewrite mu_current in D.
        split; [lia|]. split.
        { intros i Hi. destruct (Z.eq_dec i 0) as [->|Hne]; [replace (r_pos r + 0) with (r_pos r) by lia; exact Ht|].
          replace (r_pos r + i) with (r_pos r' + (i - 1)) by lia. apply B. lia. }
        split; [lia|]. split.
        * intros Ha. destruct (D Ha) as (D1 & D2 & D3 & D4 & D5).
          split; [exact D1|]. split; [exact D2|]. split; [lia|]. split; [exact D4|lia].
        * intros Ha. destruct (E Ha) as (E1 & node & E2 & E3). split; [exact E1|]. exists node. split; [exact E2|lia].
      + inversion H; subst r1 k1 alive. destruct (current_fields r') as (F1 & F2 & F3 & F4). cbv zeta in *.
        split; [lia|]. split.
        { intros i Hi. replace (r_pos r + i) with (r_pos r) by lia. exact Ht. }
        split; [lia|]. split; [|discriminate]. intros _.
        split; [apply RJ_current, HJ'|]. split; [apply InNode_current, HI'|]. split; [lia|].
        split; [rewrite cur_current; exact Ec|rewrite mu_current; exact Hmu'].
    - inversion H; subst r1 k1 alive. destruct (tick_end r r' HJ HI Ht En) as (A & node & B & C).
      split; [lia|]. split.
      { intros i Hi. replace (r_pos r + i) with (r_pos r) by lia. exact Ht. }
      split; [lia|]. split; [discriminate|]. intros _. split; [eapply next_false_again; exact En|].
      exists node. split; [exact B|lia].
  Qed.

  (* ---- looking for the closing run ---- *)
  Lemma cs_close_zero blen : blen < 1 -> forall fuel r, cs_close fuel r blen = (-1, -1).
  Proof.
    intros Hb. induction fuel as [|f IH]; intros r; [reflexivity|]. cbn [cs_close].
    destruct (negb (cur r =? 96)).
    - destruct (next (snd (current r))) as [ok r1]. destruct (negb ok); [reflexivity|apply IH].
    - pose proof (cs_run_k (S f) (snd (current r)) 1) as Hk.
      destruct (cs_run (S f) (snd (current r)) 1) as [[r1 k] alive]. cbn [fst snd] in Hk.
      destruct (Z.eqb_spec k blen); [lia|]. destruct (next r1) as [ok r2]. destruct (negb ok); [reflexivity|apply IH].
  Qed.

  Lemma cs_close_spec blen : 1 <= blen -> forall fuel r ce se, RJ r -> InNode r ->
    (at_ src (r_pos r) = 96 -> at_ src (r_pos r - 1) <> 96) ->
    mu src r < Z.of_nat fuel ->
    cs_close fuel r blen = (ce, se) -> 0 <= se ->
    r_pos r <= ce /\ se = ce + blen /\ (forall i, 0 <= i < blen -> at_ src (ce + i) = 96) /\ at_ src (ce - 1) <> 96 /\
    (at_ src se <> 96 \/ exists node, In node sp0 /\ iend node = se).
  Proof.
    intros Hb. induction fuel as [|f IH]; intros r ce se HJ HI Hpre Hmu H Hse; [inversion H; lia|].
    cbn [cs_close] in H. destruct (Z.eqb_spec (cur r) 96) as [Ec|Ec]; cbn [negb] in H.
    - (* at a backtick: count the run *)
      pose proof HJ as ((Hs & _) & _). destruct (cur_tick src r Hs Ec) as (Ht & _).
      destruct (current_fields r) as (F1 & F2 & F3 & F4). cbv zeta in *.
      destruct (cs_run (S f) (snd (current r)) 1) as [[r1 k] alive] eqn:Er.
      destruct (cs_run_spec (S f) (snd (current r)) 1 r1 k alive (RJ_current _ HJ) (InNode_current _ HI)
                  ltac:(rewrite F2; exact Ht) ltac:(rewrite mu_current; exact Hmu) Er) as (A & B & C & D & E).
      rewrite F2 in *. rewrite mu_current in D.
      destruct (Z.eqb_spec k blen) as [Ek|Ek].
      + inversion H; subst ce se. split; [lia|]. split; [lia|]. split; [intros i Hi; apply B; lia|].
        split; [apply Hpre, Ht|].
        destruct alive.
        * left. destruct (D eq_refl) as ((D1 & _) & D2 & D3 & D4 & D5). replace (r_prev r1 + 1) with (r_pos r1) by lia.
          apply cur_not_tick; assumption.
        * right. destruct (E eq_refl) as (_ & node & E2 & E3). exists node. split; [exact E2|lia].
      + destruct (next r1) as [ok r2] eqn:En. destruct ok; cbn [negb] in H; [|inversion H; lia].
        destruct alive; [|destruct (E eq_refl) as (E1 & _); rewrite ?En in E1; cbn in E1; discriminate].
        destruct (D eq_refl) as (D1 & D2 & D3 & D4 & D5).
        pose proof (cur_not_tick src r1 (proj1 D1) D4) as Hnt.
        destruct (nontick_step r1 r2 D1 Hnt En) as (N1 & N2 & N3 & N4 & N5 & N6).
        destruct (IH r2 ce se N1 N2 N6 ltac:(lia) H Hse) as (R1 & R2). split; [lia|exact R2].
    - (* not a backtick: move on *)
      rewrite next_current in H. destruct (next r) as [ok r'] eqn:En. destruct ok; cbn [negb] in H; [|inversion H; lia].
      pose proof (cur_not_tick src r (proj1 HJ) Ec) as Hnt.
      destruct (nontick_step r r' HJ Hnt En) as (N1 & N2 & N3 & N4 & N5 & N6).
      destruct (IH r' ce se N1 N2 N6 ltac:(lia) H Hse) as (R1 & R2). split; [lia|exact R2].
  Qed.
End CS.

(* parseCodeSpan: what a successful result (spanEnd >= 0) guarantees about the SOURCE bytes, for a well-formed span list
   and enough fuel.  n is the length of the opening run. *)
Theorem parseCodeSpan_shape fuel st start cS cE sE :
  spOK (isrc st) (unpFrom st) = true ->
  len (isrc st) - start + ibudget (unpFrom st) < Z.of_nat fuel ->
  parseCodeSpan fuel st start = (cS, cE, sE) -> 0 <= sE ->
  exists n, 1 <= n /\ cS = start + n /\ cS < cE /\ sE = cE + n /\
    (forall i, start <= i < cS -> at_ (isrc st) i = 96) /\ at_ (isrc st) cS <> 96 /\
    (forall i, cE <= i < sE -> at_ (isrc st) i = 96) /\ at_ (isrc st) (cE - 1) <> 96 /\
    (at_ (isrc st) sE <> 96 \/ exists node, In node (unpFrom st) /\ iend node = sE).
Proof.
  intros Hok Hfuel H Hse. unfold parseCodeSpan in H. set (src := isrc st) in *. set (sp0 := unpFrom st) in *.
  set (r0 := newReader src sp0 start) in *.
  assert (HJ0 : RJ src sp0 r0) by (split; [split; [reflexivity|exact Hok]|apply sublist_refl]).
  assert (Hmu0 : mu src r0 < Z.of_nat fuel).
  { pose proof (mu_le_start src r0 ltac:(cbn; lia)) as Hm. cbn [r0 newReader r_pos r_spans] in Hm. lia. }
  destruct (cs_open fuel r0 0 start) as [[[[r1 n] c1]|] c2] eqn:Eo; [|inversion H; lia].
  destruct (cs_open_spec src sp0 _ _ _ _ _ _ _ _ HJ0 Eo) as (A & B & C & D & E & F & G & M).
  destruct (cs_close fuel r1 n) as [ce se] eqn:Ecl. inversion H; subst cS cE sE. clear H.
  destruct (Z.lt_ge_cases n 1) as [Hn|Hn]; [rewrite (cs_close_zero n Hn) in Ecl; inversion Ecl; lia|].
  destruct (F ltac:(lia)) as (HI1 & Ec1). cbn [r0 newReader r_pos] in C, D.
  pose proof (cur_not_tick src r1 (proj1 A) E) as Hnt.
  destruct (cs_close_spec src sp0 n Hn fuel r1 ce se A HI1 ltac:(intros; congruence) ltac:(lia) Ecl Hse)
    as (R1 & R2 & R3 & R4 & R5).
  exists n. split; [exact Hn|]. split; [lia|]. split.
  { assert (ce <> r_pos r1) by (intros ->; apply Hnt; replace (r_pos r1) with (r_pos r1 + 0) by lia; apply R3; lia). lia. }
  split; [exact R2|]. split; [intros i Hi; replace i with (start + (i - start)) by lia; apply D; lia|].
  split; [rewrite Ec1; exact Hnt|]. split; [intros i Hi; replace i with (ce + (i - ce)) by lia; apply R3; lia|].
  split; [exact R4|exact R5].
Qed.

(* ================================================================ the shape checker of Props.v on a scanner result *)
Require Import Props.

Lemma countLead_run c : forall t n, 0 <= n -> n <= len t ->
  (forall i, 0 <= i < n -> at_ t i = c) -> (n < len t -> at_ t n <> c) -> countLead c t = n.
Proof.
  induction t as [|x r IH]; intros n Hn Hl Hall Hstop.
  - change (len (@nil Z)) with 0 in Hl. cbn. lia.
  - rewrite len_cons in *. cbn [countLead]. destruct (Z.eq_dec n 0) as [->|Hne].
    + destruct (Z.eqb_spec x c) as [E|E]; [|reflexivity]. exfalso. apply Hstop; [pose proof (len_nonneg r); lia|]. rewrite at_0. exact E.
    + pose proof (Hall 0 ltac:(lia)) as H0. rewrite at_0 in H0. subst x. rewrite Z.eqb_refl.
      rewrite (IH (n - 1)); try lia.
      * intros i Hi. rewrite <- (at_S c r i) by lia. apply Hall. lia.
      * intros Hlt. rewrite <- (at_S c r (n - 1)) by lia. replace (n - 1 + 1) with n by lia. apply Hstop. lia.
Qed.
Lemma at_rev (t : bytes) i : 0 <= i < len t -> at_ (rev t) i = at_ t (len t - 1 - i).
Proof.
  intros Hi. unfold at_. destruct (Z.ltb_spec i 0); [lia|]. destruct (Z.ltb_spec (len t - 1 - i) 0); [lia|].
  unfold len in *. rewrite rev_nth by lia. f_equal. lia.
Qed.
Lemma shape_codespan t : shapeInline t CodeSpanKind =
  (let a := countLead 96 t in let z := countLead 96 (rev t) in (0 <? a) && (a =? z) && (2 * a <=? len t)).
Proof. reflexivity. Qed.

(* the text between the start and the reported span end has the code-span shape *)
Theorem parseCodeSpan_shapeInline fuel st start cS cE sE :
  0 <= start ->
  spOK (isrc st) (unpFrom st) = true ->
  len (isrc st) - start + ibudget (unpFrom st) < Z.of_nat fuel ->
  parseCodeSpan fuel st start = (cS, cE, sE) -> 0 <= sE ->
  shapeInline (sub (isrc st) start sE) CodeSpanKind = true /\ start < sE <= len (isrc st).
Proof.
  intros Hs Hok Hfuel H Hse.
  destruct (parseCodeSpan_shape fuel st start cS cE sE Hok Hfuel H Hse) as (n & Hn & EcS & Hlt & EsE & Ho & Hno & Hc & Hnc & _).
  set (src := isrc st) in *.
  assert (Hlast : at_ src (sE - 1) = 96) by (apply Hc; lia).
  assert (HsE : sE <= len src) by (pose proof (at_nonzero_lt src (sE - 1) ltac:(lia)); lia).
  split; [|lia]. rewrite shape_codespan. cbv zeta.
  assert (Hl : len (sub src start sE) = sE - start) by (apply len_sub_in; lia).
  assert (Ha : countLead 96 (sub src start sE) = n).
  { apply countLead_run; try lia.
    - intros i Hi. rewrite at_sub by lia. apply Ho. lia.
    - intros _. rewrite at_sub by lia. replace (start + n) with cS by lia. exact Hno. }
  assert (Hz : countLead 96 (rev (sub src start sE)) = n).
  { apply countLead_run; try lia; try (rewrite len_rev; lia).
    - intros i Hi. rewrite at_rev by lia. rewrite Hl. rewrite at_sub by lia. apply Hc. lia.
    - intros _. rewrite at_rev by lia. rewrite Hl. rewrite at_sub by lia.
      replace (start + (sE - start - 1 - n)) with (cE - 1) by lia. exact Hnc. }
  rewrite Ha, Hz, Hl. rewrite Z.eqb_refl.
  destruct (Z.ltb_spec 0 n); [|lia]. destruct (Z.leb_spec (2 * n) (sE - start)); [reflexivity|lia].
Qed.

Print Assumptions parseCodeSpan_shape.
Print Assumptions parseCodeSpan_shapeInline.
