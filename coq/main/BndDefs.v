From Coq Require Import List ZArith Lia Bool.
Import ListNotations.
Require Import Base Tables Utf8 Tree Rdr Link Collect Html Recog Inl3a Inl3b Inl3c Inl3d Inl3e Driver Render Props PEProof.
Require Import GI0 GI1 GI2 GI3 ShapesBase IS0 IS2.
Open Scope Z_scope.

(* ================================================================== *)
(* BndDefs: C02, character-boundary clause.                            *)
(*  - the checkers bndI / bndB (Props.spansI / spansB restricted to    *)
(*    the boundary clause)                                             *)
(*  - the predicate on parse-time nodes bp, and how the forest         *)
(*    operations of the inline parser act on it                        *)
(* ================================================================== *)

Fixpoint bndI (src : bytes) (i : inline) : bool :=
  match i with Inl _ s e _ _ ks => boundary_ok src s && boundary_ok src e && forallb (bndI src) ks end.
Fixpoint bndB (src : bytes) (b : block) : bool :=
  match b with Blk _ s e bk ik _ _ _ _ _ =>
    boundary_ok src s && boundary_ok src e && forallb (bndB src) bk && forallb (bndI src) ik end.

(* "an ASCII byte is never followed by a continuation byte": what validity of the source is used for *)
Definition asciiOK (src : bytes) : Prop := forall p, 1 <= p -> at_ src (p - 1) < 128 -> boundary_ok src p = true.

Lemma bok_neg src p : p < 0 -> boundary_ok src p = true.
Proof. intros H. unfold boundary_ok. rewrite (at_neg src p H). destruct (p <? len src); reflexivity. Qed.
Lemma bok_end src p : len src <= p -> boundary_ok src p = true.
Proof. intros H. unfold boundary_ok. replace (p <? len src) with false by (symmetry; apply Z.ltb_ge; lia). reflexivity. Qed.
Lemma bok_at src p : at_ src p < 128 -> boundary_ok src p = true.
Proof.
  intros H. unfold boundary_ok. destruct (p <? len src); [|reflexivity]. unfold isCont.
  replace (128 <=? at_ src p) with false by (symmetry; apply Z.leb_gt; lia). reflexivity.
Qed.
Lemma bok_byte src p c : at_ src p = c -> c < 128 -> boundary_ok src p = true.
Proof. intros <- H. apply bok_at, H. Qed.
Lemma bok_after src p c : asciiOK src -> at_ src (p - 1) = c -> c <> 0 -> c < 128 -> boundary_ok src p = true.
Proof.
  intros HV E H0 H. apply HV; [|rewrite E; exact H]. pose proof (in_src src (p - 1) ltac:(rewrite E; exact H0)). lia.
Qed.

Section BP.
  Variable src : bytes.
  Notation bok := (boundary_ok src).

  Fixpoint bp (n : pn) : bool := match n with PN _ _ s e _ _ ks => bok s && bok e && forallb bp ks end.
  Definition bpF (l : list pn) : bool := forallb bp l.

  Lemma bp_eq n : bp n = bok (ps n) && bok (pe n) && bpF (pkids n). Proof. destruct n; reflexivity. Qed.
  Lemma bpF_app a b : bpF (a ++ b) = bpF a && bpF b. Proof. apply forallb_app. Qed.
  Lemma bpF_cons n l : bpF (n :: l) = bp n && bpF l. Proof. reflexivity. Qed.
  Lemma bp_parts n : bp n = true -> bok (ps n) = true /\ bok (pe n) = true /\ bpF (pkids n) = true.
  Proof. rewrite bp_eq. intros H. apply andb_true_iff in H. destruct H as [H H3]. apply andb_true_iff in H. tauto. Qed.
  Lemma bp_mk id k s e ind r ks : bok s = true -> bok e = true -> bpF ks = true -> bp (PN id k s e ind r ks) = true.
  Proof. intros A B C. cbn [bp]. fold (bpF ks). rewrite A, B, C. reflexivity. Qed.
  Lemma bp_setSpan n s e : bp n = true -> bok s = true -> bok e = true -> bp (setSpan n s e) = true.
  Proof. intros H A B. destruct (bp_parts n H) as (_ & _ & C). destruct n. cbn [setSpan pkids] in *. apply bp_mk; assumption. Qed.
  Lemma bp_setRef n r : bp (setRef n r) = bp n. Proof. destruct n; reflexivity. Qed.
  Lemma bp_setKids n ks : bp n = true -> bpF ks = true -> bp (setKids n ks) = true.
  Proof. intros H C. destruct (bp_parts n H) as (A & B & _). destruct n. cbn [setKids ps pe] in *. apply bp_mk; assumption. Qed.
  Lemma bp_setInd n v : bp (setInd n v) = bp n. Proof. destruct n; reflexivity. Qed.
  Lemma bpF_in l n : bpF l = true -> In n l -> bp n = true.
  Proof. unfold bpF. rewrite forallb_forall. intros H Hn. apply H, Hn. Qed.

  (* the final form *)
  Lemma bp_toInline : forall n, bp n = true -> bndI src (toInline n) = true.
  Proof.
    fix IH 1. intros [id k s e ind r ks] H. cbn [bp toInline bndI] in *.
    apply andb_true_iff in H. destruct H as [H Hk]. rewrite H. cbn [andb].
    induction ks as [|x l IHl]; [reflexivity|]. cbn [forallb map] in *. apply andb_true_iff in Hk. destruct Hk as [Hx Hl].
    rewrite (IH x Hx). apply IHl, Hl.
  Qed.
  Lemma bndI_ofInline : forall i, bndI src i = true -> bp (ofInline i) = true.
  Proof.
    fix IH 1. intros [k s e ind r ks] H. cbn [bp ofInline bndI] in *.
    apply andb_true_iff in H. destruct H as [H Hk]. rewrite H. cbn [andb].
    induction ks as [|x l IHl]; [reflexivity|]. cbn [forallb map] in *. apply andb_true_iff in Hk. destruct Hk as [Hx Hl].
    rewrite (IH x Hx). apply IHl, Hl.
  Qed.

  (* ---- the forest operations ---- *)
  Lemma removeId_bp id : forall fuel l, bpF l = true -> bpF (removeId fuel id l) = true.
  Proof.
    induction fuel as [|f IH]; intros l H; [exact H|]. cbn [removeId]. unfold bpF in *. destruct (hasId id l).
    - rewrite forallb_forall in *. intros x Hx. apply filter_In in Hx. apply H. tauto.
    - rewrite forallb_forall in *. intros x Hx. apply in_map_iff in Hx. destruct Hx as (n & <- & Hn).
      apply bp_setKids; [apply H, Hn|]. apply IH. apply (bp_parts n), H, Hn.
  Qed.

  Lemma findNode_bp id : forall fuel l n, bpF l = true -> findNode fuel id l = Some n -> bp n = true.
  Proof.
    induction fuel as [|f IH]; intros l n H E; [discriminate|]. cbn [findNode] in E. destruct l as [|x r]; [discriminate|].
    rewrite bpF_cons in H. apply andb_true_iff in H. destruct H as [Hx Hr].
    destruct (pid x =? id); [inversion E; subst; exact Hx|].
    destruct (findNode f id (pkids x)) as [y|] eqn:Ey.
    - inversion E; subst. apply (IH (pkids x)); [apply (bp_parts x Hx)|exact Ey].
    - apply (IH r); assumption.
  Qed.
  Lemma nodeOf_bp st id : bpF (rk st) = true -> bp (nodeOf st id) = true.
  Proof.
    intros H. unfold nodeOf. destruct (findNode (fsize (rk st)) id (rk st)) as [n|] eqn:E; [eapply findNode_bp; eassumption|].
    cbn [bp forallb]. rewrite bok_neg by lia. reflexivity.
  Qed.

  (* wrapping: the new node's span runs from the end of an existing node to the start of an existing node, or to the end
     of the parent *)
  Lemma wrapLevel_bp newId kind o endId es pe0 l : hasId o l = true ->
    bok (match es with Some v => v | None => pe0 end) = true -> bpF l = true ->
    bpF (wrapLevel newId kind o endId es pe0 l) = true.
  Proof.
    intros Hh He H. unfold wrapLevel. apply hasId_In in Hh.
    destruct (splitAtId o l) as [pre post] eqn:Es.
    destruct (splitAtId_spec o l pre post Es Hh) as (A & no & Epre & _ & _ & El).
    pose proof (sBefore_app endId post) as E2. destruct (splitBeforeId endId post) as [mid rest].
    subst pre post. rewrite El in H. rewrite !bpF_app in *. rewrite bpF_cons, bpF_app in H.
    apply andb_true_iff in H. destruct H as [HA H]. apply andb_true_iff in H. destruct H as [Hno H].
    apply andb_true_iff in H. destruct H as [Hm Hr].
    rewrite HA, Hr. rewrite !bpF_cons, Hno. cbn [bpF forallb andb]. rewrite andb_true_r.
    rewrite rev_app_distr. cbn [rev app]. rewrite ?andb_true_r. apply bp_mk; [apply (bp_parts no Hno)|exact He|exact Hm].
  Qed.
  Lemma wrapIn_bp newId kind o endId es : (forall v, es = Some v -> bok v = true) ->
    forall fuel pe0 l, bok pe0 = true -> bpF l = true -> bpF (wrapIn fuel newId kind o endId es pe0 l) = true.
  Proof.
    intros Hes. induction fuel as [|f IH]; intros pe0 l Hp H; [exact H|]. cbn [wrapIn].
    destruct (hasId o l) eqn:Eh.
    - apply wrapLevel_bp; [exact Eh| |exact H]. destruct es as [v|]; [apply Hes; reflexivity|exact Hp].
    - unfold bpF in *. rewrite forallb_forall in *. intros x Hx. apply in_map_iff in Hx. destruct Hx as (n & <- & Hn).
      specialize (H n Hn). destruct (bp_parts n H) as (_ & B & C). apply bp_setKids; [exact H|]. apply IH; assumption.
  Qed.

  (* updating the nodes of one identity, knowing the signatures that identity has in the forest *)
  Lemma updNode_bp id g (C : sg -> Prop) :
    (forall n, pid n = id -> C (sig n) -> bp n = true -> bp (g n) = true) ->
    forall fuel l, Forall C (occF id l) -> bpF l = true -> bpF (updNode fuel id g l) = true.
  Proof.
    intros Hg. induction fuel as [|f IH]; intros l Ho H; [exact H|]. cbn [updNode].
    unfold bpF in *. rewrite forallb_forall in *. intros x Hx. apply in_map_iff in Hx. destruct Hx as (n & <- & Hn).
    specialize (H n Hn). pose proof (Forall_flat_in C (occS id) l n Ho Hn) as Hon. rewrite occS_eq in Hon.
    destruct (Z.eqb_spec (pid n) id) as [E|E].
    - apply Hg; [exact E| |exact H]. apply Forall_app in Hon. destruct Hon as [Hh _]. inversion Hh; assumption.
    - cbn [app] in Hon. apply bp_setKids; [exact H|]. apply IH; [exact Hon|]. apply (bp_parts n H).
  Qed.
  (* updates that only put good positions / good children *)
  Lemma updNode_bp_any id g : (forall n, bp n = true -> bp (g n) = true) ->
    forall fuel l, bpF l = true -> bpF (updNode fuel id g l) = true.
  Proof.
    intros Hg fuel l H. apply (updNode_bp id g (fun _ => True)); [intros n _ _; apply Hg| |exact H].
    apply Forall_forall. intros; exact I.
  Qed.

  (* ---- the state ---- *)
  Definition BP (st : ist) : Prop := bpF (rk st) = true /\ bok (rootEnd st) = true.

  Lemma BP_same st st' : rk st' = rk st -> rootEnd st' = rootEnd st -> BP st -> BP st'.
  Proof. intros E1 E2 [A B]. split; rewrite ?E1, ?E2; assumption. Qed.
  Lemma BP_setStk st v : BP st -> BP (setStk st v). Proof. apply BP_same; reflexivity. Qed.
  Lemma BP_setIgn st v : BP st -> BP (setIgn st v). Proof. apply BP_same; reflexivity. Qed.
  Lemma BP_setUpos st v : BP st -> BP (setUpos st v). Proof. apply BP_same; reflexivity. Qed.
  Lemma BP_advanceTo st p : BP st -> BP (advanceTo st p).
  Proof. intros H. unfold advanceTo. destruct (0 <=? _); apply BP_setUpos, H. Qed.

  Lemma BP_addNode st k s e kids : BP st -> bok s = true -> bok e = true -> bpF kids = true -> BP (fst (addNode st k s e kids)).
  Proof.
    intros [A B] Hs He Hk. unfold addNode. destruct (spanLen s e =? 0); [split; assumption|]. cbn [fst]. split; [|exact B].
    cbn [bumpId setRk rk]. rewrite bpF_app, A. cbn [bpF forallb andb]. rewrite andb_true_r. apply bp_mk; assumption.
  Qed.
  Lemma BP_addText st s e : BP st -> bok s = true -> bok e = true -> BP (addText st s e).
  Proof. intros H A B. unfold addText. apply BP_addNode; [exact H|exact A|exact B|reflexivity]. Qed.
  Lemma BP_pushU st u : BP st -> bndI src u = true -> BP (setRk st (rk st ++ [ofInline u])).
  Proof.
    intros [A B] Hu. split; [|exact B]. cbn [setRk rk]. rewrite bpF_app, A. cbn [bpF forallb andb]. rewrite andb_true_r.
    apply bndI_ofInline, Hu.
  Qed.
  Lemma BP_wrap st kind o endId : BP st -> BP (fst (wrap st kind o endId)).
  Proof.
    intros [A B]. unfold wrap. cbn [fst]. split; [|exact B]. cbn [bumpId setRk rk].
    apply wrapIn_bp; [|exact B|exact A]. intros v Ev. destruct endId as [i|]; [|discriminate]. inversion Ev; subst v.
    apply (bp_parts (nodeOf st i)). apply nodeOf_bp, A.
  Qed.
  Lemma BP_removeNode st id : BP st -> BP (removeNode st id).
  Proof. intros [A B]. split; [|exact B]. unfold removeNode. cbn [setRk rk]. apply removeId_bp, A. Qed.
  Lemma BP_updN_any st id g : BP st -> (forall n, bp n = true -> bp (g n) = true) -> BP (updN st id g).
  Proof. intros [A B] Hg. split; [|exact B]. unfold updN. cbn [setRk rk]. apply updNode_bp_any; assumption. Qed.
  Lemma BP_appendKid st id k : BP st -> bp k = true -> BP (appendKid st id k).
  Proof.
    intros H Hk. unfold appendKid. apply BP_updN_any; [exact H|]. intros n Hn. apply bp_setKids; [exact Hn|].
    rewrite bpF_app. rewrite (proj2 (proj2 (bp_parts n Hn))). cbn [bpF forallb]. rewrite Hk. reflexivity.
  Qed.
End BP.
