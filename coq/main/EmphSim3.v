(* EmphSim3.v -- layer (c) of C11, part 3: one step of the abstract procedure (Emph.step false 0) on a stack given as an
   explicit decomposition, and the measure that bounds the number of steps. *)
From Coq Require Import List Arith Lia Bool.
Import ListNotations.
Require Import Emph EmphProof.

Lemma upd_mid {A} (X : list A) x Y f : upd (X ++ x :: Y) (length X) f = X ++ f x :: Y.
Proof.
  unfold upd. rewrite firstn_app, Nat.sub_diag, firstn_all. cbn [firstn]. rewrite app_nil_r.
  rewrite skipn_app, Nat.sub_diag, skipn_all. reflexivity.
Qed.
Lemma del_app3 {A} (X M Y : list A) : del (X ++ M ++ Y) (length X) (length X + length M) = X ++ Y.
Proof.
  unfold del. rewrite firstn_app, Nat.sub_diag, firstn_all. cbn [firstn]. rewrite app_nil_r. f_equal.
  rewrite app_assoc. rewrite <- app_length. rewrite skipn_app, Nat.sub_diag, skipn_all. reflexivity.
Qed.
Lemma del_1 {A} (X : list A) x Y : del (X ++ x :: Y) (length X) (S (length X)) = X ++ Y.
Proof. change (x :: Y) with ([x] ++ Y). replace (S (length X)) with (length X + length [x]) by (cbn; lia). apply del_app3. Qed.

Definition sumcur (D : list delim) : nat := fold_right (fun d a => dcur d + a) 0 D.
Lemma sumcur_app a b : sumcur (a ++ b) = sumcur a + sumcur b.
Proof. induction a as [|x a IH]; [reflexivity|]. unfold sumcur in *. cbn [app fold_right]. rewrite IH. lia. Qed.
Lemma sumcur_cons x a : sumcur (x :: a) = dcur x + sumcur a. Proof. reflexivity. Qed.
Definition mu (a : state) : nat := (length (st a) - cp a) + sumcur (st a).

Lemma step_match_gen (a : state) Da o Dm c Dd :
  st a = Da ++ o :: Dm ++ c :: Dd ->
  next_closer (st a) (cp a) (length (st a) - cp a) = Some (length Da + 1 + length Dm) ->
  find_down (st a) c 0 (length Da + 1 + length Dm - 0) = Some (length Da) ->
  1 <= dcur o -> 1 <= dcur c ->
  let strong := (2 <=? dcur o) && (2 <=? dcur c) in
  let k := if strong then 2 else 1 in
  exists a', step false 0 a = Some a' /\
    st a' = Da ++ (if dcur o - k =? 0 then [] else [dec k o]) ++ (if dcur c - k =? 0 then [] else [dec k c]) ++ Dd /\
    cp a' = length Da + (if dcur o - k =? 0 then 0 else 1) /\
    evs a' = evs a ++ [(did o, did c, strong)].
Proof.
  intros Hst Hnc Hfd Ho Hc strong k.
  assert (Ec : nth (length Da + 1 + length Dm) (st a) dflt = c).
  { rewrite Hst. replace (Da ++ o :: Dm ++ c :: Dd) with ((Da ++ o :: Dm) ++ c :: Dd) by (rewrite <- app_assoc; reflexivity).
    replace (length Da + 1 + length Dm) with (length (Da ++ o :: Dm)) by (rewrite app_length; cbn [length]; lia).
    apply nth_middle. }
  assert (Eo : nth (length Da) (st a) dflt = o) by (rewrite Hst; apply nth_middle).
  unfold step. rewrite Hnc. cbv zeta. rewrite Ec. cbv iota. rewrite Hfd. rewrite Eo. fold strong. fold k.
  assert (E1 : upd (upd (st a) (length Da) (dec k)) (length Da + 1 + length Dm) (dec k) = Da ++ dec k o :: Dm ++ dec k c :: Dd).
  { rewrite Hst, upd_mid.
    replace (Da ++ dec k o :: Dm ++ c :: Dd) with ((Da ++ dec k o :: Dm) ++ c :: Dd) by (rewrite <- app_assoc; reflexivity).
    replace (length Da + 1 + length Dm) with (length (Da ++ dec k o :: Dm)) by (rewrite app_length; cbn [length]; lia).
    rewrite upd_mid, <- app_assoc. reflexivity. }
  rewrite E1.
  assert (E2 : del (Da ++ dec k o :: Dm ++ dec k c :: Dd) (S (length Da)) (length Da + 1 + length Dm) = Da ++ dec k o :: dec k c :: Dd).
  { replace (Da ++ dec k o :: Dm ++ dec k c :: Dd) with ((Da ++ [dec k o]) ++ Dm ++ dec k c :: Dd) by (rewrite <- app_assoc; reflexivity).
    replace (S (length Da)) with (length (Da ++ [dec k o])) by (rewrite app_length; cbn [length]; lia).
    replace (length Da + 1 + length Dm) with (length (Da ++ [dec k o]) + length Dm) by (rewrite app_length; cbn [length]; lia).
    rewrite del_app3, <- app_assoc. reflexivity. }
  rewrite E2. rewrite nth_middle. cbn [dcur dec].
  destruct (Nat.eqb_spec (dcur o - k) 0) as [Z0|NZ0].
  - rewrite del_1, nth_middle. cbn [dcur dec].
    destruct (Nat.eqb_spec (dcur c - k) 0) as [Z1|NZ1].
    + rewrite del_1. eexists. split; [reflexivity|]. cbn [st cp evs app]. repeat split. lia.
    + eexists. split; [reflexivity|]. cbn [st cp evs app]. repeat split. lia.
  - replace (Da ++ dec k o :: dec k c :: Dd) with ((Da ++ [dec k o]) ++ dec k c :: Dd) by (rewrite <- app_assoc; reflexivity).
    replace (S (length Da)) with (length (Da ++ [dec k o])) by (rewrite app_length; cbn [length]; lia).
    rewrite nth_middle. cbn [dcur dec].
    destruct (Nat.eqb_spec (dcur c - k) 0) as [Z1|NZ1].
    + rewrite del_1. eexists. split; [reflexivity|]. cbn [st cp evs]. rewrite app_length. cbn [length]. rewrite <- !app_assoc. repeat split.
    + eexists. split; [reflexivity|]. cbn [st cp evs]. rewrite app_length. cbn [length]. rewrite <- !app_assoc. repeat split.
Qed.

Lemma step_nomatch_gen (a : state) Da c Dd :
  st a = Da ++ c :: Dd ->
  next_closer (st a) (cp a) (length (st a) - cp a) = Some (length Da) ->
  find_down (st a) c 0 (length Da - 0) = None ->
  exists a', step false 0 a = Some a' /\
    st a' = (if dopen c then Da ++ c :: Dd else Da ++ Dd) /\
    cp a' = (if dopen c then S (length Da) else length Da) /\
    evs a' = evs a.
Proof.
  intros Hst Hnc Hfd.
  assert (Ec : nth (length Da) (st a) dflt = c) by (rewrite Hst; apply nth_middle).
  unfold step. rewrite Hnc. cbv zeta. rewrite Ec. cbv iota. rewrite Hfd.
  destruct (dopen c).
  - eexists. split; [reflexivity|]. cbn [st cp evs]. rewrite Hst. repeat split.
  - eexists. split; [reflexivity|]. cbn [st cp evs]. rewrite Hst, del_1. repeat split.
Qed.
