From Coq Require Import List ZArith Lia Bool.
Import ListNotations.
Require Import Base Tree Rdr Link Collect Html Recog LP Rules Starts Driver L2Kind L2CC BSDef BSRdr BSTree BSOcp BSOrph BSClose BSLine1 BSLine2 BSLine3 BSLine4 BSLine5 BSLine7 BSLine8.
Require Import EolCRLFSimTree EolCRLFSimLeDefs EolCRLFSimLe EolCRLFSimStream EolCRLFSimCtDef EolCRLFSimCtClose EolCRLFSimCtLine3 EolCRLFSimCtStarts.
Open Scope Z_scope.

(* the setext heading start: the paragraph becomes a heading and is closed at the cursor (end of the underline) *)
Lemma sOKX_startSetext : startOKX startSetext.
Proof.
  intros p Hs H HL.
  assert (Same : OPX p /\ LI2X p /\ (LIX p \/ ms p)) by (split; [exact H|split; [left; exact HL|left; exact HL]]).
  destruct (sOK_startSetext p Hs (OPX_OPx _ H) (proj1 HL)) as ([T1 T2] & _ & _). revert T1 T2.
  unfold startSetext. cbv zeta.
  destruct (negb (containerKind p =? ParagraphKind)) eqn:Ek; [intros _ _; exact Same|].
  destruct (_ <=? _); [intros _ _; exact Same|]. destruct (_ =? 0); [intros _ _; exact Same|].
  destruct (containerHasParagraphContent p) eqn:PC; cbn [negb]; [|intros _ _; exact Same]. clear Same.
  apply negb_false_iff, Z.eqb_eq in Ek.
  set (level := parseSetextHeadingUnderline (bytesAfterIndent p)).
  set (g := fun b : block => set_bn (set_bkind b SetextHeadingKind) level).
  destruct H as [[HB [N0 R0]] [H1 H1e]]. pose proof HB as (A & B & C & D).
  destruct (cdepth p) as [|d] eqn:Ed.
  { exfalso. rewrite (containerKind_root p Ed) in Ek. destruct D as (D1 & _). rewrite D1 in Ek. discriminate. }
  destruct (wf_le p (S d) D ltac:(lia)) as (x & Ex). destruct (wf_le p d D ltac:(lia)) as (y & Ey).
  assert (Kx : bkind x = ParagraphKind) by (rewrite <- Ek; symmetry; apply containerKind_at; rewrite Ed; exact Ex).
  assert (Ox : bend x < 0) by (apply (C (S d) x); [lia|exact Ex]).
  assert (Ly : lastBlock y = Some x) by (rewrite getAt_S_last, Ey in Ex; exact Ex).
  set (q0 := updCont p g).
  assert (Hc : cstep q0 (if state (consumeLine q0) =? stOpening then withState (consumeLine q0) stOpenMatched else consumeLine q0))
    by (eapply cstep_trans; [apply cstep_consumeLine|apply cstep_opened]).
  assert (Nq : nd (consumeLine q0)) by (apply ms_consumeLine, st_open_nd; exact Hs).
  unfold endBlock. fold q0.
  replace ((state (consumeLine q0) =? stDescending) || (state (consumeLine q0) =? stDescendTerminated)) with false
    by (destruct Nq as [-> |[-> | ->]]; reflexivity).
  cbv zeta. set (p6 := if state (consumeLine q0) =? stOpening then withState (consumeLine q0) stOpenMatched else consumeLine q0) in *.
  destruct Hc as ((E1 & E2) & (E3 & E4 & E5) & E6).
  assert (Ecd : cdepth p6 = S d) by (unfold cdepth; rewrite E2; exact Ed).
  rewrite Ecd. intros T1 T2.
  assert (Acur : curP p6 /\ Mc p <= Mc p6).
  { specialize (E6 ltac:(apply A)). unfold curP, Mc. rewrite E3, E4. change (lineStart q0) with (lineStart p). change (line q0) with (line p).
    change (li q0) with (li p) in E6. change (line q0) with (line p) in E6. destruct A. lia. }
  destruct Acur as [A6 Hm].
  set (e := lineStart p6 + li p6) in *. change e with (Mc p6) in *.
  set (CB := fun c : block => closeBlock (bheight (root p6)) (source p6) c (Mc p6)).
  assert (Eroot : updAt d (closeF p6 (Mc p6)) (root p6) = updAt d (clG CB g) (root p)).
  { rewrite E1. change (root q0) with (updAt (cdepth p) g (root p)). rewrite Ed. change (closeF p6 (Mc p6)) with (clF CB). apply fuse. }
  assert (N6 : ~ In 91 (source p6)) by (rewrite E5; exact N0).
  assert (Oy : bend y < 0) by (apply (C d y); [lia|exact Ey]).
  assert (Hx6 : ct (Mc p6) (g x)).
  { unfold g. apply ct_set_bn, ct_set_bkind. eapply ct_mono; [exact Hm|]. eapply ct_getAt; eassumption. }
  assert (HL6 : allP (ct (Mc p6)) (CB (g x))) by (apply ct_closeBlock; assumption).
  assert (Hroot : ct (Mc p6) (updAt d (clG CB g) (root p))).
  { apply ct_updAt_open; [eapply ct_mono; eassumption| |].
    - intros j z Hj Ez. apply (C j z); [lia|exact Ez].
    - intros y' Ey' Hy'. rewrite Ey in Ey'. inversion Ey'; subst y'. unfold clG. rewrite Ly.
      apply ct_set_lastBlocks; [exact Hy'|]. rewrite (bnd_open _ _ Oy). exact HL6. }
  set (r := withCont (closeLastChildAt p6 d (Mc p6)) (Some d)) in *.
  assert (Final : OPX r /\ LIX r).
  { split; [split; [split; [exact T1|split; [exact N6|]]|split; [exact T2|]]|split].
    - unfold r. rewrite closeLastChildAt_eq. cbn [root withCont withRoot setLP]. rewrite Eroot. exact Hroot.
    - intros z Ez Oz. exfalso. change (cdepth r) with d in Ez.
      unfold r in Ez. rewrite closeLastChildAt_eq in Ez. cbn [root withCont withRoot setLP] in Ez. rewrite Eroot, getAt_S_updAt, Ey in Ez.
      unfold clG in Ez. rewrite Ly in Ez.
      pose proof (lastBlock_set_lastBlocks y (CB (g x)) z ltac:(apply closeBlock_nonnil) Ez) as Hin.
      unfold CB in Hin. destruct (bheight_S (root p6)) as (n & En). rewrite En in Hin.
      pose proof (closeBlock_one (source p6) (Mc p6) N6 n (g x) z ltac:(unfold g; destruct x; exact Ox) Hin) as Ez'.
      destruct A6. unfold Mc in Ez'. lia.
    - intros z Ez. right. change (cdepth r) with d in Ez.
      unfold r in Ez. rewrite closeLastChildAt_eq in Ez. cbn [root withCont withRoot setLP] in Ez. rewrite Eroot, getAt_updAt_same, Ey in Ez. cbn in Ez.
      inversion Ez; subst z. rewrite clG_kind. eapply wide_of_child; [eapply (cc_spine d (root p) y x); [apply D|exact Ey|exact Ex]|rewrite Kx; discriminate].
    - intros z Ez. right. change (cdepth r) with d in Ez.
      unfold r in Ez. rewrite closeLastChildAt_eq in Ez. cbn [root withCont withRoot setLP] in Ez. rewrite Eroot, getAt_updAt_same, Ey in Ez. cbn in Ez.
      inversion Ez; subst z. rewrite clG_kind. eapply wide_of_child; [eapply (cc_spine d (root p) y x); [apply D|exact Ey|exact Ex]|rewrite Kx; discriminate]. }
  destruct Final as [F1 F2]. split; [exact F1|split; [left; exact F2|left; exact F2]].
Qed.
