From Coq Require Import List ZArith Lia Bool.
Import ListNotations.
Require Import Base Tables Utf8 Tree Rdr Link Collect Html Recog Inl3a Inl3b Inl3c Inl3d Inl3e Render Safe Leaf3a Leaf3b.
Open Scope Z_scope.

(* the leaf conditions, not looking below the kinds whose children the renderer never visits *)
Fixpoint iokW (ign : bool) (src : bytes) (i : inline) : bool :=
  match i with Inl k s e _ _ ks =>
    localok src k s e && (if k =? RawHTMLKind then ign else true) &&
    (if skipKind k then true else forallb (iokW ign src) ks)
  end.
Definition bikW (ign : bool) (src : bytes) (i : inline) : bool := (ikind i =? InfoStringKind) || iokW ign src i.
Fixpoint bokW (ign : bool) (src : bytes) (b : block) : bool :=
  match b with Blk _ _ _ bk ik _ _ _ _ _ => forallb (bokW ign src) bk && forallb (bikW ign src) ik end.

(* raw-HTML-freedom, in the same shape *)
Fixpoint rok (ign : bool) (i : inline) : bool :=
  match i with Inl k _ _ _ _ ks =>
    (if k =? RawHTMLKind then ign else true) && (if skipKind k then true else forallb (rok ign) ks)
  end.
Lemma rok_true : forall i, rok true i = true.
Proof.
  fix IH 1. intros [k s e ind r ks]. cbn [rok]. destruct (k =? RawHTMLKind); cbn [andb]; destruct (skipKind k); try reflexivity;
    induction ks as [|x l IHl]; try reflexivity; cbn [forallb]; rewrite (IH x); exact IHl.
Qed.

Lemma gok_iokW ign b src : forall n, gok b src n = true -> rok ign (toInline n) = true -> iokW ign src (toInline n) = true.
Proof.
  fix IH 1. intros [id k s e ind r ks] H Hr. cbn [toInline gok rok iokW] in *.
  apply andb_true_iff in H. destruct H as [H Hk]. apply andb_true_iff in H. destruct H as [_ Hl].
  apply andb_true_iff in Hr. destruct Hr as [Hr Hrk]. rewrite Hl, Hr. cbn [andb].
  destruct (skipKind k); [reflexivity|].
  induction ks as [|x l IHl]; [reflexivity|]. cbn [map forallb] in *.
  apply andb_true_iff in Hk. destruct Hk as [Hx Hl']. apply andb_true_iff in Hrk. destruct Hrk as [Hrx Hrl].
  rewrite (IH x Hx Hrx). apply IHl; assumption.
Qed.

Section RW.
  Variable c : cfg.
  Variable refs : list (bytes * linkDef).
  Variable src : bytes.
  Hypothesis nofilter : filterOn c = false.

  Lemma altText_inertW : forall fuel i, iokW (ignoreRaw c) src i = true -> inertb (altText fuel src i) = true.
  Proof.
    induction fuel as [|f IH]; intros i Hi; [reflexivity|].
    destruct i as [k s e ind r ks]. cbn [altText ikind spanOf istart iend ikids].
    cbn [iokW] in Hi. apply andb_true_iff in Hi. destruct Hi as [Hi Hks].
    apply andb_true_iff in Hi. destruct Hi as [Hl _].
    unfold localok in Hl. apply andb_true_iff in Hl. destruct Hl as [Hcr _].
    destruct (k =? TextKind); [apply escapeHTML_inert|].
    destruct (k =? CharacterReferenceKind); [exact Hcr|].
    destruct ((k =? IndentKind) || (k =? SoftLineBreakKind) || (k =? HardLineBreakKind)); [reflexivity|].
    unfold skipKind in Hks.
    destruct ((k =? LinkDestinationKind) || (k =? LinkTitleKind) || (k =? LinkLabelKind)); [reflexivity|].
    apply inertb_flat_map. intros x Hx. apply IH. eapply forallb_In; eassumption.
  Qed.

  Theorem renderI_safeW : forall fuel i, iokW (ignoreRaw c) src i = true -> safe (renderI fuel c refs src i).
  Proof.
    induction fuel as [|f IH]; intros i Hi; [constructor|].
    destruct i as [k s e ind r ks].
    pose proof Hi as Hi0.
    cbn [iokW] in Hi. apply andb_true_iff in Hi. destruct Hi as [Hi Hks].
    apply andb_true_iff in Hi. destruct Hi as [Hl Hraw].
    unfold localok in Hl. apply andb_true_iff in Hl. destruct Hl as [Hcr Hsoft].
    cbn [renderI ikind spanOf istart iend ikids iindent].
    assert (Hkids : skipKind k = false -> safe (flat_map (renderI f c refs src) ks)).
    { intros Hs. rewrite Hs in Hks. apply safe_flat_map. intros x Hx. apply IH. eapply forallb_In; eassumption. }
    destruct ((k =? TextKind) || (k =? UnparsedKind)); [apply S_text, escapeHTML_inert|].
    destruct (k =? CharacterReferenceKind); [apply S_text; exact Hcr|].
    destruct (k =? RawHTMLKind).
    { rewrite Hraw. constructor. }
    destruct (k =? SoftLineBreakKind).
    { destruct (softBreak c =? 2); [apply br_safe; assumption|]. destruct (softBreak c =? 1); [apply S_text; reflexivity|].
      destruct (0 <? e - s); [apply S_text; exact Hsoft | apply S_text; reflexivity]. }
    destruct (k =? HardLineBreakKind); [apply br_safe; assumption|].
    destruct (Z.eqb_spec k EmphasisKind) as [->|_]; [apply elem0_safe; [assumption|reflexivity|apply Hkids; reflexivity]|].
    destruct (Z.eqb_spec k StrongKind) as [->|_]; [apply elem0_safe; [assumption|reflexivity|apply Hkids; reflexivity]|].
    destruct (Z.eqb_spec k CodeSpanKind) as [->|_]; [apply elem0_safe; [assumption|reflexivity|apply Hkids; reflexivity]|].
    destruct (Z.eqb_spec k LinkKind) as [->|_].
    { set (d := defOf refs src (Inl LinkKind s e ind r ks)).
      replace (openTagAttr c [97] ++ attr s_href (escapeString (normalizeURI (ld_dest d))) ++
               (if ld_has d then attr s_title (escapeString (ld_title d)) else []) ++ [62] ++
               flat_map (renderI f c refs src) ks ++ closeTag c [97])
        with (openTagAttr c [97] ++ (attr s_href (escapeString (normalizeURI (ld_dest d))) ++
               (if ld_has d then attr s_title (escapeString (ld_title d)) else [])) ++ [62] ++
               flat_map (renderI f c refs src) ks ++ closeTag c [97]) by (rewrite <- !app_assoc; reflexivity).
      apply elem_safe; [assumption|reflexivity|apply linkAttrs_ok; reflexivity|apply Hkids; reflexivity]. }
    destruct (k =? ImageKind).
    { set (d := defOf refs src (Inl k s e ind r ks)).
      set (alt := altText (isize (Inl k s e ind r ks)) src (Inl k s e ind r ks)).
      replace (openTagAttr c [105;109;103] ++ attr s_src (escapeString (normalizeURI (ld_dest d))) ++
               (if ld_has d then attr s_title (escapeString (ld_title d)) else []) ++ attr s_alt alt ++ [62])
        with (openTagAttr c [105;109;103] ++ (attr s_src (escapeString (normalizeURI (ld_dest d))) ++
               (if ld_has d then attr s_title (escapeString (ld_title d)) else []) ++ attr s_alt alt) ++ [62])
        by (rewrite <- !app_assoc; reflexivity).
      apply void_safe; [assumption|reflexivity|].
      apply AO_cons; [reflexivity|apply escapeString_inert|].
      assert (Halt : attrs_ok (attr s_alt alt)) by (apply attrs1; [reflexivity|apply altText_inertW; exact Hi0]).
      destruct (ld_has d); [|exact Halt].
      apply AO_cons; [reflexivity|apply escapeString_inert|exact Halt]. }
    destruct (k =? AutolinkKind).
    { set (dest := match ks with t :: _ => spanOf src t | [] => [] end).
      set (v := (if isEmailAddress dest then [109;97;105;108;116;111;58] else []) ++ escapeString (normalizeURI dest)).
      replace (openTagAttr c [97] ++ [32] ++ s_href ++ [61; 34] ++
               (if isEmailAddress dest then [109;97;105;108;116;111;58] else []) ++ escapeString (normalizeURI dest) ++
               [34; 62] ++ escapeString dest ++ closeTag c [97])
        with (openTagAttr c [97] ++ attr s_href v ++ [62] ++ escapeString dest ++ closeTag c [97])
        by (unfold attr, v; rewrite <- !app_assoc; reflexivity).
      apply elem_safe; [assumption|reflexivity| |apply S_text, escapeString_inert].
      apply attrs1; [reflexivity|]. unfold v. rewrite inertb_app, escapeString_inert.
      destruct (isEmailAddress dest); reflexivity. }
    destruct (k =? IndentKind); [apply S_text, repeat_space_inert|].
    destruct (Z.eqb_spec k HTMLTagKind) as [->|_]; [apply Hkids; reflexivity|constructor].
  Qed.

  Lemma renderI_bikW fuel i : bikW (ignoreRaw c) src i = true -> safe (renderI fuel c refs src i).
  Proof.
    unfold bikW. intros H. destruct (Z.eqb_spec (ikind i) InfoStringKind) as [E|_]; [|apply renderI_safeW; exact H].
    destruct fuel as [|f]; [constructor|]. destruct i as [k s e ind r ks]. cbn [ikind] in E. subst k.
    cbn [renderI ikind]. cbn. constructor.
  Qed.
End RW.

Section RBW.
  Variable c : cfg.
  Variable refs : list (bytes * linkDef).
  Variable src : bytes.
  Hypothesis nofilter : filterOn c = false.

  Theorem renderB_safeW : forall fuel pt b, bokW (ignoreRaw c) src b = true -> safe (renderB fuel c refs src pt b).
  Proof.
    induction fuel as [|f IH]; intros pt b Hb; [constructor|].
    destruct b as [k s e bk ik ind n ch loose lb].
    cbn [bokW] in Hb. apply andb_true_iff in Hb. destruct Hb as [Hbk Hik].
    cbn [renderB bkind bkids bik bn].
    set (kidsB := flat_map (renderB f c refs src (isTightList (Blk k s e bk ik ind n ch loose lb))) bk).
    set (kidsI := flat_map (fun i => renderI (isize i) c refs src i) ik).
    assert (HkB : safe kidsB).
    { apply safe_flat_map. intros x Hx. apply IH. eapply forallb_In; eassumption. }
    assert (HkI : safe kidsI).
    { apply safe_flat_map. intros x Hx. apply renderI_bikW; [assumption|]. eapply forallb_In; eassumption. }
    assert (Hkids : safe (match bk with [] => kidsI | _ :: _ => kidsB end)) by (destruct bk; assumption).
    set (kids := match bk with [] => kidsI | _ :: _ => kidsB end) in *.
    destruct (k =? ParagraphKind).
    { destruct pt; [assumption|]. apply elem0_safe; [assumption|reflexivity|assumption]. }
    destruct (k =? ThematicBreakKind).
    { unfold openTag. replace (openTagAttr c [104;114] ++ [62]) with (openTagAttr c [104;114] ++ [] ++ [62]) by reflexivity.
      apply void_safe; [assumption|reflexivity|constructor]. }
    destruct (isHeading k); [apply elem0_safe; [assumption|apply hTag_vocab|assumption]|].
    destruct (isCode k).
    { set (cls := match _ with Some i0 => _ | None => [] end).
      replace (openTag c [112;114;101] ++ openTagAttr c [99;111;100;101] ++ cls ++ [62] ++ kids ++
               closeTag c [99;111;100;101] ++ closeTag c [112;114;101])
        with (openTag c [112;114;101] ++ (openTagAttr c [99;111;100;101] ++ cls ++ [62] ++ kids ++ closeTag c [99;111;100;101]) ++
              closeTag c [112;114;101]) by (rewrite <- !app_assoc; reflexivity).
      apply elem0_safe; [assumption|reflexivity|].
      apply elem_safe; [assumption|reflexivity| |assumption].
      unfold cls. destruct (if k =? FencedCodeBlockKind then _ else None) as [i0|]; [|constructor].
      set (w := firstField _ _ _). destruct (0 <? len w); [|constructor].
      change ([32;99;108;97;115;115;61;34;108;97;110;103;117;97;103;101;45] ++ escapeString w ++ [34])
        with (attr [99;108;97;115;115] ([108;97;110;103;117;97;103;101;45] ++ escapeString w)).
      apply attrs1; [reflexivity|]. rewrite inertb_app, escapeString_inert. reflexivity. }
    destruct (k =? BlockQuoteKind); [apply elem0_safe; [assumption|reflexivity|assumption]|].
    destruct (k =? ListKind).
    { destruct (isOrdered _); [|apply elem0_safe; [assumption|reflexivity|assumption]].
      set (num := match bk with it :: _ => listItemNumber src it | [] => -1 end).
      set (A := if (0 <=? num) && negb (num =? 1) then [32;115;116;97;114;116;61;34] ++ decimal 12 num ++ [34] else []).
      apply elem_safe; [assumption|reflexivity| |assumption].
      unfold A. destruct (Z.leb_spec 0 num); cbn [andb]; [|constructor].
      destruct (negb (num =? 1)); [|constructor].
      change ([32;115;116;97;114;116;61;34] ++ decimal 12 num ++ [34]) with (attr [115;116;97;114;116] (decimal 12 num)).
      apply attrs1; [reflexivity|apply decimal_inert; assumption]. }
    destruct (k =? ListItemKind); [apply elem0_safe; [assumption|reflexivity|assumption]|].
    destruct (k =? HTMLBlockKind); [destruct (ignoreRaw c); [constructor|assumption]|constructor].
  Qed.

End RBW.

Theorem C07_render_safeW c refs src fuel b :
  filterOn c = false -> bokW (ignoreRaw c) src b = true -> safe (renderB fuel c refs src false b).
Proof. intros. apply renderB_safeW; assumption. Qed.
Print Assumptions C07_render_safeW.
