(* EmphSim2.v -- layer (c) of C11, part 2: what one match of processEmphasis does to the node forest and to the stack when the
   opener's and the closer's text nodes are at the top level of a forest with distinct identities. *)
From Coq Require Import List ZArith Lia Bool.
Import ListNotations.
Require Import Base Tree Inl3a Inl3d PE PEProof GI0 EmphTree EmphSpec EmphTok EmphSim1.
Open Scope Z_scope.

Lemma spanLen_le s e : 0 <= s -> s <= e -> spanLen s e = e - s.
Proof.
  intros H0 H1. unfold spanLen. destruct (Z.leb_spec 0 s); [|lia]. destruct (Z.leb_spec 0 e); [|lia].
  destruct (Z.leb_spec s e); [|lia]. reflexivity.
Qed.
Lemma plen_textPN id s e : 0 <= s -> s <= e -> plen (textPN id s e) = e - s.
Proof. intros. unfold plen, textPN. cbn [ps pe]. apply spanLen_le; assumption. Qed.

Lemma allIds_text id s e l : allIds (textPN id s e :: l) = id :: allIds l.
Proof. rewrite allIds_cons. reflexivity. Qed.

Lemma not_in_app {A} (x : A) a b : ~ In x (a ++ b) -> ~ In x a /\ ~ In x b.
Proof. intros H. split; intros Hi; apply H, in_or_app; [left|right]; exact Hi. Qed.

Lemma delStack_1 {A} (Sa : list A) x Sd : delStack (Sa ++ x :: Sd) (len Sa) (len Sa + 1) = Sa ++ Sd.
Proof. change (x :: Sd) with ([x] ++ Sd). change 1 with (len [x]). apply delStack_app3. Qed.

Lemma pe_match_gen st (Sa : list delim) So Sm Sc Sd A M D ido so eo idc sc ec :
  stk st = Sa ++ So :: Sm ++ Sc :: Sd ->
  rk st = A ++ textPN ido so eo :: M ++ textPN idc sc ec :: D ->
  d_node So = ido -> d_node Sc = idc ->
  NoDup (allIds (rk st)) -> ~ In (nid st) (allIds (rk st)) ->
  0 <= so < eo -> 0 <= sc < ec ->
  let no := eo - so in let nc := ec - sc in
  let strong := (2 <=? no) && (2 <=? nc) in
  let k := if strong then 2 else 1 in
  let E := PN (nid st) (if strong then StrongKind else EmphasisKind) (eo - k) (sc + k) 0 [] M in
  exists st', pe_match st (len Sa) (len Sa + 1 + len Sm) = (st', len Sa + (if no - k =? 0 then 0 else 1)) /\
    rk st' = A ++ (if no - k =? 0 then [] else [textPN ido so (eo - k)]) ++ E :: (if nc - k =? 0 then [] else [textPN idc (sc + k) ec]) ++ D /\
    stk st' = Sa ++ (if no - k =? 0 then [] else [So]) ++ (if nc - k =? 0 then [] else [Sc]) ++ Sd /\
    nid st' = nid st + 1 /\ isrc st' = isrc st.
Proof.
  intros Hstk Hrk Hdo Hdc Hnd Hfresh Ho Hc no nc strong k E.
  set (O := textPN ido so eo) in *. set (C := textPN idc sc ec) in *.
  (* identities *)
  assert (Hall : allIds (rk st) = allIds A ++ ido :: allIds M ++ idc :: allIds D).
  { rewrite Hrk, allIds_app. unfold O. rewrite allIds_text, allIds_app. unfold C. rewrite allIds_text. reflexivity. }
  rewrite Hall in Hnd, Hfresh.
  destruct (NoDup_mid_notin _ _ _ Hnd) as [HoA HoR]. destruct (not_in_app _ _ _ HoR) as [HoM HoR2].
  assert (Hoc : ido <> idc) by (intros E'; apply HoR2; left; symmetry; exact E').
  assert (HoD : ~ In ido (allIds D)) by (intros Hi; apply HoR2; right; exact Hi).
  pose proof (NoDup_app_r _ _ Hnd) as Hnd2. apply NoDup_cons_iff in Hnd2. destruct Hnd2 as [_ Hnd3].
  destruct (NoDup_mid_notin _ _ _ Hnd3) as [HcM HcD].
  assert (HcA : ~ In idc (allIds A)).
  { intros Hi. apply (NoDup_app_disj _ _ idc Hnd Hi). right. apply in_or_app. right. left. reflexivity. }
  destruct (not_in_app _ _ _ Hfresh) as [HfA HfR]. 
  assert (Hfo : nid st <> ido) by (intros E'; apply HfR; left; symmetry; exact E').
  assert (HfR2 : ~ In (nid st) (allIds M ++ idc :: allIds D)) by (intros Hi; apply HfR; right; exact Hi).
  destruct (not_in_app _ _ _ HfR2) as [HfM HfR3].
  assert (Hfc : nid st <> idc) by (intros E'; apply HfR3; left; symmetry; exact E').
  assert (HfD : ~ In (nid st) (allIds D)) by (intros Hi; apply HfR3; right; exact Hi).
  assert (ids_not : forall x l, ~ In x (allIds l) -> ~ In x (ids l)) by (intros x l H Hi; apply H, ids_sub_allIds, Hi).
  (* the two stack entries and their nodes *)
  assert (ESo : nthD (stk st) (len Sa) = So) by (rewrite Hstk; apply nthD_app_len).
  assert (ESc : nthD (stk st) (len Sa + 1 + len Sm) = Sc).
  { rewrite Hstk. replace (Sa ++ So :: Sm ++ Sc :: Sd) with ((Sa ++ So :: Sm) ++ Sc :: Sd) by (rewrite <- app_assoc; reflexivity).
    replace (len Sa + 1 + len Sm) with (len (Sa ++ So :: Sm)) by (rewrite len_app; unfold len; cbn [length]; lia).
    apply nthD_app_len. }
  assert (ENo : nodeOf st ido = O) by (apply (nodeOf_at st A O _ Hrk); exact HoA).
  assert (ENc : nodeOf st idc = C).
  { apply (nodeOf_at st (A ++ O :: M) C D).
    - rewrite Hrk, <- app_assoc. reflexivity.
    - rewrite allIds_app. unfold O. rewrite allIds_text. intros Hi. apply in_app_or in Hi.
      destruct Hi as [Hi|[Hi|Hi]]; [exact (HcA Hi)|exact (Hoc Hi)|exact (HcM Hi)]. }
  assert (EPo : plen O = no) by (apply plen_textPN; lia).
  assert (EPc : plen C = nc) by (apply plen_textPN; lia).
  assert (Hk : 1 <= k <= no /\ k <= nc).
  { unfold k, strong. destruct (Z.leb_spec 2 no), (Z.leb_spec 2 nc); cbn [andb]; unfold no, nc in *; lia. }
  unfold pe_match. cbv zeta. rewrite ESo, ESc, Hdo, Hdc, ENo, ENc, EPo, EPc. fold strong. fold k.
  set (O' := textPN ido so (eo - k)). set (C' := textPN idc (sc + k) ec).
  set (st1 := updN st ido (fun n => setSpan n (ps n) (pe n - k))).
  assert (Hrk1 : rk st1 = A ++ O' :: M ++ C :: D).
  { refine (updN_at st (fun n => setSpan n (ps n) (pe n - k)) A O (M ++ C :: D) Hrk HoA _). rewrite allIds_app. unfold C. rewrite allIds_text. exact HoR. }
  set (st2 := updN st1 idc (fun n => setSpan n (ps n + k) (pe n))).
  assert (Hrk2 : rk st2 = A ++ O' :: M ++ C' :: D).
  { replace (A ++ O' :: M ++ C' :: D) with ((A ++ O' :: M) ++ C' :: D) by (rewrite <- app_assoc; reflexivity).
    refine (updN_at st1 (fun n => setSpan n (ps n + k) (pe n)) (A ++ O' :: M) C D _ _ _).
    - rewrite Hrk1, <- app_assoc. reflexivity.
    - rewrite allIds_app. unfold O'. rewrite allIds_text. intros Hi. apply in_app_or in Hi.
      destruct Hi as [Hi|[Hi|Hi]]; [exact (HcA Hi)|exact (Hoc Hi)|exact (HcM Hi)].
    - exact HcD. }
  destruct (wrap st2 (if strong then StrongKind else EmphasisKind) ido (Some idc)) as [st3 wid] eqn:Ew.
  assert (E3 : st3 = fst (wrap st2 (if strong then StrongKind else EmphasisKind) ido (Some idc))) by (rewrite Ew; reflexivity).
  assert (Hrk3 : rk st3 = A ++ O' :: E :: C' :: D).
  { rewrite E3. apply (wrap_at st2 _ A O' M C' D Hrk2).
    - apply ids_not. exact HoA.
    - apply ids_not. exact HcM.
    - exact HcA.
    - unfold O'. cbn. intros [Hi|[]]. exact (Hoc Hi).
    - exact HcM. }
  assert (Hstk3 : stk st3 = stk st) by (rewrite E3; reflexivity).
  assert (Hnid3 : nid st3 = nid st + 1) by (rewrite E3; reflexivity).
  assert (Hsrc3 : isrc st3 = isrc st) by (rewrite E3; reflexivity).
  rewrite Hstk3.
  assert (Hdel : delStack (stk st) (len Sa + 1) (len Sa + 1 + len Sm) = Sa ++ So :: Sc :: Sd).
  { rewrite Hstk. replace (Sa ++ So :: Sm ++ Sc :: Sd) with ((Sa ++ [So]) ++ Sm ++ Sc :: Sd) by (rewrite <- app_assoc; reflexivity).
    replace (len Sa + 1) with (len (Sa ++ [So])) by (rewrite len_app; reflexivity).
    rewrite delStack_app3, <- app_assoc. reflexivity. }
  rewrite Hdel. set (st4 := setStk st3 (Sa ++ So :: Sc :: Sd)).
  assert (ENo4 : nodeOf st4 ido = O') by (apply (nodeOf_at st4 A O' _ Hrk3); exact HoA).
  assert (HPo : plen O' = no - k) by (unfold O'; rewrite plen_textPN by lia; unfold no; lia).
  rewrite ENo4, HPo.
  assert (HPc : plen C' = nc - k) by (unfold C'; rewrite plen_textPN by lia; unfold nc; lia).
  destruct (Z.eqb_spec (no - k) 0) as [Eo|Eo].
  - (* the opener's node is used up *)
    set (st5 := setStk (removeNode st4 ido) (delStack (stk st4) (len Sa) (len Sa + 1))).
    assert (Hrk5 : rk st5 = A ++ E :: C' :: D).
    { apply (removeNode_at st4 A O' _ Hrk3); [apply ids_not; exact HoA|].
      unfold E, C'. cbn [ids map pid textPN]. intros [Hi|[Hi|Hi]]; [exact (Hfo Hi)|exact (Hoc (eq_sym Hi))|].
      apply (ids_not _ _ HoD). exact Hi. }
    assert (Hstk5 : stk st5 = Sa ++ Sc :: Sd) by (unfold st5, st4; cbn [stk setStk]; apply delStack_1).
    replace (len Sa + 1 - 1) with (len Sa) by lia.
    assert (ENc5 : nodeOf st5 idc = C').
    { apply (nodeOf_at st5 (A ++ [E]) C' D).
      - rewrite Hrk5, <- app_assoc. reflexivity.
      - rewrite allIds_app. unfold E. rewrite allIds_cons. cbn [pid pkids allIds flat_map]. rewrite app_nil_r. intros Hi. apply in_app_or in Hi.
        destruct Hi as [Hi|[Hi|Hi]]; [exact (HcA Hi)|exact (Hfc Hi)|exact (HcM Hi)]. }
    rewrite ENc5, HPc.
    destruct (Z.eqb_spec (nc - k) 0) as [Ec|Ec].
    + eexists. split; [rewrite Z.add_0_r; reflexivity|]. cbn [rk stk nid isrc setStk]. rewrite Hstk5. split; [|split; [|split]].
      * replace (A ++ [] ++ E :: [] ++ D) with ((A ++ [E]) ++ D) by (rewrite <- app_assoc; reflexivity).
        apply (removeNode_at st5 (A ++ [E]) C' D).
        -- rewrite Hrk5, <- app_assoc. reflexivity.
        -- rewrite ids_app. unfold E. cbn [ids map pid]. intros Hi. apply in_app_or in Hi.
           destruct Hi as [Hi|[Hi|[]]]; [exact (ids_not _ _ HcA Hi)|exact (Hfc Hi)].
        -- apply ids_not. exact HcD.
      * cbn [app]. apply delStack_1.
      * exact Hnid3.
      * exact Hsrc3.
    + eexists. split; [rewrite Z.add_0_r; reflexivity|]. split; [exact Hrk5|]. split; [exact Hstk5|]. split; [exact Hnid3|exact Hsrc3].
  - (* the opener's node survives *)
    assert (ENc4 : nodeOf st4 idc = C').
    { apply (nodeOf_at st4 (A ++ [O'; E]) C' D).
      - unfold st4. cbn [rk setStk]. rewrite Hrk3, <- app_assoc. reflexivity.
      - rewrite allIds_app. unfold O'. rewrite allIds_text. unfold E. rewrite allIds_cons. cbn [pid pkids allIds flat_map]. rewrite app_nil_r.
        intros Hi. apply in_app_or in Hi.
        destruct Hi as [Hi|[Hi|[Hi|Hi]]]; [exact (HcA Hi)|exact (Hoc Hi)|exact (Hfc Hi)|exact (HcM Hi)]. }
    rewrite ENc4, HPc.
    destruct (Z.eqb_spec (nc - k) 0) as [Ec|Ec].
    + eexists. split; [reflexivity|]. cbn [rk stk nid isrc setStk]. unfold st4 at 2. cbn [stk setStk]. split; [|split; [|split]].
      * replace (A ++ [O'] ++ E :: [] ++ D) with ((A ++ [O'; E]) ++ D) by (rewrite <- app_assoc; reflexivity).
        apply (removeNode_at st4 (A ++ [O'; E]) C' D).
        -- unfold st4. cbn [rk setStk]. rewrite Hrk3, <- app_assoc. reflexivity.
        -- rewrite ids_app. unfold O', E. cbn [ids map pid textPN]. intros Hi. apply in_app_or in Hi.
           destruct Hi as [Hi|[Hi|[Hi|[]]]]; [exact (ids_not _ _ HcA Hi)|exact (Hoc Hi)|exact (Hfc Hi)].
        -- apply ids_not. exact HcD.
      * cbn [app]. replace (Sa ++ So :: Sc :: Sd) with ((Sa ++ [So]) ++ Sc :: Sd) by (rewrite <- app_assoc; reflexivity).
        replace (len Sa + 1) with (len (Sa ++ [So])) by (rewrite len_app; reflexivity).
        rewrite delStack_1, <- app_assoc. reflexivity.
      * exact Hnid3.
      * exact Hsrc3.
    + eexists. split; [reflexivity|]. unfold st4. cbn [rk stk nid isrc setStk]. split; [exact Hrk3|]. split; [reflexivity|]. split; [exact Hnid3|exact Hsrc3].
Qed.
