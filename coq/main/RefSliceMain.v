(* RefSliceMain.v -- property C12 end to end on a slice (T44):

     D lab use = "[" lab "]: /u" LF LF "[" use "]" LF

   a shortcut reference link "[use]" after the definition "[lab]: /u" resolves EXACTLY WHEN the normalised labels agree,
   where the normalisation is the declarative CommonMark function LabelNorm.norm_label (case fold . trim . collapse):

     Theorem C12_refslice : okLab lab = true -> okUse use = true ->
       parseFull (D lab use) = ([rootDef lab; rootUse lab use (usePara lab use)], 0) /\
       renderDoc c0 (D lab use) = [10;10] ++ (if norm_label lab =? norm_label use then linkHtml use else textHtml use)

   with  usePara = the paragraph whose inline forest is  [Link [0,len use+2) ref:=norm_label use [Text [1,len use+1)]]
   when the labels agree and  [Text "[" ; Text use ; Text "]"]  otherwise.   Both directions are also stated as separate
   corollaries (C12_refslice_resolves / C12_refslice_unresolved) with Prop-level (dis)equality of the normalised labels. *)
From Coq Require Import List ZArith Lia Bool.
Import ListNotations.
Require Import Base Tables Utf8 Tree Rdr Link Collect Html Recog LP Rules Starts Driver Inl3a Inl3b Inl3c Inl3d Inl3e Render
               SliceBase SlicePara SliceText LabelNorm RefSliceRdr RefSliceFold RefSliceBlk RefSliceInl.
Open Scope Z_scope.

Definition labelsAgree (lab use : bytes) : bool := bytes_eqb (norm_label lab) (norm_label use).
Lemma labelsAgree_iff lab use : labelsAgree lab use = true <-> norm_label lab = norm_label use.
Proof. apply bytes_eqb_iff. Qed.

Definition usePara (lab use : bytes) : block :=
  Blk ParagraphKind 0 (len use + 3) []
      (if labelsAgree lab use then linkForest use else textForest use) 0 0 0 false false.

(* "<p><a href=\"/u\">" use "</a></p>"   and   "<p>[" use "]</p>" *)
Definition linkHtml (use : bytes) : bytes :=
  [60;112;62] ++ [60;97;32;104;114;101;102;61;34;47;117;34;62] ++ use ++ [60;47;97;62] ++ [60;47;112;62].
Definition textHtml (use : bytes) : bytes := [60;112;62] ++ [91] ++ use ++ [93] ++ [60;47;112;62].

Lemma escapeHTML_lab : forall t, Forall (fun x => labB x = true) t -> escapeHTML t = t.
Proof.
  induction 1 as [|c t Hc Ht IH]; [reflexivity|]. unfold escapeHTML in *. cbn [flat_map]. rewrite IH.
  apply labB_range in Hc.
  repeat match goal with |- context [c =? ?k] => destruct (Z.eqb_spec c k); [exfalso; lia|] end. reflexivity.
Qed.

Lemma okUse_nonempty use : okUse use = true -> (len (norm_label use) =? 0) = false.
Proof.
  intros H. destruct (okUse_inv use H) as (c & r & E & Hc & HF). rewrite E.
  apply norm_label_nonempty; [apply Forall_labB_ascii, HF|apply plainCh_nws, Hc].
Qed.

Section Main.
  Variables (lab use : bytes).
  Hypothesis Hlab : okLab lab = true.
  Hypothesis Huse : okUse use = true.
  Let n := len lab.
  Let m := len use.

  Lemma bytes_eqb_sym a b : bytes_eqb a b = bytes_eqb b a.
  Proof.
    destruct (bytes_eqb a b) eqn:E1; destruct (bytes_eqb b a) eqn:E2; try reflexivity.
    - apply bytes_eqb_eq in E1. subst. rewrite bytes_eqb_refl in E2. discriminate.
    - apply bytes_eqb_eq in E2. subst. rewrite bytes_eqb_refl in E1. discriminate.
  Qed.

  Theorem parseFull_refslice : parseFull (D lab use) = ([rootDef lab; rootUse lab use (usePara lab use)], 0).
  Proof.
    destruct (okLab_inv lab Hlab) as (Hlab1 & _ & _).
    unfold parseFull. rewrite (parseBlocks_refslice lab use Hlab Huse).
    cbn [fold_left map rootDef rootUse rb_blk rb_src rb_line rb_start rb_end].
    change (bheight (refDefOf lab true)) with 1%nat.
    change (bheight (paraClosed 0 (len (L2 use)) (len (L2 use)))) with 1%nat.
    assert (Eref : extractB 1 (refDefOf lab true) [] = [norm_label lab]).
    { cbn [extractB refDefOf bkind bik iref]. change (LinkReferenceDefinitionKind =? LinkReferenceDefinitionKind) with true. cbv iota.
      rewrite (okUse_nonempty lab Hlab1). reflexivity. }
    rewrite Eref.
    change (extractB 1 (paraClosed 0 (len (L2 use)) (len (L2 use))) [norm_label lab]) with [norm_label lab].
    assert (Erw1 : rewriteB 1 (L1 lab) [norm_label lab] (refDefOf lab true) = refDefOf lab true) by reflexivity.
    rewrite Erw1.
    assert (Erw2 : rewriteB 1 (L2 use) [norm_label lab] (paraClosed 0 (len (L2 use)) (len (L2 use))) = usePara lab use).
    { cbn [rewriteB]. change ((0 <? len (bik (paraClosed 0 (len (L2 use)) (len (L2 use))))) && hasUnparsed (paraClosed 0 (len (L2 use)) (len (L2 use)))) with true.
      cbv iota. rewrite (parseInlines_use use (norm_label lab) Huse). unfold usePara, labelsAgree.
      rewrite (bytes_eqb_sym (norm_label use) (norm_label lab)). rewrite len_L2. reflexivity. }
    rewrite Erw2. reflexivity.
  Qed.

  Lemma dest_text : sub (L1 lab) (n + 4) (n + 6) = [47; 117].
  Proof.
    assert (E : L1 lab = (91 :: lab ++ [93; 58; 32]) ++ [47; 117] ++ [10]).
    { unfold L1, defTail. cbn [app]. rewrite <- app_assoc. reflexivity. }
    rewrite E. apply sl_sub_app'; rewrite sl_len_cons, sl_len_app; change (len [93; 58; 32]) with 3; [fold n; lia|].
    change (len [47; 117]) with 2. fold n. lia.
  Qed.

  Theorem renderDoc_refslice c : filterOn c = false ->
    renderDoc c (D lab use) = [10; 10] ++ (if labelsAgree lab use then linkHtml use else textHtml use).
  Proof.
    intros Hcfg. destruct (okLab_inv lab Hlab) as (Hlab1 & _ & _).
    destruct (okUse_inv use Huse) as (uc & ut & Eu & Huc & HFu). rewrite <- Eu in HFu.
    unfold renderDoc. rewrite parseFull_refslice.
    cbn [fold_left map rootDef rootUse rb_blk rb_src].
    change (bheight (refDefOf lab true)) with 1%nat.
    assert (Hh2 : bheight (usePara lab use) = 1%nat) by reflexivity. rewrite Hh2.
    set (dfn := {| ld_dest := [47; 117]; ld_title := []; ld_has := false |}).
    assert (Edefs : extractDefs 1 (L1 lab) (refDefOf lab true) [] = [(norm_label lab, dfn)]).
    { cbn [extractDefs refDefOf bkind bik iref]. change (LinkReferenceDefinitionKind =? LinkReferenceDefinitionKind) with true. cbv iota.
      rewrite (okUse_nonempty lab Hlab1). cbn [existsb orb app].
      unfold textOfChildren. cbn [ikids flat_map mkI ikind]. change (TextKind =? TextKind) with true. cbv iota.
      unfold spanOf. cbn [istart iend mkI]. fold n. rewrite dest_text. reflexivity. }
    rewrite Edefs.
    assert (Edefs2 : extractDefs 1 (L2 use) (usePara lab use) [(norm_label lab, dfn)] = [(norm_label lab, dfn)]) by reflexivity.
    rewrite Edefs2.
    assert (Er1 : renderB 1 c [(norm_label lab, dfn)] (L1 lab) false (refDefOf lab true) = []) by reflexivity.
    cbn [joinBlocks]. rewrite Er1. cbn [app]. f_equal. f_equal.
    (* the paragraph *)
    assert (Hsubuse : sub (L2 use) 1 (m + 1) = use).
    { replace (m + 1) with (1 + len use) by (unfold m; lia). apply (from_sub (L2 use) 1 use [93; 10] ltac:(lia)). reflexivity. }
    assert (Hsub0 : sub (L2 use) 0 1 = [91]) by reflexivity.
    assert (Hsub2 : sub (L2 use) (m + 1) (m + 2) = [93]).
    { assert (E : L2 use = (91 :: use) ++ [93] ++ [10]) by reflexivity.
      rewrite E. apply sl_sub_app'; rewrite sl_len_cons; fold m; [lia|]. change (len [93]) with 1. lia. }
    cbn [renderB]. change (bkind (usePara lab use)) with ParagraphKind. change (bkids (usePara lab use)) with (@nil block).
    change (ParagraphKind =? ParagraphKind) with true. cbv iota.
    rewrite (openTag_nf c _ Hcfg), (closeTag_nf c _ Hcfg).
    unfold usePara. cbn [bik]. unfold labelsAgree. destruct (bytes_eqb (norm_label lab) (norm_label use)) eqn:Eagree.
    - (* the link *)
      unfold linkForest, linkHtml, mkI. cbn [flat_map isize fold_right mkI Nat.add app].
      cbn [renderI ikind ikids flat_map].
      change ((LinkKind =? TextKind) || (LinkKind =? UnparsedKind)) with false.
      change (LinkKind =? CharacterReferenceKind) with false. change (LinkKind =? RawHTMLKind) with false.
      change (LinkKind =? SoftLineBreakKind) with false. change (LinkKind =? HardLineBreakKind) with false.
      change (LinkKind =? EmphasisKind) with false. change (LinkKind =? StrongKind) with false.
      change (LinkKind =? CodeSpanKind) with false. change (LinkKind =? LinkKind) with true. cbv iota.
      change ((TextKind =? TextKind) || (TextKind =? UnparsedKind)) with true. cbv iota.
      assert (Edef : defOf [(norm_label lab, dfn)] (L2 use)
                       (Inl LinkKind 0 (len use + 2) 0 (norm_label use) [Inl TextKind 1 (len use + 1) 0 [] []]) = dfn).
      { unfold defOf, linkReference. cbn [ikind ikids rev app iref].
        change ((LinkKind =? LinkKind) || (LinkKind =? ImageKind)) with true. cbv iota.
        change (TextKind =? LinkLabelKind) with false. cbv iota.
        rewrite (okUse_nonempty use Huse). cbn [negb lookupDef]. rewrite Eagree. reflexivity. }
      rewrite Edef. cbn [ld_dest ld_title ld_has dfn].
      rewrite (openTagAttr_nf c _ Hcfg), (closeTag_nf c _ Hcfg).
      unfold spanOf. cbn [istart iend]. fold m. rewrite Hsubuse, (escapeHTML_lab use HFu).
      assert (Ehref : attr s_href (escapeString (normalizeURI [47; 117])) = [32;104;114;101;102;61;34;47;117;34]) by (vm_compute; reflexivity).
      rewrite Ehref. cbn [app]. rewrite app_nil_r. rewrite <- !app_assoc. reflexivity.
    - (* plain text *)
      unfold textForest, textHtml, mkI. cbn [flat_map isize fold_right mkI Nat.add app].
      cbn [renderI ikind]. change ((TextKind =? TextKind) || (TextKind =? UnparsedKind)) with true. cbv iota.
      unfold spanOf. cbn [istart iend]. fold m. rewrite Hsub0, Hsubuse, Hsub2, (escapeHTML_lab use HFu).
      cbn [app]. rewrite app_nil_r. rewrite <- !app_assoc. reflexivity.
  Qed.
End Main.
Print Assumptions parseFull_refslice.
Print Assumptions renderDoc_refslice.

(* ---- the main theorem ---- *)
Theorem C12_refslice lab use : okLab lab = true -> okUse use = true ->
  parseFull (D lab use) = ([rootDef lab; rootUse lab use (usePara lab use)], 0) /\
  renderDoc c0 (D lab use) = [10; 10] ++ (if labelsAgree lab use then linkHtml use else textHtml use).
Proof.
  intros Hl Hu. split; [apply parseFull_refslice; assumption|apply renderDoc_refslice; [assumption|assumption|reflexivity]].
Qed.
Print Assumptions C12_refslice.

(* (a) the normalised labels agree: the reference resolves *)
Corollary C12_refslice_resolves lab use : okLab lab = true -> okUse use = true -> norm_label lab = norm_label use ->
  parseFull (D lab use) =
    ([rootDef lab; rootUse lab use (Blk ParagraphKind 0 (len use + 3) [] (linkForest use) 0 0 0 false false)], 0) /\
  renderDoc c0 (D lab use) = [10; 10] ++ linkHtml use.
Proof.
  intros Hl Hu E. destruct (C12_refslice lab use Hl Hu) as [H1 H2]. apply labelsAgree_iff in E.
  unfold usePara in H1. rewrite E in H1, H2. split; assumption.
Qed.
Print Assumptions C12_refslice_resolves.

(* (b) they differ: the brackets stay text *)
Corollary C12_refslice_unresolved lab use : okLab lab = true -> okUse use = true -> norm_label lab <> norm_label use ->
  parseFull (D lab use) =
    ([rootDef lab; rootUse lab use (Blk ParagraphKind 0 (len use + 3) [] (textForest use) 0 0 0 false false)], 0) /\
  renderDoc c0 (D lab use) = [10; 10] ++ textHtml use.
Proof.
  intros Hl Hu N. destruct (C12_refslice lab use Hl Hu) as [H1 H2].
  assert (E : labelsAgree lab use = false) by (apply bytes_eqb_neq, N).
  unfold usePara in H1. rewrite E in H1, H2. split; assumption.
Qed.
Print Assumptions C12_refslice_unresolved.

(* on this slice the normal form is explicit: ASCII lower-casing of the trimmed, collapsed label *)
Corollary norm_label_slice t : okUse t = true -> norm_label t = map toLowerASCII (trimAsciiWs (collapse t)).
Proof.
  intros H. destruct (okUse_inv t H) as (c & r & E & _ & HF). rewrite <- E in HF. apply norm_label_ascii, Forall_labB_ascii, HF.
Qed.
