From Coq Require Import List ZArith Lia Bool.
Import ListNotations.
Require Import Base Tables Utf8 Tree Rdr Link Collect Html Recog Inl3a Inl3b Inl3c Inl3d Driver Inl3e PEProof IFTree IFPe IFTk1.
Open Scope Z_scope.

(* ================================================================ the load of the delimiter stack: remaining lengths, and number of entries *)
Definition load (st : ist) : Z := Z.max (sumW st (stk st)) (len (stk st)).
Lemma Subl_len {A} (a b : list A) : Subl a b -> len a <= len b.
Proof. intros H. induction H; unfold len in *; cbn [length]; lia. Qed.

Lemma shrink b st st' : TKb b st -> FI st' -> Mb b st st' -> Subl (stk st') (stk st) -> TKb b st' /\ load st' <= load st.
Proof.
  intros HT F M HS. destruct (TKb_step b st st' HT F M HS) as [A B]. split; [exact A|]. pose proof (Subl_len _ _ HS). unfold load. lia.
Qed.
Lemma neutral b st st' : TKb b st -> FI st' -> Mb b st st' -> stk st' = stk st -> TKb b st' /\ load st' <= load st.
Proof. intros HT F M E. apply shrink; try assumption. rewrite E. apply Subl_refl. Qed.
(* a new stack that only renames flags / drops entries *)
Lemma TKb_setStk b st v : TKb b st -> Subl (map d_node v) (map d_node (stk st)) -> TKb b (setStk st v) /\ load (setStk st v) <= load st.
Proof.
  intros (F & Hb & S1 & S2) HS.
  assert (Hin : forall d, In d v -> exists d0, In d0 (stk st) /\ d_node d0 = d_node d).
  { intros d Hd. pose proof (Subl_In _ _ HS (d_node d) (in_map d_node v d Hd)) as Hi. apply in_map_iff in Hi. destruct Hi as (d0 & E & Hd0). exists d0. split; assumption. }
  split.
  - split; [exact F|]. split; [exact Hb|]. split; intros d Hd; destruct (Hin d Hd) as (d0 & Hd0 & E); rewrite <- E; [apply S1, Hd0|apply (S2 d0 Hd0)].
  - unfold load. cbn [stk setStk].
    assert (Hs : forall (l : list delim), sumW (setStk st v) l = fold_right (fun x a => W st x + a) 0 (map d_node l)).
    { induction l as [|d l IH]; [reflexivity|]. cbn [sumW map fold_right]. rewrite IH. reflexivity. }
    assert (Hs0 : forall (l : list delim), sumW st l = fold_right (fun x a => W st x + a) 0 (map d_node l)).
    { induction l as [|d l IH]; [reflexivity|]. cbn [sumW map fold_right]. rewrite IH. reflexivity. }
    rewrite Hs, Hs0. pose proof (Subl_len _ _ HS) as HL. unfold len in HL. rewrite !map_length in HL.
    assert (Hf : forall a c, Subl a c -> fold_right (fun x acc => W st x + acc) 0 a <= fold_right (fun x acc => W st x + acc) 0 c).
    { intros a c H. induction H as [|x a c H IH|x a c H IH]; cbn [fold_right]; [lia|lia|]. pose proof (W_nonneg st x). lia. }
    specialize (Hf _ _ HS). unfold len. lia.
Qed.
Lemma Subl_map {A B} (f : A -> B) a b : Subl a b -> Subl (map f a) (map f b).
Proof. intros H. induction H; cbn [map]; constructor; assumption. Qed.

Lemma sumW_setStk st v l : sumW (setStk st v) l = sumW st l.
Proof. induction l as [|d l IH]; [reflexivity|]. cbn [sumW]. rewrite IH. reflexivity. Qed.

(* ================================================================ pushing a delimiter *)
Lemma push_TK b st k s e (mk : Z -> delim) : TKb b st -> (forall id, d_node (mk id) = id) -> 0 <= s -> s < e ->
  let st1 := fst (addNode st k s e []) in let id := snd (addNode st k s e []) in
  let st' := setStk st1 (stk st1 ++ [mk id]) in
  TKb (nid st') st' /\ sumW st' (stk st') <= sumW st (stk st) + (e - s) /\ len (stk st') = len (stk st) + 1.
Proof.
  intros (F & Hb & S1 & S2) Hmk Hs0 Hse. cbv zeta.
  assert (Esp : spanLen s e = e - s) by (apply spanLen_eq; lia).
  assert (Ene : spanLen s e <> 0) by lia.
  destruct (addNode_FM st k s e [] F ltac:(lia) zkeys_nil) as [F1 M1]. pose proof (Hs_addNode st k s e [] Ene) as EH.
  unfold addNode in *. destruct (Z.eqb_spec (spanLen s e) 0); [contradiction|]. cbn [fst snd] in *.
  set (st1 := bumpId (setRk st (rk st ++ [PN (nid st) k s e 0 [] []]))) in *.
  assert (Hnew : hfind (nid st) (Hs st1) = Some (nid st, s, e)).
  { rewrite EH, hfind_app. destruct F as [_ B]. rewrite (cnt_zero_hfind _ _ (cnt_zero_bound (nid st) (Hs st) B)).
    rewrite hfind_cons. unfold key. cbn [fst]. rewrite Z.eqb_refl. reflexivity. }
  destruct M1 as [_ M1]. cbn [stk setStk]. change (stk st1) with (stk st). split; [|split].
  - split; [exact F1|]. split; [cbn; lia|]. split.
    + intros d Hd. apply in_app_or in Hd. cbn [nid setStk]. change (nid st1) with (nid st + 1).
      destruct Hd as [Hd|[<-|[]]]; [specialize (S1 d Hd); lia|rewrite Hmk; lia].
    + intros d Hd. apply in_app_or in Hd. change (Hs (setStk st1 (stk st ++ [mk (nid st)]))) with (Hs st1).
      destruct Hd as [Hd|[<-|[]]]; [apply (M1 (d_node d)); [specialize (S1 d Hd); lia|apply S2, Hd]|].
      rewrite Hmk. unfold startOK. rewrite Hnew. exact Hs0.
  - rewrite sumW_app. cbn [sumW]. rewrite Hmk.
    assert (E1 : sumW (setStk st1 (stk st ++ [mk (nid st)])) (stk st) <= sumW st (stk st)).
    { rewrite sumW_setStk. apply (sumW_sub st st1 (nid st) M1 _ _ (Subl_refl _)). intros d Hd. split; [specialize (S1 d Hd); lia|apply S2, Hd]. }
    assert (E2 : W (setStk st1 (stk st ++ [mk (nid st)])) (nid st) = e - s).
    { unfold W. change (Hs (setStk st1 (stk st ++ [mk (nid st)]))) with (Hs st1). unfold Wh. rewrite Hnew. exact Esp. }
    lia.
  - unfold len. rewrite app_length. cbn [length]. lia.
Qed.

(* ================================================================ processEmphasis, finishLink *)
Lemma processEmphasis_TK b st sb : TKb b st -> 0 <= sb -> TKb b (processEmphasis st sb) /\ load (processEmphasis st sb) <= load st.
Proof.
  intros HT Hsb. pose proof HT as (_ & Hb & _). unfold processEmphasis.
  set (fuel := (4 * (length (stk st) + length (isrc st)) + 8)%nat).
  destruct (pe_loop_inv sb fuel st (repeat sb 14) sb (Inv_init sb _ Hsb) (TKb_TI b st HT)) as [T1 M1].
  set (st1 := pe_loop fuel st (repeat sb 14) sb) in *.
  pose proof T1 as (U1 & B1 & _). pose proof M1 as (_ & HS & _).
  destruct (shrink b st st1 HT (conj U1 B1) (Mb_weaken (nid st) b st st1 (Mono_Mb st st1 M1) (proj2 Hb)) HS) as [A1 L1].
  destruct (TKb_setStk b st1 (upto (stk st1) sb) A1 (Subl_map d_node _ _ (Subl_firstn _ _))) as [A2 L2].
  split; [exact A2|lia].
Qed.

Lemma d_node_clearFlag d f : d_node (clearFlag d f) = d_node d.
Proof. unfold clearFlag. destruct (hasFlag d f); reflexivity. Qed.
Lemma map_combine_ids (f : Z * delim -> delim) : (forall i d, d_node (f (i, d)) = d_node d) ->
  forall (A : list Z) l, length A = length l -> map d_node (map f (combine A l)) = map d_node l.
Proof.
  intros Hf A. induction A as [|a A IH]; intros l E; [destruct l; [reflexivity|discriminate]|].
  destruct l as [|d l]; [discriminate|]. cbn [combine map]. rewrite Hf, IH by (cbn in E; lia). reflexivity.
Qed.

Lemma finishLink_TK b st kind odi : TKb b st -> 0 <= odi -> TKb b (finishLink st kind odi) /\ load (finishLink st kind odi) <= load st.
Proof.
  intros HT Ho. unfold finishLink. cbv zeta.
  destruct (processEmphasis_TK b st (odi + 1) HT ltac:(lia)) as [T1 L1].
  set (st1 := processEmphasis st (odi + 1)) in *. set (bid := d_node (nthD (stk st) odi)).
  pose proof T1 as (F1 & _).
  destruct (removeNode_FM st1 bid b F1) as [F2 M2].
  destruct (neutral b st1 (removeNode st1 bid) T1 F2 M2 eq_refl) as [T2 L2].
  set (st2 := removeNode st1 bid) in *.
  destruct (TKb_setStk b st2 (delStack (stk st2) odi (odi + 1)) T2 (Subl_map d_node _ _ (Subl_delStack (stk st2) odi (odi + 1) (Z.le_succ_diag_r odi)))) as [T3 L3].
  set (st3 := setStk st2 (delStack (stk st2) odi (odi + 1))) in *.
  destruct (kind =? LinkKind); [|split; [exact T3|lia]].
  match goal with |- TKb b (setStk st3 ?v) /\ _ => destruct (TKb_setStk b st3 v T3) as [T4 L4] end.
  { rewrite map_combine_ids; [apply Subl_refl| |rewrite map_length, seq_length; reflexivity].
    intros i d. destruct (_ && _); [apply d_node_clearFlag|reflexivity]. }
  split; [exact T4|lia].
Qed.

(* ================================================================ chains of steps *)
Definition Good (b : Z) (st0 st : ist) : Prop := TKb b st /\ load st <= load st0.
Lemma Good_refl b st : TKb b st -> Good b st st. Proof. intros H. split; [exact H|lia]. Qed.
Lemma G_neutral b st0 st st' : Good b st0 st -> FI st' -> Mb b st st' -> stk st' = stk st -> Good b st0 st'.
Proof. intros [T L] F M E. destruct (neutral b st st' T F M E) as [T' L']. split; [exact T'|lia]. Qed.
Lemma G_setStk b st0 st v : Good b st0 st -> Subl (map d_node v) (map d_node (stk st)) -> Good b st0 (setStk st v).
Proof. intros [T L] HS. destruct (TKb_setStk b st v T HS) as [T' L']. split; [exact T'|lia]. Qed.
Lemma G_finishLink b st0 st kind odi : Good b st0 st -> 0 <= odi -> Good b st0 (finishLink st kind odi).
Proof. intros [T L] Ho. destruct (finishLink_TK b st kind odi T Ho) as [T' L']. split; [exact T'|lia]. Qed.
Lemma G_addText b st0 st s e : Good b st0 st -> Good b st0 (addText st s e).
Proof.
  intros HG. pose proof HG as ((F & Hb & _) & _). destruct (addText_FM st s e F ltac:(lia)) as [F' M'].
  eapply G_neutral; [exact HG|exact F'|eapply Mb_weaken; [exact M'|lia]|apply stk_addText].
Qed.
Lemma G_addNode b st0 st k s e kids : Good b st0 st -> zkeys kids -> Good b st0 (fst (addNode st k s e kids)).
Proof.
  intros HG Hz. pose proof HG as ((F & Hb & _) & _). destruct (addNode_FM st k s e kids F ltac:(lia) Hz) as [F' M'].
  eapply G_neutral; [exact HG|exact F'|eapply Mb_weaken; [exact M'|lia]|apply stk_addNode].
Qed.
Lemma G_wrap b st0 st kind o endId : Good b st0 st -> 0 < o -> Good b st0 (fst (wrap st kind o endId)).
Proof.
  intros HG Ho. pose proof HG as ((F & Hb & _) & _). destruct (wrap_FM st kind o endId F Ho) as (F' & M' & _).
  eapply G_neutral; [exact HG|exact F'|eapply Mb_weaken; [exact M'|lia]|reflexivity].
Qed.
Lemma G_updSpan b st0 st id a c : Good b st0 st -> b <= id -> Good b st0 (updN st id (fun n => setSpan n a c)).
Proof.
  intros HG Hid. pose proof HG as ((F & _) & _).
  destruct (updN_span_FM st id (fun n => setSpan n a c) (fun h => (key h, a, c)) b F Hid) as [F' M'];
    try (intros n; first [apply pid_setSpan|apply pkids_setSpan|apply hd1_setSpan]); [intros h; reflexivity|].
  eapply G_neutral; [exact HG|exact F'|exact M'|reflexivity].
Qed.
Lemma G_updSpanRef b st0 st id a c lab : Good b st0 st -> b <= id -> Good b st0 (updN st id (fun n => setRef (setSpan n a c) lab)).
Proof.
  intros HG Hid. pose proof HG as ((F & _) & _).
  destruct (updN_span_FM st id (fun n => setRef (setSpan n a c) lab) (fun h => (key h, a, c)) b F Hid) as [F' M'].
  - intros n. rewrite pid_setRef. apply pid_setSpan.
  - intros n. rewrite pkids_setRef. apply pkids_setSpan.
  - intros n. rewrite hd1_setRef. apply hd1_setSpan.
  - intros h; reflexivity.
  - eapply G_neutral; [exact HG|exact F'|exact M'|reflexivity].
Qed.
Lemma G_appendKid b st0 st id K s e r kids : Good b st0 st -> zkeys kids -> Good b st0 (appendKid st id (PN 0 K s e 0 r kids)).
Proof.
  intros HG Hz. pose proof HG as ((F & Hb & _) & _). destruct (appendKid_FM st id (PN 0 K s e 0 r kids) F ltac:(lia) (posH_PN0 K s e r kids Hz)) as [F' M'].
  eapply G_neutral; [exact HG|exact F'|eapply Mb_weaken; [exact M'|lia]|reflexivity].
Qed.
Lemma G_same b st0 st st' : Good b st0 st -> rk st' = rk st -> stk st' = stk st -> nid st' = nid st -> Good b st0 st'.
Proof.
  intros HG E1 E2 E3. pose proof HG as ((F & _) & _). assert (EH : Hs st' = Hs st) by (unfold Hs; rewrite E1; reflexivity).
  eapply G_neutral; [exact HG| | |exact E2].
  - destruct F as [U B]. split; [rewrite EH; exact U|]. intros h Hin. rewrite EH in Hin. rewrite E3. apply B, Hin.
  - apply Mb_same; [lia|]. intros x _. rewrite EH. reflexivity.
Qed.
Lemma G_advanceTo b st0 st p : Good b st0 st -> Good b st0 (advanceTo st p).
Proof. intros HG. unfold advanceTo. destruct (0 <=? _); (eapply G_same; [exact HG|reflexivity..]). Qed.
Lemma G_setIgn b st0 st v : Good b st0 st -> Good b st0 (setIgn st v).
Proof. intros HG. eapply G_same; [exact HG|reflexivity..]. Qed.
Lemma G_setUpos b st0 st v : Good b st0 st -> Good b st0 (setUpos st v).
Proof. intros HG. eapply G_same; [exact HG|reflexivity..]. Qed.
Lemma G_nid b st0 st : Good b st0 st -> Good (nid st) st0 st.
Proof. intros [T L]. split; [|exact L]. pose proof T as (_ & Hb & _). apply (TKb_weaken b); [exact T|lia]. Qed.

Lemma lfl_Good b st0 : forall fuel st i, Good b st0 st -> Good b st0 (fst (lfl fuel st i)).
Proof.
  induction fuel as [|f IH]; intros st i HG; [exact HG|]. cbn [lfl]. destruct (i <? 0); [exact HG|].
  destruct (_ || _); [|apply IH, HG]. destruct (negb _); [|exact HG]. cbn [fst].
  apply G_setStk; [exact HG|]. apply Subl_map, Subl_delStack. lia.
Qed.
