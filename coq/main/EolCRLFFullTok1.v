From Coq Require Import List ZArith Lia Bool.
Import ListNotations.
Require Import Base Tables Utf8 Tree Rdr Link Collect Html Recog Inl3a Inl3b Inl3c Inl3d Driver Inl3e PEProof IFTree IFPe IFTk1 IFTk2 IFTk3 IFTk5 ShapesBase
  EolCRLFDefs EolCRLFSimBytes EolCRLFSimStream EolGenCrlfRdrDefs EolGenCrlfRdrStep EolGenCrlfRdrColl EolCRLFFullNode EolCRLFFullSt EolCRLFFullPe.
Open Scope Z_scope.

(* C14 (ii), CRLF clause, inline layer: the invariants QS / ND through the primitive operations of the tokeniser,
   lookForLinkOrImage and finishLink. *)

Lemma faL_updNode_gen (Q : pn -> Prop) id g : (forall n, faN Q n -> pid n = id -> faN Q (g n)) -> (forall n ks, Q n -> Q (setKids n ks)) ->
  forall f l, faL Q l -> faL Q (updNode f id g l).
Proof.
  intros Hg Hk. induction f as [|f IH]; intros l Hl; [exact Hl|]. cbn [updNode]. apply faL_intro. intros m Hm.
  apply in_map_iff in Hm. destruct Hm as (n & <- & Hn). pose proof (faL_In Q l n Hl Hn) as Hq.
  destruct (Z.eqb_spec (pid n) id) as [E|E]; [apply Hg; assumption|]. apply faN_eq in Hq. destruct Hq as [Hq Hks].
  apply faN_eq. split; [apply Hk, Hq|]. destruct n; cbn [setKids pkids] in *. apply IH, Hks.
Qed.
(* nodes without positive identities *)
Definition np (n : pn) : Prop := pid n <= 0.
Lemma faN_ofInline : forall u, faN np (ofInline u).
Proof.
  fix IH 1. intros [k s e ind r ks]. cbn [ofInline faN pkids]. split; [unfold np; cbn [pid]; lia|].
  induction ks as [|x ks IHk]; [exact I|]. cbn [map]. split; [apply IH|exact IHk].
Qed.
Lemma faL_kidsOf l : faL np (kidsOf l).
Proof. unfold kidsOf. induction l as [|u l IH]; [exact I|]. cbn [map]. split; [apply faN_ofInline|exact IH]. Qed.
Lemma faL_leaf0 l : Forall leaf0 l -> faL np l.
Proof.
  induction 1 as [|n l [A B] H IH]; [exact I|]. split; [|exact IH]. apply faN_eq. split; [unfold np; lia|rewrite B; exact I].
Qed.

Section Tok1.
  Variable R : bytes.
  Notation P := (phiP R).
  Notation R' := (crlf R).
  Notation F := (phiI R).
  Notation N := (phiN R).
  Notation stC := (stC R).
  Notation QS := (QS R).
  Notation Qd := (Qd R).
  Notation pairE := (@pairE R).

  (* the stack identities lie strictly between 0 and the counter *)
  Definition SB (st : ist) : Prop := forall d, In d (stk st) -> 0 < d_node d < nid st.
  Lemma TKb_SB b st : TKb b st -> SB st.
  Proof. intros (_ & Hb & S1 & _) d Hd. specialize (S1 d Hd). lia. Qed.
  Lemma TI_SB st : TI st -> SB st. Proof. intros (_ & _ & S1 & _). exact S1. Qed.

  Lemma np_Qd S0 n : (forall d, In d S0 -> 0 < d_node d) -> np n -> Qd S0 n.
  Proof. intros HS Hn d Hd _ Hp. specialize (HS d Hd). unfold np in Hn. lia. Qed.
  Lemma faL_np_Qd S0 l : (forall d, In d S0 -> 0 < d_node d) -> faL np l -> faL (Qd S0) l.
  Proof. intros HS. apply faL_impl. intros n. apply np_Qd, HS. Qed.

  Lemma QS_addNode st k s e kids : QS st -> SB st -> faL np kids -> QS (fst (addNode st k s e kids)).
  Proof.
    intros HQ HB Hk. unfold addNode. destruct (spanLen s e =? 0); [exact HQ|]. cbv zeta. cbn [fst]. unfold EolCRLFFullPe.QS.
    change (stk (bumpId (setRk st ?v))) with (stk st). change (rk (bumpId (setRk st ?v))) with v.
    apply faL_app. split; [exact HQ|]. split; [|exact I]. apply faN_eq. cbn [pkids]. split.
    - intros d Hd _ Hp. cbn [pid] in Hp. specialize (HB d Hd). lia.
    - apply faL_np_Qd; [intros d Hd; specialize (HB d Hd); lia|exact Hk].
  Qed.
  Lemma QS_addText st s e : QS st -> SB st -> QS (addText st s e).
  Proof. intros HQ HB. apply QS_addNode; [exact HQ|exact HB|exact I]. Qed.
  Lemma stk_addNode' st k s e kids : stk (fst (addNode st k s e kids)) = stk st.
  Proof. unfold addNode. destruct (_ =? 0); reflexivity. Qed.
  Lemma ND_addNode st k s e kids : ND st -> ND (fst (addNode st k s e kids)).
  Proof. unfold ND. rewrite stk_addNode'. exact (fun H => H). Qed.
  Lemma ND_addText st s e : ND st -> ND (addText st s e). Proof. apply ND_addNode. Qed.

  Lemma QS_wrap st kind o eid : QS st -> SB st -> QS (fst (wrap st kind o eid)).
  Proof.
    intros HQ HB. unfold EolCRLFFullPe.QS. rewrite rk_wrap. change (stk (fst (wrap st kind o eid))) with (stk st).
    apply faL_wrapIn; [|intros n ks; apply Qd_setKids|exact HQ]. intros s e ks d Hd _ Hp. cbn [pid] in Hp. specialize (HB d Hd). lia.
  Qed.
  Lemma QS_updN_fresh st id g : QS st -> (forall d, In d (stk st) -> d_node d <> id) -> (forall n, pid (g n) = pid n) ->
    (forall n, faL (Qd (stk st)) (pkids n) -> faL (Qd (stk st)) (pkids (g n))) -> QS (updN st id g).
  Proof.
    intros HQ Hid Hp Hk. unfold EolCRLFFullPe.QS, updN. change (stk (setRk st ?v)) with (stk st). change (rk (setRk st ?v)) with v.
    apply faL_updNode_gen; [|intros n ks; apply Qd_setKids|exact HQ]. intros n Hn E. apply faN_eq in Hn. destruct Hn as [_ Hks].
    apply faN_eq. split; [|apply Hk, Hks]. intros d Hd _ Hq. rewrite Hp, E in Hq. exfalso. apply (Hid d Hd). congruence.
  Qed.
  Lemma QS_updSpan st id a c : QS st -> (forall d, In d (stk st) -> d_node d <> id) -> QS (updN st id (fun n => setSpan n a c)).
  Proof. intros HQ Hid. apply QS_updN_fresh; [exact HQ|exact Hid|intros n; destruct n; reflexivity|intros n; destruct n; exact (fun X => X)]. Qed.
  Lemma QS_updSpanRef st id a c lab : QS st -> (forall d, In d (stk st) -> d_node d <> id) -> QS (updN st id (fun n => setRef (setSpan n a c) lab)).
  Proof. intros HQ Hid. apply QS_updN_fresh; [exact HQ|exact Hid|intros n; destruct n; reflexivity|intros n; destruct n; exact (fun X => X)]. Qed.
  Lemma QS_appendKid st id k : QS st -> SB st -> (forall d, In d (stk st) -> d_node d <> id) -> faN np k -> QS (appendKid st id k).
  Proof.
    intros HQ HB Hid Hk. unfold appendKid. apply QS_updN_fresh; [exact HQ|exact Hid|intros n; destruct n; reflexivity|].
    intros n Hn. destruct n; cbn [setKids pkids] in *. apply faL_app. split; [exact Hn|]. split; [|exact I].
    eapply faN_impl; [|exact Hk]. intros m. apply np_Qd. intros d Hd. specialize (HB d Hd). lia.
  Qed.
  Lemma QS_removeNode st id : QS st -> QS (removeNode st id).
  Proof. intros HQ. unfold EolCRLFFullPe.QS, removeNode. change (stk (setRk st ?v)) with (stk st). change (rk (setRk st ?v)) with v. apply faL_removeId; [intros n ks; apply Qd_setKids|exact HQ]. Qed.
  Lemma QS_same st st' : QS st -> rk st' = rk st -> stk st' = stk st -> QS st'.
  Proof. unfold EolCRLFFullPe.QS. intros H -> ->. exact H. Qed.
  Lemma ND_same st st' : ND st -> stk st' = stk st -> ND st'.
  Proof. unfold ND. intros H ->. exact H. Qed.

  (* ---- lookForLinkOrImage ---- *)
  Lemma lfl_sim : forall f st st' i, stC st st' -> pairE (lfl f st i) (lfl f st' i).
  Proof.
    induction f as [|f IH]; intros st st' i H; [apply pairE_mk, H|]. cbn [lfl]. cbv zeta. rewrite (stC_stk R _ _ H).
    destruct (i <? 0); [apply pairE_mk, H|]. destruct (_ || _); [|apply IH, H].
    destruct (negb _); apply pairE_mk; [apply stC_setStk, H|exact H].
  Qed.
  Lemma lookForLinkOrImage_sim st st' : stC st st' -> pairE (lookForLinkOrImage st) (lookForLinkOrImage st').
  Proof. intros H. unfold lookForLinkOrImage. rewrite (stC_stk R _ _ H). apply lfl_sim, H. Qed.

  (* ---- finishLink with the fuel of processEmphasis as a parameter ---- *)
  Definition clearF (odi : Z) (id : Z * delim) : delim := let '(i, d) := id in if (i <? odi) && (d_typ d =? tLink) then clearFlag d fActive else d.
  Lemma clear_sub_gen odi : forall (ix : list Z) (l0 : list delim),
    map d_node (map (clearF odi) (combine ix l0)) = map d_node (firstn (length ix) l0) /\
    (forall d, In d (map (clearF odi) (combine ix l0)) -> emphD d = true -> exists d0, In d0 l0 /\ emphD d0 = true /\ d_node d0 = d_node d).
  Proof.
    induction ix as [|i ix IH]; intros l0; [split; [reflexivity|intros d []]|]. destruct l0 as [|x l0]; [split; [reflexivity|intros d []]|].
    cbn [combine map length firstn]. destruct (IH l0) as [A B]. split.
    - rewrite A. f_equal. unfold clearF. destruct ((i <? odi) && (d_typ x =? tLink)); [apply d_node_clearFlag|reflexivity].
    - intros d [E|Hd] He.
      + exists x. split; [left; reflexivity|]. unfold clearF in E. destruct ((i <? odi) && (d_typ x =? tLink)) eqn:Ec; subst d; [|split; [exact He|reflexivity]].
        split; [|symmetry; apply d_node_clearFlag]. unfold emphD in *. unfold clearFlag in He. destruct (hasFlag x fActive); exact He.
      + destruct (B d Hd He) as (d0 & X & Y & Z0). exists d0. split; [right; exact X|split; assumption].
  Qed.
  Lemma clear_sub odi (l : list delim) :
    map d_node (map (clearF odi) (combine (map Z.of_nat (seq 0 (length l))) l)) = map d_node l /\
    (forall d, In d (map (clearF odi) (combine (map Z.of_nat (seq 0 (length l))) l)) -> emphD d = true -> exists d0, In d0 l /\ emphD d0 = true /\ d_node d0 = d_node d).
  Proof.
    destruct (clear_sub_gen odi (map Z.of_nat (seq 0 (length l))) l) as [A B]. split; [|exact B].
    rewrite A, map_length, seq_length, firstn_all. reflexivity.
  Qed.

  Lemma finishLinkG_sim pf st st' kind odi : stC st st' -> TI st -> QS st -> ND st -> 0 <= odi ->
    stC (finishLinkG pf st kind odi) (finishLinkG pf st' kind odi) /\ QS (finishLinkG pf st kind odi) /\ ND (finishLinkG pf st kind odi).
  Proof.
    intros H HT HQ HN Ho. unfold finishLinkG. cbv zeta. rewrite (stC_stk R _ _ H).
    destruct (processEmphasisF_sim R pf st st' (odi + 1) H HT HQ HN ltac:(lia)) as (H1 & HQ1 & HN1 & HT1).
    set (s1 := processEmphasisF pf st (odi + 1)) in *. set (s1' := processEmphasisF pf st' (odi + 1)) in *.
    set (bid := d_node (nthD (stk st) odi)).
    pose proof (stC_removeNode R _ _ bid H1) as H2. pose proof (QS_removeNode _ bid HQ1) as HQ2.
    set (s2 := removeNode s1 bid) in *. set (s2' := removeNode s1' bid) in *.
    rewrite (stC_stk R _ _ H2). change (stk s2) with (stk s1).
    set (l3 := delStack (stk s1) odi (odi + 1)).
    assert (Hl3 : Subl l3 (stk s1)) by (apply Subl_delStack; lia).
    pose proof (stC_setStk R _ _ l3 H2) as H3.
    assert (HQ3 : QS (setStk s2 l3)) by (apply QS_setStk_Subl; [exact HQ2|exact Hl3]).
    assert (HN3 : ND (setStk s2 l3)) by (apply ND_setStk; [exact HN1|exact Hl3]).
    set (s3 := setStk s2 l3) in *. set (s3' := setStk s2' l3) in *.
    rewrite (stC_stk R _ _ H3). change (stk s3) with l3.
    destruct (kind =? LinkKind); [|split; [exact H3|split; assumption]].
    fold (clearF odi). destruct (clear_sub odi l3) as [A B].
    split; [apply stC_setStk, H3|]. split.
    - apply QS_setStk; [exact HQ3|]. exact B.
    - unfold ND. change (stk (setStk s3 ?v)) with v. rewrite A. exact HN3.
  Qed.
End Tok1.

Print Assumptions finishLinkG_sim.
