From Coq Require Import List ZArith Lia Bool.
Import ListNotations.
Require Import Base Tables Utf8 Tree Rdr Link Collect Html Recog Inl3a Inl3b Inl3c Inl3d Driver Inl3e GI0 GI2.
Open Scope Z_scope.

(* ================================================================ C04 (3): the inline forest as a list of headers
   A header is (identity, span start, span end); hdrs l lists the headers of the forest l in the order in which findNode visits
   the nodes.  Everything processEmphasis reads from the forest (plen (nodeOf st id)) is a function of this list. *)
Definition hdr := (Z * Z * Z)%type.
Definition key (h : hdr) : Z := fst (fst h).
Fixpoint hdrN (n : pn) : list hdr :=
  match n with PN i _ s e _ _ ks => (i, s, e) :: (fix go (l : list pn) : list hdr := match l with [] => [] | c :: cs => hdrN c ++ go cs end) ks end.
Fixpoint hdrs (l : list pn) : list hdr := match l with [] => [] | c :: cs => hdrN c ++ hdrs cs end.
Lemma hdrN_eq n : hdrN n = (pid n, ps n, pe n) :: hdrs (pkids n).
Proof. destruct n as [i k s e ind r ks]. reflexivity. Qed.
Lemma hdrs_app a b : hdrs (a ++ b) = hdrs a ++ hdrs b.
Proof. induction a as [|x a IH]; [reflexivity|]. cbn [app hdrs]. rewrite IH, app_assoc. reflexivity. Qed.
Lemma hdrs_cons n l : hdrs (n :: l) = hdrN n ++ hdrs l. Proof. reflexivity. Qed.

Definition hfind (id : Z) (H : list hdr) : option hdr := find (fun h => key h =? id) H.
Lemma hfind_app id a b : hfind id (a ++ b) = match hfind id a with Some x => Some x | None => hfind id b end.
Proof. unfold hfind. induction a as [|x a IH]; [reflexivity|]. cbn [app find]. destruct (key x =? id); [reflexivity|exact IH]. Qed.
Lemma hfind_cons id h H : hfind id (h :: H) = if key h =? id then Some h else hfind id H. Proof. reflexivity. Qed.

(* the span length stored for an identity *)
Definition Wh (id : Z) (H : list hdr) : Z := match hfind id H with Some (_, s, e) => spanLen s e | None => 0 end.
Lemma spanLen_nonneg s e : 0 <= spanLen s e.
Proof. unfold spanLen. destruct (_ && _ && _) eqn:E; [|lia]. apply andb_true_iff in E. destruct E as [_ E]. apply Z.leb_le in E. lia. Qed.
Lemma Wh_nonneg id H : 0 <= Wh id H.
Proof. unfold Wh. destruct (hfind id H) as [[[i s] e]|]; [apply spanLen_nonneg|lia]. Qed.

(* ---- findNode reads the header list ---- *)
Definition hd1 (n : pn) : hdr := (pid n, ps n, pe n).
Lemma fsize_cons n r : fsize (n :: r) = (psize n + fsize r)%nat.
Proof. unfold fsize. cbn [fold_right]. lia. Qed.
Lemma psize_fsize n : psize n = fsize (pkids n).
Proof. destruct n. reflexivity. Qed.
Lemma fsize_pos l : (1 <= fsize l)%nat. Proof. unfold fsize. lia. Qed.

Lemma findNode_hfind id : forall f l, (fsize l <= f)%nat -> option_map hd1 (findNode f id l) = hfind id (hdrs l).
Proof.
  induction f as [|f IH]; intros l Hf; [pose proof (fsize_pos l); lia|]. destruct l as [|n r]; [reflexivity|].
  cbn [findNode]. rewrite hdrs_cons, hdrN_eq. cbn [app]. rewrite hfind_cons. unfold key at 1. cbn [fst].
  rewrite fsize_cons, psize_fsize in Hf. pose proof (fsize_pos r). pose proof (fsize_pos (pkids n)).
  destruct (pid n =? id); [reflexivity|]. rewrite hfind_app. rewrite <- (IH (pkids n)) by lia. rewrite <- (IH r) by lia.
  destruct (findNode f id (pkids n)); reflexivity.
Qed.

Lemma plen_nodeOf st id : plen (nodeOf st id) = Wh id (hdrs (rk st)).
Proof.
  unfold nodeOf, Wh. rewrite <- (findNode_hfind id (fsize (rk st)) (rk st)) by lia.
  destruct (findNode (fsize (rk st)) id (rk st)) as [n|]; [reflexivity|]. reflexivity.
Qed.
Lemma ps_nodeOf st id : match hfind id (hdrs (rk st)) with Some (_, s, _) => ps (nodeOf st id) = s | None => True end.
Proof.
  unfold nodeOf. rewrite <- (findNode_hfind id (fsize (rk st)) (rk st)) by lia.
  destruct (findNode (fsize (rk st)) id (rk st)) as [n|]; [reflexivity|exact I].
Qed.

(* ---- the part of the header list with positive identities ---- *)
Definition posH (H : list hdr) : list hdr := filter (fun h => 0 <? key h) H.
Lemma posH_app a b : posH (a ++ b) = posH a ++ posH b. Proof. apply filter_app. Qed.
Lemma hfind_posH id H : 0 < id -> hfind id (posH H) = hfind id H.
Proof.
  intros Hid. unfold hfind, posH. induction H as [|h H IH]; [reflexivity|]. cbn [filter find].
  destruct (Z.ltb_spec 0 (key h)) as [L|L].
  - cbn [find]. destruct (key h =? id); [reflexivity|exact IH].
  - destruct (Z.eqb_spec (key h) id); [lia|exact IH].
Qed.
Lemma Wh_posH id H : 0 < id -> Wh id (posH H) = Wh id H.
Proof. intros Hid. unfold Wh. rewrite hfind_posH by exact Hid. reflexivity. Qed.

(* nodes made from entries, and their lists, carry identity 0 everywhere *)
Lemma posH_ofInline : forall i, posH (hdrN (ofInline i)) = [].
Proof.
  fix IH 1. intros [k s e ind r ks]. rewrite hdrN_eq. cbn [ofInline pid ps pe pkids]. unfold posH at 1. cbn [filter key fst Z.ltb Z.compare].
  fold (posH (hdrs (map ofInline ks))). induction ks as [|x l IHl]; [reflexivity|]. cbn [map hdrs]. rewrite posH_app, (IH x), IHl. reflexivity.
Qed.
Lemma posH_kidsOf l : posH (hdrs (kidsOf l)) = [].
Proof. unfold kidsOf. induction l as [|x l IH]; [reflexivity|]. cbn [map hdrs]. rewrite posH_app, posH_ofInline, IH. reflexivity. Qed.

(* ================================================================ updNode *)
Section Upd.
  Variable id : Z.
  Variable g : pn -> pn.
  Variable G : hdr -> hdr.
  Hypothesis g_pid : forall n, pid (g n) = pid n.
  Hypothesis g_kids : forall n, pkids (g n) = pkids n.
  Hypothesis g_G : forall n, hd1 (g n) = G (hd1 n).
  Hypothesis G_key : forall h, key (G h) = key h.

  Definition Rupd (h h' : hdr) : Prop := h' = h \/ (key h = id /\ h' = G h).

  Lemma hdrN_g n : hdrN (g n) = G (hd1 n) :: hdrs (pkids n).
  Proof. rewrite hdrN_eq. fold (hd1 (g n)). rewrite g_G, g_kids. reflexivity. Qed.

  Lemma Forall2_app' {A B} (R : A -> B -> Prop) a a' b b' : Forall2 R a a' -> Forall2 R b b' -> Forall2 R (a ++ b) (a' ++ b').
  Proof. intros H1 H2. induction H1; [exact H2|]. cbn [app]. constructor; assumption. Qed.
  Lemma Forall2_refl' {A} (R : A -> A -> Prop) : (forall x, R x x) -> forall l, Forall2 R l l.
  Proof. intros H l. induction l; constructor; auto. Qed.

  Lemma updNode_rel : forall f l, Forall2 Rupd (hdrs l) (hdrs (updNode f id g l)).
  Proof.
    induction f as [|f IH]; intros l; [apply Forall2_refl'; intros x; left; reflexivity|]. cbn [updNode].
    induction l as [|n r IHr]; [constructor|]. cbn [map]. rewrite !hdrs_cons. apply Forall2_app'; [|exact IHr].
    destruct (Z.eqb_spec (pid n) id) as [E|E].
    - rewrite hdrN_g, hdrN_eq. constructor; [right; split; [exact E|reflexivity]|]. apply Forall2_refl'. intros x; left; reflexivity.
    - rewrite (hdrN_eq (setKids _ _)), hdrN_eq. destruct n as [i k s e ind rf ks]. cbn [setKids pid ps pe pkids].
      constructor; [left; reflexivity|apply IH].
  Qed.

  Lemma rel_hfind_other id' : id' <> id -> forall H H', Forall2 Rupd H H' -> hfind id' H' = hfind id' H.
  Proof.
    intros Hne H H' HR. induction HR as [|h h' H H' Hh HR IH]; [reflexivity|]. rewrite !hfind_cons.
    destruct Hh as [->|(Ek & ->)]; [rewrite IH; reflexivity|]. rewrite G_key, Ek.
    destruct (Z.eqb_spec id id'); [congruence|exact IH].
  Qed.
  (* in any case the header found for an identity is the old one or its image *)
  Lemma rel_hfind_any id' : forall H H', Forall2 Rupd H H' ->
    match hfind id' H, hfind id' H' with
    | Some h, Some h' => h' = h \/ (key h = id /\ h' = G h)
    | None, None => True
    | _, _ => False
    end.
  Proof.
    intros H H' HR. induction HR as [|h h' H H' Hh HR IH]; [exact I|]. rewrite !hfind_cons.
    assert (Ek : key h' = key h) by (destruct Hh as [->|(_ & ->)]; [reflexivity|apply G_key]). rewrite Ek.
    destruct (key h =? id'); [exact Hh|exact IH].
  Qed.

  (* with enough fuel the FIRST node carrying the identity is updated *)
  Lemma updNode_hfind : forall f l, (fsize l <= f)%nat -> hfind id (hdrs (updNode f id g l)) = option_map G (hfind id (hdrs l)).
  Proof.
    induction f as [|f IH]; intros l Hf; [pose proof (fsize_pos l); lia|]. cbn [updNode].
    revert Hf. induction l as [|n r IHr]; intros Hf; [reflexivity|]. cbn [map]. rewrite !hdrs_cons, !hfind_app.
    rewrite fsize_cons, psize_fsize in Hf. pose proof (fsize_pos r). pose proof (fsize_pos (pkids n)).
    destruct (Z.eqb_spec (pid n) id) as [E|E].
    - rewrite hdrN_g, hdrN_eq, !hfind_cons. rewrite G_key. unfold key at 1 2. cbn [fst hd1]. rewrite E, Z.eqb_refl.
      cbn [option_map]. unfold hd1. rewrite E. reflexivity.
    - rewrite (hdrN_eq (setKids _ _)), hdrN_eq, !hfind_cons. destruct n as [i k s e ind rf ks]. cbn [setKids pid ps pe pkids] in *.
      unfold key at 1 2. cbn [fst]. destruct (Z.eqb_spec i id); [congruence|].
      rewrite (IH ks) by lia. destruct (hfind id (hdrs ks)); [reflexivity|]. cbn [option_map]. apply IHr. lia.
  Qed.
End Upd.

(* updates of the children only (appendKid): the positive part of the header list is unchanged *)
Lemma updNode_posH_kids id g : (forall n, posH (hdrN (g n)) = posH (hdrN n)) ->
  forall f l, posH (hdrs (updNode f id g l)) = posH (hdrs l).
Proof.
  intros Hg. induction f as [|f IH]; intros l; [reflexivity|]. cbn [updNode].
  induction l as [|n r IHr]; [reflexivity|]. cbn [map]. rewrite !hdrs_cons, !posH_app, IHr. f_equal.
  destruct (pid n =? id); [apply Hg|].
  rewrite (hdrN_eq (setKids _ _)), hdrN_eq. destruct n as [i k s e ind rf ks]. cbn [setKids pid ps pe pkids].
  change ((i, s, e) :: hdrs (updNode f id g ks)) with ([(i, s, e)] ++ hdrs (updNode f id g ks)).
  change ((i, s, e) :: hdrs ks) with ([(i, s, e)] ++ hdrs ks). rewrite !posH_app, IH. reflexivity.
Qed.

(* ================================================================ counting the headers of an identity *)
Definition cnt (x : Z) (H : list hdr) : Z := len (filter (fun h => key h =? x) H).
Lemma cnt_nil x : cnt x [] = 0. Proof. reflexivity. Qed.
Lemma cnt_cons x h H : cnt x (h :: H) = (if key h =? x then 1 else 0) + cnt x H.
Proof. unfold cnt. cbn [filter]. destruct (key h =? x); [|lia]. unfold len. cbn [length]. lia. Qed.
Lemma cnt_app x a b : cnt x (a ++ b) = cnt x a + cnt x b.
Proof. unfold cnt. rewrite filter_app. unfold len. rewrite app_length. lia. Qed.
Lemma cnt_nonneg x H : 0 <= cnt x H. Proof. unfold cnt, len. lia. Qed.
Lemma cnt_zero_hfind x H : cnt x H = 0 -> hfind x H = None.
Proof.
  induction H as [|h H IH]; [reflexivity|]. rewrite cnt_cons, hfind_cons. pose proof (cnt_nonneg x H).
  destruct (key h =? x); [lia|]. intros E. apply IH. lia.
Qed.
Lemma hfind_cnt_pos x H h : hfind x H = Some h -> 1 <= cnt x H.
Proof.
  induction H as [|h0 H IH]; [discriminate|]. rewrite cnt_cons, hfind_cons. pose proof (cnt_nonneg x H).
  destruct (key h0 =? x); [lia|]. intros E. specialize (IH E). lia.
Qed.
Lemma cnt_posH x H : 0 < x -> cnt x (posH H) = cnt x H.
Proof.
  intros Hx. induction H as [|h H IH]; [reflexivity|]. unfold posH. cbn [filter]. fold (posH H).
  destruct (Z.ltb_spec 0 (key h)); [rewrite !cnt_cons, IH; reflexivity|]. rewrite cnt_cons, IH.
  destruct (Z.eqb_spec (key h) x); lia.
Qed.

(* positive identities occur at most once *)
Definition UQh (H : list hdr) : Prop := forall x, 0 < x -> cnt x H <= 1.

(* updNode (span updates) keeps all counts *)
Lemma rel_cnt id G : (forall h, key (G h) = key h) -> forall x H H', Forall2 (Rupd id G) H H' -> cnt x H' = cnt x H.
Proof.
  intros GK x H H' HR. induction HR as [|h h' H H' Hh HR IH]; [reflexivity|]. rewrite !cnt_cons, IH.
  destruct Hh as [->|(_ & ->)]; [reflexivity|rewrite GK; reflexivity].
Qed.

(* ================================================================ wrapIn inserts headers of the new identity only *)
Inductive Ins (x : Z) : list hdr -> list hdr -> Prop :=
| Ins_nil : Ins x [] []
| Ins_both h a b : Ins x a b -> Ins x (h :: a) (h :: b)
| Ins_new s e a b : Ins x a b -> Ins x a ((x, s, e) :: b).
Lemma Ins_refl x H : Ins x H H. Proof. induction H; constructor; assumption. Qed.
Lemma Ins_app x a a' b b' : Ins x a a' -> Ins x b b' -> Ins x (a ++ b) (a' ++ b').
Proof. intros H1 H2. induction H1; [exact H2| |]; cbn [app]; constructor; assumption. Qed.
Lemma Ins_hfind x id' : id' <> x -> forall H H', Ins x H H' -> hfind id' H' = hfind id' H.
Proof.
  intros Hne H H' HI. induction HI as [|h a b HI IH|s e a b HI IH]; [reflexivity| |].
  - rewrite !hfind_cons, IH. reflexivity.
  - rewrite hfind_cons. unfold key. cbn [fst]. destruct (Z.eqb_spec x id'); [congruence|exact IH].
Qed.
Lemma Ins_cnt x y : y <> x -> forall H H', Ins x H H' -> cnt y H' = cnt y H.
Proof.
  intros Hne H H' HI. induction HI as [|h a b HI IH|s e a b HI IH]; [reflexivity| |].
  - rewrite !cnt_cons, IH. reflexivity.
  - rewrite cnt_cons. unfold key. cbn [fst]. destruct (Z.eqb_spec x y); [congruence|lia].
Qed.

Lemma hasId_cnt o l : hasId o l = true -> 1 <= cnt o (hdrs l).
Proof.
  induction l as [|n r IH]; [discriminate|]. unfold hasId. cbn [existsb]. rewrite hdrs_cons, cnt_app, hdrN_eq, cnt_cons.
  pose proof (cnt_nonneg o (hdrs (pkids n))). pose proof (cnt_nonneg o (hdrs r)). unfold key. cbn [fst].
  destruct (pid n =? o); [lia|]. cbn [orb]. intros H1. specialize (IH H1). lia.
Qed.

Lemma wrapIn_Ins newId kind o endId es : forall f pe0 l,
  Ins newId (hdrs l) (hdrs (wrapIn f newId kind o endId es pe0 l)) /\
  cnt newId (hdrs (wrapIn f newId kind o endId es pe0 l)) <= cnt newId (hdrs l) + cnt o (hdrs l).
Proof.
  induction f as [|f IH]; intros pe0 l; [cbn [wrapIn]; split; [apply Ins_refl|pose proof (cnt_nonneg o (hdrs l)); lia]|]. cbn [wrapIn].
  destruct (hasId o l) eqn:Eh.
  - pose proof (hasId_cnt o l Eh) as Hc. unfold wrapLevel. pose proof (sAt_app o l) as E1. destruct (splitAtId o l) as [pre post].
    pose proof (sBefore_app endId post) as E2. destruct (splitBeforeId endId post) as [mid rest]. subst post. subst l.
    rewrite !hdrs_app, !cnt_app in Hc. rewrite !hdrs_app. cbn [hdrs]. rewrite hdrN_eq. cbn [pid ps pe pkids]. rewrite app_nil_r.
    split.
    + apply Ins_app; [apply Ins_refl|]. cbn [app]. constructor. apply Ins_refl.
    + rewrite !cnt_app. rewrite cnt_cons. unfold key at 1. cbn [fst]. rewrite Z.eqb_refl. lia.
  - clear Eh. induction l as [|n r IHr]; [split; [constructor|cbn; lia]|]. cbn [map]. rewrite !hdrs_cons.
    rewrite (hdrN_eq (setKids _ _)), (hdrN_eq n). destruct n as [i k s e ind rf ks]. cbn [setKids pid ps pe pkids].
    destruct (IH e ks) as [I1 C1]. destruct IHr as [I2 C2]. split.
    + apply Ins_app; [|exact I2]. constructor. exact I1.
    + rewrite !cnt_app, !cnt_cons. pose proof (cnt_nonneg o (hdrs ks)). destruct (key (i, s, e) =? o); lia.
Qed.

(* ================================================================ removeId leaves a subsequence *)
Inductive Subseq : list hdr -> list hdr -> Prop :=
| Sub_nil : Subseq [] []
| Sub_both h a b : Subseq a b -> Subseq (h :: a) (h :: b)
| Sub_skip h a b : Subseq a b -> Subseq a (h :: b).
Lemma Subseq_refl H : Subseq H H. Proof. induction H; constructor; assumption. Qed.
Lemma Subseq_nil_l H : Subseq [] H. Proof. induction H; constructor; assumption. Qed.
Lemma Subseq_app a a' b b' : Subseq a a' -> Subseq b b' -> Subseq (a ++ b) (a' ++ b').
Proof. intros H1 H2. induction H1; [exact H2| |]; cbn [app]; constructor; assumption. Qed.
Lemma Subseq_cnt x : forall S L, Subseq S L -> cnt x S <= cnt x L.
Proof. intros S L H. induction H as [|h a b H IH|h a b H IH]; [lia| |]; rewrite !cnt_cons; [lia|]. destruct (key h =? x); lia. Qed.
(* for an identity that occurs at most once: what is found in the subsequence is what was found before, or nothing *)
Lemma Subseq_hfind x : forall S L, Subseq S L -> cnt x L <= 1 -> hfind x S = hfind x L \/ hfind x S = None.
Proof.
  intros S L H. induction H as [|h a b H IH|h a b H IH]; intros Hc; [left; reflexivity| |].
  - rewrite !hfind_cons. rewrite cnt_cons in Hc. destruct (key h =? x); [left; reflexivity|]. apply IH. lia.
  - rewrite hfind_cons. rewrite cnt_cons in Hc. pose proof (cnt_nonneg x b). destruct (key h =? x).
    + right. apply cnt_zero_hfind. pose proof (Subseq_cnt x a b H). pose proof (cnt_nonneg x a). lia.
    + apply IH. lia.
Qed.

Lemma removeId_Subseq id : forall f l, Subseq (hdrs (removeId f id l)) (hdrs l).
Proof.
  induction f as [|f IH]; intros l; [apply Subseq_refl|]. cbn [removeId]. destruct (hasId id l).
  - induction l as [|n r IHr]; [constructor|]. cbn [filter]. rewrite hdrs_cons. destruct (negb (pid n =? id)).
    + rewrite hdrs_cons. apply Subseq_app; [apply Subseq_refl|exact IHr].
    + replace (hdrs (filter (fun n0 => negb (pid n0 =? id)) r)) with ([] ++ hdrs (filter (fun n0 => negb (pid n0 =? id)) r)) by reflexivity.
      apply Subseq_app; [apply Subseq_nil_l|exact IHr].
  - induction l as [|n r IHr]; [constructor|]. cbn [map]. rewrite !hdrs_cons. apply Subseq_app; [|exact IHr].
    rewrite (hdrN_eq (setKids _ _)), (hdrN_eq n). destruct n as [i k s e ind rf ks]. cbn [setKids pid ps pe pkids]. constructor. apply IH.
Qed.
