From Coq Require Import List ZArith Lia Bool.
Import ListNotations.
Require Import Base Tables Utf8 Tree Rdr Link Collect Html Recog Inl3a Inl3b Inl3c Inl3d Inl3e LP Rules Starts Driver Props.
Require Import BShDef BlockShapes BlockShapesAll SpanHypDef IS2 IS1 C13Full ExInv1 ExDrv C13All ComposeC02.
Require Import DefSpansOcp DefSpansWalk DefSpansDrv.
Open Scope Z_scope.

(* ================================================================================================
   T56 (a): ComposeC02.defSpansRoots for every input.
     order of the entries of a definition block and of the children inside each entry: DefSpansDrv.parseBlocks_invD;
     valid spans of the entries and their children: C13All.exempt_parseBlocks (shapesI);
     the children have no children: ExInv1.inv (ExDrv.parseBlocks_okRX);  the block's span is valid: BlockShapesAll.
   ================================================================================================ *)

Lemma ordX_In : forall l lo hi u, ordered_inX lo hi l = true -> (forall x, In x l -> istart x <= iend x) -> In u l -> lo <= istart u /\ iend u <= hi.
Proof.
  induction l as [|x r IH]; intros lo hi u H Hv Hin; [destruct Hin|]. cbn [ordered_inX] in H.
  apply andb_true_iff in H. destruct H as [H Hr]. apply andb_true_iff in H. destruct H as [A B]. apply Z.leb_le in A, B.
  destruct Hin as [->|Hin]; [lia|]. pose proof (Hv x (or_introl eq_refl)) as Vx.
  destruct (IH _ _ u Hr (fun y Hy => Hv y (or_intror Hy)) Hin). lia.
Qed.

Section Root.
  Variables (B src : bytes).

  Lemma entry_spans ps pe u : entD u = true -> svI src u = true -> eE B u = true -> ps <= istart u -> iend u <= pe ->
    spansI false src ps pe u = true.
  Proof.
    intros Hd Hv He Hps Hpe. pose proof (eE_kidless B u He) as Hk. rewrite svI_eq in Hv. apply andb_true_iff in Hv. destruct Hv as [Hv Hvk].
    unfold entD in Hd. apply andb_true_iff in Hd. destruct Hd as [Hd V]. apply andb_true_iff in Hd. destruct Hd as [_ O].
    destruct u as [k s e ind rf ks]. cbn [istart iend ikids] in *. rewrite spansI_eq, Hv. cbn [andb].
    destruct (Z.leb_spec ps s); [|lia]. destruct (Z.leb_spec e pe); [|lia]. cbn [andb].
    apply (goI_orderedX src s e e ks s O). apply forallb_forall. intros x Hx.
    assert (Vx : forall y, In y ks -> istart y <= iend y) by (intros y Hy; rewrite forallb_forall in V; specialize (V y Hy); unfold vkid in V; apply Z.leb_le, V).
    destruct (ordX_In ks s e x O Vx Hx) as [A1 A2]. rewrite forallb_forall in Hvk. specialize (Hvk x Hx). rewrite svI_eq in Hvk. apply andb_true_iff in Hvk. destruct Hvk as [Hvx _].
    pose proof (Hk x Hx) as Ekx. destruct x as [kx sx ex ix rx kxs]. cbn [ikids istart iend] in *. subst kxs. rewrite spansI_eq, Hvx. cbn [andb].
    destruct (Z.leb_spec s sx); [|lia]. destruct (Z.leb_spec ex e); [|lia]. reflexivity.
  Qed.

  Definition ND (b : block) : Prop :=
    invD b = true /\ exemptOK src b = true /\ ExInv1.inv B b = true /\ bshapes src b = true.
  Lemma ND_kids b c : ND b -> In c (bkids b) -> ND c.
  Proof.
    intros (A1 & A2 & A3 & A4) Hc. split; [|split; [|split]].
    - apply invD_parts in A1. destruct A1 as [_ A1]. unfold invDL in A1. rewrite forallb_forall in A1. apply A1, Hc.
    - destruct b as [K s e bk ik a n c0 l lb]. cbn [exemptOK bkids] in *. apply andb_true_iff in A2. destruct A2 as [_ A2]. rewrite forallb_forall in A2. apply A2, Hc.
    - rewrite ExInv1.inv_eq in A3. apply andb_true_iff in A3. destruct A3 as [_ A3]. unfold ExInv1.invL in A3. rewrite forallb_forall in A3. apply A3, Hc.
    - rewrite bshapes_eq in A4. apply andb_true_iff in A4. destruct A4 as [_ A4]. rewrite forallb_forall in A4. apply A4, Hc.
  Qed.

  Lemma def_entries b : ND b -> bkind b = LinkReferenceDefinitionKind -> entriesBasicX src b = true.
  Proof.
    intros (A1 & A2 & A3 & A4) HK.
    rewrite bshapes_eq in A4. apply andb_true_iff in A4. destruct A4 as [A4 _]. apply andb_true_iff in A4. destruct A4 as [A4 _]. apply span_valid_elim in A4.
    apply invD_parts in A1. destruct A1 as [A1 _]. unfold locD in A1. rewrite HK in A1. change (LinkReferenceDefinitionKind =? LinkReferenceDefinitionKind) with true in A1. cbn [negb orb] in A1.
    destruct (Z.leb_spec 0 (bstart b)) as [_|]; [|lia]. cbn [negb orb] in A1. apply andb_true_iff in A1. destruct A1 as [A1 D]. apply andb_true_iff in A1. destruct A1 as [_ O].
    unfold entriesBasicX. rewrite O. cbn [andb]. apply forallb_forall. intros u Hu.
    assert (Hvs : forall x, In x (bik b) -> istart x <= iend x).
    { intros x Hx. rewrite forallb_forall in D. specialize (D x Hx). unfold entD in D. apply andb_true_iff in D. destruct D as [D _]. apply andb_true_iff in D. destruct D as [D _]. apply Z.leb_le, D. }
    destruct (ordX_In _ _ _ u O Hvs Hu) as [P1 P2].
    assert (Hsh : shapesI src u = true).
    { destruct b as [K s e bk ik a n c l lb]. cbn [exemptOK bik bkind] in *. apply andb_true_iff in A2. destruct A2 as [A2 _]. rewrite forallb_forall in A2. specialize (A2 u Hu).
      unfold exemptI in A2. rewrite HK in A2. cbn in A2. exact A2. }
    rewrite ExInv1.inv_eq in A3. apply andb_true_iff in A3. destruct A3 as [A3 _]. rewrite forallb_forall in A3, D.
    apply entry_spans; [apply D, Hu|apply shapesI_sv, Hsh|apply A3, Hu|exact P1|exact P2].
  Qed.

  Lemma defSpans_tree : forall f b, ND b -> defSpansB f src b = true.
  Proof.
    induction f as [|f IH]; intros b HN; [reflexivity|]. cbn [defSpansB]. apply andb_true_iff. split.
    - destruct (Z.eqb_spec (bkind b) LinkReferenceDefinitionKind) as [E|E]; [apply def_entries; assumption|reflexivity].
    - apply forallb_forall. intros c Hc. apply IH. eapply ND_kids; eassumption.
  Qed.
End Root.

Theorem defSpans_all : forall input, defSpansRoots (fst (parseBlocks input)) = true.
Proof.
  intros input. pose proof (parseBlocks_invD input) as H1. pose proof (exempt_parseBlocks input) as H2.
  pose proof (parseBlocks_okRX input) as H3. pose proof (parseBlocks_block_shapes input) as H4.
  unfold defSpansRoots. apply forallb_forall. intros r Hr. rewrite Forall_forall in *.
  destruct (H3 r Hr) as (B & M & _ & _ & _ & _ & Hi & _).
  apply (defSpans_tree B). split; [apply H1, Hr|split; [apply H2, Hr|split; [exact Hi|apply H4, Hr]]].
Qed.
Print Assumptions defSpans_all.
