(* QFull.v -- T64: the block-quote clause of C09 through the inline pass and the renderer, for every tab-free document.

   (1) parseFull_quote : parseFull_quote_statement
         forall D, tabFree D -> D <> [] ->
         exists lb, parseFull (quote D) = ([quoteRoot D lb (quoteKids3 D (fst (parseFull D)))], 0)
       the tree of quote D after the inline pass is one block quote whose children are the rewritten root blocks of D under the map
       qB3 (positions by sigma, ends by the end map, Text and RawHTML nodes that span several lines cut after every line feed).
       With QuoteSimDefs.qI (which cuts Text nodes only) the statement is FALSE: QFullRefuted.parseFull_quote_qI_refuted
       (witness "a <b\nc> d\n": the RawHTML child of a tag over two lines is one node per line in quote D).
   (2) renderDoc_quote : renderDoc_quote_statement
         forall c D, ignoreRaw c = true -> tabFree D -> D <> [] ->
         renderDoc c (quote D) = openTag c "blockquote" ++ concat (renderPieces c D) ++ closeTag c "blockquote"
       where renderDoc c D = joinBlocks (renderPieces c D) (QFullDefs.renderDoc_pieces): the document joins the rendered root blocks,
       the block quote concatenates them between its tags.
   Route: QS2Spec2.parseBlocks_quote (block layer, T58) -> QInlCore.parseInlines_quote_core (the inline pass on a leaf, QInlStep*.v over
   QIRdr*.v, QInlCode*.v, QInlHtml*.v, QInlTree*.v, QInlBytes*.v) -> QFull3 (every leaf of a tab-free document satisfies the hypotheses
   of the core: QFull3a-d, QRootEnd*.v, QPure*.v) -> QFull1.parseFull_quote_of -> QRender.renderDoc_quote_of_tree_statement. *)
From Coq Require Import List ZArith Lia Bool.
Import ListNotations.
Require Import Base Tree LP Driver Inl3e Render QuoteSimDefs QInlDefs QInlCoreDef QInlCore QFullDefs QFull1 QFull3 QRender.
Open Scope Z_scope.

(* the inline pass on the leaves: statement (1a) of the task, for every leaf of every tab-free document *)
Theorem parseInlines_quote_leaves : forall D, tabFree D -> D <> [] -> LeafSimAt D.
Proof. intros D HT Hne. apply (LeafSim_of_core D HT Hne parseInlines_quote_core). Qed.
Print Assumptions parseInlines_quote_leaves.

Theorem parseFull_quote : parseFull_quote_statement.
Proof. exact (parseFull_quote_of_core parseInlines_quote_core). Qed.
Print Assumptions parseFull_quote.

Theorem renderDoc_quote : renderDoc_quote_statement.
Proof. exact (renderDoc_quote_of_core parseInlines_quote_core). Qed.
Print Assumptions renderDoc_quote.
