(* T63-F1, direction D2: a single-run theorem.  If the last entry of a leaf ends at the end of the source, has some ink, and the
   source ends in a run of spaces / line endings that begins with two spaces at TS, then the inline forest ends with a top-level Text
   node [ps, len src) with ps <= TS. *)
From Coq Require Import List ZArith Lia Bool.
Import ListNotations.
Require Import Base Tables Utf8 Tree Rdr Link Collect Html Recog Inl3a Inl3b Inl3c Inl3d Inl3e Driver.
Require Import ShapesBase ShapesR ShapesA IFBase IFPe IFTokDef IFFrame IFTokAux IFTokLoop IFTokUm IFTokFuel IFTokTf IFTk1 IFTk2 IFTk4 IFTk5 SpanSmall.
Require Import GI0 GI3 GI4 GI6 GI7 Leaf3f EolFinalFullPeA EolFinalFullPeB EolFinalFullHbTok.
Open Scope Z_scope.

Section S.
  Variables (src : bytes) (U : list inline).
  Hypothesis HOK : spOK src U = true.
  Local Notation rf := (2 * length src + 10)%nat.
  Local Notation lf := (S (length src)).
  Hypothesis HbU9 : ibudget U <= len src + 9.
  Local Notation E := (len src).
  Variable TS : Z.
  Hypothesis HT1 : 0 <= TS /\ TS + 2 <= E.
  Hypothesis HT2 : at_ src TS = 32.
  Hypothesis HT2' : at_ src (TS + 1) = 32.
  Hypothesis HT3 : forall i, TS <= i < E -> isSpEol (at_ src i) = true.
  Hypothesis HT4 : isSpEol (at_ src (TS - 1)) = false.
  Local Notation K := (IFTokLoop.K src U).
  Local Notation TKL := (IFTk4.TKL src U).
  Local Notation OI := (IFTk5.OI src U).
  Local Notation d0 := (mkI 0 0 0).
  Local Notation n := (len U).
  (* the last entry *)
  Variables (Upre : list inline) (u : inline).
  Hypothesis HU : U = Upre ++ [u].
  Hypothesis Hu1 : iend u = E.
  Hypothesis Hu2 : ikind u = UnparsedKind.
  Hypothesis Hink : exists i0, istart u <= i0 < TS /\ isSpTab (at_ src i0) = false.

  Lemma Hrf : len src + ibudget U < Z.of_nat rf. Proof. unfold len in *. lia. Qed.
  Lemma n_pos : n = len Upre + 1. Proof. rewrite HU. unfold len. rewrite app_length. cbn [length]. lia. Qed.
  Lemma nth_last : nth (Z.to_nat (n - 1)) U d0 = u.
  Proof. rewrite n_pos, HU. replace (Z.to_nat (len Upre + 1 - 1)) with (length Upre) by (unfold len; lia). rewrite app_nth2 by lia. rewrite Nat.sub_diag. reflexivity. Qed.
  Lemma rev_U : rev U = u :: rev Upre. Proof. rewrite HU, rev_app_distr. reflexivity. Qed.

  (* an entry that contains a byte at or after istart u is the last one *)
  Lemma entry_last k x : 0 <= k < n -> istart (nth (Z.to_nat k) U d0) <= x < iend (nth (Z.to_nat k) U d0) -> istart u <= x -> k = n - 1.
  Proof.
    intros Hk Hx Hs. destruct (Z.eq_dec k (n - 1)) as [X|X]; [exact X|]. exfalso.
    pose proof (IFTk4.nth_sorted src O U (Z.to_nat k) (Z.to_nat (n - 1)) HOK ltac:(unfold len in *; lia)) as Hsort. rewrite nth_last in Hsort. lia.
  Qed.
  Lemma spanEnd_last st : unp st = U -> n - 1 <= upos st -> spanEnd st = E.
  Proof.
    intros Eu Hu. unfold spanEnd. rewrite Eu. destruct (Z.leb_spec n (upos st)) as [L1|L1].
    - rewrite rev_U. exact Hu1.
    - replace (upos st) with (n - 1) by lia. rewrite nth_last. exact Hu1.
  Qed.

  (* the step at TS: the hard-break scan runs to the end of the source *)
  Lemma sub_tail : exists r, sub src TS E = 32 :: 32 :: r /\ forallb isSpEol r = true.
  Proof.
    pose proof (SpanSmall.len_sub src TS E ltac:(lia) ltac:(lia)) as Hl.
    assert (Hat : forall i, 0 <= i < E - TS -> at_ (sub src TS E) i = at_ src (TS + i)) by (intros; apply SpanSmall.at_sub; lia).
    destruct (sub src TS E) as [|a [|b r]] eqn:Es; [rewrite len_nil in Hl; lia|rewrite !len_cons, len_nil in Hl; lia|].
    pose proof (Hat 0 ltac:(lia)) as H0. rewrite SpanSmall.at_cons0 in H0. replace (TS + 0) with TS in H0 by lia. rewrite HT2 in H0.
    pose proof (Hat 1 ltac:(lia)) as H1. rewrite SpanSmall.at_consS, SpanSmall.at_cons0 in H1 by lia. rewrite HT2' in H1. subst a b.
    exists r. split; [reflexivity|]. apply forallb_forall. intros x Hx. destruct (In_nth r x 0 Hx) as (j & Hj & Ej).
    rewrite !len_cons in Hl. assert (Hjr : Z.of_nat j < len r) by (unfold len; lia).
    pose proof (Hat (Z.of_nat j + 2) ltac:(lia)) as H2. rewrite SpanSmall.at_consS, SpanSmall.at_consS in H2 by lia.
    replace (Z.of_nat j + 2 - 1 - 1) with (Z.of_nat j) in H2 by lia. unfold at_ in H2 at 1. destruct (Z.ltb_spec (Z.of_nat j) 0); [lia|].
    rewrite Nat2Z.id, Ej in H2. rewrite H2. apply HT3. lia.
  Qed.
  Lemma istepF_atTS tf st ps : inE src U st TS -> istepF rf tf st TS ps = (st, E, ps).
  Proof.
    intros (Es & Eu & Hj & Hp). assert (Hk : upos st = n - 1).
    { apply (entry_last (upos st) TS Hj); [rewrite (spanEnd_nth st) in Hp by (rewrite Eu; lia); rewrite Eu in Hp; exact Hp|destruct Hink as (i0 & Hi & _); lia]. }
    assert (Hse : spanEnd st = E) by (apply spanEnd_last; [exact Eu|lia]).
    unfold istepF. cbv zeta. rewrite Es, HT2. cbn [Z.eqb Pos.eqb orb]. rewrite Hse.
    destruct sub_tail as (r & Er & Hr). assert (Eh : parseHardLineBreakSpace (sub src TS E) = (E - TS, true)).
    { apply parseHardLineBreakSpace_hard_iff. exists r. split; [exact Er|]. split; [exact Hr|]. symmetry. apply SpanSmall.len_sub; lia. }
    rewrite Eh. unfold isLastSpan. rewrite Eu, Hk. rewrite Z.leb_refl. cbn [negb andb]. f_equal. f_equal. lia.
  Qed.

  (* the tokeniser loop keeps the plain start at or before TS *)
  Lemma iloopF_TS tf : forall f st pos ps, K st pos -> (pos <= TS \/ E <= pos) -> 0 <= ps <= TS ->
    0 <= snd (iloopF rf tf f st pos ps) <= TS.
  Proof.
    induction f as [|f IH]; intros st pos ps HK Hpos Hps; [exact Hps|]. cbn [iloopF]. pose proof HK as (Es & Eu & Hp0 & Hu0 & _). rewrite Eu.
    destruct (Z.ltb_spec (upos st) n) as [Hu|Hu]; cbn [andb]; [|exact Hps].
    destruct (Z.ltb_spec pos (spanEnd st)) as [Hlt|Hge]; [|exact Hps].
    pose proof (K_inE src U O st pos HK Hu Hlt) as HE.
    assert (HseE : spanEnd st <= E).
    { rewrite (spanEnd_nth st) by (rewrite Eu; exact Hu). rewrite Eu. apply (IFTokAux.spOK_In src U _ HOK (nth_In_Z U (upos st) d0 ltac:(lia))). }
    destruct (istepF_prog src U HOK rf tf Hrf st pos ps HK Hu Hlt) as [P1 P2].
    destruct (Z.eq_dec pos TS) as [->|Npos].
    - rewrite (istepF_atTS tf st ps HE) in *. cbn [fst snd] in *. apply IH; [exact P2|right; lia|exact Hps].
    - assert (Hlt2 : pos < TS) by lia.
      destruct (istepF_TS src U HOK rf tf Hrf TS HT1 HT2 HT3 HT4 st pos ps HE Hlt2) as [Q1 Q2].
      destruct (istepF rf tf st pos ps) as [[st1 p1] ps1]. cbn [fst snd] in *. apply IH; [exact P2|left; exact Q1|destruct Q2 as [-> | ->]; lia].
  Qed.
  Hypothesis HkU : forall x, In x U -> ikind x = UnparsedKind \/ ikind x = IndentKind.
  Hypothesis HeokU : forallb GI6.eok U = true.
  Hypothesis Hind1 : ind1 U = true.

  Lemma skipSpTab_stop : forall fuel p lim i0, p <= i0 < lim -> isSpTab (at_ src i0) = false -> skipSpTab fuel src p lim <= i0.
  Proof.
    induction fuel as [|f IH]; intros p lim i0 Hp Hb; cbn [skipSpTab]; [lia|].
    destruct (Z.ltb_spec p lim); cbn [andb]; [|lia]. destruct (isSpTab (at_ src p)) eqn:Eb; [|lia].
    destruct (Z.eq_dec p i0) as [->|N]; [congruence|]. apply IH; [lia|exact Hb].
  Qed.

  Definition Final (X : ist) : Prop :=
    exists st1 ps1, X = addText st1 ps1 E /\ 0 <= ps1 <= TS /\ n - 1 <= upos st1 /\ (forall d, In d (stk st1) -> d_node d < nid st1).

  Lemma obody_S st : OI st -> upos st <= n - 1 -> upos (obody rf rf lf st) < n - 1 \/ Final (obody rf rf lf st).
  Proof.
    intros (Es & Eu & Hu0 & T & HLd) Hu. unfold obody. cbv zeta. rewrite Eu.
    set (uk := nth (Z.to_nat (upos st)) U d0).
    assert (Hin : In uk U) by (apply nth_In; unfold len in *; lia).
    destruct (IFTokAux.spOK_In src U uk HOK Hin) as (A1 & A2 & A3).
    assert (Hstart : upos st = n - 1 -> uk = u) by (intros X; unfold uk; rewrite X; apply nth_last).
    assert (Hbefore : upos st < n - 1 -> iend uk <= istart u).
    { intros X. pose proof (IFTk4.nth_sorted src O U (Z.to_nat (upos st)) (Z.to_nat (n - 1)) HOK ltac:(unfold len in *; lia)) as Hs. rewrite nth_last in Hs. exact Hs. }
    destruct Hink as (i0 & Hi0 & Hb0).
    destruct (HkU uk Hin) as [Ek|Ek]; rewrite Ek.
    2:{ change (IndentKind =? 0) with false. cbv iota. rewrite Z.eqb_refl. left.
        assert (Hlt : upos st < n - 1). { destruct (Z.eq_dec (upos st) (n - 1)) as [X|X]; [|lia]. rewrite (Hstart X) in Ek. rewrite Hu2 in Ek. discriminate. }
        destruct (negb (ign st)); cbn [upos setRk]; exact Hlt. }
    change (UnparsedKind =? 0) with false. change (UnparsedKind =? IndentKind) with false. cbv iota. rewrite Z.eqb_refl. rewrite Es.
    assert (Ese : spanEnd st = iend uk) by (rewrite (spanEnd_nth st) by (rewrite Eu; lia); rewrite Eu; reflexivity).
    set (pos := if ign st then skipSpTab (length src) src (istart uk) (spanEnd st) else istart uk).
    assert (Hpr : istart uk <= pos /\ pos < TS).
    { unfold pos. destruct (ign st).
      - pose proof (skipSpTab_bounds (length src) src (istart uk) (spanEnd st)) as [B1 B2]. specialize (B2 ltac:(lia)). split; [exact B1|].
        destruct (Z.eq_dec (upos st) (n - 1)) as [X|X].
        + rewrite (Hstart X) in *. pose proof (skipSpTab_stop (length src) (istart u) (spanEnd st) i0 ltac:(rewrite Ese, Hu1; lia) Hb0). lia.
        + specialize (Hbefore ltac:(lia)). lia.
      - split; [lia|]. destruct (Z.eq_dec (upos st) (n - 1)) as [X|X]; [rewrite (Hstart X); lia|specialize (Hbefore ltac:(lia)); lia]. }
    assert (HK : K (setIgn st false) pos).
    { split; [exact Es|]. split; [exact Eu|]. split; [lia|]. split; [exact Hu0|]. intros _. cbn [upos setIgn]. fold uk. lia. }
    assert (HT : TKL (setIgn st false) pos).
    { destruct (G_setIgn (nid st) st st false (Good_refl _ _ T)) as [TQ Q]. split; [exact TQ|]. unfold Sb in HLd.
      destruct (Z.ltb_spec (upos st) n) as [_|X]; [|lia]. fold uk in HLd. split; [lia|].
      unfold Eb. cbn [upos setIgn]. destruct (Z.ltb_spec (upos st) n); [fold uk; lia|lia]. }
    pose proof (iloopF_TS rf lf (setIgn st false) pos pos HK ltac:(left; lia) ltac:(lia)) as HS.
    destruct (iloopF_KT src U HOK rf rf Hrf lf (setIgn st false) pos pos HK HT) as (pos' & K' & (T' & _)).
    pose proof (fr_iloopF rf rf lf (setIgn st false) pos pos) as F. pose proof (um_iloopF rf rf lf (setIgn st false) pos pos Hu0) as M. unfold um in M. cbn [upos setIgn] in M.
    destruct (iloopF rf rf lf (setIgn st false) pos pos) as [st1 ps1]. cbn [fst snd] in *. destruct F as [F1 F2]. cbn [isrc unp setIgn] in F1, F2.
    destruct (Z_lt_le_dec (upos st1) (n - 1)) as [X|X]; [left; rewrite (ux_addText st1 ps1 (spanEnd st1)); exact X|].
    right. exists st1, ps1. split; [rewrite (spanEnd_last st1 ltac:(congruence) X); reflexivity|]. split; [exact HS|]. split; [exact X|].
    intros d Hd. destruct T' as (_ & _ & S1 & _). apply S1, Hd.
  Qed.

  Lemma outer_S : forall f st, OI st -> upos st <= n - 1 -> n - upos st < Z.of_nat f ->
    exists st1 ps1 u1, outerF rf rf lf f st = setUpos (addText st1 ps1 E) u1 /\ 0 <= ps1 <= TS /\ (forall d, In d (stk st1) -> d_node d < nid st1).
  Proof.
    induction f as [|f IH]; intros st HO Hu Hf; [lia|]. rewrite outerF_S. pose proof HO as (_ & Eu & Hu0 & _). rewrite Eu.
    destruct (Z.leb_spec n (upos st)) as [X|_]; [lia|].
    destruct (obody_step src U HOK rf rf (8 * length src + 8) Hrf (le_n _) lf st HO ltac:(lia)) as [_ O1].
    destruct (obody_S st HO Hu) as [Hlt|(st1 & ps1 & EX & B1 & B2 & B3)].
    - apply IH; [exact O1|cbn [upos setUpos]; lia|].
      cbn [upos setUpos]. destruct (obody_fr_um rf rf lf st Hu0) as [_ M]. unfold um in M. lia.
    - exists st1, ps1, (upos (obody rf rf lf st) + 1). split; [|split; assumption].
      set (X := setUpos (obody rf rf lf st) (upos (obody rf rf lf st) + 1)) in *.
      assert (EuX : unp X = U) by (destruct O1 as (_ & E2 & _); exact E2).
      assert (HuX : n <= upos X) by (unfold X; cbn [upos setUpos]; rewrite EX, (ux_addText st1 ps1 E); lia).
      assert (EoX : outerF rf rf lf f X = X) by (destruct f as [|f']; [reflexivity|rewrite outerF_S, EuX; destruct (Z.leb_spec n (upos X)); [reflexivity|lia]]).
      rewrite EoX. unfold X. rewrite EX. reflexivity.
  Qed.

  Theorem tail_text matcher b : bik b = U ->
    exists X ps, 0 <= ps <= TS /\ parseInlines src matcher b = X ++ [Inl TextKind ps E 0 [] []].
  Proof.
    intros Eb. rewrite <- parseInlinesF_model. rewrite Eb. unfold parseInlinesF.
    assert (HO0 : OI (st0 src matcher b)).
    { split; [reflexivity|]. split; [exact Eb|]. split; [cbn; lia|]. split.
      - split; [split; [intros x _; cbn; lia|intros h []]|]. split; [cbn; lia|]. split; intros d [].
      - unfold load, Sb. cbn [stk st0 sumW upos]. unfold len at 1. cbn [length].
        destruct (Z.ltb_spec 0 n) as [Lt|Lt]; [|pose proof (ShapesBase.len_nonneg src); lia].
        destruct (IFTokAux.spOK_In src U _ HOK (IFTokAux.nth_In_Z U 0 d0 ltac:(lia))) as (A & _). cbn in A |- *. lia. }
    pose proof n_pos as Hn. pose proof (ShapesBase.len_nonneg Upre) as HnU.
    destruct (outer_S (S (length U)) (st0 src matcher b) HO0 ltac:(cbn [upos st0]; lia) ltac:(cbn [upos st0]; unfold len; lia)) as (st1 & ps1 & u1 & EP & B1 & B3).
    (* the forest invariant of processEmphasis, from the model run *)
    assert (HPEI : PEI true [] (sids (stk (outerF rf rf lf (S (length U)) (st0 src matcher b)))) (outerF rf rf lf (S (length U)) (st0 src matcher b))).
    { pose proof (outerF_model (S (length U)) (st0 src matcher b)) as HM. unfold rfuelOf in HM. cbn [isrc st0] in HM. rewrite HM.
      apply MI_PEI with (U := U). apply (MI_outer true src U HeokU (or_introl eq_refl)).
      - constructor; cbn; try reflexivity; try exact Eb; try lia; try (intros ? []); try constructor.
      - split; [reflexivity|split; [exact Eb|split; [cbn; lia|reflexivity]]]. }
    rewrite EP in *.
    set (t := PN (nid st1) TextKind ps1 E 0 [] []). set (B := setUpos (bumpId st1) u1).
    assert (E1 : setUpos (addText st1 ps1 E) u1 = app1 B t).
    { unfold addText, addNode. replace (spanLen ps1 E =? 0) with false; [reflexivity|]. symmetry. apply Z.eqb_neq. unfold spanLen.
      destruct (Z.leb_spec 0 ps1); destruct (Z.leb_spec 0 E); destruct (Z.leb_spec ps1 E); cbn [andb]; lia. }
    rewrite E1 in *.
    assert (Ht : ~ In (pid t) (sids (stk B))).
    { cbn [pid t]. change (stk B) with (stk st1). unfold sids. rewrite in_map_iff. intros (d & Ed & Hd). specialize (B3 d Hd). lia. }
    rewrite <- (processEmphasisF_model (app1 B t) 0).
    rewrite (processEmphasisF_app1 t eq_refl _ B HPEI Ht t eq_refl eq_refl).
    exists (map toInline (rk (processEmphasisF (4 * (length (stk (app1 B t)) + length (isrc (app1 B t))) + 8) B 0))), ps1. split; [exact B1|].
    change (rk (app1 (processEmphasisF (4 * (length (stk (app1 B t)) + length (isrc (app1 B t))) + 8) B 0) t)) with
      (rk (processEmphasisF (4 * (length (stk (app1 B t)) + length (isrc (app1 B t))) + 8) B 0) ++ [t]).
    rewrite map_app. reflexivity.
  Qed.
End S.
