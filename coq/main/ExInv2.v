From Coq Require Import List ZArith Lia Bool.
Import ListNotations.
Require Import Base Tables Utf8 Tree Rdr Link Collect Html Recog LP Rules Starts Driver.
Require Import Leaf3e RdrBound BSRdr BSOrph ShEnv ShLine1 ExRdr ExOcp.
Require L2Kind2 L2Bnd BSLine1.
Open Scope Z_scope.

(* ================================================================================================
   T52, part 4 (ExInv2): the invariant inv2 (ExOcp) through the line machine.
   One lemma per model function, as in L2Kind2 (whose kind tracking ckind / st_open / goodSt is reused): inv2 is kept by
   everything up to the point where addLineText appends the text of the line to the container; from there on only its
   locX half (invX) is kept, which is all that is carried from one line to the next.
   Side facts: C0 (cursor inside the line, non-negative line start, the source is the section's src) for the single
   operations, L2Bnd.bndP for the composite ones.
   ================================================================================================ *)

Notation ckind := L2Kind2.ckind.
Notation st_open := L2Kind2.st_open.
Notation same_tree := L2Kind2.same_tree.

(* ---- the tail of the closing result of a paragraph depends on its entries and kind only ---- *)
Lemma cut_kind o pos ik : bkind (set_bik (set_bstart o pos) ik) = bkind o. Proof. destruct o; reflexivity. Qed.
Lemma ocp_last_ext : forall fuel rfuel src o1 o2 r res1 res2, bik o1 = bik o2 -> bkind o1 = bkind o2 ->
  lastIsPara (ocp_loop fuel rfuel src o1 None r res1) = lastIsPara (ocp_loop fuel rfuel src o2 None r res2).
Proof.
  induction fuel as [|f IH]; intros rfuel src o1 o2 r res1 res2 Hik Hk.
  { cbn [ocp_loop]. rewrite !lastIsPara_snoc, Hk. reflexivity. }
  cbn [ocp_loop]. cbv zeta. rewrite <- Hik.
  assert (Hkeep : lastIsPara (res1 ++ [o1]) = lastIsPara (res2 ++ [o2])) by (rewrite !lastIsPara_snoc, Hk; reflexivity).
  destruct (parseLinkLabel rfuel r) as [[lspan linner] r1].
  destruct (negb (spanValid lspan)); [exact Hkeep|].
  destruct (current r1) as [c r2]. destruct (negb (c =? 58)); [exact Hkeep|].
  destruct (next r2) as [? r3]. destruct (skipLinkSpace rfuel r3) as [ok r4]. destruct (negb ok); [exact Hkeep|].
  destruct (parseLinkDestination rfuel r4) as [[dspan dtext] r5]. destruct (negb (spanValid dspan)); [exact Hkeep|].
  destruct (readEOL rfuel r5) as [destEOL r6]. destruct (current r6) as [c6 r7].
  destruct (_ && _ && _); [exact Hkeep|].
  set (labelInline := Inl LinkLabelKind _ _ 0 _ _). set (destInline := Inl LinkDestinationKind _ _ 0 [] _).
  destruct (skipLinkSpace rfuel r7) as [ok2 r8].
  destruct (negb ok2); [rewrite !lastIsPara_snoc; reflexivity|].
  destruct (parseLinkTitle rfuel r8) as [[tspan ttext] r9].
  destruct (negb (spanValid tspan)).
  { destruct (destEOL <? 0); [exact Hkeep|].
    destruct (nodeIndexForPosition (bik o1) (r_pos r6) <? 0); [rewrite !lastIsPara_snoc; reflexivity|].
    apply IH; [rewrite !cut_bik; reflexivity|rewrite !cut_kind; exact Hk]. }
  destruct (readEOL rfuel r9) as [titleEOL r10].
  destruct (titleEOL <? 0).
  { destruct (destEOL <? 0); [exact Hkeep|].
    destruct (nodeIndexForPosition (bik o1) (r_pos r6) <? 0); [rewrite !lastIsPara_snoc; reflexivity|].
    rewrite !app_assoc, !lastIsPara_snoc, !cut_kind, Hk. reflexivity. }
  set (titleInline := Inl LinkTitleKind _ _ 0 [] _).
  destruct (nodeIndexForPosition (bik o1) (r_pos r10) <? 0); [rewrite !lastIsPara_snoc; reflexivity|].
  apply IH; [rewrite !cut_bik; reflexivity|rewrite !cut_kind; exact Hk].
Qed.
Lemma lpok_of_para src x : bkind x = ParagraphKind -> lastIsPara (onCloseParagraph src x) = lpok src (bik x).
Proof.
  intros Hk. unfold lpok, onCloseParagraph. cbn [paraOf bik bkind]. destruct (bik x) as [|first rest] eqn:E.
  - unfold lastIsPara. cbn. rewrite Hk. reflexivity.
  - cbv zeta. rewrite Hk. change (ParagraphKind =? SetextHeadingKind) with false. cbv iota.
    apply ocp_last_ext; [cbn [bik]; exact E|cbn [bkind]; exact Hk].
Qed.

(* ---- the cursor ---- *)
Definition cs2 (p p' : lp) : Prop := BSLine1.env p p' /\ (0 <= li p <= len (line p) -> li p <= li p' <= len (line p)).
Lemma cs2_cstep p p' : BSLine1.cstep p p' -> cs2 p p'. Proof. intros (_ & A & B). split; assumption. Qed.
Lemma cs2_refl p : cs2 p p. Proof. repeat split; lia. Qed.
Lemma cs2_trans a b c : cs2 a b -> cs2 b c -> cs2 a c.
Proof.
  intros ((A2 & A3 & A4) & A5) ((B2 & B3 & B4) & B5). split; [repeat split; congruence|].
  intros H. specialize (A5 H). rewrite A3 in B5. specialize (B5 ltac:(lia)). lia.
Qed.
Lemma cs2_set p rt c st pn : cs2 p (setLP p rt c (li p) (col p) (tabRem p) st pn).
Proof. repeat split; cbn; lia. Qed.
Lemma cs2_updCont p f : cs2 p (updCont p f). Proof. apply cs2_set. Qed.
Lemma cs2_withCont p c : cs2 p (withCont p c). Proof. apply cs2_set. Qed.
Lemma cs2_withState p s : cs2 p (withState p s). Proof. apply cs2_set. Qed.
Lemma cs2_withRoot p r : cs2 p (withRoot p r). Proof. apply cs2_set. Qed.
Lemma cs2_panic p s : cs2 p (panic p s). Proof. apply cs2_set. Qed.
Lemma cs2_closeLastChildAt p d e : cs2 p (closeLastChildAt p d e). Proof. apply cs2_set. Qed.
Lemma cs2_opened p : cs2 p (if state p =? stOpening then withState p stOpenMatched else p).
Proof. apply cs2_cstep, BSLine1.cstep_opened. Qed.
Lemma cs2_advance p n : cs2 p (advance p n). Proof. apply cs2_cstep, BSLine1.cstep_advance. Qed.
Lemma cs2_consumeLine p : cs2 p (consumeLine p). Proof. apply cs2_cstep, BSLine1.cstep_consumeLine. Qed.
Lemma cs2_consumeIndent p n : cs2 p (consumeIndent p n). Proof. apply cs2_cstep, BSLine1.cstep_consumeIndent. Qed.
Lemma cs2_openBlock_up : forall fuel p kind, cs2 p (openBlock_up fuel p kind).
Proof.
  induction fuel as [|f IH]; intros p kind; [apply cs2_refl|]. cbn [openBlock_up].
  destruct (canContain _ _); [apply cs2_refl|]. destruct (cdepth p); [apply cs2_panic|].
  eapply cs2_trans; [|apply IH]. eapply cs2_trans; [apply cs2_closeLastChildAt|apply cs2_withCont].
Qed.
Lemma cs2_openBlock p kind : cs2 p (openBlock p kind).
Proof.
  unfold openBlock. destruct (_ || _); [apply cs2_panic|]. cbv zeta.
  eapply cs2_trans; [apply cs2_opened|]. eapply cs2_trans; [apply cs2_openBlock_up|].
  eapply cs2_trans; [apply cs2_closeLastChildAt|]. eapply cs2_trans; [apply cs2_updCont|apply cs2_withCont].
Qed.
Lemma cs2_endBlock p : cs2 p (endBlock p).
Proof.
  unfold endBlock. destruct (_ || _); [apply cs2_panic|]. cbv zeta. eapply cs2_trans; [apply cs2_opened|].
  destruct (cdepth _); [apply cs2_panic|]. eapply cs2_trans; [apply cs2_closeLastChildAt|apply cs2_withCont].
Qed.
Lemma cs2_collectInline p kind n : cs2 p (collectInline p kind n).
Proof.
  unfold collectInline. destruct (_ =? stDescendTerminated); [apply cs2_panic|]. cbv zeta.
  eapply cs2_trans; [apply cs2_opened|]. set (p0 := if state p =? stOpening then withState p stOpenMatched else p).
  eapply cs2_trans; [|eapply cs2_trans; [apply cs2_advance|apply cs2_updCont]].
  destruct (0 <? indent p0); [|apply cs2_refl]. eapply cs2_trans; [apply cs2_advance|apply cs2_updCont].
Qed.

Section Walk.
  Variable src : bytes.
  Notation inv2 := (inv2 src).
  Notation inv2L := (inv2L src).

  Definition C0 (p : lp) : Prop := BSLine1.curP p /\ source p = src.
  Lemma C0_cs2 p p' : cs2 p p' -> C0 p -> C0 p'.
  Proof.
    intros ((E1 & E2 & E3) & H) ((A & B) & S). specialize (H B). split; [unfold BSLine1.curP; rewrite E1, E2; lia|rewrite E3; exact S].
  Qed.
  Lemma C0_advance p n : C0 p -> C0 (advance p n). Proof. apply C0_cs2, cs2_advance. Qed.
  Lemma C0_consumeLine p : C0 p -> C0 (consumeLine p). Proof. apply C0_cs2, cs2_consumeLine. Qed.
  Lemma C0_consumeIndent p n : C0 p -> C0 (consumeIndent p n). Proof. apply C0_cs2, cs2_consumeIndent. Qed.
  Lemma C0_updCont p f : C0 p -> C0 (updCont p f). Proof. apply C0_cs2, cs2_updCont. Qed.
  Lemma C0_withCont p c : C0 p -> C0 (withCont p c). Proof. apply C0_cs2, cs2_withCont. Qed.
  Lemma C0_withState p s : C0 p -> C0 (withState p s). Proof. apply C0_cs2, cs2_withState. Qed.
  Lemma C0_withRoot p r : C0 p -> C0 (withRoot p r). Proof. apply C0_cs2, cs2_withRoot. Qed.
  Lemma C0_opened p : C0 p -> C0 (if state p =? stOpening then withState p stOpenMatched else p). Proof. apply C0_cs2, cs2_opened. Qed.
  Lemma C0_closeLastChildAt p d e : C0 p -> C0 (closeLastChildAt p d e). Proof. apply C0_cs2, cs2_closeLastChildAt. Qed.
  Lemma C0_openBlock_up f p k : C0 p -> C0 (openBlock_up f p k). Proof. apply C0_cs2, cs2_openBlock_up. Qed.
  Lemma C0_openBlock p k : C0 p -> C0 (openBlock p k). Proof. apply C0_cs2, cs2_openBlock. Qed.
  Lemma C0_endBlock p : C0 p -> C0 (endBlock p). Proof. apply C0_cs2, cs2_endBlock. Qed.
  Lemma C0_collectInline p k n : C0 p -> C0 (collectInline p k n). Proof. apply C0_cs2, cs2_collectInline. Qed.
  Lemma C0_pos p : C0 p -> 0 <= lineStart p /\ 0 <= lineStart p + li p /\ source p = src.
  Proof. intros ((A & B) & S). repeat split; try assumption; lia. Qed.

  Ltac sc0 :=
    repeat match goal with
    | |- C0 (advance _ _) => apply C0_advance
    | |- C0 (consumeLine _) => apply C0_consumeLine
    | |- C0 (consumeIndent _ _) => apply C0_consumeIndent
    | |- C0 (updCont _ _) => apply C0_updCont
    | |- C0 (withCont _ _) => apply C0_withCont
    | |- C0 (withState _ _) => apply C0_withState
    | |- C0 (withRoot _ _) => apply C0_withRoot
    | |- C0 (closeLastChildAt _ _ _) => apply C0_closeLastChildAt
    | |- C0 (openBlock_up _ _ _) => apply C0_openBlock_up
    | |- C0 (openBlock _ _) => apply C0_openBlock
    | |- C0 (endBlock _) => apply C0_endBlock
    | |- C0 (collectInline _ _ _) => apply C0_collectInline
    | |- C0 (if state ?p =? stOpening then withState ?p stOpenMatched else ?p) => apply C0_opened
    end;
    try assumption.

  (* ---- the invariant on the parser state ---- *)
  Definition invP2 (p : lp) : Prop := inv2 (root p) = true.
  Lemma invP2_same p p' : same_tree p p' -> invP2 p -> invP2 p'.
  Proof. intros [E1 _]. unfold invP2. rewrite E1. tauto. Qed.
  Lemma invP2_advance p n : invP2 p -> invP2 (advance p n). Proof. apply invP2_same, L2Kind2.same_advance. Qed.
  Lemma invP2_consumeLine p : invP2 p -> invP2 (consumeLine p). Proof. apply invP2_same, L2Kind2.same_consumeLine. Qed.
  Lemma invP2_consumeIndent p n : invP2 p -> invP2 (consumeIndent p n). Proof. apply invP2_same, L2Kind2.same_consumeIndent. Qed.
  Lemma invP2_opened p : invP2 p -> invP2 (if state p =? stOpening then withState p stOpenMatched else p).
  Proof. apply invP2_same, L2Kind2.same_opened. Qed.
  Lemma invP2_withCont p c : invP2 p -> invP2 (withCont p c). Proof. exact (fun H => H). Qed.
  Lemma invP2_withState p s : invP2 p -> invP2 (withState p s). Proof. exact (fun H => H). Qed.
  Lemma invP2_updCont p f : invP2 p -> (forall b, inv2 b = true -> inv2 (f b) = true) -> invP2 (updCont p f).
  Proof. intros H Hf. unfold invP2, updCont. cbn. apply inv2_updAt; assumption. Qed.
  Lemma invP2_updCont_at p f : invP2 p ->
    (forall b, getAt (cdepth p) (root p) = Some b -> inv2 b = true -> inv2 (f b) = true) -> invP2 (updCont p f).
  Proof. intros H Hf. unfold invP2, updCont. cbn. apply inv2_updAt_at; assumption. Qed.

  Lemma invP2_closeLastChildAt p d e : source p = src -> 0 <= e -> invP2 p -> invP2 (closeLastChildAt p d e).
  Proof.
    intros Hs He H. unfold invP2, closeLastChildAt. cbn. apply inv2_updAt; [|assumption].
    intros b Hb. destruct (lastBlock b) as [c|] eqn:El; [|assumption].
    apply inv2_set_lastBlocks; [assumption|]. rewrite Hs. apply X_closeBlock; [exact He|]. eapply inv2_lastBlock; eassumption.
  Qed.
  Lemma invP2_openBlock_up : forall fuel p kind, C0 p -> invP2 p -> invP2 (openBlock_up fuel p kind).
  Proof.
    induction fuel as [|f IH]; intros p kind Hc H; [assumption|]. cbn [openBlock_up].
    destruct (canContain _ _); [assumption|]. destruct (cdepth p); [assumption|].
    destruct (C0_pos p Hc) as (A & B & S).
    apply IH; [sc0|]. apply invP2_withCont, invP2_closeLastChildAt; assumption.
  Qed.
  Lemma invP2_openBlock p kind : kind <> LinkReferenceDefinitionKind -> C0 p -> invP2 p -> invP2 (openBlock p kind).
  Proof.
    intros Hk Hc H. unfold openBlock. destruct (_ || _); [assumption|]. cbv zeta.
    apply invP2_withCont. apply invP2_updCont.
    - set (q := openBlock_up _ _ kind). assert (Hq : C0 q) by (unfold q; sc0).
      destruct (C0_pos q Hq) as (A & B & S). apply invP2_closeLastChildAt; [exact S|exact A|].
      apply invP2_openBlock_up; [sc0|]. apply invP2_opened, H.
    - intros b Hb. apply inv2_set_bkids; [assumption|]. rewrite inv2L_app. apply inv2_parts in Hb. destruct Hb as (_ & _ & Hb). rewrite Hb.
      cbn [ExOcp.inv2L forallb]. rewrite inv2_newBlock by exact Hk. reflexivity.
  Qed.
  Lemma invP2_endBlock p : C0 p -> invP2 p -> invP2 (endBlock p).
  Proof.
    intros Hc H. unfold endBlock. destruct (_ || _); [assumption|]. cbv zeta.
    set (q := if state p =? stOpening then withState p stOpenMatched else p). assert (Hq : C0 q) by (unfold q; sc0).
    destruct (cdepth q) eqn:Ed; [exact (invP2_opened p H)|].
    destruct (C0_pos q Hq) as (A & B & S). apply invP2_withCont, invP2_closeLastChildAt; [exact S|exact B|]. apply invP2_opened, H.
  Qed.

  (* adding an entry to a container that is neither a paragraph nor a definition *)
  Lemma invP2_collectInline p kind n K : invP2 p -> ckind p K -> isPSb K = false -> K <> LinkReferenceDefinitionKind ->
    invP2 (collectInline p kind n).
  Proof.
    intros H Hc Hp Hr. unfold collectInline. destruct (_ =? stDescendTerminated); [assumption|]. cbv zeta.
    set (p0 := if state p =? stOpening then withState p stOpenMatched else p).
    assert (H0 : invP2 p0) by (apply invP2_opened, H).
    assert (C0' : ckind p0 K) by (eapply L2Kind2.ckind_same; [apply L2Kind2.same_opened|exact Hc]).
    assert (Hadd : forall q, invP2 q -> ckind q K -> forall g, invP2 (updCont q (fun b => set_bik b (g b)))).
    { intros q Hq Cq g. apply invP2_updCont_at; [exact Hq|]. intros b Hb Hi. pose proof (Cq b Hb) as Eb.
      apply inv2_set_bik_free; [rewrite Eb; exact Hp|rewrite Eb; exact Hr|exact Hi]. }
    set (p1 := if 0 <? indent p0 then _ else p0).
    assert (H1 : invP2 p1 /\ ckind p1 K).
    { unfold p1. destruct (0 <? indent p0); [|tauto]. split.
      - apply (Hadd (advance p0 _)); [apply invP2_advance, H0|]. eapply L2Kind2.ckind_same; [apply L2Kind2.same_advance|exact C0'].
      - apply L2Kind2.ckind_updCont; [intros b; apply L2Kind2.bkind_set_bik|]. eapply L2Kind2.ckind_same; [apply L2Kind2.same_advance|exact C0']. }
    destruct H1 as [H1 C1].
    apply (Hadd (advance p1 n)); [apply invP2_advance, H1|]. eapply L2Kind2.ckind_same; [apply L2Kind2.same_advance|exact C1].
  Qed.

  (* ---- match rules ---- *)
  Lemma invP2_matchRule p : invP2 p -> invP2 (snd (matchRule p)).
  Proof.
    intros H. unfold matchRule. cbv zeta.
    destruct (_ || _); [assumption|].
    destruct (_ =? ListItemKind).
    { unfold matchListItem. destruct (isRestBlank p); [destruct (negb _); [assumption|apply invP2_consumeIndent, H]|].
      destruct (_ <=? _); [apply invP2_consumeIndent, H|assumption]. }
    destruct (_ =? BlockQuoteKind).
    { unfold matchBlockQuote. cbv zeta. destruct (_ <=? _); [assumption|]. destruct (negb _); [assumption|]. cbn [snd].
      unfold eatQuoteMarker. cbv zeta. destruct (0 <? _); repeat first [apply invP2_consumeIndent|apply invP2_advance]; assumption. }
    destruct (_ =? FencedCodeBlockKind).
    { unfold matchFenced. cbv zeta. destruct (if _ <? _ then _ else false); cbn [snd]; [apply invP2_consumeLine|apply invP2_consumeIndent]; assumption. }
    destruct (_ =? IndentedCodeBlockKind).
    { unfold matchIndented. cbv zeta. destruct (_ <? _); [destruct (negb _)|]; cbn [snd]; try apply invP2_consumeIndent; assumption. }
    destruct (Z.eqb_spec (containerKind p) HTMLBlockKind) as [Eh|Eh].
    { unfold matchHTML. destruct (htmlEnd _ _); [|assumption]. destruct (isRestBlank _); [assumption|]. cbn [snd]. apply invP2_consumeLine.
      apply (invP2_collectInline _ _ _ HTMLBlockKind); [assumption|rewrite <- Eh; apply L2Kind2.ckind_self|reflexivity|discriminate]. }
    assumption.
  Qed.

  (* ---- composite steps: the bounds invariant of L2Bnd supplies the cursor facts ---- *)
  Variable H : Z.
  Hypothesis H0 : 0 <= H.
  Variable ns : bool.
  Definition SP (p : lp) : Prop := L2Bnd.bndP H ns p /\ source p = src.
  Lemma SP_C0 p : SP p -> C0 p.
  Proof. intros ((_ & A & B & _) & S). split; [split; assumption|exact S]. Qed.
  Lemma src_of p q : envOf q = envOf p -> source q = source p. Proof. intros E. apply (env_parts _ _ E). Qed.

  Lemma invP2_descend_loop : forall fuel p d, SP p -> invP2 p -> invP2 (snd (descend_loop fuel p d)).
  Proof.
    induction fuel as [|f IH]; intros p d Hs Hi; [assumption|]. cbn [descend_loop]. cbv zeta.
    destruct (getAt (S d) (root p)) as [c|]; [|assumption].
    destruct (negb (isOpen c)); [assumption|]. destruct (negb (hasMatch _)); [assumption|].
    set (q := withState (withCont p (Some (S d))) stDescending).
    assert (Hq : SP q) by exact Hs.
    pose proof (invP2_matchRule q Hi) as H2.
    pose proof (L2Bnd.bndP_matchRule H ns q (proj1 Hq)) as B2.
    pose proof (src_of _ _ (env_matchRule q)) as S2.
    destruct (matchRule q) as [ok p2]. cbn [snd] in H2, B2, S2.
    assert (Hs2 : SP p2) by (split; [exact B2|rewrite S2; exact (proj2 Hq)]).
    destruct (state p2 =? stDescendTerminated).
    { cbn [snd]. destruct (C0_pos p2 (SP_C0 p2 Hs2)) as (A & B & S). apply invP2_withCont, invP2_closeLastChildAt; assumption. }
    destruct (negb ok); [assumption|]. apply IH; assumption.
  Qed.

  (* ---- block starts ---- *)
  Ltac chain Hc Hi :=
    repeat match goal with
    | |- invP2 (consumeLine _) => apply invP2_consumeLine
    | |- invP2 (endBlock _) => apply invP2_endBlock; [sc0|]
    | |- invP2 (advance _ _) => apply invP2_advance
    | |- invP2 (consumeIndent _ _) => apply invP2_consumeIndent
    | |- invP2 (openBlock _ _) => apply invP2_openBlock; [discriminate|sc0|]
    | |- invP2 (updCont _ _) => apply invP2_updCont; [|intros ? ?; rewrite ?inv2_set_bn, ?inv2_set_bchar, ?inv2_set_bindent; assumption]
    end;
    try exact Hi.

  Lemma invP2_startBlockQuote p : C0 p -> invP2 p -> invP2 (startBlockQuote p).
  Proof. intros Hc Hi. unfold startBlockQuote. cbv zeta. destruct (_ <=? _); [assumption|]. destruct (negb _); [assumption|].
         destruct (0 <? _); chain Hc Hi. Qed.
  Lemma invP2_startATX p : C0 p -> st_open p -> invP2 p -> invP2 (startATX p).
  Proof.
    intros Hc Hs Hi. unfold startATX. cbv zeta. destruct (_ <=? _); [assumption|].
    destruct (parseATXHeading _) as [[level cs] ce]. destruct (level <? 1); [assumption|].
    apply invP2_endBlock; [sc0|]. apply invP2_consumeLine.
    apply (invP2_collectInline _ _ _ ATXHeadingKind); [chain Hc Hi| |reflexivity|discriminate].
    eapply L2Kind2.ckind_same; [apply L2Kind2.same_advance|]. apply L2Kind2.ckind_updCont; [intros b; destruct b; reflexivity|].
    apply L2Kind2.ckind_openBlock, L2Kind2.st_open_consumeIndent, Hs.
  Qed.
  Lemma invP2_startFenced p : C0 p -> st_open p -> invP2 p -> invP2 (startFenced p).
  Proof.
    intros Hc Hs Hi. unfold startFenced. cbv zeta. destruct (_ <=? _); [assumption|].
    destruct (parseCodeFence _) as [[[fc fnn] is_] ie]. destruct (fnn =? 0); [assumption|].
    apply invP2_consumeLine. destruct (spanValid _); [|chain Hc Hi].
    apply (invP2_collectInline _ _ _ FencedCodeBlockKind); [chain Hc Hi| |reflexivity|discriminate].
    eapply L2Kind2.ckind_same; [apply L2Kind2.same_advance|].
    apply L2Kind2.ckind_updCont; [intros b; destruct b; reflexivity|]. apply L2Kind2.ckind_updCont; [intros b; destruct b; reflexivity|].
    apply L2Kind2.ckind_openBlock, L2Kind2.st_open_consumeIndent, Hs.
  Qed.
  Lemma invP2_startHTML p : C0 p -> st_open p -> invP2 p -> invP2 (startHTML p).
  Proof.
    intros Hc Hs Hi. unfold startHTML. cbv zeta. destruct (_ <=? _); [assumption|]. destruct (negb _); [assumption|].
    destruct (_ <? 0); [assumption|]. destruct (negb _ && _); [assumption|]. destruct (htmlEnd _ _); [|chain Hc Hi].
    apply invP2_endBlock; [sc0|]. apply invP2_consumeLine.
    apply (invP2_collectInline _ _ _ HTMLBlockKind); [chain Hc Hi| |reflexivity|discriminate].
    apply L2Kind2.ckind_updCont; [intros b; destruct b; reflexivity|]. apply L2Kind2.ckind_openBlock, Hs.
  Qed.
  Lemma set_bkind_same x : set_bkind x (bkind x) = x. Proof. destruct x; reflexivity. Qed.
  Lemma invP2_startSetext p : C0 p -> invP2 p -> invP2 (startSetext p).
  Proof.
    intros Hc Hi. unfold startSetext. cbv zeta. destruct (negb (containerKind p =? ParagraphKind)) eqn:Ek; [assumption|].
    do 2 (match goal with |- invP2 (if ?c then _ else _) => destruct c end; [assumption|]).
    destruct (containerHasParagraphContent p) eqn:PC; cbn [negb]; [|assumption].
    apply invP2_endBlock; [sc0|]. apply invP2_consumeLine. apply invP2_updCont_at; [assumption|].
    intros b Hb Hib. rewrite inv2_set_bn. apply negb_false_iff, Z.eqb_eq in Ek.
    pose proof (L2Kind2.ckind_self p b Hb) as Eb. rewrite Ek in Eb.
    assert (HP : lpok src (bik b) = true).
    { unfold containerHasParagraphContent in PC. rewrite Ek in PC. change (negb (ParagraphKind =? ParagraphKind)) with false in PC. cbv iota zeta in PC.
      unfold contBlock in PC. rewrite Hb in PC. rewrite <- (lpok_of_para src b Eb). rewrite <- (proj2 Hc). exact PC. }
    apply inv2_parts in Hib. destruct Hib as (A & B & C). destruct b as [K s e bk ik a n c l lb]. cbn [bkind bik] in *. subst K.
    cbn [set_bkind]. apply inv2_mk; [| |exact C].
    - unfold locQ in *. cbn [bend bkind bik] in *. change (isPSb SetextHeadingKind) with true. change (isPSb ParagraphKind) with true in A.
      destruct (e <? 0); [|reflexivity]. cbn [andb negb orb] in *. apply andb_true_iff in A. destruct A as [A _]. rewrite A, HP. reflexivity.
    - reflexivity.
  Qed.
  Lemma invP2_startThematic p : C0 p -> invP2 p -> invP2 (startThematic p).
  Proof. intros Hc Hi. unfold startThematic. cbv zeta. destruct (_ <=? _); [assumption|]. destruct (_ <? 0); [assumption|]. chain Hc Hi. Qed.
  Lemma invP2_startListItem p : C0 p -> invP2 p -> invP2 (startListItem p).
  Proof.
    intros Hc Hi. unfold startListItem. cbv zeta. destruct (_ <=? _); [assumption|].
    destruct (parseListMarker _) as [[delim n] mend]. destruct (_ || _); [assumption|]. destruct (_ && _); [assumption|].
    match goal with |- context [endBlock ?X] => assert (H1 : invP2 (endBlock X) /\ C0 (endBlock X)) end.
    { destruct (negb _ || negb _); (split; [chain Hc Hi|sc0]). }
    destruct H1 as [H1 Hc1].
    match goal with |- context [endBlock ?X] => set (q := endBlock X) in * end.
    destruct (isRestBlank q); [chain Hc1 H1|].
    destruct (indent q <? 1); [chain Hc1 H1|]. destruct (4 <? indent q); chain Hc1 H1.
  Qed.
  Lemma invP2_startIndented p : C0 p -> invP2 p -> invP2 (startIndented p).
  Proof. intros Hc Hi. unfold startIndented. destruct (_ || _ || _); [assumption|]. chain Hc Hi. Qed.

  Definition startOK2 (f : lp -> lp) : Prop := forall p, C0 p -> st_open p -> invP2 p -> invP2 (f p).
  Lemma blockStarts_ok2 : Forall startOK2 blockStarts.
  Proof.
    unfold blockStarts. repeat constructor; intros p Hc Hs Hi;
      [apply invP2_startBlockQuote|apply invP2_startATX|apply invP2_startFenced|apply invP2_startHTML
      |apply invP2_startSetext|apply invP2_startThematic|apply invP2_startListItem|apply invP2_startIndented]; assumption.
  Qed.
  Lemma invP2_tryStarts : forall fs p, Forall startOK2 fs -> Forall (L2Bnd.startOKb H ns) fs -> (forall f, In f fs -> forall q, envOf (f q) = envOf q) ->
    SP p -> invP2 p -> invP2 (snd (tryStarts fs p)).
  Proof.
    induction fs as [|f r IH]; intros p Hfs Hbs He Hs Hi; [assumption|]. cbn [tryStarts]. cbv zeta.
    inversion Hfs as [|? ? Hf Hr]; subst. inversion Hbs as [|? ? Hbf Hbr]; subst.
    assert (Hs0 : SP (withState p stOpening)) by exact Hs.
    assert (H1 : invP2 (f (withState p stOpening))) by (apply Hf; [apply SP_C0, Hs0|left; reflexivity|exact Hi]).
    destruct (_ || _); [assumption|]. apply IH; [assumption|assumption|intros g Hg; apply He; right; exact Hg| |assumption].
    split; [apply Hbf, Hs0|]. rewrite (src_of _ _ (He f (or_introl eq_refl) _)). exact (proj2 Hs).
  Qed.
  Lemma SP_tryStarts p : SP p -> SP (snd (tryStarts blockStarts p)).
  Proof.
    intros [A B]. split; [apply (L2Bnd.bndP_tryStarts H ns); [apply L2Bnd.blockStarts_okb; exact H0|exact A]|].
    rewrite (src_of _ _ (env_tryStarts blockStarts p env_blockStarts)). exact B.
  Qed.
  Lemma invP2_opening_loop : forall fuel p, SP p -> invP2 p -> invP2 (snd (opening_loop fuel p)).
  Proof.
    induction fuel as [|f IH]; intros p Hs Hi; [assumption|]. cbn [opening_loop].
    destruct (_ || _); [|assumption].
    pose proof (invP2_tryStarts blockStarts p blockStarts_ok2 (L2Bnd.blockStarts_okb H H0 ns) env_blockStarts Hs Hi) as H1.
    pose proof (SP_tryStarts p Hs) as Hs1.
    destruct (tryStarts blockStarts p) as [[|] p1]; cbn [snd] in H1, Hs1.
    - destruct (_ =? stLineConsumed); [assumption|apply IH; assumption].
    - assumption.
  Qed.
  Lemma SP_opening_loop fuel p : SP p -> SP (snd (opening_loop fuel p)).
  Proof.
    intros [A B]. split; [apply (L2Bnd.bndP_opening_loop H H0 ns), A|]. rewrite (src_of _ _ (env_opening_loop fuel p)). exact B.
  Qed.
  Lemma invP2_deferredClose p : C0 p -> invP2 p -> invP2 (deferredClose p).
  Proof.
    intros Hc Hi. unfold deferredClose. cbv zeta. destruct (_ && _); [assumption|].
    destruct (C0_pos p Hc) as (A & B & S). apply invP2_closeLastChildAt; assumption.
  Qed.
  Lemma invP2_openNewBlocks p am : SP p -> invP2 p -> invP2 (snd (openNewBlocks p am)).
  Proof.
    intros Hs Hi. unfold openNewBlocks. destruct (_ =? 0).
    - cbn [snd]. unfold invP2. cbn. destruct (C0_pos p (SP_C0 p Hs)) as (A & B & S). rewrite S.
      pose proof (X_closeBlock src (lineStart p) A (bheight (root p)) (root p) Hi) as Hc.
      destruct (closeBlock _ _ _ _) as [|b r]; [assumption|]. cbn in Hc. apply andb_true_iff in Hc. tauto.
    - pose proof (invP2_opening_loop (S (length (line p))) p Hs Hi) as H1.
      pose proof (SP_opening_loop (S (length (line p))) p Hs) as Hs1.
      destruct (opening_loop _ p) as [ht p1]. cbn [snd] in H1, Hs1.
      destruct am; cbn [snd]; [assumption|apply invP2_deferredClose; [apply SP_C0, Hs1|exact H1]].
  Qed.
End Walk.

(* ================================================================ the half that is carried from line to line *)
Fixpoint invX (b : block) : bool :=
  match b with Blk K s e bk ik a n c l lb => locX (Blk K s e bk ik a n c l lb) && forallb invX bk end.
Definition invXL (l : list block) : bool := forallb invX l.
Lemma invX_eq b : invX b = locX b && invXL (bkids b). Proof. destruct b; reflexivity. Qed.
Lemma invX_parts b : invX b = true -> locX b = true /\ invXL (bkids b) = true. Proof. rewrite invX_eq. apply andb_true_iff. Qed.
Lemma invX_of_inv2 src : forall b, inv2 src b = true -> invX b = true.
Proof.
  fix IH 1. intros [K s e bk ik a n c l lb] H. cbn [inv2] in H. apply andb_true_iff in H. destruct H as [H Hk].
  apply andb_true_iff in H. destruct H as [_ Hx]. cbn [invX]. rewrite Hx. cbn [andb]. clear Hx.
  induction bk as [|x r IHr]; [reflexivity|]. cbn [forallb] in *. apply andb_true_iff in Hk. destruct Hk as [A B]. rewrite (IH x A), (IHr B). reflexivity.
Qed.
Lemma invXL_of_inv2L src l : inv2L src l = true -> invXL l = true.
Proof. unfold inv2L, invXL. rewrite !forallb_forall. intros H x Hx. apply (invX_of_inv2 src), H, Hx. Qed.

Lemma invX_set_bkids b ks : invX b = true -> invXL ks = true -> invX (set_bkids b ks) = true.
Proof. intros H Hk. apply invX_parts in H. destruct H as [A _]. destruct b. rewrite invX_eq. cbn [set_bkids bkids]. rewrite Hk, andb_true_r. exact A. Qed.
Lemma invX_set_bik b ik' : bkind b <> LinkReferenceDefinitionKind -> invX b = true -> invX (set_bik b ik') = true.
Proof.
  intros Hr H. apply invX_parts in H. destruct H as [_ C]. destruct b as [K s e bk ik a n c l lb]. cbn [bkind] in Hr.
  rewrite invX_eq. cbn [set_bik bkids]. cbn [bkids] in C. rewrite C, andb_true_r. unfold locX. cbn [bkind]. apply Z.eqb_neq in Hr. rewrite Hr. reflexivity.
Qed.
Lemma invXL_app a b : invXL (a ++ b) = invXL a && invXL b. Proof. apply forallb_app. Qed.
Lemma invX_lastBlock b c : invX b = true -> lastBlock b = Some c -> invX c = true.
Proof.
  intros H Hl. apply invX_parts in H. destruct H as [_ H]. unfold invXL in H. rewrite forallb_forall in H. apply H. eapply lastBlock_In. exact Hl.
Qed.
Lemma invX_set_lastBlocks b repl : invX b = true -> invXL repl = true -> invX (set_lastBlocks b repl) = true.
Proof.
  intros H Hr. unfold set_lastBlocks. apply invX_set_bkids; [assumption|].
  rewrite invXL_app, Hr, andb_true_r. apply invX_parts in H. destruct H as [_ H]. revert H. apply forallb_sub. intros x. apply removelast_In.
Qed.
Lemma invX_updAt_at f : forall d b, invX b = true ->
  (forall x, getAt d b = Some x -> invX x = true -> invX (f x) = true) -> invX (updAt d f b) = true.
Proof.
  induction d as [|d IH]; intros b H Hf; [apply Hf; [reflexivity|assumption]|]. cbn [updAt].
  destruct (lastBlock b) as [c|] eqn:El; [|assumption].
  apply invX_set_lastBlocks; [assumption|]. unfold invXL. cbn [forallb]. rewrite andb_true_r.
  apply IH; [eapply invX_lastBlock; eassumption|]. intros x Hx. apply Hf. cbn [getAt]. rewrite El. exact Hx.
Qed.

Definition invXP (p : lp) : Prop := invX (root p) = true.
Lemma invXP_same p p' : same_tree p p' -> invXP p -> invXP p'.
Proof. intros [E1 _]. unfold invXP. rewrite E1. tauto. Qed.
Lemma invXP_updCont_at p f : invXP p ->
  (forall b, getAt (cdepth p) (root p) = Some b -> invX b = true -> invX (f b) = true) -> invXP (updCont p f).
Proof. intros H Hf. unfold invXP, updCont. cbn. apply invX_updAt_at; assumption. Qed.
(* appending entries to a container that is not a definition *)
Lemma invXP_addik q g : invXP q -> containerKind q <> LinkReferenceDefinitionKind -> invXP (updCont q (fun b => set_bik b (g b))).
Proof.
  intros Hq Nk. apply invXP_updCont_at; [exact Hq|]. intros b Hb Hi. apply invX_set_bik; [|exact Hi].
  rewrite (L2Kind2.ckind_self q b Hb). exact Nk.
Qed.
Lemma containerKind_addik q g : containerKind (updCont q (fun b => set_bik b (g b))) = containerKind q.
Proof. apply L2Kind2.containerKind_updCont. intros b. apply L2Kind2.bkind_set_bik. Qed.

Lemma invXP_go q : invXP q -> containerKind q <> LinkReferenceDefinitionKind ->
  invXP (let k := containerKind q in
        let inlineKind := if isCode k then TextKind else if k =? HTMLBlockKind then RawHTMLKind else UnparsedKind in
        let q' := updCont q (fun b => set_bik b (bik b ++ [mkI inlineKind (lineStart q + li q) (lineStart q + len (line q))])) in
        if isCode k && negb (hasByteSuffixEOL (line q')) then
          updCont q' (fun b => set_bik b (bik b ++ [mkI SoftLineBreakKind (lineStart q' + len (line q')) (lineStart q' + len (line q'))]))
        else q').
Proof.
  intros Hq Nk. cbv zeta.
  set (q' := updCont q _).
  assert (Hq' : invXP q') by (apply (invXP_addik q (fun b => bik b ++ [_])); assumption).
  assert (Kq' : containerKind q' = containerKind q) by (apply (containerKind_addik q (fun b => bik b ++ [_]))).
  destruct (isCode (containerKind q) && negb _); [|exact Hq'].
  apply (invXP_addik q' (fun b => bik b ++ [_])); [exact Hq'|rewrite Kq'; exact Nk].
Qed.

Section Line.
  Variable src : bytes.
  Variable H : Z.
  Hypothesis H0 : 0 <= H.
  Variable ns : bool.

  Lemma inv2_setLastBlankUpTo v : forall d rt, inv2 src rt = true -> inv2 src (setLastBlankUpTo d v rt) = true.
  Proof.
    induction d as [|d IH]; intros rt Hr; cbn [setLastBlankUpTo].
    - cbn [updAt]. rewrite inv2_set_blast. assumption.
    - apply IH. apply inv2_updAt; [intros b Hb; rewrite inv2_set_blast; assumption|assumption].
  Qed.

  Lemma X_addLineText p : C0 src p -> invP2 src p -> (acceptsLines (containerKind p) = false -> st_open p) -> invXP (addLineText p).
  Proof.
    intros Hc Hi Hst. unfold addLineText. cbv zeta.
    set (p1 := if isRestBlank p then _ else p).
    assert (H1 : invP2 src p1).
    { unfold p1. destruct (isRestBlank p); [|assumption]. apply invP2_updCont; [assumption|].
      intros b Hb. destruct (lastBlock b) as [c|] eqn:El; [|assumption].
      apply inv2_set_lastBlocks; [assumption|]. cbn. rewrite inv2_set_blast, andb_true_r. eapply inv2_lastBlock; eassumption. }
    assert (C1 : C0 src p1) by (unfold p1; destruct (isRestBlank p); [apply C0_updCont|]; exact Hc).
    assert (K1 : containerKind p1 = containerKind p).
    { unfold p1. destruct (isRestBlank p); [|reflexivity]. apply L2Kind2.containerKind_updCont.
      intros b. destruct (lastBlock b); [destruct b; reflexivity|reflexivity]. }
    assert (S1 : state p1 = state p) by (unfold p1; destruct (isRestBlank p); reflexivity).
    set (p2 := withRoot p1 _).
    assert (H2 : invP2 src p2) by (unfold p2, invP2; cbn; apply inv2_setLastBlankUpTo; exact H1).
    assert (C2 : C0 src p2) by (unfold p2; apply C0_withRoot; exact C1).
    assert (K2 : containerKind p2 = containerKind p).
    { rewrite <- K1. unfold containerKind, contBlock, p2, cdepth. cbn [root container withRoot setLP]. fold (cdepth p1).
      match goal with |- bkind (match getAt ?k (setLastBlankUpTo ?d ?v ?r) with _ => _ end) = _ =>
        pose proof (L2Kind2.kindAt_setLastBlankUpTo v d k r) as E end.
      destruct (getAt (cdepth p1) (setLastBlankUpTo _ _ _)); destruct (getAt (cdepth p1) (root p1)); cbn in E; try congruence; reflexivity. }
    assert (S2 : state p2 = state p) by exact S1.
    change (bkind (contBlock p1)) with (containerKind p1). rewrite K1.
    assert (X2 : invXP p2) by (apply (invX_of_inv2 src), H2).
    destruct (acceptsLines (containerKind p)) eqn:Ea.
    - assert (N2 : containerKind p2 <> LinkReferenceDefinitionKind) by (rewrite K2; apply L2Kind2.acceptsLines_notref, Ea).
      apply invXP_go.
      + match goal with |- invXP (if ?c then _ else _) => destruct c end; [|exact X2].
        eapply invXP_same; [apply L2Kind2.same_consumeIndent|]. apply (invXP_addik p2 (fun b => bik b ++ [_])); assumption.
      + match goal with |- containerKind (if ?c then _ else _) <> _ => destruct c end; [|exact N2].
        rewrite (L2Kind2.containerKind_same _ _ (L2Kind2.same_consumeIndent _ _)), (containerKind_addik p2 (fun b => bik b ++ [_])). exact N2.
    - match goal with |- invXP (if ?c then _ else _) => destruct c end; [|exact X2].
      assert (So : st_open p2) by (unfold L2Kind2.st_open; rewrite S2; exact (Hst eq_refl)).
      apply invXP_go.
      + eapply invXP_same; [apply L2Kind2.same_consumeIndent|]. apply (invX_of_inv2 src). apply invP2_openBlock; [discriminate|exact C2|exact H2].
      + apply (L2Kind2.ckind_notref _ ParagraphKind); [|discriminate].
        eapply L2Kind2.ckind_same; [apply L2Kind2.same_consumeIndent|]. apply L2Kind2.ckind_openBlock, So.
  Qed.

  Theorem X_processLine st children ls : 0 <= ls -> ls + len (from_ src ls) = H -> len src <= H ->
    (ns = true -> hasByteSuffixEOL (from_ src ls) = true) -> L2Bnd.bndL H ns children = true ->
    inv2L src children = true -> invXL (fst (fst (processLine st children ls src))) = true.
  Proof.
    intros Hls Hhi Hsrc Hns Hb Hi. unfold processLine. cbv zeta.
    set (p0 := resetLP st children ls src).
    assert (Hs0 : SP src H ns p0).
    { split; [|reflexivity]. unfold L2Bnd.bndP, p0, resetLP. cbn [root lineStart li line source].
      assert (Hlen : 0 <= len (from_ src ls)) by (unfold len; lia).
      refine (conj _ (conj Hls (conj (conj (Z.le_refl 0) Hlen) (conj Hhi (conj Hsrc Hns))))).
      cbn [L2Bnd.bnd forallb]. change (-1 <? 0) with true. change (documentKind =? LinkReferenceDefinitionKind) with false. cbn [orb andb]. exact Hb. }
    assert (Hi0 : invP2 src p0) by (unfold invP2, p0; cbn; exact Hi).
    pose proof (invP2_descend_loop src H ns (bheight (root p0)) p0 O Hs0 Hi0) as H1.
    assert (Hs1 : SP src H ns (snd (descend_loop (bheight (root p0)) p0 O))).
    { split; [apply (L2Bnd.bndP_descend_loop H H0 ns), Hs0|]. rewrite (src_of _ _ (env_descend_loop _ p0 O)). reflexivity. }
    fold (descendOpenBlocks p0) in H1, Hs1.
    destruct (descendOpenBlocks p0) as [am p1]. cbn [snd] in H1, Hs1.
    set (R2 := if negb (state p1 =? stDescendTerminated) then openNewBlocks p1 am else (false, p1)).
    assert (H2 : invP2 src (snd R2) /\ SP src H ns (snd R2) /\ (fst R2 = true -> L2Kind2.goodSt (snd R2))).
    { unfold R2. destruct (negb _).
      - split; [apply (invP2_openNewBlocks src H H0 ns); assumption|]. split; [|apply L2Kind2.openNewBlocks_good].
        split; [apply (L2Bnd.bndP_openNewBlocks H H0 ns), Hs1|]. rewrite (src_of _ _ (env_openNewBlocks p1 am)). exact (proj2 Hs1).
      - split; [assumption|split; [assumption|cbn; discriminate]]. }
    destruct R2 as [ht p2]. cbn [fst snd] in H2. destruct H2 as (H2 & Hs2 & G2). cbn [fst].
    assert (H3 : invXP (if ht then addLineText p2 else p2)).
    { destruct ht; [apply X_addLineText; [apply (SP_C0 src H ns), Hs2|exact H2|exact (G2 eq_refl)]|apply (invX_of_inv2 src), H2]. }
    unfold invXP in H3. apply invX_parts in H3. destruct H3 as [_ H3].
    destruct (if ht then addLineText p2 else p2); exact H3.
  Qed.
End Line.

Print Assumptions X_processLine.
