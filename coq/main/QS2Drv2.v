(* QS2Drv2.v -- T58: the relocation invariant between lines and across the cut of a root block, for documents that may contain '['.
     ceB0_ext     the weak invariant survives a longer source;
     strengthen   the facts about open paragraphs (OPd) are recovered from the "lines accounted" invariant la;
     geB2 / la_geB2   lower bounds for every position of a block, including the parts of definition blocks (from DefSpansWalk.invD);
     MO2_cut / ceB0_cut   cutting n bytes off the buffer does not change the image of a block that lies behind the cut. *)
From Coq Require Import List ZArith Lia Bool Arith.
Import ListNotations.
Require Import Base Tree Rdr Link Collect Html Recog LP Rules Starts Driver Rec16 Rec17 Rec18 L2Kind L2CC
  LADef LA1 LA11 LA12 LA13 IFBase SpanHypDef DefSpans DefSpansOcp DefSpansWalk DefSpansDrv
  QuoteSimDefs QuoteSimTree QuoteSimNest QuoteSimMap QuoteSimReloc QuoteSimLines QuoteSimDrv1 QuoteSimDrv2 QuoteSimSpec
  QCutsDef QCuts QRdrBase QRdrCollect QRdrOcp QRdrKids QS2Reloc QS2Drv1.
Open Scope Z_scope.

(* ---- a longer source ---- *)
Lemma ceB0_ext sD sQ sg X Y nD nQ : sD = upto X nD -> sQ = upto Y nQ -> forall b, QS2Reloc.ceB0 sD sQ sg b -> QS2Reloc.ceB0 X Y sg b.
Proof.
  intros ED EQ. apply (QS2Reloc.block_kids_ind2 (fun b => QS2Reloc.ceB0 sD sQ sg b -> QS2Reloc.ceB0 X Y sg b)). intros b IH H.
  apply QS2Reloc.ceB0_eq in H. destruct H as (A & B & L4 & Dk). apply QS2Reloc.ceB0_eq.
  split; [intros K; specialize (A K); revert A; apply Forall_impl; intros u; apply (ceI_ext sD sQ sg X Y nD nQ u ED EQ)|]. split; [exact B|]. split; [exact L4|].
  unfold QS2Reloc.ceL0 in *. rewrite Forall_forall in *. intros x Hx. apply IH; [exact Hx|apply Dk, Hx].
Qed.

(* ---- from la: the entries of a paragraph are good reader spans ---- *)
Lemma tileS_spW src : forall ik lo hi, 0 <= lo -> hi <= len src -> tileS src lo hi (map ispan ik) -> spW src ik = true /\ Forall (fun j => lo <= istart j) ik.
Proof.
  induction ik as [|u r IH]; intros lo hi Hlo Hhi H; [split; [reflexivity|constructor]|].
  cbn [map tileS] in H. destruct H as (A & _ & B & C). cbn [ispan fst snd] in A, B, C.
  pose proof (tileS_le _ _ _ _ C) as Hle.
  destruct (IH (iend u) hi ltac:(lia) Hhi C) as [W G]. split.
  - cbn [spW]. rewrite W, andb_true_r. apply andb_true_iff. split.
    + apply andb_true_iff. split; [apply andb_true_iff; split|]; apply Z.leb_le; lia.
    + apply forallb_forall. intros j Hj. rewrite Forall_forall in G. apply Z.leb_le. apply G, Hj.
  - constructor; [exact A|]. revert G. apply Forall_impl. intros j Hj. lia.
Qed.

Lemma strengthen src sQ sg M : noCR src -> M <= len src ->
  forall b, la src M b -> QS2Reloc.ceB0 src sQ sg b -> QS2Reloc.ceB src sQ sg (OPd src sg) b.
Proof.
  intros Hcr HM. apply (QS2Reloc.block_kids_ind2 (fun b => la src M b -> QS2Reloc.ceB0 src sQ sg b -> QS2Reloc.ceB src sQ sg (OPd src sg) b)).
  intros b IH Hla Hc. apply la_eq in Hla. destruct Hla as (B1 & B2 & B3 & Hbody & Hkids).
  apply QS2Reloc.ceB0_eq in Hc. destruct Hc as (A & B & L4 & Dk). apply QS2Reloc.ceB_eq.
  split; [exact A|]. split; [exact B|]. split; [|split; [exact L4|]].
  - intros K. right.
    assert (Kc : bkind b = ParagraphKind \/ bkind b = SetextHeadingKind).
    { unfold isParaK in K. apply orb_true_iff in K. destruct K as [K|K]; apply Z.eqb_eq in K; [left|right]; exact K. }
    assert (El : isLeafK (bkind b) = true) by (destruct Kc as [-> | ->]; reflexivity).
    assert (Nl : bkind b <> LinkReferenceDefinitionKind) by (destruct Kc as [-> | ->]; discriminate).
    unfold body in Hbody. rewrite El in Hbody. destruct Hbody as (Ht & He & _).
    assert (Hhi : hiOf M b <= len src) by (pose proof (hiOf_le M b ltac:(lia)); lia).
    destruct (tileS_spW src (bik b) (bstart b) (hiOf M b) ltac:(lia) Hhi Ht) as [W _].
    split; [split; [|exact W]|].
    + specialize (A Nl). specialize (B K). rewrite Forall_forall in *. intros u Hu.
      destruct (A u Hu) as (_ & _ & C1 & C2 & _ & _ & _ & _ & C3). pose proof (B u Hu) as Ku. unfold QS2Reloc.unpK in Ku.
      destruct (He u Hu) as (_ & E2 & _). destruct (E2 K) as [(Ki & _)|(_ & LO)]; [rewrite Ku in Ki; discriminate Ki|].
      destruct LO as (L1 & _ & _ & L4').
      split; [lia|]. split; [exact L1|]. split; [exact C2|]. split; [exact C3|]. split; [exact Ku|].
      destruct L4' as [L4'|L4']; [right; exact L4'|left].
      unfold isEOLz in L4'. apply orb_true_iff in L4'. destruct L4' as [L4'|L4']; apply Z.eqb_eq in L4'; [exact L4'|].
      exfalso. apply (Forall_at (fun c => c <> 13) src (iend u - 1) Hcr); [lia|exact L4'].
    + intros Ks Ho'. exfalso. apply B3; [|exact Ks]. unfold isOpen in Ho'. apply Z.ltb_lt in Ho'. exact Ho'.
  - apply QuoteSimDrv2.allQ_Forall in Hkids. unfold QS2Reloc.ceL, QS2Reloc.ceL0 in *. rewrite Forall_forall in *. intros x Hx. apply IH; [exact Hx|apply Hkids, Hx|apply Dk, Hx].
Qed.

Lemma strengthenL src sQ sg M ks : noCR src -> M <= len src -> la src M (docRoot ks) -> QS2Reloc.ceL0 src sQ sg ks -> QS2Reloc.ceL src sQ sg (OPd src sg) ks.
Proof.
  intros Hcr HM Hla Hc. apply docRoot_parts in Hla. destruct Hla as (_ & _ & Hal). apply QuoteSimDrv2.allQ_Forall in Hal.
  unfold QS2Reloc.ceL, QS2Reloc.ceL0 in *. rewrite Forall_forall in *. intros x Hx. apply (strengthen src sQ sg M Hcr HM); [apply Hal, Hx|apply Hc, Hx].
Qed.

(* ---- lower bounds, including the parts of definition blocks ---- *)
Definition nokidI (c : inline) : Prop := ikids c = [].
Definition geL (n : Z) (u : inline) : Prop :=
  n <= istart u /\ n <= iend u /\ Forall (fun c => n <= istart c /\ n <= iend c /\ ikids c = []) (ikids u).
Definition geE (n : Z) (u : inline) : Prop := if QuoteSimMap.isLinkPart (ikind u) then geL n u else geI n u.
Fixpoint geB2 (n : Z) (b : block) : Prop :=
  match b with Blk k s e bk ik _ _ _ _ _ =>
    n <= s /\ (e < 0 \/ n <= e) /\ Forall (geE n) ik /\
    (fix go (l : list block) : Prop := match l with [] => True | x :: r => geB2 n x /\ go r end) bk end.
Lemma geB2_eq n b : geB2 n b <-> n <= bstart b /\ (bend b < 0 \/ n <= bend b) /\ Forall (geE n) (bik b) /\ Forall (geB2 n) (bkids b).
Proof.
  destruct b as [k s e bk ik a nn c l lb]. cbn [geB2 bstart bend bik bkids].
  assert (E : forall l0, (fix go (l : list block) : Prop := match l with [] => True | x :: r => geB2 n x /\ go r end) l0 <-> Forall (geB2 n) l0).
  { induction l0 as [|x r IH]; [split; [constructor|exact (fun _ => I)]|]. split.
    - intros [A B]. constructor; [exact A|apply IH, B].
    - intros H. inversion H as [|? ? Ha Hb]. split; [exact Ha|apply IH; exact Hb]. }
  split; intros (A & B & C & F); (split; [exact A|split; [exact B|split; [exact C|apply E, F]]]).
Qed.

Lemma ordX_kids : forall l lo hi c, ordered_inX lo hi l = true -> forallb vkid l = true -> In c l -> lo <= istart c /\ istart c <= iend c.
Proof.
  intros l lo hi c O V Hc. split; [apply (ordX_starts l lo hi c O V Hc)|]. rewrite forallb_forall in V. specialize (V c Hc). unfold vkid in V. apply Z.leb_le, V.
Qed.

Lemma la_geB2 sD sQ sg src M : forall b, cc b = true -> la src M b -> QS2Reloc.ceB0 sD sQ sg b -> invD b = true -> forall n, 0 <= n <= bstart b -> geB2 n b.
Proof.
  apply (QS2Reloc.block_kids_ind2 (fun b => cc b = true -> la src M b -> QS2Reloc.ceB0 sD sQ sg b -> invD b = true -> forall n, 0 <= n <= bstart b -> geB2 n b)).
  intros b IH Hcc Hla Hce Hinv n Hn. apply la_eq in Hla. destruct Hla as (B1 & B2 & _ & Hbody & Hkids).
  apply QS2Reloc.ceB0_eq in Hce. destruct Hce as (Hci & _ & L4 & Hck). apply invD_parts in Hinv. destruct Hinv as [Hloc Hik].
  apply geB2_eq. split; [lia|]. split; [destruct B2 as [B2|[B2 _]]; [left; exact B2|right; lia]|].
  unfold body in Hbody. split.
  - destruct (Z.eq_dec (bkind b) LinkReferenceDefinitionKind) as [Ek|Nk].
    + (* a definition block: invD *)
      unfold locD in Hloc. rewrite Ek in Hloc. change (LinkReferenceDefinitionKind =? LinkReferenceDefinitionKind) with true in Hloc. cbn [negb orb] in Hloc.
      destruct (Z.leb_spec 0 (bstart b)) as [_|]; [|lia]. cbn [negb orb] in Hloc. apply andb_true_iff in Hloc. destruct Hloc as [Hloc HD]. apply andb_true_iff in Hloc. destruct Hloc as [_ HO].
      assert (Hvs : forall x, In x (bik b) -> istart x <= iend x).
      { intros x Hx. rewrite forallb_forall in HD. specialize (HD x Hx). unfold entD in HD. apply andb_true_iff in HD. destruct HD as [HD _]. apply andb_true_iff in HD. destruct HD as [HD _]. apply Z.leb_le, HD. }
      rewrite Forall_forall in *. intros u Hu. destruct (L4 u Hu) as [Lk Lp]. specialize (Lp Ek). unfold geE. rewrite Lp.
      destruct (ordX_In _ _ _ u HO Hvs Hu) as [P1 P2]. specialize (Hvs u Hu).
      rewrite forallb_forall in HD. specialize (HD u Hu). unfold entD in HD. apply andb_true_iff in HD. destruct HD as [HD HV]. apply andb_true_iff in HD. destruct HD as [_ HOk].
      split; [lia|]. split; [lia|]. specialize (Lk Lp). rewrite Forall_forall in *. intros c Hc.
      destruct (ordX_kids _ _ _ c HOk HV Hc) as [Q1 Q2]. split; [lia|]. split; [lia|apply Lk, Hc].
    + specialize (Hci Nk). destruct (isLeafK (bkind b)) eqn:El.
      * destruct Hbody as (Ht & _ & _). rewrite Forall_forall in *. intros u Hu. destruct (Hci u Hu) as (A1 & A2 & A3 & _).
        pose proof (tileS_In src _ _ _ (ispan u) Ht ltac:(apply in_map; exact Hu)) as (T1 & _). cbn [ispan fst] in T1. unfold geE. rewrite A1. split; [exact A1|split; [exact A2|lia]].
      * destruct (bkind b =? ListMarkerKind); [destruct Hbody as [_ ->]; constructor|].
        destruct (Z.eqb_spec (bkind b) LinkReferenceDefinitionKind) as [E|_]; [contradiction|]. destruct Hbody as [_ ->]. constructor.
  - pose proof Hcc as Hcc0. apply cc_parts in Hcc. destruct Hcc as [_ Hccl]. unfold ccL in Hccl. rewrite forallb_forall in Hccl. apply QuoteSimDrv2.allQ_Forall in Hkids.
    unfold QS2Reloc.ceL0 in Hck. unfold invDL in Hik. rewrite forallb_forall in Hik. rewrite Forall_forall in *.
    intros c Hc. apply IH; [exact Hc|apply Hccl, Hc|apply Hkids, Hc|apply Hck, Hc|apply Hik, Hc|].
    destruct (isLeafK (bkind b)) eqn:El.
    + exfalso. rewrite (nokids b Hcc0 (leaf_notCont _ El)) in Hc. destruct Hc.
    + destruct (Z.eqb_spec (bkind b) ListMarkerKind) as [Em|Em].
      * exfalso. rewrite (nokids b Hcc0) in Hc; [destruct Hc|rewrite Em; reflexivity].
      * destruct (Z.eqb_spec (bkind b) LinkReferenceDefinitionKind) as [E|_].
        { exfalso. rewrite (nokids b Hcc0) in Hc; [destruct Hc|rewrite E; reflexivity]. }
        destruct Hbody as [Hch _]. pose proof (tchain_starts src _ _ _ _ c Hch Hc). pose proof (la_bounds src M c (Hkids c Hc)). lia.
Qed.

(* ---- the cut ---- *)
Lemma cutsF_shift (X : bytes) n : 0 <= n -> forall f a x e, n <= x ->
  cutsF (from_ X n) f (a - n) (x - n) (e - n) = map (fun p => (fst p - n, snd p - n)) (cutsF X f a x e).
Proof.
  intros Hn. induction f as [|f IH]; intros a x e Hx; [reflexivity|]. cbn [cutsF].
  replace (e - n <=? x - n + 1) with (e <=? x + 1) by (destruct (Z.leb_spec e (x + 1)), (Z.leb_spec (e - n) (x - n + 1)); lia || reflexivity).
  destruct (e <=? x + 1); [reflexivity|]. rewrite (at_from' X n x) by lia.
  destruct (at_ X x =? 10).
  - cbn [map fst snd]. replace (x - n + 1) with (x + 1 - n) by lia. rewrite IH by lia. reflexivity.
  - replace (x - n + 1) with (x + 1 - n) by lia. apply IH. lia.
Qed.
Lemma cuts_shift (X : bytes) n a e : 0 <= n <= a -> cuts (from_ X n) (a - n) (e - n) = map (fun p => (fst p - n, snd p - n)) (cuts X a e).
Proof. intros H. unfold cuts. replace (e - n - (a - n)) with (e - a) by lia. apply cutsF_shift; lia. Qed.

Lemma qK_cut (X : bytes) (sg sg' : Z -> Z) n c : 0 <= n -> (forall y, sg' (y - n) = sg y) -> n <= istart c -> n <= iend c -> ikids c = [] ->
  QRdrCollect.qK (from_ X n) sg' (shiftI (- n) c) = QRdrCollect.qK X sg c.
Proof.
  intros Hn Hsg Hs He Hk. destruct c as [k s e ind rf kids]. cbn [istart iend ikids] in *. subst kids. cbn [shiftI map].
  destruct (Z.leb_spec 0 e); [|lia]. replace (s + - n) with (s - n) by lia. replace (e + - n) with (e - n) by lia.
  unfold QRdrCollect.qK. replace (s - n <? e - n) with (s <? e) by (destruct (Z.ltb_spec s e), (Z.ltb_spec (s - n) (e - n)); lia || reflexivity).
  destruct ((k =? TextKind) && (s <? e)) eqn:Et.
  - apply andb_true_iff in Et. destruct Et as [_ Et]. apply Z.ltb_lt in Et. rewrite cuts_shift by lia. rewrite map_map. apply map_ext. intros p. cbn [fst snd].
    rewrite Hsg. replace (snd p - n - 1) with (snd p - 1 - n) by lia. rewrite Hsg. reflexivity.
  - rewrite Hsg. replace (e - n - 1) with (e - 1 - n) by lia. rewrite Hsg. reflexivity.
Qed.

Section Cut2.
  Variable D : bytes.
  Lemma lpO_cut o n u : 0 <= o -> 0 <= n -> geL n u -> lpO D (o + n) (shiftI (- n) u) = lpO D o u.
  Proof.
    intros Ho Hn (G1 & G2 & G3). destruct u as [k s e ind rf kids]. cbn [istart iend ikids] in *. cbn [shiftI].
    destruct (Z.leb_spec 0 e); [|lia]. replace (s + - n) with (s - n) by lia. replace (e + - n) with (e - n) by lia. unfold lpO.
    rewrite sgO_cut. f_equal.
    - unfold QRdrOcp.epsG. destruct (Z.ltb_spec (e - n) 0); [lia|]. destruct (Z.ltb_spec e 0); [lia|].
      replace (s - n <? e - n) with (s <? e) by (destruct (Z.ltb_spec s e), (Z.ltb_spec (s - n) (e - n)); lia || reflexivity).
      rewrite sgO_cut. replace (e - n - 1) with (e - 1 - n) by lia. rewrite sgO_cut. reflexivity.
    - rewrite <- (from_from D o n Ho Hn). clear -G3 Hn. induction kids as [|c r IH]; [reflexivity|]. inversion G3 as [|? ? (C1 & C2 & C3) Gr]; subst.
      cbn [map flat_map]. rewrite (IH Gr). f_equal. apply qK_cut; try assumption. intros y. apply sgO_cut.
  Qed.

  Lemma rI2_cut o n u : 0 <= o -> 0 <= n -> geE n u -> rI (sgO D (o + n)) (lpO D (o + n)) (shiftI (- n) u) = rI (sgO D o) (lpO D o) u.
  Proof.
    intros Ho Hn H. unfold geE in H. unfold rI. rewrite ikind_shiftI'. destruct (QuoteSimMap.isLinkPart (ikind u)) eqn:El.
    - apply lpO_cut; assumption.
    - destruct H as (A & B & C). rewrite mvI_shiftI by assumption.
      destruct u as [k s e ind r kids]. cbn [shiftI istart]. replace (s + - n) with (s - n) by lia. rewrite sgO_cut. f_equal. lia.
  Qed.

  Lemma MO2_cut o n : 0 <= o -> 0 <= n -> forall b, geB2 n b -> MO2 D (o + n) (shiftB (- n) b) = MO2 D o b.
  Proof.
    intros Ho Hn. apply (QS2Reloc.block_kids_ind2 (fun b => geB2 n b -> MO2 D (o + n) (shiftB (- n) b) = MO2 D o b)). intros b IH H.
    apply geB2_eq in H. destruct H as (A & B & C & F). destruct b as [k s e bk ik a nn c l lb]. cbn [bstart bend bik bkids] in *.
    unfold MO2. cbn [shiftB rB]. f_equal.
    - replace (s + - n) with (s - n) by lia. apply sgO_cut.
    - unfold eBO. destruct (Z.leb_spec 0 e) as [L|L].
      + destruct B as [B|B]; [lia|]. destruct (Z.ltb_spec (e + - n) 0); [lia|]. destruct (Z.ltb_spec e 0); [lia|]. f_equal. lia.
      + destruct (Z.ltb_spec e 0); [reflexivity|lia].
    - rewrite map_map. apply map_ext_in. intros x Hx. rewrite Forall_forall in F. apply (IH x Hx (F x Hx)).
    - rewrite map_map. apply map_ext_in. intros u Hu. rewrite Forall_forall in C. apply rI2_cut; [exact Ho|exact Hn|apply C, Hu].
  Qed.

  Lemma lpOKk_shift k n u : QS2Reloc.lpOKk k u -> QS2Reloc.lpOKk k (shiftI (- n) u).
  Proof.
    intros [H1 H2]. split; [|rewrite ikind_shiftI'; exact H2]. unfold QS2Reloc.lpOK in *. rewrite ikind_shiftI'. intros K. specialize (H1 K).
    destruct u as [k0 s e ind rf kids]. cbn [shiftI ikids] in *. apply Forall_forall. intros c Hc. apply in_map_iff in Hc. destruct Hc as (c0 & <- & Hc0).
    rewrite Forall_forall in H1. specialize (H1 c0 Hc0). destruct c0 as [k1 s1 e1 i1 r1 kk]. cbn [ikids shiftI] in *. subst kk. reflexivity.
  Qed.

  Lemma ceB0_cut sD sQ o n : 0 <= n <= len sD -> forall b, geB2 n b -> QS2Reloc.ceB0 sD sQ (sgO D o) b -> QS2Reloc.ceB0 (from_ sD n) sQ (sgO D (o + n)) (shiftB (- n) b).
  Proof.
    intros Hn. apply (QS2Reloc.block_kids_ind2 (fun b => geB2 n b -> QS2Reloc.ceB0 sD sQ (sgO D o) b -> QS2Reloc.ceB0 (from_ sD n) sQ (sgO D (o + n)) (shiftB (- n) b))). intros b IH Hg Hc.
    apply geB2_eq in Hg. destruct Hg as (A & B & C & F). apply QS2Reloc.ceB0_eq in Hc. destruct Hc as (Ki & Ku & L4 & Ck). apply QS2Reloc.ceB0_eq.
    destruct b as [k s e bk ik a nn c l lb]. cbn [bstart bend bik bkids bkind shiftB] in *. split; [|split; [|split]].
    - intros K. specialize (Ki K). apply Forall_forall. intros u Hu. apply in_map_iff in Hu. destruct Hu as (u0 & <- & Hu0). rewrite Forall_forall in C, Ki.
      pose proof (Ki u0 Hu0) as Hci. pose proof (C u0 Hu0) as Hge. unfold geE in Hge. destruct Hci as (Hlp & Hrest). rewrite Hlp in Hge.
      apply ceI_cut; [exact Hn|exact Hge|split; [exact Hlp|exact Hrest]].
    - intros K. specialize (Ku K). apply Forall_forall. intros u Hu. apply in_map_iff in Hu. destruct Hu as (u0 & <- & Hu0). rewrite Forall_forall in Ku.
      unfold QS2Reloc.unpK. rewrite ikind_shiftI'. apply Ku, Hu0.
    - apply Forall_forall. intros u Hu. apply in_map_iff in Hu. destruct Hu as (u0 & <- & Hu0). rewrite Forall_forall in L4. apply lpOKk_shift, L4, Hu0.
    - unfold QS2Reloc.ceL0 in *. apply Forall_forall. intros x Hx. apply in_map_iff in Hx. destruct Hx as (x0 & <- & Hx0). rewrite Forall_forall in F, Ck. apply IH; [exact Hx0|apply F, Hx0|apply Ck, Hx0].
  Qed.
End Cut2.

Print Assumptions ceB0_ext.
Print Assumptions strengthen.
Print Assumptions la_geB2.
Print Assumptions MO2_cut.
Print Assumptions ceB0_cut.
