From Coq Require Import List ZArith Lia Bool.
Import ListNotations.
Require Import Base Tables Utf8 Tree Rdr Link Collect Html Recog Inl3a Inl3b Inl3c Inl3d ShapesBase ShapesR IFBase IFLink IFHtml
  EolCRBytes EolCRLFDefs EolCRLFSimBytes EolCRLFSimStream
  EolGenCrlfRdrDefs EolGenCrlfRdrStep EolGenCrlfRdrNext EolGenCrlfRdrLink EolGenCrlfRdrLink2 EolGenCrlfRdrLink3 EolGenCrlfRdrColl
  EolCRLFFullHtml1 EolCRLFFullHtml2 EolCRLFFullHtml3.
Open Scope Z_scope.

(* C14 (ii), CRLF clause: the comment and CDATA loops of parseHTMLTag, and the fixed number of steps over "[CDATA[". *)

Lemma crlf_head_test rem :
  (0 <? len (crlf rem)) && isASCIILetter (at_ (crlf rem) 0) = (0 <? len rem) && isASCIILetter (at_ rem 0).
Proof.
  destruct rem as [|x t]; [reflexivity|]. destruct (Z.eq_dec x 10) as [->|N].
  - rewrite crlf_c10. change (at_ (13 :: 10 :: crlf t) 0) with 13. change (at_ (10 :: t) 0) with 10.
    change (isASCIILetter 13) with false. change (isASCIILetter 10) with false. rewrite !andb_false_r. reflexivity.
  - rewrite (crlf_cN x t N). change (at_ (x :: crlf t) 0) with x. change (at_ (x :: t) 0) with x. rewrite !len_cons. f_equal.
    pose proof (len_nonneg (crlf t)). pose proof (len_nonneg t).
    destruct (Z.ltb_spec 0 (1 + len (crlf t))); destruct (Z.ltb_spec 0 (1 + len t)); try reflexivity; lia.
Qed.

Section HtmlSim4.
  Variable R : bytes.
  Variable Eb : Z.
  Hypothesis R13 : ~ In 13 R.
  Notation P := (phiP R).
  Notation R' := (crlf R).
  Notation F := (phiI R).
  Notation RR := (RR R Eb).
  Notation RM := (RM R Eb).
  Notation PVc := (PVc R).
  Notation SPI := (SPI R Eb).
  Notation W := (W R Eb).
  Notation mapS := (mapS R).

  Ltac f0 HW := exfalso; destruct (W_PL R Eb _ _ HW) as [?P1 ?P2]; first [eapply (fuel0 R); eassumption|eapply (fuel0 R'); eassumption].
  Ltac neb := repeat first [apply Forall_nil | apply Forall_cons; [split; discriminate|]].

  (* ---------------------------------------------------------------- comment *)
  Lemma ht_comment_sim : forall f' f r r' st st', W r r' -> st' = P st -> nu R r < Z.of_nat f -> nu R' r' < Z.of_nat f' ->
    ht_comment f' r' st' = mapS (ht_comment f r st).
  Proof.
    induction f' as [|f' IH]; intros f r r' st st' HW Es Hn Hn'; [f0 HW|]. destruct f as [|f]; [f0 HW|].
    assert (B3 : noEolB [45;45;62]) by neb. assert (B2 : noEolB [45;45]) by neb.
    pose proof (next_rnb r) as Sn. pose proof (next_rnb r') as Sn'.
    pose proof (nu_remaining R r) as Nr. pose proof (nu_remaining R' r') as Nr'.
    destruct HW as [H|H].
    - destruct (rnb_sim R Eb r r' H) as [Er H0].
      destruct (remainingNodeBytes r) as [rem r0] eqn:Erm. destruct (remainingNodeBytes r') as [rem' r0'] eqn:Erm'.
      cbn [fst snd] in Er, H0, Sn, Sn', Nr, Nr'. subst rem'.
      destruct (hasBytePrefix rem [45;45;62]) eqn:E3.
      + (* the end of the comment *)
        assert (Hp : hasBytePrefix (fst (remainingNodeBytes r)) [45;45;62] = true) by (rewrite Erm; exact E3).
        destruct (pre_step R Eb r r' 45 45 [62] H ltac:(discriminate) Hp) as (r1 & r1' & En & En' & H1 & Hp1 & _).
        destruct (pre_step R Eb r1 r1' 45 62 [] H1 ltac:(discriminate) Hp1) as (r2 & r2' & En2 & En2' & H2 & Hp2 & _).
        destruct (pre_last R Eb r2 r2' 62 [] H2 ltac:(discriminate) Hp2) as [_ Ep].
        cbn [ht_comment]. rewrite Erm, Erm', (hasBytePrefix_crlf rem _ B3), E3, Sn, Sn', En, En'. cbn [snd]. rewrite En2, En2'. cbn [snd].
        unfold EolGenCrlfRdrLink3.mapS. cbn [fst snd]. rewrite Es, Ep. reflexivity.
      + destruct (hasBytePrefix rem [45;45]) eqn:E2.
        { cbn [ht_comment]. rewrite Erm, Erm', (hasBytePrefix_crlf rem _ B3), E3, (hasBytePrefix_crlf rem _ B2), E2. reflexivity. }
        destruct (next r0) as [ok r2] eqn:En. destruct (next r0') as [ok' r2'] eqn:En'.
        assert (EL : ht_comment (S f) r st = if negb ok then nullSpan else ht_comment f r2 st).
        { cbn [ht_comment]. rewrite Erm, E3, E2, En. reflexivity. }
        assert (ER : ht_comment (S f') r' st' = if negb ok' then nullSpan else ht_comment f' r2' st').
        { cbn [ht_comment]. rewrite Erm', (hasBytePrefix_crlf rem _ B3), E3, (hasBytePrefix_crlf rem _ B2), E2, En'. reflexivity. }
        destruct (Z.eq_dec (cur r0) 10) as [E10|N10].
        * destruct (nextE_RR10 R Eb _ _ _ _ _ _ H0 E10 En En') as [(-> & -> & H2 & _)|(-> & HM & Hlt)].
          -- rewrite EL, ER. reflexivity.
          -- rewrite ER. cbn [negb]. apply IH; [right; apply (RM_rnb_inv R Eb); [apply (RR_SPI R Eb _ _ H)|rewrite Erm; exact HM]|exact Es|lia|lia].
        * destruct (nextE_RR R Eb _ _ _ _ _ _ H0 N10 En En') as (-> & H2 & _ & [U1 U2] & [U1' U2']).
          rewrite EL, ER. destruct ok; cbn [negb]; [|reflexivity].
          apply IH; [left; exact H2|exact Es|specialize (U2 eq_refl); lia|specialize (U2' eq_refl); lia].
    - destruct (RM_rnb R Eb r r' [45;62] 45 H ltac:(discriminate)) as (E3 & E3' & H0).
      destruct (RM_rnb R Eb r r' [45] 45 H ltac:(discriminate)) as (E2 & E2' & _).
      destruct (remainingNodeBytes r) as [rem r0] eqn:Erm. destruct (remainingNodeBytes r') as [rem' r0'] eqn:Erm'.
      cbn [fst snd] in E3, E3', E2, E2', H0, Sn, Sn', Nr, Nr'.
      destruct (next r0) as [ok r2] eqn:En. destruct (next r0') as [ok' r2'] eqn:En'.
      destruct (nextE_RM R Eb _ _ _ _ _ _ H0 En En') as (-> & H2 & _ & [U1 U2] & [U1' U2']).
      cbn [ht_comment]. rewrite Erm, Erm', E3, E3', E2, E2', En, En'. destruct ok; cbn [negb]; [|reflexivity].
      apply IH; [left; exact H2|exact Es|specialize (U2 eq_refl); lia|specialize (U2' eq_refl); lia].
  Qed.

  (* ---------------------------------------------------------------- CDATA *)
  Lemma ht_cdata_sim : forall f' f r r' st st', W r r' -> st' = P st -> nu R r < Z.of_nat f -> nu R' r' < Z.of_nat f' ->
    ht_cdata f' r' st' = mapS (ht_cdata f r st).
  Proof.
    induction f' as [|f' IH]; intros f r r' st st' HW Es Hn Hn'; [f0 HW|]. destruct f as [|f]; [f0 HW|].
    assert (B3 : noEolB [93;93;62]) by neb.
    pose proof (next_rnb r) as Sn. pose proof (next_rnb r') as Sn'.
    pose proof (nu_remaining R r) as Nr. pose proof (nu_remaining R' r') as Nr'.
    destruct HW as [H|H].
    - destruct (rnb_sim R Eb r r' H) as [Er H0].
      destruct (remainingNodeBytes r) as [rem r0] eqn:Erm. destruct (remainingNodeBytes r') as [rem' r0'] eqn:Erm'.
      cbn [fst snd] in Er, H0, Sn, Sn', Nr, Nr'. subst rem'.
      destruct (hasBytePrefix rem [93;93;62]) eqn:E3.
      + assert (Hp : hasBytePrefix (fst (remainingNodeBytes r)) [93;93;62] = true) by (rewrite Erm; exact E3).
        destruct (pre_step R Eb r r' 93 93 [62] H ltac:(discriminate) Hp) as (r1 & r1' & En & En' & H1 & Hp1 & _).
        destruct (pre_step R Eb r1 r1' 93 62 [] H1 ltac:(discriminate) Hp1) as (r2 & r2' & En2 & En2' & H2 & Hp2 & _).
        destruct (pre_last R Eb r2 r2' 62 [] H2 ltac:(discriminate) Hp2) as [_ Ep].
        cbn [ht_cdata]. rewrite Erm, Erm', (hasBytePrefix_crlf rem _ B3), E3, Sn, Sn', En, En'. cbn [snd]. rewrite En2, En2'. cbn [snd].
        unfold EolGenCrlfRdrLink3.mapS. cbn [fst snd]. rewrite Es, Ep. reflexivity.
      + destruct (next r0) as [ok r2] eqn:En. destruct (next r0') as [ok' r2'] eqn:En'.
        assert (EL : ht_cdata (S f) r st = if negb ok then nullSpan else ht_cdata f r2 st).
        { cbn [ht_cdata]. rewrite Erm, E3, En. reflexivity. }
        assert (ER : ht_cdata (S f') r' st' = if negb ok' then nullSpan else ht_cdata f' r2' st').
        { cbn [ht_cdata]. rewrite Erm', (hasBytePrefix_crlf rem _ B3), E3, En'. reflexivity. }
        destruct (Z.eq_dec (cur r0) 10) as [E10|N10].
        * destruct (nextE_RR10 R Eb _ _ _ _ _ _ H0 E10 En En') as [(-> & -> & H2 & _)|(-> & HM & Hlt)].
          -- rewrite EL, ER. reflexivity.
          -- rewrite ER. cbn [negb]. apply IH; [right; apply (RM_rnb_inv R Eb); [apply (RR_SPI R Eb _ _ H)|rewrite Erm; exact HM]|exact Es|lia|lia].
        * destruct (nextE_RR R Eb _ _ _ _ _ _ H0 N10 En En') as (-> & H2 & _ & [U1 U2] & [U1' U2']).
          rewrite EL, ER. destruct ok; cbn [negb]; [|reflexivity].
          apply IH; [left; exact H2|exact Es|specialize (U2 eq_refl); lia|specialize (U2' eq_refl); lia].
    - destruct (RM_rnb R Eb r r' [93;62] 93 H ltac:(discriminate)) as (E3 & E3' & H0).
      destruct (remainingNodeBytes r) as [rem r0] eqn:Erm. destruct (remainingNodeBytes r') as [rem' r0'] eqn:Erm'.
      cbn [fst snd] in E3, E3', H0, Sn, Sn', Nr, Nr'.
      destruct (next r0) as [ok r2] eqn:En. destruct (next r0') as [ok' r2'] eqn:En'.
      destruct (nextE_RM R Eb _ _ _ _ _ _ H0 En En') as (-> & H2 & _ & [U1 U2] & [U1' U2']).
      cbn [ht_cdata]. rewrite Erm, Erm', E3, E3', En, En'. destruct ok; cbn [negb]; [|reflexivity].
      apply IH; [left; exact H2|exact Es|specialize (U2 eq_refl); lia|specialize (U2' eq_refl); lia].
  Qed.

  (* ---------------------------------------------------------------- a fixed number of steps along a matched prefix *)
  Lemma nextNok_sim : forall pre r r', RR r r' -> Forall (fun c => c <> 10) pre -> hasBytePrefix (fst (remainingNodeBytes r)) pre = true ->
    SimO RR (nextNok (length pre) r) (nextNok (length pre) r').
  Proof.
    induction pre as [|a pre IH]; intros r r' H Hne Hp; [exact H|].
    inversion Hne as [|x y Na Hne']; subst x y.
    destruct pre as [|b rest].
    - destruct (pre_last R Eb r r' a [] H Na Hp) as [N10 _]. cbn [length nextNok].
      destruct (next r) as [ok r1] eqn:En. destruct (next r') as [ok' r1'] eqn:En'.
      destruct (nextE_RR R Eb _ _ _ _ _ _ H N10 En En') as (-> & H1 & _). destruct ok; [exact H1|exact I].
    - destruct (pre_step R Eb r r' a b rest H Na Hp) as (r1 & r1' & En & En' & H1 & Hp1 & _).
      change (length (a :: b :: rest)) with (S (length (b :: rest))). cbn [nextNok]. rewrite En, En'. apply IH; assumption.
  Qed.
  Lemma nextNok_rnb n r : nextNok (S n) (snd (remainingNodeBytes r)) = nextNok (S n) r.
  Proof. cbn [nextNok]. rewrite next_rnb. reflexivity. Qed.
End HtmlSim4.

Print Assumptions ht_comment_sim.
Print Assumptions ht_cdata_sim.
Print Assumptions nextNok_sim.
