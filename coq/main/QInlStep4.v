(* QInlStep4.v -- T64 (asm): the cursor over the entries (unpFrom, advanceTo) on the two sides, and the raw-HTML branch of Inl3e.istep. *)
From Coq Require Import List ZArith Lia Bool.
Import ListNotations.
Require Import Base Tables Utf8 Tree Rdr Link Collect Html Recog Inl3a Inl3b Inl3c Inl3d Driver Inl3e.
Require Import ShapesBase ShapesR IFBase IFCollect GI6 IS0 IS3 IS6a IS6b IS6 IFTokDef IFTokAux IFTokUm IFFrame IFTokLoop IFTk1 IFTk2 IFTk3 IFTk4.
Require Import SpanSmall.
Require Import QCutsDef QCuts QIRdrBase QIRdrLink QIRdrCollect QInlDefs QInlBytes QInlBytesEmph QInlHtml QInlTree1 QInlTree2 QInlTree3 QInlTree.
Require Import QInlStep0 QInlStep1.
Open Scope Z_scope.

Section Step4.
  Variables (sD sQ : bytes) (sg : Z -> Z) (U : list inline).
  Hypothesis SG : SGood sD sQ sg.
  Hypothesis GP : GapSp sD sQ sg.
  Hypothesis HG : Forall (gsp sD sg U) U.
  Hypothesis HOK : spOK sD U = true.
  Hypothesis HKl : forall u, In u U -> ikids u = [].
  Hypothesis HLn : IS6b.linesOK sD U = true.
  Hypothesis HNG : NoGtBehindLast sD U.
  Set Default Proof Using "All".
  Local Notation Hy l := (l sD sQ sg U SG GP HG HOK HKl HLn HNG) (only parsing).
  Notation tr := (QInlBytes.tr sg).
  Notation IR := (QInlDefs.IR sD sQ sg).
  Notation SL := (QInlTree1.SL sD).
  Notation eE := (QInlDefs.eE sg).
  Notation qPs := (QInlDefs.qPs sD sg).
  Notation qI3 := (QInlDefs.qI3 sD sg).
  Notation curU := QInlTree3.curU.
  Notation Ctx := (Ctx sD sQ sg U).
  Notation T3 := (T3 sD sQ sg U).
  Notation PosR := (PosR sg U).
  Notation nthU := (IS6a.nthU U).
  Notation InIK := (QIRdrBase.InIK U).

  (* ---------------------------------------------------------------- the entries from the cursor on *)
  Lemma unpFrom_suffix st : unp st = U -> exists pre, U = pre ++ unpFrom st.
  Proof. intros E. exists (firstn (Z.to_nat (upos st)) U). unfold unpFrom, from_. rewrite E. symmetry. apply firstn_skipn. Qed.
  Lemma unpFrom_gsp st : unp st = U -> Forall (gsp sD sg U) (unpFrom st).
  Proof.
    intros E. destruct (unpFrom_suffix st E) as (pre & Ep). pose proof HG as G. rewrite Ep in G at 2. apply Forall_app in G. apply G.
  Qed.
  Lemma unpFrom_spW st : unp st = U -> spW sD (unpFrom st) = true.
  Proof. intros E. unfold unpFrom. rewrite E. apply spW_from, (Hy HW). Qed.
  Lemma unpFrom_bud st : unp st = U -> ibudget (unpFrom st) = 0.
  Proof.
    intros E. apply ibudget_unp. pose proof (unpFrom_gsp st E) as G. rewrite Forall_forall in *. intros v Hv. apply (G v Hv).
  Qed.
  Lemma unpFrom_nth st k : unp st = U -> 0 <= upos st <= k -> k < len U -> In (nthU k) (unpFrom st).
  Proof.
    intros Eu H0 Hk. unfold unpFrom, from_. rewrite Eu. unfold IS6a.nthU.
    replace (Z.to_nat k) with (Z.to_nat (upos st) + (Z.to_nat k - Z.to_nat (upos st)))%nat by lia.
    rewrite <- (nth_skipn_ U (mkI 0 0 0)). apply nth_In. rewrite skipn_length. unfold len in Hk. lia.
  Qed.
  Lemma In_nthU' x : In x U -> exists k, 0 <= k < len U /\ nthU k = x.
  Proof.
    intros Hx. destruct (In_nth U x (mkI 0 0 0) Hx) as (n & Hn & En). exists (Z.of_nat n). split; [unfold len; lia|].
    unfold IS6a.nthU. rewrite Nat2Z.id. exact En.
  Qed.
  (* an entry that reaches behind a position of the current entry is the current entry or a later one *)
  Lemma from_cursor st w x : unp st = U -> 0 <= upos st < len U -> In w U -> istart (curU st) <= x -> x < iend w -> In w (unpFrom st).
  Proof.
    intros Eu Hu Hw H1 H2. destruct (In_nthU' w Hw) as (k & Hk & <-).
    assert (Ec : curU st = nthU (upos st)) by (unfold QInlTree3.curU, IS6a.nthU; rewrite Eu; reflexivity). rewrite Ec in H1.
    destruct (Z.lt_ge_cases k (upos st)) as [L|L].
    - pose proof (nthU_sorted sD U HOK k (upos st) ltac:(lia) L ltac:(lia)). lia.
    - apply unpFrom_nth; [exact Eu|lia|lia].
  Qed.
  Lemma curU_in_from st : unp st = U -> 0 <= upos st < len U -> In (curU st) (unpFrom st).
  Proof.
    intros Eu Hu. assert (Ec : curU st = nthU (upos st)) by (unfold QInlTree3.curU, IS6a.nthU; rewrite Eu; reflexivity).
    rewrite Ec. apply unpFrom_nth; [exact Eu|lia|lia].
  Qed.
  (* an entry that does not end with a line feed is the last one *)
  Lemma last_entry w : In w U -> at_ sD (iend w - 1) <> 10 -> forall v, In v U -> iend v <= iend w.
  Proof.
    intros Hw N v Hv. pose proof ((Hy U_gsp) w Hw) as (A & B & C & _ & _ & [L|[L|(pre & L)]]); [contradiction| |].
    - pose proof ((Hy U_gsp) v Hv) as (_ & _ & Cv & _). lia.
    - pose proof (Hy HW) as W. rewrite L in Hv, W. apply in_app_or in Hv. destruct Hv as [Hv|[<-|[]]]; [|lia].
      pose proof (QIRdrBase.spW_before sD pre w v W Hv). pose proof ((Hy U_gsp) v ltac:(rewrite L; apply in_or_app; left; exact Hv)) as (_ & Bv & _). lia.
  Qed.
  Lemma last_of_U w : In w U -> (forall v, In v U -> iend v <= iend w) -> exists pre, U = pre ++ [w].
  Proof.
    intros Hw Hmax. destruct (@exists_last _ U ltac:(intros E; rewrite E in Hw; destruct Hw)) as (pre & l & E). exists pre. rewrite E. f_equal. f_equal.
    pose proof (Hy HW) as W. rewrite E in Hw, W. apply in_app_or in Hw. destruct Hw as [Hw|[<-|[]]]; [|reflexivity]. exfalso.
    pose proof (QIRdrBase.spW_before sD pre l w W Hw). assert (Hl : In l U) by (rewrite E; apply in_or_app; right; left; reflexivity).
    pose proof ((Hy U_gsp) l Hl) as (_ & Bl & _). specialize (Hmax l Hl). lia.
  Qed.

  Lemma sg_le' x y : 0 <= x -> x <= y -> sg x <= sg y.
  Proof. intros Hx H. destruct (Z.eq_dec x y) as [->|N]; [lia|]. pose proof (SG_mono _ _ _ SG x y Hx ltac:(lia)). lia. Qed.

  (* ---------------------------------------------------------------- advanceTo te: te is the end of a construct whose last byte is not a line feed *)
  Lemma adv_at st st' te : IR st st' -> SL (rk st) -> unp st = U -> 0 <= upos st < len U -> istart (curU st) < te -> te <= len sD ->
    InIK (te - 1) -> at_ sD (te - 1) <> 10 ->
    T3 (advanceTo st te, te, te) (advanceTo st' (sg (te - 1) + 1), sg (te - 1) + 1, sg (te - 1) + 1).
  Proof.
    intros HI HS Eu Hu H1 Hle (w & Hw & Hin) N. pose proof ((Hy U_gsp) w Hw) as Gw. pose proof Gw as (Wa & Wb & Wc & _).
    assert (Esg : QIRdrBase.sgE sD sg te = sg (te - 1) + 1).
    { replace te with (te - 1 + 1) at 1 by lia. apply (sgE_after sD sQ sg SG); [lia|exact N]. }
    pose proof (IR_advanceTo sD sQ sg SG U st st' te HI (unpFrom_gsp st Eu) ltac:(lia)) as HI2. rewrite Esg in HI2.
    assert (Hrk : rk (advanceTo st te) = rk st) by (unfold advanceTo; destruct (0 <=? _); reflexivity).
    assert (Hun : unp (advanceTo st te) = U) by (destruct (fr_advanceTo st te) as [_ ->]; exact Eu).
    unfold QInlStep1.T3, QInlStep1.PosR. cbn [fst snd]. split; [exact HI2|]. split; [rewrite Hrk; exact HS|].
    destruct (advanceTo_facts st te (mkI 0 0 0) ltac:(rewrite Eu; lia)) as [F1 F2]. cbv zeta in F1, F2. rewrite Eu in F2.
    split.
    - intros L. cbv zeta. specialize (F2 L). unfold QInlTree3.curU. rewrite Hun. apply spanHas_range in F2.
      set (w2 := nth (Z.to_nat (upos (advanceTo st te))) U (mkI 0 0 0)) in *.
      assert (Hw2 : In w2 U) by (apply nth_In_Z; lia). pose proof ((Hy U_gsp) w2 Hw2) as G2. pose proof G2 as (_ & _ & C2 & _).
      split; [lia|]. split; [lia|]. split; [lia|]. assert (Ex : sg (te - 1) + 1 = tr w2 te).
      { rewrite ((Hy tr_in) w2 te G2) by lia. replace te with (te - 1 + 1) at 2 by lia. symmetry. apply (SG_succ _ _ _ SG); [lia|exact N]. }
      split; exact Ex.
    - intros L. assert (Hw' : In w (unpFrom st)) by (apply (from_cursor st w (te - 1) Eu Hu Hw); lia).
      assert (Eup : upos (advanceTo st te) = len U).
      { unfold advanceTo in *. destruct (Z.leb_spec 0 (nodeIndexForPosition (unpFrom st) te)) as [L0|L0]; [|cbn [upos setUpos]; rewrite Eu; reflexivity].
        exfalso. destruct (nodeIdx_unpFrom st te (mkI 0 0 0) ltac:(lia) L0) as [A _]. cbn [upos setUpos] in L. rewrite Eu in A. lia. }
      assert (Hfail : nodeIndexForPosition (unpFrom st) te < 0).
      { unfold advanceTo in Eup. destruct (Z.leb_spec 0 (nodeIndexForPosition (unpFrom st) te)) as [L0|L0]; [|exact L0].
        exfalso. destruct (nodeIdx_unpFrom st te (mkI 0 0 0) ltac:(lia) L0) as [A _]. cbn [upos setUpos] in Eup. rewrite Eu in A. lia. }
      assert (Ete : te = iend w).
      { destruct (Z.eq_dec te (iend w)) as [E|E]; [exact E|]. exfalso.
        pose proof (IFTokAux.nodeIdx_found sD (unpFrom st) w te 0 (unpFrom_spW st Eu) Hw' ltac:(apply spanHas_intro; lia) ltac:(lia)). unfold nodeIndexForPosition in Hfail. lia. }
      assert (Hmax : forall v, In v U -> iend v <= iend w) by (apply (last_entry w Hw); rewrite <- Ete; exact N).
      destruct (last_of_U w Hw Hmax) as (pre & EU).
      destruct (spanEnd_q_last sD sQ sg (advanceTo st te) (advanceTo st' (sg (te - 1) + 1)) w pre HI2 ltac:(rewrite Hun; lia) ltac:(rewrite Hun; exact EU)) as [S1 S2].
      rewrite S1, S2. split; [lia|]. destruct Gw as (_ & _ & _ & T & _). pose proof (T (iend w - 1) ltac:(lia)) as Tw. rewrite Ete. lia.
  Qed.

  (* ---------------------------------------------------------------- advanceTo (E - 1): the cursor goes to the entry of the last byte of a construct *)
  Lemma adv_before st st' E : IR st st' -> SL (rk st) -> unp st = U -> 0 <= upos st < len U -> istart (curU st) < E -> InIK (E - 1) ->
    let st2 := advanceTo st (E - 1) in let st2' := advanceTo st' (sg (E - 1)) in
    IR st2 st2' /\ rk st2 = rk st /\ unp st2 = U /\ upos st <= upos st2 < len U /\ istart (curU st2) <= E - 1 < iend (curU st2) /\
    sg (E - 1) + 1 = tr (curU st2) E.
  Proof.
    intros HI HS Eu Hu H1 (w & Hw & Hin). cbv zeta. pose proof ((Hy U_gsp) w Hw) as Gw. pose proof Gw as (Wa & Wb & Wc & _).
    pose proof (IR_advanceTo sD sQ sg SG U st st' (E - 1) HI (unpFrom_gsp st Eu) ltac:(lia)) as HI2.
    rewrite (bsgE_in sD sQ sg SG) in HI2 by lia.
    assert (Hrk : rk (advanceTo st (E - 1)) = rk st) by (unfold advanceTo; destruct (0 <=? _); reflexivity).
    assert (Hun : unp (advanceTo st (E - 1)) = U) by (destruct (fr_advanceTo st (E - 1)) as [_ ->]; exact Eu).
    assert (Hw' : In w (unpFrom st)) by (apply (from_cursor st w (E - 1) Eu Hu Hw); lia).
    pose proof (IFTokAux.nodeIdx_found sD (unpFrom st) w (E - 1) 0 (unpFrom_spW st Eu) Hw' ltac:(apply spanHas_intro; lia) ltac:(lia)) as Hfound.
    destruct (nodeIdx_unpFrom st (E - 1) (mkI 0 0 0) ltac:(lia) Hfound) as [A B]. rewrite Eu in A, B.
    assert (Eup : upos (advanceTo st (E - 1)) = upos st + nodeIndexForPosition (unpFrom st) (E - 1)).
    { unfold advanceTo. unfold nodeIndexForPosition in *. destruct (Z.leb_spec 0 (nodeIdx (unpFrom st) (E - 1) 0)); [reflexivity|lia]. }
    unfold nodeIndexForPosition in *. apply spanHas_range in B.
    split; [exact HI2|]. split; [exact Hrk|]. split; [exact Hun|]. split; [lia|]. unfold QInlTree3.curU. rewrite Hun, Eup.
    set (w2 := nth (Z.to_nat (upos st + nodeIdx (unpFrom st) (E - 1) 0)) U (mkI 0 0 0)) in *.
    assert (Hw2 : In w2 U) by (apply nth_In_Z; lia). pose proof ((Hy U_gsp) w2 Hw2) as G2.
    split; [lia|]. replace E with (E - 1 + 1) at 2 by lia. rewrite tr_add, ((Hy tr_in) w2 (E - 1) G2) by lia. reflexivity.
  Qed.

  (* ---------------------------------------------------------------- collectTextNodes with the fuels of the tokeniser *)
  Lemma kidsOf_q l : kidsOf (flat_map qI3 l) = qPs (kidsOf l).
  Proof.
    unfold kidsOf, QInlDefs.qPs. rewrite flat_map_map', flat_map_of_map. apply flat_map_ext_in. intros i _. apply ofInline_qI3.
  Qed.
  Lemma rfuel_D st : isrc st = sD -> rfuelOf st = (2 * length sD + 10)%nat. Proof. intros E. unfold rfuelOf. rewrite E. reflexivity. Qed.
  Lemma rfuel_Q st : isrc st = sQ -> rfuelOf st = (2 * length sQ + 10)%nat. Proof. intros E. unfold rfuelOf. rewrite E. reflexivity. Qed.
  Lemma fuel_le : (length sD <= length sQ)%nat.
  Proof. pose proof (len_sD_sQ sD sQ sg SG). unfold len in *. lia. Qed.

  Lemma q_collect st st' tk p e e' esc : IR st st' -> unp st = U -> splitK tk = true -> 0 <= e <= len sD ->
    ((InIK (e - 1) /\ e' = sg (e - 1) + 1) \/ (InIK e /\ e' = sg e)) ->
    0 <= p <= len sD -> InE sD sQ sg U (unpFrom st) p ->
    kidsOf (collectTextNodes (rfuelOf st') (newReader sQ (unpFrom st') (QIRdrBase.sgE sD sg p)) e' tk esc) =
    qPs (kidsOf (collectTextNodes (rfuelOf st) (newReader sD (unpFrom st) p) e tk esc)) /\
    collectTextNodes (rfuelOf st') (newReader sQ (unpFrom st') (QIRdrBase.sgE sD sg p)) e' tk esc =
    flat_map qI3 (collectTextNodes (rfuelOf st) (newReader sD (unpFrom st) p) e tk esc) /\
    Forall (inR sD tk) (collectTextNodes (rfuelOf st) (newReader sD (unpFrom st) p) e tk esc).
  Proof.
    intros HI Eu Htk He Hok Hp Hin. pose proof HI as (Es & Es' & _). rewrite (rfuel_D st Es), (rfuel_Q st' Es').
    pose proof (unpFrom_spW st Eu) as W. pose proof (unpFrom_bud st Eu) as B. pose proof fuel_le as FL.
    rewrite (collectTextNodes_new_fuel sD (2 * length sD + 10) (2 * length sQ + 10) (unpFrom st) p e tk esc W) by (rewrite B; unfold len; lia).
    rewrite (unpFrom_q sD sQ sg st st' HI).
    pose proof (nu_new sD (unpFrom st) p W) as Hnu. rewrite B in Hnu.
    destruct (q_collectTextNodes_qI3 sD sQ sg SG U (Hy HW) HG tk Htk e e' (2 * length sQ + 10) (unpFrom st) p esc He Hok (unpFrom_suffix st Eu) Hp Hin
               ltac:(unfold len in *; lia)) as [A Bf].
    rewrite A. split; [apply kidsOf_q|]. split; [reflexivity|exact Bf].
  Qed.

  Lemma spanValid_null : spanValid nullSpan = false. Proof. reflexivity. Qed.
  Lemma spanValid_in a b : 0 <= a -> a <= b -> spanValid (a, b) = true.
  Proof. intros A B. unfold spanValid. cbn [fst snd]. rewrite !andb_true_iff. repeat split; apply Z.leb_le; lia. Qed.

  (* ---------------------------------------------------------------- the raw-HTML branch *)
  Lemma q_branch_html st st' u pos pl : Ctx st st' u -> istart u <= pl -> pl <= pos -> pos < iend u ->
    T3 (let fuel := rfuelOf st in
        let '(ts, te) := parseHTMLTag fuel (newReader sD (unpFrom st) pos) in
        if negb (spanValid (ts, te)) then (st, pos + 1, pl) else
        let st := addText st pl ts in
        let kids := kidsOf (collectTextNodes fuel (newReader sD (unpFrom st) ts) te RawHTMLKind false) in
        let st := fst (addNode st HTMLTagKind ts te kids) in
        (advanceTo st te, te, te))
       (let fuel := rfuelOf st' in
        let '(ts, te) := parseHTMLTag fuel (newReader sQ (unpFrom st') (tr u pos)) in
        if negb (spanValid (ts, te)) then (st', tr u pos + 1, tr u pl) else
        let st := addText st' (tr u pl) ts in
        let kids := kidsOf (collectTextNodes fuel (newReader sQ (unpFrom st) ts) te RawHTMLKind false) in
        let st := fst (addNode st HTMLTagKind ts te kids) in
        (advanceTo st te, te, te)).
  Proof.
    intros HC H1 H2 H3. pose proof HC as (HI & HS & Eu & Hu & Ecu). destruct ((Hy Ctx_facts) st st' u HC) as (Hin & Gu & Es & Es' & Ee & Ee' & _).
    pose proof Gu as (Ua & Ub & Uc & _).
    assert (Hinf : In u (unpFrom st)) by (rewrite Ecu; apply curU_in_from; assumption).
    cbv zeta.
    rewrite (rfuel_D st Es), (rfuel_Q st' Es'). rewrite (unpFrom_q sD sQ sg st st' HI). rewrite ((Hy tr_in) u pos Gu) by lia.
    destruct (q_parseHTMLTag_new sD sQ sg U (unpFrom st) pos SG (Hy HW) HG HNG (unpFrom_suffix st Eu) ltac:(exists u; split; [exact Hinf|lia])) as [Eq TF].
    rewrite Eq. clear Eq. destruct TF as [TF|(e & TF & P0 & Pe & Pin & P62 & P10)]; rewrite TF.
    - rewrite mapSpan_null. cbn [negb]. change (spanValid nullSpan) with false. cbn [negb].
      rewrite <- ((Hy tr_in) u pos Gu) by lia. apply ((Hy q_branch_skip) st st' u pos pl 1 HC H1 H2); lia.
    - rewrite mapSpan_valid by lia. rewrite (spanValid_in pos e) by lia. rewrite (spanValid_in (sg pos) (sg (e - 1) + 1)) by (first [apply (SG_nn _ _ _ SG); lia|pose proof (sg_le' pos (e - 1) ltac:(lia) ltac:(lia)); lia]). cbn [negb]. cbv zeta.
      rewrite <- ((Hy tr_in) u pos Gu) by lia.
      pose proof ((Hy Ctx_addText) st st' u pl pos HC H1 H2 ltac:(lia)) as HC1. pose proof HC1 as (HI1 & HS1 & Eu1 & Hu1 & Ecu1).
      set (s1 := addText st pl pos) in *. set (s1' := addText st' (tr u pl) (tr u pos)) in *.
      assert (Hinf1 : In u (unpFrom s1)) by (rewrite Ecu1; apply curU_in_from; assumption).
      destruct (q_collect s1 s1' RawHTMLKind pos e (sg (e - 1) + 1) false HI1 Eu1 eq_refl ltac:(lia) ltac:(left; split; [exact Pin|reflexivity]) ltac:(lia)
                 ltac:(right; left; exists u; split; [exact Hinf1|lia])) as (EK & _ & _).
      rewrite (bsgE_in sD sQ sg SG) in EK by lia. rewrite <- ((Hy tr_in) u pos Gu) in EK by lia.
      assert (RF1 : rfuelOf s1 = rfuelOf st) by apply fr_rfuel, fr_addText. assert (RF1' : rfuelOf s1' = rfuelOf st') by apply fr_rfuel, fr_addText.
      rewrite RF1, RF1', (rfuel_D st Es), (rfuel_Q st' Es') in EK. rewrite EK. clear EK.
      set (kids := kidsOf (collectTextNodes (2 * length sD + 10) (newReader sD (unpFrom s1) pos) e RawHTMLKind false)).
      destruct (IR_addNode sD sQ sg SG s1 s1' HTMLTagKind pos e kids HI1 ltac:(lia) ltac:(intros K; discriminate K)) as [I2 _].
      rewrite <- ((Hy tr_in) u pos Gu) in I2 by lia. rewrite (eE_lt sg pos e) in I2 by lia.
      assert (S2 : SL (rk (fst (addNode s1 HTMLTagKind pos e kids)))) by (apply SL_addNode; [exact HS1|apply SL_kidsOf|intros K; discriminate K]).
      destruct ((Hy frx_addNode) s1 HTMLTagKind pos e kids) as [F1 F2].
      set (s2 := fst (addNode s1 HTMLTagKind pos e kids)) in *. set (s2' := fst (addNode s1' HTMLTagKind (tr u pos) (sg (e - 1) + 1) (qPs kids))) in *.
      apply (adv_at s2 s2' e I2 S2); [rewrite F1; exact Eu1|rewrite F2; exact Hu1| |lia|exact Pin|exact P10].
      unfold QInlTree3.curU. rewrite F1, F2. fold (curU s1). rewrite <- Ecu1. lia.
  Qed.
End Step4.
