From Coq Require Import List ZArith Lia Bool.
Import ListNotations.
Require Import Base Tree Rdr Link Collect Html Recog LP Rules Starts Driver Rec16 Rec17 Rec18 RecBounds Cursor CursorX L2Kind SpanSmall NoPanic12
  EolInv EolHtmlInv EolCRDefs EolCRBytes EolCRLFDefs EolCRLFSimBytes EolCRLFSimTree EolCRLFSimLP EolCRLFSimRules EolCRLFSimStarts ShEnv EolCRLFSimFuel.
Open Scope Z_scope.

(* C14 (ii), CRLF clause, inputs without '[': openNewBlocks, addLineText, processLine. *)

Definition startCQ (f : lp -> lp) : Prop := forall p q, CQ p q -> G p -> CQ (f p) (f q).
Lemma blockStarts_CQ : Forall startCQ blockStarts.
Proof.
  unfold blockStarts.
  apply Forall_cons; [exact CQ_startBlockQuote|]. apply Forall_cons; [exact CQ_startATX|]. apply Forall_cons; [exact CQ_startFenced|].
  apply Forall_cons; [exact CQ_startHTML|]. apply Forall_cons; [intros p q H _; apply CQ_startSetext, H|]. apply Forall_cons; [exact CQ_startThematic|].
  apply Forall_cons; [exact CQ_startListItem|]. apply Forall_cons; [intros p q H _; apply CQ_startIndented, H|]. apply Forall_nil.
Qed.

Lemma CQ_tryStarts : forall fs p q, Forall startCQ fs -> Forall startOKG fs -> CQ p q -> G p -> CQ2 (tryStarts fs p) (tryStarts fs q).
Proof.
  induction fs as [|f r IH]; intros p q Hs Hg H HG; [split; [reflexivity|exact H]|]. cbn [tryStarts]. cbv zeta.
  pose proof (Forall_inv Hs) as Hf. pose proof (Forall_inv_tail Hs) as Hr. pose proof (Forall_inv Hg) as Gf. pose proof (Forall_inv_tail Hg) as Gr.
  assert (H1 : CQ (f (withState p stOpening)) (f (withState q stOpening))) by (apply Hf; [apply CQ_withState, H|exact HG]).
  assert (G1 : G (f (withState p stOpening))) by (apply Gf; exact HG).
  rewrite (CQ_state _ _ H1). destruct (_ || _); [split; [reflexivity|exact H1]|]. apply IH; assumption.
Qed.

Lemma CQ_opening_loop : forall fuel p q, CQ p q -> G p -> CQ2 (opening_loop fuel p) (opening_loop fuel q).
Proof.
  induction fuel as [|f IH]; intros p q H HG; [split; [reflexivity|exact H]|]. cbn [opening_loop].
  rewrite (CQ_containerKind p q H). destruct (_ || _); [|split; [reflexivity|exact H]].
  pose proof (CQ_tryStarts blockStarts p q blockStarts_CQ blockStarts_okG H HG) as H1.
  pose proof (G_tryStarts blockStarts p blockStarts_okG HG) as G1.
  destruct (tryStarts blockStarts p) as [b p1]. destruct (tryStarts blockStarts q) as [b' q1]. destruct H1 as [E H1]. cbn [fst snd] in E, H1, G1. subst b'.
  destruct b; [|split; [reflexivity|exact H1]]. rewrite (CQ_state p1 q1 H1). destruct (_ =? stLineConsumed); [split; [reflexivity|exact H1]|].
  apply IH; assumption.
Qed.

Lemma CQ_deferredClose p q : CQ p q -> CQ (deferredClose p) (deferredClose q).
Proof.
  intros H. unfold deferredClose. cbv zeta. rewrite (CQ_isRestBlank p q H), (CQ_bheight p q H).
  assert (Et : tipDepth (bheight (root p)) (root q) = tipDepth (bheight (root p)) (root p)).
  { replace (root q) with (phiB (source p) (root p)) by (symmetry; apply H). apply tipDepth_M. }
  rewrite Et, (CQ_getAt p q _ H).
  assert (Eb : match option_map (phiB (source p)) (getAt (tipDepth (bheight (root p)) (root p)) (root p)) with Some t => bkind t =? ParagraphKind | None => false end =
               match getAt (tipDepth (bheight (root p)) (root p)) (root p) with Some t => bkind t =? ParagraphKind | None => false end).
  { destruct (getAt _ (root p)); cbn [option_map]; [rewrite bkind_M|]; reflexivity. }
  rewrite Eb. destruct (negb _ && _); [apply CQ_withCont, H|]. rewrite (CQ_cdepth p q H), (CQ_ls p q H). apply CQ_closeLastChildAt, H.
Qed.

Lemma len_crlf_zero l : (len (crlf l) =? 0) = (len l =? 0).
Proof.
  rewrite len_crlf. pose proof (count10_nonneg l). pose proof (len_nonneg l).
  destruct (Z.eqb_spec (len l) 0) as [E|E]; [|apply Z.eqb_neq; lia].
  destruct l; [reflexivity|rewrite len_cons in E; pose proof (len_nonneg l); lia].
Qed.

Lemma CQ_openNewBlocks p q am : CQ p q -> G p ->
  opening_loop (S (length (crlf (line p)))) p = opening_loop (S (length (line p))) p ->
  CQ2 (openNewBlocks p am) (openNewBlocks q am).
Proof.
  intros H HG Hf. unfold openNewBlocks.
  assert (Elq : line q = crlf (line p)) by apply H. rewrite Elq, len_crlf_zero.
  destruct (len (line p) =? 0).
  - split; [reflexivity|]. cbn [snd]. apply CQ_withCont.
    assert (S91 : ~ In 91 (source p)) by apply H. assert (Hnn : nnB (root p) = true) by apply H.
    rewrite (CQ_src p q H), (CQ_bheight p q H), (CQ_ls p q H).
    replace (root q) with (phiB (source p) (root p)) by (symmetry; apply H).
    rewrite (closeBlock_M (source p) S91 (lineStart p) (bheight (root p)) (root p) Hnn).
    pose proof (nnB_closeBlock (source p) (lineStart p) S91 (bheight (root p)) (root p) Hnn) as Hc.
    destruct (closeBlock (bheight (root p)) (source p) (root p) (lineStart p)) as [|b r]; cbn [map].
    + apply CQ_withRoot; assumption.
    + apply CQ_withRoot; [exact H|]. cbn [forallb] in Hc. apply andb_true_iff in Hc. apply Hc.
  - pose proof (CQ_opening_loop (S (length (crlf (line p)))) p q H HG) as H1. rewrite Hf in H1.
    pose proof (G_opening_loop (S (length (line p))) p HG) as G1.
    destruct (opening_loop (S (length (line p))) p) as [ht p1]. destruct (opening_loop (S (length (crlf (line p)))) q) as [ht' q1].
    destruct H1 as [E H1]. cbn [fst snd] in E, H1, G1. subst ht'.
    destruct am; split; cbn [fst snd]; try reflexivity; [exact H1|apply CQ_deferredClose, H1].
Qed.

(* ---- addLineText ---- *)
Definition goT (p : lp) : lp :=
  let k := containerKind p in
  let inlineKind := if isCode k then TextKind else if k =? HTMLBlockKind then RawHTMLKind else UnparsedKind in
  let p := updCont p (fun b => set_bik b (bik b ++ [mkI inlineKind (lineStart p + li p) (lineStart p + len (line p))])) in
  if isCode k && negb (hasByteSuffixEOL (line p)) then
    updCont p (fun b => set_bik b (bik b ++ [mkI SoftLineBreakKind (lineStart p + len (line p)) (lineStart p + len (line p))]))
  else p.
Definition markBlank (b : block) : block := match lastBlock b with Some c => set_lastBlocks b [set_blast c true] | None => b end.
Definition addLineText' (p : lp) : lp :=
  let isBlank := isRestBlank p in
  let p := if isBlank then updCont p markBlank else p in
  let cb := contBlock p in
  let k := bkind cb in
  let llb := isBlank && negb ((k =? BlockQuoteKind) || (k =? FencedCodeBlockKind) ||
                              ((k =? ListItemKind) && (childCount cb =? 1) && (lineStart p <=? bstart cb))) in
  let p := withRoot p (setLastBlankUpTo (cdepth p) llb (root p)) in
  if acceptsLines k then
    let p :=
      if (li p <? len (line p)) && (at_ (line p) (li p) =? 9) && (0 <? tabRem p) && (tabRem p <? 4) then
        let p := updCont p (fun b => set_bik b (bik b ++ [Inl IndentKind (lineStart p + li p) (lineStart p + li p + 1) (tabRem p) [] []])) in
        consumeIndent p (tabRem p)
      else p in
    goT p
  else if negb isBlank then
    let p := openBlock p ParagraphKind in
    let p := consumeIndent p (indent p) in
    goT p
  else p.
Lemma addLineText_eq p : addLineText p = addLineText' p. Proof. unfold addLineText, addLineText', goT, markBlank. cbv zeta. reflexivity. Qed.

Lemma CQ_end_pos p q : CQ p q -> lineStart q + len (line q) = phiP (source p) (lineStart p + len (line p)).
Proof.
  intros H. cqsplit H. flds. rewrite (pos_id S ls ln (len ln) Ls0 Eln (len_nonneg ln)), phiP_all. reflexivity.
Qed.

Lemma CQ_goT p q : CQ p q -> CQ (goT p) (goT q).
Proof.
  intros H. unfold goT. cbv zeta. rewrite (CQ_containerKind p q H).
  set (ik := if isCode (containerKind p) then TextKind else if containerKind p =? HTMLBlockKind then RawHTMLKind else UnparsedKind).
  assert (Ls0 : 0 <= lineStart p) by apply H. assert (Li : 0 <= li p <= len (line p)) by apply H.
  assert (H1 : CQ (updCont p (fun b => set_bik b (bik b ++ [mkI ik (lineStart p + li p) (lineStart p + len (line p))])))
                  (updCont q (fun b => set_bik b (bik b ++ [mkI ik (lineStart q + li q) (lineStart q + len (line q))])))).
  { apply CQ_append; [exact H| |cbn [mkI istart]; lia]. rewrite (CQ_pos p q H), (CQ_end_pos p q H). reflexivity. }
  assert (El : line q = crlf (line p)) by apply H.
  assert (Eh : hasByteSuffixEOL (line (updCont q (fun b => set_bik b (bik b ++ [mkI ik (lineStart q + li q) (lineStart q + len (line q))])))) =
               hasByteSuffixEOL (line (updCont p (fun b => set_bik b (bik b ++ [mkI ik (lineStart p + li p) (lineStart p + len (line p))]))))).
  { change (hasByteSuffixEOL (line q) = hasByteSuffixEOL (line p)). rewrite El. apply hasByteSuffixEOL_crlf. }
  rewrite Eh. destruct (isCode _ && negb _); [|exact H1].
  apply CQ_append; [exact H1| |cbn [mkI istart]; change (0 <= lineStart p + len (line p)); pose proof (len_nonneg (line p)); lia].
  change (mkI SoftLineBreakKind (lineStart q + len (line q)) (lineStart q + len (line q)) = phiI (source p) (mkI SoftLineBreakKind (lineStart p + len (line p)) (lineStart p + len (line p)))).
  rewrite (CQ_end_pos p q H). reflexivity.
Qed.

Lemma leb_phi R a b : (phiP R a <=? phiP R b) = (a <=? b).
Proof.
  destruct (Z.leb_spec a b) as [L|L]; [apply Z.leb_le, phiP_mono, L|apply Z.leb_gt, phiP_lt, L].
Qed.
Lemma markBlank_M S b : phiB S (markBlank b) = markBlank (phiB S b).
Proof.
  unfold markBlank. rewrite lastBlock_M. destruct (lastBlock b) as [c|]; cbn [option_map]; [|reflexivity].
  rewrite M_set_lastBlocks. cbn [map]. rewrite M_set_blast. reflexivity.
Qed.
Lemma nnB_markBlank b : nnB b = true -> nnB (markBlank b) = true.
Proof.
  intros H. unfold markBlank. destruct (lastBlock b) as [c|] eqn:El; [|exact H]. apply nnB_set_lastBlocks; [exact H|].
  cbn [forallb]. rewrite andb_true_r. pose proof (nnB_lastBlock b c H El) as Hc. destruct c; exact Hc.
Qed.
Lemma slb_M R v : forall d r, nnB r = true -> phiB R (setLastBlankUpTo d v r) = setLastBlankUpTo d v (phiB R r) /\ nnB (setLastBlankUpTo d v r) = true.
Proof.
  assert (Hu : forall d r, nnB r = true -> phiB R (updAt d (fun b => set_blast b v) r) = updAt d (fun b => set_blast b v) (phiB R r) /\ nnB (updAt d (fun b => set_blast b v) r) = true).
  { intros d r Hr. split; [apply updAt_Mc; [intros b _; apply M_set_blast|exact Hr]|apply nnB_updAt; [intros b Hb; destruct b; exact Hb|exact Hr]]. }
  induction d as [|d IH]; intros r Hr; cbn [setLastBlankUpTo]; [apply Hu, Hr|].
  destruct (Hu (S d) r Hr) as [A B]. destruct (IH _ B) as [C D]. split; [rewrite C, A; reflexivity|exact D].
Qed.

Lemma CQ_tabcond p q : CQ p q ->
  ((li q <? len (line q)) && (at_ (line q) (li q) =? 9) && (0 <? tabRem q) && (tabRem q <? 4)) =
  ((li p <? len (line p)) && (at_ (line p) (li p) =? 9) && (0 <? tabRem p) && (tabRem p <? 4)) /\
  ((li p <? len (line p)) && (at_ (line p) (li p) =? 9) = true ->
     tabRem q = tabRem p /\ li q = li p /\ lineStart q + li q + 1 = phiP (source p) (lineStart p + li p + 1)).
Proof.
  intros H. pose proof (CQ_pos p q H) as Hpos. cqsplit H. flds. cbv beta iota delta [lineStart li line source] in Hpos.
  destruct (Z.ltb_spec i (len ln)) as [L|L].
  - pose proof (lt_blen ln i Lok L) as Hb. destruct (Ect Hb) as [-> ->]. rewrite (phiP_blen ln i Lok Hb) in *.
    rewrite (at_test ln i 9 Lok ltac:(lia)) by discriminate.
    replace (i <? len (crlf ln)) with true by (symmetry; apply Z.ltb_lt; rewrite len_crlf; pose proof (count10_nonneg ln); lia).
    split; [reflexivity|]. cbn [andb]. intros E9. split; [reflexivity|]. split; [reflexivity|].
    assert (Hx : i + 1 <= blen ln).
    { destruct (Z.eq_dec i (blen ln)) as [E|N]; [|lia]. exfalso. subst i. apply Z.eqb_eq in E9.
      destruct (at_blen_end ln Lok) as [(A & _)|(A & _)]; rewrite A in E9; discriminate. }
    replace (ls + i + 1) with (ls + (i + 1)) by lia. rewrite (pos_id S ls ln (i + 1) Ls0 Eln) by lia. rewrite (phiP_blen ln (i + 1) Lok Hx). lia.
  - assert (E : i = len ln) by lia. subst i. rewrite phiP_all, Z.ltb_irrefl. cbn [andb]. split; [reflexivity|discriminate].
Qed.

Lemma CQ_addLineText p q : CQ p q -> G p -> CQ (addLineText p) (addLineText q).
Proof.
  intros H HG. rewrite (addLineText_eq p), (addLineText_eq q). unfold addLineText'. cbv zeta. rewrite (CQ_isRestBlank p q H).
  set (isBlank := isRestBlank p).
  assert (H1 : CQ (if isBlank then updCont p markBlank else p) (if isBlank then updCont q markBlank else q)).
  { destruct isBlank; [|exact H]. apply CQ_updCont; [exact H|intros b _; apply markBlank_M|intros b Hb; apply nnB_markBlank, Hb]. }
  assert (G1 : G (if isBlank then updCont p markBlank else p)) by (destruct isBlank; exact HG).
  set (p1 := if isBlank then updCont p markBlank else p) in *. set (q1 := if isBlank then updCont q markBlank else q) in *. clearbody p1 q1.
  rewrite (CQ_contBlock p1 q1 H1), bkind_M, childCount_M, bstart_M, (CQ_ls p1 q1 H1), leb_phi, (CQ_cdepth p1 q1 H1).
  set (k := bkind (contBlock p1)).
  set (llb := isBlank && negb ((k =? BlockQuoteKind) || (k =? FencedCodeBlockKind) || ((k =? ListItemKind) && (childCount (contBlock p1) =? 1) && (lineStart p1 <=? bstart (contBlock p1))))).
  assert (Hnn : nnB (root p1) = true) by apply H1.
  destruct (slb_M (source p1) llb (cdepth p1) (root p1) Hnn) as [Es Ns].
  replace (root q1) with (phiB (source p1) (root p1)) by (symmetry; apply H1). rewrite <- Es.
  pose proof (CQ_withRoot p1 q1 _ H1 Ns) as H2.
  set (p2 := withRoot p1 (setLastBlankUpTo (cdepth p1) llb (root p1))) in *.
  set (q2 := withRoot q1 (phiB (source p1) (setLastBlankUpTo (cdepth p1) llb (root p1)))) in *.
  assert (G2 : G p2) by exact G1. clearbody p2 q2.
  destruct (acceptsLines k).
  - apply CQ_goT. destruct (CQ_tabcond p2 q2 H2) as [Ec Et]. rewrite Ec.
    destruct ((li p2 <? len (line p2)) && (at_ (line p2) (li p2) =? 9)) eqn:E9; cbn [andb]; [|exact H2].
    destruct (Et eq_refl) as (T1 & T2 & T3). destruct ((0 <? tabRem p2) && (tabRem p2 <? 4)); [|exact H2].
    match goal with |- CQ (consumeIndent ?a ?n) (consumeIndent ?b ?m) => change m with (tabRem q2); change n with (tabRem p2) end.
    rewrite T1. apply CQ_consumeIndent. apply CQ_append; [exact H2| |cbn [istart]; destruct H2 as (_ & _ & _ & A & _ & _ & _ & _ & B & _); lia].
    cbn [phiI map]. rewrite <- T3, (CQ_pos p2 q2 H2). reflexivity.
  - destruct (negb isBlank); [|exact H2]. apply CQ_goT.
    pose proof (CQ_openBlock p2 q2 ParagraphKind H2) as H3. rewrite (CQ_indent _ _ H3). apply CQ_consumeIndent, H3.
Qed.

(* ---- processLine ---- *)
Lemma env_goT p : envOf (goT p) = envOf p.
Proof. unfold goT. cbv zeta. destruct (isCode _ && negb _); reflexivity. Qed.
Lemma env_addLineText p : envOf (addLineText p) = envOf p.
Proof.
  rewrite addLineText_eq. unfold addLineText'. cbv zeta.
  set (p1 := if isRestBlank p then updCont p markBlank else p).
  assert (E1 : envOf p1 = envOf p) by (unfold p1; destruct (isRestBlank p); reflexivity).
  set (p2 := withRoot p1 _). assert (E2 : envOf p2 = envOf p) by exact E1. clearbody p2.
  destruct (acceptsLines _).
  - rewrite env_goT. destruct (_ && _ && _ && _); [|exact E2]. rewrite env_consumeIndent. exact E2.
  - destruct (negb _); [|exact E2]. rewrite env_goT, env_consumeIndent, env_openBlock. exact E2.
Qed.

Theorem CQ_processLine st children ls src :
  ~ In 13 src -> ~ In 91 src -> 0 <= ls -> lineOK (from_ src ls) -> forallb nnB children = true ->
  processLine st (map (phiB src) children) (phiP src ls) (crlf src) =
    (map (phiB src) (fst (fst (processLine st children ls src))), snd (fst (processLine st children ls src)), snd (processLine st children ls src)) /\
  forallb nnB (fst (fst (processLine st children ls src))) = true.
Proof.
  intros S13 S91 Hls Lok Hnn.
  assert (H0 : CQ (resetLP st children ls src) (resetLP st (map (phiB src) children) (phiP src ls) (crlf src))).
  { unfold resetLP. cbv zeta. rewrite (crlf_from src ls Hls).
    rewrite (computeTabRem_crlf (from_ src ls) 0 0 Lok) by (pose proof (blen_nonneg (from_ src ls)); lia).
    replace (Blk documentKind 0 (-1) (map (phiB src) children) [] 0 0 0 false false) with (phiB src (Blk documentKind 0 (-1) children [] 0 0 0 false false))
      by (cbn [phiB map]; rewrite phiP_0, (phiP_neg src (-1)) by lia; reflexivity).
    apply CQ_mk'; [exact S13|exact S91|exact Hls|reflexivity|exact Lok|pose proof (len_nonneg (from_ src ls)); lia|symmetry; apply phiP_0|intros _; split; reflexivity|].
    cbn [nnB forallb]. exact Hnn. }
  assert (G0 : G (resetLP st children ls src)).
  { unfold resetLP. split; [split; [cbn; lia|]|split; [cbn; apply len_nonneg|split; cbn; discriminate]].
    cbn [li line col tabRem]. intros Hl Ha. apply computeTabRem_spec; [lia|exact Hl|exact Ha]. }
  pose proof (processLine_open_fuel st children ls src Hls) as Hfuel. cbv zeta in Hfuel.
  unfold processLine. cbv zeta.
  set (p0 := resetLP st children ls src) in *. set (q0 := resetLP st (map (phiB src) children) (phiP src ls) (crlf src)) in *.
  assert (Es0 : source p0 = src) by reflexivity. clearbody p0 q0.
  pose proof (CQ_descendOpenBlocks p0 q0 H0 G0) as H1. pose proof (G_descend_loop (bheight (root p0)) p0 O G0) as G1.
  pose proof (env_descend_loop (bheight (root p0)) p0 O) as E1. fold (descendOpenBlocks p0) in G1, E1.
  destruct (descendOpenBlocks p0) as [am p1]. destruct (descendOpenBlocks q0) as [am' q1]. destruct H1 as [E H1]. cbn [fst snd] in E, H1, G1, E1, Hfuel. subst am'.
  rewrite (CQ_state p1 q1 H1).
  set (x := if negb (state p1 =? stDescendTerminated) then openNewBlocks p1 am else (false, p1)).
  set (y := if negb (state p1 =? stDescendTerminated) then openNewBlocks q1 am else (false, q1)).
  assert (H2 : CQ2 x y /\ G (snd x) /\ envOf (snd x) = envOf p1).
  { unfold x, y. destruct (negb _); [|split; [split; [reflexivity|exact H1]|split; [exact G1|reflexivity]]].
    split; [|split; [apply G_openNewBlocks, G1|apply env_openNewBlocks]]. apply CQ_openNewBlocks; [exact H1|exact G1|].
    apply Hfuel. pose proof (len_crlf (line p1)) as Hl. pose proof (count10_nonneg (line p1)). unfold len in Hl. lia. }
  clearbody x y. destruct x as [ht p2]. destruct y as [ht' q2]. destruct H2 as ([E H2] & G2 & E2). cbn [fst snd] in E, H2, G2, E2. subst ht'.
  assert (H3 : CQ (if ht then addLineText p2 else p2) (if ht then addLineText q2 else q2)) by (destruct ht; [apply CQ_addLineText; assumption|exact H2]).
  assert (E3 : envOf (if ht then addLineText p2 else p2) = envOf p2) by (destruct ht; [apply env_addLineText|reflexivity]).
  set (p3 := if ht then addLineText p2 else p2) in *. set (q3 := if ht then addLineText q2 else q2) in *. clearbody p3 q3.
  assert (Es : source p3 = src).
  { rewrite E2, E1 in E3. unfold envOf in E3. injection E3 as A _ _. rewrite A. exact Es0. }
  assert (Er : root q3 = phiB src (root p3)) by (rewrite <- Es; apply H3).
  split.
  - rewrite Er, bkids_M, (CQ_state p3 q3 H3). replace (panicked q3) with (panicked p3) by (symmetry; apply H3). reflexivity.
  - cbn [fst snd]. assert (Hn3 : nnB (root p3) = true) by apply H3. rewrite nnB_eq in Hn3. apply andb_true_iff in Hn3. apply Hn3.
Qed.
Print Assumptions CQ_processLine.
