From Coq Require Import List ZArith Lia Bool.
Import ListNotations.
Require Import LADef.
Require Import Base Tree Rdr Link Collect Html Recog LP Rules Starts Driver Rec16 Rec17 Rec18 RecBounds Cursor CursorX L2Kind SpanSmall NoPanic12
  EolInv EolHtmlInv EolCRDefs EolCRBytes EolCRLFDefs EolCRLFSimBytes EolCRLFSimTree EolCRLFSimLP EolCRLFSimRules EolCRLFSimStarts L2CC ShEnv EolCRLFGenHyp EolCRLFGenLP EolCRLFGenRules.
Open Scope Z_scope.

Section GenStarts.
  Context {O : OcpHyp}.

(* C14 (ii), CRLF clause, inputs without '[': the eight block starts. *)

(* results of the recognizers lie inside the body of the line *)
Lemma rec_bounds l : lineOK l ->
  parseThematicBreak l <= blen l /\
  (forall lv cs ce, parseATXHeading l = (lv, cs, ce) -> 1 <= lv -> 0 <= cs <= ce /\ ce <= blen l /\ (cs < ce -> isSpTab (at_ l cs) = false)) /\
  (forall d n e, parseListMarker l = (d, n, e) -> e <= blen l) /\
  (forall c n is_ ie, parseCodeFence l = (c, n, is_, ie) -> 0 < n -> 0 <= is_ -> n <= is_ /\ is_ < ie /\ ie <= blen l /\ isSpaceTabOrLineEnding (at_ l is_) = false).
Proof.
  intros H. destruct (lineOK_split l H) as (body & e & -> & Hb & He & Eb & _ & Er & _). rewrite Eb.
  split; [rewrite (thematicBreak_eol body e Er); apply parseThematicBreak_le|].
  split; [|split].
  - intros lv cs ce Ea Hlv. rewrite (atx_eol body e Er) in Ea. destruct (atx_bounds _ _ _ _ Ea Hlv) as (A & B & C).
    split; [exact A|]. split; [exact B|]. intros Hc. rewrite at_app_l by lia. apply C; lia.
  - intros d n e0 Em. rewrite (listMarker_eol body e Er) in Em. apply (parseListMarker_le _ _ _ _ Em).
  - intros c n is_ ie Ef Hn Hi. rewrite (codeFence_eol body e Er) in Ef. destruct (parseCodeFence_bounds _ _ _ _ _ Ef Hn Hi) as (A & B & C & D).
    split; [exact A|]. split; [exact B|]. split; [exact C|]. rewrite at_app_l by lia. exact D.
Qed.

(* the common prelude ConsumeIndent(Indent()); openBlock(kind) *)
Lemma CG_prelude p q kind : CG O p q -> G p -> st_open p -> kind <> SetextHeadingKind ->
  let p2 := openBlock (consumeIndent p (indent p)) kind in
  CG O p2 (openBlock (consumeIndent q (indent p)) kind) /\ G p2 /\ rest p2 = bytesAfterIndent p /\
  li p2 = li p + indentLength (rest p) /\ line p2 = line p /\ ckind p2 kind.
Proof.
  intros H HG Hso Hks. cbv zeta. destruct (after_indent p q H HG) as (H1 & G1 & R1 & L1 & E1 & _).
  destruct (G_openBlock _ kind G1) as [G2 (C1 & C2 & _)].
  split; [apply CG_openBlock; [exact H1|exact Hks]|]. split; [exact G2|].
  split; [destruct (start_prelude p kind HG) as (_ & R & _); exact R|]. split; [rewrite C1; exact L1|]. split; [rewrite C2; exact E1|].
  apply ckind_openBlock, st_open_consumeIndent, Hso.
Qed.

Lemma noEolB1 c : c <> 10 -> c <> 13 -> noEolB [c].
Proof. intros A B. apply Forall_cons; [split; assumption|apply Forall_nil]. Qed.

Lemma CG_startBlockQuote p q : CG O p q -> G p -> CG O (startBlockQuote p) (startBlockQuote q).
Proof.
  intros H HG. unfold startBlockQuote. cbv zeta. rewrite (CG_indent p q H). destruct (_ <=? _); [exact H|].
  rewrite (proj1 (CG_bai p q H)), hasBytePrefix_crlf by (apply noEolB1; discriminate).
  destruct (hasBytePrefix (bytesAfterIndent p) [62]) eqn:Hp; cbn [negb]; [|exact H].
  apply (CG_quoteMarker p q H HG Hp (fun x => openBlock x BlockQuoteKind)); [intros a b Hab; apply CG_openBlock; [exact Hab|discriminate]|].
  intros a Ga. destruct (G_openBlock a BlockQuoteKind Ga) as [_ (C1 & C2 & _)]. split; assumption.
Qed.

Lemma CG_flag p q f : (forall S b, phiB S (f b) = f (phiB S b)) -> (forall b, nnB (f b) = nnB b) -> (forall R x, peB O R true x -> peB O R true (f x)) -> CG O p q -> CG O (updCont p f) (updCont q f).
Proof. intros A B C H. apply CG_updCont; [exact H|intros b _; apply A|intros b Hb; rewrite B; exact Hb|intros x _ Hx; apply C, Hx]. Qed.

Lemma CG_startATX p q : CG O p q -> G p -> st_open p -> CG O (startATX p) (startATX q).
Proof.
  intros H HG Hso. unfold startATX. cbv zeta. rewrite (CG_indent p q H). destruct (_ <=? _); [exact H|].
  destruct (CG_bai p q H) as [Eb Lb]. destruct (recog_crlf _ Lb) as (_ & Ra & _). rewrite Eb, Ra.
  destruct (parseATXHeading (bytesAfterIndent p)) as [[level cs] ce] eqn:Ea. destruct (Z.ltb_spec level 1) as [|Hlv]; [exact H|].
  destruct (rec_bounds _ Lb) as (_ & Ba & _). destruct (Ba _ _ _ Ea Hlv) as (Bc & Be & Bn).
  assert (Hne : bytesAfterIndent p <> []) by (intros X; rewrite X in Ea; vm_compute in Ea; injection Ea as <- _ _; lia).
  destruct (bai_bound p q H HG Hne) as [Hbb Hli].
  destruct (CG_prelude p q ATXHeadingKind H HG Hso ltac:(discriminate)) as (H2 & G2 & R2 & L2 & E2 & K2).
  set (p2 := openBlock (consumeIndent p (indent p)) ATXHeadingKind) in *. set (q2 := openBlock (consumeIndent q (indent p)) ATXHeadingKind) in *. clearbody p2 q2.
  assert (H3 : CG O (updCont p2 (fun b => set_bn b level)) (updCont q2 (fun b => set_bn b level)))
    by (apply CG_flag; [intros S b; destruct b; reflexivity|intros b; destruct b; reflexivity|intros R x Hx; destruct x; exact Hx|exact H2]).
  set (p3 := updCont p2 (fun b => set_bn b level)) in *. set (q3 := updCont q2 (fun b => set_bn b level)) in *.
  assert (G3 : G p3) by exact G2. assert (R3 : rest p3 = bytesAfterIndent p) by exact R2.
  assert (L3 : li p3 = li p + indentLength (rest p)) by exact L2. assert (E3 : line p3 = line p) by exact E2.
  assert (K3 : ckind p3 ATXHeadingKind) by (apply ckind_updCont; [intros b; destruct b; reflexivity|exact K2]). clearbody p3 q3.
  pose proof (blen_le (line p)) as Hbl.
  assert (Hcs : li p3 + cs <= len (line p3)) by (rewrite L3, E3; lia).
  destruct (G_advance p3 cs G3 ltac:(lia) Hcs) as (G4 & L4 & E4).
  pose proof (rest_advance p3 cs G3 ltac:(lia) Hcs) as R4. rewrite R3 in R4.
  assert (H4 : CG O (advance p3 cs) (advance q3 cs)) by (apply CG_advance; [exact H3|lia|rewrite L3, E3; lia]).
  assert (K4 : ckind (advance p3 cs) ATXHeadingKind) by (apply (ckind_same p3 _ _ (same_advance p3 cs) K3)).
  set (p4 := advance p3 cs) in *. set (q4 := advance q3 cs) in *. clearbody p4 q4.
  assert (H5 : CG O (collectInline p4 UnparsedKind (ce - cs)) (collectInline q4 UnparsedKind (ce - cs))).
  { apply (CG_collectInline p4 q4 _ _ _ ATXHeadingKind); [exact H4|exact K4|reflexivity|left]. split; [lia|]. split; [reflexivity|]. rewrite R4, L4, E4, L3, E3.
    destruct (Z.eq_dec cs ce) as [->|Nce].
    - pose proof (ind_le (bytesAfterIndent p) ce Lb ltac:(lia)). lia.
    - rewrite indentLength_from_nonws by (try lia; intros; apply Bn; lia). lia. }
  apply CG_endBlock, CG_consumeLine, H5.
Qed.

Lemma CG_startFenced p q : CG O p q -> G p -> st_open p -> CG O (startFenced p) (startFenced q).
Proof.
  intros H HG Hso. unfold startFenced. cbv zeta. rewrite (CG_indent p q H). destruct (_ <=? _); [exact H|].
  destruct (CG_bai p q H) as [Eb Lb]. destruct (recog_crlf _ Lb) as (_ & _ & _ & Rf & _). rewrite Eb, Rf.
  destruct (parseCodeFence (bytesAfterIndent p)) as [[[fc fnn] is_] ie] eqn:Ef. destruct (Z.eqb_spec fnn 0) as [|Nf]; [exact H|].
  destruct (CG_prelude p q FencedCodeBlockKind H HG Hso ltac:(discriminate)) as (H2 & G2 & R2 & L2 & E2 & K2).
  set (p2 := openBlock (consumeIndent p (indent p)) FencedCodeBlockKind) in *. set (q2 := openBlock (consumeIndent q (indent p)) FencedCodeBlockKind) in *. clearbody p2 q2.
  assert (H3 : CG O (updCont (updCont p2 (fun b => set_bn (set_bchar b fc) fnn)) (fun b => set_bindent b (indent p)))
                  (updCont (updCont q2 (fun b => set_bn (set_bchar b fc) fnn)) (fun b => set_bindent b (indent p)))).
  { apply CG_flag; [intros S b; destruct b; reflexivity|intros b; destruct b; reflexivity|intros R x Hx; destruct x; exact Hx|].
    apply CG_flag; [intros S b; destruct b; reflexivity|intros b; destruct b; reflexivity|intros R x Hx; destruct x; exact Hx|exact H2]. }
  set (p4 := updCont (updCont p2 _) _) in *. set (q4 := updCont (updCont q2 _) _) in *.
  assert (G4 : G p4) by exact G2. assert (R4 : rest p4 = bytesAfterIndent p) by exact R2.
  assert (L4 : li p4 = li p + indentLength (rest p)) by exact L2. assert (E4 : line p4 = line p) by exact E2.
  assert (K4 : ckind p4 FencedCodeBlockKind) by (apply ckind_updCont; [intros b; destruct b; reflexivity|]; apply ckind_updCont; [intros b; destruct b; reflexivity|exact K2]). clearbody p4 q4.
  apply CG_consumeLine. destruct (spanValid (is_, ie)) eqn:Ev; [|exact H3].
  unfold spanValid in Ev. cbn [fst snd] in Ev. apply andb_true_iff in Ev. destruct Ev as [Ev _]. apply andb_true_iff in Ev. destruct Ev as [Ev _]. apply Z.leb_le in Ev.
  assert (Hn : 0 < fnn).
  { destruct (Z.lt_ge_cases 0 fnn); [assumption|]. pose proof (parseCodeFence_none _ _ _ _ _ Ef ltac:(lia)) as En. inversion En. lia. }
  destruct (rec_bounds _ Lb) as (_ & _ & _ & Bf). destruct (Bf _ _ _ _ Ef Hn Ev) as (B1 & B2 & B3 & B4).
  assert (Hne : bytesAfterIndent p <> []) by (intros X; rewrite X in B3; cbn in B3; lia).
  destruct (bai_bound p q H HG Hne) as [Hbb Hli]. pose proof (blen_le (line p)) as Hbl.
  assert (His : li p4 + is_ <= len (line p4)) by (rewrite L4, E4; lia).
  destruct (G_advance p4 is_ G4 Ev His) as (G5 & L5 & E5).
  pose proof (rest_advance p4 is_ G4 Ev His) as R5. rewrite R4 in R5.
  assert (H5 : CG O (advance p4 is_) (advance q4 is_)) by (apply CG_advance; [exact H3|lia|rewrite L4, E4; lia]).
  apply (CG_collectInline _ _ _ _ _ FencedCodeBlockKind); [exact H5|apply (ckind_same p4 _ _ (same_advance p4 is_) K4)|reflexivity|left]. split; [lia|]. split; [reflexivity|]. rewrite R5, L5, E5, L4, E4.
  rewrite indentLength_from_nonws; [lia|lia|].
  intros _. unfold isSpaceTabOrLineEnding in B4. unfold isSpTab. apply orb_false_iff in B4. destruct B4 as [B4 _]. apply orb_false_iff in B4. tauto.
Qed.

Lemma CG_startThematic p q : CG O p q -> G p -> st_open p -> CG O (startThematic p) (startThematic q).
Proof.
  intros H HG Hso. unfold startThematic. cbv zeta. rewrite (CG_indent p q H). destruct (_ <=? _); [exact H|].
  destruct (CG_bai p q H) as [Eb Lb]. destruct (recog_crlf _ Lb) as (Rt & _). rewrite Eb, Rt.
  destruct (Z.ltb_spec (parseThematicBreak (bytesAfterIndent p)) 0) as [|Le]; [exact H|].
  destruct (rec_bounds _ Lb) as (Bt & _).
  destruct (CG_prelude p q ThematicBreakKind H HG Hso ltac:(discriminate)) as (H2 & G2 & R2 & L2 & E2 & K2).
  apply CG_endBlock, CG_consumeLine.
  destruct (Z.eq_dec (parseThematicBreak (bytesAfterIndent p)) 0) as [E0|N0]; [rewrite E0; exact H2|].
  assert (Hne : bytesAfterIndent p <> []) by (intros X; rewrite X in Bt, N0, Le; cbn [blen] in Bt; lia).
  destruct (bai_bound p q H HG Hne) as [Hbb Hli].
  apply CG_advance; [exact H2|exact Le|rewrite L2, E2; lia].
Qed.

Lemma CG_startIndented p q : CG O p q -> CG O (startIndented p) (startIndented q).
Proof.
  intros H. unfold startIndented. rewrite (CG_indent p q H), (CG_isRestBlank p q H), (CG_tipKind p q H).
  destruct (_ || _ || _); [exact H|]. apply CG_openBlock; [apply CG_consumeIndent, H|discriminate].
Qed.

Lemma firstHtmlCond_crlf l : lineOK l -> forall k i, firstHtmlCond i k (crlf l) = firstHtmlCond i k l.
Proof. intros H. induction k as [|k IH]; intros i; [reflexivity|]. cbn [firstHtmlCond]. rewrite (proj2 (html_crlf i l H)), IH. reflexivity. Qed.

Lemma CG_startHTML p q : CG O p q -> G p -> st_open p -> CG O (startHTML p) (startHTML q).
Proof.
  intros H HG Hso. unfold startHTML. cbv zeta. rewrite (CG_indent p q H). destruct (_ <=? _); [exact H|].
  destruct (CG_bai p q H) as [Eb Lb]. rewrite Eb, hasBytePrefix_crlf by (apply noEolB1; discriminate).
  destruct (negb _); [exact H|]. rewrite (firstHtmlCond_crlf _ Lb). destruct (_ <? 0); [exact H|].
  rewrite (CG_containerKind p q H), (CG_tipKind p q H). destruct (negb _ && _); [exact H|].
  rewrite (proj1 (html_crlf _ _ Lb)).
  destruct (G_openBlock p HTMLBlockKind HG) as [G2 _]. pose proof (CG_openBlock p q HTMLBlockKind H ltac:(discriminate)) as H2.
  set (i := firstHtmlCond 0 7 (bytesAfterIndent p)) in *.
  assert (H3 : CG O (updCont (openBlock p HTMLBlockKind) (fun b => set_bn b i)) (updCont (openBlock q HTMLBlockKind) (fun b => set_bn b i)))
    by (apply CG_flag; [intros S b; destruct b; reflexivity|intros b; destruct b; reflexivity|intros R x Hx; destruct x; exact Hx|exact H2]).
  set (p3 := updCont (openBlock p HTMLBlockKind) (fun b => set_bn b i)) in *. set (q3 := updCont (openBlock q HTMLBlockKind) (fun b => set_bn b i)) in *.
  assert (G3 : G p3) by exact G2.
  assert (K3 : ckind p3 HTMLBlockKind) by (apply ckind_updCont; [intros b; destruct b; reflexivity|apply ckind_openBlock, Hso]). clearbody p3 q3.
  destruct (htmlEnd _ _); [|exact H3]. apply CG_endBlock, CG_consumeLine, (CG_collect_rest p3 q3 _ HTMLBlockKind); [exact H3|exact G3|discriminate|exact K3|reflexivity].
Qed.

Lemma peB_getAt R sp : forall d r x, peB O R sp r -> getAt d r = Some x -> peB O R sp x.
Proof.
  induction d as [|d IH]; intros r x H E; [inversion E; subst; exact H|]. cbn [getAt] in E. destruct (lastBlock r) as [c|] eqn:El; [|discriminate].
  apply (IH c x); [eapply peB_lastBlock; eassumption|exact E].
Qed.
Lemma nnB_getAt : forall d r x, nnB r = true -> getAt d r = Some x -> nnB x = true.
Proof.
  induction d as [|d IH]; intros r x H E; [inversion E; subst; exact H|]. cbn [getAt] in E. destruct (lastBlock r) as [c|] eqn:El; [|discriminate].
  apply (IH c x); [eapply nnB_lastBlock; eassumption|exact E].
Qed.
Lemma CG_cont_para p q : CG O p q -> containerKind p = ParagraphKind ->
  exists x, getAt (cdepth p) (root p) = Some x /\ contBlock p = x /\ bkind x = ParagraphKind /\ PEc O (source p) (bik x) /\ nnB x = true /\ peB O (source p) true x.
Proof.
  intros H Hk. unfold containerKind, contBlock in *. destruct (getAt (cdepth p) (root p)) as [x|] eqn:E; [|cbn in Hk; discriminate].
  exists x. split; [reflexivity|]. split; [reflexivity|]. split; [exact Hk|].
  assert (Hp : peB O (source p) true x) by (eapply peB_getAt; [apply H|exact E]).
  split; [|split; [eapply nnB_getAt; [apply H|exact E]|exact Hp]]. rewrite peB_eq in Hp. destruct Hp as [[_ A] _]. apply A. rewrite Hk. reflexivity.
Qed.
Lemma CG_chpc p q : CG O p q -> containerHasParagraphContent q = containerHasParagraphContent p.
Proof.
  intros H. unfold containerHasParagraphContent. rewrite (CG_containerKind p q H).
  destruct (Z.eqb_spec (containerKind p) ParagraphKind) as [Hk|Hk]; cbn [negb]; [|reflexivity].
  destruct (CG_cont_para p q H Hk) as (x & Ex & Ec & Kx & Px & Nx & _).
  assert (S13 : ~ In 13 (source p)) by apply H. assert (HL : LIM (source p)) by apply H.
  rewrite (CG_src p q H), (CG_contBlock p q H), Ec.
  rewrite (H_ocp2 O (source p) x S13 HL ltac:(rewrite Kx; reflexivity) Px Nx).
  rewrite <- map_rev. destruct (rev (onCloseParagraph (source p) x)) as [|l r]; cbn [map]; [reflexivity|apply f_equal2; [apply bkind_M|reflexivity]].
Qed.

(* ---- startSetext: the paragraph becomes a setext heading and is closed at the end of the source ---- *)
Lemma advance_updCont p f n : advance (updCont p f) n = updCont (advance p n) f.
Proof.
  destruct p as [S0 rt cont ls ln i cl tr st pn]. unfold advance, updCont, withRoot, withState, withCursor, panic, setLP, cdepth.
  cbn [source root container lineStart line li col tabRem state panicked].
  destruct (n <? 0); [reflexivity|]. destruct (n =? 0); [reflexivity|]. destruct (st =? stOpening); cbn [source root container lineStart line li col tabRem state panicked];
  destruct (len ln <? i + n); reflexivity.
Qed.
Lemma consumeLine_updCont p f : consumeLine (updCont p f) = updCont (consumeLine p) f.
Proof.
  unfold consumeLine. cbv zeta. change (line (updCont p f)) with (line p). change (li (updCont p f)) with (li p). rewrite advance_updCont.
  change (state (updCont (advance p (len (line p) - li p)) f)) with (state (advance p (len (line p) - li p))).
  destruct (_ || _); [reflexivity|]. destruct (_ =? stDescending); reflexivity.
Qed.

Definition clG (h : nat) (src : bytes) (e : Z) (b : block) : block :=
  match lastBlock b with Some c => set_lastBlocks b (closeBlock h src c e) | None => b end.
Lemma lastBlock_single r y : lastBlock (set_lastBlocks r [y]) = Some y.
Proof. unfold lastBlock, set_lastBlocks. replace (bkids (set_bkids r (removelast (bkids r) ++ [y]))) with (removelast (bkids r) ++ [y]) by (destruct r; reflexivity). rewrite rev_app_distr. reflexivity. Qed.
Lemma set_lastBlocks_twice r y l : set_lastBlocks (set_lastBlocks r [y]) l = set_lastBlocks r l.
Proof.
  unfold set_lastBlocks. replace (bkids (set_bkids r (removelast (bkids r) ++ [y]))) with (removelast (bkids r) ++ [y]) by (destruct r; reflexivity).
  rewrite removelast_last. destruct r; reflexivity.
Qed.
Lemma close_two R (R13 : ~ In 13 R) (RL : LIM R) h e : forall d r, nnB r = true -> peB O R false r ->
  phiB R (updAt d (clG h R e) r) = updAt d (clG h (crlf R) (phiP R e)) (phiB R r) /\ nnB (updAt d (clG h R e) r) = true.
Proof.
  intros d r Hn Hp. split.
  - apply (updAt_Mp (O:=O)); [|exact Hn|exact Hp]. intros b Hb Hpb. unfold clG. rewrite lastBlock_M. destruct (lastBlock b) as [c|] eqn:El; cbn [option_map]; [|reflexivity].
    destruct (closeBlock_Mg O R R13 RL e h c (nnB_lastBlock b c Hb El) (peB_lastBlock O R false b c Hpb El)) as [A _]. rewrite M_set_lastBlocks, A. reflexivity.
  - apply (nnB_updAt_p (O:=O) R); [|exact Hn|exact Hp]. intros b Hb Hpb. unfold clG. destruct (lastBlock b) as [c|] eqn:El; [|exact Hb].
    apply nnB_set_lastBlocks; [exact Hb|]. apply (closeBlock_Mg O R R13 RL e h c (nnB_lastBlock b c Hb El) (peB_lastBlock O R false b c Hpb El)).
Qed.
Section Setext.
  Variable level : Z.
  Definition fS (b : block) : block := set_bn (set_bkind b SetextHeadingKind) level.
  Variable R : bytes.
  Hypothesis R0 : 0 <= len R.
  Lemma peB_fS_closed x : peB O R true x -> bkind x = ParagraphKind -> 0 <= bend x -> peB O R true (fS x).
  Proof. intros H Hk He. destruct x as [K s e bk ik a n c l lb]. cbn [bkind bend] in *. destruct H as [[_ A] B]. split; [|exact B]. split; [cbn [bend fS set_bn set_bkind]; intros; lia|]. intros _. apply A. rewrite Hk. reflexivity. Qed.
  Lemma peB_setext_one f x : peB O R true x -> bkind x = ParagraphKind -> allQ (peB O R true) (closeBlock (S f) R (fS x) (len R)).
  Proof.
    intros H Hk. destruct (Z.lt_ge_cases (bend x) 0) as [Lo|Lc].
    - apply peB_closeSetext; [destruct x; exact Lo|destruct x; reflexivity| | |exact R0].
      + replace (bik (fS x)) with (bik x) by (destruct x; reflexivity). rewrite peB_eq in H. destruct H as [[_ A] _]. apply A. rewrite Hk. reflexivity.
      + replace (bkids (fS x)) with (bkids x) by (destruct x; reflexivity). rewrite peB_eq in H. apply H.
    - cbn [closeBlock]. replace (isOpen (fS x)) with false by (symmetry; unfold isOpen; apply Z.ltb_ge; destruct x; exact Lc). cbn [negb].
      split; [apply peB_fS_closed; assumption|exact I].
  Qed.
  Lemma peB_setext_close f : forall d rt, peB O R true rt -> (forall x, getAt (S d) rt = Some x -> bkind x = ParagraphKind) ->
    peB O R true (updAt d (clG (S f) R (len R)) (updAt (S d) fS rt)).
  Proof.
    induction d as [|d IH]; intros rt H Hk.
    - cbn [updAt]. destruct (lastBlock rt) as [c|] eqn:El; [|unfold clG; rewrite El; exact H]. unfold clG. rewrite lastBlock_single, set_lastBlocks_twice.
      apply peB_set_lastBlocks; [exact H|]. apply peB_setext_one; [eapply peB_lastBlock; eassumption|]. apply Hk. cbn [getAt]. rewrite El. reflexivity.
    - change (updAt (S (S d)) fS rt) with (match lastBlock rt with Some c => set_lastBlocks rt [updAt (S d) fS c] | None => rt end).
      destruct (lastBlock rt) as [c|] eqn:El.
      + change (updAt (S d) (clG (S f) R (len R)) (set_lastBlocks rt [updAt (S d) fS c])) with
          (match lastBlock (set_lastBlocks rt [updAt (S d) fS c]) with Some c' => set_lastBlocks (set_lastBlocks rt [updAt (S d) fS c]) [updAt d (clG (S f) R (len R)) c'] | None => set_lastBlocks rt [updAt (S d) fS c] end).
        rewrite lastBlock_single, set_lastBlocks_twice. apply peB_set_lastBlocks; [exact H|]. split; [|exact I].
        apply IH; [eapply peB_lastBlock; eassumption|]. intros x Ex. apply Hk. cbn [getAt]. rewrite El. exact Ex.
      + cbn [updAt]. rewrite El. exact H.
  Qed.
  Lemma peB_false_fS d rt : peB O R true rt -> (forall x, getAt d rt = Some x -> bkind x = ParagraphKind) -> peB O R false (updAt d fS rt).
  Proof.
    intros H Hk. apply peB_updAt_at; [apply peB_weak, H|]. intros x Ex Hx. destruct x as [K s e bk ik a n c l lb]. pose proof (Hk _ Ex) as Kx. cbn [bkind] in Kx.
    destruct Hx as [[_ A] B]. split; [|exact B]. split; [intros _ X; discriminate X|]. intros _. apply A. cbn [bkind]. rewrite Kx. reflexivity.
  Qed.
End Setext.

Lemma CG_endSetext p q level : CG O p q -> ccP p -> containerKind p = ParagraphKind -> lineStart p + li p = len (source p) ->
  (state p =? stDescending) || (state p =? stDescendTerminated) = false ->
  CG O (endBlock (updCont p (fS level))) (endBlock (updCont q (fS level))).
Proof.
  intros H Hcc Hk Hend Hst. unfold endBlock.
  change (state (updCont p (fS level))) with (state p). change (state (updCont q (fS level))) with (state q). rewrite (CG_state p q H), Hst.
  pose proof (CG_opened p q H) as H0. rewrite (CG_state p q H) in H0.
  assert (E0 : (if state p =? stOpening then withState (updCont p (fS level)) stOpenMatched else updCont p (fS level)) =
               updCont (if state p =? stOpening then withState p stOpenMatched else p) (fS level)) by (destruct (state p =? stOpening); reflexivity).
  assert (E0' : (if state p =? stOpening then withState (updCont q (fS level)) stOpenMatched else updCont q (fS level)) =
               updCont (if state p =? stOpening then withState q stOpenMatched else q) (fS level)) by (destruct (state p =? stOpening); reflexivity).
  rewrite E0, E0'. clear E0 E0'.
  assert (F0 : containerKind (if state p =? stOpening then withState p stOpenMatched else p) = ParagraphKind /\
               lineStart (if state p =? stOpening then withState p stOpenMatched else p) + li (if state p =? stOpening then withState p stOpenMatched else p) =
               len (source (if state p =? stOpening then withState p stOpenMatched else p)) /\
               ccP (if state p =? stOpening then withState p stOpenMatched else p)) by (destruct (state p =? stOpening); (split; [exact Hk|split; [exact Hend|exact Hcc]])).
  set (p0 := if state p =? stOpening then withState p stOpenMatched else p) in *.
  set (q0 := if state p =? stOpening then withState q stOpenMatched else q) in *. clearbody p0 q0. clear H Hcc Hk Hend Hst. destruct F0 as (Hk & Hend & Hcc).
  change (cdepth (updCont p0 (fS level))) with (cdepth p0). change (cdepth (updCont q0 (fS level))) with (cdepth q0). rewrite (CG_cdepth p0 q0 H0).
  destruct (cdepth p0) as [|d] eqn:Ed.
  { exfalso. destruct Hcc as (Kr & _ & _). unfold containerKind, contBlock in Hk. rewrite Ed in Hk. cbn [getAt] in Hk. rewrite Kr in Hk. discriminate. }
  apply CG_withCont.
  assert (Hkd : forall x, getAt (S d) (root p0) = Some x -> bkind x = ParagraphKind).
  { intros x Ex. unfold containerKind, contBlock in Hk. rewrite Ed, Ex in Hk. exact Hk. }
  change (lineStart (updCont p0 (fS level)) + li (updCont p0 (fS level))) with (lineStart p0 + li p0).
  change (lineStart (updCont q0 (fS level)) + li (updCont q0 (fS level))) with (lineStart q0 + li q0).
  rewrite (CG_pos p0 q0 H0), Hend.
  cgsplit H0. unfold closeLastChildAt, updCont, withRoot. flds. cbv beta iota delta [root source cdepth container] in Hkd, Ed. destruct S91 as [HL HP].
  rewrite Ed.
  pose proof (len_nonneg S) as HS0.
  set (rt1 := updAt (Datatypes.S d) (fS level) rt).
  assert (N1 : nnB rt1 = true) by (apply nnB_updAt; [intros b Hb; destruct b; exact Hb|exact Hnn]).
  assert (P1 : peB O S false rt1) by (apply peB_false_fS; assumption).
  assert (E1 : phiB S rt1 = updAt (Datatypes.S d) (fS level) (phiB S rt)) by (apply updAt_Mc; [intros b _; destruct b; reflexivity|exact Hnn]).
  rewrite <- E1, bheight_M.
  destruct (close_two S S13 HL (bheight rt1) (len S) d rt1 N1 P1) as [E2 N2]. fold (clG (bheight rt1) S (len S)). fold (clG (bheight rt1) (crlf S) (phiP S (len S))).
  rewrite <- E2. apply CG_mk; try assumption. split; [exact HL|].
  destruct (bheight rt1) as [|f] eqn:Eh; [destruct rt1; cbn [bheight] in Eh; discriminate Eh|]. apply peB_setext_close; assumption.
Qed.

Lemma CG_startSetext p q : CG O p q -> st_open p -> ccP p -> CG O (startSetext p) (startSetext q).
Proof.
  intros H Hso Hcc. unfold startSetext. cbv zeta. rewrite (CG_containerKind p q H).
  destruct (Z.eqb_spec (containerKind p) ParagraphKind) as [Hk|Hk]; cbn [negb]; [|exact H].
  rewrite (CG_indent p q H). destruct (_ <=? _); [exact H|].
  destruct (CG_bai p q H) as [Eb Lb]. destruct (recog_crlf _ Lb) as (_ & _ & Rs & _). rewrite Eb, Rs.
  destruct (Z.eqb_spec (parseSetextHeadingUnderline (bytesAfterIndent p)) 0) as [E0|N0]; [exact H|]. rewrite (CG_chpc p q H). destruct (negb _); [exact H|].
  rewrite !consumeLine_updCont. set (level := parseSetextHeadingUnderline (bytesAfterIndent p)) in *.
  change (fun b : block => set_bn (set_bkind b SetextHeadingKind) level) with (fS level).
  pose proof (CG_consumeLine p q H) as H1.
  apply CG_endSetext; [exact H1|apply ccP_consumeLine, Hcc| | |].
  - unfold containerKind, contBlock, cdepth in *. destruct (same_consumeLine p) as [A B]. rewrite A, B. exact Hk.
  - (* the cursor is at the end of the line, which is the end of the source *)
    destruct (CG_advance_end p q H) as (_ & F1 & F2).
    assert (Eli : li (consumeLine p) = len (line p)).
    { unfold consumeLine. cbv zeta. destruct (_ || _); [exact F1|]. destruct (_ =? stDescending); exact F1. }
    pose proof (env_consumeLine p) as Ee. unfold envOf in Ee. injection Ee as E1 E2 E3. rewrite Eli, E1, E2.
    assert (Eln : line p = from_ (source p) (lineStart p)) by apply H. assert (Ls0 : 0 <= lineStart p) by apply H.
    destruct (Z.le_gt_cases (lineStart p) (len (source p))) as [L|L]; [rewrite Eln, len_from by lia; lia|].
    exfalso. apply N0. unfold level, bytesAfterIndent, rest. rewrite Eln, !Rec16.from_nil by (try rewrite Rec16.from_nil by lia; cbn; destruct H as (_ & _ & _ & _ & _ & _ & _ & _ & Li & _); lia). reflexivity.
  - assert (Hs : state (consumeLine p) = stLineConsumed).
    { unfold consumeLine. cbv zeta.
      assert (Ha : st_open (advance p (len (line p) - li p))).
      { unfold advance. destruct (_ <? 0); [exact Hso|]. destruct (_ =? 0); [exact Hso|]. cbv zeta.
        assert (H0 : st_open (if state p =? stOpening then withState p stOpenMatched else p)) by (apply st_open_opened, Hso).
        destruct (_ <? _); exact H0. }
      destruct Ha as [Ea|Ea]; rewrite Ea; reflexivity. }
    rewrite Hs. reflexivity.
Qed.

Lemma CG_startListItem p q : CG O p q -> G p -> CG O (startListItem p) (startListItem q).
Proof.
  intros H HG. unfold startListItem. cbv zeta. rewrite (CG_indent p q H). destruct (_ <=? _); [exact H|].
  destruct (CG_bai p q H) as [Eb Lb]. destruct (recog_crlf _ Lb) as (_ & _ & _ & _ & Rm). rewrite Eb, Rm.
  destruct (parseListMarker (bytesAfterIndent p)) as [[delim n] mend] eqn:Em.
  rewrite (CG_containerKind p q H).
  destruct (Z.ltb_spec mend 0) as [|Lm]; cbn [orb]; [exact H|].
  destruct (_ && _ && _); [exact H|].
  destruct (rec_bounds _ Lb) as (_ & _ & Bm & _). pose proof (Bm _ _ _ Em) as Hmb.
  rewrite (from_blen _ mend Lb ltac:(lia)), isBlankLine_crlf.
  destruct (_ && isBlankLine _); [exact H|].
  assert (Hne : bytesAfterIndent p <> []) by (intros X; rewrite X in Em; vm_compute in Em; injection Em as _ _ <-; lia).
  destruct (bai_bound p q H HG Hne) as [Hbb Hli].
  destruct (after_indent p q H HG) as (H1 & G1 & R1 & L1 & E1 & _).
  set (p1 := consumeIndent p (indent p)) in *. set (q1 := consumeIndent q (indent p)) in *. clearbody p1 q1.
  rewrite (CG_containerKind p1 q1 H1). destruct (CG_field p1 q1 H1) as (_ & _ & F3 & _). rewrite F3.
  set (cdelim := if (containerKind p1 =? ListKind) || (containerKind p1 =? ListItemKind) then bchar (contBlock p1) else 0).
  set (p2 := if negb (containerKind p1 =? ListKind) || negb (cdelim =? delim) then updCont (openBlock p1 ListKind) (fun b => set_bchar b delim) else p1).
  set (q2 := if negb (containerKind p1 =? ListKind) || negb (cdelim =? delim) then updCont (openBlock q1 ListKind) (fun b => set_bchar b delim) else q1).
  assert (H2 : CG O p2 q2 /\ G p2 /\ curS p1 p2).
  { unfold p2, q2. destruct (negb _ || negb _); [|split; [exact H1|split; [exact G1|apply curS_refl]]].
    destruct (G_openBlock p1 ListKind G1) as [Go Hc]. split; [|split; [exact Go|exact Hc]].
    apply CG_flag; [intros S b; destruct b; reflexivity|intros b; destruct b; reflexivity|intros R x Hx; destruct x; exact Hx|apply CG_openBlock; [exact H1|discriminate]]. }
  destruct H2 as (H2 & G2 & C2). clearbody p2 q2.
  destruct (G_openBlock p2 ListItemKind G2) as [G3 C3].
  assert (H3 : CG O (updCont (openBlock p2 ListItemKind) (fun b => set_bchar b delim)) (updCont (openBlock q2 ListItemKind) (fun b => set_bchar b delim)))
    by (apply CG_flag; [intros S b; destruct b; reflexivity|intros b; destruct b; reflexivity|intros R x Hx; destruct x; exact Hx|apply CG_openBlock; [exact H2|discriminate]]).
  set (p3 := updCont (openBlock p2 ListItemKind) (fun b => set_bchar b delim)) in *.
  set (q3 := updCont (openBlock q2 ListItemKind) (fun b => set_bchar b delim)) in *.
  assert (G3' : G p3) by exact G3. assert (C3' : curS p1 p3) by (eapply curS_trans; [exact C2|exact C3]). clearbody p3 q3.
  destruct (G_openBlock p3 ListMarkerKind G3') as [G4 C4].
  assert (C4' : curS p1 (openBlock p3 ListMarkerKind)) by (eapply curS_trans; [exact C3'|exact C4]).
  pose proof (CG_openBlock p3 q3 ListMarkerKind H3 ltac:(discriminate)) as H4.
  set (p4 := openBlock p3 ListMarkerKind) in *. set (q4 := openBlock q3 ListMarkerKind) in *. clearbody p4 q4.
  destruct C4' as (C41 & C42 & _).
  assert (H5 : CG O (advance p4 mend) (advance q4 mend)) by (apply CG_advance; [exact H4|exact Lm|rewrite C41, C42, L1, E1; lia]).
  pose proof (CG_endBlock _ _ H5) as H6.
  set (p6 := endBlock (advance p4 mend)) in *. set (q6 := endBlock (advance q4 mend)) in *. clearbody p6 q6.
  rewrite (CG_isRestBlank p6 q6 H6). destruct (isRestBlank p6).
  - apply CG_consumeLine. apply CG_flag; [intros S b; destruct b; reflexivity|intros b; destruct b; reflexivity|intros R x Hx; destruct x; exact Hx|exact H6].
  - rewrite (CG_indent p6 q6 H6). destruct (indent p6 <? 1).
    + apply CG_flag; [intros S b; destruct b; reflexivity|intros b; destruct b; reflexivity|intros R x Hx; destruct x; exact Hx|exact H6].
    + destruct (4 <? indent p6); (apply CG_flag; [intros S b; destruct b; reflexivity|intros b; destruct b; reflexivity|intros R x Hx; destruct x; exact Hx|apply CG_consumeIndent, H6]).
Qed.
End GenStarts.
