From Coq Require Import List ZArith Lia Bool.
Import ListNotations.
Require Import Base Tables Utf8 Tree Rdr Link Collect Html Recog Inl3a Inl3b Inl3c Inl3d Inl3e Render Safe Leaf3a Leaf3b.
Open Scope Z_scope.

(* span shrinking keeps gok for any node *)
Lemma shrink_gok b src k1 k2 n : 0 <= k1 -> 0 <= k2 -> gok b src n = true ->
  gok b src (setSpan n (ps n + k1) (pe n - k2)) = true.
Proof.
  intros H1 H2 H. destruct n as [i k s e ind r ks]. cbn [setSpan ps pe gok] in *.
  apply andb_true_iff in H. destruct H as [H Hk]. apply andb_true_iff in H. destruct H as [Hi Hl].
  rewrite Hi, Hk, (localok_shrink src k s e (s + k1) (e - k2)) by (lia || assumption). reflexivity.
Qed.

(* after a wrap with identity b: nodes that can be reached and carry identity b are wrappers of that kind *)
Fixpoint gokK (b kind : Z) (src : bytes) (n : pn) : bool :=
  match n with PN id k s e _ _ ks =>
    (id <? b + 1) && ((id <? b) || (k =? kind)) && localok src k s e &&
    (if skipKind k then true else forallb (gokK b kind src) ks)
  end.
Definition gokKF b kind src l := forallb (gokK b kind src) l.

Lemma gok_gokK b kind src : forall n, gok b src n = true -> gokK b kind src n = true.
Proof.
  fix IH 1. intros [id k s e ind r ks] H. cbn [gok gokK] in *.
  apply andb_true_iff in H. destruct H as [H Hk]. apply andb_true_iff in H. destruct H as [Hi Hl].
  rewrite Hi, Hl. apply Z.ltb_lt in Hi. replace (id <? b + 1) with true by (symmetry; apply Z.ltb_lt; lia). cbn [andb orb].
  destruct (skipKind k); [reflexivity|].
  induction ks as [|x l IHl]; [reflexivity|]. cbn [forallb] in *. apply andb_true_iff in Hk. destruct Hk as [Hx Hl'].
  rewrite (IH x Hx). apply IHl. assumption.
Qed.
Lemma gokF_gokKF b kind src l : gokF b src l = true -> gokKF b kind src l = true.
Proof. unfold gokF, gokKF. intros H. rewrite forallb_forall in *. intros x Hx. apply gok_gokK, H, Hx. Qed.
Lemma gokKF_app b kind src l1 l2 : gokKF b kind src (l1 ++ l2) = gokKF b kind src l1 && gokKF b kind src l2.
Proof. apply forallb_app. Qed.

Lemma wrapLevel_gokK b src kind startId endId endStart parentEnd l :
  trivKind kind = true -> skipKind kind = false ->
  gokKF b kind src l = true -> gokKF b kind src (wrapLevel b kind startId endId endStart parentEnd l) = true.
Proof.
  intros Ht Hs H. unfold wrapLevel.
  pose proof (splitAtId_app startId l) as E1. destruct (splitAtId startId l) as [pre post].
  pose proof (splitBeforeId_app endId post) as E2. destruct (splitBeforeId endId post) as [mid rest].
  subst l post. rewrite !gokKF_app in H. apply andb_true_iff in H. destruct H as [Hpre H].
  apply andb_true_iff in H. destruct H as [Hmid Hrest].
  rewrite !gokKF_app, Hpre, Hrest. cbn [andb]. unfold gokKF at 1. cbn [forallb gokK].
  rewrite (localok_triv src kind _ _ Ht), Hs, Z.eqb_refl.
  replace (b <? b + 1) with true by (symmetry; apply Z.ltb_lt; lia). rewrite orb_true_r. cbn [andb]. rewrite ?andb_true_r. exact Hmid.
Qed.
Lemma wrapIn_gokK b src kind startId endId endStart : trivKind kind = true -> skipKind kind = false ->
  forall fuel parentEnd l, gokKF b kind src l = true -> gokKF b kind src (wrapIn fuel b kind startId endId endStart parentEnd l) = true.
Proof.
  intros Ht Hs. induction fuel as [|f IH]; intros parentEnd l H; [assumption|]. cbn [wrapIn].
  destruct (hasId startId l); [apply wrapLevel_gokK; assumption|].
  unfold gokKF in *. rewrite forallb_forall in *. intros x Hx. apply in_map_iff in Hx. destruct Hx as (n & <- & Hn).
  specialize (H n Hn). destruct n as [i k s e ind r ks]. cbn [setKids gokK pkids pe] in *.
  apply andb_true_iff in H. destruct H as [H Hk]. rewrite H. cbn [andb].
  destruct (skipKind k); [reflexivity|]. apply IH. exact Hk.
Qed.

(* updating the nodes of identity b with any change of span/ref brings us back to gok (b+1), when the kind is trivial *)
Lemma updNode_gokK b kind src g : trivKind kind = true ->
  (forall n, pid (g n) = pid n /\ pkind (g n) = pkind n /\ pkids (g n) = pkids n) ->
  forall fuel l, gokKF b kind src l = true -> gokF (b + 1) src (updNode fuel b g l) = true.
Proof.
  intros Ht Hg.
  assert (Hback : forall n, gokK b kind src n = true -> gok (b + 1) src n = true).
  { fix IH 1. intros [id k s e ind r ks] H. cbn [gok gokK] in *.
    apply andb_true_iff in H. destruct H as [H Hk]. apply andb_true_iff in H. destruct H as [H Hl].
    apply andb_true_iff in H. destruct H as [Hi _]. rewrite Hi, Hl. cbn [andb].
    destruct (skipKind k); [reflexivity|].
    induction ks as [|x l IHl]; [reflexivity|]. cbn [forallb] in *. apply andb_true_iff in Hk. destruct Hk as [Hx Hl'].
    rewrite (IH x Hx). apply IHl. assumption. }
  induction fuel as [|f IH]; intros l H.
  { unfold gokF, gokKF in *. rewrite forallb_forall in *. intros x Hx. apply Hback, H, Hx. }
  cbn [updNode]. unfold gokF, gokKF in *. rewrite forallb_forall in *. intros x Hx.
  apply in_map_iff in Hx. destruct Hx as (n & <- & Hn). specialize (H n Hn).
  destruct (Z.eqb_spec (pid n) b) as [Eb|Eb].
  - (* the wrapper itself: its kind is trivial, so any span is fine; its children are kept *)
    destruct (Hg n) as (G1 & G2 & G3).
    destruct n as [i k s e ind r ks]. destruct (g (PN i k s e ind r ks)) as [i' k' s' e' ind' r' ks'] eqn:Eg.
    cbn [pid pkind pkids] in *. subst i' k' ks' i.
    cbn [gokK gok] in *.
    apply andb_true_iff in H. destruct H as [H Hk]. apply andb_true_iff in H. destruct H as [H Hl].
    apply andb_true_iff in H. destruct H as [Hi Hor].
    rewrite Z.ltb_irrefl in Hor. cbn [orb] in Hor. apply Z.eqb_eq in Hor. subst k.
    rewrite Hi, (localok_triv src kind _ _ Ht). cbn [andb].
    destruct (skipKind kind); [reflexivity|].
    rewrite forallb_forall. intros y Hy. apply Hback. rewrite forallb_forall in Hk. apply Hk, Hy.
  - destruct n as [i k s e ind r ks]. cbn [setKids gok gokK pkids pid] in *.
    apply andb_true_iff in H. destruct H as [H Hk]. apply andb_true_iff in H. destruct H as [H Hl].
    apply andb_true_iff in H. destruct H as [Hi _]. rewrite Hi, Hl. cbn [andb].
    destruct (skipKind k); [reflexivity|]. apply IH. exact Hk.
Qed.

(* the link step: wrap, then re-span / set the reference of the wrapper *)
Lemma wrap_then_upd_inv st kind startId endId g :
  Inv3 st -> trivKind kind = true -> skipKind kind = false ->
  (forall n, pid (g n) = pid n /\ pkind (g n) = pkind n /\ pkids (g n) = pkids n) ->
  Inv3 (updN (fst (wrap st kind startId endId)) (snd (wrap st kind startId endId)) g).
Proof.
  intros (Hn & Hg) Ht Hs Hgg. unfold wrap. cbn [fst snd]. unfold Inv3, updN, bumpId, setRk; cbn [nid isrc rk]. split; [lia|].
  apply (updNode_gokK (nid st) kind); [assumption|assumption|].
  apply wrapIn_gokK; [assumption|assumption|]. apply gokF_gokKF. assumption.
Qed.
