From Coq Require Import List ZArith Lia Bool.
Import ListNotations.
Require Import Base Tree Rdr Link Collect LP Driver Props BSRdr LADef LA1 LA2 LAR1.
Open Scope Z_scope.

(* ===== small facts used by the link-reference-definition extraction ===== *)

(* two splittings of a sorted list: the one at the later position is a suffix of the other *)
Lemma suffix_of : forall (pre ik : list inline) u t p1 x tx q, sortedS ik -> ik = pre ++ u :: t -> ik = p1 ++ x :: tx ->
  istart u <= q -> istart x <= q < iend x -> exists mid, u :: t = mid ++ x :: tx.
Proof.
  induction pre as [|y pre IH]; intros ik u t p1 x tx q Hs E1 E2 Hu Hx.
  - exists p1. cbn [app] in E1. congruence.
  - destruct p1 as [|y' p1].
    + exfalso. cbn [app] in *. subst ik. inversion E2; subst. destruct Hs as [Hs _]. specialize (Hs u ltac:(apply in_or_app; right; left; reflexivity)). lia.
    + cbn [app] in *. subst ik. inversion E2 as [[Ey Et]]. destruct Hs as [_ Hs]. eapply (IH _ u t p1 x tx q Hs eq_refl Et); assumption.
Qed.

Lemma nip_in (mid : list inline) x tx p : sortedS (mid ++ x :: tx) -> (forall y, In y (mid ++ x :: tx) -> 0 <= istart y < iend y) -> istart x <= p < iend x ->
  nodeIndexForPosition (mid ++ x :: tx) p = len mid /\ from_ (mid ++ x :: tx) (len mid) = x :: tx.
Proof.
  intros Hs Hpos Hp. split.
  - unfold nodeIndexForPosition. rewrite nodeIdx_skip.
    + apply nodeIdx_hd. apply spanHas_iff; [apply (Hpos x), in_or_app; right; left; reflexivity|exact Hp].
    + intros y Hy. assert (He : iend y <= istart x).
      { clear Hpos Hp. induction mid as [|z mid IHm]; [destruct Hy|]. cbn [app] in Hs. destruct Hs as [Hs1 Hs2]. destruct Hy as [->|Hy].
        - apply Hs1. apply in_or_app; right; left; reflexivity.
        - apply IHm; assumption. }
      specialize (Hpos y ltac:(apply in_or_app; left; exact Hy)). lia.
  - unfold from_, len. rewrite Nat2Z.id. rewrite skipn_app, skipn_all, Nat.sub_diag. reflexivity.
Qed.
Lemma nip_out : forall (l : list inline) p k, (forall y, In y l -> iend y <= p) -> nodeIdx l p k = -1.
Proof.
  induction l as [|y l IH]; intros p k H; [reflexivity|]. cbn [nodeIdx]. destruct (p <? istart y); [reflexivity|].
  assert (Es : spanHas y p = false).
  { unfold spanHas. specialize (H y (or_introl eq_refl)). replace (p <? iend y) with false by (symmetry; apply Z.ltb_ge; lia). apply andb_false_r. }
  rewrite Es. apply IH. intros z Hz. apply H. right. exact Hz.
Qed.

Lemma la_refDef src M s e kids : 0 <= s -> s <= e -> e <= M -> bnd0 src e -> tileS src s e (defSpans kids) -> ordIn s e (flat_map leavesI kids) ->
  la src M (refDefBlock s e kids).
Proof.
  intros H0 H1 H2 Hb Ht Ho. unfold refDefBlock. cbn [la]. split; [lia|]. split; [right; split; [lia|exact Hb]|]. split; [intros; lia|].
  destruct (Z.ltb_spec e 0); [lia|]. split; [split; [exact Ht|exact Ho]|exact I].
Qed.

Lemma tchain_cat src lo m hi : forall a b, tchain src false lo m a -> tchain src false m hi b -> tchain src false lo hi (a ++ b).
Proof.
  intros a. revert lo. induction a as [|c a IH]; intros lo b Ha Hb; cbn [app].
  - destruct Ha as [A1 A2]. eapply tchain_lo; eassumption.
  - destruct Ha as (A1 & A2 & A3). cbn [tchain]. split; [exact A1|]. split; [exact A2|]. destruct (bend c <? 0); [destruct A3; discriminate|].
    destruct A3 as [A3 A4]. split; [exact A3|]. apply IH; assumption.
Qed.
