(* ======================================================================================================================
   TASK T27 -- every inline node produced by the inline parser has the shape of its construct (property C13, inline level,
   end to end through parseInlines)

   MAIN THEOREM (proved, closed under the global context, stated exactly as asked):
       parseInlines_shapes : forall src matcher b, bikOK' src b = true ->
                             forallb (shapesI src) (parseInlines src matcher b) = true
   with Props.shapesI (all kinds, all depths, including span_valid of every node) and
       bikOK' src b = bikOK src b && forallb eok (bik b) && linesOK src (bik b)          (see below for what was added).
   Per-kind theorems: parseInlines_{autolink,htmltag,charref,hardbreak,emphasis,strong,link,image,codespan}_shapes.

   Files (all new; no existing file is modified):
     IS0.v   occurrences of an identity in a parse-time forest (any depth) and the forest operations; fuel adequacy of
             findNode / updNode for the fuel the parser uses
     IS1.v   the per-node predicates: `cok` (a construct node has a valid, well-shaped span and a frozen identity) and
             `vok` (every node's span lies in the source); Props.shapesI = shapesC && validI
     IS2.v   Props.shapeInline from byte-level facts (emphasis / strong, link / image, <...>, &...;, hard line breaks)
     IS3.v   the delimiter chain -- every stack entry names exactly one node of the forest, a childless Text node whose
             span selects copies of its delimiter byte ("[" / "![" for brackets); these spans are non-empty and
             increase along the stack -- and the state invariant J
     IS4.v   processEmphasis keeps J: both delimiter nodes shrink at their facing ends (a sub-run stays a run), the new
             Emphasis / Strong node spans from the opener's new end to the closer's new start
     IS5a.v  collectTextNodes: every character reference it makes has its shape;  IS8b.v: every node it makes is valid
     IS5b.v  where the link scanners stop (")" / "]");  IS8c.v: bounds of the link parts, children of a code span
     IS5.v   finishLink and parseEndBracket keep J (the four sites where a link / image span is assigned)
     IS6a-c  the cursor of the tokeniser (current entry, position inside it), lines, code-span cursor, frame of
             parseEndBracket;  IS6d/e: an HTML tag never ends exactly where an Indent span starts (the walk of
             ShapesHT.v with the reader invariant abstracted, then instantiated)
     IS6.v   one step of the tokeniser keeps the combined invariant (GI4.MI, Leaf3f.InvS, J, cursor)
     IS7.v   iloop / outer / parseInlines
     InlineShapes.v (this file)  statements, the hypothesis bikOK', corollaries per kind, counterexample, vm_compute checks
   ====================================================================================================================== *)
From Coq Require Import List ZArith Lia Bool String Ascii.
Import ListNotations.
Require Import Base Tables Utf8 Tree Rdr Link Collect Html Recog Inl3a Inl3b Inl3c Inl3d Inl3e Driver Props.
Require Import ShapesR ShapesComp ShapesComp3 Shapes GI6 IS1 IS2 IS6b IS7.
Open Scope Z_scope.

(* ---------------------------------------------------------------- the hypothesis on the container's inline entries
   bikOK (ShapesComp3.v) = spOK src (bik b) && (ibudget (bik b) <=? len src + 9) && forallb noCSI (bik b).
   ADDED (both executable):
     forallb eok (bik b)     every entry is an Unparsed / RawHTML / Indent node without children (GI6.eok; this is what the
                             block layer leaves in a paragraph or heading, L2Kind2; it implies noCSI)
     linesOK src (bik b)     every entry that is not an Indent span is a line: its line-ending bytes (LF / CR) form a
                             suffix of it, and that suffix is non-empty unless the entry is the last one (IS6b.linesOK).
   The first is needed to reuse the delimiter-stack invariants of GramInline (GI4.MI); the second is what makes a hard
   line break end with its line ending -- the parser itself never looks at the bytes after the two spaces / the backslash
   other than "spaces, LF, CR up to the end of the entry" (see Shapes.v, parseHardLineBreakSpace_hard_iff); without it the
   statement is false (hardbreak_needs_linesOK below).  chk_hyp below evaluates bikOK' on the containers of sample
   documents as the block parser produces them. *)
Definition bikOK' (src : bytes) (b : block) : bool := bikOK src b && forallb eok (bik b) && linesOK src (bik b).

Lemma bikOK'_parts src b : bikOK' src b = true ->
  spOK src (bik b) = true /\ ibudget (bik b) <= len src + 9 /\ forallb eok (bik b) = true /\ linesOK src (bik b) = true.
Proof.
  unfold bikOK', bikOK. intros H. apply andb_true_iff in H. destruct H as [H HL]. apply andb_true_iff in H. destruct H as [H He].
  apply andb_true_iff in H. destruct H as [H _]. apply andb_true_iff in H. destruct H as [H1 H2]. apply Z.leb_le in H2. tauto.
Qed.

(* ---------------------------------------------------------------- the two halves of Props.shapesI
   shapesC src i  =  every node of i (at any depth) whose kind is Emphasis, Strong, CodeSpan, Link, Image, Autolink,
                     HTMLTag, CharacterReference or HardLineBreak has a valid span whose text satisfies Props.shapeInline
   validI  src i  =  every node of i (at any depth) has a valid span
   Props.shapesI src i = shapesC src i && validI src i   (IS1.shapesI_split; for the other kinds shapeInline is true). *)
Theorem parseInlines_shapesC : forall src matcher b, bikOK' src b = true ->
  forallb (shapesC src) (parseInlines src matcher b) = true.
Proof.
  intros src matcher b H. destruct (bikOK'_parts src b H) as (H1 & H2 & H3 & H4).
  apply (parseInlines_constructs src (bik b) H3 H1 H2 H4 matcher b eq_refl).
Qed.
Theorem parseInlines_validI : forall src matcher b, bikOK' src b = true ->
  forallb (validI src) (parseInlines src matcher b) = true.
Proof.
  intros src matcher b H. destruct (bikOK'_parts src b H) as (H1 & H2 & H3 & H4).
  apply (parseInlines_constructs src (bik b) H3 H1 H2 H4 matcher b eq_refl).
Qed.

Lemma shapesI_parts src l : forallb (shapesI src) l = forallb (shapesC src) l && forallb (validI src) l.
Proof.
  induction l as [|x l IH]; [reflexivity|]. cbn [forallb]. rewrite IH, shapesI_split.
  destruct (shapesC src x), (validI src x), (forallb (shapesC src) l), (forallb (validI src) l); reflexivity.
Qed.

(* ---------------------------------------------------------------- THE STATEMENT ASKED FOR *)
Theorem parseInlines_shapes : forall src matcher b, bikOK' src b = true ->
  forallb (shapesI src) (parseInlines src matcher b) = true.
Proof.
  intros src matcher b H. rewrite shapesI_parts, (parseInlines_shapesC src matcher b H), (parseInlines_validI src matcher b H). reflexivity.
Qed.

(* ---------------------------------------------------------------- one kind at a time *)
Fixpoint shapesK (K : Z) (src : bytes) (i : inline) : bool :=
  match i with Inl k s e _ _ ks => (if k =? K then span_valid (len src) s e && shapeInline (sub src s e) k else true) && forallb (shapesK K src) ks end.
Lemma shapesC_K K src : isC K = true -> forall i, shapesC src i = true -> shapesK K src i = true.
Proof.
  intros HK. fix IH 1. intros [k s e ind rf ks] H. cbn [shapesC shapesK] in *. apply andb_true_iff in H. destruct H as [H Hk].
  apply andb_true_iff. split.
  - destruct (Z.eqb_spec k K) as [->|_]; [|reflexivity]. rewrite HK in H. exact H.
  - induction ks as [|x l IHl]; [reflexivity|]. cbn [forallb] in *. apply andb_true_iff in Hk. destruct Hk as [Hx Hl]. rewrite (IH x Hx). apply IHl, Hl.
Qed.
Lemma per_kind K : isC K = true -> forall src matcher b, bikOK' src b = true -> forallb (shapesK K src) (parseInlines src matcher b) = true.
Proof.
  intros HK src matcher b H. pose proof (parseInlines_shapesC src matcher b H) as Hc. rewrite forallb_forall in *. intros x Hx.
  apply (shapesC_K K src HK). apply Hc, Hx.
Qed.
Theorem parseInlines_autolink_shapes : forall src matcher b, bikOK' src b = true -> forallb (shapesK AutolinkKind src) (parseInlines src matcher b) = true.
Proof. apply per_kind. reflexivity. Qed.
Theorem parseInlines_htmltag_shapes : forall src matcher b, bikOK' src b = true -> forallb (shapesK HTMLTagKind src) (parseInlines src matcher b) = true.
Proof. apply per_kind. reflexivity. Qed.
Theorem parseInlines_charref_shapes : forall src matcher b, bikOK' src b = true -> forallb (shapesK CharacterReferenceKind src) (parseInlines src matcher b) = true.
Proof. apply per_kind. reflexivity. Qed.
Theorem parseInlines_hardbreak_shapes : forall src matcher b, bikOK' src b = true -> forallb (shapesK HardLineBreakKind src) (parseInlines src matcher b) = true.
Proof. apply per_kind. reflexivity. Qed.
Theorem parseInlines_emphasis_shapes : forall src matcher b, bikOK' src b = true -> forallb (shapesK EmphasisKind src) (parseInlines src matcher b) = true.
Proof. apply per_kind. reflexivity. Qed.
Theorem parseInlines_strong_shapes : forall src matcher b, bikOK' src b = true -> forallb (shapesK StrongKind src) (parseInlines src matcher b) = true.
Proof. apply per_kind. reflexivity. Qed.
Theorem parseInlines_link_shapes : forall src matcher b, bikOK' src b = true -> forallb (shapesK LinkKind src) (parseInlines src matcher b) = true.
Proof. apply per_kind. reflexivity. Qed.
Theorem parseInlines_image_shapes : forall src matcher b, bikOK' src b = true -> forallb (shapesK ImageKind src) (parseInlines src matcher b) = true.
Proof. apply per_kind. reflexivity. Qed.
Theorem parseInlines_codespan_shapes : forall src matcher b, bikOK' src b = true -> forallb (shapesK CodeSpanKind src) (parseInlines src matcher b) = true.
Proof. apply per_kind. reflexivity. Qed.

(* ---------------------------------------------------------------- the added hypothesis linesOK is needed
   source "a  b", entries [0,3) and [3,4): the first entry does not end with a line ending; the parser reports a hard line
   break over "  " (no line ending in the span), which Props.shapeInline rejects.  bikOK holds, eok holds, linesOK fails. *)
Definition cexH_src : bytes := [97; 32; 32; 98].
Definition cexH_blk : block := Blk ParagraphKind 0 4 [] [mkI UnparsedKind 0 3; mkI UnparsedKind 3 4] 0 0 0 false false.
Example hardbreak_needs_linesOK :
  bikOK cexH_src cexH_blk = true /\ forallb eok (bik cexH_blk) = true /\ linesOK cexH_src (bik cexH_blk) = false /\
  parseInlines cexH_src [] cexH_blk = [Inl TextKind 0 1 0 [] []; Inl HardLineBreakKind 1 3 0 [] []; Inl TextKind 3 4 0 [] []] /\
  forallb (shapesI cexH_src) (parseInlines cexH_src [] cexH_blk) = false.
Proof. repeat split; vm_compute; reflexivity. Qed.

(* ---------------------------------------------------------------- vm_compute checks on whole documents
   chk_hyp : every container the block parser hands to the inline parser satisfies bikOK';
   chk_concl : Props.shapesI holds of every inline node of parseFull's trees (the conclusion, evaluated). *)
Fixpoint bs (s : string) : bytes := match s with EmptyString => [] | String c r => Z.of_nat (nat_of_ascii c) :: bs r end.
Definition nl := String (ascii_of_nat 10) EmptyString.
Definition tab := String (ascii_of_nat 9) EmptyString.
Definition cr := String (ascii_of_nat 13) EmptyString.
Definition nul := String (ascii_of_nat 0) EmptyString.
Definition chk_hyp (input : bytes) : bool :=
  forallb (fun r => forallb (fun b => if (0 <? len (bik b)) && hasUnparsed b then bikOK' (rb_src r) b else true)
                      (allB (bheight (rb_blk r)) (rb_blk r))) (fst (parseBlocks input)).
Definition chk_concl (input : bytes) : bool :=
  forallb (fun r => forallb (fun b => forallb (shapesI (rb_src r)) (bik b)) (allB (bheight (rb_blk r)) (rb_blk r))) (fst (parseFull input)).
Open Scope string_scope.
Definition docs : list bytes := map bs [
  "***a* b**" ++ nl;                                                                   (* nested emphasis, leftover delimiters *)
  "[foo](/url 'ti" ++ nl ++ "tle') and [![img](a.png)](b) x" ++ nl;                    (* multi-line title, image in a link *)
  "<http://a.b/c> <a@b.cd> <a href='x'" ++ nl ++ "  b=c> &amp; &#35; &#x2A; &;" ++ nl;   (* autolinks, raw tag over two lines, references *)
  "line one  " ++ nl ++ "line two\" ++ nl ++ "line three  " ++ nl;                      (* both hard breaks; the last one becomes text *)
  "a  " ++ cr ++ nl ++ "b\" ++ cr ++ "c  " ++ cr ++ "d" ++ cr ++ nl;                    (* CR / CRLF endings *)
  "> *foo" ++ nl ++ "> bar* __x__ _y_ **z" ++ nl ++ "lazy** `c`  " ++ nl ++ "- [a][b] [c][] [d]" ++ nl ++ nl ++ "[b]: /u" ++ nl ++ "[c]: /v" ++ nl ++ "[d]: /w" ++ nl;
  "**a *b **c** d* e** *_x_* ___y___ ****z** w" ++ nl;
  "![a *b* [c](d)](e ""t"") [x] ![y] ]" ++ nl;
  "# h *e*  " ++ nl ++ "para  " ++ nl ++ nl ++ "x\" ++ nl;
  "<!-- c" ++ nl ++ "d --> <?p?> <![CDATA[x]]> </b >" ++ nl ++ "  &copy; \* *" ++ nl;
  "*a **b* c** [l *e](u) m* [x *y] z*" ++ nl;
  "a" ++ tab ++ "  " ++ nl ++ "   b  " ++ nl ++ "1. c  " ++ nl ++ "   d\" ++ nl ++ "   e";
  "*a*b* **a* *a** * a * _a_b_ __a__b__ a*" ++ nl ++ "*b* c_" ++ nl ++ "_d" ++ nl;
  "[a](<b c> ""t" ++ nl ++ "u"") [x](y" ++ nl ++ "z) [p]( q )  " ++ nl ++ "end  ";
  "Title *x*  " ++ nl ++ "===" ++ nl ++ nl ++ "## h `c` \" ++ nl ++ "*** a ***  b" ++ nl ++ "[ref]" ++ nl ++ nl ++ "[ref]: /x" ++ nl;
  "> - *a" ++ nl ++ ">   b*  " ++ nl ++ ">   [l" ++ nl ++ ">   m](n" ++ nl ++ ">   'o" ++ nl ++ ">   p')" ++ nl ++ "> `x" ++ nl ++ "> y`" ++ nl;
  "![[a](b)](c) [![d](e)][f] [g]: [h] *[i*](j) **[k**](l)" ++ nl ++ nl ++ "[f]: /f" ++ nl ++ "[h]: /h" ++ nl;
  "a" ++ nul ++ "*b" ++ nul ++ "* <x" ++ nul ++ "> &#0;  " ++ nl ++ "c";
  ">" ++ tab ++ "foo <a>" ++ nl ++ ">" ++ tab ++ tab ++ "bar  " ++ nl ++ "> <b" ++ nl ++ ">" ++ tab ++ "c>  " ++ nl ++ "- x" ++ nl ++ tab ++ "y <i>" ++ nl ++ "  " ++ tab ++ "z" ++ nl;
  "a <x>" ++ nl ++ tab ++ "b" ++ nl ++ " " ++ tab ++ " c `d" ++ nl ++ tab ++ "e` f\" ++ nl ++ tab ++ "g" ].
Close Scope string_scope.
Example docs_checked : forallb chk_hyp docs = true /\ forallb chk_concl docs = true.
Proof. split; vm_compute; reflexivity. Qed.

(* ---------------------------------------------------------------- assumptions *)
Print Assumptions parseInlines_shapes.
Print Assumptions parseInlines_shapesC.
Print Assumptions parseInlines_validI.
Print Assumptions parseInlines_emphasis_shapes.
Print Assumptions parseInlines_strong_shapes.
Print Assumptions parseInlines_link_shapes.
Print Assumptions parseInlines_image_shapes.
Print Assumptions parseInlines_autolink_shapes.
Print Assumptions parseInlines_htmltag_shapes.
Print Assumptions parseInlines_charref_shapes.
Print Assumptions parseInlines_hardbreak_shapes.
Print Assumptions parseInlines_codespan_shapes.
