From Coq Require Import List ZArith Lia Bool.
Import ListNotations.
Require Import Base Tables Utf8 Tree Recog Driver Inl3a Inl3e Render Props BSDef BlockSpans SpanForest SpanBridge InlineSpans SpanHypDef SpanHyp CoverLeaves.
Open Scope Z_scope.

(* ================================================================================================
   C03, part (1): no byte is covered twice.
   ================================================================================================ *)

(* ---- one leaf block ---- *)
Theorem parseInlines_no_dup : forall src matcher b, entriesOK src b = true ->
  forall p, cover (flat_map leavesI (parseInlines src matcher b)) p <= 1.
Proof.
  intros src matcher b H p. destruct (parseInlines_spans src matcher b H) as [A B].
  apply (forest_cover_le1 src _ (bstart b) (bend b) A B).
Qed.
Print Assumptions parseInlines_no_dup.

Theorem parseInlines_leaves_chain : forall src matcher b, entriesOK src b = true -> bstart b <= bend b ->
  chainL (bstart b) (bend b) (flat_map leavesI (parseInlines src matcher b)).
Proof.
  intros src matcher b H Hb. destruct (parseInlines_spans src matcher b H) as [A B]. apply (forest_chain src); assumption.
Qed.

(* ---- a whole root block ----
   What the block-level part needs beyond BlockSpans.bspans (children inside the parent, in order) and the entry conditions
   of the leaf blocks with Unparsed entries: every block is closed with start <= end, a block with Unparsed entries has no
   block children, and the entries of the other leaf blocks (code, HTML, definitions) are ordered inside their block.
   These are stated as an executable condition on the pre-inline tree; they are not proved of the block layer here. *)
Fixpoint closedEntB (fuel : nat) (src : bytes) (b : block) : bool :=
  match fuel with
  | O => false
  | S f =>
    (0 <=? bstart b) && (bstart b <=? bend b) &&
    (if isLeafU b then len (bkids b) =? 0
     else match bkids b with
          | [] => ordered_in (bstart b) (bend b) (bik b) && forallb (spansI false src (bstart b) (bend b)) (bik b)
          | ks => forallb (closedEntB f src) ks
          end)
  end.
Definition closedEntRoots (roots : list rootB) : bool :=
  forallb (fun r => closedEntB (bheight (rb_blk r)) (rb_src r) (rb_blk r)) roots.

Lemma leavesB_eq k s e bk ik a n c l lb : leavesB (Blk k s e bk ik a n c l lb) =
  match bk, ik with [], [] => if k =? ListMarkerKind then [(s, e)] else [] | [], _ => flat_map leavesI ik | _, _ => flat_map leavesB bk end.
Proof. reflexivity. Qed.

(* the chain of the leaves of ordered closed children *)
Lemma kids_chain (g : block -> block) : forall ks s e lo,
  (forall c, In c ks -> chainL (bstart c) (bend c) (leavesB (g c)) /\ 0 <= bend c) ->
  forallb (inside s e) ks = true -> ordered ks = true -> 0 <= e -> s <= lo -> lo <= e ->
  (match ks with c :: _ => lo <= bstart c | [] => True end) ->
  chainL lo e (flat_map leavesB (map g ks)).
Proof.
  induction ks as [|c r IH]; intros s e lo Hc Hin Ho He Hs Hl H1; [cbn; exact Hl|].
  cbn [forallb] in Hin. apply andb_true_iff in Hin. destruct Hin as [Hi Hin].
  unfold inside in Hi. apply andb_true_iff in Hi. destruct Hi as [I1 I2]. apply Z.leb_le in I1.
  assert (I3 : bend c <= e) by (apply orb_true_iff in I2; destruct I2 as [X|X]; [apply Z.ltb_lt in X; lia|apply Z.leb_le in X; exact X]).
  destruct (Hc c (or_introl eq_refl)) as [Cc Bc]. pose proof (chainL_le _ _ _ Cc) as Vc.
  cbn [map flat_map]. apply chainL_app with (m := bend c); [eapply chainL_weaken; [exact Cc|exact H1|lia]|].
  apply (IH s e (bend c)); try assumption; try lia.
  - intros x Hx. apply Hc. right. exact Hx.
  - destruct r as [|c2 r']; [reflexivity|]. change (ordered (c :: c2 :: r')) with (((bend c <? 0) || (bend c <=? bstart c2)) && ordered (c2 :: r')) in Ho.
    apply andb_true_iff in Ho. tauto.
  - destruct r as [|c2 r']; [exact I|]. change (ordered (c :: c2 :: r')) with (((bend c <? 0) || (bend c <=? bstart c2)) && ordered (c2 :: r')) in Ho.
    apply andb_true_iff in Ho. destruct Ho as [Ho _]. apply orb_true_iff in Ho. destruct Ho as [X|X]; [apply Z.ltb_lt in X; lia|apply Z.leb_le in X; exact X].
Qed.

Lemma span_rw src m fuel b : bstart (rewriteB fuel src m b) = bstart b /\ bend (rewriteB fuel src m b) = bend b.
Proof. apply span_rewriteB. Qed.

Theorem rewriteB_leaves_chain src m : forall fuel b,
  closedEntB fuel src b = true -> bspans b = true -> entriesOKB fuel src b = true ->
  chainL (bstart b) (bend b) (leavesB (rewriteB fuel src m b)).
Proof.
  induction fuel as [|f IH]; intros b Hc Hb He; [discriminate|].
  cbn [closedEntB] in Hc. cbn [entriesOKB] in He. cbn [rewriteB]. unfold isLeafU in *.
  rewrite !andb_true_iff in Hc. destruct Hc as ((C1 & C2) & C3). apply Z.leb_le in C1, C2.
  destruct ((0 <? len (bik b)) && hasUnparsed b) eqn:EL.
  - (* a leaf with Unparsed entries *)
    rewrite entriesOKX_eq in He. apply Z.eqb_eq in C3.
    destruct b as [k s e bk ik a n c l lb]. cbn [bkids bik bstart bend set_bik] in *.
    destruct bk as [|x bk]; [|cbn in C3; unfold len in C3; cbn in C3; lia].
    rewrite leavesB_eq.
    pose proof (parseInlines_leaves_chain src m (Blk k s e [] ik a n c l lb) He C2) as H. cbn [bstart bend] in H.
    destruct (parseInlines src m (Blk k s e [] ik a n c l lb)) as [|y ys]; [destruct (k =? ListMarkerKind); cbn; lia|exact H].
  - destruct b as [k s e bk ik a n c l lb]. cbn [bkids bik bstart bend set_bkids] in *. rewrite leavesB_eq.
    destruct bk as [|x bk].
    + cbn [map]. apply andb_true_iff in C3. destruct C3 as [O1 O2].
      destruct ik as [|y ys]; [destruct (k =? ListMarkerKind); cbn; lia|]. apply (forest_chain src); assumption.
    + cbn [bspans] in Hb. rewrite !andb_true_iff in Hb. destruct Hb as (((B1 & B2) & B3) & B4).
      assert (Hk : forall c0, In c0 (x :: bk) -> chainL (bstart c0) (bend c0) (leavesB (rewriteB f src m c0)) /\ 0 <= bend c0).
      { intros c0 Hin. rewrite forallb_forall in C3, B4, He. specialize (C3 c0 Hin). split; [apply IH; [exact C3|apply B4; exact Hin|apply He; exact Hin]|].
        destruct f as [|f']; [discriminate|]. cbn [closedEntB] in C3. rewrite !andb_true_iff in C3. destruct C3 as ((X1 & X2) & _). apply Z.leb_le in X1, X2. lia. }
      assert (E : match map (rewriteB f src m) (x :: bk), ik with [], [] => if k =? ListMarkerKind then [(s, e)] else [] | [], _ => flat_map leavesI ik
                  | _, _ => flat_map leavesB (map (rewriteB f src m) (x :: bk)) end = flat_map leavesB (map (rewriteB f src m) (x :: bk))) by (cbn [map]; destruct ik; reflexivity).
      rewrite E. apply (kids_chain (rewriteB f src m) (x :: bk) s e s Hk B2 B3); try lia.
      cbn [forallb] in B2. apply andb_true_iff in B2. destruct B2 as [B2 _]. unfold inside in B2. apply andb_true_iff in B2. destruct B2 as [B2 _]. apply Z.leb_le in B2. exact B2.
Qed.

(* C03, first half, for the roots of a document, under the two executable conditions on the pre-inline trees *)
(* the statement of the task; proved below with the additional executable hypothesis closedEntRoots *)
Definition C03_no_dup_statement : Prop := forall input,
  entriesOKroots (fst (parseBlocks input)) = true ->
  Forall (fun r => forall p, cover (leavesB (rb_blk r)) p <= 1) (fst (parseFull input)).
Theorem C03_no_dup_partial : forall input,
  entriesOKroots (fst (parseBlocks input)) = true -> closedEntRoots (fst (parseBlocks input)) = true ->
  Forall (fun r => forall p, cover (leavesB (rb_blk r)) p <= 1) (fst (parseFull input)).
Proof.
  intros input H1 H2. unfold parseFull. pose proof (parseBlocks_block_spans input) as HB.
  destruct (parseBlocks input) as [roots code]. cbn [fst] in *.
  apply Forall_forall. intros r Hr. apply in_map_iff in Hr. destruct Hr as (r0 & <- & Hr0). cbn [rb_blk]. intros p.
  rewrite Forall_forall in HB. destruct (HB r0 Hr0) as [A _].
  unfold entriesOKroots in H1. unfold closedEntRoots in H2. rewrite forallb_forall in H1, H2.
  apply (chainL_cover_le1 _ (bstart (rb_blk r0)) (bend (rb_blk r0))).
  apply rewriteB_leaves_chain; [apply H2; exact Hr0|exact A|apply H1; exact Hr0].
Qed.
Print Assumptions C03_no_dup_partial.
