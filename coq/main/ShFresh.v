From Coq Require Import List ZArith Lia Bool.
Import ListNotations.
Require Import Base Tree Rdr Link Collect Html Recog LP Rules Starts Driver Props L2Kind L2CC GramTree GramLP GramLP2 BSDef BSRdr BSTree BSOcp BSOrph BSClose
  BSLine1 BSLine2 BSLine3 BSLine4 BSLine5 BShDef ShDef ShRdr ShClose ShEnv ShLine1 ShLine2.
Open Scope Z_scope.

(* p's tree is q's tree with the open block Y attached below q's container, and Y is p's container *)
Definition frs (q p : lp) (Y : block) : Prop :=
  root p = updAt (cdepth q) (appendB Y) (root q) /\ cdepth p = S (cdepth q) /\ envOf p = envOf q.

Lemma frs_openBlock p K : st_open p -> frs (obPre p K) (openBlock p K) (newBlock K (lineStart p + li p)).
Proof.
  intros Hs. rewrite <- obPos_eq with (K := K). split; [apply (root_openBlock p K Hs)|]. split; [apply (cdepth_openBlock p K Hs)|].
  rewrite env_openBlock, env_obPre. reflexivity.
Qed.
Lemma frs_cstep q p p' Y : frs q p Y -> cstep p p' -> frs q p' Y.
Proof.
  intros (A & B & C) H. destruct (cd_of_cstep _ _ H) as [E1 E2]. split; [rewrite E1; exact A|]. split; [rewrite E2; exact B|].
  rewrite (env_of_cstep _ _ H). exact C.
Qed.
Lemma frs_updCont q p Y f : frs q p Y -> frs q (updCont p f) (f Y).
Proof.
  intros (A & B & C). split; [|split; [exact B|exact C]]. rewrite root_updCont, B, A. apply updAt_S_append.
Qed.
Lemma set_bik_self Y : set_bik Y (bik Y) = Y. Proof. destruct Y; reflexivity. Qed.
Lemma set_bik_twice Y a b : set_bik (set_bik Y a) b = set_bik Y b. Proof. destruct Y; reflexivity. Qed.
Lemma frs_collectInline q p Y kind n : frs q p Y -> exists ik, frs q (collectInline p kind n) (set_bik Y ik).
Proof.
  intros H. unfold collectInline. destruct (_ =? stDescendTerminated).
  { exists (bik Y). rewrite set_bik_self. eapply frs_cstep; [exact H|apply cstep_panic]. }
  cbv zeta. set (p0 := if state p =? stOpening then withState p stOpenMatched else p).
  assert (H0 : frs q p0 Y) by (eapply frs_cstep; [exact H|apply cstep_opened]).
  set (p1 := if 0 <? indent p0 then _ else p0).
  assert (H1 : exists ik, frs q p1 (set_bik Y ik)).
  { unfold p1. destruct (0 <? indent p0); [|exists (bik Y); rewrite set_bik_self; exact H0].
    eexists. match goal with |- frs q (updCont ?r ?f) _ => apply (frs_updCont q r Y f) end.
    eapply frs_cstep; [exact H0|apply cstep_advance]. }
  destruct H1 as (ik1 & H1).
  eexists. match goal with |- frs q (updCont ?r ?f) _ => pose proof (frs_updCont q r (set_bik Y ik1) f) as Hf end.
  cbv beta in Hf. rewrite set_bik_twice in Hf. apply Hf. eapply frs_cstep; [exact H1|apply cstep_advance].
Qed.

Definition simpleK (K : Z) : Prop := K <> ListKind /\ K <> IndentedCodeBlockKind /\ K <> ParagraphKind /\ K <> SetextHeadingKind.
Lemma closeBlock_leaf f src Y e : bend Y < 0 -> bkids Y = [] -> simpleK (bkind Y) -> closeBlock (S f) src Y e = [set_bend Y e].
Proof.
  intros Ho Hk (N1 & N2 & N3 & N4). cbn [closeBlock]. unfold isOpen. destruct (Z.ltb_spec (bend Y) 0); [|lia]. cbn [negb]. cbv zeta.
  rewrite bkind_set_bend.
  replace (bkind Y =? ListKind) with false by (symmetry; apply Z.eqb_neq; exact N1).
  replace (bkind Y =? IndentedCodeBlockKind) with false by (symmetry; apply Z.eqb_neq; exact N2).
  replace (bkind Y =? ParagraphKind) with false by (symmetry; apply Z.eqb_neq; exact N3).
  replace (bkind Y =? SetextHeadingKind) with false by (symmetry; apply Z.eqb_neq; exact N4). cbn [orb].
  unfold lastBlock. rewrite bk_set_bend, Hk. reflexivity.
Qed.
Lemma closeF_append p e Y x : bend Y < 0 -> bkids Y = [] -> simpleK (bkind Y) -> closeF p e (appendB Y x) = appendB (set_bend Y e) x.
Proof.
  intros Ho Hk Hs. unfold closeF. rewrite lastBlock_appendB. destruct (bheight_S (root p)) as (h & Eh). rewrite Eh.
  rewrite (closeBlock_leaf h (source p) Y e Ho Hk Hs). unfold set_lastBlocks, appendB. rewrite bkids_set_bkids, removelast_last.
  destruct x; reflexivity.
Qed.
Lemma frs_endBlock q p Y : frs q p Y -> nd p -> bend Y < 0 -> bkids Y = [] -> simpleK (bkind Y) ->
  root (endBlock p) = updAt (cdepth q) (appendB (set_bend Y (lineStart p + li p))) (root q) /\
  cdepth (endBlock p) = cdepth q /\ envOf (endBlock p) = envOf q.
Proof.
  intros (A & B & C) Hn Ho Hk Hs. unfold endBlock.
  replace ((state p =? stDescending) || (state p =? stDescendTerminated)) with false by (destruct Hn as [-> |[-> | ->]]; reflexivity).
  cbv zeta. set (p0 := if state p =? stOpening then withState p stOpenMatched else p).
  assert (E0 : root p0 = root p /\ cdepth p0 = cdepth p /\ lineStart p0 = lineStart p /\ li p0 = li p /\ envOf p0 = envOf p)
    by (unfold p0; destruct (_ =? _); repeat split).
  destruct E0 as (E1 & E2 & E3 & E4 & E5). rewrite E2, B, E3, E4.
  split; [|split; [reflexivity|rewrite env_withCont, env_closeLastChildAt, E5; exact C]].
  rewrite closeLastChildAt_eq. cbn [root withCont withRoot setLP]. rewrite E1, A, updAt_fuse. apply updAt_ext.
  intros x. apply closeF_append; assumption.
Qed.

(* the cursor after the usual steps *)
Lemma li_consumeLine p : 0 <= li p <= len (line p) -> li (consumeLine p) = len (line p).
Proof.
  intros H. unfold consumeLine. cbv zeta.
  assert (E : li (advance p (len (line p) - li p)) = len (line p)).
  { unfold advance. destruct (Z.ltb_spec (len (line p) - li p) 0); [lia|]. destruct (Z.eqb_spec (len (line p) - li p) 0) as [E0|N0]; [lia|]. cbv zeta.
    set (p0 := if state p =? stOpening then withState p stOpenMatched else p).
    assert (E : li p0 = li p /\ line p0 = line p) by (unfold p0; destruct (_ =? _); split; reflexivity). destruct E as [E1 E2]. rewrite E1, E2.
    destruct (Z.ltb_spec (len (line p)) (li p + (len (line p) - li p))); [lia|]. cbn [li withCursor setLP]. lia. }
  destruct (_ || _); [exact E|]. destruct (_ =? stDescending); exact E.
Qed.
Lemma li_advance p n : 0 < n -> li p + n <= len (line p) -> li (advance p n) = li p + n.
Proof.
  intros Hn Hl. unfold advance. destruct (Z.ltb_spec n 0); [lia|]. destruct (Z.eqb_spec n 0); [lia|]. cbv zeta.
  set (p0 := if state p =? stOpening then withState p stOpenMatched else p).
  assert (E : li p0 = li p /\ line p0 = line p) by (unfold p0; destruct (_ =? _); split; reflexivity). destruct E as [E1 E2]. rewrite E1, E2.
  destruct (Z.ltb_spec (len (line p)) (li p + n)); [lia|]. reflexivity.
Qed.

(* the rest of the line as a part of the source *)
Lemma rest_src p : EV p -> 0 <= li p -> rest p = from_ (source p) (lineStart p + li p).
Proof. intros (E & A) H. unfold rest. rewrite E. apply Rec18.from_from; lia. Qed.
Lemma len_line_src p : EV p -> lineStart p + len (line p) = len (source p).
Proof. intros (E & A). rewrite E. rewrite Rec17.len_from by lia. lia. Qed.
