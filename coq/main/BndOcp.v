From Coq Require Import List ZArith Lia Bool.
Import ListNotations.
Require Import Base Tables Utf8 Tree Rdr Link Collect Html Recog LP Props.
Require Import ShapesBase ShapesR ShapesA IS2 EntBase EntOcpDefs EntRdr1 EntRdr2 EntRdr3 EntOcp.
Require Import BndDefs BndUtf8 BndBDefs BndB1 BndRdrG BndScanG.
Open Scope Z_scope.

(* ================================================================== *)
(* BndOcp: the link-reference-definition stripping loop of             *)
(* onCloseParagraph (ocp_loop without orphan): every block it produces *)
(* has good span ends.  The reader invariants of T28 (T: the reader    *)
(* walks over `lines` entries) are carried along with QR.              *)
(* ================================================================== *)

Section OLoop.
  Variables (src : bytes) (E : Z) (orig0 : block).
  Let ik0 := bik orig0.
  Hypothesis HL : lines src E ik0.
  Hypothesis HE : E <= len src.
  Variable g : Z -> bool.
  Hypothesis Gp : forall p, at_ src (p - 1) <> 0 -> at_ src (p - 1) < 128 -> g p = true.
  Hypothesis Gc : forall p, at_ src p <> 0 -> at_ src p < 128 -> g p = true.
  Hypothesis Ge : g (len src) = true.
  Hypothesis Gn : forall p, p < 0 -> g p = true.
  Hypothesis HG0 : forall u, In u ik0 -> gI g u = true.
  Let rfuel := (2 * length src + 10)%nat.

  Notation T := (T src ik0).
  Notation QR := (QR src g).
  Notation gsp := (gsp g).
  Notation GS := (GS g).
  Notation G := (EntOcp.G orig0).

  (* ---- readers ---- *)
  Lemma suf_GS l : suf ik0 l -> GS l.
  Proof. intros Hs x Hx. apply HG0. eapply suf_In; eassumption. Qed.
  Lemma QR_newReader l pos : suf ik0 l -> g pos = true -> QR (newReader src l pos).
  Proof.
    intros Hs Hp. split; [split; [reflexivity|apply (lines_spOK src E); [apply (suf_lines src E ik0 HL), Hs|exact HE]]|].
    split; [apply suf_GS, Hs|right; exact Hp].
  Qed.

  Lemma QR_skipLinkSpace_loop' : forall fuel r, QR r -> QR (snd (skipLinkSpace_loop fuel r)).
  Proof.
    induction fuel as [|f IH]; intros r HQ; [exact HQ|]. cbn [skipLinkSpace_loop].
    pose proof (QR_current src g r HQ) as HQ1. destruct (current r) as [c r1]. cbn [snd] in *.
    destruct (isSpaceTabOrLineEnding c); [|exact HQ1].
    pose proof (QR_next src g Gp r1 HQ1) as HQ2. destruct (next r1) as [ok r2]. cbn [snd] in *. destruct ok; [apply IH, HQ2|exact HQ2].
  Qed.
  Lemma QR_skipLinkSpace' fuel r : QR r -> QR (snd (skipLinkSpace fuel r)).
  Proof.
    intros HQ. unfold skipLinkSpace. pose proof (QR_current src g r HQ) as HQ1. destruct (current r) as [c r1]. cbn [snd] in *.
    destruct (c =? 0); [exact HQ1|apply QR_skipLinkSpace_loop', HQ1].
  Qed.
  Lemma QR_skipSpacesAndTabs : forall fuel r, QR r -> QR (snd (skipSpacesAndTabs fuel r)).
  Proof.
    induction fuel as [|f IH]; intros r HQ; [exact HQ|]. cbn [skipSpacesAndTabs].
    pose proof (QR_current src g r HQ) as HQ1. destruct (current r) as [c r1]. cbn [snd] in *.
    destruct (isSpTab c); [|exact HQ1].
    pose proof (QR_next src g Gp r1 HQ1) as HQ2. destruct (next r1) as [ok r2]. cbn [snd] in *. destruct ok; [apply IH, HQ2|exact HQ2].
  Qed.

  (* a reader that stands at the start of whatever entry contains its position stands at a good position *)
  Lemma pos_AtStart r : QR r -> T r -> AtStart ik0 r -> g (r_pos r) = true.
  Proof.
    intros (A & B & [(n & Hn)|Hb]) HT Ha; [|exact Hb].
    destruct (T_node src E ik0 HL HE r n HT Hn) as (Hin & Hh & _). rewrite <- (Ha n Hin Hh). apply (gI_parts g n (HG0 n Hin)).
  Qed.

  (* stepping over a line ending byte *)
  Lemma step_g r c b r3 : QR r -> T r -> cur r = c -> (c = 10 \/ c = 13) -> next (snd (current r)) = (b, r3) ->
    g (r_prev r3 + 1) = true.
  Proof.
    intros HQ HT Hc Hcc En. rewrite next_current in En.
    destruct (cur_real r c Hc ltac:(lia) ltac:(lia) ltac:(lia)) as (Ha & Hp). rewrite (proj1 (QR_RI src g r HQ)) in Ha.
    pose proof HT as (_ & _ & _ & [Hi|Hx]).
    - rewrite (next_prev_in r b r3 Hi En). apply Gp; replace (r_pos r + 1 - 1) with (r_pos r) by lia; rewrite Ha; lia.
    - pose proof (X_notIn src ik0 r Hx) as Hni. destruct b; [exfalso; apply Hni; eapply next_true_InNode; exact En|].
      destruct (next_fail src E ik0 HL HE r r3 HT En) as (_ & (_ & _ & _ & Hpr & _)). rewrite Hpr.
      pose proof (QR_next_false src g Gp r r3 HQ En) as (_ & _ & [(x & Hx3)|Hb]); [|exact Hb].
      destruct (next_false r r3 En) as (E1 & _). rewrite (curNode_nil r3 E1) in Hx3. discriminate.
  Qed.

  Lemma readEOL_g r e r' : QR r -> T r -> readEOL rfuel r = (e, r') -> QR r' /\ g e = true.
  Proof.
    intros HQ HT H. unfold readEOL in H.
    pose proof (QR_skipSpacesAndTabs rfuel r HQ) as HQ1. pose proof (Q_skipSpacesAndTabs src E ik0 HL HE rfuel r HT) as HT1.
    destruct (skipSpacesAndTabs rfuel r) as [ok r1] eqn:Es. cbn [snd] in HQ1, HT1.
    destruct ok; cbn [negb] in H.
    2:{ inversion H; subst e r'. split; [exact HQ1|].
        destruct (sst_false src E ik0 HL HE rfuel r r1 HT) as (_ & Hx); [intros Hi; unfold rfuel; rewrite (rfuel_len src); apply (T_mu src E ik0 HL HE r HT Hi)|exact Es|].
        destruct HQ1 as (_ & _ & [Hi|Hb]); [exfalso; exact (X_notIn src ik0 r1 Hx Hi)|exact Hb]. }
    pose proof (QR_current src g r1 HQ1) as HQ2. pose proof (T_current src ik0 r1 HT1) as HT2.
    assert (Ec : cur r1 = fst (current r1)) by reflexivity.
    assert (Er2 : snd (current r1) = snd (current r1)) by reflexivity.
    destruct (current r1) as [c r2] eqn:Ecr. cbn [snd fst] in *.
    destruct (Z.eqb_spec c 13) as [Q13|Q13].
    - pose proof (QR_next src g Gp r2 HQ2) as HQ3. pose proof (T_next src E ik0 HL HE r2 HT2) as HT3.
      assert (G3 : forall b r3, next r2 = (b, r3) -> g (r_prev r3 + 1) = true).
      { intros b r3 En. apply (step_g r1 c b r3 HQ1 HT1 Ec ltac:(lia)). rewrite Ecr. exact En. }
      destruct (next r2) as [ok2 r3] eqn:En. cbn [snd] in HQ3, HT3. specialize (G3 ok2 r3 eq_refl).
      destruct ok2; cbn [negb] in H; [|inversion H; subst e r'; split; assumption].
      pose proof (QR_current src g r3 HQ3) as HQ4. pose proof (T_current src ik0 r3 HT3) as HT4.
      assert (Ec3 : cur r3 = fst (current r3)) by reflexivity. pose proof (current_fields r3) as (_ & _ & _ & Fp). cbv zeta in Fp.
      destruct (current r3) as [c2 r4] eqn:Ecr3. cbn [snd fst] in *.
      destruct (Z.eqb_spec c2 10) as [Q10|Q10].
      + pose proof (QR_next src g Gp r4 HQ4) as HQ5.
        assert (G5 : forall b r5, next r4 = (b, r5) -> g (r_prev r5 + 1) = true).
        { intros b r5 En5. apply (step_g r3 c2 b r5 HQ3 HT3 Ec3 ltac:(lia)). rewrite Ecr3. exact En5. }
        destruct (next r4) as [ok5 r5] eqn:En5. cbn [snd] in HQ5. inversion H; subst e r'. split; [exact HQ5|apply (G5 ok5 r5 eq_refl)].
      + inversion H; subst e r'. split; [exact HQ4|rewrite Fp; exact G3].
    - destruct (Z.eqb_spec c 10) as [Q10|Q10].
      + pose proof (QR_next src g Gp r2 HQ2) as HQ3.
        assert (G3 : forall b r3, next r2 = (b, r3) -> g (r_prev r3 + 1) = true).
        { intros b r3 En. apply (step_g r1 c b r3 HQ1 HT1 Ec ltac:(lia)). rewrite Ecr. exact En. }
        destruct (next r2) as [ok2 r3] eqn:En. cbn [snd] in HQ3. inversion H; subst e r'. split; [exact HQ3|apply (G3 ok2 r3 eq_refl)].
      + inversion H; subst e r'. split; [exact HQ2|apply Gn; lia].
  Qed.

  (* ---- the inline nodes of a definition ---- *)
  Lemma gsp_forallb l : Forall gsp l -> forallb (gI g) l = true.
  Proof. intros H. apply forallb_forall. intros x Hx. rewrite Forall_forall in H. apply H, Hx. Qed.
  Lemma part_good k s e ref l ts te tk esc : suf ik0 l -> g s = true -> g e = true -> g ts = true -> g te = true ->
    gI g (Inl k s e 0 ref (collectTextNodes rfuel (newReader src l ts) te tk esc)) = true.
  Proof.
    intros Hs Gs Ge' Gts Gte. cbn [gI]. rewrite Gs, Ge'. cbn [andb]. apply gsp_forallb.
    apply (collectTextNodes_good src g Gp Gc); [apply QR_newReader; assumption|exact Gts|exact Gte].
  Qed.

  Lemma gL_snoc l y : gL g l = true -> gB g y = true -> gL g (l ++ [y]) = true.
  Proof. intros A B. unfold gL in *. rewrite forallb_app, A. cbn. rewrite B. reflexivity. Qed.

  Lemma refDef_good s e kids : g s = true -> g e = true -> forallb (gI g) kids = true -> gB g (refDefBlock s e kids) = true.
  Proof. intros A B C. unfold refDefBlock. cbn [gB forallb]. rewrite A, B, C. reflexivity. Qed.

  Lemma cut_good o pos : gB g o = true -> g pos = true ->
    gB g (set_bik (set_bstart o pos) (from_ (bik o) (nodeIndexForPosition (bik o) pos))) = true.
  Proof.
    intros Ho Hp. apply gB_sub_ik; [apply gB_set_bstart; assumption|]. intros x Hx. rewrite L2Kind.bik_set_bstart. eapply L2Kind.from_sub. exact Hx.
  Qed.

  Lemma oloop : forall f orig r result, G orig -> gB g orig = true -> T r -> QR r -> gL g result = true ->
    gL g (ocp_loop f rfuel src orig None r result) = true.
  Proof.
    induction f as [|f IH]; intros orig r result Hg Ho HT HQ HD.
    - cbn [ocp_loop]. apply gL_snoc; assumption.
    - cbn [ocp_loop]. cbv zeta.
      pose proof (Q_parseLinkLabel src E ik0 HL HE rfuel r HT) as HT1.
      pose proof (parseLinkLabel_good src g Gp Gc Gn rfuel r HQ) as HR1.
      destruct (parseLinkLabel rfuel r) as [[lspan linner] r1] eqn:E1. cbn [snd] in HT1. destruct HR1 as [HQ1 HR1]. cbn [fst snd] in HQ1, HR1.
      destruct (spanValid lspan) eqn:Ev1; cbn [negb]; [|apply gL_snoc; assumption].
      destruct (HR1 eq_refl) as (L1 & L2 & L3 & L4).
      pose proof (T_current src ik0 r1 HT1) as HT2. pose proof (QR_current src g r1 HQ1) as HQ2. pose proof (current_pos r1) as Ep2.
      assert (Ec1 : cur r1 = fst (current r1)) by reflexivity.
      destruct (current r1) as [c r2] eqn:E2. cbn [snd fst] in *.
      destruct (Z.eqb_spec c 58) as [E58|N58]; cbn [negb]; [|apply gL_snoc; assumption].
      pose proof (T_next src E ik0 HL HE r2 HT2) as HT3. pose proof (QR_next src g Gp r2 HQ2) as HQ3.
      assert (Hb3 : g (r_pos (snd (next r2))) = true).
      { destruct (next r2) as [[|] r3] eqn:E3; cbn [snd].
        - apply (next_good src g Gp Gc r2 r3 HQ2 E3). rewrite Ep2. apply (cur_ascii src g r1 c HQ1 Ec1); lia.
        - apply (failed_pos src g Gp r2 r3 HQ2 E3). }
      destruct (next r2) as [ok3 r3] eqn:E3. cbn [snd] in HT3, HQ3, Hb3.
      assert (HM : forall rr, T rr -> MB src (2 * len src + 10) rr) by (intros rr Hrr Hi; apply (T_mu src E ik0 HL HE rr Hrr Hi)).
      pose proof (Q_skipLinkSpace src E ik0 HL HE rfuel r3 HT3) as HT4.
      destruct (QR_skipLinkSpace src g Gp Gc (2 * len src + 10) rfuel r3 HQ3 (HM r3 HT3) Hb3) as (HQ4 & HM4 & Hb4).
      destruct (skipLinkSpace rfuel r3) as [ok r4] eqn:E4. cbn [snd] in HT4, HQ4, HM4, Hb4.
      destruct (negb ok); [apply gL_snoc; assumption|].
      pose proof (Q_parseLinkDestination src E ik0 HL HE rfuel r4 HT4) as HT5.
      pose proof (parseLinkDestination_good src g Gp Gc rfuel r4 (2 * len src + 10) HQ4 HM4 ltac:(unfold rfuel; rewrite (rfuel_len src); lia) Hb4) as HR5.
      destruct (parseLinkDestination rfuel r4) as [[dspan dtext] r5] eqn:E5. cbn [snd] in HT5. destruct HR5 as [HQ5 HR5]. cbn [fst snd] in HQ5, HR5.
      destruct (spanValid dspan) eqn:Ev5; cbn [negb]; [|apply gL_snoc; assumption].
      destruct (HR5 eq_refl) as (D1 & D2 & D3 & D4).
      destruct (readEOL rfuel r5) as [destEOL r6] eqn:E6.
      pose proof (readEOL_post src E ik0 HL HE r5 destEOL r6 HT5 E6) as (HT6 & Hb6 & Hl6 & Ha6).
      destruct (readEOL_g r5 destEOL r6 HQ5 HT5 E6) as [HQ6 Gd].
      pose proof (T_current src ik0 r6 HT6) as HT7. pose proof (QR_current src g r6 HQ6) as HQ7.
      destruct (current r6) as [c6 r7] eqn:E7. cbn [snd] in HT7, HQ7.
      destruct ((destEOL <? 0) && (r_pos r6 =? r_pos r5) && negb (c6 =? 0)); [apply gL_snoc; assumption|].
      pose proof (Q_skipLinkSpace src E ik0 HL HE rfuel r7 HT7) as HT8. pose proof (QR_skipLinkSpace' rfuel r7 HQ7) as HQ8.
      destruct (skipLinkSpace rfuel r7) as [ok2 r8] eqn:E8. cbn [snd] in HT8, HQ8.
      pose proof (G_suf orig0 orig Hg) as Hsuf.
      match goal with |- context [refDefBlock (fst lspan) destEOL ?k] => set (kids := k) end.
      assert (Hk : forallb (gI g) kids = true).
      { unfold kids. cbn [forallb]. rewrite !part_good by assumption. reflexivity. }
      assert (HD1 : gL g (result ++ [refDefBlock (fst lspan) destEOL kids]) = true).
      { apply gL_snoc; [exact HD|apply refDef_good; assumption]. }
      destruct (negb ok2); [exact HD1|].
      pose proof (Q_parseLinkTitle src E ik0 HL HE rfuel r8 HT8) as HT9.
      pose proof (parseLinkTitle_good src g Gp Gc rfuel r8 HQ8) as HR9.
      destruct (parseLinkTitle rfuel r8) as [[tspan ttext] r9] eqn:E9. cbn [snd] in HT9. destruct HR9 as [HQ9 HR9]. cbn [fst snd] in HQ9, HR9.
      assert (Hcut : 0 <= destEOL -> 0 <= nodeIndexForPosition (bik orig) (r_pos r6) ->
                G (set_bik (set_bstart orig (r_pos r6)) (from_ (bik orig) (nodeIndexForPosition (bik orig) (r_pos r6))))).
      { intros Hd Hfc. apply (G_cut src E orig0 HL); [exact Hg|apply Ha6, Hd|exact Hfc]. }
      assert (Hcutg : 0 <= destEOL ->
                gB g (set_bik (set_bstart orig (r_pos r6)) (from_ (bik orig) (nodeIndexForPosition (bik orig) (r_pos r6)))) = true).
      { intros Hd. apply cut_good; [exact Ho|apply pos_AtStart; [exact HQ6|exact HT6|apply Ha6, Hd]]. }
      destruct (spanValid tspan) eqn:Ev9; cbn [negb].
      2:{ destruct (Z.ltb_spec destEOL 0) as [Ld|Ld]; [apply gL_snoc; assumption|].
          destruct (Z.ltb_spec (nodeIndexForPosition (bik orig) (r_pos r6)) 0) as [Lf|Lf]; [exact HD1|].
          apply IH; [apply Hcut; assumption|apply Hcutg, Ld|exact HT6|exact HQ6|exact HD1]. }
      destruct (HR9 eq_refl) as (T1 & T2 & T3 & T4).
      destruct (readEOL rfuel r9) as [titleEOL r10] eqn:E10.
      pose proof (readEOL_post src E ik0 HL HE r9 titleEOL r10 HT9 E10) as (HT10 & Hb10 & Hl10 & Ha10).
      destruct (readEOL_g r9 titleEOL r10 HQ9 HT9 E10) as [HQ10 Gt].
      destruct (Z.ltb_spec titleEOL 0) as [Lt|Lt].
      + destruct (Z.ltb_spec destEOL 0) as [Ld|Ld]; [apply gL_snoc; assumption|].
        destruct (Z.ltb_spec (nodeIndexForPosition (bik orig) (r_pos r6)) 0) as [Lf|Lf]; [exact HD1|].
        rewrite app_assoc. apply gL_snoc; [exact HD1|apply Hcutg, Ld].
      + match goal with |- context [refDefBlock (fst lspan) titleEOL ?k] => set (kids2 := k) end.
        assert (Hk2 : forallb (gI g) kids2 = true).
        { unfold kids2. cbn [forallb]. rewrite !part_good by assumption. reflexivity. }
        assert (HD2 : gL g (result ++ [refDefBlock (fst lspan) titleEOL kids2]) = true).
        { apply gL_snoc; [exact HD|apply refDef_good; assumption]. }
        destruct (Z.ltb_spec (nodeIndexForPosition (bik orig) (r_pos r10)) 0) as [Lf|Lf]; [exact HD2|].
        apply IH; [apply (G_cut src E orig0 HL); [exact Hg|apply Ha10, Lt|exact Lf]| |exact HT10|exact HQ10|exact HD2].
        apply cut_good; [exact Ho|apply pos_AtStart; [exact HQ10|exact HT10|apply Ha10, Lt]].
  Qed.
End OLoop.

(* ---- OcpG for every buffer without a continuation byte after an ASCII byte ---- *)
Theorem ocpG_all B : adjF 0 B -> OcpG B.
Proof.
  intros Ha H E orig HH GH HL HE _ Ho. destruct (adjF_asciiOK B Ha) as [HV HV0].
  set (src := upto B H). assert (Hls : len src = H) by (unfold src; rewrite len_upto; lia).
  assert (Gp : forall p, at_ src (p - 1) <> 0 -> at_ src (p - 1) < 128 -> gdb B p = true).
  { intros p H0 H1. pose proof (at_nonzero_lt _ _ H0) as Hr. rewrite Hls in Hr. unfold src in H0, H1. rewrite at_upto in H0, H1 by lia.
    apply gdb_prev; assumption. }
  assert (Gc : forall p, at_ src p <> 0 -> at_ src p < 128 -> gdb B p = true).
  { intros p H0 H1. pose proof (at_nonzero_lt _ _ H0) as Hr. rewrite Hls in Hr. unfold src in H0, H1. rewrite at_upto in H0, H1 by lia.
    apply gdb_cur; assumption. }
  assert (Gn : forall p, p < 0 -> gdb B p = true) by (intros p Hp; apply gdb_neg', Hp).
  assert (HG0 : forall u, In u (bik orig) -> gI (gdb B) u = true).
  { intros u Hu. destruct (gB_parts _ _ Ho) as (_ & _ & _ & D). rewrite forallb_forall in D. apply D, Hu. }
  unfold ocpRun. fold src. destruct (bik orig) as [|first rest] eqn:Hik; [unfold gL; cbn [forallb]; rewrite Ho; reflexivity|].
  rewrite <- Hik in *.
  assert (HE' : E <= len src) by lia.
  apply (oloop src E orig HL HE' (gdb B) Gp Gc Gn HG0).
  - right. reflexivity.
  - exact Ho.
  - eapply T_init; eassumption.
  - apply (QR_newReader src E orig HL HE' (gdb B) HG0); [exists O; reflexivity|].
    apply (gI_parts _ first). apply HG0. rewrite Hik. left. reflexivity.
  - reflexivity.
Qed.
Print Assumptions ocpG_all.
