From Coq Require Import List ZArith Lia Bool.
Import ListNotations.
Require Import Base Tree Rdr Link Collect LP Rules L2Kind.
Open Scope Z_scope.

(* When onCloseParagraph on a paragraph leaves paragraph content (the guard of the setext start, repair D13),
   the same run on the setext heading made from it never uses the orphan block. *)
Definition lastIsPara (l : list block) : bool := match rev l with x :: _ => bkind x =? ParagraphKind | [] => false end.
Lemma lastIsPara_snoc l x : lastIsPara (l ++ [x]) = (bkind x =? ParagraphKind).
Proof. unfold lastIsPara. rewrite rev_app_distr. reflexivity. Qed.

Lemma cut_bik o pos ik : bik (set_bik (set_bstart o pos) ik) = ik. Proof. destruct o; reflexivity. Qed.

Lemma ocp_orphan_irrel : forall fuel rfuel src o1 o2 orphan r res1 res2,
  bik o1 = bik o2 ->
  lastIsPara (ocp_loop fuel rfuel src o1 None r res1) = true ->
  ocp_loop fuel rfuel src o2 orphan r res2 = ocp_loop fuel rfuel src o2 None r res2.
Proof.
  induction fuel as [|f IH]; intros rfuel src o1 o2 orphan r res1 res2 Hik H; [reflexivity|].
  revert H. cbn [ocp_loop]. cbv zeta. rewrite <- Hik.
  destruct (parseLinkLabel rfuel r) as [[lspan linner] r1].
  destruct (negb (spanValid lspan)); [reflexivity|].
  destruct (current r1) as [c r2]. destruct (negb (c =? 58)); [reflexivity|].
  destruct (next r2) as [? r3]. destruct (skipLinkSpace rfuel r3) as [ok r4]. destruct (negb ok); [reflexivity|].
  destruct (parseLinkDestination rfuel r4) as [[dspan dtext] r5]. destruct (negb (spanValid dspan)); [reflexivity|].
  destruct (readEOL rfuel r5) as [destEOL r6]. destruct (current r6) as [c6 r7].
  destruct (_ && _ && _); [reflexivity|].
  set (labelInline := Inl LinkLabelKind _ _ 0 _ _). set (destInline := Inl LinkDestinationKind _ _ 0 [] _).
  destruct (skipLinkSpace rfuel r7) as [ok2 r8].
  destruct (negb ok2); [rewrite lastIsPara_snoc; discriminate|].
  destruct (parseLinkTitle rfuel r8) as [[tspan ttext] r9].
  destruct (negb (spanValid tspan)).
  { destruct (destEOL <? 0); [reflexivity|].
    destruct (nodeIndexForPosition (bik o1) (r_pos r6) <? 0); [rewrite lastIsPara_snoc; discriminate|].
    intros H. eapply IH; [|exact H]. rewrite !cut_bik. reflexivity. }
  destruct (readEOL rfuel r9) as [titleEOL r10].
  destruct (titleEOL <? 0).
  { destruct (destEOL <? 0); [reflexivity|].
    destruct (nodeIndexForPosition (bik o1) (r_pos r6) <? 0); [rewrite lastIsPara_snoc; discriminate|reflexivity]. }
  set (titleInline := Inl LinkTitleKind _ _ 0 [] _).
  destruct (nodeIndexForPosition (bik o1) (r_pos r10) <? 0); [rewrite lastIsPara_snoc; discriminate|].
  intros H. eapply IH; [|exact H]. rewrite !cut_bik. reflexivity.
Qed.
