From Coq Require Import List ZArith Lia Bool.
Import ListNotations.
Require Import Base Tables Utf8 Tree Rdr Link Collect Html Recog Driver Inl3a Inl3b Inl3c Inl3d Inl3e Props.
Require Import ShapesBase ShapesR ShapesCS ShapesComp ShapesComp2 ShapesComp3.
Open Scope Z_scope.

(* ================================================================================================
   T28: the entry lists the block layer hands to the inline parser.

   The statement as asked: every block (at any depth) of every root block returned by parseBlocks on which
   Inl3e.rewriteB runs the inline parser (hasUnparsed b = true) satisfies ShapesComp3.bikOK.
   ================================================================================================ *)
Fixpoint entriesOK (src : bytes) (b : block) : bool :=
  match b with Blk K s e bk ik a n c l lb =>
    (if hasUnparsed (Blk K s e bk ik a n c l lb) then bikOK src (Blk K s e bk ik a n c l lb) else true) &&
    forallb (entriesOK src) bk
  end.
Lemma entriesOK_eq src b :
  entriesOK src b = (if hasUnparsed b then bikOK src b else true) && forallb (entriesOK src) (bkids b).
Proof. destruct b; reflexivity. Qed.

Definition parseBlocks_entries_ok_statement : Prop :=
  forall input, Forall (fun r => entriesOK (rb_src r) (rb_blk r) = true) (fst (parseBlocks input)).

(* The statement is FALSE.  The clause of spOK that fails is the non-emptiness of spans (istart i <? iend i):
   an ATX heading without content ("#\n", "# #\n", "## \t\n", "#" at the end of input ...) gets the single entry
   Unparsed [s, s) with s = the position after the opening sequence and its blanks (Starts.startATX collects
   ce - cs = 0 bytes).  All the other clauses hold on such a list. *)
Theorem parseBlocks_entries_ok_statement_false : ~ parseBlocks_entries_ok_statement.
Proof.
  intros H. specialize (H [35; 10]). vm_compute in H. inversion H as [|? ? H1 _]. discriminate.
Qed.

(* ---- the exception, made exact: the entry list of an ATX heading without content ---- *)
Definition emptyOne (ik : list inline) : bool :=
  match ik with
  | [u] => (ikind u =? UnparsedKind) && (istart u =? iend u) && match ikids u with [] => true | _ => false end
  | _ => false
  end.
Definition emptyATX (b : block) : bool := (bkind b =? ATXHeadingKind) && emptyOne (bik b).

(* the strongest true version of the per-block condition *)
Definition bikOKw (src : bytes) (b : block) : bool := bikOK src b || emptyATX b.

Fixpoint entriesOKw (src : bytes) (b : block) : bool :=
  match b with Blk K s e bk ik a n c l lb =>
    (if hasUnparsed (Blk K s e bk ik a n c l lb) then bikOKw src (Blk K s e bk ik a n c l lb) else true) &&
    forallb (entriesOKw src) bk
  end.
Lemma entriesOKw_eq src b :
  entriesOKw src b = (if hasUnparsed b then bikOKw src b else true) && forallb (entriesOKw src) (bkids b).
Proof. destruct b; reflexivity. Qed.

(* ---- the inline parser on the exceptional list: nothing is produced ---- *)
Lemma pe_loop_nostack : forall fuel st ob cp, stk st = [] -> 0 <= cp -> pe_loop fuel st ob cp = st.
Proof.
  intros fuel st ob cp Hs Hcp. destruct fuel as [|f]; [reflexivity|]. cbn [pe_loop]. rewrite Hs. cbn [length pe_findCloser].
  change (len (@nil delim)) with 0. replace (0 <=? cp) with true by (symmetry; apply Z.leb_le; lia). reflexivity.
Qed.

Lemma parseInlines_emptyOne src m b : emptyOne (bik b) = true -> parseInlines src m b = [].
Proof.
  unfold emptyOne. destruct (bik b) as [|u [|v r]] eqn:E; try discriminate.
  intros H. apply andb_true_iff in H. destruct H as [H _]. apply andb_true_iff in H. destruct H as [Hk He].
  apply Z.eqb_eq in Hk. apply Z.eqb_eq in He.
  unfold parseInlines. rewrite E. cbn [length].
  set (st0 := {| rk := []; isrc := src; unp := [u]; upos := 0; stk := []; ign := false; nid := 1; rootEnd := bend b; matcher := m |}).
  assert (Hsp : spanEnd st0 = iend u) by reflexivity.
  assert (H1 : outer 2 st0 = setUpos (setIgn st0 false) 1).
  { cbn [outer]. change (len (unp st0) <=? upos st0) with false. cbv iota.
    change (nth (Z.to_nat (upos st0)) (unp st0) (mkI 0 0 0)) with u. rewrite Hk.
    change (UnparsedKind =? 0) with false. change (UnparsedKind =? IndentKind) with false. change (UnparsedKind =? UnparsedKind) with true. cbv iota.
    change (ign st0) with false. cbv iota.
    cbn [iloop]. change (upos (setIgn st0 false) <? len (unp (setIgn st0 false))) with true.
    change (spanEnd (setIgn st0 false)) with (iend u). rewrite He.
    replace (iend u <? iend u) with false by (symmetry; apply Z.ltb_ge; lia). cbn [andb].
    assert (Hz : forall x, spanLen x x = 0) by (intros x; unfold spanLen; destruct (_ && _); lia).
    unfold addText, addNode. rewrite Hz.
    cbn [Z.eqb fst].
    change (len (unp (setUpos (setIgn st0 false) (upos (setIgn st0 false) + 1))) <=? upos (setUpos (setIgn st0 false) (upos (setIgn st0 false) + 1))) with true.
    reflexivity. }
  rewrite H1. unfold processEmphasis. cbv zeta. rewrite pe_loop_nostack by (reflexivity || lia). reflexivity.
Qed.

Print Assumptions parseBlocks_entries_ok_statement_false.
Print Assumptions parseInlines_emptyOne.
