From Coq Require Import List ZArith Lia Bool.
Import ListNotations.
Require Import Base Tree Rdr Link Collect Html Recog LP Rules Starts Driver Render L2Kind L2CC GramDefs GramTree GramLP GramLP2 GramLP3 GramLP4
  Rec17 Rec18 BSOrph BSClose BSLine1 BSLine2 BSLine3 BSLine4 BSLine5 BSLine7 TilBase TilDefs TilLP1 TilLP2 TilLP3 TilLP4.
Require L2Kind2.
Open Scope Z_scope.

(* ================= the block starts (all but the setext heading and the list item) ================= *)

(* the rest of the line is not blank while a paragraph is the container *)
Definition RN (p : lp) : Prop := containerKind p = ParagraphKind -> isRestBlank p = false.
(* a consumed line has the cursor at its end *)
Definition LCI (p : lp) : Prop := state p = stLineConsumed -> li p = len (line p).
Definition TJ (p : lp) : Prop := TI p /\ RN p.
Definition TKL (p : lp) (K : Z) : Prop := TI p /\ LCI p /\ ckind p K.
Definition lk (K : Z) : Prop := K <> documentKind /\ K <> ParagraphKind.

Lemma LCI_step p p' : sstep p p' -> fr p p' -> EV p -> LCI p -> LCI p'.
Proof.
  intros Hs (_ & _ & F3 & F4) (_ & _ & Hli & _) H E. specialize (F4 Hli). rewrite F3.
  destruct Hs as [Hs|[Hs1 Hs2]]; [|rewrite Hs2 in E; discriminate]. rewrite Hs in E. specialize (H E). lia.
Qed.
Lemma LCI_open p : st_open p -> LCI p.
Proof. intros [E|E] H; rewrite E in H; discriminate. Qed.

Lemma TJ_of_TKL p K : TKL p K -> K <> ParagraphKind -> TJ p /\ LCI p.
Proof.
  intros (A & B & C) N. split; [split; [exact A|]|exact B]. intros E. exfalso. apply N. rewrite <- E. symmetry.
  apply containerKind_of; [apply A|exact C].
Qed.

Lemma TKL_consumeIndent p n K : TKL p K -> TKL (consumeIndent p n) K.
Proof.
  intros (A & B & C). split; [apply TI_consumeIndent, A|]. split.
  - apply (LCI_step p); [apply sstep_consumeIndent|apply fr_cstep, cstep_consumeIndent|apply A|exact B].
  - eapply ckind_same; [apply same_consumeIndent|exact C].
Qed.
Lemma TKL_loud p K : TKL p K -> lk K -> loud p.
Proof. intros (A & _ & C) [N1 N2]. apply (loud_ckind p K); [apply A|exact C|exact N1|exact N2]. Qed.
Lemma TKL_advance p n K : TKL p K -> lk K -> TKL (advance p n) K.
Proof.
  intros H HK. pose proof (TKL_loud p K H HK) as HL. destruct H as (A & B & C).
  split; [apply TI_advance; assumption|]. split.
  - apply (LCI_step p); [apply sstep_advance|apply fr_cstep, cstep_advance|apply A|exact B].
  - eapply ckind_same; [apply same_advance|exact C].
Qed.
Lemma TKL_consumeLine p K : TKL p K -> lk K -> TKL (consumeLine p) K.
Proof.
  intros H HK. pose proof (TKL_loud p K H HK) as HL. destruct H as (A & B & C).
  split; [apply TI_consumeLine; assumption|]. split.
  - intros _. destruct A as (_ & (_ & _ & Hli & _) & _). destruct (li_consumeLine p Hli) as [E1 E2]. rewrite E1, E2. reflexivity.
  - eapply ckind_same; [apply same_consumeLine|exact C].
Qed.
Lemma TKL_collectInline p kind n K : TKL p K -> nikK K = false -> isPara K = false -> K <> documentKind ->
  TKL (collectInline p kind n) K.
Proof.
  intros (A & B & C) Hn Hp Nd. split; [apply (TI_collectInline _ _ _ K); assumption|]. split.
  - apply (LCI_step p); [apply sstep_collectInline|apply fr_collectInline|apply A|exact B].
  - apply ckind_collectInline, C.
Qed.
Lemma TKL_setter p f K : TKL p K -> GI (updCont p f) ->
  (forall x, sameH x (f x) /\ bkids (f x) = bkids x /\ bkind (f x) = bkind x) -> TKL (updCont p f) K.
Proof.
  intros (A & B & C) HG Hf. split; [apply TI_updCont_keep; [exact A|exact HG|intros x _; split; apply Hf]|]. split.
  - exact B.
  - apply ckind_updCont; [intros b; apply Hf|exact C].
Qed.

Section WithOcp.
  Hypothesis HOP : OcpPara.

  Lemma TKL_openBlock p K : TI p -> st_open p -> GI (openBlock p K) -> K <> SetextHeadingKind -> TKL (openBlock p K) K.
  Proof.
    intros H Hs HG NK. split; [apply (TI_openBlock HOP); [apply TI_TI0, H|exact Hs|exact HG|exact NK]|]. split.
    - apply LCI_open, L2Kind2.st_open_openBlock, Hs.
    - apply ckind_openBlock, Hs.
  Qed.
  Lemma TKL_openBlock_init p K g : TI p -> st_open p -> GI (updCont (openBlock p K) g) -> K <> SetextHeadingKind ->
    (forall x, bkind (g x) = bkind x) ->
    (forall pos, isOpen (g (newBlock K pos)) = true /\ bik (g (newBlock K pos)) = [] /\ bkind (g (newBlock K pos)) = K) ->
    TKL (updCont (openBlock p K) g) K.
  Proof.
    intros H Hs HG NK Hk Hg. split; [apply (TI_openBlock_init HOP); [apply TI_TI0, H|exact Hs|exact HG|exact NK|exact Hg]|]. split.
    - apply LCI_open. apply st_open_updCont, L2Kind2.st_open_openBlock, Hs.
    - apply ckind_updCont; [exact Hk|apply ckind_openBlock, Hs].
  Qed.

  (* the container after endBlock has a child: it is not a paragraph *)
  Lemma RN_has_child p : ccP p -> (exists y, getAt (S (cdepth p)) (root p) = Some y) -> RN p.
  Proof.
    intros (A & B & (x & Hx)) (y & Hy) E. exfalso. rewrite getAt_S_last, Hx in Hy.
    assert (Ek : containerKind p = bkind x) by (unfold containerKind, contBlock; rewrite Hx; reflexivity).
    rewrite Ek in E. pose proof (para_no_kids x (cc_getAt _ _ _ B Hx) E) as Hn. apply (lastBlock_nonempty x y Hy Hn).
  Qed.
  Lemma child_after_closeAt p d e x : getAt (S d) (root p) = Some x ->
    exists y, getAt (S d) (root (withCont (closeLastChildAt p d e) (Some d))) = Some y.
  Proof.
    intros Hx. unfold closeLastChildAt. cbn [root withCont withRoot setLP]. fold (closeF p e). rewrite getAt_S_updAt.
    destruct (getAt_prefix _ _ _ Hx) as (z & Hz). rewrite Hz. rewrite getAt_S_last, Hz in Hx.
    unfold closeF. rewrite Hx. rewrite lastBlock_lastL. unfold set_lastBlocks. rewrite bkids_set_bkids.
    rewrite lastL_app by apply closeBlock_nonnil.
    destruct (lastL (closeBlock (bheight (root p)) (source p) x e)) as [y0|] eqn:El; [eexists; reflexivity|].
    exfalso. apply lastL_none in El. revert El. apply closeBlock_nonnil.
  Qed.

  Lemma TJL_endBlock p K : TKL p K -> lk K -> K <> SetextHeadingKind -> nd p -> li p = len (line p) ->
    TJ (endBlock p) /\ LCI (endBlock p).
  Proof.
    intros H HK NS Hnd Hli. pose proof (TKL_loud p K H HK) as [HL1 HL2]. destruct H as (A & B & C). destruct HK as [N1 N2].
    assert (HT : TI (endBlock p)).
    { apply TI_endBlock; [exact A|]. intros E1. split; [exact Hli|]. intros c Hc.
      rewrite (C c (top_cont1 p c E1 Hc)). split; assumption. }
    split; [split; [exact HT|]|].
    - (* the parent has a child *)
      revert HT. unfold endBlock.
      replace ((state p =? stDescending) || (state p =? stDescendTerminated)) with false by (destruct Hnd as [-> |[-> | ->]]; reflexivity).
      cbv zeta. set (p0 := if state p =? stOpening then withState p stOpenMatched else p).
      assert (E0 : cdepth p0 = cdepth p /\ root p0 = root p) by (unfold p0; destruct (state p =? stOpening); split; reflexivity).
      destruct E0 as [E1 E2]. destruct (cdepth p0) as [|d] eqn:Ed; [exfalso; apply HL1; congruence|].
      intros HT. apply RN_has_child; [apply HT|].
      destruct A as (((_ & _ & (x & Hx)) & _) & _). rewrite <- E1, <- E2 in Hx.
      change (cdepth (withCont (closeLastChildAt p0 d (lineStart p0 + li p0)) (Some d))) with d. eapply child_after_closeAt. exact Hx.
    - apply (LCI_step p); [apply sstep_endBlock| |apply A|exact B].
      unfold endBlock. destruct (_ || _); [apply fr_fields; reflexivity|]. cbv zeta.
      set (p0 := if state p =? stOpening then withState p stOpenMatched else p).
      assert (F0 : fr p p0) by apply fr_opened.
      eapply fr_trans; [exact F0|]. destruct (cdepth p0); apply fr_fields; reflexivity.
  Qed.

  (* ---- the simple starts ---- *)
  Definition startOKt (f : lp -> lp) : Prop := forall p, state p = stOpening -> TJ p -> TJ (f p) /\ LCI (f p).
  Lemma keep p : state p = stOpening -> TJ p -> TJ p /\ LCI p.
  Proof. intros E H. split; [exact H|]. intros E'. rewrite E in E'. discriminate. Qed.

  Lemma sOK_startBlockQuote : startOKt startBlockQuote.
  Proof.
    intros p Es H. pose proof (keep p Es H) as Hk. destruct H as [H _].
    assert (Hs : st_open p) by (left; exact Es).
    unfold startBlockQuote. cbv zeta. destruct (_ <=? _); [exact Hk|]. destruct (negb _); [exact Hk|].
    set (p1 := consumeIndent p (indent p)).
    assert (H1 : TI p1) by (apply TI_consumeIndent, H). assert (S1 : st_open p1) by (apply st_open_consumeIndent, Hs).
    assert (H2 : TKL (openBlock p1 BlockQuoteKind) BlockQuoteKind).
    { apply TKL_openBlock; [exact H1|exact S1| |discriminate]. apply GI_openBlock; [apply H1|discriminate|discriminate|intros; reflexivity]. }
    assert (H3 : TKL (advance (openBlock p1 BlockQuoteKind) 1) BlockQuoteKind) by (apply TKL_advance; [exact H2|split; discriminate]).
    destruct (0 <? _); apply (TJ_of_TKL _ BlockQuoteKind); try discriminate; [apply TKL_consumeIndent, H3|exact H3].
  Qed.

  Lemma sOK_startIndented : startOKt startIndented.
  Proof.
    intros p Es H. pose proof (keep p Es H) as Hk. destruct H as [H _].
    assert (Hs : st_open p) by (left; exact Es).
    unfold startIndented. destruct (_ || _ || _); [exact Hk|].
    set (p1 := consumeIndent p codeBlockIndentLimit).
    assert (H1 : TI p1) by (apply TI_consumeIndent, H). assert (S1 : st_open p1) by (apply st_open_consumeIndent, Hs).
    apply (TJ_of_TKL _ IndentedCodeBlockKind); [|discriminate].
    apply TKL_openBlock; [exact H1|exact S1| |discriminate]. apply GI_openBlock; [apply H1|discriminate|discriminate|intros; reflexivity].
  Qed.

  Lemma nd_chain p p' : sstep p p' -> st_open p -> nd p'. Proof. intros Hs Ho. eapply nd_sstep; [exact Hs|apply st_open_nd, Ho]. Qed.

  Lemma li_after_consumeLine p : EV p -> li (consumeLine p) = len (line (consumeLine p)).
  Proof. intros (_ & _ & Hli & _). destruct (li_consumeLine p Hli) as [A B]. rewrite A, B. reflexivity. Qed.

  Lemma sOK_startThematic : startOKt startThematic.
  Proof.
    intros p Es H. pose proof (keep p Es H) as Hk. destruct H as [H _].
    assert (Hs : st_open p) by (left; exact Es).
    unfold startThematic. cbv zeta. destruct (_ <=? _); [exact Hk|]. destruct (_ <? 0); [exact Hk|].
    set (p1 := consumeIndent p (indent p)).
    assert (H1 : TI p1) by (apply TI_consumeIndent, H). assert (S1 : st_open p1) by (apply st_open_consumeIndent, Hs).
    set (p2 := openBlock p1 ThematicBreakKind).
    assert (H2 : TKL p2 ThematicBreakKind).
    { apply TKL_openBlock; [exact H1|exact S1| |discriminate]. apply GI_openBlock; [apply H1|discriminate|discriminate|intros; reflexivity]. }
    assert (S2 : st_open p2) by (apply L2Kind2.st_open_openBlock, S1).
    set (p3 := advance p2 _).
    assert (H3 : TKL p3 ThematicBreakKind) by (apply TKL_advance; [exact H2|split; discriminate]).
    assert (S3 : st_open p3) by (eapply st_open_sstep; [apply sstep_advance|exact S2]).
    assert (H4 : TKL (consumeLine p3) ThematicBreakKind) by (apply TKL_consumeLine; [exact H3|split; discriminate]).
    apply (TJL_endBlock _ ThematicBreakKind); [exact H4|split; discriminate|discriminate| |].
    - apply ms_nd. apply ms_consumeLine, st_open_nd, S3.
    - apply li_after_consumeLine. apply H3.
  Qed.

  Lemma sOK_startATX : startOKt startATX.
  Proof.
    intros p Es H. pose proof (keep p Es H) as Hk. destruct H as [H _].
    assert (Hs : st_open p) by (left; exact Es).
    unfold startATX. cbv zeta. destruct (_ <=? _); [exact Hk|].
    destruct (parseATXHeading _) as [[level cs] ce] eqn:Ep. destruct (level <? 1) eqn:El; [exact Hk|].
    apply Z.ltb_ge in El. pose proof (atx_level_le _ _ _ _ Ep) as Hl.
    set (p1 := consumeIndent p (indent p)).
    assert (H1 : TI p1) by (apply TI_consumeIndent, H). assert (S1 : st_open p1) by (apply st_open_consumeIndent, Hs).
    set (p2 := updCont (openBlock p1 ATXHeadingKind) (fun b => set_bn b level)).
    assert (H2 : TKL p2 ATXHeadingKind).
    { apply TKL_openBlock_init; [exact H1|exact S1| |discriminate|intros x; destruct x; reflexivity|intros pos; repeat split].
      apply GI_openBlock_init; [exact S1|apply H1|discriminate|discriminate|].
      intros pos. split; [reflexivity|]. split; [reflexivity|]. split; [apply gb_newATX; lia|reflexivity]. }
    assert (S2 : st_open p2) by (apply st_open_updCont, L2Kind2.st_open_openBlock, S1).
    set (p3 := advance p2 cs).
    assert (H3 : TKL p3 ATXHeadingKind) by (apply TKL_advance; [exact H2|split; discriminate]).
    assert (S3 : st_open p3) by (eapply st_open_sstep; [apply sstep_advance|exact S2]).
    set (p4 := collectInline p3 UnparsedKind (ce - cs)).
    assert (H4 : TKL p4 ATXHeadingKind) by (apply TKL_collectInline; [exact H3|reflexivity|reflexivity|discriminate]).
    assert (S4 : st_open p4) by (eapply st_open_sstep; [apply sstep_collectInline|exact S3]).
    assert (H5 : TKL (consumeLine p4) ATXHeadingKind) by (apply TKL_consumeLine; [exact H4|split; discriminate]).
    apply (TJL_endBlock _ ATXHeadingKind); [exact H5|split; discriminate|discriminate| |].
    - apply ms_nd. apply ms_consumeLine, st_open_nd, S4.
    - apply li_after_consumeLine. apply H4.
  Qed.

  Lemma sOK_startFenced : startOKt startFenced.
  Proof.
    intros p Es H. pose proof (keep p Es H) as Hk. destruct H as [H _].
    assert (Hs : st_open p) by (left; exact Es).
    unfold startFenced. cbv zeta. destruct (_ <=? _); [exact Hk|].
    destruct (parseCodeFence _) as [[[fc fnn] is_] ie]. destruct (fnn =? 0); [exact Hk|].
    set (p1 := consumeIndent p (indent p)).
    assert (H1 : TI p1) by (apply TI_consumeIndent, H). assert (S1 : st_open p1) by (apply st_open_consumeIndent, Hs).
    set (p2 := updCont (openBlock p1 FencedCodeBlockKind) (fun b => set_bn (set_bchar b fc) fnn)).
    assert (H2 : TKL p2 FencedCodeBlockKind).
    { apply TKL_openBlock_init; [exact H1|exact S1| |discriminate|intros x; destruct x; reflexivity|intros pos; repeat split].
      apply GI_openBlock_init; [exact S1|apply H1|discriminate|discriminate|]. intros pos. repeat split; reflexivity. }
    assert (S2 : st_open p2) by (apply st_open_updCont, L2Kind2.st_open_openBlock, S1).
    set (p3 := updCont p2 (fun b => set_bindent b (indent p))).
    assert (H3 : TKL p3 FencedCodeBlockKind).
    { apply TKL_setter; [exact H2|apply GI_updCont_bindent, H2|]. intros x. split; [apply sameH_set_bindent|split; destruct x; reflexivity]. }
    assert (S3 : st_open p3) by (apply st_open_updCont, S2).
    apply (TJ_of_TKL _ FencedCodeBlockKind); [|discriminate]. apply TKL_consumeLine; [|split; discriminate].
    destruct (spanValid _); [|exact H3].
    apply TKL_collectInline; [|reflexivity|reflexivity|discriminate]. apply TKL_advance; [exact H3|split; discriminate].
  Qed.

  Lemma sOK_startHTML : startOKt startHTML.
  Proof.
    intros p Es H. pose proof (keep p Es H) as Hk. destruct H as [H _].
    assert (Hs : st_open p) by (left; exact Es).
    unfold startHTML. cbv zeta. destruct (_ <=? _); [exact Hk|]. destruct (negb _); [exact Hk|].
    destruct (_ <? 0); [exact Hk|]. destruct (negb _ && _); [exact Hk|].
    match goal with |- context [updCont (openBlock p HTMLBlockKind) ?G] => set (g := G) end.
    set (p2 := updCont (openBlock p HTMLBlockKind) g).
    assert (H2 : TKL p2 HTMLBlockKind).
    { apply TKL_openBlock_init; [exact H|exact Hs| |discriminate|intros x; destruct x; reflexivity|intros pos; repeat split].
      apply GI_openBlock_init; [exact Hs|apply H|discriminate|discriminate|]. intros pos. repeat split; reflexivity. }
    assert (S2 : st_open p2) by (apply st_open_updCont, L2Kind2.st_open_openBlock, Hs).
    destruct (htmlEnd _ _); [|apply (TJ_of_TKL _ HTMLBlockKind); [exact H2|discriminate]].
    set (p3 := collectInline p2 RawHTMLKind _).
    assert (H3 : TKL p3 HTMLBlockKind) by (apply TKL_collectInline; [exact H2|reflexivity|reflexivity|discriminate]).
    assert (S3 : st_open p3) by (eapply st_open_sstep; [apply sstep_collectInline|exact S2]).
    assert (H4 : TKL (consumeLine p3) HTMLBlockKind) by (apply TKL_consumeLine; [exact H3|split; discriminate]).
    apply (TJL_endBlock _ HTMLBlockKind); [exact H4|split; discriminate|discriminate| |].
    - apply ms_nd. apply ms_consumeLine, st_open_nd, S3.
    - apply li_after_consumeLine. apply H3.
  Qed.
End WithOcp.
