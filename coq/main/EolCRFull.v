From Coq Require Import List ZArith Lia Bool.
Import ListNotations.
Require Import Base Tables Utf8 Tree Rdr Link Collect Html Recog LP Rules Starts Driver Inl3a Inl3b Inl3c Inl3d Inl3e
  Rec16 Rec17 Rec18 L2Kind L2CC L2Bnd L2BndS TRdr TLine EolCRDefs EolCRBytes EolCRRdr EolCRLP EolCR EolCRInlA EolCRInlB EolCRInlC.
Open Scope Z_scope.

(* ====================================================================================================
   C14 (ii), CR clause on the whole parse: for an input without CR, replacing every LF by CR changes
   nothing in what parseFull returns (block trees AFTER the inline pass: kinds, spans, references),
   except that the Source of every root block is mapped likewise.
   ==================================================================================================== *)

Theorem rewriteB_cr : forall fuel src src' matcher b, crRel src src' -> rewriteB fuel src' matcher b = rewriteB fuel src matcher b.
Proof.
  induction fuel as [|f IH]; intros src src' m b H; [reflexivity|]. cbn [rewriteB].
  destruct (_ && _); [rewrite (parseInlines_cr src src' m b H); reflexivity|].
  f_equal. apply map_ext. intros c. apply IH, H.
Qed.

(* the roots of the two block-layer runs are related (re-derived from EolCR.sim_allBlocks: the public
   parseBlocks_cr only keeps rb_src r' = cr (rb_src r)) *)
Lemma parseBlocks_rootR s : ~ In 13 s ->
  Forall2 rootR (fst (parseBlocks s)) (fst (parseBlocks (cr s))) /\ snd (parseBlocks (cr s)) = snd (parseBlocks s).
Proof.
  intros Hs. unfold parseBlocks.
  pose proof (cr_pad _ _ (crRel_cr s Hs)) as Hp. rewrite (crRel_length _ _ Hp).
  set (s0 := {| buf := pad s; bi := 0; boff := 0; bline := 1; pending := [] |}).
  set (s0' := {| buf := pad (cr s); bi := 0; boff := 0; bline := 1; pending := [] |}).
  assert (HS : relS s0 s0') by (repeat split; exact Hp).
  assert (HI : SI s0 (pending s0) true).
  { unfold SI, s0. cbn [buf bi pending]. pose proof (len_nonneg (pad s)). repeat split; try lia; try discriminate. }
  exact (sim_allBlocks (S (length (pad s))) s0 s0' [] [] true HS HI (Forall2_nil _)).
Qed.

Definition refsOf (roots : list rootB) (acc : list bytes) : list bytes :=
  fold_left (fun a r => extractB (bheight (rb_blk r)) (rb_blk r) a) roots acc.
Lemma refsOf_rootR l l' : Forall2 rootR l l' -> forall acc, refsOf l' acc = refsOf l acc.
Proof.
  induction 1 as [|r r' l l' (_ & _ & _ & _ & E) H IH]; intros acc; [reflexivity|]. unfold refsOf in *. cbn [fold_left].
  rewrite E. apply IH.
Qed.
Definition fullRoot (refs : list bytes) (r : rootB) : rootB :=
  {| rb_line := rb_line r; rb_start := rb_start r; rb_end := rb_end r; rb_src := rb_src r;
     rb_blk := rewriteB (bheight (rb_blk r)) (rb_src r) refs (rb_blk r) |}.
Lemma fullRoot_rootR refs l l' : Forall2 rootR l l' -> map (fullRoot refs) l' = map (mapSrc cr) (map (fullRoot refs) l).
Proof.
  induction 1 as [|r r' l l' (A & B & C & D & E) H IH]; [reflexivity|]. cbn [map]. rewrite IH. f_equal.
  unfold fullRoot, mapSrc. cbn [rb_line rb_start rb_end rb_src rb_blk]. rewrite A, B, C, E, (rewriteB_cr _ _ _ refs _ D), (crRel_is_cr _ _ D).
  reflexivity.
Qed.
Lemma parseFull_eq s : parseFull s = (map (fullRoot (refsOf (fst (parseBlocks s)) [])) (fst (parseBlocks s)), snd (parseBlocks s)).
Proof. unfold parseFull. destruct (parseBlocks s) as [roots code]. reflexivity. Qed.

Theorem parseFull_cr : forall s, ~ In 13 s ->
  parseFull (cr s) = (map (mapSrc cr) (fst (parseFull s)), snd (parseFull s)).
Proof.
  intros s Hs. destruct (parseBlocks_rootR s Hs) as [HR HC]. rewrite !parseFull_eq. cbn [fst snd].
  rewrite HC, (refsOf_rootR _ _ HR), (fullRoot_rootR _ _ _ HR). reflexivity.
Qed.
Print Assumptions parseInlines_cr.
Print Assumptions rewriteB_cr.
Print Assumptions parseFull_cr.

(* what the statement says about one root: everything but the Source is equal, the Source is mapped *)
Corollary parseFull_cr_blocks : forall s, ~ In 13 s ->
  map rb_blk (fst (parseFull (cr s))) = map rb_blk (fst (parseFull s)) /\
  map rb_src (fst (parseFull (cr s))) = map (fun r => cr (rb_src r)) (fst (parseFull s)) /\
  snd (parseFull (cr s)) = snd (parseFull s).
Proof.
  intros s Hs. rewrite (parseFull_cr s Hs). cbn [fst snd]. rewrite !map_map. repeat split.
Qed.
Print Assumptions parseFull_cr_blocks.
