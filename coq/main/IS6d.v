From Coq Require Import List ZArith Lia Bool.
Import ListNotations.
Require Import Base Tables Utf8 Tree Rdr Link Collect Html Recog Inl3a Inl3b Inl3c Inl3d ShapesBase ShapesR ShapesHT.
Open Scope Z_scope.

(* ================================================================== *)
(* IS6d: the walk of ShapesHT.v through parseHTMLTag, with the reader  *)
(* invariant and the property of the end position abstracted           *)
(* (ShapesHT.v is the instance HB src B / "at_ src (e-1) = 62").        *)
(* The proofs are those of ShapesHT.v.                                 *)
(* ================================================================== *)

Section HTg.
  Variable src : bytes.
  Variable HB : reader -> Prop.          (* an invariant of reader states ... *)
  Variable goodEnd : Z -> Prop.          (* ... and what it yields at a '>' *)
  Hypothesis HB_RI : forall r, HB r -> RI src r.
  Hypothesis HB_curNode : forall r, HB r -> HB (snd (curNode r)).
  Hypothesis HB_current : forall r, HB r -> HB (snd (current r)).
  Hypothesis HB_next : forall r, HB r -> HB (snd (next r)).
  Hypothesis HB_gt : forall r, HB r -> at_ src (r_pos r) = 62 -> goodEnd (r_pos r + 1).

  Lemma HB_remaining r : HB r -> HB (snd (remainingNodeBytes r)).
  Proof. intros H. unfold remainingNodeBytes. pose proof (HB_curNode r H) as H1. destruct (curNode r) as [[n|] r']; exact H1. Qed.

  Ltac hstep :=
    repeat match goal with
    | |- context [current ?r] =>
        match goal with Hr : HB r |- _ =>
          let H := fresh "Hc" in let c := fresh "c" in let r' := fresh "r" in let E := fresh "Ec" in
          pose proof (HB_current r Hr) as H; destruct (current r) as [c r'] eqn:E; cbn [snd] in H end
    | |- context [next ?r] =>
        match goal with Hr : HB r |- _ =>
          let H := fresh "Hn" in let ok := fresh "ok" in let r' := fresh "r" in let E := fresh "En" in
          pose proof (HB_next r Hr) as H; destruct (next r) as [ok r'] eqn:E; cbn [snd] in H end
    end.

  (* ---- Link.v / Html.v sub-scanners keep the invariant ---- *)
  Lemma HB_skipLinkSpace_loop : forall fuel r, HB r -> HB (snd (skipLinkSpace_loop fuel r)).
  Proof.
    induction fuel as [|f IH]; intros r H; [exact H|]. cbn [skipLinkSpace_loop]. hstep.
    destruct (isSpaceTabOrLineEnding c); [|exact Hc]. hstep. destruct ok; [apply IH; assumption|assumption].
  Qed.
  Lemma HB_skipLinkSpace fuel r : HB r -> HB (snd (skipLinkSpace fuel r)).
  Proof. intros H. unfold skipLinkSpace. hstep. destruct (c =? 0); [assumption|apply HB_skipLinkSpace_loop; assumption]. Qed.
  Lemma HB_tagName_loop : forall fuel r, HB r -> HB (tagName_loop fuel r).
  Proof.
    induction fuel as [|f IH]; intros r H; [exact H|]. cbn [tagName_loop]. hstep.
    destruct (_ || _ || _); [|exact Hc]. hstep. destruct ok; [apply IH; assumption|assumption].
  Qed.
  Lemma HB_parseHTMLTagName fuel r : HB r -> HB (snd (parseHTMLTagName fuel r)).
  Proof.
    intros H. unfold parseHTMLTagName. hstep. destruct (negb _); [exact Hc|]. hstep.
    destruct (negb ok); [exact Hn|]. cbn [snd]. apply HB_tagName_loop; assumption.
  Qed.
  Lemma HB_attrName_loop : forall fuel r, HB r -> HB (snd (attrName_loop fuel r)).
  Proof.
    induction fuel as [|f IH]; intros r H; [exact H|]. cbn [attrName_loop]. hstep.
    destruct (isAttrNameChar c); [|exact Hc]. hstep. destruct ok; [apply IH; assumption|assumption].
  Qed.
  Lemma HB_untilQuote : forall fuel r q, HB r -> HB (snd (untilQuote fuel r q)).
  Proof.
    induction fuel as [|f IH]; intros r q H; [exact H|]. cbn [untilQuote]. hstep.
    destruct (c =? q); [cbn [snd]; assumption|]. destruct ok; [apply IH; assumption|assumption].
  Qed.
  Lemma HB_unquoted_loop : forall fuel r, HB r -> HB (unquoted_loop fuel r).
  Proof.
    induction fuel as [|f IH]; intros r H; [exact H|]. cbn [unquoted_loop]. hstep.
    destruct (negb ok); [assumption|]. hstep. destruct (isUnquotedAttributeValueChar c); [apply IH; assumption|assumption].
  Qed.
  Lemma HB_parseHTMLAttribute fuel r : HB r -> HB (snd (parseHTMLAttribute fuel r)).
  Proof.
    intros H. unfold parseHTMLAttribute. hstep. destruct (_ && _ && _); [exact Hc|]. hstep.
    destruct (negb ok); [exact Hn|].
    pose proof (HB_attrName_loop fuel r1 Hn) as H3. destruct (attrName_loop fuel r1) as [cont r3]. cbn [snd] in H3.
    destruct (negb cont); [exact H3|].
    pose proof (HB_skipLinkSpace fuel r3 H3) as H4. destruct (skipLinkSpace fuel r3) as [ok2 r4]. cbn [snd] in H4.
    destruct (negb ok2); [exact H3|]. hstep. destruct (negb (c0 =? 61)); [exact H3|]. hstep.
    destruct (negb ok0); [exact Hn0|].
    pose proof (HB_skipLinkSpace fuel r5 Hn0) as H7. destruct (skipLinkSpace fuel r5) as [ok4 r7]. cbn [snd] in H7.
    destruct (negb ok4); [exact H7|]. hstep.
    destruct ((c1 =? 39) || (c1 =? 34)).
    - hstep. destruct (negb ok1); [exact Hn1|apply HB_untilQuote; assumption].
    - destruct (isUnquotedAttributeValueChar c1); [cbn [snd]; apply HB_unquoted_loop; assumption|exact Hc1].
  Qed.

  Lemma goodEnd_cur r : HB r -> cur r = 62 -> goodEnd (r_pos r + 1).
  Proof.
    intros H Hc. destruct (HB_RI r H) as (Hs & _). destruct (cur_src r 62 Hc eq_refl) as (A & _). rewrite Hs in A. apply HB_gt; assumption.
  Qed.
  Lemma goodEnd_of r c r' : HB r -> current r = (c, r') -> c = 62 -> goodEnd (r_pos r' + 1).
  Proof.
    intros H E ->. assert (Hc : cur r = 62) by (unfold cur; rewrite E; reflexivity).
    destruct (current_fields r) as (_ & P & _). cbv zeta in P. rewrite E in P. cbn [snd] in P. rewrite P. apply goodEnd_cur; assumption.
  Qed.

  Lemma openTag_loop_end : forall fuel r, HB r -> 0 <= fst (openTag_loop fuel r) -> goodEnd (fst (openTag_loop fuel r)).
  Proof.
    induction fuel as [|f IH]; intros r H; [cbn; lia|]. cbn [openTag_loop].
    pose proof (HB_skipLinkSpace (S f) r H) as H1. destruct (skipLinkSpace (S f) r) as [ok r1]. cbn [snd] in H1.
    destruct (negb ok); [cbn; lia|]. hstep.
    destruct (c =? 47).
    - destruct (negb ok0 || jumped r2); [cbn; lia|].
      destruct (Z.eqb_spec c0 62) as [E62|E62]; cbn [negb]; [|cbn; lia]. cbn [fst]. intros _.
      exact (goodEnd_of r2 c0 r3 Hn Ec0 E62).
    - destruct (Z.eqb_spec c 62) as [E62|E62].
      + cbn [fst]. intros _. exact (goodEnd_of r1 c r0 H1 Ec E62).
      + destruct (r_pos r0 =? r_pos r); [cbn; lia|].
        pose proof (HB_parseHTMLAttribute (S f) r0 Hc) as H3. destruct (parseHTMLAttribute (S f) r0) as [ok3 r5]. cbn [snd] in H3.
        destruct (negb ok3); [cbn; lia|]. apply IH. exact H3.
  Qed.
  Lemma parseHTMLOpenTag_end fuel r : HB r -> 0 <= fst (parseHTMLOpenTag fuel r) -> goodEnd (fst (parseHTMLOpenTag fuel r)).
  Proof.
    intros H. unfold parseHTMLOpenTag. pose proof (HB_parseHTMLTagName fuel r H) as H1.
    destruct (parseHTMLTagName fuel r) as [ok r1]. cbn [snd] in H1. destruct (negb ok); [cbn; lia|].
    apply openTag_loop_end. exact H1.
  Qed.
  Lemma parseHTMLClosingTag_end fuel r : HB r -> 0 <= fst (parseHTMLClosingTag fuel r) -> goodEnd (fst (parseHTMLClosingTag fuel r)).
  Proof.
    intros H. unfold parseHTMLClosingTag. hstep. destruct (negb (c =? 47)); [cbn; lia|].
    destruct (negb ok || jumped r1); [cbn; lia|].
    pose proof (HB_parseHTMLTagName fuel r1 Hn) as H3. destruct (parseHTMLTagName fuel r1) as [ok2 r3]. cbn [snd] in H3.
    destruct (negb ok2); [cbn; lia|].
    pose proof (HB_skipLinkSpace fuel r3 H3) as H4. destruct (skipLinkSpace fuel r3) as [ok3 r4]. cbn [snd] in H4.
    destruct (negb ok3); [cbn; lia|].
    destruct (current r4) as [c2 r5] eqn:Ec2.
    destruct (Z.eqb_spec c2 62) as [E62|E62]; cbn [negb]; [|cbn; lia]. cbn [fst]. intros _.
    exact (goodEnd_of r4 c2 r5 H4 Ec2 E62).
  Qed.

  (* ---- the scanners of Inl3d.v ---- *)
  Ltac hstep2 :=
    unfold cur;
    repeat (cbn [fst snd]; match goal with
    | |- context [current ?r] =>
        match goal with Hr : HB r |- _ =>
          let H := fresh "Hc" in let c := fresh "c" in let r' := fresh "r" in let E := fresh "Ec" in
          pose proof (HB_current r Hr) as H; destruct (current r) as [c r'] eqn:E; cbn [snd] in H end
    | |- context [next ?r] =>
        match goal with Hr : HB r |- _ =>
          let H := fresh "Hn" in let ok := fresh "ok" in let r' := fresh "r" in let E := fresh "En" in
          pose proof (HB_next r Hr) as H; destruct (next r) as [ok r'] eqn:E; cbn [snd] in H end
    end); cbn [fst snd].

  Definition okRes (start : Z) (p : Z * Z) : Prop := p = nullSpan \/ (fst p = start /\ goodEnd (snd p)).

  Lemma ht_pi_ok : forall fuel r start, HB r -> okRes start (ht_pi fuel r start).
  Proof.
    induction fuel as [|f IH]; intros r start H; [left; reflexivity|]. cbn [ht_pi].
    destruct (negb (cur r =? 63)).
    - rewrite next_current. pose proof (HB_next r H) as Hn. destruct (next r) as [ok r1]. cbn [snd] in Hn.
      destruct (negb ok); [left; reflexivity|apply IH; exact Hn].
    - rewrite next_current. pose proof (HB_next r H) as Hn. destruct (next r) as [ok r1]. cbn [snd] in Hn.
      destruct (negb ok || jumped r1); [left; reflexivity|].
      destruct (Z.eqb_spec (cur r1) 62) as [E|E]; [|apply IH; exact Hn].
      right. cbn [fst snd]. split; [reflexivity|apply goodEnd_cur; assumption].
  Qed.
  Lemma ht_until_ok : forall fuel r r5, HB r -> ht_until fuel r 62 = Some r5 -> goodEnd (r_pos r5 + 1).
  Proof.
    induction fuel as [|f IH]; intros r r5 H E; [discriminate|]. cbn [ht_until] in E.
    destruct (Z.eqb_spec (cur r) 62) as [Ec|Ec].
    - inversion E; subst r5. destruct (current_fields r) as (_ & P & _). cbv zeta in P. rewrite P. apply goodEnd_cur; assumption.
    - rewrite next_current in E. pose proof (HB_next r H) as Hn. destruct (next r) as [ok r1]. cbn [snd] in Hn.
      destruct (negb ok); [discriminate|]. eapply IH; eassumption.
  Qed.

  Lemma hasBytePrefix_cons l p ps : hasBytePrefix l (p :: ps) = true -> exists t, l = p :: t /\ hasBytePrefix t ps = true.
  Proof.
    destruct l as [|x xs]; cbn [hasBytePrefix]; [discriminate|]. intros H. apply andb_true_iff in H. destruct H as [H1 H2].
    apply Z.eqb_eq in H1. subst x. exists xs. split; [reflexivity|exact H2].
  Qed.

  Lemma next_contig r node rest : r_spans r = node :: rest -> spanHas node (r_pos r) = true ->
    ikind node <> IndentKind -> r_pos r + 1 < iend node ->
    exists r1, next r = (true, r1) /\ r_spans r1 = node :: rest /\ r_pos r1 = r_pos r + 1 /\ r_src r1 = r_src r.
  Proof.
    intros E Hh Hk Hl. unfold next. rewrite (curNode_head node rest r E Hh).
    destruct (Z.eqb_spec (ikind node) IndentKind) as [Ek|Ek]; [congruence|]. cbn [andb negb].
    destruct (Z.ltb_spec (r_pos r + 1) (iend node)); [|lia].
    eexists. split; [reflexivity|]. cbn. rewrite E. repeat split.
  Qed.

  (* the rest of the current node starts with three given bytes, the first of which is not blank: two steps stay inside
     the node and reach the third byte *)
  Lemma rem3 r a b c : RI src r -> hasBytePrefix (fst (remainingNodeBytes r)) [a; b; c] = true -> isSpTab a = false ->
    let r2 := snd (next (snd (next (snd (remainingNodeBytes r))))) in
    r_pos r2 = r_pos r + 2 /\ at_ src (r_pos r + 2) = c /\ RI src r2.
  Proof.
    intros (Hs & Hok) Hp Ha. cbv zeta. unfold remainingNodeBytes in *.
    destruct (curNode_cases r) as [E|(pre & n & rest & E1 & E & E3)]; rewrite E in *; cbn [fst snd] in *; [discriminate|].
    destruct (hasBytePrefix_cons _ _ _ Hp) as (t1 & Et1 & Hp1). destruct (hasBytePrefix_cons _ _ _ Hp1) as (t2 & Et2 & Hp2).
    destruct (hasBytePrefix_cons _ _ _ Hp2) as (t3 & Et3 & _). subst t1 t2.
    pose proof (spanHas_range _ _ E3) as (R1 & R2 & R3). rewrite Hs in Et1.
    assert (Hlen : 3 <= len (sub src (r_pos r) (iend n))) by (rewrite Et1, !len_cons; pose proof (len_nonneg t3); lia).
    pose proof (len_sub_le src (r_pos r) (iend n)) as Hle.
    rewrite len_sub in Hlen by lia.
    assert (A0 : at_ src (r_pos r) = a).
    { replace (r_pos r) with (r_pos r + 0) by lia. rewrite <- (at_sub src (r_pos r) (iend n) 0) by lia. rewrite Et1. reflexivity. }
    assert (A2 : at_ src (r_pos r + 2) = c).
    { rewrite <- (at_sub src (r_pos r) (iend n) 2) by lia. rewrite Et1. reflexivity. }
    rewrite E1 in Hok. apply spOK_app_r in Hok. pose proof (spOK_cons _ _ _ Hok) as (_ & _ & _ & D & _).
    assert (Hk : ikind n <> IndentKind).
    { intros Ek. destruct (indent_blank src n _ (D Ek) E3) as [L|L]; [lia|]. rewrite A0 in L. congruence. }
    destruct (next_contig (withSpans r (n :: rest)) n rest eq_refl E3 Hk ltac:(cbn; lia)) as (r1 & N1 & S1 & P1 & Q1).
    rewrite N1. cbn [snd]. cbn [withSpans r_pos r_src] in P1, Q1.
    destruct (next_contig r1 n rest S1 ltac:(rewrite P1; apply spanHas_intro; lia) Hk ltac:(lia)) as (r2 & N2 & S2 & P2 & Q2).
    rewrite N2. cbn [snd]. split; [lia|]. split; [exact A2|]. split; [congruence|rewrite S2; exact Hok].
  Qed.

  Lemma ht_comment_ok : forall fuel r start, HB r -> okRes start (ht_comment fuel r start).
  Proof.
    induction fuel as [|f IH]; intros r start H; [left; reflexivity|]. cbn [ht_comment].
    pose proof (HB_remaining r H) as H0. pose proof (rem3 r 45 45 62 (HB_RI r H)) as H3.
    destruct (remainingNodeBytes r) as [rem r0]. cbn [fst snd] in *.
    destruct (hasBytePrefix rem [45; 45; 62]).
    - right. cbn [fst snd]. split; [reflexivity|]. destruct (H3 eq_refl eq_refl) as (P & A & _).
      apply HB_gt; [apply HB_next, HB_next, H0|rewrite P; exact A].
    - destruct (hasBytePrefix rem [45; 45]); [left; reflexivity|].
      pose proof (HB_next r0 H0) as Hn. destruct (next r0) as [ok r1]. cbn [snd] in Hn.
      destruct (negb ok); [left; reflexivity|apply IH; exact Hn].
  Qed.
  Lemma ht_cdata_ok : forall fuel r start, HB r -> okRes start (ht_cdata fuel r start).
  Proof.
    induction fuel as [|f IH]; intros r start H; [left; reflexivity|]. cbn [ht_cdata].
    pose proof (HB_remaining r H) as H0. pose proof (rem3 r 93 93 62 (HB_RI r H)) as H3.
    destruct (remainingNodeBytes r) as [rem r0]. cbn [fst snd] in *.
    destruct (hasBytePrefix rem [93; 93; 62]).
    - right. cbn [fst snd]. split; [reflexivity|]. destruct (H3 eq_refl eq_refl) as (P & A & _).
      apply HB_gt; [apply HB_next, HB_next, H0|rewrite P; exact A].
    - pose proof (HB_next r0 H0) as Hn. destruct (next r0) as [ok r1]. cbn [snd] in Hn.
      destruct (negb ok); [left; reflexivity|apply IH; exact Hn].
  Qed.
  Lemma HB_nextNok : forall n r r4, HB r -> nextNok n r = Some r4 -> HB r4.
  Proof.
    induction n as [|n IH]; intros r r4 H E; cbn [nextNok] in E; [inversion E; subst; exact H|].
    pose proof (HB_next r H) as Hn. destruct (next r) as [ok r1]. cbn [snd] in Hn. destruct ok; [|discriminate].
    eapply IH; eassumption.
  Qed.

  (* everything after the first step of parseHTMLTag *)
  Lemma htmlTag_rest_ok fuel r1 start : HB r1 ->
    okRes start
      (let c := cur r1 in
       let r1 := snd (current r1) in
       if c =? 63 then
         let '(ok2, r2) := next r1 in if negb ok2 then nullSpan else ht_pi fuel r2 start
       else if c =? 33 then
         let '(ok2, r2) := next r1 in
         if negb ok2 || jumped r2 then nullSpan else
         let '(rem, r3) := remainingNodeBytes r2 in
         if (0 <? len rem) && isASCIILetter (at_ rem 0) then
           let r4 := snd (next r3) in
           match ht_until fuel r4 62 with Some r5 => (start, r_pos r5 + 1) | None => nullSpan end
         else if hasBytePrefix rem [45; 45] then
           let r4 := snd (next r3) in
           let '(ok3, r5) := next r4 in
           if negb ok3 || jumped r5 then nullSpan else
           let '(ts, r6) := remainingNodeBytes r5 in
           if hasBytePrefix ts [62] || hasBytePrefix ts [45; 62] then nullSpan else ht_comment fuel r6 start
         else if hasBytePrefix rem [91;67;68;65;84;65;91] then
           match nextNok 7 r3 with Some r4 => ht_cdata fuel r4 start | None => nullSpan end
         else nullSpan
       else if c =? 47 then
         let '(e, _) := parseHTMLClosingTag fuel r1 in if e <? 0 then nullSpan else (start, e)
       else
         let '(e, _) := parseHTMLOpenTag fuel r1 in if e <? 0 then nullSpan else (start, e)).
  Proof.
    intros H. cbv zeta. pose proof (HB_current r1 H) as Hc. set (r1' := snd (current r1)) in *.
    destruct (cur r1 =? 63).
    { pose proof (HB_next r1' Hc) as Hn. destruct (next r1') as [ok2 r2]. cbn [snd] in Hn.
      destruct (negb ok2); [left; reflexivity|apply ht_pi_ok; exact Hn]. }
    destruct (cur r1 =? 33).
    { pose proof (HB_next r1' Hc) as Hn. destruct (next r1') as [ok2 r2]. cbn [snd] in Hn.
      destruct (negb ok2 || jumped r2); [left; reflexivity|].
      pose proof (HB_remaining r2 Hn) as H3. destruct (remainingNodeBytes r2) as [rem r3]. cbn [snd] in H3.
      destruct ((0 <? len rem) && isASCIILetter (at_ rem 0)).
      { pose proof (HB_next r3 H3) as H4. destruct (ht_until fuel (snd (next r3)) 62) as [r5|] eqn:Eu; [|left; reflexivity].
        right. cbn [fst snd]. split; [reflexivity|]. eapply ht_until_ok; eassumption. }
      destruct (hasBytePrefix rem [45; 45]).
      { pose proof (HB_next r3 H3) as H4. pose proof (HB_next _ H4) as H5. destruct (next (snd (next r3))) as [ok3 r5]. cbn [snd] in H5.
        destruct (negb ok3 || jumped r5); [left; reflexivity|].
        pose proof (HB_remaining r5 H5) as H6. destruct (remainingNodeBytes r5) as [ts r6]. cbn [snd] in H6.
        destruct (hasBytePrefix ts [62] || hasBytePrefix ts [45; 62]); [left; reflexivity|apply ht_comment_ok; exact H6]. }
      destruct (hasBytePrefix rem [91;67;68;65;84;65;91]); [|left; reflexivity].
      destruct (nextNok 7 r3) as [r4|] eqn:En; [|left; reflexivity]. apply ht_cdata_ok. eapply HB_nextNok; eassumption. }
    destruct (cur r1 =? 47).
    { pose proof (parseHTMLClosingTag_end fuel r1' Hc) as He. destruct (parseHTMLClosingTag fuel r1') as [e rr]. cbn [fst] in He.
      destruct (Z.ltb_spec e 0); [left; reflexivity|]. right. cbn [fst snd]. split; [reflexivity|apply He; lia]. }
    pose proof (parseHTMLOpenTag_end fuel r1' Hc) as He. destruct (parseHTMLOpenTag fuel r1') as [e rr]. cbn [fst] in He.
    destruct (Z.ltb_spec e 0); [left; reflexivity|]. right. cbn [fst snd]. split; [reflexivity|apply He; lia].
  Qed.
End HTg.
