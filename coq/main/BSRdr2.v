From Coq Require Import List ZArith Lia Bool.
Import ListNotations.
Require Import Base Tree Rdr Link Leaf3e RdrBound BSRdr.
Open Scope Z_scope.

Lemma good_op (op : reader -> reader) : (forall r0 r, Q r0 r -> Q r0 (op r)) -> forall r, good r -> good (op r) /\ adv r (op r).
Proof. intros H r Hg. exact (H r r (Q_refl r Hg)). Qed.

(* readEOL: the end-of-line position it reports lies between the positions before and after *)
Lemma readEOL_spec fuel r : good r ->
  good (snd (readEOL fuel r)) /\ adv r (snd (readEOL fuel r)) /\
  (fst (readEOL fuel r) < 0 \/
   (fst (readEOL fuel r) <= r_pos (snd (readEOL fuel r)) /\ forall s, LB s r -> s <= fst (readEOL fuel r))).
Proof.
  intros Hg. pose proof (Q_refl r Hg) as Q0. unfold readEOL.
  pose proof (Q_skipSpacesAndTabs r fuel r Q0) as Q1. destruct (skipSpacesAndTabs fuel r) as [ok r1]. cbn [snd] in Q1.
  destruct (negb ok).
  { cbn [fst snd]. destruct Q1 as [G1 A1]. split; [exact G1|split; [exact A1|right]]. split; [lia|]. intros s Hs. apply (LB_adv s r r1 Hs A1). }
  pose proof (Q_current r r1 Q1) as Q2. pose proof (current_nonindent r1) as Hni. pose proof (current_pos r1) as [Ep2 Ev2].
  destruct (current r1) as [c r2]. cbn [fst snd] in *.
  assert (Step : forall rr, Q r rr -> (forall n, fst (curNode rr) = Some n -> ikind n <> IndentKind) ->
            Q r (snd (next rr)) /\ r_prev (snd (next rr)) + 1 <= r_pos (snd (next rr)) /\
            forall s, LB s r -> s <= r_prev (snd (next rr)) + 1).
  { intros rr Qr Hn. split; [apply Q_next, Qr|]. destruct (next_nonindent rr (proj1 Qr) Hn) as [A B]. split; [exact A|].
    intros s Hs. apply B. apply (LB_adv s r rr Hs (proj2 Qr)). }
  destruct (Z.eqb_spec c 13) as [E13|N13].
  - destruct (Step r2 Q2 ltac:(apply Hni; lia)) as (Q3 & P3 & L3).
    destruct (next r2) as [ok2 r3]. cbn [snd] in *.
    destruct (negb ok2).
    { cbn [fst snd]. split; [apply Q3|split; [apply Q3|right]]. split; [lia|exact L3]. }
    pose proof (Q_current r r3 Q3) as Q4. pose proof (current_nonindent r3) as Hni3. pose proof (current_pos r3) as [Ep4 Ev4].
    destruct (current r3) as [c2 r4]. cbn [fst snd] in *.
    destruct (Z.eqb_spec c2 10) as [E10|N10].
    + destruct (Step r4 Q4 ltac:(apply Hni3; lia)) as (Q5 & P5 & L5).
      destruct (next r4) as [ok5 r5]. cbn [fst snd] in *.
      split; [apply Q5|split; [apply Q5|right]]. split; [lia|exact L5].
    + cbn [fst snd]. split; [apply Q4|split; [apply Q4|right]]. rewrite Ep4, Ev4. split; [lia|exact L3].
  - destruct (Z.eqb_spec c 10) as [E10|N10].
    + destruct (Step r2 Q2 ltac:(apply Hni; lia)) as (Q3 & P3 & L3).
      destruct (next r2) as [ok2 r3]. cbn [fst snd] in *.
      split; [apply Q3|split; [apply Q3|right]]. split; [lia|exact L3].
    + cbn [fst snd]. split; [apply Q2|split; [apply Q2|left; lia]].
Qed.

Lemma ll_skip_LB fuel r chars r' c' : good r -> ll_skip fuel r chars = Some (r', c') ->
  good r' /\ adv r r' /\ LB (r_pos r) r'.
Proof.
  intros Hg E. destruct fuel as [|f]; [discriminate|]. cbn [ll_skip] in E.
  destruct (good_next r Hg) as (Ga & Aa & Pa). destruct (next r) as [ok ra]. cbn [fst snd] in *.
  destruct ok; cbn [negb] in E; [|discriminate]. specialize (Pa eq_refl).
  assert (La : LB (r_pos r) ra) by (split; [apply Aa|lia]).
  pose proof (Q_refl ra Ga) as Qa. pose proof (Q_current ra ra Qa) as Q2.
  destruct (current ra) as [c r2]. cbn [snd] in Q2.
  destruct (_ || _ || _); [discriminate|].
  assert (Fin : Q ra r').
  { destruct (negb _); [inversion E; subst; exact Q2|]. eapply Q_ll_skip; [exact Q2|exact E]. }
  destruct Fin as [G A]. split; [exact G|split; [eapply adv_trans; eassumption|eapply LB_adv; eassumption]].
Qed.

Lemma spanValid_null : spanValid nullSpan = false. Proof. reflexivity. Qed.

Lemma parseLinkLabel_spec fuel r : good r ->
  good (snd (parseLinkLabel fuel r)) /\ adv r (snd (parseLinkLabel fuel r)) /\
  (spanValid (fst (fst (parseLinkLabel fuel r))) = true ->
   fst (fst (fst (parseLinkLabel fuel r))) = r_pos r /\ LB (r_pos r) (snd (parseLinkLabel fuel r))).
Proof.
  intros Hg. destruct (good_op (fun x => snd (parseLinkLabel fuel x)) (fun r0 x => Q_parseLinkLabel r0 fuel x) r Hg) as [G A].
  split; [exact G|split; [exact A|]]. clear G A. unfold parseLinkLabel.
  destruct (good_current r Hg) as [G0 A0]. pose proof (current_pos r) as [Ep0 _].
  destruct (current r) as [c r0]. cbn [snd] in *.
  destruct (negb (c =? 91)); [cbn [fst]; rewrite spanValid_null; discriminate|].
  destruct (ll_skip fuel r0 0) as [[r1 chars]|] eqn:E1; [|cbn [fst]; rewrite spanValid_null; discriminate].
  destruct (ll_skip_LB _ _ _ _ _ G0 E1) as (G1 & A1 & L1).
  destruct (ll_body fuel r1 chars (-1)) as [[r2 ie]|] eqn:E2; [|cbn [fst]; rewrite spanValid_null; discriminate].
  pose proof (Q_ll_body r1 _ _ _ _ _ _ (Q_refl r1 G1) E2) as Q2.
  pose proof (Q_current r1 r2 Q2) as Q3. destruct (current r2) as [c2 r3]. cbn [snd] in Q3.
  destruct (negb (c2 =? 93)); [cbn [fst]; rewrite spanValid_null; discriminate|].
  pose proof (Q_next r1 r3 Q3) as Q4. destruct (next r3) as [ok4 r4]. cbn [fst snd] in *.
  intros _. split; [exact Ep0|]. rewrite <- Ep0. eapply LB_adv; [exact L1|apply Q4].
Qed.

(* plain "good/adv" forms of the other scanners *)
Lemma good_current' r : good r -> good (snd (current r)) /\ adv r (snd (current r)). Proof. apply good_current. Qed.
Lemma good_next' r : good r -> good (snd (next r)) /\ adv r (snd (next r)).
Proof. intros H. destruct (good_next r H) as (A & B & _). tauto. Qed.
Lemma good_skipLinkSpace fuel r : good r -> good (snd (skipLinkSpace fuel r)) /\ adv r (snd (skipLinkSpace fuel r)).
Proof. apply (good_op (fun x => snd (skipLinkSpace fuel x))). intros r0 x. apply Q_skipLinkSpace. Qed.
Lemma good_parseLinkDestination fuel r : good r -> good (snd (parseLinkDestination fuel r)) /\ adv r (snd (parseLinkDestination fuel r)).
Proof. apply (good_op (fun x => snd (parseLinkDestination fuel x))). intros r0 x. apply Q_parseLinkDestination. Qed.
Lemma good_parseLinkTitle fuel r : good r -> good (snd (parseLinkTitle fuel r)) /\ adv r (snd (parseLinkTitle fuel r)).
Proof. apply (good_op (fun x => snd (parseLinkTitle fuel x))). intros r0 x. apply Q_parseLinkTitle. Qed.
