From Coq Require Import List ZArith Lia Bool.
Import ListNotations.
Require Import Base Tree Rdr Link Collect Html Recog LP Rules Starts Driver L2Kind L2CC BSDef BSRdr BSTree BSOcp BSOrph BSClose BSLine1 BSLine2 BSLine3 BSLine4 BSLine5 BSLine6.
Require Import EolCRLFSimTree EolCRLFSimLeDefs EolCRLFSimLe EolCRLFSimStream EolCRLFSimCtDef EolCRLFSimCtClose EolCRLFSimCtLine3.
Open Scope Z_scope.

(* the block starts, except the setext heading: BSLine5/BSLine6 replayed for the combined invariants *)
Definition LI2X (p : lp) : Prop := LIX p \/ (acceptsLines (containerKind p) = true /\ containerKind p <> ParagraphKind).
Definition startOKX (f : lp -> lp) : Prop :=
  forall p, st_open p -> OPX p -> LIX p -> OPX (f p) /\ LI2X (f p) /\ (LIX (f p) \/ ms (f p)).

Lemma LIX_pre p kind : ccP p -> LIX p -> kind <> ListItemKind ->
  canContain (containerKind p) kind = true \/ (kind <> ListItemKind /\ cleanCX p).
Proof.
  intros D [H He] N. destruct (wf_le p (cdepth p) D ltac:(lia)) as (x & Ex).
  assert (Hw : wide (bkind x) -> canContain (containerKind p) kind = true).
  { intros Wd. rewrite (containerKind_at p x Ex). apply wide_accepts; assumption. }
  destruct (H x Ex) as [S|Wd]; [|left; apply Hw, Wd]. destruct (He x Ex) as [Se|Wd]; [|left; apply Hw, Wd].
  right. split; [exact N|]. split; intros x' Ex'; rewrite Ex in Ex'; inversion Ex'; subst x'; assumption.
Qed.
Lemma LIX_of_ckind p K : ckind p K -> wide K -> LIX p.
Proof. intros Hc Hw. split; intros x Ex; right; rewrite (Hc x Ex); exact Hw. Qed.

(* a freshly opened block of kind K after consuming the indentation *)
Lemma open_freshX p ind K : st_open p -> OPX p -> LIX p -> K <> ListItemKind -> K <> SetextHeadingKind ->
  let q := openBlock (consumeIndent p ind) K in OPX q /\ ckind q K /\ state q = stOpenMatched.
Proof.
  intros Hs H HL N1 N2 q. pose proof (cstep_consumeIndent p ind) as Hc.
  assert (S1 : st_open (consumeIndent p ind)) by (apply st_open_consumeIndent, Hs).
  assert (H1 : OPX (consumeIndent p ind)) by (eapply OPX_cstep; eassumption).
  assert (L1 : LIX (consumeIndent p ind)) by (eapply LIX_cstep; eassumption).
  split; [|split; [apply ckind_openBlock, S1|apply state_openBlock, S1]].
  apply OPX_openBlock; [exact H1|exact S1|exact N2|]. apply LIX_pre; [apply H1|exact L1|exact N1].
Qed.

Lemma sOKX_startBlockQuote : startOKX startBlockQuote.
Proof.
  intros p Hs H HL. unfold startBlockQuote. cbv zeta.
  assert (Same : OPX p /\ LI2X p /\ (LIX p \/ ms p)) by (split; [exact H|split; [left; exact HL|left; exact HL]]).
  destruct (_ <=? _); [exact Same|]. destruct (negb _); [exact Same|].
  destruct (open_freshX p (indent p) BlockQuoteKind Hs H HL ltac:(discriminate) ltac:(discriminate)) as (A & B & _).
  set (q := openBlock (consumeIndent p (indent p)) BlockQuoteKind) in *.
  assert (Hc : cstep q (if 0 <? indent (advance q 1) then consumeIndent (advance q 1) 1 else advance q 1)).
  { destruct (0 <? _); [eapply cstep_trans; [apply cstep_advance|apply cstep_consumeIndent]|apply cstep_advance]. }
  assert (L : LIX (if 0 <? indent (advance q 1) then consumeIndent (advance q 1) 1 else advance q 1)).
  { eapply LIX_of_ckind; [eapply ckind_cstep; eassumption|right; left; reflexivity]. }
  split; [eapply OPX_cstep; eassumption|split; [left; exact L|left; exact L]].
Qed.

Lemma sOKX_startATX : startOKX startATX.
Proof.
  intros p Hs H HL. unfold startATX. cbv zeta.
  assert (Same : OPX p /\ LI2X p /\ (LIX p \/ ms p)) by (split; [exact H|split; [left; exact HL|left; exact HL]]).
  destruct (_ <=? _); [exact Same|]. destruct (parseATXHeading _) as [[level cs] ce]. destruct (level <? 1); [exact Same|].
  destruct (open_freshX p (indent p) ATXHeadingKind Hs H HL ltac:(discriminate) ltac:(discriminate)) as (A & B & C).
  set (q := openBlock (consumeIndent p (indent p)) ATXHeadingKind) in *.
  set (q1 := updCont q (fun b => set_bn b level)).
  assert (A1 : OPX q1) by (apply OPX_field; [exact A|apply keeps_bn|intros M x; apply sp_set_bn|intros M x; apply ct_set_bn]).
  assert (B1 : ckind q1 ATXHeadingKind) by (apply ckind_updCont; [intros b; apply bkind_set_bn|exact B]).
  assert (M1 : ms q1) by (apply ms_state; exact C).
  set (q2 := advance q1 cs).
  assert (A2 : OPX q2) by (eapply OPX_cstep; [apply cstep_advance|exact A1]).
  assert (B2 : ckind q2 ATXHeadingKind) by (eapply ckind_cstep; [apply cstep_advance|exact B1]).
  assert (M2 : ms q2) by (eapply ms_sstep; [apply sstep_advance|exact M1]).
  destruct (OPX_collectInline q2 UnparsedKind (ce - cs) ATXHeadingKind A2 B2 ltac:(discriminate)) as [A3 B3].
  assert (M3 : ms (collectInline q2 UnparsedKind (ce - cs))) by (eapply ms_sstep; [apply sstep_collectInline|exact M2]).
  set (q3 := collectInline q2 UnparsedKind (ce - cs)) in *.
  assert (A4 : OPX (consumeLine q3)) by (eapply OPX_cstep; [apply cstep_consumeLine|exact A3]).
  assert (B4 : ckind (consumeLine q3) ATXHeadingKind) by (eapply ckind_cstep; [apply cstep_consumeLine|exact B3]).
  destruct (ms_consumeLine q3 (ms_nd _ M3)) as [_ N4].
  destruct (OPX_endBlock _ ATXHeadingKind A4 N4 B4 ltac:(discriminate) ltac:(discriminate)) as [A5 L5].
  specialize (L5 ltac:(discriminate)). split; [exact A5|split; [left; exact L5|left; exact L5]].
Qed.

Lemma LI2X_of_ckind p K : ccP p -> ckind p K -> acceptsLines K = true -> K <> ParagraphKind -> LI2X p.
Proof. intros D Hc Ha N. right. rewrite (containerKind_of p K D Hc). tauto. Qed.

Lemma sOKX_startFenced : startOKX startFenced.
Proof.
  intros p Hs H HL. unfold startFenced. cbv zeta.
  assert (Same : OPX p /\ LI2X p /\ (LIX p \/ ms p)) by (split; [exact H|split; [left; exact HL|left; exact HL]]).
  destruct (_ <=? _); [exact Same|]. destruct (parseCodeFence _) as [[[fc fnn] is_] ie]. destruct (fnn =? 0); [exact Same|].
  destruct (open_freshX p (indent p) FencedCodeBlockKind Hs H HL ltac:(discriminate) ltac:(discriminate)) as (A & B & C).
  set (q := openBlock (consumeIndent p (indent p)) FencedCodeBlockKind) in *.
  set (q1 := updCont q (fun b => set_bn (set_bchar b fc) fnn)).
  assert (A1 : OPX q1) by (apply OPX_field; [exact A|apply keeps_fence|intros M x Hx; apply sp_set_bn, sp_set_bchar, Hx|intros M x Hx; apply ct_set_bn, ct_set_bchar, Hx]).
  assert (B1 : ckind q1 FencedCodeBlockKind) by (apply ckind_updCont; [intros b; destruct b; reflexivity|exact B]).
  set (q2 := updCont q1 (fun b => set_bindent b (indent p))).
  assert (A2 : OPX q2) by (apply OPX_field; [exact A1|apply keeps_bindent|intros M x; apply sp_set_bindent|intros M x; apply ct_set_bindent]).
  assert (B2 : ckind q2 FencedCodeBlockKind) by (apply ckind_updCont; [intros b; apply bkind_set_bindent|exact B1]).
  assert (M2 : ms q2) by (apply ms_state; exact C).
  set (q3 := if spanValid (is_, ie) then collectInline (advance q2 is_) InfoStringKind (ie - is_) else q2).
  assert (H3 : OPX q3 /\ ckind q3 FencedCodeBlockKind /\ ms q3).
  { unfold q3. destruct (spanValid _); [|tauto].
    assert (Aa : OPX (advance q2 is_)) by (eapply OPX_cstep; [apply cstep_advance|exact A2]).
    assert (Ba : ckind (advance q2 is_) FencedCodeBlockKind) by (eapply ckind_cstep; [apply cstep_advance|exact B2]).
    destruct (OPX_collectInline _ InfoStringKind (ie - is_) FencedCodeBlockKind Aa Ba ltac:(discriminate)) as [P1 P2].
    split; [exact P1|split; [exact P2|]]. eapply ms_sstep; [apply sstep_collectInline|]. eapply ms_sstep; [apply sstep_advance|exact M2]. }
  destruct H3 as (A3 & B3 & M3).
  assert (A4 : OPX (consumeLine q3)) by (eapply OPX_cstep; [apply cstep_consumeLine|exact A3]).
  assert (B4 : ckind (consumeLine q3) FencedCodeBlockKind) by (eapply ckind_cstep; [apply cstep_consumeLine|exact B3]).
  destruct (ms_consumeLine q3 (ms_nd _ M3)) as [M4 _].
  split; [exact A4|split; [|right; exact M4]]. eapply LI2X_of_ckind; [apply A4|exact B4|reflexivity|discriminate].
Qed.

Lemma sOKX_startHTML : startOKX startHTML.
Proof.
  intros p Hs H HL. unfold startHTML. cbv zeta.
  assert (Same : OPX p /\ LI2X p /\ (LIX p \/ ms p)) by (split; [exact H|split; [left; exact HL|left; exact HL]]).
  destruct (_ <=? _); [exact Same|]. destruct (negb _); [exact Same|]. destruct (_ <? 0); [exact Same|]. destruct (negb _ && _); [exact Same|].
  set (i := firstHtmlCond 0 7 (bytesAfterIndent p)).
  assert (A : OPX (openBlock p HTMLBlockKind)).
  { apply OPX_openBlock; [exact H|exact Hs|discriminate|]. apply LIX_pre; [apply H|exact HL|discriminate]. }
  pose proof (ckind_openBlock p HTMLBlockKind Hs) as B. pose proof (state_openBlock p HTMLBlockKind Hs) as C.
  set (q := openBlock p HTMLBlockKind) in *.
  set (q1 := updCont q (fun b => set_bn b i)).
  assert (A1 : OPX q1) by (apply OPX_field; [exact A|apply keeps_bn|intros M x; apply sp_set_bn|intros M x; apply ct_set_bn]).
  assert (B1 : ckind q1 HTMLBlockKind) by (apply ckind_updCont; [intros b; apply bkind_set_bn|exact B]).
  assert (M1 : ms q1) by (apply ms_state; exact C).
  destruct (htmlEnd _ _).
  - destruct (OPX_collectInline q1 RawHTMLKind (len (bytesAfterIndent q1)) HTMLBlockKind A1 B1 ltac:(discriminate)) as [A3 B3].
    assert (M3 : ms (collectInline q1 RawHTMLKind (len (bytesAfterIndent q1)))) by (eapply ms_sstep; [apply sstep_collectInline|exact M1]).
    set (q3 := collectInline q1 RawHTMLKind (len (bytesAfterIndent q1))) in *.
    assert (A4 : OPX (consumeLine q3)) by (eapply OPX_cstep; [apply cstep_consumeLine|exact A3]).
    assert (B4 : ckind (consumeLine q3) HTMLBlockKind) by (eapply ckind_cstep; [apply cstep_consumeLine|exact B3]).
    destruct (ms_consumeLine q3 (ms_nd _ M3)) as [_ N4].
    destruct (OPX_endBlock _ HTMLBlockKind A4 N4 B4 ltac:(discriminate) ltac:(discriminate)) as [A5 L5].
    specialize (L5 ltac:(discriminate)). split; [exact A5|split; [left; exact L5|left; exact L5]].
  - split; [exact A1|split; [|right; exact M1]]. eapply LI2X_of_ckind; [apply A1|exact B1|reflexivity|discriminate].
Qed.

Lemma sOKX_startThematic : startOKX startThematic.
Proof.
  intros p Hs H HL. unfold startThematic. cbv zeta.
  assert (Same : OPX p /\ LI2X p /\ (LIX p \/ ms p)) by (split; [exact H|split; [left; exact HL|left; exact HL]]).
  destruct (_ <=? _); [exact Same|]. destruct (_ <? 0); [exact Same|].
  destruct (open_freshX p (indent p) ThematicBreakKind Hs H HL ltac:(discriminate) ltac:(discriminate)) as (A & B & C).
  set (q := openBlock (consumeIndent p (indent p)) ThematicBreakKind) in *.
  set (q2 := advance q (parseThematicBreak (bytesAfterIndent p))).
  assert (A2 : OPX q2) by (eapply OPX_cstep; [apply cstep_advance|exact A]).
  assert (B2 : ckind q2 ThematicBreakKind) by (eapply ckind_cstep; [apply cstep_advance|exact B]).
  assert (M2 : ms q2) by (eapply ms_sstep; [apply sstep_advance|apply ms_state; exact C]).
  assert (A4 : OPX (consumeLine q2)) by (eapply OPX_cstep; [apply cstep_consumeLine|exact A2]).
  assert (B4 : ckind (consumeLine q2) ThematicBreakKind) by (eapply ckind_cstep; [apply cstep_consumeLine|exact B2]).
  destruct (ms_consumeLine q2 (ms_nd _ M2)) as [_ N4].
  destruct (OPX_endBlock _ ThematicBreakKind A4 N4 B4 ltac:(discriminate) ltac:(discriminate)) as [A5 L5].
  specialize (L5 ltac:(discriminate)). split; [exact A5|split; [left; exact L5|left; exact L5]].
Qed.

Lemma sOKX_startIndented : startOKX startIndented.
Proof.
  intros p Hs H HL. unfold startIndented.
  assert (Same : OPX p /\ LI2X p /\ (LIX p \/ ms p)) by (split; [exact H|split; [left; exact HL|left; exact HL]]).
  destruct (_ || _ || _); [exact Same|].
  destruct (open_freshX p codeBlockIndentLimit IndentedCodeBlockKind Hs H HL ltac:(discriminate) ltac:(discriminate)) as (A & B & C).
  split; [exact A|split; [|right; apply ms_state; exact C]]. eapply LI2X_of_ckind; [apply A|exact B|reflexivity|discriminate].
Qed.

Lemma fin_bindentX q v : OPX q -> LIX q -> OPX (updCont q (fun b => set_bindent b v)) /\ LIX (updCont q (fun b => set_bindent b v)).
Proof.
  intros A L. split; [apply OPX_field; [exact A|apply keeps_bindent|intros M x; apply sp_set_bindent|intros M x; apply ct_set_bindent]|].
  apply LIX_updCont_field; [apply keeps_bindent|intros M x; apply sp_set_bindent|intros M x; apply ct_set_bindent|exact L].
Qed.

Lemma sOKX_startListItem : startOKX startListItem.
Proof.
  intros p Hs H HL. unfold startListItem. cbv zeta.
  assert (Same : OPX p /\ LI2X p /\ (LIX p \/ ms p)) by (split; [exact H|split; [left; exact HL|left; exact HL]]).
  destruct (_ <=? _); [exact Same|].
  destruct (parseListMarker _) as [[delim n] mend]. destruct (_ || _); [exact Same|]. destruct (_ && _); [exact Same|]. clear Same.
  set (p1 := consumeIndent p (indent p)).
  pose proof (cstep_consumeIndent p (indent p)) as Hc1. fold p1 in Hc1.
  assert (H1 : OPX p1) by (eapply OPX_cstep; eassumption). assert (L1 : LIX p1) by (eapply LIX_cstep; eassumption).
  assert (S1 : st_open p1) by (apply st_open_consumeIndent, Hs).
  set (cdelim := if (containerKind p1 =? ListKind) || (containerKind p1 =? ListItemKind) then bchar (contBlock p1) else 0).
  set (p2 := if negb (containerKind p1 =? ListKind) || negb (cdelim =? delim) then _ else p1).
  assert (H2 : OPX p2 /\ containerKind p2 = ListKind /\ st_open p2).
  { unfold p2. destruct (negb (containerKind p1 =? ListKind) || negb (cdelim =? delim)) eqn:Ec.
    - assert (A : OPX (openBlock p1 ListKind)).
      { apply OPX_openBlock; [exact H1|exact S1|discriminate|]. apply LIX_pre; [apply H1|exact L1|discriminate]. }
      assert (A' : OPX (updCont (openBlock p1 ListKind) (fun b => set_bchar b delim))) by (apply OPX_field; [exact A|apply keeps_bchar|intros M x; apply sp_set_bchar|intros M x; apply ct_set_bchar]).
      split; [exact A'|split].
      + apply containerKind_of; [apply A'|]. apply ckind_updCont; [intros b; apply bkind_set_bchar|]. apply ckind_openBlock, S1.
      + apply st_open_state. apply (state_openBlock p1 ListKind S1).
    - apply orb_false_iff in Ec. destruct Ec as [Ec _]. apply negb_false_iff, Z.eqb_eq in Ec. tauto. }
  destruct H2 as (H2 & K2 & S2).
  set (p3 := updCont (openBlock p2 ListItemKind) (fun b => set_bchar b delim)).
  assert (A3o : OPX (openBlock p2 ListItemKind)).
  { apply OPX_openBlock; [exact H2|exact S2|discriminate|]. left. rewrite K2. reflexivity. }
  assert (A3 : OPX p3) by (apply OPX_field; [exact A3o|apply keeps_bchar|intros M x; apply sp_set_bchar|intros M x; apply ct_set_bchar]).
  assert (B3 : ckind p3 ListItemKind) by (apply ckind_updCont; [intros b; apply bkind_set_bchar|apply ckind_openBlock, S2]).
  assert (S3 : st_open p3) by (apply st_open_state; apply (state_openBlock p2 ListItemKind S2)).
  assert (K3 : containerKind p3 = ListItemKind) by (apply containerKind_of; [apply A3|exact B3]).
  set (p4 := openBlock p3 ListMarkerKind).
  assert (A4 : OPX p4) by (apply OPX_openBlock; [exact A3|exact S3|discriminate|left; rewrite K3; reflexivity]).
  assert (B4 : ckind p4 ListMarkerKind) by (apply ckind_openBlock, S3).
  assert (M4 : ms p4) by (apply ms_state; apply (state_openBlock p3 ListMarkerKind S3)).
  set (p5 := advance p4 mend).
  assert (A5 : OPX p5) by (eapply OPX_cstep; [apply cstep_advance|exact A4]).
  assert (B5 : ckind p5 ListMarkerKind) by (eapply ckind_cstep; [apply cstep_advance|exact B4]).
  assert (M5 : ms p5) by (eapply ms_sstep; [apply sstep_advance|exact M4]).
  destruct (OPX_endBlock p5 ListMarkerKind A5 (ms_nd _ M5) B5 ltac:(discriminate) ltac:(discriminate)) as [Aq Lq].
  specialize (Lq ltac:(discriminate)). set (q := endBlock p5) in *.
  assert (Fin : forall q' v, cstep q q' -> let r := updCont q' (fun b => set_bindent b v) in OPX r /\ LI2X r /\ (LIX r \/ ms r)).
  { intros q' v Hc r. destruct (fin_bindentX q' v ltac:(eapply OPX_cstep; eassumption) ltac:(eapply LIX_cstep; eassumption)) as [P1 P2].
    split; [exact P1|split; [left; exact P2|left; exact P2]]. }
  destruct (isRestBlank q).
  - destruct (fin_bindentX q (indent p + mend + 1) Aq Lq) as [P1 P2].
    pose proof (cstep_consumeLine (updCont q (fun b => set_bindent b (indent p + mend + 1)))) as Hc.
    split; [eapply OPX_cstep; eassumption|]. assert (L : LIX (consumeLine (updCont q (fun b => set_bindent b (indent p + mend + 1))))) by (eapply LIX_cstep; eassumption).
    split; [left; exact L|left; exact L].
  - destruct (indent q <? 1); [apply Fin, cstep_refl|]. destruct (4 <? indent q); apply Fin, cstep_consumeIndent.
Qed.
