(* IFullDefs.v -- T71: the list-item clause of C09 after the inline pass and through the renderer: definitions and statements.
   The map of the blocks is ItemSimDefs.iB with the inline map qI3 D (sigmaK K D): positions by sigmaK, ends by the end map, and Text AND
   RawHTML nodes that span several lines cut after every line feed (as QFullDefs.qI3D for the block quote). *)
From Coq Require Import List ZArith Lia Bool.
Import ListNotations.
Require Import Base Tree Recog LP Driver Inl3e Render QuoteSimDefs ItemSimDefs QCutsDef QIRdrBase QInlDefs.
Open Scope Z_scope.

Definition iI3 (K : Z) (D : bytes) : inline -> list inline := qI3 D (sigmaK K D).
Fixpoint iB3 (K : Z) (D : bytes) (b : block) : block :=
  match b with Blk k s e bk ik a nn c l lb =>
    Blk k (sigmaK K D s) (epsBK K D e) (map (iB3 K D) bk) (flat_map (iI3 K D) ik) a nn c l lb end.
Definition itemKids3 (K : Z) (D : bytes) (roots : list rootB) : list block :=
  map (fun r => iB3 K D (shiftB (rb_start r) (rb_blk r))) roots.

(* the hypotheses of ItemSimDefs.parseBlocks_item_statement *)
Definition itemHyps (mk : bytes) (delim N : Z) (D : bytes) : Prop :=
  (bulletMk mk delim \/ orderedMk mk delim) /\ 1 <= N <= 4 /\ tabFreeD D /\ okDoc D /\
  Recog.parseThematicBreak (mk ++ spaces N ++ firstLine D) < 0.

(* (1) the tree after the inline pass; the looseness is the one of the block layer (looseOf of the children before the inline pass;
   the inline pass does not change it) *)
Definition parseFull_item_statement : Prop := forall mk delim N D, itemHyps mk delim N D ->
  let K := len mk + N in
  exists lbL lbI, parseFull (item mk N D) =
    ([itemRoot mk N delim D (looseOf (itemKids K D (fst (parseBlocks D)))) lbL lbI (itemKids3 K D (fst (parseFull D)))], 0).

(* (2) the renderer: the root blocks of D rendered below a parent that is tight or not *)
Definition renderPiecesT (c : cfg) (D : bytes) (tight : bool) : list bytes :=
  let '(roots, _) := parseFull D in
  let refs := fold_left (fun a r => extractDefs (bheight (rb_blk r)) (rb_src r) (rb_blk r) a) roots [] in
  map (fun r => renderB (bheight (rb_blk r)) c refs (rb_src r) tight (rb_blk r)) roots.
Definition s_li : bytes := [108;105].
Definition s_ul : bytes := [117;108].
Definition s_ol : bytes := [111;108].
(* the number of an ordered marker ds ++ [delim] *)
Definition mkNumber (mk : bytes) : Z := fold_left (fun a c => a * 10 + (c - 48)) (removelast mk) 0.
Definition listOpen (c : cfg) (mk : bytes) (delim : Z) : bytes :=
  if (delim =? 46) || (delim =? 41) then
    let n := mkNumber mk in
    openTagAttr c s_ol ++ (if negb (n =? 1) then [32;115;116;97;114;116;61;34] ++ decimal 12 n ++ [34] else []) ++ [62]
  else openTag c s_ul.
Definition listClose (c : cfg) (delim : Z) : bytes := if (delim =? 46) || (delim =? 41) then closeTag c s_ol else closeTag c s_ul.

Definition renderDoc_item_statement : Prop := forall c mk delim N D, ignoreRaw c = true -> itemHyps mk delim N D ->
  let K := len mk + N in
  let loose := looseOf (itemKids K D (fst (parseBlocks D))) in
  renderDoc c (item mk N D) =
    listOpen c mk delim ++ openTag c s_li ++ concat (renderPiecesT c D (negb loose)) ++ closeTag c s_li ++ listClose c delim.
