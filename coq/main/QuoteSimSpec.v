(* QuoteSimSpec.v -- T51: the map MO of the simulation theorem is the map qB of the statement (QuoteSimDefs), on every root block
   of a document without '[' : every inline entry of such a block lies within one line of D (this is part of the content
   invariant ceI of the simulation), so translating it as a whole is the same as mapping its two ends. *)
From Coq Require Import List ZArith Lia Bool.
Import ListNotations.
Require Import Base Tree LP Driver Props SliceBase L2BndS BShDef BlockShapes QuoteSimDefs QuoteSimNest QuoteSimMap QuoteSimReloc QuoteSimAux QuoteSimLines QuoteSimDrv1 QuoteSimDrv4.
Open Scope Z_scope.

(* ---- the number of line feeds before a position ---- *)
Lemma firstn_snoc : forall (l : bytes) n, (n < length l)%nat -> firstn (S n) l = firstn n l ++ [nth n l 0].
Proof.
  induction l as [|c l IH]; intros n H; [cbn in H; lia|]. destruct n as [|n]; [reflexivity|]. cbn [firstn nth app]. rewrite <- IH by (cbn in H; lia). reflexivity.
Qed.
Lemma nl_succ D p : 0 <= p < len D -> nl D (p + 1) = nl D p + (if at_ D p =? 10 then 1 else 0).
Proof.
  intros H. unfold nl, upto, at_, len in *. destruct (Z.ltb_spec p 0); [exfalso; lia|]. replace (Z.to_nat (p + 1)) with (S (Z.to_nat p)) by lia.
  rewrite firstn_snoc by lia. rewrite nlc_app. cbn [nlc]. lia.
Qed.
Lemma nl_const_noLF D a b : 0 <= a -> b <= len D -> nl D b = nl D a -> forall q, a <= q < b -> at_ D q <> 10.
Proof.
  intros Ha Hb E q Hq E10. pose proof (nl_mono D a q ltac:(lia)). pose proof (nl_mono D (q + 1) b ltac:(lia)).
  pose proof (nl_succ D q ltac:(lia)) as S1. rewrite E10 in S1. change (10 =? 10) with true in S1. cbv iota in S1. lia.
Qed.
Lemma Forall_at (P : Z -> Prop) (l : bytes) i : Forall P l -> 0 <= i < len l -> P (at_ l i).
Proof.
  intros H Hi. unfold at_. destruct (Z.ltb_spec i 0); [lia|]. rewrite Forall_forall in H. apply H, nth_In. unfold len in Hi. lia.
Qed.
Lemma lineEnd_ge D s e : noCR D -> 0 <= s -> s < e <= len D -> nl D (e - 1) = nl D s -> e <= lineEnd D s.
Proof.
  intros Hcr Hs He E. destruct (lineEnd_spec D s ltac:(lia)) as [A B]. destruct (Z.lt_ge_cases (lineEnd D s) e) as [L|L]; [exfalso|exact L].
  destruct (B ltac:(lia)) as [B1 B2]. set (q := lineEnd D s - 1) in *.
  assert (H13 : at_ D q <> 13) by (apply (Forall_at (fun c => c <> 13)); [exact Hcr|unfold q; lia]).
  assert (H10 : at_ D q <> 10) by (apply (nl_const_noLF D s (e - 1)); [lia|lia|exact E|unfold q; lia]).
  unfold isEOLb in B2. apply orb_true_iff in B2. destruct B2 as [B2|B2]; apply Z.eqb_eq in B2; contradiction.
Qed.
Lemma splitAt_one D fuel s e : e <= lineEnd D s -> splitAt D fuel s e = [(s, e)].
Proof.
  intros H. destruct fuel as [|f]; [reflexivity|]. cbn [splitAt]. cbv zeta. destruct (Z.ltb_spec (lineEnd D s) e); [lia|]. rewrite andb_false_r. reflexivity.
Qed.

(* ---- one entry whose span lies in one line ---- *)
Lemma qI_one D k a b ind r kids : noCR D -> 0 <= a <= b -> b <= len D -> (a < b -> nl D (b - 1) = nl D a) ->
  qI D (Inl k a b ind r kids) = [Inl k (sigma D a) (sigma D a + (b - a)) ind r (flat_map (qI D) kids)].
Proof.
  intros Hcr Ha Hb Hl. cbn [qI]. cbv zeta.
  assert (Ee : epsilon D a b = sigma D a + (b - a)).
  { unfold epsilon. destruct (Z.ltb_spec b 0); [lia|]. destruct (Z.ltb_spec a b) as [L|L]; [|lia]. unfold sigma. rewrite (Hl L). lia. }
  destruct ((k =? TextKind) && (a <? b)) eqn:Et; [|rewrite Ee; reflexivity].
  apply andb_true_iff in Et. destruct Et as [_ Et]. apply Z.ltb_lt in Et.
  rewrite splitAt_one by (apply lineEnd_ge; [exact Hcr|lia|lia|apply Hl, Et]). cbn [map fst snd]. rewrite Ee. reflexivity.
Qed.

Section Ent.
  Variables (D : bytes) (o : Z).
  Hypothesis D_cr : noCR D.
  Hypothesis o_nonneg : 0 <= o.

  Lemma sgO_nn x : 0 <= x -> sgO D o x = sigma D (o + x).
  Proof. intros H. unfold sgO. cbv zeta. destruct (Z.ltb_spec (o + x) 0); [lia|reflexivity]. Qed.

  Lemma rI_qI sD sQ u : len sD <= len D - o -> ceI sD sQ (sgO D o) u -> qI D (shiftI o u) = [rI (sgO D o) idI u].
  Proof.
    intros HsD (Hk & Hin & Hse & He & _ & _ & _ & Hkin & Hline). unfold rI. rewrite Hk.
    destruct u as [k s e ind r kids]. cbn [istart iend ikind ikids] in *. unfold insideI, kidsIn in *. cbn [istart iend ikids] in *.
    assert (Hnl : forall x, s <= x < e -> nl D (o + x) = nl D (o + s)).
    { intros x Hx. pose proof (Hline x Hx) as E. rewrite !sgO_nn in E by lia. unfold sigma in E. lia. }
    cbn [shiftI mvI]. destruct (Z.leb_spec 0 e); [|lia].
    rewrite qI_one; [|exact D_cr|lia|lia|intros L; replace (e + o - 1) with (o + (e - 1)) by lia; replace (s + o) with (o + s) by lia; apply Hnl; lia].
    rewrite sgO_nn by lia. replace (s + o) with (o + s) by lia. f_equal. f_equal; try lia.
    (* the children *)
    rewrite Forall_forall in Hin, Hkin. rewrite flat_map_concat_map, map_map.
    assert (Ek : map (fun x => qI D (shiftI o x)) kids = map (fun x => [mvI (sigma D (o + s) - s) x]) kids).
    { apply map_ext_in. intros c Hc. destruct (Hin c Hc) as (_ & _ & Hck). destruct (Hkin c Hc) as (K1 & K2 & K3).
      destruct c as [kk sk ek ik rk kk']. cbn [istart iend ikids] in *. subst kk'. cbn [shiftI mvI map]. destruct (Z.leb_spec 0 ek); [|lia].
      rewrite qI_one; [|exact D_cr|lia|lia|intros _; replace (ek + o - 1) with (o + (ek - 1)) by lia; replace (sk + o) with (o + sk) by lia; rewrite (Hnl (ek - 1)), (Hnl sk) by lia; reflexivity].
      cbn [flat_map]. pose proof (Hline sk ltac:(lia)) as E. rewrite !sgO_nn in E by lia. replace (sk + o) with (o + sk) by lia. rewrite E. f_equal. f_equal; lia. }
    rewrite Ek. clear. induction kids as [|c kids IH]; [reflexivity|]. cbn [map concat app]. rewrite IH. reflexivity.
  Qed.

  (* every block node has a closed, non-negative span *)
  Fixpoint nnB (b : block) : Prop :=
    match b with Blk _ s e bk _ _ _ _ _ _ => 0 <= s /\ 0 <= e /\ (fix go (l : list block) : Prop := match l with [] => True | x :: r => nnB x /\ go r end) bk end.
  Lemma nnB_eq b : nnB b <-> 0 <= bstart b /\ 0 <= bend b /\ Forall nnB (bkids b).
  Proof.
    destruct b as [k s e bk ik a n c l lb0]. cbn [nnB bstart bend bkids].
    assert (E : forall l0, (fix go (l : list block) : Prop := match l with [] => True | x :: r => nnB x /\ go r end) l0 <-> Forall nnB l0).
    { induction l0 as [|x r IH]; [split; [constructor|exact (fun _ => I)]|]. split.
      - intros [A B]. constructor; [exact A|apply IH, B].
      - intros H. inversion H as [|? ? Ha Hb]. split; [exact Ha|apply IH; exact Hb]. }
    split; intros (A & B & C); (split; [exact A|split; [exact B|apply E, C]]).
  Qed.

  Lemma MO_qB sD sQ : len sD <= len D - o -> forall b, nnB b -> ceB sD sQ (sgO D o) b -> MO D o b = qB D (shiftB o b).
  Proof.
    intros HsD. apply (block_kids_ind (fun b => nnB b -> ceB sD sQ (sgO D o) b -> MO D o b = qB D (shiftB o b))). intros b IH Hn Hc.
    apply nnB_eq in Hn. destruct Hn as (N1 & N2 & N3). apply ceB_eq in Hc. destruct Hc as (_ & Ci & Ck).
    destruct b as [k s e bk ik a n c l lb0]. cbn [bstart bend bkids bik] in *. unfold MO. cbn [rB shiftB qB].
    destruct (Z.leb_spec 0 e); [|lia]. f_equal.
    - rewrite sgO_nn by lia. f_equal. lia.
    - unfold eBO. destruct (Z.ltb_spec e 0); [lia|]. f_equal. lia.
    - rewrite map_map. apply map_ext_in. intros x Hx. unfold ceL in Ck. rewrite Forall_forall in N3, Ck. apply (IH x Hx (N3 x Hx) (Ck x Hx)).
    - rewrite flat_map_concat_map, map_map.
      assert (Ek : map (fun x => qI D (shiftI o x)) ik = map (fun x => [rI (sgO D o) idI x]) ik).
      { apply map_ext_in. intros u Hu. rewrite Forall_forall in Ci. apply (rI_qI sD sQ u HsD (Ci u Hu)). }
      rewrite Ek. clear. induction ik as [|u ik IH]; [reflexivity|]. cbn [map concat app]. rewrite <- IH. reflexivity.
  Qed.
End Ent.

(* ---- span validity of every node, from the block-shape theorem of the development ---- *)
Lemma bshapes_nnB src : forall b, bshapes src b = true -> nnB b.
Proof.
  apply (block_kids_ind (fun b => bshapes src b = true -> nnB b)). intros b IH H.
  destruct b as [k s e bk ik a n c l lb0]. cbn [bshapes bstart bend bkids] in *. apply andb_true_iff in H. destruct H as [H Hk]. apply andb_true_iff in H. destruct H as [H _].
  unfold span_valid in H. apply andb_true_iff in H. destruct H as [H _]. apply andb_true_iff in H. destruct H as [H1 H2]. apply Z.leb_le in H1, H2.
  apply nnB_eq. cbn [bstart bend bkids]. split; [lia|]. split; [lia|]. rewrite forallb_forall in Hk. apply Forall_forall. intros x Hx. apply (IH x Hx (Hk x Hx)).
Qed.

Lemma er_set_blast b v : er (set_blast b v) = er b. Proof. destruct b; reflexivity. Qed.
Lemma er_quoteKids D : forall roots, map er (quoteKids D roots) = map er (map (fun r => qB D (shiftB (rb_start r) (rb_blk r))) roots).
Proof.
  induction roots as [|r rest IH]; [reflexivity|]. cbn [quoteKids map]. cbv zeta. rewrite IH. f_equal.
  destruct (rb_end r <? _); [apply er_set_blast|reflexivity].
Qed.

(* ---- the statement of QuoteSimDefs for documents without '[', up to the lastLineBlank flag of the top-level children ---- *)
Theorem parseBlocks_quote_no91_partial : forall D, tabFree D -> no91 D -> D <> [] ->
  exists lb kidsQ, parseBlocks (quote D) = ([quoteRoot D lb kidsQ], 0) /\ map er kidsQ = map er (quoteKids D (fst (parseBlocks D))).
Proof.
  intros D HT H91 Hne.
  assert (H9 : noTab D) by (unfold tabFree in HT; unfold noTab; eapply Forall_impl; [|exact HT]; cbv beta; tauto).
  assert (H13 : noCR D) by (unfold tabFree in HT; unfold noCR; eapply Forall_impl; [|exact HT]; cbv beta; tauto).
  assert (H0 : noNul D) by (unfold tabFree in HT; unfold noNul; eapply Forall_impl; [|exact HT]; cbv beta; tauto).
  destruct (parseBlocks_quote_sim D H9 H13 H91 H0 Hne) as (lb & kidsQ & E & K & G). exists lb, kidsQ. split; [exact E|].
  rewrite K, er_quoteKids. f_equal. unfold doneOf.
  assert (Hz : forallb (fun c => negb (c =? 0)) D = true).
  { apply forallb_forall. intros c Hc. unfold noNul in H0. rewrite Forall_forall in H0. apply negb_true_iff, Z.eqb_neq, H0, Hc. }
  pose proof (parseBlocks_block_shapes_partial D Hz) as HS.
  apply map_ext_in. intros r Hr. rewrite Forall_forall in G, HS. destruct (G r Hr) as (Go & sD & sQ & Gl & Gc).
  apply (MO_qB D (rb_start r) H13 Go sD sQ Gl); [apply (bshapes_nnB (rb_src r)), HS, Hr|exact Gc].
Qed.
Print Assumptions parseBlocks_quote_no91_partial.
