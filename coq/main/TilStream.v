From Coq Require Import List ZArith Lia Bool.
Import ListNotations.
Require Import Base Tables Utf8 Tree Rdr Link Collect Html Recog LP Rules Starts Driver Render L2Kind L2CC L2Bnd L2BndS GramDefs GramTree GramLP4 GramBlocks
  Rec17 Rec18 Cursor C01a C01b Props BSDef BSRdr BSTree BSShift BSLine10 BlockSpans StreamFuel
  TilBase TilDefs TilLP2 TilLP6 TilLP12 TilShift.
Open Scope Z_scope.

(* ================= the stream layer: cuts of the padded buffer ================= *)

(* ---- one line of the buffer holds exactly one line ending ---- *)
Lemma findEol_shift : forall l i, 0 <= findEol l i -> findEol l (i + 1) = findEol l i + 1.
Proof.
  induction l as [|c r IH]; intros i H; [cbn in H; lia|]. cbn [findEol] in *.
  destruct ((c =? 10) || (c =? 13)); [lia|]. apply IH, H.
Qed.
Lemma findEol_neg_shift : forall l i j, 0 <= i -> 0 <= j -> findEol l i < 0 -> findEol l j < 0.
Proof.
  induction l as [|c r IH]; intros i j Hi Hj H; [cbn; lia|]. cbn [findEol] in *.
  destruct ((c =? 10) || (c =? 13)); [lia|]. apply (IH (i + 1)); [lia|lia|exact H].
Qed.

Lemma lineCount_firstline : forall buf, 0 <= findEol buf 0 -> lineEnd buf 0 < len buf -> lineCount (upto buf (lineEnd buf 0)) = 1.
Proof.
  induction buf as [|c r IH]; intros Hf Hlt; [cbn in Hf; lia|].
  destruct ((c =? 10) || (c =? 13)) eqn:Ec.
  - (* the line ending is the first byte *)
    unfold lineEnd in *. change (from_ (c :: r) 0) with (c :: r) in *. cbn [findEol] in *. rewrite Ec in *. change (0 <? 0) with false in *. cbv iota in *.
    rewrite at_cons0 in *. destruct (Z.eqb_spec c 10) as [->|N10].
    + change (upto (10 :: r) (0 + 1)) with [10]. reflexivity.
    + assert (E13 : c = 13) by (cbn [orb] in Ec; apply Z.eqb_eq in Ec; exact Ec). subst c.
      rewrite len_cons in *. destruct (Z.ltb_spec (0 + 1) (len r + 1)) as [L|L]; [|lia].
      change (at_ (13 :: r) (0 + 1)) with (at_ (13 :: r) (0 + 1)) in *. rewrite at_consS in * by lia.
      destruct r as [|d r']; [unfold len in L; cbn in L; lia|]. rewrite at_cons0 in *.
      destruct (Z.eqb_spec d 10) as [->|Nd].
      * change (upto (13 :: 10 :: r') (0 + 2)) with [13; 10]. reflexivity.
      * change (upto (13 :: d :: r') (0 + 1)) with [13]. reflexivity.
  - (* the first byte is ordinary *)
    assert (Hf' : 0 <= findEol r 0).
    { cbn [findEol] in Hf. rewrite Ec in Hf. destruct (Z.ltb_spec (findEol r 0) 0) as [L|L]; [|exact L].
      pose proof (findEol_neg_shift r 0 (0 + 1) ltac:(lia) ltac:(lia) L). lia. }
    assert (Es : findEol (c :: r) 0 = findEol r 0 + 1) by (cbn [findEol]; rewrite Ec; apply findEol_shift, Hf').
    assert (El : lineEnd (c :: r) 0 = lineEnd r 0 + 1).
    { unfold lineEnd. change (from_ (c :: r) 0) with (c :: r). change (from_ r 0) with r. rewrite Es.
      destruct (Z.ltb_spec (findEol r 0 + 1) 0); [lia|]. destruct (Z.ltb_spec (findEol r 0) 0); [lia|].
      rewrite !at_consS by lia. rewrite len_cons.
      destruct (at_ r (findEol r 0) =? 10); [lia|].
      destruct (Z.ltb_spec (findEol r 0 + 1 + 1) (len r + 1)); destruct (Z.ltb_spec (findEol r 0 + 1) (len r)); try lia.
      destruct (at_ r (findEol r 0 + 1) =? 10); lia. }
    rewrite El in *. rewrite len_cons in Hlt.
    assert (H0 : 0 <= lineEnd r 0) by (destruct (lineEnd_spec r 0 ltac:(pose proof (len_nonneg r); lia)); lia).
    replace (lineEnd r 0 + 1) with (1 + lineEnd r 0) by lia. rewrite upto_cons by lia.
    assert (IHr : lineCount (upto r (lineEnd r 0)) = 1) by (apply IH; [exact Hf'|lia]).
    cbn [lineCount]. apply orb_false_iff in Ec. destruct Ec as [E1 E2]. rewrite E1, E2. lia.
Qed.
Lemma lineCount_line buf : lineEnd buf 0 < len buf -> lineCount (upto buf (lineEnd buf 0)) = 1.
Proof.
  intros H. apply lineCount_firstline; [|exact H].
  unfold lineEnd in H. change (from_ buf 0) with buf in H. destruct (Z.ltb_spec (findEol buf 0) 0); [lia|lia].
Qed.

Lemma pad_nil_inv l : pad l = [] -> l = [].
Proof. destruct l as [|c r]; [reflexivity|]. rewrite pad_cons. destruct (c =? 0); discriminate. Qed.

(* ---- the bookkeeping state ---- *)
Section Stream.
  Variable input : bytes.

  Definition BK (s : bpst) (pre rest : bytes) : Prop :=
    input = pre ++ rest /\ buf s = pad rest /\ boff s = len pre /\ bline s = 1 + lineCount pre /\ nosplit pre rest.

  (* cutting n bytes off the buffer at a good position *)
  Lemma BK_cut s pre rest n : BK s pre rest -> 0 <= n <= len (buf s) -> good (buf s) n ->
    exists r1 r2, rest = r1 ++ r2 /\ upto (buf s) n = pad r1 /\ from_ (buf s) n = pad r2 /\
      unpadded (upto (buf s) n) = len r1 /\ fillNulls (upto (buf s) n) = C01b.replaceNul r1 /\
      1 + lineCount pre + lineCount (upto (buf s) n) = 1 + lineCount (pre ++ r1) /\
      nosplit (pre ++ r1) r2 /\ input = (pre ++ r1) ++ r2.
  Proof.
    intros (E1 & E2 & E3 & E4 & E5) Hn Hg. rewrite E2 in *.
    destruct (padCut_of_good rest n Hn Hg) as (r1 & r2 & Er & El & Hs). exists r1, r2.
    assert (Eu : upto (pad rest) n = pad r1) by (rewrite Er, pad_app, <- El; apply upto_prefix).
    assert (Ef : from_ (pad rest) n = pad r2) by (rewrite Er, pad_app, <- El; apply from_app).
    rewrite Eu, Ef. split; [exact Er|]. split; [reflexivity|]. split; [reflexivity|]. split; [apply unpadded_pad|]. split; [apply fill_pad|].
    assert (Hs1 : nosplit pre r1).
    { destruct r1 as [|x r1']; [apply nosplit_nil_r|]. rewrite Er in E5. apply (nosplit_app_r pre (x :: r1') r2 E5). discriminate. }
    split; [rewrite lineCount_pad, (lineCount_app pre r1 Hs1); lia|]. split.
    - rewrite Er in E5. apply nosplit_app_l; assumption.
    - rewrite E1, Er, app_assoc. reflexivity.
  Qed.

  (* what a call of NextBlock delivers *)
  Definition NB (s : bpst) (ns : bool) : Prop :=
    SJ s (pending s) ns /\ gbL (pending s) = true /\ LBd (buf s) (bi s) /\ KS (buf s) (bi s) (pending s) /\
    (pending s = [] -> blankR (buf s) 0 (bi s)).
  Definition okT (pre rest : bytes) (x : nb) : Prop :=
    match x with
    | NBBlock r s' =>
      exists g r1 r2, rest = g ++ r1 ++ r2 /\ forallb blk g = true /\
        rb_start r = len pre + len g /\ rb_end r = rb_start r + len r1 /\ rb_src r = C01b.replaceNul r1 /\
        rb_line r = 1 + lineCount (pre ++ g) /\ BK s' (pre ++ g ++ r1) r2 /\ exists ns, NB s' ns
    | NBEof _ => forallb blk rest = true
    | NBStuck => True
    | NBPanic site => site <> 0
    end.

  Lemma kids_order M b0 rest : kidsOK M (b0 :: rest) -> 0 <= bend b0 ->
    forall c, In c rest -> bend b0 <= bstart c /\ (0 <= bend c -> bstart c <= bend c) /\
      (isOpen c = true -> bkind c = ParagraphKind -> forall u, In u (bik c) -> bstart c <= istart u).
  Proof.
    intros [Ha Hc] H0 c Hin. cbn [chain] in Hc. destruct Hc as (_ & _ & Hc). cbn [allP] in Ha. destruct Ha as [_ Ha].
    pose proof (chain_starts _ _ _ c Hc Hin) as Hs. pose proof (allP_In _ _ _ Ha Hin) as Sc. rewrite sp_eq in Sc.
    destruct Sc as (S1 & S2 & S3 & _). split; [lia|]. split; [intros; lia|].
    intros Ho Hk u Hu. unfold isOpen in Ho. apply Z.ltb_lt in Ho. destruct (S3 Ho) as [_ S4]. pose proof (ascI_all _ _ _ u (S4 Hk) Hu). lia.
  Qed.

  Lemma makeRoot_ok s ch ns pre rest r s' : BK s pre rest -> SJ s ch ns -> gbL ch = true -> LBd (buf s) (bi s) -> KS (buf s) (bi s) ch ->
    makeRoot ch s = Some (r, s') -> okT pre rest (NBBlock r s').
  Proof.
    intros HB HS Hg HL HK Hm. destruct (SJ_makeRoot _ _ _ _ _ HS Hm) as [_ HS'].
    destruct HS as ((Hbi & Hbnd & Hns) & Hcc & Hkids).
    destruct (gF_makeRoot ch s r s' (conj Hcc Hg) Hm) as [_ [_ Hg']].
    unfold makeRoot in Hm. destruct ch as [|b0 rest']; [discriminate|]. destruct (isOpen b0) eqn:Eo; [discriminate|]. inversion Hm; subst r s'. clear Hm.
    unfold isOpen in Eo. apply Z.ltb_ge in Eo.
    assert (Hb0 : bend b0 <= bi s).
    { unfold bndL in Hbnd. cbn [forallb] in Hbnd. apply andb_true_iff in Hbnd. destruct (bnd_end _ _ _ (proj1 Hbnd)); lia. }
    pose proof HK as (KA & KB & KC & KD & KE).
    assert (Hgood : good (buf s) (bend b0)) by (apply KA; [left; reflexivity|exact Eo]).
    destruct (BK_cut s pre rest (bend b0) HB ltac:(lia) Hgood) as (r1 & r2 & Er & Eu & Ef & Eun & Efi & Eli & Hs2 & Ein).
    pose proof HB as (E1 & E2 & E3 & E4 & E5).
    cbn [okT]. exists [], r1, r2. cbn [rb_start rb_end rb_src rb_line app]. change (len (@nil Z)) with 0. rewrite app_nil_r.
    split; [exact Er|]. split; [reflexivity|]. split; [lia|]. split; [lia|]. split; [exact Efi|]. split; [exact E4|]. split.
    - unfold BK. cbn [buf boff bline]. split; [exact Ein|]. split; [exact Ef|]. split; [rewrite len_app; lia|]. split; [lia|exact Hs2].
    - exists ns. unfold NB. cbn [buf bi pending] in *. split; [exact HS'|]. split; [exact Hg'|].
      split; [apply LBd_from; [lia|lia|exact HL]|]. split.
      + apply KS_cut; [lia|lia| |apply (kids_order (bi s) b0 rest' Hkids Eo)].
        (* the invariant for the remaining children *)
        assert (HL' : forall c, lastL rest' = Some c -> lastL (b0 :: rest') = Some c).
        { intros c Hc. change (b0 :: rest') with ([b0] ++ rest'). rewrite lastL_app; [exact Hc|]. intros E. rewrite E in Hc. discriminate. }
        split; [intros c Hc; apply KA; right; exact Hc|]. split; [|split; [|split]].
        * intros c Hc. apply KB. destruct rest' as [|x t]; [destruct Hc|]. change (removelast (b0 :: x :: t)) with (b0 :: removelast (x :: t)). right. exact Hc.
        * intros c Hc. apply KC, HL', Hc.
        * intros c Hc. apply KD, HL', Hc.
        * intros c Hc. apply KE, HL', Hc.
      + intros En. apply map_eq_nil in En. subst rest'. replace 0 with (bend b0 - bend b0) by lia. apply blankR_cut; [lia|].
        apply (KD b0 eq_refl). unfold isOpen. apply Z.ltb_ge. exact Eo.
  Qed.
End Stream.
