(* T63-F1, tokenizer level, part B: the two modes and the interface to the scanner lemmas.
   m = true  : "bumped" mode (paragraphs): run 2 reads src ++ [10] with the entries map (bumpI L) U;
   m = false : "same entries" mode (headings): run 2 reads src ++ [10] with the entries U. *)
From Coq Require Import List ZArith Lia Bool.
Import ListNotations.
Require Import Base Tables Utf8 Tree Rdr Link Collect Html Recog Inl3a Inl3b Inl3c Inl3d Driver Inl3e.
Require Import ShapesBase ShapesR IFBase IFLink IFCollect IFLabel IFTitle IFPe IFTokDef IFFrame IFTokAux IFTk5 Leaf3e IS5b IS6b IS8c ShapesA ShapesCS ShapesHT IFTokLoop SpanSmall IFTk1 IFTk2 IFTk4 IFTokUm IFTokFuel IFTokRf IFTokTf GI0 GI3 GI4 GI6 GI7 Leaf3f RdrBound EolFinalFullPeA EolFinalFullPeB.
Require Import LADef EolFinalDefs EolGenRdrBase EolGenRdrLink EolGenRdrCollect.
Require Import EolFinalFullRdrE EolFinalFullLinkE EolFinalFullCollectE EolFinalFullScanE EolFinalFullScanB EolFinalFullBytes EolFinalFullTokA EolFinalFullTokN.
Require CoverScan.
Open Scope Z_scope.

Section Tok.
Variable src : bytes.
Local Notation L := (len src).
Local Notation src2 := (src ++ [10]).
Hypothesis HL : 0 < L.
Hypothesis Hlast : isEOLz (at_ src (L - 1)) = false.
Variable m : bool.
Local Notation d0 := (mkI 0 0 0).

Definition mI (u : inline) : inline := if m then bumpI L u else u.
Definition mS (sp : list inline) : list inline := if m then bsp src sp else sp.
Definition okS (sp : list inline) : Prop := if m then GS src sp else Forall (sE src) sp.

Lemma mS_map sp : mS sp = map mI sp.
Proof. unfold mS, mI, bsp. destruct m; [reflexivity|]. symmetry. apply map_id. Qed.
Lemma mI_d0 : mI d0 = d0.
Proof. unfold mI. destruct m; [|reflexivity]. unfold bumpI, mkI. cbn. unfold bump. destruct (Z.eqb_spec 0 L); [lia|reflexivity]. Qed.
Lemma len_mS sp : len (mS sp) = len sp.
Proof. rewrite mS_map. unfold len. rewrite map_length. reflexivity. Qed.
Lemma nth_mS sp k : nth k (mS sp) d0 = mI (nth k sp d0).
Proof. rewrite mS_map. rewrite <- mI_d0 at 1. apply map_nth. Qed.
Lemma from_mS sp k : from_ (mS sp) k = mS (from_ sp k).
Proof. rewrite !mS_map. unfold from_. apply skipn_map. Qed.
Lemma okS_from sp k : okS sp -> okS (from_ sp k).
Proof. unfold okS. destruct m; [apply (GS_from src HL Hlast)|]. unfold from_. intros H. rewrite <- (firstn_skipn (Z.to_nat k) sp) in H. apply Forall_app in H. tauto. Qed.
Lemma okS_In sp u : okS sp -> In u sp -> 0 <= istart u /\ istart u < iend u /\ iend u <= L.
Proof.
  unfold okS. destruct m; intros H Hu.
  - destruct (GS_In src HL Hlast sp u H Hu) as (A & B & C & _). lia.
  - rewrite Forall_forall in H. destruct (H u Hu) as (A & B & C). lia.
Qed.
Lemma mI_start u : istart (mI u) = istart u. Proof. unfold mI. destruct m; [apply bumpI_start|reflexivity]. Qed.
Lemma mI_kind u : ikind (mI u) = ikind u. Proof. unfold mI. destruct m; [apply bumpI_kind|reflexivity]. Qed.
Lemma mI_end u : iend (mI u) = if m && negb (ikind u =? IndentKind) then bump L (iend u) else iend u.
Proof. unfold mI. destruct m; [|reflexivity]. rewrite bumpI_end. cbn [andb]. destruct (ikind u =? IndentKind); reflexivity. Qed.
Lemma mI_same u : iend u <> L -> mI u = u.
Proof. unfold mI. destruct m; [apply bumpI_same|reflexivity]. Qed.
Lemma mI_lim u : iend u <= L -> limOK src (iend u) (iend (mI u)).
Proof.
  intros H. split; [exact H|]. rewrite mI_end. destruct (m && _); [|left; reflexivity]. unfold bump. destruct (Z.eqb_spec (iend u) L); [right; split; [assumption|lia]|left; reflexivity].
Qed.

(* sortedness of a good entry list *)
Lemma okS_sorted : forall sp i j, okS sp -> (i < j < length sp)%nat -> m = true -> iend (nth i sp d0) <= istart (nth j sp d0).
Proof.
  unfold okS. intros sp i j H Hij Hm. rewrite Hm in H. revert i j Hij. induction sp as [|u r IH]; intros i j Hij; [cbn in Hij; lia|].
  cbn [GS] in H. destruct H as (_ & Hs & Hr). destruct j as [|j]; [lia|]. cbn [nth]. destruct i as [|i].
  - cbn [nth]. apply Hs. apply nth_In. cbn [length] in Hij. lia.
  - cbn [nth]. apply (IH Hr). cbn [length] in Hij. lia.
Qed.
(* an entry that is not the last one is not changed *)
Lemma mI_notlast sp i : okS sp -> (S i < length sp)%nat -> mI (nth i sp d0) = nth i sp d0.
Proof.
  intros H Hi. destruct m eqn:Em; [|unfold mI; rewrite Em; reflexivity]. apply mI_same.
  pose proof (okS_sorted sp i (S i) H ltac:(lia) Em) as Hs.
  destruct (okS_In sp (nth (S i) sp d0) H ltac:(apply nth_In; lia)) as (A & B & C). lia.
Qed.
(* an entry that ends at L is the last one (bumped mode) *)
Lemma okS_endL sp i : okS sp -> m = true -> (i < length sp)%nat -> iend (nth i sp d0) = L -> S i = length sp.
Proof.
  intros H Hm Hi He. destruct (Nat.eq_dec (S i) (length sp)) as [E|N]; [exact E|]. exfalso.
  pose proof (okS_sorted sp i (S i) H ltac:(lia) Hm) as Hs.
  destruct (okS_In sp (nth (S i) sp d0) H ltac:(apply nth_In; lia)) as (A & B & C). lia.
Qed.

(* ---------- the scanner interface ---------- *)
Variable rf : nat.
Hypothesis Hrf1 : (1 <= rf)%nat.

Lemma nodeIdx_mS sp p : okS sp -> p < L -> nodeIndexForPosition (mS sp) p = nodeIndexForPosition sp p.
Proof. unfold okS, mS. destruct m; [|reflexivity]. intros H Hp. apply (nodeIdx_bump src HL Hlast); assumption. Qed.

Definition bigS (sp : list inline) : Prop := L + 1 + ibudget sp < Z.of_nat rf.
Lemma bigS_from sp k : bigS sp -> bigS (from_ sp k).
Proof. unfold bigS, from_. pose proof (ibudget_skipn (Z.to_nat k) sp). lia. Qed.
Lemma big_new sp p : m = true -> okS sp -> bigS sp -> big src rf (newReader src2 (bsp src sp) p).
Proof.
  unfold okS, bigS, big. intros -> H Hb. pose proof (nu_new src2 (bsp src sp) p (GS_spW2 src HL Hlast sp H)) as Hn.
  rewrite (ibudget_bsp src HL Hlast), (len2 src HL Hlast) in Hn. lia.
Qed.

Lemma I_cs sp p start : okS sp -> p < L -> csBody rf (newReader src2 (mS sp) p) start = csBody rf (newReader src sp p) start.
Proof.
  unfold okS, mS. destruct m; intros H Hp.
  - apply (g_csBody src HL Hlast). apply (Rin_new src HL Hlast); assumption.
  - rewrite <- (ws_new src sp p). pose proof (WF_new src sp p H Hp) as HW. unfold csBody.
    assert (Hp' : r_pos (newReader src sp p) < L) by exact Hp.
    destruct (e_cs_open src HL Hlast rf (newReader src sp p) 0 start HW Hp') as [E1 E2]. rewrite E1.
    destruct (cs_open rf (newReader src sp p) 0 start) as [[[[r1 n] c1]|] c2] eqn:Eo; cbn [mapCO]; [|reflexivity].
    destruct (E2 r1 n c1 c2 eq_refl) as [W1 P1]. rewrite (e_cs_close src HL Hlast rf r1 n W1 P1). reflexivity.
Qed.
Lemma I_ht sp p : okS sp -> bigS sp -> p < L -> parseHTMLTag rf (newReader src2 (mS sp) p) = parseHTMLTag rf (newReader src sp p).
Proof.
  intros H Hb Hp. destruct m eqn:Em; unfold okS, mS in *; rewrite Em in *.
  - apply (g_parseHTMLTag src HL Hlast); [apply (Rin_new src HL Hlast); assumption|]. apply big_new; [exact Em|unfold okS; rewrite Em; exact H|exact Hb].
  - rewrite <- (ws_new src sp p). apply (e_parseHTMLTag src HL Hlast); [apply WF_new; assumption|exact Hp|exact Hrf1].
Qed.
Lemma I_pil sp p start : okS sp -> bigS sp -> p < L -> pilBody rf (newReader src2 (mS sp) p) start = pilBody rf (newReader src sp p) start.
Proof.
  intros H Hb Hp. destruct m eqn:Em; unfold okS, mS in *; rewrite Em in *.
  - apply (g_pilBody src HL Hlast); [apply (Rin_new src HL Hlast); assumption|]. apply big_new; [exact Em|unfold okS; rewrite Em; exact H|exact Hb].
  - rewrite <- (ws_new src sp p). apply (e_pilBody src HL Hlast); [apply WF_new; assumption|exact Hrf1].
Qed.
Lemma I_ll sp p : okS sp -> p < L -> fst (parseLinkLabel rf (newReader src2 (mS sp) p)) = fst (parseLinkLabel rf (newReader src sp p)).
Proof.
  intros H Hp. destruct m eqn:Em; unfold okS, mS in *; rewrite Em in *.
  - apply (g_parseLinkLabel src HL Hlast). apply (Rin_new src HL Hlast); assumption.
  - rewrite <- (ws_new src sp p). rewrite (proj1 (e_parseLinkLabel src HL Hlast rf (newReader src sp p) (WF_new src sp p H Hp) Hp)). reflexivity.
Qed.
Lemma I_ct sp p e tk esc : okS sp -> e <= L -> collectTextNodes rf (newReader src2 (mS sp) p) e tk esc = collectTextNodes rf (newReader src sp p) e tk esc.
Proof.
  intros H He. destruct m eqn:Em; unfold okS, mS in *; rewrite Em in *.
  - apply (g_collectTextNodes src HL Hlast); assumption.
  - destruct (Z_lt_le_dec p L) as [Hp|Hp].
    + rewrite <- (ws_new src sp p). apply (e_collectTextNodes src HL Hlast); [exact He|apply WF_new; assumption].
    + rewrite !CoverScan.collect_nil by (cbn [newReader r_pos]; lia). reflexivity.
Qed.

(* ---------- states ---------- *)
Variable U : list inline.
Hypothesis HU : okS U.
Hypothesis HbU : bigS U.
Variable re2 : Z.
Local Notation rt := (EolFinalFullTokA.rt src2 (mS U) re2).
Definition curU (st : ist) : inline := nth (Z.to_nat (upos st)) U d0.
Definition P0 (st : ist) : Prop := isrc st = src /\ unp st = U /\ 0 <= upos st < len U.

Lemma isrc_rt st : isrc (rt st) = src2. Proof. reflexivity. Qed.
Lemma unp_rt st : unp (rt st) = mS U. Proof. reflexivity. Qed.
Lemma upos_rt st : upos (rt st) = upos st. Proof. reflexivity. Qed.
Lemma unpFrom_rt st : unp st = U -> unpFrom (rt st) = mS (unpFrom st).
Proof. intros E. unfold unpFrom. rewrite unp_rt, upos_rt, E. apply from_mS. Qed.
Lemma okS_unpFrom st : unp st = U -> okS (unpFrom st).
Proof. intros E. unfold unpFrom. rewrite E. apply okS_from, HU. Qed.
Lemma bigS_unpFrom st : unp st = U -> bigS (unpFrom st).
Proof. intros E. unfold unpFrom. rewrite E. apply bigS_from, HbU. Qed.
Lemma isLast_rt st : unp st = U -> isLastSpan (rt st) = isLastSpan st.
Proof. intros E. unfold isLastSpan. rewrite unp_rt, upos_rt, E, len_mS. reflexivity. Qed.
Lemma curU_In st : 0 <= upos st < len U -> In (curU st) U.
Proof. intros H. apply nth_In. unfold len in H. lia. Qed.
Lemma curU_range st : 0 <= upos st < len U -> 0 <= istart (curU st) /\ istart (curU st) < iend (curU st) /\ iend (curU st) <= L.
Proof. intros H. apply (okS_In U); [exact HU|apply curU_In, H]. Qed.
Lemma spanEnd_p st : P0 st -> spanEnd st = iend (curU st).
Proof. intros (_ & E & H). unfold spanEnd. rewrite E. destruct (Z.leb_spec (len U) (upos st)); [lia|reflexivity]. Qed.
Lemma spanEnd_q st : P0 st -> spanEnd (rt st) = iend (mI (curU st)).
Proof. intros (_ & E & H). unfold spanEnd. rewrite unp_rt, upos_rt, len_mS. destruct (Z.leb_spec (len U) (upos st)); [lia|]. apply f_equal. apply nth_mS. Qed.
Lemma spanEnd_le st : P0 st -> spanEnd st <= L.
Proof. intros H. rewrite (spanEnd_p st H). apply curU_range, H. Qed.
Lemma lim_rt st : P0 st -> limOK src (spanEnd st) (spanEnd (rt st)).
Proof. intros H. rewrite (spanEnd_p st H), (spanEnd_q st H). apply mI_lim. apply curU_range, H. Qed.
(* the two shapes *)
Lemma spanEnd_cases st : P0 st ->
  (spanEnd (rt st) = spanEnd st /\ (m = false \/ spanEnd st <> L)) \/
  (m = true /\ spanEnd st = L /\ spanEnd (rt st) = L + 1 /\ isLastSpan st = true).
Proof.
  intros H. pose proof H as (Es & Eu & Hu). rewrite (spanEnd_p st H), (spanEnd_q st H). destruct m eqn:Em.
  2:{ left. split; [unfold mI; rewrite Em; reflexivity|left; reflexivity]. }
  destruct (Z.eq_dec (iend (curU st)) L) as [E|N].
  - right. split; [reflexivity|]. split; [exact E|]. split.
    + rewrite mI_end, Em. cbn [andb]. pose proof HU as HG. unfold okS in HG. rewrite Em in HG.
      destruct (GS_In src HL Hlast U (curU st) HG (curU_In st Hu)) as (_ & _ & _ & D).
      destruct (Z.eqb_spec (ikind (curU st)) IndentKind) as [Ek|Ek]; [specialize (D Ek); lia|]. cbn [negb]. unfold bump. rewrite E, Z.eqb_refl. reflexivity.
    + unfold isLastSpan. rewrite Eu. apply Z.leb_le.
      pose proof (okS_endL U (Z.to_nat (upos st)) HU Em ltac:(unfold len in Hu; lia) E) as Hl. unfold len. lia.
  - left. split; [rewrite (mI_same _ N); reflexivity|right; exact N].
Qed.

Lemma at2p p : 0 <= p < L -> at_ src2 p = at_ src p. Proof. apply at2i. Qed.
Lemma length2 : length src2 = S (length src). Proof. rewrite app_length. cbn. lia. Qed.

(* ---------- parseDelimiterRun ---------- *)
Lemma pdr_rt st pos : P0 st -> 0 <= pos < spanEnd st -> at_ src pos <> 10 ->
  parseDelimiterRun (rt st) pos = (rt (fst (parseDelimiterRun st pos)), snd (parseDelimiterRun st pos)).
Proof.
  intros H Hp Hc. pose proof H as (Es & Eu & Hu). pose proof (spanEnd_le st H) as Hle. pose proof (lim_rt st H) as Hlim.
  unfold parseDelimiterRun. cbv zeta. rewrite isrc_rt, Es. rewrite (at2p pos) by lia.
  assert (Hf : spanEnd st - (pos + 1) <= Z.of_nat (length src)) by (unfold len in Hle; lia).
  rewrite (runEnd_ext src (at_ src pos) Hc (length src) (length src2) (pos + 1) (spanEnd st) (spanEnd (rt st)) Hlim ltac:(lia) Hf ltac:(rewrite length2; lia)).
  pose proof (SpanSmall.runEnd_bounds (length src) src (pos + 1) (spanEnd st) (at_ src pos)) as [B1 B2]. specialize (B2 ltac:(lia)).
  set (e := runEnd (length src) src (pos + 1) (spanEnd st) (at_ src pos)) in *.
  rewrite (emphasisFlags_ext src pos e) by lia.
  rewrite rt_addNode. destruct (addNode st TextKind pos e []) as [st1 id]. reflexivity.
Qed.

(* ---------- parseBackslash ---------- *)
Lemma pbs_rt st start : P0 st -> 0 <= start < spanEnd st ->
  parseBackslash (rt st) start = (rt (fst (parseBackslash st start)), snd (parseBackslash st start)).
Proof.
  intros H Hp. pose proof H as (Es & Eu & Hu). pose proof (spanEnd_le st H) as Hle.
  unfold parseBackslash. cbv zeta. rewrite isrc_rt, Es, (isLast_rt st Eu).
  destruct (Z_lt_le_dec (start + 1) L) as [Hlt|Hge].
  - rewrite (at2p (start + 1)) by lia.
    assert (Ec : (spanEnd (rt st) <=? start + 1) = (spanEnd st <=? start + 1)).
    { destruct (spanEnd_cases st H) as [[E _]|(_ & E1 & E2 & _)]; [rewrite E; reflexivity|]. rewrite E1, E2.
      destruct (Z.leb_spec (L + 1) (start + 1)); destruct (Z.leb_spec L (start + 1)); try reflexivity; lia. }
    rewrite Ec. destruct (_ || _ || _).
    + destruct (isLastSpan st) eqn:El; [rewrite rt_addText; reflexivity|].
      assert (E : spanEnd (rt st) = spanEnd st) by (destruct (spanEnd_cases st H) as [[E _]|(_ & _ & _ & E)]; [exact E|congruence]).
      rewrite E. rewrite (eolRun_ext src (length src) (length src2) (start + 1) (spanEnd st) Hle ltac:(lia) ltac:(unfold len in Hle; lia) ltac:(rewrite length2; unfold len in Hle; lia)).
      rewrite <- rt_setIgn, rt_addNode. reflexivity.
    + destruct (isASCIIPunctuation _); rewrite rt_addText; reflexivity.
  - assert (E1 : start + 1 = L) by lia. assert (E2 : spanEnd st = L) by lia.
    replace ((spanEnd st <=? start + 1) || (at_ src (start + 1) =? 10) || (at_ src (start + 1) =? 13)) with true
      by (symmetry; apply orb_true_iff; left; apply orb_true_iff; left; apply Z.leb_le; lia).
    replace ((spanEnd (rt st) <=? start + 1) || (at_ src2 (start + 1) =? 10) || (at_ src2 (start + 1) =? 13)) with true.
    2:{ symmetry. rewrite E1, (at2_L src HL Hlast). cbn. rewrite orb_true_r. reflexivity. }
    destruct (isLastSpan st) eqn:El; [rewrite rt_addText; reflexivity|].
    assert (E : spanEnd (rt st) = spanEnd st) by (destruct (spanEnd_cases st H) as [[E _]|(_ & _ & _ & E)]; [exact E|congruence]).
    rewrite E. rewrite (eolRun_ext src (length src) (length src2) (start + 1) (spanEnd st) Hle ltac:(lia) ltac:(unfold len in Hle; lia) ltac:(rewrite length2; unfold len in Hle; lia)).
    rewrite <- rt_setIgn, rt_addNode. reflexivity.
Qed.

(* ---------- advanceTo ---------- *)
Lemma advanceTo_rt st pos : unp st = U -> pos < L -> advanceTo (rt st) pos = rt (advanceTo st pos).
Proof.
  intros Eu Hp. unfold advanceTo. rewrite (unpFrom_rt st Eu), (nodeIdx_mS _ pos (okS_unpFrom st Eu) Hp), unp_rt, upos_rt, len_mS, Eu.
  destruct (0 <=? _); reflexivity.
Qed.
(* ---------- collectCodeSpan ---------- *)
Definition okN (n : pn) : Prop := 0 <= ps n /\ ps n < pe n /\ pe n <= L.
Lemma cs_addSpan_ext acc s e : 0 <= s <= L -> e <= L -> cs_addSpan src2 acc s e = cs_addSpan src acc s e.
Proof. intros Hs He. unfold cs_addSpan. rewrite (sub2 src s e Hs He). reflexivity. Qed.
Lemma len_sub_le (s e : Z) : 0 <= s -> len (sub src s e) <= Z.max 0 (e - s).
Proof.
  intros Hs. unfold sub, upto, from_, len. rewrite firstn_length. lia.
Qed.
Lemma cs_addSpan_ok acc s e : Forall okN acc -> 0 <= s -> e <= L -> Forall okN (cs_addSpan src acc s e).
Proof.
  intros Ha Hs He. unfold cs_addSpan. cbv zeta. pose proof (len_sub_le s e Hs) as Hn. pose proof (ShapesBase.len_nonneg (sub src s e)) as Hn0.
  set (t := sub src s e) in *. set (n := len t) in *.
  set (trim := if (2 <=? n) && (at_ t (n - 2) =? 13) && (at_ t (n - 1) =? 10) then 2 else if (1 <=? n) && ((at_ t (n - 1) =? 10) || (at_ t (n - 1) =? 13)) then 1 else 0).
  assert (Ht : 0 <= trim <= n).
  { unfold trim. destruct (Z.leb_spec 2 n); cbn [andb]; [destruct (_ && _); [lia|]|]; (destruct (Z.leb_spec 1 n); cbn [andb]; [destruct (_ || _); lia|lia]). }
  assert (Ha1 : Forall okN (if 0 <? spanLen s (e - trim) then acc ++ [PN 0 TextKind s (e - trim) 0 [] []] else acc)).
  { destruct (Z.ltb_spec 0 (spanLen s (e - trim))) as [Hl|Hl]; [|exact Ha]. apply Forall_app. split; [exact Ha|]. constructor; [|constructor].
    unfold okN. cbn [ps pe]. unfold spanLen in Hl. destruct (Z.leb_spec 0 s); destruct (Z.leb_spec 0 (e - trim)); destruct (Z.leb_spec s (e - trim)); cbn [andb] in Hl; lia. }
  destruct (Z.ltb_spec 0 trim) as [Hl|Hl]; [|exact Ha1]. apply Forall_app. split; [exact Ha1|]. constructor; [|constructor].
  unfold okN. cbn [ps pe]. lia.
Qed.
Lemma strip_ext sl : Forall okN sl -> stripCodeSpanSpace src2 sl = stripCodeSpanSpace src sl.
Proof.
  intros H. unfold stripCodeSpanSpace.
  assert (E1 : existsb (fun n => negb (pkind n =? IndentKind) && negb (isOnlySpaces (sub src2 (ps n) (pe n)))) sl =
               existsb (fun n => negb (pkind n =? IndentKind) && negb (isOnlySpaces (sub src (ps n) (pe n)))) sl).
  { clear - H HL Hlast. induction H as [|x l Hx Hl IH]; [reflexivity|]. cbn [existsb]. rewrite IH. destruct Hx as (A & B & C). rewrite (sub2 src (ps x) (pe x)) by lia. reflexivity. }
  rewrite E1. destruct (negb _); [reflexivity|]. destruct sl as [|first sl']; [reflexivity|].
  destruct (rev (first :: sl')) as [|last rr] eqn:Er; [reflexivity|].
  assert (Hf : okN first) by (inversion H; assumption).
  assert (Hla : okN last). { rewrite Forall_forall in H. apply H. apply in_rev. rewrite Er. left. reflexivity. }
  destruct Hf as (A & B & C). destruct Hla as (A' & B' & C'). rewrite (at2p (ps first)) by lia. rewrite (at2p (pe last - 1)) by lia. reflexivity.
Qed.
Lemma nodeIdx_ge' : forall sp p k, nodeIdx sp p k = -1 \/ k <= nodeIdx sp p k.
Proof.
  induction sp as [|i r IH]; intros p k; [left; reflexivity|]. cbn [nodeIdx].
  destruct (p <? istart i); [left; reflexivity|]. destruct (spanHas i p); [right; lia|].
  destruct (IH p (k + 1)) as [E|E]; [left; exact E|right; lia].
Qed.
Lemma nodeIdx_lt : forall sp p k, 0 <= k -> k <= nodeIdx sp p k -> nodeIdx sp p k - k < len sp.
Proof.
  induction sp as [|u r IH]; intros p k Hk H; [cbn in H; lia|]. cbn [nodeIdx] in *. change (len (u :: r)) with (Z.of_nat (S (length r))).
  destruct (p <? istart u); [lia|]. destruct (spanHas u p); [lia|].
  assert (H1 : k + 1 <= nodeIdx r p (k + 1)) by (destruct (nodeIdx_ge' r p (k + 1)); lia). specialize (IH p (k + 1) ltac:(lia) H1). unfold len in IH. lia.
Qed.
Lemma ccs_mid_ext (ua ua2 : Z -> inline) : forall k acc up, Forall okN acc ->
  (forall j, up < j <= up + Z.of_nat k -> ua2 j = ua j /\ 0 <= istart (ua j) <= L /\ iend (ua j) <= L) ->
  IFTokAux.ccs_mid src2 ua2 k acc up = IFTokAux.ccs_mid src ua k acc up /\ Forall okN (fst (IFTokAux.ccs_mid src ua k acc up)).
Proof.
  induction k as [|k IH]; intros acc up Ha Hj; [split; [reflexivity|exact Ha]|]. cbn [IFTokAux.ccs_mid].
  destruct (Hj (up + 1) ltac:(lia)) as (E & A & B). rewrite E.
  destruct (ikind (ua (up + 1)) =? UnparsedKind).
  - rewrite (cs_addSpan_ext acc _ _ A B). apply IH; [apply cs_addSpan_ok; [exact Ha|lia|exact B]|]. intros j Hjj. apply Hj. lia.
  - apply IH; [exact Ha|]. intros j Hjj. apply Hj. lia.
Qed.
Lemma collectCodeSpan_eq st a b cS cE : collectCodeSpan st a b cS cE =
  (let src0 := isrc st in
   let nodeCount := nodeIndexForPosition (unpFrom st) cE in
   let unpAt (i : Z) := nth (Z.to_nat i) (unp st) d0 in
   let '(kids, st) :=
     if nodeCount =? 0 then (cs_addSpan src0 [] cS cE, st)
     else
       let acc := cs_addSpan src0 [] cS (iend (unpAt (upos st))) in
       let '(acc, up) := IFTokAux.ccs_mid src0 unpAt (Z.to_nat (nodeCount - 1)) acc (upos st) in
       let up := up + 1 in
       (cs_addSpan src0 acc (istart (unpAt up)) cE, setUpos st up) in
   let kids := stripCodeSpanSpace src0 kids in
   fst (addNode st CodeSpanKind a b kids)).
Proof. reflexivity. Qed.
Lemma ccs_rt st a b cS cE : P0 st -> 0 <= cS <= L -> cE < L -> 0 <= nodeIndexForPosition (unpFrom st) cE ->
  collectCodeSpan (rt st) a b cS cE = rt (collectCodeSpan st a b cS cE).
Proof.
  intros H HcS HcE Hnc. pose proof H as (Es & Eu & Hu). rewrite !collectCodeSpan_eq. cbv zeta.
  rewrite isrc_rt, Es, (unpFrom_rt st Eu), (nodeIdx_mS _ cE (okS_unpFrom st Eu) HcE), unp_rt, upos_rt, Eu.
  set (nc := nodeIndexForPosition (unpFrom st) cE) in *.
  assert (Hlt : upos st + nc < len U).
  { pose proof (nodeIdx_lt (unpFrom st) cE 0 ltac:(lia) ltac:(exact Hnc)) as Hx. fold (nodeIndexForPosition (unpFrom st) cE) in Hx. fold nc in Hx.
    unfold unpFrom in Hx. rewrite Eu in Hx. unfold from_, len in Hx. rewrite skipn_length in Hx. unfold len. lia. }
  destruct (Z.eqb_spec nc 0) as [E0|N0].
  - rewrite (cs_addSpan_ext [] cS cE HcS ltac:(lia)).
    pose proof (cs_addSpan_ok [] cS cE (Forall_nil _) ltac:(lia) ltac:(lia)) as Hk. rewrite (strip_ext _ Hk). rewrite rt_addNode. reflexivity.
  - set (ua := fun i : Z => nth (Z.to_nat i) U d0). set (ua2 := fun i : Z => nth (Z.to_nat i) (mS U) d0).
    assert (Hua : forall j, 0 <= j -> j + 1 < len U -> ua2 j = ua j /\ 0 <= istart (ua j) <= L /\ iend (ua j) <= L).
    { intros j Hj0 Hj. unfold ua2, ua. rewrite nth_mS. split; [apply mI_notlast; [exact HU|unfold len in Hj; lia]|].
      destruct (okS_In U (nth (Z.to_nat j) U d0) HU ltac:(apply nth_In; unfold len in Hj; lia)) as (A & B & C). lia. }
    change (nth (Z.to_nat (upos st)) (mS U) d0) with (ua2 (upos st)). change (nth (Z.to_nat (upos st)) U d0) with (ua (upos st)).
    destruct (Hua (upos st) ltac:(lia) ltac:(lia)) as (E1 & A1 & B1). rewrite E1.
    rewrite (cs_addSpan_ext [] cS (iend (ua (upos st))) HcS B1).
    pose proof (cs_addSpan_ok [] cS (iend (ua (upos st))) (Forall_nil _) ltac:(lia) B1) as Hk0.
    destruct (ccs_mid_ext ua ua2 (Z.to_nat (nc - 1)) _ (upos st) Hk0) as [Em Hk1].
    { intros j Hj. apply Hua; lia. }
    rewrite Em. pose proof (IFTokAux.ccs_mid_snd src ua (Z.to_nat (nc - 1)) (cs_addSpan src [] cS (iend (ua (upos st)))) (upos st)) as Hs.
    destruct (IFTokAux.ccs_mid src ua (Z.to_nat (nc - 1)) (cs_addSpan src [] cS (iend (ua (upos st)))) (upos st)) as [acc up]. cbn [fst snd] in *.
    assert (Eup : up + 1 = upos st + nc) by lia.
    change (nth (Z.to_nat (up + 1)) (mS U) d0) with (ua2 (up + 1)). change (nth (Z.to_nat (up + 1)) U d0) with (ua (up + 1)).
    assert (Es2 : istart (ua2 (up + 1)) = istart (ua (up + 1))) by (unfold ua2, ua; rewrite nth_mS; apply mI_start). rewrite Es2.
    destruct (okS_In U (ua (up + 1)) HU ltac:(unfold ua; apply nth_In; unfold len in Hlt; lia)) as (A2 & B2 & C2).
    rewrite (cs_addSpan_ext acc (istart (ua (up + 1))) cE ltac:(lia) ltac:(lia)).
    pose proof (cs_addSpan_ok acc (istart (ua (up + 1))) cE Hk1 ltac:(lia) ltac:(lia)) as Hk2. rewrite (strip_ext _ Hk2).
    rewrite <- rt_setUpos, rt_addNode. reflexivity.
Qed.
(* ---------- more of the scanner interface ---------- *)
Lemma I_tlr f sp s e : okS sp -> e <= L -> transformLinkReferenceSpan f src2 (mS sp) s e = transformLinkReferenceSpan f src sp s e.
Proof.
  intros H He. destruct m eqn:Em; unfold okS, mS in *; rewrite Em in *.
  - apply (g_transformLinkReferenceSpan src HL Hlast); assumption.
  - destruct (Z_lt_le_dec s L) as [Hs|Hs].
    + apply (e_transformLinkReferenceSpan src HL Hlast); assumption.
    + unfold transformLinkReferenceSpan. rewrite !(tlr_exit src HL Hlast) by (cbn [newReader r_pos]; lia). reflexivity.
Qed.
Lemma tlrK f lk : Forall (sE src) lk -> transformLinkReference f src2 lk = transformLinkReference f src lk.
Proof.
  intros H. unfold transformLinkReference. destruct lk as [|f0 r]; [reflexivity|]. destruct (rev (f0 :: r)) as [|l rr] eqn:Er; [reflexivity|].
  assert (Hf : sE src f0) by (inversion H; assumption).
  assert (Hl : sE src l). { rewrite Forall_forall in H. apply H. apply in_rev. rewrite Er. left. reflexivity. }
  destruct Hf as (A & B & C). destruct Hl as (A' & B' & C').
  apply (e_transformLinkReferenceSpan src HL Hlast); [exact C'|exact H|lia].
Qed.

(* a reader of run 2 placed at L: skipLinkSpace fails (there is at most the final newline, then the end) *)
Lemma sls_q_L sp : okS sp -> fst (skipLinkSpace rf (newReader src2 (mS sp) L)) = false.
Proof.
  intros H. set (R := newReader src2 (mS sp) L). unfold skipLinkSpace, current. change (r_src R) with src2. change (r_pos R) with L.
  rewrite (len2 src HL Hlast). destruct (Z.leb_spec (L + 1) L); [lia|].
  destruct (curNode_cases R) as [E|(pre & n & rest & E1 & E & E3)]; rewrite E.
  - cbn [okind]. change (0 =? IndentKind) with false. cbv iota. rewrite (at2_L src HL Hlast). change (10 =? 0) with false. cbv iota.
    destruct rf as [|f]; [lia|]. cbn [skipLinkSpace_loop]. unfold current. cbn [withSpans r_src r_pos]. change (r_src R) with src2. change (r_pos R) with L.
    rewrite (len2 src HL Hlast). destruct (Z.leb_spec (L + 1) L); [lia|].
    rewrite (curNode_nil (withSpans R [])) by reflexivity. cbn [okind]. change (0 =? IndentKind) with false. cbv iota. rewrite (at2_L src HL Hlast).
    change (10 =? 0) with false. cbv iota. change (isSpaceTabOrLineEnding 10) with true. cbv iota.
    unfold next. rewrite (curNode_nil (withSpans R [])) by reflexivity. reflexivity.
  - apply spanHas_range in E3. change (r_pos R) with L in E3. change (r_spans R) with (mS sp) in E1.
    assert (Hin : In n (mS sp)) by (rewrite E1; apply in_or_app; right; left; reflexivity).
    rewrite mS_map in Hin. apply in_map_iff in Hin. destruct Hin as (u & Eu & Hu). destruct (okS_In sp u H Hu) as (A & B & C).
    destruct m eqn:Em.
    2:{ exfalso. unfold mI in Eu. rewrite Em in Eu. subst n. lia. }
    assert (Eend : iend n = L + 1 /\ (ikind u =? IndentKind) = false /\ iend u = L).
    { subst n. rewrite mI_end, Em in E3 |- *. cbn [andb] in *. destruct (ikind u =? IndentKind); cbn [negb] in *; [lia|]. unfold bump in *. destruct (Z.eqb_spec (iend u) L); [split; [reflexivity|split; [reflexivity|assumption]]|lia]. }
    destruct Eend as (Een & Ek & EuL).
    assert (Hrest : rest = []).
    { destruct rest as [|j rest']; [reflexivity|]. exfalso. pose proof H as HG. unfold okS in HG. rewrite Em in HG.
      pose proof (GS_spW2 src HL Hlast sp HG) as HW. unfold mS in E1. rewrite Em in E1. rewrite E1 in HW. apply spW_from with (a := len pre) in HW.
      unfold from_ in HW. replace (Z.to_nat (len pre)) with (length pre) in HW by (unfold len; lia). rewrite skipn_app, skipn_all, Nat.sub_diag in HW. cbn [skipn app] in HW.
      destruct (spW_cons _ _ _ HW) as (_ & _ & _ & Hs & _). specialize (Hs j (or_introl eq_refl)).
      assert (Hj : In j (bsp src sp)) by (rewrite E1; apply in_or_app; right; right; left; reflexivity).
      unfold bsp in Hj. apply in_map_iff in Hj. destruct Hj as (v & Ev & Hv). destruct (okS_In sp v H Hv) as (A' & B' & C'). subst j. rewrite bumpI_start in Hs. lia. }
    subst rest. set (R1 := withSpans R [n]).
    assert (HA : A2 src R1).
    { split; [reflexivity|]. split; [reflexivity|]. exists n. split; [reflexivity|]. subst n. rewrite mI_kind, mI_start. split; [exact Ek|]. split; [lia|]. split; [lia|exact Een]. }
    cbn [okind]. assert (Ekn : (ikind n =? IndentKind) = false) by (subst n; rewrite mI_kind; exact Ek). rewrite Ekn. rewrite (at2_L src HL Hlast).
    change (10 =? 0) with false. cbv iota.
    destruct (A2_sls_loop src HL Hlast rf R1 HA Hrf1) as (r' & Es & _). rewrite Es. reflexivity.
Qed.
Lemma sls_p_L sp f : fst (skipLinkSpace f (newReader src sp L)) = false.
Proof. unfold skipLinkSpace, current. cbn [newReader r_src r_pos]. rewrite Z.leb_refl. reflexivity. Qed.
Lemma pilBody_fail f r start : fst (skipLinkSpace f r) = false -> pilBody f r start = (nullSpan, (nullSpan, nullSpan), (nullSpan, nullSpan)).
Proof. intros H. unfold pilBody. destruct (skipLinkSpace f r) as [ok r1]. cbn [fst] in H. subst ok. reflexivity. Qed.
Lemma I_pil' sp p start : okS sp -> bigS sp -> p <= L -> pilBody rf (newReader src2 (mS sp) p) start = pilBody rf (newReader src sp p) start.
Proof.
  intros H Hb Hp. destruct (Z_lt_le_dec p L) as [Hlt|Hge]; [apply I_pil; assumption|].
  assert (E : p = L) by lia. subst p. rewrite (pilBody_fail rf _ start (sls_q_L sp H)), (pilBody_fail rf _ start (sls_p_L sp rf)). reflexivity.
Qed.

(* ---------- guards that look one or two bytes ahead ---------- *)
Lemma guard1 st pos c : P0 st -> 0 <= pos <= L -> c <> 10 ->
  ((pos <? spanEnd (rt st)) && (at_ src2 pos =? c)) = ((pos <? spanEnd st) && (at_ src pos =? c)).
Proof.
  intros H Hp Hc. pose proof (spanEnd_le st H) as Hle. destruct (Z_lt_le_dec pos L) as [Hlt|Hge].
  - rewrite (at2p pos) by lia. f_equal.
    destruct (spanEnd_cases st H) as [[E _]|(_ & E1 & E2 & _)]; [rewrite E; reflexivity|]. rewrite E1, E2.
    destruct (Z.ltb_spec pos (L + 1)); destruct (Z.ltb_spec pos L); try reflexivity; lia.
  - assert (E : pos = L) by lia. subst pos. rewrite (at2_L src HL Hlast).
    replace (10 =? c) with false by (symmetry; apply Z.eqb_neq; lia). rewrite andb_false_r.
    replace (L <? spanEnd st) with false by (symmetry; apply Z.ltb_ge; lia). reflexivity.
Qed.
Lemma guard2 st pos c1 c2 : P0 st -> 0 <= pos < L -> c2 <> 10 ->
  ((pos + 1 <? spanEnd (rt st)) && (at_ src2 pos =? c1) && (at_ src2 (pos + 1) =? c2)) =
  ((pos + 1 <? spanEnd st) && (at_ src pos =? c1) && (at_ src (pos + 1) =? c2)).
Proof.
  intros H Hp Hc. rewrite (at2p pos) by lia.
  pose proof (guard1 st (pos + 1) c2 H ltac:(lia) Hc) as G.
  destruct (at_ src pos =? c1); [rewrite !andb_true_r; exact G|rewrite !andb_false_r; reflexivity].
Qed.
(* ---------- parseEndBracket ---------- *)
Variables tf pf : nat.
Hypothesis HOK : spOK src U = true.
Hypothesis Hind : forall i, In i U -> ikind i = IndentKind -> iend i = istart i + 1.

Lemma spOK_unpFrom st : unp st = U -> spOK src (unpFrom st) = true.
Proof. intros E. unfold unpFrom. rewrite E. apply spOK_from, HOK. Qed.
Lemma lkids_sE st p e : unp st = U -> 0 <= p <= L -> e <= L ->
  Forall (sE src) (collectTextNodes rf (newReader src (unpFrom st) p) e TextKind false).
Proof.
  intros Eu Hp He. pose proof (spOK_spW src _ (spOK_unpFrom st Eu)) as HW.
  assert (Hin : forall i, In i (unpFrom st) -> In i U). { intros i Hi. unfold unpFrom, from_ in Hi. rewrite Eu in Hi. rewrite <- (firstn_skipn (Z.to_nat (upos st)) U). apply in_or_app. right. exact Hi. }
  pose proof (collectTextNodes_ne src TextKind rf (newReader src (unpFrom st) p) e (PL_new src _ p HW)) as H1.
  pose proof (collectTextNodes_noesc TextKind rf (newReader src (unpFrom st) p) e (unpFrom st) (sublist_refl _)) as H2.
  destruct (collectTextNodes_asc src (unpFrom st) HW (fun i Hi => Hind i (Hin i Hi)) TextKind rf p e Hp He) as [H3 _].
  { pose proof (bigS_unpFrom st Eu) as Hb. unfold bigS in Hb. lia. }
  rewrite Forall_forall in *. intros x Hx. destruct (spW_In src _ x H3 Hx) as (A & B & C).
  destruct (H2 x Hx) as [(s0 & e0 & Ex)|[Hxi Hk]].
  - destruct (H1 x Hx) as [Hk|Hlt]; [subst x; cbn in Hk; discriminate|]. split; [exact A|]. split; [exact Hlt|exact C].
  - destruct (okS_In U x HU (Hin x Hxi)) as (A' & B' & C'). split; [exact A'|]. split; [exact B'|exact C'].
Qed.
Lemma P0_lookFor st : P0 st -> P0 (fst (lookForLinkOrImage st)).
Proof.
  intros (A & B & C). destruct (fr_lookFor st) as [F1 F2]. pose proof (ux_lookFor st) as X. unfold ux in X.
  split; [congruence|]. split; [congruence|]. rewrite X. exact C.
Qed.

Lemma peb_rt st start : P0 st -> 0 <= start < spanEnd st ->
  parseEndBracketG rf tf pf (rt st) start = (rt (fst (parseEndBracketG rf tf pf st start)), snd (parseEndBracketG rf tf pf st start)).
Proof.
  intros H Hst. pose proof (spanEnd_le st H) as Hle. pose proof H as (Es & _ & _).
  unfold parseEndBracketG. cbv zeta. rewrite isrc_rt, Es, rt_lookFor.
  pose proof (P0_lookFor st H) as H1.
  assert (Hse1 : spanEnd (fst (lookForLinkOrImage st)) = spanEnd st).
  { unfold spanEnd. destruct (fr_lookFor st) as [F1 F2]. pose proof (ux_lookFor st) as X. unfold ux in X. rewrite F1, F2, X. reflexivity. }
  destruct (lookForLinkOrImage st) as [st1 odi]. cbn [fst snd] in *. pose proof H1 as (Es1 & Eu1 & Hu1).
  destruct (odi <? 0); [rewrite rt_addText; reflexivity|].
  rewrite !stk_rt, !rt_nodeOf.
  set (od := nthD (stk st1) odi). set (kind := if d_typ od =? tImage then ImageKind else LinkKind). set (bracket := nodeOf st1 (d_node od)).
  rewrite (guard1 st1 (start + 1) 40 H1 ltac:(lia) ltac:(lia)).
  pose proof (spOK_unpFrom st1 Eu1) as Hok1.
  (* the inline form *)
  assert (Epil : start + 1 < spanEnd st1 -> parseInlineLink rf (rt st1) (start + 1) = parseInlineLink rf st1 (start + 1)).
  { intros Hg. rewrite !pil_eq, isrc_rt, Es1, (unpFrom_rt st1 Eu1).
    apply I_pil'; [apply okS_unpFrom, Eu1|apply bigS_unpFrom, Eu1|lia]. }
  set (tryI := if (start + 1 <? spanEnd st1) && (at_ src (start + 1) =? 40) then
                 let '(ispan, (dspan, dtext), (tspan, ttext)) := parseInlineLink rf st1 (start + 1) in
                 if spanValid ispan then Some (ispan, dspan, dtext, tspan, ttext) else None else None).
  assert (Etry : (if (start + 1 <? spanEnd st1) && (at_ src (start + 1) =? 40) then
                 let '(ispan, (dspan, dtext), (tspan, ttext)) := parseInlineLink rf (rt st1) (start + 1) in
                 if spanValid ispan then Some (ispan, dspan, dtext, tspan, ttext) else None else None) = tryI).
  { unfold tryI. destruct (Z.ltb_spec (start + 1) (spanEnd st1)) as [Hg|Hg]; cbn [andb]; [|reflexivity]. rewrite (Epil Hg). reflexivity. }
  rewrite Etry.
  assert (Hres : forall ispan dspan dtext tspan ttext, tryI = Some (ispan, dspan, dtext, tspan, ttext) ->
            snd ispan - 1 < L /\ (spanValid dspan = true -> snd dtext <= L) /\ (spanValid tspan = true -> snd ttext <= L)).
  { intros ispan dspan dtext tspan ttext E. unfold tryI in E. destruct (Z.ltb_spec (start + 1) (spanEnd st1)) as [Hg|Hg]; cbn [andb] in E; [|discriminate].
    destruct (at_ src (start + 1) =? 40); [|discriminate].
    destruct (parseInlineLink rf st1 (start + 1)) as [[ispan0 [dspan0 dtext0]] [tspan0 ttext0]] eqn:Ep.
    destruct (spanValid ispan0) eqn:Ev; [|discriminate]. inversion E; subst.
    destruct (parseInlineLink_end rf st1 (start + 1) ispan _ _ ltac:(rewrite Es1; exact Hok1) Ep Ev) as (_ & E41 & _).
    rewrite Es1 in E41. assert (Hnz : at_ src (snd ispan - 1) <> 0) by lia. pose proof (at_nonzero_lt src _ Hnz) as Hr.
    destruct (parseInlineLink_res rf st1 (start + 1) ispan dspan dtext tspan ttext ltac:(rewrite Es1; exact Hok1) ltac:(rewrite Es1; lia) Ep Ev) as [R1 R2].
    rewrite Es1 in R1, R2. split; [lia|]. split; intros Hv; [apply R1, Hv|apply R2, Hv]. }
  destruct tryI as [[[[[ispan dspan] dtext] tspan] ttext]|] eqn:Etr.
  { destruct (Hres _ _ _ _ _ eq_refl) as (R0 & R1 & R2).
    rewrite (surjective_pairing (wrap (rt st1) kind (d_node od) None)), (surjective_pairing (wrap st1 kind (d_node od) None)).
    change (snd (wrap (rt st1) kind (d_node od) None)) with (nid st1). change (snd (wrap st1 kind (d_node od) None)) with (nid st1).
    rewrite (wrap_upd src2 (mS U) re2 st1 kind (d_node od) _ (spanInsens_setSpan (ps bracket) (snd ispan))).
    set (X1 := updN (fst (wrap st1 kind (d_node od) None)) (nid st1) (fun n => setSpan n (ps bracket) (snd ispan))).
    assert (EuX1 : unp X1 = U) by exact Eu1.
    set (X2 := if spanValid dspan then appendKid X1 (nid st1) (PN 0 LinkDestinationKind (fst dspan) (snd dspan) 0 []
                  (if spanValid dtext then kidsOf (collectTextNodes rf (newReader src (unpFrom X1) (fst dtext)) (snd dtext) TextKind true) else [])) else X1).
    assert (E2 : (if spanValid dspan then appendKid (rt X1) (nid st1) (PN 0 LinkDestinationKind (fst dspan) (snd dspan) 0 []
                  (if spanValid dtext then kidsOf (collectTextNodes rf (newReader src2 (unpFrom (rt X1)) (fst dtext)) (snd dtext) TextKind true) else [])) else rt X1) = rt X2).
    { unfold X2. destruct (spanValid dspan) eqn:Ed; [|reflexivity]. rewrite (unpFrom_rt X1 EuX1), (I_ct _ (fst dtext) (snd dtext) TextKind true (okS_unpFrom X1 EuX1) (R1 eq_refl)).
      rewrite rt_appendKid. reflexivity. }
    rewrite E2. assert (EuX2 : unp X2 = U) by (unfold X2; destruct (spanValid dspan); exact Eu1).
    set (X3 := if spanValid tspan then appendKid X2 (nid st1) (PN 0 LinkTitleKind (fst tspan) (snd tspan) 0 []
                  (if spanValid ttext then kidsOf (collectTextNodes rf (newReader src (unpFrom X2) (fst ttext)) (snd ttext) TextKind true) else [])) else X2).
    assert (E3 : (if spanValid tspan then appendKid (rt X2) (nid st1) (PN 0 LinkTitleKind (fst tspan) (snd tspan) 0 []
                  (if spanValid ttext then kidsOf (collectTextNodes rf (newReader src2 (unpFrom (rt X2)) (fst ttext)) (snd ttext) TextKind true) else [])) else rt X2) = rt X3).
    { unfold X3. destruct (spanValid tspan) eqn:Ed; [|reflexivity]. rewrite (unpFrom_rt X2 EuX2), (I_ct _ (fst ttext) (snd ttext) TextKind true (okS_unpFrom X2 EuX2) (R2 eq_refl)).
      rewrite rt_appendKid. reflexivity. }
    rewrite E3. assert (EuX3 : unp X3 = U) by (unfold X3; destruct (spanValid tspan); exact EuX2).
    rewrite (advanceTo_rt X3 (snd ispan - 1) EuX3 R0), rt_finishLinkG. reflexivity. }
  (* reference forms *)
  assert (Ecol : ((start + 2 <? spanEnd (rt st1)) && (at_ src2 (start + 1) =? 91) && (at_ src2 (start + 2) =? 93)) =
                 ((start + 2 <? spanEnd st1) && (at_ src (start + 1) =? 91) && (at_ src (start + 2) =? 93))).
  { destruct (Z_lt_le_dec (start + 1) L) as [Hlt|Hge].
    - replace (start + 2) with (start + 1 + 1) by lia. apply (guard2 st1 (start + 1) 91 93 H1); lia.
    - replace (start + 2 <? spanEnd (rt st1)) with false. 2:{ symmetry. apply Z.ltb_ge. destruct (lim_rt st1 H1) as [_ [E|[_ E]]]; lia. }
      replace (start + 2 <? spanEnd st1) with false by (symmetry; apply Z.ltb_ge; lia). reflexivity. }
  rewrite Ecol. set (isC := (start + 2 <? spanEnd st1) && (at_ src (start + 1) =? 91) && (at_ src (start + 2) =? 93)).
  assert (Elab : (if negb isC && (start + 1 <? spanEnd (rt st1)) && (at_ src2 (start + 1) =? 91)
                  then let '(a, b, _) := parseLinkLabel rf (newReader src2 (unpFrom (rt st1)) (start + 1)) in (a, b) else (nullSpan, nullSpan)) =
                 (if negb isC && (start + 1 <? spanEnd st1) && (at_ src (start + 1) =? 91)
                  then let '(a, b, _) := parseLinkLabel rf (newReader src (unpFrom st1) (start + 1)) in (a, b) else (nullSpan, nullSpan))).
  { rewrite <- !andb_assoc. rewrite (guard1 st1 (start + 1) 91 H1 ltac:(lia) ltac:(lia)).
    destruct (negb isC && ((start + 1 <? spanEnd st1) && (at_ src (start + 1) =? 91))) eqn:Eg; [|reflexivity].
    apply andb_true_iff in Eg. destruct Eg as [_ Eg]. apply andb_true_iff in Eg. destruct Eg as [Eg _]. apply Z.ltb_lt in Eg.
    rewrite (unpFrom_rt st1 Eu1). pose proof (I_ll (unpFrom st1) (start + 1) (okS_unpFrom st1 Eu1) ltac:(lia)) as Hll.
    destruct (parseLinkLabel rf (newReader src2 (mS (unpFrom st1)) (start + 1))) as [[a b] c]. destruct (parseLinkLabel rf (newReader src (unpFrom st1) (start + 1))) as [[a' b'] c'].
    cbn [fst] in Hll. inversion Hll. reflexivity. }
  rewrite Elab.
  assert (Hlab : forall lspan linner, (if negb isC && (start + 1 <? spanEnd st1) && (at_ src (start + 1) =? 91)
                  then let '(a, b, _) := parseLinkLabel rf (newReader src (unpFrom st1) (start + 1)) in (a, b) else (nullSpan, nullSpan)) = (lspan, linner) ->
            spanValid lspan = true -> snd lspan - 1 < L /\ 0 <= fst linner <= L /\ snd linner <= L).
  { intros lspan linner E Hv. destruct (negb isC && (start + 1 <? spanEnd st1) && (at_ src (start + 1) =? 91)) eqn:Eg; [|inversion E; subst; discriminate].
    apply andb_true_iff in Eg. destruct Eg as [Eg _]. apply andb_true_iff in Eg. destruct Eg as [_ Eg]. apply Z.ltb_lt in Eg.
    destruct (parseLinkLabel rf (newReader src (unpFrom st1) (start + 1))) as [[a b] c] eqn:Ep. inversion E; subst a b.
    assert (HRI : RI src (newReader src (unpFrom st1) (start + 1))) by (split; [reflexivity|exact Hok1]).
    destruct (parseLinkLabel_end src rf _ lspan linner c HRI Ep Hv) as (_ & E93 & _).
    assert (Hnz : at_ src (snd lspan - 1) <> 0) by lia. pose proof (at_nonzero_lt src _ Hnz) as Hr.
    pose proof (RB_newReader src (unpFrom st1) (start + 1) Hok1 ltac:(lia)) as HRB.
    pose proof (parseLinkLabel_inner L ltac:(lia) rf _ lspan linner c HRB Ep Hv) as I1.
    pose proof (parseLinkLabel_inner_le L rf _ lspan linner c HRB Ep Hv) as I2.
    pose proof (parseLinkLabel_inner_ge src rf _ lspan linner c HRI Ep Hv) as I3. cbn [newReader r_pos] in I3. lia. }
  destruct (if negb isC && (start + 1 <? spanEnd st1) && (at_ src (start + 1) =? 91)
            then let '(a, b, _) := parseLinkLabel rf (newReader src (unpFrom st1) (start + 1)) in (a, b) else (nullSpan, nullSpan)) as [lspan linner] eqn:Elb.
  specialize (Hlab lspan linner eq_refl).
  rewrite unp_rt, Eu1.
  assert (Efail : (setStk (addText (rt st1) start (start + 1)) (delStack (stk st1) odi (odi + 1)), start + 1) =
                  (rt (fst (setStk (addText st1 start (start + 1)) (delStack (stk st1) odi (odi + 1)), start + 1)), start + 1)).
  { rewrite rt_addText. reflexivity. }
  destruct isC.
  { rewrite (I_tlr rf U (pe bracket) start HU ltac:(lia)), rt_matchRef.
    destruct (negb (matchRef st1 _)); [exact Efail|].
    rewrite (surjective_pairing (wrap (rt st1) kind (d_node od) None)), (surjective_pairing (wrap st1 kind (d_node od) None)).
    change (snd (wrap (rt st1) kind (d_node od) None)) with (nid st1). change (snd (wrap st1 kind (d_node od) None)) with (nid st1).
    rewrite (wrap_upd src2 (mS U) re2 st1 kind (d_node od) _ (spanInsens_setRef (ps bracket) (start + 3) _)), rt_finishLinkG. reflexivity. }
  destruct (spanValid lspan) eqn:Evl.
  { destruct (Hlab eq_refl) as (B1 & B2 & B3).
    rewrite (unpFrom_rt st1 Eu1), (I_ct _ (fst linner) (snd linner) TextKind false (okS_unpFrom st1 Eu1) B3).
    set (lkids := collectTextNodes rf (newReader src (unpFrom st1) (fst linner)) (snd linner) TextKind false).
    rewrite (tlrK tf lkids (lkids_sE st1 (fst linner) (snd linner) Eu1 B2 B3)), rt_matchRef.
    destruct (negb (matchRef st1 _)); [exact Efail|].
    rewrite (surjective_pairing (wrap (rt st1) kind (d_node od) None)), (surjective_pairing (wrap st1 kind (d_node od) None)).
    change (snd (wrap (rt st1) kind (d_node od) None)) with (nid st1). change (snd (wrap st1 kind (d_node od) None)) with (nid st1).
    rewrite (wrap_app_upd src2 (mS U) re2 st1 kind (d_node od) _ _ (spanInsens_setSpan (ps bracket) (snd lspan))).
    match goal with |- context [advanceTo (EolFinalFullTokA.rt _ _ _ ?X) _] => rewrite (advanceTo_rt X (snd lspan - 1) Eu1 B1) end.
    rewrite rt_finishLinkG. reflexivity. }
  rewrite (I_tlr rf U (pe bracket) start HU ltac:(lia)), rt_matchRef.
  destruct (negb (matchRef st1 _)); [exact Efail|].
  rewrite (surjective_pairing (wrap (rt st1) kind (d_node od) None)), (surjective_pairing (wrap st1 kind (d_node od) None)).
  change (snd (wrap (rt st1) kind (d_node od) None)) with (nid st1). change (snd (wrap st1 kind (d_node od) None)) with (nid st1).
  rewrite (wrap_upd src2 (mS U) re2 st1 kind (d_node od) _ (spanInsens_setRef (ps bracket) (start + 1) _)), rt_finishLinkG. reflexivity.
Qed.
(* ---------- one step of the tokeniser ---------- *)
Hypothesis H62 : at_ src (L - 1) <> 62.
(* the last line holds no line ending *)
Hypothesis HnoEol : m = true -> forall u, In u U -> iend u = L -> forall i, istart u <= i < L -> isEOLz (at_ src i) = false.

Lemma addText_fields st a b : isrc (addText st a b) = isrc st /\ unp (addText st a b) = unp st /\ upos (addText st a b) = upos st /\ stk (addText st a b) = stk st.
Proof. unfold addText, addNode. destruct (spanLen a b =? 0); cbn; tauto. Qed.
Lemma P0_addText st a b : P0 st -> P0 (addText st a b).
Proof. intros (A & B & C). destruct (addText_fields st a b) as (F1 & F2 & F3 & _). unfold P0. rewrite F1, F2, F3. tauto. Qed.
Lemma spanEnd_addText st a b : spanEnd (addText st a b) = spanEnd st.
Proof. destruct (addText_fields st a b) as (F1 & F2 & F3 & _). unfold spanEnd. rewrite F1, F2, F3. reflexivity. Qed.
Lemma isLast_addText st a b : isLastSpan (addText st a b) = isLastSpan st.
Proof. destruct (addText_fields st a b) as (F1 & F2 & F3 & _). unfold isLastSpan. rewrite F2, F3. reflexivity. Qed.
Lemma unpFrom_addText st a b : unpFrom (addText st a b) = unpFrom st.
Proof. destruct (addText_fields st a b) as (F1 & F2 & F3 & _). unfold unpFrom. rewrite F2, F3. reflexivity. Qed.
Lemma curU_addText st a b : curU (addText st a b) = curU st.
Proof. destruct (addText_fields st a b) as (F1 & F2 & F3 & _). unfold curU. rewrite F3. reflexivity. Qed.

Lemma sub_rt st pos : P0 st -> 0 <= pos < spanEnd st ->
  (spanEnd (rt st) = spanEnd st /\ sub src2 pos (spanEnd (rt st)) = sub src pos (spanEnd st)) \/
  (m = true /\ spanEnd st = L /\ isLastSpan st = true /\ spanEnd (rt st) = L + 1 /\ sub src2 pos (L + 1) = sub src pos L ++ [10]).
Proof.
  intros H Hp. pose proof (spanEnd_le st H) as Hle. destruct (spanEnd_cases st H) as [[E _]|(A & B & C & D)].
  - left. split; [exact E|]. rewrite E. apply sub2; lia.
  - right. split; [exact A|]. split; [exact B|]. split; [exact D|]. split; [exact C|]. apply sub2L. lia.
Qed.

Definition hbFacts (pos : Z) : Prop := at_ src (L - 1) = 32 /\ at_ src (L - 2) = 32 /\ pos + 2 <= L.
Definition stepRel (st : ist) (pos ps : Z) (res2 : ist * Z * Z) : Prop :=
  let '(st1, pos1, ps1) := istepG rf tf pf st pos ps in
  res2 = (rt st1, pos1, ps1) \/
  (m = true /\ spanEnd st = L /\ st1 = st /\ ps1 = ps /\ pos1 = L /\ res2 = (rt st, L + 1, ps) /\ hbFacts pos).

Lemma bang_guard st pos : P0 st -> 0 <= pos < spanEnd st ->
  ((spanEnd (rt st) <=? pos + 1) || negb (at_ src2 (pos + 1) =? 91)) = ((spanEnd st <=? pos + 1) || negb (at_ src (pos + 1) =? 91)).
Proof.
  intros H Hp. pose proof (guard1 st (pos + 1) 91 H ltac:(pose proof (spanEnd_le st H); lia) ltac:(lia)) as G.
  rewrite !Z.leb_antisym. rewrite <- !negb_andb. f_equal. exact G.
Qed.

Lemma istep_rt st pos ps : P0 st -> istart (curU st) <= pos -> 0 <= pos < spanEnd st ->
  stepRel st pos ps (istepG rf tf pf (rt st) pos ps).
Proof.
  intros H Hlo Hp. pose proof (spanEnd_le st H) as Hle. pose proof H as (Es & Eu & Hu). unfold stepRel.
  assert (HPa : forall a b, P0 (addText st a b)) by (intros; apply P0_addText, H).
  assert (Hpa : forall a b, 0 <= pos < spanEnd (addText st a b)) by (intros; rewrite spanEnd_addText; exact Hp).
  unfold istepG. rewrite isrc_rt, Es, (at2p pos) by lia.
  destruct (at_ src pos =? 93) eqn:E93.
  { rewrite rt_addText, (peb_rt _ pos (HPa ps pos) (Hpa ps pos)). destruct (parseEndBracketG rf tf pf (addText st ps pos) pos) as [st1 e]. left. reflexivity. }
  unfold istepF. cbv zeta. rewrite isrc_rt, Es, (at2p pos) by lia. rewrite E93.
  destruct ((at_ src pos =? 42) || (at_ src pos =? 95)) eqn:Ed.
  { rewrite rt_addText, (pdr_rt _ pos (HPa ps pos) (Hpa ps pos)).
    2:{ apply orb_true_iff in Ed. destruct Ed as [Ed|Ed]; apply Z.eqb_eq in Ed; lia. }
    destruct (parseDelimiterRun (addText st ps pos) pos) as [st1 e]. left. reflexivity. }
  clear Ed. destruct (at_ src pos =? 91).
  { rewrite rt_addText, rt_addNode. destruct (addNode (addText st ps pos) TextKind pos (pos + 1) []) as [st1 id]. left. reflexivity. }
  destruct (at_ src pos =? 33).
  { rewrite (bang_guard st pos H Hp). destruct (_ || _); [left; reflexivity|].
    rewrite rt_addText, rt_addNode. destruct (addNode (addText st ps pos) TextKind pos (pos + 2) []) as [st1 id]. left. reflexivity. }
  destruct (Z.eqb_spec (at_ src pos) 32) as [E32|_].
  { rewrite (isLast_rt st Eu). destruct (sub_rt st pos H Hp) as [[E1 E2]|(A & B & C & D & E)].
    - rewrite E2. destruct (parseHardLineBreakSpace (sub src pos (spanEnd st))) as [e ok].
      destruct (ok && negb (isLastSpan st)); [|left; reflexivity].
      rewrite rt_addText, rt_addNode. left. reflexivity.
    - rewrite D, E, B, C. destruct (sub_head_at O src pos L ltac:(lia) ltac:(lia) ltac:(lia)) as (r & Er). rewrite E32 in Er.
      rewrite (phlb_app10 (sub src pos L)) by (rewrite Er; reflexivity).
      destruct (parseHardLineBreakSpace (sub src pos L)) as [e ok] eqn:Eh. cbn [fst snd]. destruct ok; cbn [negb andb]; [|left; reflexivity].
      right. destruct (parseHardLineBreakSpace_shape _ _ Eh) as (S1 & S2 & S3 & S4 & S5).
      rewrite (SpanSmall.len_sub src pos L ltac:(lia) ltac:(lia)) in S1.
      split; [exact A|]. split; [reflexivity|]. split; [reflexivity|]. split; [reflexivity|]. split; [lia|]. split; [f_equal; f_equal; lia|].
      assert (Hat : forall i, 0 <= i < e -> at_ (sub src pos L) i = at_ src (pos + i)) by (intros i Hi; apply SpanSmall.at_sub; lia).
      assert (Hne : forall i, pos <= i < L -> isEOLz (at_ src i) = false).
      { intros i Hi. apply (HnoEol A (curU st) (curU_In st Hu)); [rewrite <- (spanEnd_p st H); exact B|lia]. }
      assert (Hsp : forall i, 0 <= i < e -> at_ src (pos + i) = 32).
      { intros i Hi. destruct (Z_lt_le_dec i 2) as [Hi2|Hi2].
        - destruct (Z.eq_dec i 0) as [->|N]; [rewrite <- Hat by lia; exact S3|]. replace i with 1 by lia. rewrite <- Hat by lia. exact S4.
        - specialize (S5 i ltac:(lia)). rewrite Hat in S5 by lia. pose proof (Hne (pos + i) ltac:(lia)) as Hz. unfold isEOLz in Hz.
          destruct S5 as [S5|[S5|S5]]; [exact S5|rewrite S5 in Hz; discriminate|rewrite S5 in Hz; discriminate]. }
      unfold hbFacts. split; [replace (L - 1) with (pos + (e - 1)) by lia; apply Hsp; lia|]. split; [replace (L - 2) with (pos + (e - 2)) by lia; apply Hsp; lia|lia]. }
  destruct (Z.eqb_spec (at_ src pos) 96) as [E96|_].
  { assert (Ecs : parseCodeSpan rf (rt st) pos = parseCodeSpan rf st pos).
    { change (parseCodeSpan rf (rt st) pos) with (csBody rf (newReader src2 (unpFrom (rt st)) pos) pos).
      change (parseCodeSpan rf st pos) with (csBody rf (newReader (isrc st) (unpFrom st) pos) pos). rewrite Es, (unpFrom_rt st Eu).
      apply I_cs; [apply okS_unpFrom, Eu|lia]. }
    rewrite Ecs. destruct (parseCodeSpan rf st pos) as [[cS cE] sE] eqn:Ecp.
    destruct (Z.leb_spec 0 sE) as [HsE|HsE]; [|left; reflexivity].
    assert (Hok : spOK (isrc st) (unpFrom st) = true) by (rewrite Es; apply spOK_unpFrom, Eu).
    assert (Hfu : len (isrc st) - pos + ibudget (unpFrom st) < Z.of_nat rf) by (rewrite Es; pose proof (bigS_unpFrom st Eu) as Hb; unfold bigS in Hb; lia).
    destruct (parseCodeSpan_shape rf st pos cS cE sE Hok Hfu Ecp HsE) as (n & N1 & N2 & N3 & N4 & _ & _ & N5 & _).
    pose proof (parseCodeSpan_in0 rf st pos cS cE sE Hok Hfu Ecp HsE) as Hidx.
    assert (HcE : cE < L). { specialize (N5 cE ltac:(lia)). rewrite Es in N5. assert (Hnz : at_ src cE <> 0) by lia. apply at_nonzero_lt in Hnz. lia. }
    rewrite rt_addText. rewrite (ccs_rt (addText st ps pos) pos sE cS cE (HPa ps pos) ltac:(lia) HcE ltac:(rewrite unpFrom_addText; exact Hidx)).
    left. reflexivity. }
  destruct (Z.eqb_spec (at_ src pos) 60) as [E60|_].
  { assert (Eal : parseAutolink (sub src2 pos (spanEnd (rt st))) = parseAutolink (sub src pos (spanEnd st))).
    { destruct (sub_rt st pos H Hp) as [[E1 E2]|(A & B & C & D & E)]; [rewrite E2; reflexivity|]. rewrite D, E, B. apply parseAutolink_app10. }
    rewrite Eal. destruct (0 <=? parseAutolink (sub src pos (spanEnd st))).
    { rewrite rt_addText, rt_addNode. left. reflexivity. }
    rewrite (unpFrom_rt st Eu), (I_ht _ pos (okS_unpFrom st Eu) (bigS_unpFrom st Eu) ltac:(lia)).
    destruct (parseHTMLTag rf (newReader src (unpFrom st) pos)) as [ts te] eqn:Eht.
    destruct (spanValid (ts, te)) eqn:Ev; cbn [negb]; [|left; reflexivity].
    destruct (parseHTMLTag_shape rf (newReader src (unpFrom st) pos) ts te (spOK_unpFrom st Eu) Eht Ev) as (T1 & _ & T3 & T4 & T5).
    cbn [newReader r_src r_pos] in T1, T3, T5.
    assert (Hte : te < L). { destruct (Z.eq_dec te L) as [->|N]; [rewrite T3 in H62; congruence|lia]. }
    rewrite rt_addText, (unpFrom_rt (addText st ps ts)) by (apply (HPa ps ts)). rewrite !unpFrom_addText.
    rewrite (I_ct _ ts te RawHTMLKind false (okS_unpFrom st Eu) T5), rt_addNode.
    cbn [fst]. rewrite advanceTo_rt; [left; reflexivity| |exact Hte].
    destruct (addText_fields st ps ts) as (_ & F2 & _). unfold addNode. destruct (spanLen ts te =? 0); cbn; congruence. }
  destruct (at_ src pos =? 92).
  { rewrite rt_addText, (pbs_rt _ pos (HPa ps pos) (Hpa ps pos)). destruct (parseBackslash (addText st ps pos) pos) as [st1 e]. left. reflexivity. }
  destruct (at_ src pos =? 38).
  { assert (Epc : parseCharacterEscape (sub src2 pos (spanEnd (rt st))) = parseCharacterEscape (sub src pos (spanEnd st))).
    { destruct (sub_rt st pos H Hp) as [[E1 E2]|(A & B & C & D & E)]; [rewrite E2; reflexivity|]. rewrite D, E, B. apply pce_app10. }
    rewrite Epc. destruct (_ <? 0); [left; reflexivity|]. rewrite rt_addText, rt_addNode. left. reflexivity. }
  destruct (at_ src pos =? 10).
  { rewrite rt_addText, (isLast_rt (addText st ps pos)) by (apply (HPa ps pos)). destruct (negb _); [rewrite rt_addNode|]; left; reflexivity. }
  destruct (Z.eqb_spec (at_ src pos) 13) as [E13|_]; [|left; reflexivity].
  assert (Hp1 : pos + 1 < L).
  { destruct (Z_lt_le_dec (pos + 1) L) as [Hl|Hl]; [exact Hl|]. exfalso. replace pos with (L - 1) in E13 by lia. unfold isEOLz in Hlast. rewrite E13 in Hlast. discriminate. }
  assert (Ew : ((pos + 1 <? spanEnd (rt (addText st ps pos))) && (at_ src2 (pos + 1) =? 10)) = ((pos + 1 <? spanEnd (addText st ps pos)) && (at_ src (pos + 1) =? 10))).
  { rewrite (at2p (pos + 1)) by lia. f_equal. rewrite spanEnd_addText.
    destruct (spanEnd_cases _ (HPa ps pos)) as [[E _]|(_ & E1 & E2 & _)]; [rewrite E, spanEnd_addText; reflexivity|]. rewrite spanEnd_addText in E1. rewrite E1, E2.
    destruct (Z.ltb_spec (pos + 1) (L + 1)); destruct (Z.ltb_spec (pos + 1) L); try reflexivity; lia. }
  rewrite rt_addText, Ew, (isLast_rt (addText st ps pos)) by (apply (HPa ps pos)). destruct (negb _); [rewrite rt_addNode|]; left; reflexivity.
Qed.
(* ---------- the tokeniser loop ---------- *)
Hypothesis Hpf : (8 * length src + 8 <= pf)%nat.
Hypothesis HUne : U <> [].
Local Notation K := (IFTokLoop.K src U).
Local Notation TKL := (IFTk4.TKL src U).
Definition lastEnd : Z := match rev U with l :: _ => iend l | [] => L end.
Lemma Hrf' : len src + ibudget U < Z.of_nat rf. Proof. unfold bigS in HbU. lia. Qed.

(* single-run facts about one step of run 1 (proved separately) *)
Definition StepB : Prop := forall st pos ps, K st pos -> TKL st pos -> upos st < len U -> pos < spanEnd st -> pos <= L ->
  let '(st1, pos1, ps1) := istepF rf tf st pos ps in
  pos1 <= L /\ (ps1 = ps \/ ps1 = pos1) /\ (m = true -> lastEnd = L -> len U <= upos st1 -> pos1 < L).

(* --- the single-run facts --- *)
Lemma last_in_from k l r : 0 <= k < len U -> rev U = l :: r -> In l (from_ U k).
Proof.
  intros Hk Er. assert (EU : U = rev r ++ [l]) by (rewrite <- (rev_involutive U), Er; reflexivity).
  unfold from_. rewrite EU, skipn_app. apply in_or_app. right.
  assert (Hl : (Z.to_nat k <= length (rev r))%nat). { rewrite EU in Hk. unfold len in Hk. rewrite app_length in Hk. cbn [length] in Hk. lia. }
  replace (Z.to_nat k - length (rev r))%nat with O by lia. left. reflexivity.
Qed.
Lemma adv_last X : unp X = U -> 0 <= upos X < len U -> lastEnd = L -> upos (advanceTo X (L - 1)) < len U.
Proof.
  intros Eu Hu Hl. unfold lastEnd in Hl. destruct (rev U) as [|l r] eqn:Er.
  { exfalso. apply HUne. rewrite <- (rev_involutive U), Er. reflexivity. }
  pose proof (last_in_from (upos X) l r Hu Er) as Hin.
  assert (HinU : In l U) by (apply in_rev; rewrite Er; left; reflexivity).
  destruct (okS_In U l HU HinU) as (A & B & C).
  assert (Hh : spanHas l (L - 1) = true) by (apply spanHas_intro; lia).
  pose proof (nodeIdx_found src (unpFrom X) (L - 1) 0 l (spOK_unpFrom X Eu) ltac:(unfold unpFrom; rewrite Eu; exact Hin) Hh ltac:(lia)) as H0.
  pose proof (nodeIdx_lt (unpFrom X) (L - 1) 0 ltac:(lia) H0) as H1.
  assert (Hlen : len (unpFrom X) = len U - upos X).
  { unfold unpFrom. rewrite Eu. unfold from_, len. rewrite skipn_length. unfold len in Hu. lia. }
  unfold advanceTo, nodeIndexForPosition. destruct (Z.leb_spec 0 (nodeIdx (unpFrom X) (L - 1) 0)) as [Hz|Hz]; [|lia]. cbn [upos setUpos]. lia.
Qed.
Lemma cs_open_le : forall f r n c, RB L r -> c <= L -> snd (cs_open f r n c) <= L /\
  match fst (cs_open f r n c) with Some (_, _, c1) => c1 <= L | None => True end.
Proof.
  induction f as [|f IH]; intros r n c HR Hc; [cbn; split; [exact Hc|exact I]|]. cbn [cs_open].
  destruct (cur r =? 96); [|cbn; split; exact Hc].
  pose proof (RB_next' L _ (RB_current L r HR)) as HR1. destruct (next (snd (current r))) as [ok r1]. cbn [snd] in HR1.
  pose proof HR1 as (_ & Hp1 & _). destruct ok; cbn [negb]; [|cbn; split; [exact Hp1|exact I]].
  apply IH; [exact HR1|exact Hp1].
Qed.
Lemma parseCodeSpan_cS_le st pos : P0 st -> pos <= L -> fst (fst (parseCodeSpan rf st pos)) <= L.
Proof.
  intros (Es & Eu & Hu) Hp. unfold parseCodeSpan. rewrite Es.
  pose proof (RB_newReader src (unpFrom st) pos (spOK_unpFrom st Eu) Hp) as HR.
  destruct (cs_open_le rf (newReader src (unpFrom st) pos) 0 pos HR Hp) as [A B].
  destruct (cs_open rf (newReader src (unpFrom st) pos) 0 pos) as [[[[r1 n] c1]|] c2]; cbn [fst snd] in *.
  - destruct (cs_close rf r1 n) as [ce se]. exact B.
  - exact A.
Qed.

Lemma upos_addText'' st a b : upos (addText st a b) = upos st. Proof. apply (addText_fields st a b). Qed.
Lemma upos_addNode st k a b ks : upos (fst (addNode st k a b ks)) = upos st.
Proof. unfold addNode. destruct (spanLen a b =? 0); reflexivity. Qed.
Lemma unp_addNode st k a b ks : unp (fst (addNode st k a b ks)) = unp st.
Proof. unfold addNode. destruct (spanLen a b =? 0); reflexivity. Qed.

(* parseEndBracket: where it ends, and the cursor afterwards *)
Definition stepOK (st : ist) (r : ist * Z) : Prop :=
  snd r <= L /\ (lastEnd = L -> len U <= upos (fst r) -> snd r < L).
Lemma stepOK_same st Y e : upos Y = upos st -> upos st < len U -> e <= L -> stepOK st (Y, e).
Proof. intros E Hu He. split; [exact He|]. cbn [fst snd]. intros _ Hx. lia. Qed.
Lemma stepOK_adv st X kind odi e : unp X = U -> 0 <= upos X < len U -> e <= L -> stepOK st (finishLink (advanceTo X (e - 1)) kind odi, e).
Proof.
  intros Eu Hu He. split; [exact He|]. cbn [fst snd]. intros Hl Hx. destruct (Z.eq_dec e L) as [->|N]; [|lia]. exfalso.
  pose proof (ux_finishLink (advanceTo X (L - 1)) kind odi) as Hf. unfold ux in Hf. rewrite Hf in Hx. pose proof (adv_last X Eu Hu Hl). lia.
Qed.

Lemma pebF_ok st start : P0 st -> 0 <= start < spanEnd st -> stepOK st (parseEndBracketF rf tf st start).
Proof.
  intros H Hst. pose proof (spanEnd_le st H) as Hle. pose proof H as (Es & _ & Hu).
  unfold parseEndBracketF. cbv zeta. rewrite Es.
  pose proof (P0_lookFor st H) as H1.
  assert (Hse1 : spanEnd (fst (lookForLinkOrImage st)) = spanEnd st).
  { unfold spanEnd. destruct (fr_lookFor st) as [F1 F2]. pose proof (ux_lookFor st) as X. unfold ux in X. rewrite F1, F2, X. reflexivity. }
  pose proof (ux_lookFor st) as Hux. unfold ux in Hux.
  destruct (lookForLinkOrImage st) as [st1 odi]. cbn [fst snd] in *. pose proof H1 as (Es1 & Eu1 & Hu1).
  assert (Hsame : forall Y e, upos Y = upos st1 -> e <= L -> stepOK st (Y, e)).
  { intros Y e E He. apply stepOK_same; [congruence|lia|exact He]. }
  destruct (odi <? 0); [apply Hsame; [apply upos_addText''|lia]|].
  set (od := nthD (stk st1) odi). set (kind := if d_typ od =? tImage then ImageKind else LinkKind). set (bracket := nodeOf st1 (d_node od)).
  pose proof (spOK_unpFrom st1 Eu1) as Hok1.
  set (tryI := if (start + 1 <? spanEnd st1) && (at_ src (start + 1) =? 40) then
                 let '(ispan, (dspan, dtext), (tspan, ttext)) := parseInlineLink rf st1 (start + 1) in
                 if spanValid ispan then Some (ispan, dspan, dtext, tspan, ttext) else None else None).
  assert (Hres : forall ispan dspan dtext tspan ttext, tryI = Some (ispan, dspan, dtext, tspan, ttext) -> snd ispan - 1 < L).
  { intros ispan dspan dtext tspan ttext E. unfold tryI in E. destruct (Z.ltb_spec (start + 1) (spanEnd st1)) as [Hg|Hg]; cbn [andb] in E; [|discriminate].
    destruct (at_ src (start + 1) =? 40); [|discriminate].
    destruct (parseInlineLink rf st1 (start + 1)) as [[ispan0 [dspan0 dtext0]] [tspan0 ttext0]] eqn:Ep.
    destruct (spanValid ispan0) eqn:Ev; [|discriminate]. inversion E; subst.
    destruct (parseInlineLink_end rf st1 (start + 1) ispan _ _ ltac:(rewrite Es1; exact Hok1) Ep Ev) as (_ & E41 & _).
    rewrite Es1 in E41. assert (Hnz : at_ src (snd ispan - 1) <> 0) by lia. pose proof (at_nonzero_lt src _ Hnz) as Hr. lia. }
  destruct tryI as [[[[[ispan dspan] dtext] tspan] ttext]|] eqn:Etr.
  { pose proof (Hres _ _ _ _ _ eq_refl) as R0.
    rewrite (surjective_pairing (wrap st1 kind (d_node od) None)).
    match goal with |- stepOK st (finishLink (advanceTo ?X _) _ _, _) => apply (stepOK_adv st X kind odi (snd ispan)) end; [| |lia];
      destruct (spanValid tspan); destruct (spanValid dspan); first [exact Eu1|exact Hu1]. }
  set (isC := (start + 2 <? spanEnd st1) && (at_ src (start + 1) =? 91) && (at_ src (start + 2) =? 93)).
  assert (HisC : isC = true -> start + 3 <= L).
  { unfold isC. intros E. apply andb_true_iff in E. destruct E as [E _]. apply andb_true_iff in E. destruct E as [E _]. apply Z.ltb_lt in E. lia. }
  assert (Hlab : forall lspan linner, (if negb isC && (start + 1 <? spanEnd st1) && (at_ src (start + 1) =? 91)
                  then let '(a, b, _) := parseLinkLabel rf (newReader src (unpFrom st1) (start + 1)) in (a, b) else (nullSpan, nullSpan)) = (lspan, linner) ->
            spanValid lspan = true -> snd lspan - 1 < L).
  { intros lspan linner E Hv. destruct (negb isC && (start + 1 <? spanEnd st1) && (at_ src (start + 1) =? 91)) eqn:Eg; [|inversion E; subst; discriminate].
    destruct (parseLinkLabel rf (newReader src (unpFrom st1) (start + 1))) as [[a b'] c] eqn:Ep. inversion E; subst a b'.
    assert (HRI : RI src (newReader src (unpFrom st1) (start + 1))) by (split; [reflexivity|exact Hok1]).
    destruct (parseLinkLabel_end src rf _ lspan linner c HRI Ep Hv) as (_ & E93 & _).
    assert (Hnz : at_ src (snd lspan - 1) <> 0) by lia. pose proof (at_nonzero_lt src _ Hnz) as Hr. lia. }
  destruct (if negb isC && (start + 1 <? spanEnd st1) && (at_ src (start + 1) =? 91)
            then let '(a, b, _) := parseLinkLabel rf (newReader src (unpFrom st1) (start + 1)) in (a, b) else (nullSpan, nullSpan)) as [lspan linner] eqn:Elb.
  specialize (Hlab lspan linner eq_refl).
  assert (Hfail : stepOK st (setStk (addText st1 start (start + 1)) (delStack (stk st1) odi (odi + 1)), start + 1)).
  { apply Hsame; [apply upos_addText''|lia]. }
  assert (Hfin : forall Y e, upos Y = upos st1 -> e <= L -> stepOK st (finishLink Y kind odi, e)).
  { intros Y e E He. apply Hsame; [|exact He]. pose proof (ux_finishLink Y kind odi) as Hf. unfold ux in Hf. congruence. }
  destruct isC eqn:EisC.
  { destruct (negb (matchRef st1 _)); [exact Hfail|]. rewrite (surjective_pairing (wrap st1 kind (d_node od) None)). apply Hfin; [reflexivity|]. specialize (HisC eq_refl). lia. }
  destruct (spanValid lspan) eqn:Evl.
  { specialize (Hlab eq_refl). destruct (negb (matchRef st1 _)); [exact Hfail|]. rewrite (surjective_pairing (wrap st1 kind (d_node od) None)).
    match goal with |- stepOK st (finishLink (advanceTo ?X _) _ _, _) => apply (stepOK_adv st X kind odi (snd lspan)) end; [exact Eu1|exact Hu1|lia]. }
  destruct (negb (matchRef st1 _)); [exact Hfail|]. rewrite (surjective_pairing (wrap st1 kind (d_node od) None)). apply Hfin; [reflexivity|lia].
Qed.

Lemma hbFacts_mono a b : hbFacts b -> a <= b -> hbFacts a.
Proof. unfold hbFacts. intros (A & B & C) H. repeat split; try assumption. lia. Qed.

Definition OutRel (r1 r2 : ist * Z) : Prop :=
  let '(st1, ps1) := r1 in let '(q1, qs) := r2 in
  addText q1 qs (spanEnd q1) = rt (addText st1 ps1 (spanEnd st1)) \/
  (m = true /\ 0 <= ps1 < L /\ spanEnd st1 = L /\ addText q1 qs (spanEnd q1) = addText (rt st1) ps1 (L + 1) /\ len U - 1 <= upos st1 /\
   (hbFacts ps1 \/ len U <= upos st1) /\ (forall d, In d (stk st1) -> d_node d < nid st1) /\ (exists u, In u U /\ iend u = L)).

Lemma spanEnd_out st : unp st = U -> len U <= upos st -> spanEnd st = lastEnd /\
  (spanEnd (rt st) = lastEnd \/ (m = true /\ lastEnd = L /\ spanEnd (rt st) = L + 1)).
Proof.
  intros Eu Hu. unfold spanEnd, lastEnd. rewrite unp_rt, upos_rt, len_mS, Eu. destruct (Z.leb_spec (len U) (upos st)); [|lia].
  rewrite mS_map, <- map_rev. destruct (rev U) as [|l r] eqn:Er.
  { exfalso. apply HUne. rewrite <- (rev_involutive U), Er. reflexivity. }
  cbn [map]. split; [reflexivity|].
  assert (Hl : In l U) by (apply in_rev; rewrite Er; left; reflexivity). destruct (okS_In U l HU Hl) as (A & B & C).
  destruct (mI_lim l C) as [_ [E|[E1 E2]]]; [left; exact E|]. right.
  split; [|split; [exact E1|exact E2]]. destruct m eqn:Em; [reflexivity|]. exfalso. unfold mI in E2. rewrite Em in E2. lia.
Qed.
Lemma spanLen0 a : spanLen a a = 0.
Proof. unfold spanLen. destruct (_ && _); lia. Qed.
Lemma addText_empty st a : addText st a a = st.
Proof. unfold addText, addNode. rewrite spanLen0. reflexivity. Qed.
Lemma istepF_nl st pos ps : at_ (isrc st) pos = 10 ->
  istepF rf tf st pos ps = ((if negb (isLastSpan (addText st ps pos)) then fst (addNode (addText st ps pos) SoftLineBreakKind pos (pos + 1) []) else addText st ps pos), pos + 1, pos + 1).
Proof. intros E. unfold istepF. cbv zeta. rewrite E. reflexivity. Qed.

Lemma K_P0 st pos : K st pos -> upos st < len U -> P0 st /\ istart (curU st) <= pos /\ 0 <= pos.
Proof. intros (A & B & C & D & E) Hu. split; [split; [exact A|split; [exact B|lia]]|]. split; [apply E, Hu|exact C]. Qed.


Lemma HStepB : StepB.
Proof.
  intros st pos ps HK HT Hu Hlt HpL. destruct (K_P0 st pos HK Hu) as (H0 & Hlo & Hp0). pose proof H0 as (Es & Eu & Hu').
  pose proof (spanEnd_le st H0) as Hle.
  assert (HPa : forall a b, P0 (addText st a b)) by (intros; apply P0_addText, H0).
  assert (Hpa : forall a b, 0 <= pos < spanEnd (addText st a b)) by (intros; rewrite spanEnd_addText; lia).
  assert (Hsame : forall Y e x, upos Y = upos st -> e <= L -> (x = ps \/ x = e) ->
            let '(st1, pos1, ps1) := (Y, e, x) in pos1 <= L /\ (ps1 = ps \/ ps1 = pos1) /\ (m = true -> lastEnd = L -> len U <= upos st1 -> pos1 < L)).
  { intros Y e x E He Hx. split; [exact He|]. split; [exact Hx|]. intros _ _ Hc. lia. }
  unfold istepF. cbv zeta. rewrite Es.
  destruct ((at_ src pos =? 42) || (at_ src pos =? 95)) eqn:Ed.
  { pose proof (parseDelimiterRun_shape (addText st ps pos) pos) as (_ & _ & P3). cbv zeta in P3. specialize (P3 ltac:(rewrite spanEnd_addText; lia)). rewrite spanEnd_addText in P3.
    pose proof (ux_parseDelimiterRun (addText st ps pos) pos) as X. unfold ux in X. rewrite upos_addText'' in X.
    destruct (parseDelimiterRun (addText st ps pos) pos) as [st1 e]. cbn [fst snd] in *. apply Hsame; [exact X|lia|right; reflexivity]. }
  clear Ed. destruct (at_ src pos =? 91).
  { pose proof (upos_addNode (addText st ps pos) TextKind pos (pos + 1) []) as X. rewrite upos_addText'' in X.
    destruct (addNode (addText st ps pos) TextKind pos (pos + 1) []) as [st1 id]. cbn [fst] in X. apply Hsame; [exact X|lia|right; reflexivity]. }
  destruct (at_ src pos =? 93).
  { pose proof (pebF_ok (addText st ps pos) pos (HPa ps pos) (Hpa ps pos)) as [Q1 Q2].
    destruct (parseEndBracketF rf tf (addText st ps pos) pos) as [st1 e]. cbn [fst snd] in *. split; [exact Q1|]. split; [right; reflexivity|]. intros _ Hl Hc. apply Q2; assumption. }
  destruct (at_ src pos =? 33).
  { destruct (Z.leb_spec (spanEnd st) (pos + 1)) as [Hs|Hs]; cbn [orb]; [apply Hsame; [reflexivity|lia|left; reflexivity]|].
    destruct (negb _); [apply Hsame; [reflexivity|lia|left; reflexivity]|].
    pose proof (upos_addNode (addText st ps pos) TextKind pos (pos + 2) []) as X. rewrite upos_addText'' in X.
    destruct (addNode (addText st ps pos) TextKind pos (pos + 2) []) as [st1 id]. cbn [fst] in X. apply Hsame; [exact X|lia|right; reflexivity]. }
  destruct (at_ src pos =? 32).
  { pose proof (hlb_bounds (sub src pos (spanEnd st))) as [B1 B2]. rewrite (SpanSmall.len_sub src pos (spanEnd st) ltac:(lia) Hle) in B2.
    destruct (parseHardLineBreakSpace (sub src pos (spanEnd st))) as [e ok]. cbn [fst] in *.
    destruct (ok && negb (isLastSpan st)); [|apply Hsame; [reflexivity|lia|left; reflexivity]].
    apply Hsame; [cbn [upos setIgn]; rewrite upos_addNode; apply upos_addText''|lia|right; reflexivity]. }
  destruct (at_ src pos =? 96).
  { pose proof (parseCodeSpan_cS_le st pos H0 HpL) as HcS.
    destruct (parseCodeSpan rf st pos) as [[cS cE] sE] eqn:Ecp. cbn [fst] in HcS.
    destruct (Z.leb_spec 0 sE) as [HsE|HsE]; [|apply Hsame; [reflexivity|exact HcS|left; reflexivity]].
    assert (Hok : spOK (isrc st) (unpFrom st) = true) by (rewrite Es; apply spOK_unpFrom, Eu).
    assert (Hfu : len (isrc st) - pos + ibudget (unpFrom st) < Z.of_nat rf) by (rewrite Es; pose proof (bigS_unpFrom st Eu) as Hb; unfold bigS in Hb; lia).
    destruct (parseCodeSpan_shape rf st pos cS cE sE Hok Hfu Ecp HsE) as (n & N1 & N2 & N3 & N4 & _ & _ & N5 & _).
    pose proof (parseCodeSpan_in0 rf st pos cS cE sE Hok Hfu Ecp HsE) as Hidx.
    assert (HsEL : sE <= L). { specialize (N5 (sE - 1) ltac:(lia)). rewrite Es in N5. assert (Hnz : at_ src (sE - 1) <> 0) by lia. apply at_nonzero_lt in Hnz. lia. }
    split; [exact HsEL|]. split; [right; reflexivity|]. intros _ _ Hc. exfalso.
    rewrite collectCodeSpan_upos, unpFrom_addText, upos_addText'' in Hc.
    pose proof (nodeIdx_lt (unpFrom st) cE 0 ltac:(lia) Hidx) as Hx. fold (nodeIndexForPosition (unpFrom st) cE) in Hx.
    assert (Hlen : len (unpFrom st) = len U - upos st) by (unfold unpFrom; rewrite Eu; unfold from_, len; rewrite skipn_length; unfold len in Hu'; lia).
    destruct (Z.eqb_spec (nodeIndexForPosition (unpFrom st) cE) 0); lia. }
  destruct (at_ src pos =? 60).
  { destruct (Z.leb_spec 0 (parseAutolink (sub src pos (spanEnd st)))) as [Ha|Ha].
    { pose proof (parseAutolink_bounds _ Ha) as [_ B2]. rewrite (SpanSmall.len_sub src pos (spanEnd st) ltac:(lia) Hle) in B2.
      apply Hsame; [rewrite upos_addNode; apply upos_addText''|lia|right; reflexivity]. }
    destruct (parseHTMLTag rf (newReader src (unpFrom st) pos)) as [ts te] eqn:Eht.
    destruct (spanValid (ts, te)) eqn:Ev; cbn [negb]; [|apply Hsame; [reflexivity|lia|left; reflexivity]].
    destruct (parseHTMLTag_shape rf (newReader src (unpFrom st) pos) ts te (spOK_unpFrom st Eu) Eht Ev) as (T1 & _ & T3 & T4 & T5).
    cbn [newReader r_src r_pos] in T1, T3, T5. split; [exact T5|]. split; [right; reflexivity|]. intros _ _ _.
    destruct (Z.eq_dec te L) as [->|N]; [rewrite T3 in H62; congruence|lia]. }
  destruct (at_ src pos =? 92).
  { pose proof (ux_parseBackslash (addText st ps pos) pos) as X. unfold ux in X. rewrite upos_addText'' in X.
    assert (Hb : snd (parseBackslash (addText st ps pos) pos) <= L).
    { unfold parseBackslash. cbv zeta. rewrite spanEnd_addText. destruct (Z.leb_spec (spanEnd st) (pos + 1)) as [Hs|Hs]; cbn [orb].
      - destruct (isLastSpan _); cbn [snd]; [lia|]. pose proof (eolRun_bounds (length (isrc (addText st ps pos))) (isrc (addText st ps pos)) (pos + 1) (spanEnd st)) as [B1 B2].
        (* spanEnd st <= pos + 1 and pos < spanEnd st : pos + 1 = spanEnd st *) specialize (B2 ltac:(lia)). lia.
      - destruct (_ || _).
        + destruct (isLastSpan _); cbn [snd]; [lia|]. pose proof (eolRun_bounds (length (isrc (addText st ps pos))) (isrc (addText st ps pos)) (pos + 1) (spanEnd st)) as [B1 B2]. specialize (B2 ltac:(lia)). lia.
        + destruct (isASCIIPunctuation _); cbn [snd]; lia. }
    destruct (parseBackslash (addText st ps pos) pos) as [st1 e]. cbn [fst snd] in *. apply Hsame; [exact X|exact Hb|right; reflexivity]. }
  destruct (at_ src pos =? 38).
  { destruct (Z.ltb_spec (parseCharacterEscape (sub src pos (spanEnd st))) 0) as [He|He]; [apply Hsame; [reflexivity|lia|left; reflexivity]|].
    pose proof (parseCharacterEscape_bounds _ He) as [_ B2]. rewrite (SpanSmall.len_sub src pos (spanEnd st) ltac:(lia) Hle) in B2.
    apply Hsame; [rewrite upos_addNode; apply upos_addText''|lia|right; reflexivity]. }
  destruct (at_ src pos =? 10).
  { apply Hsame; [destruct (negb _); [rewrite upos_addNode|]; apply upos_addText''|lia|right; reflexivity]. }
  destruct (at_ src pos =? 13); [|apply Hsame; [reflexivity|lia|left; reflexivity]].
  rewrite spanEnd_addText. destruct (Z.ltb_spec (pos + 1) (spanEnd st)) as [Hs|Hs]; cbn [andb].
  - destruct (at_ src (pos + 1) =? 10); (apply Hsame; [destruct (negb _); [rewrite upos_addNode|]; apply upos_addText''|lia|right; reflexivity]).
  - apply Hsame; [destruct (negb _); [rewrite upos_addNode|]; apply upos_addText''|lia|right; reflexivity].
Qed.

Lemma iloop_rt : forall f st pos ps, K st pos -> TKL st pos -> 0 <= ps <= pos -> pos <= L ->
  (len U <= upos st -> m = true -> lastEnd = L -> pos < L) -> L + 1 - pos < Z.of_nat f ->
  OutRel (iloopG rf tf pf f st pos ps) (iloopG rf tf pf f (rt st) pos ps).
Proof.
  induction f as [|f IH]; intros st pos ps HK HT Hps HpL HA Hf; [lia|]. cbn [iloopG]. pose proof HK as (Es & Eu & Hp0 & Hu0 & _).
  rewrite unp_rt, upos_rt, len_mS, Eu.
  destruct (Z.ltb_spec (upos st) (len U)) as [Hu|Hu]; cbn [andb].
  2:{ (* the cursor is past the entries *)
      unfold OutRel. destruct (spanEnd_out st Eu Hu) as [E1 [E2|(A & B & C)]].
      - left. rewrite E1, E2, rt_addText. reflexivity.
      - right. rewrite E1, C. split; [exact A|]. split; [specialize (HA Hu A B); lia|]. split; [exact B|]. split; [reflexivity|]. split; [lia|]. split; [right; exact Hu|]. split; [intros d Hd; destruct HT as ((_ & _ & S1 & _) & _); apply S1, Hd|].
        unfold lastEnd in B. destruct (rev U) as [|l0 r0] eqn:Er0; [exfalso; apply HUne; rewrite <- (rev_involutive U), Er0; reflexivity|].
        exists l0. split; [apply in_rev; rewrite Er0; left; reflexivity|exact B]. }
  destruct (K_P0 st pos HK Hu) as (H0 & Hlo & _).
  destruct (Z.ltb_spec pos (spanEnd st)) as [Hlt|Hge].
  - (* run 1 takes a step; so does run 2 *)
    assert (Hq : (pos <? spanEnd (rt st)) = true).
    { apply Z.ltb_lt. destruct (lim_rt st H0) as [_ [E|[_ E]]]; lia. }
    rewrite Hq. pose proof (istep_rt st pos ps H0 Hlo ltac:(lia)) as HS. unfold stepRel in HS.
    rewrite (istepG_eq src U HOK rf tf pf Hpf st pos ps HK HT) in *.
    destruct (istepF_prog src U HOK rf tf Hrf' st pos ps HK Hu Hlt) as [P1 P2].
    pose proof (istepF_TKL src U HOK rf tf Hrf' st pos ps HK Hu Hlt HT) as P3.
    pose proof (HStepB st pos ps HK HT Hu Hlt HpL) as P4.
    destruct (istepF rf tf st pos ps) as [[st1 pos1] ps1]. cbn [fst snd] in *. destruct P4 as (B1 & B2 & B3).
    destruct HS as [HS|(A & B & C & D & E & F & G)].
    + rewrite HS. apply IH; [exact P2|exact P3|destruct B2; lia|exact B1|intros; apply B3; assumption|lia].
    + rewrite F. subst st1 ps1 pos1.
      assert (E1 : iloopG rf tf pf f st L ps = (st, ps)).
      { destruct f as [|f']; [reflexivity|]. cbn [iloopG]. rewrite B. rewrite Z.ltb_irrefl, andb_false_r. reflexivity. }
      assert (Eq : spanEnd (rt st) = L + 1). { destruct (spanEnd_cases st H0) as [[_ [X|X]]|(_ & _ & X & _)]; [congruence|lia|exact X]. }
      assert (E2 : iloopG rf tf pf f (rt st) (L + 1) ps = (rt st, ps)).
      { destruct f as [|f']; [reflexivity|]. cbn [iloopG]. rewrite Eq. rewrite Z.ltb_irrefl, andb_false_r. reflexivity. }
      rewrite E1, E2. unfold OutRel. right. destruct G as (G1 & G2 & G3).
      assert (Hlast' : isLastSpan st = true). { destruct (spanEnd_cases st H0) as [[_ [X|X]]|(_ & _ & _ & X)]; [congruence|lia|exact X]. }
      unfold isLastSpan in Hlast'. rewrite Eu in Hlast'. apply Z.leb_le in Hlast'.
      split; [exact A|]. split; [lia|]. split; [exact B|]. split; [rewrite Eq; reflexivity|]. split; [exact Hlast'|]. split; [left; apply (hbFacts_mono ps pos); [split; [exact G1|split; [exact G2|exact G3]]|lia]|]. split; [intros d Hd; destruct HT as ((_ & _ & S1 & _) & _); apply S1, Hd|].
      exists (curU st). split; [apply curU_In; lia|rewrite <- (spanEnd_p st H0); exact B].
  - (* run 1 stops *)
    destruct (spanEnd_cases st H0) as [[E Hc]|(A & B & C & D)].
    + rewrite E. replace (pos <? spanEnd st) with false by (symmetry; apply Z.ltb_ge; lia). unfold OutRel. left. rewrite E, rt_addText. reflexivity.
    + assert (Epos : pos = L) by lia. subst pos. rewrite C. replace (L <? L + 1) with true by (symmetry; apply Z.ltb_lt; lia).
      unfold istepG. rewrite isrc_rt, (at2_L src HL Hlast). change (10 =? 93) with false. cbv iota.
      rewrite (istepF_nl (rt st) L ps) by (rewrite isrc_rt; apply (at2_L src HL Hlast)).
      rewrite rt_addText, (isLast_rt (addText st ps L)) by (apply P0_addText, H0). rewrite isLast_addText, D. cbn [negb].
      assert (E2 : iloopG rf tf pf f (rt (addText st ps L)) (L + 1) (L + 1) = (rt (addText st ps L), L + 1)).
      { destruct f as [|f']; [reflexivity|]. cbn [iloopG].
        assert (Eq : spanEnd (rt (addText st ps L)) = L + 1).
        { destruct (spanEnd_cases _ (P0_addText st ps L H0)) as [[_ [X|X]]|(_ & _ & X & _)]; [congruence|rewrite spanEnd_addText in X; lia|exact X]. }
        rewrite Eq, Z.ltb_irrefl, andb_false_r. reflexivity. }
      rewrite E2. unfold OutRel. left.
      assert (Eq : spanEnd (rt (addText st ps L)) = L + 1).
      { destruct (spanEnd_cases _ (P0_addText st ps L H0)) as [[_ [X|X]]|(_ & _ & X & _)]; [congruence|rewrite spanEnd_addText in X; lia|exact X]. }
      rewrite Eq, addText_empty, B. reflexivity.
Qed.
(* ---------- the loop over the entries ---------- *)
Variable lf : nat.
Hypothesis Hlf : L + 1 < Z.of_nat lf.
Hypothesis HkU : forall u, In u U -> ikind u = UnparsedKind \/ ikind u = IndentKind.
Local Notation OI := (IFTk5.OI src U).

Definition HbLike (p q : ist) : Prop :=
  exists st1 ps1, m = true /\ 0 <= ps1 < L /\ p = addText st1 ps1 L /\ q = addText (rt st1) ps1 (L + 1) /\ len U - 1 <= upos st1 /\
                  (hbFacts ps1 \/ len U <= upos st1) /\ (forall d, In d (stk st1) -> d_node d < nid st1) /\ (exists u, In u U /\ iend u = L).

Lemma obody_rt st : OI st -> upos st < len U ->
  obodyG rf tf pf lf (rt st) = rt (obodyG rf tf pf lf st) \/ HbLike (obodyG rf tf pf lf st) (obodyG rf tf pf lf (rt st)).
Proof.
  intros (Es & Eu & Hu0 & T & HLd) Hu. unfold obodyG. cbv zeta. rewrite unp_rt, upos_rt, Eu, nth_mS, mI_kind.
  set (u := nth (Z.to_nat (upos st)) U d0).
  assert (Hin : In u U) by (apply nth_In; unfold len in Hu; lia).
  destruct (okS_In U u HU Hin) as (A1 & A2 & A3).
  assert (H0 : P0 st) by (split; [exact Es|split; [exact Eu|lia]]).
  destruct (HkU u Hin) as [Ek|Ek]; rewrite Ek.
  2:{ change (IndentKind =? 0) with false. cbv iota. rewrite Z.eqb_refl. left.
      assert (Em : mI u = u) by (unfold mI; destruct m; [apply bumpI_indentK, Ek|reflexivity]). rewrite Em.
      change (ign (rt st)) with (ign st). destruct (negb (ign st)); reflexivity. }
  change (UnparsedKind =? 0) with false. change (UnparsedKind =? IndentKind) with false. cbv iota. rewrite Z.eqb_refl.
  rewrite mI_start, isrc_rt, Es. change (ign (rt st)) with (ign st). rewrite <- rt_setIgn.
  pose proof (spanEnd_p st H0) as Ese. fold (curU st) in Ese. change (curU st) with u in Ese.
  set (pos := if ign st then skipSpTab (length src) src (istart u) (spanEnd st) else istart u).
  assert (Epos : (if ign st then skipSpTab (length src2) src2 (istart u) (spanEnd (rt st)) else istart u) = pos).
  { unfold pos. destruct (ign st); [|reflexivity]. apply skipSpTab_ext; [apply lim_rt, H0|lia|unfold len in *; lia|rewrite length2; unfold len in *; lia]. }
  rewrite Epos.
  assert (Hpr : istart u <= pos <= spanEnd st).
  { unfold pos. destruct (ign st); [|lia]. pose proof (skipSpTab_bounds (length src) src (istart u) (spanEnd st)) as [B1 B2]. specialize (B2 ltac:(lia)). lia. }
  assert (HK : K (setIgn st false) pos).
  { split; [exact Es|]. split; [exact Eu|]. split; [lia|]. split; [exact Hu0|]. intros _. cbn [upos setIgn]. fold u. lia. }
  assert (HSb : Sb src U st = istart u) by (unfold Sb; destruct (Z.ltb_spec (upos st) (len U)); [reflexivity|lia]).
  assert (HT : TKL (setIgn st false) pos).
  { destruct (G_setIgn (nid st) st st false (Good_refl _ _ T)) as [TQ Q]. split; [exact TQ|]. split; [lia|].
    unfold Eb. cbn [upos setIgn]. destruct (Z.ltb_spec (upos st) (len U)); [fold u; lia|lia]. }
  pose proof (iloop_rt lf (setIgn st false) pos pos HK HT ltac:(lia) ltac:(lia) ltac:(cbn [upos setIgn]; intros; lia) ltac:(lia)) as HR.
  unfold OutRel in HR. destruct (iloopG rf tf pf lf (setIgn st false) pos pos) as [st1 ps1]. destruct (iloopG rf tf pf lf (rt (setIgn st false)) pos pos) as [q1 qs].
  destruct HR as [HR|(B1 & B2 & B3 & B4 & B5 & B6 & B7 & B8)]; [left; exact HR|].
  right. exists st1, ps1. split; [exact B1|]. split; [exact B2|]. split; [rewrite B3; reflexivity|]. split; [exact B4|]. split; [exact B5|split; [exact B6|split; [exact B7|exact B8]]].
Qed.

Definition FinRel (p q : ist) : Prop :=
  q = rt p \/ exists st1 ps1, m = true /\ 0 <= ps1 < L /\ p = setUpos (addText st1 ps1 L) (upos st1 + 1) /\
                              q = setUpos (addText (rt st1) ps1 (L + 1)) (upos st1 + 1) /\ len U - 1 <= upos st1 /\
                              (hbFacts ps1 \/ len U <= upos st1) /\ (forall d, In d (stk st1) -> d_node d < nid st1) /\ (exists u, In u U /\ iend u = L).

Lemma upos_addText' st a b : upos (addText st a b) = upos st. Proof. apply (addText_fields st a b). Qed.

Lemma outer_rt : forall fuel st, OI st -> FinRel (outerG rf tf pf lf fuel st) (outerG rf tf pf lf fuel (rt st)).
Proof.
  induction fuel as [|f IH]; intros st HO; [left; reflexivity|]. rewrite !outerG_S. rewrite unp_rt, upos_rt, len_mS. pose proof HO as (_ & Eu & _). rewrite Eu.
  destruct (Z.leb_spec (len U) (upos st)) as [Hge|Hlt]; [left; reflexivity|].
  destruct (obody_step src U HOK rf tf pf Hrf' Hpf lf st HO Hlt) as [E1 O1]. rewrite <- E1 in O1.
  destruct (obody_rt st HO Hlt) as [E|(st1 & ps1 & B1 & B2 & B3 & B4 & B5 & B6 & B7 & B8)].
  - rewrite E. rewrite upos_rt, <- rt_setUpos. apply IH. exact O1.
  - rewrite B3, B4. rewrite !upos_addText', upos_rt.
    assert (Ex1 : forall X, unp X = U -> len U <= upos X -> outerG rf tf pf lf f X = X).
    { intros X EX HX. destruct f as [|f']; [reflexivity|]. rewrite outerG_S, EX. destruct (Z.leb_spec (len U) (upos X)); [reflexivity|lia]. }
    rewrite B3 in O1. destruct O1 as (_ & EuX & _). rewrite upos_addText' in EuX.
    rewrite (Ex1 _ EuX) by (cbn [upos setUpos]; lia).
    assert (Ex2 : forall X, unp X = mS U -> len U <= upos X -> outerG rf tf pf lf f X = X).
    { intros X EX HX. destruct f as [|f']; [reflexivity|]. rewrite outerG_S, EX, len_mS. destruct (Z.leb_spec (len U) (upos X)); [reflexivity|lia]. }
    rewrite Ex2; [|cbn [unp setUpos]; apply (addText_fields (rt st1) ps1 (L + 1))|cbn [upos setUpos]; lia].
    right. exists st1, ps1. repeat split; try assumption; lia.
Qed.
(* ---------- one leaf block ---------- *)
Variable matcher : list bytes.
Variables b b2 : block.
Variable ofu : nat.
Hypothesis Eb : bik b = U.
Hypothesis Eb2 : bik b2 = mS U.
Hypothesis Hre : bend b2 = re2.
Hypothesis HeokU : forallb GI6.eok U = true.
Hypothesis HbU9 : ibudget U <= L + 9.
Hypothesis Hind1 : ind1 U = true.
Hypothesis Hrf2 : (2 * length src + 10 <= rf)%nat.
Hypothesis Htf2 : (2 * length src + 10 <= tf)%nat.
Hypothesis Hofu : len U < Z.of_nat ofu.

Lemma st0_rt : st0 src2 matcher b2 = rt (st0 src matcher b).
Proof. unfold st0, EolFinalFullTokA.rt. cbn. rewrite Eb2, Hre. reflexivity. Qed.
Lemma OI0 : OI (st0 src matcher b).
Proof.
  split; [reflexivity|]. split; [exact Eb|]. split; [cbn; lia|]. split.
  - split; [split; [intros x _; cbn; lia|intros h []]|]. split; [cbn; lia|]. split; intros d [].
  - unfold load, Sb. cbn [stk st0 sumW upos]. unfold len at 1. cbn [length].
    destruct (Z.ltb_spec 0 (len U)) as [Lt|Lt]; [|pose proof (ShapesBase.len_nonneg src); lia].
    destruct (IFTokAux.spOK_In src U _ HOK (IFTokAux.nth_In_Z U 0 (mkI 0 0 0) ltac:(lia))) as (A & _). cbn in A |- *. lia.
Qed.
Definition Pfin : ist := outerG rf tf pf lf ofu (st0 src matcher b).
Lemma pfin_model : Pfin = outer (S (length U)) (st0 src matcher b).
Proof.
  unfold Pfin. destruct (outerG_eq src U HOK rf tf pf Hrf' Hpf lf ofu (st0 src matcher b) OI0) as [E _]. rewrite E.
  assert (HW : spW src U = true) by (apply spOK_spW, HOK).
  assert (Hg : IFTokRf.good src U (st0 src matcher b)) by (split; [reflexivity|exact Eb]).
  assert (R0 : len src + ibudget U < Z.of_nat (2 * length src + 10)) by (unfold len; unfold len in HbU9; lia).
  rewrite (outerF_rf src U HW rf (2 * length src + 10) Hrf' R0 tf lf ofu _ Hg).
  rewrite (outerF_tf src U HW Hind1 (2 * length src + 10) R0 tf (2 * length src + 10) ltac:(unfold len in *; lia) R0 lf ofu _ Hg).
  rewrite (outerF_fuel src U HOK (2 * length src + 10) (2 * length src + 10) R0 lf (S (length src)) ltac:(lia) ltac:(unfold len; lia) ofu (S (length U)) (st0 src matcher b) eq_refl Eb
             ltac:(cbn; lia) ltac:(cbn [upos st0]; lia) ltac:(cbn [upos st0]; unfold len; lia)).
  apply (outerF_model (S (length U)) (st0 src matcher b)).
Qed.
Lemma pfin_PEI : PEI true [] (sids (stk Pfin)) Pfin.
Proof.
  rewrite pfin_model. apply MI_PEI with (U := U). apply (MI_outer true src U HeokU (or_introl eq_refl)).
  - constructor; cbn; try reflexivity; try exact Eb; try lia; try (intros ? []); try constructor.
  - split; [reflexivity|split; [exact Eb|split; [cbn; lia|reflexivity]]].
Qed.

Definition advFail : Prop := len U < upos Pfin.
Definition txt (s e : Z) : inline := Inl TextKind s e 0 [] [].

Theorem leaf_rel :
  parseInlinesG rf tf pf lf ofu src2 matcher b2 = parseInlinesG rf tf pf lf ofu src matcher b \/
  (m = true /\ exists X ps, 0 <= ps < L /\ parseInlinesG rf tf pf lf ofu src matcher b = X ++ [txt ps L] /\
                             parseInlinesG rf tf pf lf ofu src2 matcher b2 = X ++ [txt ps (L + 1)] /\ (hbFacts ps \/ advFail) /\ (exists u, In u U /\ iend u = L)).
Proof.
  unfold parseInlinesG. rewrite st0_rt. pose proof pfin_PEI as HP. unfold advFail. unfold Pfin in *.
  destruct (outer_rt ofu (st0 src matcher b) OI0) as [E|(st1 & ps1 & B1 & B2 & Ep & Eq & B5 & B6 & B7 & B8)].
  - left. rewrite E, rt_processEmphasisF. reflexivity.
  - right. split; [exact B1|]. rewrite Ep, Eq in *. set (u1 := upos st1 + 1) in *.
    set (t := PN (nid st1) TextKind ps1 L 0 [] []). set (t' := PN (nid st1) TextKind ps1 (L + 1) 0 [] []).
    set (B := setUpos (bumpId st1) u1).
    assert (E1 : setUpos (addText st1 ps1 L) u1 = app1 B t).
    { unfold addText, addNode. replace (spanLen ps1 L =? 0) with false; [reflexivity|]. symmetry. apply Z.eqb_neq. unfold spanLen.
      destruct (Z.leb_spec 0 ps1); destruct (Z.leb_spec 0 L); destruct (Z.leb_spec ps1 L); cbn [andb]; lia. }
    assert (E2 : setUpos (addText (rt st1) ps1 (L + 1)) u1 = rt (app1 B t')).
    { unfold addText, addNode. replace (spanLen ps1 (L + 1) =? 0) with false; [reflexivity|]. symmetry. apply Z.eqb_neq. unfold spanLen.
      destruct (Z.leb_spec 0 ps1); destruct (Z.leb_spec 0 (L + 1)); destruct (Z.leb_spec ps1 (L + 1)); cbn [andb]; lia. }
    rewrite E1 in HP |- *. rewrite E2, rt_processEmphasisF.
    assert (Ht : ~ In (pid t) (sids (stk B))).
    { cbn [pid t]. change (stk B) with (stk st1). unfold sids. rewrite in_map_iff. intros (d & Ed & Hd). specialize (B7 d Hd). lia. }
    rewrite (processEmphasisF_app1 t eq_refl pf B HP Ht t eq_refl eq_refl).
    rewrite (processEmphasisF_app1 t eq_refl pf B HP Ht t' eq_refl eq_refl).
    exists (map toInline (rk (processEmphasisF pf B 0))), ps1. split; [exact B2|].
    change (rk (EolFinalFullTokA.rt src2 (mS U) re2 (app1 (processEmphasisF pf B 0) t'))) with (rk (processEmphasisF pf B 0) ++ [t']).
    change (rk (app1 (processEmphasisF pf B 0) t)) with (rk (processEmphasisF pf B 0) ++ [t]).
    rewrite !map_app. split; [reflexivity|]. split; [reflexivity|]. split; [|exact B8].
    destruct B6 as [B6|B6]; [left; exact B6|right]. change (upos (app1 B t)) with u1.
    unfold u1. lia.
Qed.
End Tok.
