From Coq Require Import List ZArith Lia Bool Permutation.
Import ListNotations.
Require Import Base Tree Inl3a SpanForest SpanIds.
Open Scope Z_scope.

(* ---- Z-indexed list facts ---- *)
Lemma len_app {A} (a b : list A) : len (a ++ b) = len a + len b.
Proof. unfold len. rewrite app_length. lia. Qed.
Lemma len_cons {A} (x : A) l : len (x :: l) = 1 + len l.
Proof. unfold len. cbn [length]. lia. Qed.
Lemma len_nonneg {A} (l : list A) : 0 <= len l. Proof. unfold len. lia. Qed.
Lemma len_nil {A} : len (@nil A) = 0. Proof. reflexivity. Qed.
Lemma from_app_len {A} (X Y : list A) i : i = len X -> from_ (X ++ Y) i = Y.
Proof. intros ->. unfold from_, len. rewrite Nat2Z.id. rewrite skipn_app, skipn_all, Nat.sub_diag. reflexivity. Qed.
Lemma upto_app_len {A} (X Y : list A) i : i = len X -> upto (X ++ Y) i = X.
Proof. intros ->. unfold upto, len. rewrite Nat2Z.id. rewrite firstn_app, firstn_all, Nat.sub_diag. cbn. apply app_nil_r. Qed.
Lemma nthD_app_len X d R i : i = len X -> nthD (X ++ d :: R) i = d.
Proof. intros ->. unfold nthD, len. rewrite Nat2Z.id. rewrite app_nth2 by lia. rewrite Nat.sub_diag. reflexivity. Qed.
Lemma delStack_spec {A} (X M R : list A) i j : i = len X -> j = len X + len M -> delStack (X ++ M ++ R) i j = X ++ R.
Proof.
  intros -> ->. unfold delStack. rewrite upto_app_len by reflexivity. f_equal.
  rewrite app_assoc. apply from_app_len. rewrite len_app. reflexivity.
Qed.
Lemma stack_split (D : list delim) i : 0 <= i < len D -> exists X R, D = X ++ nthD D i :: R /\ len X = i.
Proof.
  intros H. unfold len in H. exists (firstn (Z.to_nat i) D), (skipn (S (Z.to_nat i)) D). split.
  - unfold nthD. rewrite <- (firstn_skipn (Z.to_nat i) D) at 1. f_equal.
    assert (Hl : (Z.to_nat i < length D)%nat) by lia.
    revert Hl. generalize (Z.to_nat i). clear. intros k. revert D. induction k as [|k IH]; intros D Hl.
    + destruct D; [cbn in Hl; lia|reflexivity].
    + destruct D as [|x D]; [cbn in Hl; lia|]. cbn [skipn nth]. apply IH. cbn in Hl. lia.
  - unfold len. rewrite firstn_length. lia.
Qed.
Lemma split_pre {A} (X : list A) k : 0 <= k <= len X -> exists X1 X2, X = X1 ++ X2 /\ len X1 = k.
Proof.
  intros H. exists (firstn (Z.to_nat k) X), (skipn (Z.to_nat k) X). split; [symmetry; apply firstn_skipn|].
  unfold len in *. rewrite firstn_length. lia.
Qed.

(* ---- delimiter nodes and the stack/forest relation ---- *)
Definition leafy (n : pn) : Prop := pkids n = [] /\ 0 < pid n /\ 0 <= ps n /\ ps n < pe n.
Fixpoint subIds (ds : list Z) (L : list pn) : Prop :=
  match ds with
  | [] => True
  | d :: ds' => exists pre n post, L = pre ++ n :: post /\ pid n = d /\ leafy n /\ subIds ds' post
  end.

Lemma subIds_appr : forall ds L X, subIds ds L -> subIds ds (L ++ X).
Proof.
  induction ds as [|d ds IH]; intros L X H; [exact I|]. cbn [subIds] in *.
  destruct H as (pre & n & post & -> & E & Hl & Hs). exists pre, n, (post ++ X). split; [rewrite <- app_assoc; reflexivity|].
  split; [exact E|]. split; [exact Hl|]. apply IH, Hs.
Qed.
Lemma subIds_appl ds L X : subIds ds L -> subIds ds (X ++ L).
Proof.
  destruct ds as [|d ds]; intros H; [exact I|]. cbn [subIds] in *.
  destruct H as (pre & n & post & -> & E & Hl & Hs). exists (X ++ pre), n, post. split; [rewrite <- app_assoc; reflexivity|]. tauto.
Qed.
Lemma subIds_cons n ds L : leafy n -> subIds ds L -> subIds (pid n :: ds) (n :: L).
Proof. intros A B. cbn [subIds]. exists [], n, L. tauto. Qed.
Lemma subIds_app : forall ds1 ds2 A B, subIds ds1 A -> subIds ds2 B -> subIds (ds1 ++ ds2) (A ++ B).
Proof.
  induction ds1 as [|d ds1 IH]; intros ds2 A B H1 H2; [apply subIds_appl; exact H2|]. cbn [app subIds] in *.
  destruct H1 as (pre & n & post & -> & E & Hl & Hs). exists pre, n, (post ++ B). split; [rewrite <- app_assoc; reflexivity|].
  split; [exact E|]. split; [exact Hl|]. apply IH; assumption.
Qed.
Lemma subIds_split : forall ds1 d ds2 L, subIds (ds1 ++ d :: ds2) L ->
  exists pre n post, L = pre ++ n :: post /\ pid n = d /\ leafy n /\ subIds ds1 pre /\ subIds ds2 post.
Proof.
  induction ds1 as [|a ds1 IH]; intros d ds2 L H; cbn [app subIds] in H.
  - destruct H as (pre & n & post & -> & E & Hl & Hs). exists pre, n, post. cbn [subIds]. tauto.
  - destruct H as (p & na & q & -> & Ea & Hla & Hs). destruct (IH d ds2 q Hs) as (pre & n & post & -> & E & Hl & H1 & H2).
    exists (p ++ na :: pre), n, post. split; [rewrite <- app_assoc; reflexivity|]. split; [exact E|]. split; [exact Hl|].
    split; [|exact H2]. cbn [subIds]. exists p, na, pre. tauto.
Qed.
Lemma subIds_drop : forall ds1 ds2 L, subIds (ds1 ++ ds2) L -> exists A B, L = A ++ B /\ subIds ds1 A /\ subIds ds2 B.
Proof.
  induction ds1 as [|a ds1 IH]; intros ds2 L H; cbn [app] in H.
  - exists [], L. cbn. tauto.
  - cbn [subIds] in H. destruct H as (p & na & q & -> & Ea & Hla & Hs). destruct (IH ds2 q Hs) as (A & B & -> & H1 & H2).
    exists (p ++ na :: A), B. split; [rewrite <- app_assoc; reflexivity|]. split; [|exact H2]. cbn [subIds]. exists p, na, A. tauto.
Qed.

(* ---- permutation / NoDup helpers for identities ---- *)
Lemma NoDup_remove_mid {A} (a b c : list A) : NoDup (a ++ b ++ c) -> NoDup (a ++ c).
Proof.
  intros H. apply NoDup_app_intro.
  - apply NoDup_app_l in H. exact H.
  - apply NoDup_app_r in H. apply NoDup_app_r in H. exact H.
  - intros x Ha Hc. eapply NoDup_app_disj; [exact H|exact Ha|]. apply in_or_app. right. exact Hc.
Qed.
Lemma Forall_perm {A} (P : A -> Prop) l l' : Permutation l l' -> Forall P l -> Forall P l'.
Proof. intros Hp H. rewrite Forall_forall in *. intros x Hx. apply H. eapply Permutation_in; [apply Permutation_sym; exact Hp|exact Hx]. Qed.
Lemma Forall_app_mid {A} (P : A -> Prop) (a b c : list A) : Forall P (a ++ b ++ c) -> Forall P (a ++ c).
Proof.
  intros H. rewrite Forall_forall in *. intros x Hx. apply H. apply in_app_or in Hx. apply in_or_app.
  destruct Hx as [Hx|Hx]; [left; exact Hx|right; apply in_or_app; right; exact Hx].
Qed.
