(* QRootEnd2.v -- t64-rootend, part 2: the invariant on the children of the root, one lemma per primitive of the line parser.
   RIl src l : every child of the root ends at a line boundary (RA); the last child, when open, is not a setext heading and, when
   it is a paragraph, its entries are as the invariant la describes them (PK) -- that is what closing it needs. *)
From Coq Require Import List ZArith Lia Bool.
Import ListNotations.
Require Import Base Tree Rdr Link Collect Html Recog LP Rules Starts Driver Leaf3e RdrBound L2Kind L2Kind2 L2CC TRdr TDefs TOcp TInv TDesc TStarts
  Rec17 BSTree LADef LA1 LA2 LAR1 BSOrph QRootEnd1.
Require NoPanic47.
Open Scope Z_scope.

Definition RA (src : bytes) (l : list block) : Prop := Forall (fun c => LB src (bend c)) l.
Definition RPl (src : bytes) (l : list block) : Prop :=
  forall pre c, l = pre ++ [c] -> isOpen c = true -> bkind c <> SetextHeadingKind /\ (bkind c = ParagraphKind -> PK src (bik c)).
Definition RIl (src : bytes) (l : list block) : Prop := RA src l /\ RPl src l.
Definition RI (p : lp) : Prop := RIl (source p) (ks p).

Lemma PK_nil src : PK src [].
Proof.
  split; [split; [constructor|exact I]|]. split; [exact I|]. exists 0, 0. split; [apply len_nonneg|].
  cbn [map tileS]. split; [lia|]. intros q Hq. lia.
Qed.

Lemma RIl_nil src : RIl src [].
Proof. split; [constructor|]. intros pre c E. destruct pre; discriminate. Qed.

Lemma RIl_ksRel src l l' : ksRel l l' -> RIl src l -> RIl src l'.
Proof.
  intros HK HR. destruct HK as [[E1 E2]|(pre & c & c' & E1 & E2 & (S1 & S2 & S3))]; subst l l'; [apply RIl_nil|].
  destruct HR as [A B]. split.
  - unfold RA in *. apply Forall_app in A. destruct A as [A1 A2]. apply Forall_app. split; [exact A1|].
    inversion A2; subst. constructor; [rewrite S1; assumption|constructor].
  - intros pre2 x E Ho. apply app_inj_tail in E. destruct E as [E3 E4]. subst pre2 x.
    assert (Ho' : isOpen c = true) by (unfold isOpen in *; rewrite <- S1; exact Ho).
    destruct (B pre c eq_refl Ho') as [B1 B2]. rewrite S2. split; [exact B1|]. intros Hk. rewrite (S3 Ho' Hk). apply B2, Hk.
Qed.

Lemma RIl_append src l nb : RIl src l -> bend nb < 0 -> bkind nb <> SetextHeadingKind -> bik nb = [] -> RIl src (l ++ [nb]).
Proof.
  intros [A B] Hb Hk Hi. split.
  - apply Forall_app. split; [exact A|constructor; [apply LB_neg; lia|constructor]].
  - intros pre c E _. apply app_inj_tail in E. destruct E as [-> ->]. split; [exact Hk|]. intros _. rewrite Hi. apply PK_nil.
Qed.

Lemma isParaKd_cases k : isParaKd k = true -> k = ParagraphKind \/ k = SetextHeadingKind.
Proof. unfold isParaKd. intros H. apply orb_true_iff in H. destruct H as [H|H]; apply Z.eqb_eq in H; tauto. Qed.

(* closing the last child of the root *)
Lemma RIl_close src pre c e fuel : RIl src (pre ++ [c]) -> 0 <= e -> LB src e -> fuel <> O -> RIl src (pre ++ closeBlock fuel src c e).
Proof.
  intros [A B] He Hl Hf. unfold RA in A. apply Forall_app in A. destruct A as [A1 A2]. inversion A2 as [|? ? Hc _]; subst.
  assert (Hp : isOpen c = true -> isParaKd (bkind c) = true -> PK src (bik c)).
  { intros Ho Hk. destruct (B pre c eq_refl Ho) as [B1 B2]. destruct (isParaKd_cases _ Hk) as [E|E]; [apply B2, E|contradiction]. }
  split.
  - apply Forall_app. split; [exact A1|apply closeBlock_LB; assumption].
  - intros pre2 x E Ho.
    destruct (isOpen c) eqn:Eo.
    + destruct (B pre c eq_refl Eo) as [B1 _].
      destruct (closeBlock_pcl fuel src c e He B1) as [Hcl|Hz]; [|contradiction].
      assert (Hx : In x (closeBlock fuel src c e)).
      { pose proof (closeBlock_ne fuel src c e) as Hne.
        destruct (list_snoc_cases (closeBlock fuel src c e)) as [E0|(q & y & E0)]; [contradiction|].
        rewrite E0 in E |- *. rewrite app_assoc in E. apply app_inj_tail in E. destruct E as [_ ->]. apply in_or_app. right. left. reflexivity. }
      rewrite Forall_forall in Hcl. specialize (Hcl x Hx). unfold pcl in Hcl.
      destruct (isParaKd (bkind x)) eqn:Ek; [rewrite (Hcl eq_refl) in Ho; discriminate|].
      unfold isParaKd in Ek. apply orb_false_iff in Ek. destruct Ek as [E1 E2]. apply Z.eqb_neq in E1, E2. split; [exact E2|contradiction].
    + rewrite (closeBlock_closed fuel src c e Eo) in E. apply app_inj_tail in E. destruct E as [_ ->]. rewrite Eo in Ho. discriminate.
Qed.

(* ---- on the line parser ---- *)
Lemma RI_sameT p p' : sameT p p' -> RI p -> RI p'.
Proof. intros (A & _ & _ & _ & B & _). unfold RI, ks. rewrite A, B. exact (fun x => x). Qed.
Lemma RI_ksRel p p' : RI p -> ksRel (ks p) (ks p') -> source p' = source p -> RI p'.
Proof. intros H0 H E. unfold RI. rewrite E. eapply RIl_ksRel; [exact H|exact H0]. Qed.
Lemma RI_root p p' : RI p -> root p' = root p -> source p' = source p -> RI p'.
Proof. intros H A B. unfold RI, ks. rewrite A, B. exact H. Qed.

Lemma RI_close0 p e : RI p -> 0 <= e -> LB (source p) e -> RI (closeLastChildAt p 0 e).
Proof.
  intros H He Hl. unfold RI. change (source (closeLastChildAt p 0 e)) with (source p).
  destruct (list_snoc_cases (ks p)) as [E|(pre & c & E)].
  - rewrite (ks_close0_nil p e E). apply RIl_nil.
  - rewrite (ks_close0_snoc p e pre c E). unfold RI in H. rewrite E in H. apply RIl_close; try assumption.
    destruct (bheight_S (root p)) as [n ->]. discriminate.
Qed.
Lemma RI_closeAt p d e : RI p -> (d = O -> 0 <= e /\ LB (source p) e) -> RI (closeLastChildAt p d e).
Proof.
  intros H Hd. destruct d as [|d]; [destruct (Hd eq_refl); apply RI_close0; assumption|].
  apply (RI_ksRel p _ H); [apply ksRel_close_deep; lia|reflexivity].
Qed.

(* appending a new open block below the container *)
Lemma RI_append p nb : RI p -> bend nb < 0 -> bkind nb <> SetextHeadingKind -> bik nb = [] -> RI (updCont p (appendNb nb)).
Proof.
  intros H Hb Hk Hi. unfold updCont. destruct (cdepth p) as [|d] eqn:Ed.
  - unfold RI, ks. cbn [updAt root withRoot setLP source]. unfold appendNb. rewrite bkids_set_bkids. apply RIl_append; assumption.
  - apply (RI_ksRel p _ H); [|reflexivity]. unfold ks. cbn [root withRoot setLP]. apply ksRel_updAt_f; [lia|apply shEq_appendNb].
Qed.

(* ---- the environment of one line ---- *)
Definition EVL (p : lp) : Prop :=
  line p = from_ (source p) (lineStart p) /\ lineStart p <= len (source p) /\ LB (source p) (lineStart p).
Lemma EVL_envS p p' : envS p p' -> EVL p -> EVL p'.
Proof. intros (A & B & C). unfold EVL. rewrite A, B, C. exact (fun x => x). Qed.
Lemma EVL_end p : CU p -> EVL p -> lineStart p + len (line p) = len (source p).
Proof. intros [H0 _] (A & B & _). rewrite A, len_from by lia. lia. Qed.
Lemma LB_line_end p : CU p -> EVL p -> li p = len (line p) -> LB (source p) (lineStart p + li p).
Proof. intros HC HE El. rewrite El, (EVL_end p HC HE). apply LB_end. Qed.

(* ---- the context carried through a line ---- *)
Definition Y0 (p : lp) : Prop := ccP p /\ CU p /\ EVL p /\ RI p.
Definition Y (p : lp) : Prop := st3 p /\ Y0 p.

Lemma Y0_sameT p p' : sameT p p' -> CU p' -> Y0 p -> Y0 p'.
Proof.
  intros HT HC (a & b & c & d). pose proof (envS_sameT _ _ HT) as He.
  split; [eapply ccP_same; [apply sameT_same, HT|exact a]|]. split; [exact HC|split; [eapply EVL_envS; eassumption|eapply RI_sameT; eassumption]].
Qed.
Lemma Y0_advance p n : Y0 p -> Y0 (advance p n).
Proof. intros H. eapply Y0_sameT; [apply sameT_advance|apply CU_advance, H|exact H]. Qed.
Lemma Y0_consumeIndent p n : Y0 p -> Y0 (consumeIndent p n).
Proof. intros H. eapply Y0_sameT; [apply sameT_consumeIndent|apply CU_consumeIndent, H|exact H]. Qed.
Lemma Y0_consumeLine p : Y0 p -> Y0 (consumeLine p).
Proof. intros H. eapply Y0_sameT; [apply sameT_consumeLine|apply CU_consumeLine, H|exact H]. Qed.
Lemma Y_advance p n : Y p -> Y (advance p n).
Proof. intros [a b]. split; [apply st3_advance, a|apply Y0_advance, b]. Qed.
Lemma Y_consumeIndent p n : Y p -> Y (consumeIndent p n).
Proof. intros [a b]. split; [apply st3_consumeIndent, a|apply Y0_consumeIndent, b]. Qed.
Lemma Y_consumeLine p : Y p -> Y (consumeLine p).
Proof. intros [a b]. split; [apply st3_consumeLine, a|apply Y0_consumeLine, b]. Qed.

Lemma RI_setters p f : setterOK f -> RI p -> RI (updCont p f).
Proof.
  intros Hf H. unfold updCont. destruct (cdepth p) as [|d] eqn:Ed.
  - unfold RI, ks. cbn [updAt root withRoot setLP source]. destruct (Hf (root p)) as (_ & _ & _ & _ & E). rewrite E. exact H.
  - apply (RI_ksRel p _ H); [|reflexivity]. unfold ks. cbn [root withRoot setLP]. apply ksRel_updAt_f; [lia|].
    intros x. destruct (Hf x) as (_ & B & C & D & _). apply shEq_full; assumption.
Qed.
Lemma Y0_setters p f : Y0 p -> setterOK f -> Y0 (updCont p f).
Proof.
  intros (a & b & c & d) Hf. split; [|split; [exact b|split; [exact c|apply RI_setters; assumption]]].
  apply ccP_updCont; [exact a|]. intros x _ Hx. destruct (Hf x) as (A & B & _). rewrite A, B. tauto.
Qed.
Lemma Y_setters p f : Y p -> setterOK f -> Y (updCont p f).
Proof. intros [a b] Hf. split; [exact a|apply Y0_setters; assumption]. Qed.

Lemma Y0_collectInline p kind n K : Y0 p -> ckind p K -> K <> ParagraphKind -> Y0 (collectInline p kind n).
Proof.
  intros (a & b & c & d) Hc HK. split; [apply ccP_collectInline, a|]. split; [apply CU_collectInline, b|].
  pose proof (envS_collectInline p kind n) as He. split; [eapply EVL_envS; eassumption|].
  apply (RI_ksRel p _ d); [eapply ksRel_collectInline; eassumption|apply He].
Qed.
Lemma Y_collectInline p kind n K : Y p -> ckind p K -> K <> ParagraphKind -> Y (collectInline p kind n).
Proof. intros [a b] Hc HK. split; [apply st3_collectInline, a|eapply Y0_collectInline; eassumption]. Qed.

(* ---- openBlock ---- *)
Lemma RI_openBlock_up : forall fuel p k, 0 <= lineStart p -> LB (source p) (lineStart p) -> RI p -> RI (openBlock_up fuel p k).
Proof.
  induction fuel as [|f IH]; intros p k H0 Hl H; [exact H|]. cbn [openBlock_up].
  destruct (canContain _ _); [exact H|]. destruct (cdepth p) as [|d] eqn:Ed; [apply (RI_root p _ H); reflexivity|].
  apply IH; [exact H0|exact Hl|]. apply (RI_root (closeLastChildAt p d (lineStart p))); [|reflexivity|reflexivity]. apply (RI_closeAt p d (lineStart p) H). intros _. split; assumption.
Qed.
Lemma RI_openBlock p k : 0 <= lineStart p -> LB (source p) (lineStart p) -> k <> SetextHeadingKind -> RI p -> RI (openBlock p k).
Proof.
  intros H0 Hl Hk H. unfold openBlock. destruct (_ || _); [apply (RI_root p _ H); reflexivity|]. cbv zeta.
  set (p0 := if state p =? stOpening then withState p stOpenMatched else p).
  assert (H1 : RI p0) by (eapply RI_sameT; [apply sameT_opened|exact H]).
  assert (E0 : lineStart p0 = lineStart p /\ source p0 = source p) by (unfold p0; destruct (_ =? _); split; reflexivity).
  destruct E0 as [E0 E0s].
  set (p1 := openBlock_up (S (cdepth p0)) p0 k).
  assert (H2 : RI p1) by (apply RI_openBlock_up; [lia|rewrite E0, E0s; exact Hl|exact H1]).
  destruct (curS_openBlock_up (S (cdepth p0)) p0 k) as [(A1 & A2 & A3) A4]. fold p1 in A1, A2, A3, A4.
  set (p2 := closeLastChildAt p1 (cdepth p1) (lineStart p1)).
  assert (H3 : RI p2) by (apply RI_closeAt; [exact H2|intros _; rewrite A1, A3, E0, E0s; split; [lia|exact Hl]]).
  apply (RI_root (updCont p2 (appendNb (newBlock k (lineStart p2 + li p2))))); [|reflexivity|reflexivity].
  apply (RI_append p2 (newBlock k (lineStart p2 + li p2)) H3); [cbn; lia|exact Hk|reflexivity].
Qed.

Lemma Y_openBlock p k : Y p -> st_open p -> k <> SetextHeadingKind ->
  (k <> ListItemKind \/ canContain (containerKind p) k = true) ->
  Y (openBlock p k) /\ (1 <= cdepth (openBlock p k))%nat /\ ckind (openBlock p k) k /\ state (openBlock p k) = stOpenMatched.
Proof.
  intros (a & b & c & d & e) Hs Hk Hcc.
  split; [|split; [apply NoPanic47.cdepth_openBlock, st_open_notdesc, Hs|split; [apply NoPanic47.ckind_openBlock3, a|apply state_openBlock, Hs]]].
  split; [apply st3_openBlock, a|]. split; [apply ccP_openBlock; assumption|]. pose proof (curS_openBlock p k) as Hcu.
  split; [eapply CU_curS; eassumption|]. split; [eapply EVL_envS; [apply Hcu|exact d]|].
  apply RI_openBlock; [apply c|apply d|exact Hk|exact e].
Qed.

(* ---- endBlock ---- *)
Lemma RI_endBlock p : RI p -> (cdepth p = 1%nat -> 0 <= lineStart p + li p /\ LB (source p) (lineStart p + li p)) -> RI (endBlock p).
Proof.
  intros H Hd. unfold endBlock. destruct (_ || _); [apply (RI_root p _ H); reflexivity|]. cbv zeta.
  set (p0 := if state p =? stOpening then withState p stOpenMatched else p).
  assert (H1 : RI p0) by (eapply RI_sameT; [apply sameT_opened|exact H]).
  assert (E0 : cdepth p0 = cdepth p /\ lineStart p0 = lineStart p /\ li p0 = li p /\ source p0 = source p) by (unfold p0; destruct (_ =? _); repeat split; reflexivity).
  destruct E0 as (E1 & E2 & E3 & E4).
  destruct (cdepth p0) as [|d] eqn:Ed; [apply (RI_root p0 _ H1); reflexivity|].
  apply (RI_root (closeLastChildAt p0 d (lineStart p0 + li p0))); [|reflexivity|reflexivity]. apply (RI_closeAt p0 d (lineStart p0 + li p0) H1).
  intros ->. rewrite E2, E3, E4. apply Hd. lia.
Qed.
Lemma Y_endBlock p : Y p -> (cdepth p = 1%nat -> li p = len (line p)) -> Y (endBlock p).
Proof.
  intros (a & b & c & d & e) Hd. split; [apply st3_endBlock, a|]. split; [apply ccP_endBlock, b|]. pose proof (curS_endBlock p) as Hcu.
  split; [eapply CU_curS; eassumption|]. split; [eapply EVL_envS; [apply Hcu|exact d]|].
  apply RI_endBlock; [exact e|]. intros E1. split; [destruct c; lia|apply LB_line_end; [exact c|exact d|apply Hd, E1]].
Qed.

(* ---- descendOpenBlocks, seen from the root ---- *)
Definition DSp (d : nat) (p p' : lp) : Prop :=
  envS p p' /\ CU p' /\
  (ksRel (ks p) (ks p') \/
   (d = O /\ exists p2, ksRel (ks p) (ks p2) /\ envS p p2 /\ li p2 = len (line p) /\ root p' = root (closeLastChildAt p2 0 (lineStart p2 + li p2)))).

Lemma descend_DSp : forall fuel p d, CU p -> DSp d p (snd (descend_loop fuel p d)).
Proof.
  induction fuel as [|f IH]; intros p d HC.
  { cbn [descend_loop snd]. split; [repeat split|]. split; [exact HC|]. left. apply ksRel_refl. }
  assert (Hexit : DSp d p (withCont p (Some d))) by (split; [repeat split|split; [exact HC|left; apply ksRel_refl]]).
  cbn [descend_loop]. cbv zeta.
  destruct (getAt (S d) (root p)) as [c|] eqn:Eg; [|exact Hexit].
  destruct (negb (isOpen c)); [exact Hexit|].
  destruct (negb (hasMatch (bkind c))); [exact Hexit|].
  set (p1 := withState (withCont p (Some (S d))) stDescending).
  assert (HC1 : CU p1) by exact HC.
  pose proof (matchRule_spec p1 eq_refl HC1) as (M1 & M2 & M3 & M4).
  destruct (matchRule p1) as [ok p2]. cbn [snd] in M1, M2, M3, M4. change (ks p1) with (ks p) in M1.
  assert (E12 : envS p p2) by exact M2.
  destruct M4 as [S3|(S4 & L4 & Ln)].
  - replace (state p2 =? stDescendTerminated) with false by (rewrite S3; reflexivity).
    destruct ok; cbn [negb].
    + destruct (IH p2 (S d) M3) as (A & B & C).
      split; [eapply envS_trans; eassumption|]. split; [exact B|]. left.
      destruct C as [C|(C & _)]; [|discriminate]. eapply ksRel_trans; eassumption.
    + cbn [snd]. split; [exact E12|]. split; [exact M3|]. left. exact M1.
  - replace (state p2 =? stDescendTerminated) with true by (rewrite S4; reflexivity). cbn [snd].
    split; [exact E12|]. split; [exact M3|]. destruct d as [|d].
    + right. split; [reflexivity|]. exists p2. split; [exact M1|]. split; [exact E12|]. split; [exact L4|reflexivity].
    + left. eapply ksRel_trans; [exact M1|]. apply (ksRel_close_deep p2 (S d)). lia.
Qed.

Lemma Y0_descend fuel p : Y0 p -> cdepth p = O -> Y0 (snd (descend_loop fuel p O)).
Proof.
  intros (a & b & c & d) Ed. pose proof (descend_DSp fuel p O b) as (D1 & D2 & D3).
  split; [apply ccP_descend_loop; [exact a|eexists; reflexivity]|]. split; [exact D2|]. split; [eapply EVL_envS; eassumption|].
  destruct D3 as [D3|(_ & p2 & K1 & K2 & K3 & K4)].
  - apply (RI_ksRel p _ d); [exact D3|apply D1].
  - assert (H2 : RI p2) by (apply (RI_ksRel p _ d); [exact K1|apply K2]).
    assert (HC2 : CU p2) by (destruct K2 as (A & B & _); unfold CU; rewrite A, B, K3; destruct b as [b1 b2]; split; [exact b1|lia]).
    assert (HE2 : EVL p2) by (eapply EVL_envS; eassumption).
    apply (RI_root (closeLastChildAt p2 0 (lineStart p2 + li p2))); [apply (RI_close0 p2 (lineStart p2 + li p2) H2)|exact K4|].
    3:{ destruct D1 as (_ & _ & A). destruct K2 as (_ & _ & B). change (source (closeLastChildAt p2 0 (lineStart p2 + li p2))) with (source p2). rewrite A, B. reflexivity. }
    + destruct HC2; lia.
    + apply LB_line_end; [exact HC2|exact HE2|]. destruct K2 as (_ & B & _). rewrite K3, B. reflexivity.
Qed.
