From Coq Require Import List ZArith Lia Bool.
Import ListNotations.
Require Import Base Tree Rdr Link Collect Html Recog LP Rules Starts Driver Render L2Kind L2CC GramDefs GramTree GramLP GramLP2 GramLP3 GramLP4
  Rec17 Rec18 BSOrph BSClose BSLine1 BSLine2 BSLine3 BSLine4 BSLine5 BSLine7 BSLine9
  TilBase TilDefs TilLP1 TilLP2 TilLP3 TilLP4 TilLP5 TilLP6 TilLP7 TilLP8 TilLP9 TilLP10.
Require L2Kind2.
Open Scope Z_scope.

(* ================= addLineText and one whole line ================= *)

Definition fblast (b : block) : block := match lastBlock b with Some c => set_lastBlocks b [set_blast c true] | None => b end.
Definition alP1 (p : lp) : lp := if isRestBlank p then updCont p fblast else p.
Definition alLlb (p : lp) : bool :=
  let cb := contBlock (alP1 p) in let k := bkind cb in
  isRestBlank p && negb ((k =? BlockQuoteKind) || (k =? FencedCodeBlockKind) ||
                              ((k =? ListItemKind) && (childCount cb =? 1) && (lineStart (alP1 p) <=? bstart cb))).
Definition alP2 (p : lp) : lp := withRoot (alP1 p) (setLastBlankUpTo (cdepth (alP1 p)) (alLlb p) (root (alP1 p))).
Definition tabCond (q : lp) : bool := (li q <? len (line q)) && (at_ (line q) (li q) =? 9) && (0 <? tabRem q) && (tabRem q <? 4).
Definition addInd (q : lp) : lp :=
  consumeIndent (updCont q (fun b => set_bik b (bik b ++ [Inl IndentKind (lineStart q + li q) (lineStart q + li q + 1) (tabRem q) [] []]))) (tabRem q).
Lemma addLineText_eq p : addLineText p =
  if acceptsLines (containerKind (alP1 p)) then goF (if tabCond (alP2 p) then addInd (alP2 p) else alP2 p)
  else if negb (isRestBlank p) then goF (consumeIndent (openBlock (alP2 p) ParagraphKind) (indent (openBlock (alP2 p) ParagraphKind)))
  else alP2 p.
Proof. unfold addLineText, goF, addInd, tabCond, alP2, alLlb, alP1, fblast. cbv zeta. reflexivity. Qed.

(* the blank-line flags do not matter *)
Lemma sameH_fblast x : sameH x (fblast x).
Proof. unfold fblast. destruct (lastBlock x); [apply sameH_set_lastBlocks|apply sameH_refl]. Qed.
Lemma sameH_set_blast x v : sameH x (set_blast x v). Proof. destruct x; repeat split. Qed.
Lemma ksim_fblast r : ksim (bkids r) (bkids (fblast r)).
Proof.
  unfold fblast. destruct (lastBlock r) as [c|] eqn:El; [|apply ksim_refl].
  unfold set_lastBlocks. rewrite bkids_set_bkids. rewrite (lastBlock_kids r c El) at 1. apply ksim_last, sameH_set_blast.
Qed.
Lemma ksim_setLastBlank v : forall d rt, ksim (bkids rt) (bkids (setLastBlankUpTo d v rt)).
Proof.
  assert (Step : forall d rt, ksim (bkids rt) (bkids (updAt d (fun b => set_blast b v) rt))).
  { intros [|d] rt; [cbn [updAt]; apply ksim_eq; destruct rt; reflexivity|]. apply ksim_updAt. intros _ x _. apply sameH_set_blast. }
  induction d as [|d IH]; intros rt; cbn [setLastBlankUpTo]; [apply Step|]. eapply ksim_trans; [apply Step|apply IH].
Qed.

Lemma TJ_alP1 p : TJ p -> TJ (alP1 p) /\ containerKind (alP1 p) = containerKind p /\ isRestBlank (alP1 p) = isRestBlank p /\ state (alP1 p) = state p.
Proof.
  intros [H HR]. unfold alP1. destruct (isRestBlank p) eqn:Eb; [|split; [split; assumption|repeat split; exact Eb]].
  assert (K1 : containerKind (updCont p fblast) = containerKind p).
  { apply L2Kind2.containerKind_updCont. intros b. unfold fblast. destruct (lastBlock b); [destruct b; reflexivity|reflexivity]. }
  split; [|split; [exact K1|split; [exact Eb|reflexivity]]].
  destruct H as (A & B & C). split; [split; [|split]|].
  - apply GI_updCont; [exact A| |].
    + intros b _ Hcb Hgb. unfold fblast. destruct (lastBlock b) as [c|] eqn:El; [|split; [exact Hcb|split; [exact Hgb|apply sameAs_refl]]].
      split; [|split; [|apply sameAs_set_lastBlocks]].
      * eapply cc_set_lastBlocks; [exact Hcb|exact El|]. constructor; [|constructor].
        rewrite cc_set_blast, bkind_set_blast. split; [eapply cc_lastBlock; eassumption|apply compat_refl].
      * eapply gb_set_lastBlocks; [exact Hgb|exact El|]. apply okRepl_one; [|left; apply sameAs_set_blast].
        rewrite gb_set_blast. eapply gb_lastBlock; eassumption.
    + intros b. unfold fblast. destruct (lastBlock b); [apply isOpen_set_lastBlocks|reflexivity].
  - eapply EV_fr; [apply fr_updCont|exact B].
  - apply (TT_ksim p); try reflexivity; [|exact C]. rewrite root_updCont.
    destruct (cdepth p) as [|d]; [cbn [updAt]; apply ksim_fblast|]. apply ksim_updAt. intros _ x _. apply sameH_fblast.
  - intros E. rewrite K1 in E. exact (HR E).
Qed.

Lemma TJ_alP2 p : TJ p -> TJ (alP2 p) /\ containerKind (alP2 p) = containerKind p /\ isRestBlank (alP2 p) = isRestBlank p /\
  state (alP2 p) = state p /\ containerKind (alP1 p) = containerKind p.
Proof.
  intros H. destruct (TJ_alP1 p H) as ([(A & B & C) HR1] & K1 & R1 & S1). unfold alP2.
  set (p1 := alP1 p) in *. set (v := alLlb p).
  assert (K2 : containerKind (withRoot p1 (setLastBlankUpTo (cdepth p1) v (root p1))) = containerKind p1).
  { unfold containerKind, contBlock, cdepth. cbn [root container withRoot setLP]. fold (cdepth p1).
    pose proof (L2Kind2.kindAt_setLastBlankUpTo v (cdepth p1) (cdepth p1) (root p1)) as E.
    destruct (getAt (cdepth p1) (setLastBlankUpTo _ _ _)); destruct (getAt (cdepth p1) (root p1)); cbn in E; try congruence; reflexivity. }
  split; [|split; [rewrite K2; exact K1|split; [exact R1|split; [exact S1|exact K1]]]].
  split; [split; [apply GI_setLastBlank; exact A|split]|].
  - eapply EV_fr; [|exact B]. apply fr_fields; reflexivity.
  - apply (TT_ksim p1); try reflexivity; [|exact C]. apply ksim_setLastBlank.
  - intros E. rewrite K2 in E. exact (HR1 E).
Qed.

(* ---- a blank rest ---- *)
Lemma rest_blank_range q : EV q -> isRestBlank q = true -> blankR (source q) (cur q) (len (source q)).
Proof.
  intros HE H. pose proof (EV_len q HE) as Hl. pose proof HE as (E1 & E2 & E3 & E4). unfold isRestBlank, rest in H.
  apply blankR_forallb in H. rewrite len_from in H by lia. intros i Hi. unfold cur in Hi.
  specialize (H (i - lineStart q - li q) ltac:(lia)). rewrite at_from in H by lia. rewrite (EV_at q) in H by (try exact HE; lia).
  replace (lineStart q + (li q + (i - lineStart q - li q))) with i in H by lia. exact H.
Qed.
Lemma FF_blank q : TJ q -> isRestBlank q = true -> FF q.
Proof.
  intros [(A & B & (CA & CB1 & CB2 & CD & CE & CF)) HR] Hb. pose proof (rest_blank_range q B Hb) as Hr.
  split; [exact CA|]. split; [exact CF|]. split; [exact CE|]. split.
  - intros c Hc Ho. destruct (cdepth q) as [|d] eqn:Ed.
    + eapply blankR_app; [apply (CB2 Ed c Hc Ho)|exact Hr].
    + exfalso. destruct (GI_top1 q A ltac:(lia)) as (c' & Hc' & Ho'). rewrite Hc in Hc'. inversion Hc'; subst c'. congruence.
  - intros c Hc Ho Hk. destruct (CD c Hc Ho Hk) as (m & P1 & P2 & P3). exists m. split; [exact P1|].
    destruct B as (B1' & B2 & B3 & B4). split; [lia|].
    pose proof (para_top_depth q c A Hc Hk) as Hd.
    destruct (cdepth q) as [|[|j]] eqn:Ed; [| |lia].
    + eapply blankR_app; [exact P3|]. eapply blankR_app; [|exact Hr]. apply sptR_blankR. apply CB1; [left; exact Ed|].
      intros c0 Hc0. rewrite Hc in Hc0. inversion Hc0; subst c0. exact Ho.
    + exfalso. assert (Ek : containerKind q = ParagraphKind) by (rewrite (contKind_top q c Ed Hc); exact Hk).
      specialize (HR Ek). congruence.
Qed.

Lemma li_lt_of_rest q : EV q -> isRestBlank q = false -> li q < len (line q).
Proof.
  intros (_ & _ & E3 & _) H. destruct (Z.eq_dec (li q) (len (line q))) as [E|N]; [|lia]. rewrite (rest_blank_end q E) in H. discriminate.
Qed.

Lemma acceptsLines_doc : acceptsLines documentKind = false. Proof. reflexivity. Qed.
Lemma isPara_accepts k : acceptsLines k = true -> k <> ParagraphKind -> isPara k = false.
Proof.
  unfold acceptsLines, isPara. intros H N. destruct (Z.eqb_spec k ParagraphKind); [contradiction|].
  destruct (Z.eqb_spec k SetextHeadingKind) as [->|]; [discriminate|reflexivity].
Qed.

(* the Indent entry in front of the line tail, for a container that is not a root paragraph *)
Lemma TI_addInd q : TI q -> cdepth q <> O -> (cdepth q = 1%nat -> forall c, top q = Some c -> isPara (bkind c) = false) ->
  nikK (containerKind q) = false ->
  TI (addInd q) /\ cdepth (addInd q) = cdepth q /\
  (cdepth q = 1%nat -> forall c, top (addInd q) = Some c -> isPara (bkind c) = false).
Proof.
  intros (A & B & C) Hd H1 Hn. unfold addInd.
  set (q1 := updCont q _).
  assert (K1 : ksim (bkids (root q)) (bkids (root q1))) by (apply ksim_ik; assumption).
  assert (T1 : TI q1).
  { split; [apply (GI_updCont_ik q _ (containerKind q)); [exact A|apply ckind_self|exact Hn]|].
    split; [eapply EV_fr; [apply fr_updCont|exact B]|]. apply (TT_ksim q); try reflexivity; [exact K1|exact C]. }
  split; [apply TI_consumeIndent, T1|]. split; [apply (cd_same q1), same_consumeIndent|].
  intros Ed c Hc. destruct (same_consumeIndent q1 (tabRem q)) as [R _]. unfold top in Hc. rewrite R in Hc.
  destruct (top_ksim q q1 K1) as [Ht _]. destruct (Ht c Hc) as (c0 & Hc0 & (S1 & _)). rewrite S1. apply (H1 Ed c0 Hc0).
Qed.

Lemma sf_openBlock_up : forall fuel p K, li (openBlock_up fuel p K) = li p.
Proof.
  induction fuel as [|f IH]; intros p K; [reflexivity|]. cbn [openBlock_up].
  destruct (canContain _ _); [reflexivity|]. destruct (cdepth p); [reflexivity|]. rewrite IH. reflexivity.
Qed.
Lemma li_openBlock p K : li (openBlock p K) = li p.
Proof.
  unfold openBlock. destruct (_ || _); [reflexivity|]. cbv zeta. cbn [li withCont updCont withRoot closeLastChildAt setLP].
  rewrite sf_openBlock_up. destruct (state p =? stOpening); reflexivity.
Qed.

Section WithOcp.
  Hypothesis HOP : OcpPara.

  Lemma FF_addLineText p : TJ p -> L2Kind2.goodSt p -> FF (addLineText p).
  Proof.
    intros H Hgs. rewrite addLineText_eq.
    destruct (TJ_alP2 p H) as ([Hq HRq] & Kq & Rq & Sq & K1). set (q := alP2 p) in *. rewrite K1.
    pose proof Hq as (A & B & C).
    destruct (acceptsLines (containerKind p)) eqn:Ea.
    - (* the container takes the line *)
      assert (Hd : cdepth q <> O).
      { intros E. rewrite <- Kq, (containerKind_root q E) in Ea. destruct A as ((A1 & _) & _). rewrite A1 in Ea. discriminate. }
      assert (Hn : nikK (containerKind q) = false) by (rewrite Kq; apply acceptsLines_nik, Ea).
      destruct (GI_top1 q A ltac:(lia)) as (c & Ht & Ho).
      destruct (Nat.eq_dec (cdepth q) 1) as [E1|N1].
      + assert (Ekc : bkind c = containerKind p) by (rewrite <- Kq; symmetry; apply contKind_top; assumption).
        destruct (Z.eq_dec (containerKind p) ParagraphKind) as [EP|NP].
        * (* a root paragraph *)
          assert (Hk : bkind c = ParagraphKind) by congruence.
          assert (Hnb : isRestBlank q = false) by (apply HRq; rewrite Kq; exact EP).
          pose proof (li_lt_of_rest q B Hnb) as Hli.
          destruct (tabCond q) eqn:Et.
          -- unfold tabCond in Et. apply andb_true_iff in Et. destruct Et as [Et _]. apply andb_true_iff in Et. destruct Et as [Et Et3].
             apply andb_true_iff in Et. destruct Et as [_ Et2]. apply Z.eqb_eq in Et2. apply Z.ltb_lt in Et3.
             unfold addInd. apply (FF_go_tab q c); assumption.
          -- apply (FF_go_para q c); assumption.
        * assert (H1 : cdepth q = 1%nat -> forall c0, top q = Some c0 -> isPara (bkind c0) = false).
          { intros _ c0 Hc0. rewrite Ht in Hc0. inversion Hc0; subst c0. rewrite Ekc. apply isPara_accepts; assumption. }
          destruct (tabCond q); [|apply FF_go_other; assumption].
          destruct (TI_addInd q Hq Hd H1 Hn) as (T3 & D3 & H3). apply FF_go_other; [exact T3|rewrite D3; exact Hd|rewrite D3; exact H3].
      + assert (H1 : cdepth q = 1%nat -> forall c0, top q = Some c0 -> isPara (bkind c0) = false) by (intros E; contradiction).
        destruct (tabCond q); [|apply FF_go_other; assumption].
        destruct (TI_addInd q Hq Hd H1 Hn) as (T3 & D3 & H3). apply FF_go_other; [exact T3|rewrite D3; exact Hd|rewrite D3; exact H3].
    - destruct (isRestBlank p) eqn:Eb; cbn [negb]; [apply FF_blank; [split; assumption|exact Rq]|].
      (* a new paragraph *)
      assert (So : st_open q) by (unfold st_open; rewrite Sq; exact (Hgs Ea)).
      set (q3 := openBlock q ParagraphKind).
      assert (H3 : TKL q3 ParagraphKind).
      { apply (TKL_openBlock HOP); [exact Hq|exact So| |discriminate]. apply GI_openBlock; [exact A|discriminate|discriminate|intros; reflexivity]. }
      set (q4 := consumeIndent q3 (indent q3)).
      assert (H4 : TKL q4 ParagraphKind) by (apply TKL_consumeIndent, H3).
      assert (D4 : (1 <= cdepth q4)%nat).
      { unfold q4. rewrite (cd_same q3 _ (same_consumeIndent q3 (indent q3))). unfold q3. rewrite (cdepth_openBlock q ParagraphKind So). lia. }
      assert (Hli4 : li q4 < len (line q4)).
      { destruct H3 as ((_ & B3 & _) & _ & _). pose proof (fr_cstep _ _ (cstep_consumeIndent q3 (indent q3))) as F34.
        pose proof (cur_consumeIndent_loop (S (length (line q3))) q3 (indent q3) B3) as Hspt. fold (consumeIndent q3 (indent q3)) in Hspt. fold q4 in Hspt.
        fold q4 in F34. destruct F34 as (F1 & F2 & F3 & F4). pose proof B3 as (_ & _ & X3 & _). specialize (F4 X3). rewrite F3.
        destruct (Z.eq_dec (li q4) (len (line q3))) as [E|N]; [exfalso|lia].
        assert (Hb3 : isRestBlank q3 = false).
        { unfold isRestBlank, rest, q3. rewrite li_openBlock. destruct (fr_openBlock q ParagraphKind) as (_ & _ & G3 & _). rewrite G3.
          fold (rest q). fold (isRestBlank q). exact Rq. }
        rewrite (rest_blank_spt q3 B3) in Hb3; [discriminate|]. replace (len (source q3)) with (cur q4); [exact Hspt|].
        pose proof (EV_len q3 B3). unfold cur. rewrite F2. lia. }
      destruct H4 as (T4 & _ & C4).
      destruct (Nat.eq_dec (cdepth q4) 1) as [E1|N1].
      + destruct (GI_top1 q4 (proj1 T4) ltac:(lia)) as (c & Ht & Ho).
        apply (FF_go_para q4 c); [exact T4|exact E1|exact Ht| |exact Hli4]. apply C4, top_cont1; assumption.
      + apply FF_go_other; [exact T4|lia|intros E; contradiction].
  Qed.
End WithOcp.
