From Coq Require Import List ZArith Lia Bool.
Import ListNotations.
Require Import Base Tree Rdr Link Collect Html Recog LP Rules Starts Driver L2Kind2 L2CC GramTree GramLP GramLP2 GramLP3 TDefs TOcp TInv TDesc StreamFuel BSLine1 BSLine3
  ReparseSwap ReparseOpen.
Open Scope Z_scope.

(* T50 continuation, file 5: descendOpenBlocks on a line with exactly one open root child c. *)

(* one match rule, run in state stDescending: it ends the block (fenced code, HTML; the whole line is consumed), or it only
   moves the cursor; a rule that fails without ending the block changes nothing *)
Definition endsBlock (q p2 : lp) : Prop :=
  state p2 = stDescendTerminated /\ (containerKind q = FencedCodeBlockKind \/ containerKind q = HTMLBlockKind) /\
  li p2 = len (line q) /\ 0 < len (line q).
Lemma matchRule_desc q : state q = stDescending -> CU q ->
  endsBlock q (snd (matchRule q)) \/
  (state (snd (matchRule q)) = stDescending /\ cstep q (snd (matchRule q)) /\ (fst (matchRule q) = false -> snd (matchRule q) = q)).
Proof.
  intros Hs HC. assert (Hn0 : state q <> stOpening) by (rewrite Hs; discriminate).
  assert (Hid : forall b, state (snd (b, q)) = stDescending /\ cstep q (snd (b, q)) /\ (fst (b, q) = false -> snd (b, q) = q)).
  { intros b. cbn [fst snd]. split; [exact Hs|]. split; [apply cstep_refl|reflexivity]. }
  assert (Hci : forall n, state (snd (true, consumeIndent q n)) = stDescending /\ cstep q (snd (true, consumeIndent q n)) /\
                          (fst (true, consumeIndent q n) = false -> snd (true, consumeIndent q n) = q)).
  { intros n. cbn [fst snd]. split; [rewrite state_consumeIndent_ne0; assumption|]. split; [apply cstep_consumeIndent|discriminate]. }
  unfold matchRule. cbv zeta.
  destruct (_ || _); [right; apply Hid|].
  destruct (_ =? ListItemKind).
  { unfold matchListItem. destruct (isRestBlank q); [destruct (negb _); right; [apply Hid|apply Hci]|]. destruct (_ <=? _); right; [apply Hci|apply Hid]. }
  destruct (_ =? BlockQuoteKind).
  { unfold matchBlockQuote. cbv zeta. destruct (_ <=? _); [right; apply Hid|]. destruct (negb _); [right; apply Hid|]. right. cbn [fst snd].
    unfold eatQuoteMarker. cbv zeta.
    set (q1 := consumeIndent q (indent q)). set (q2 := advance q1 1).
    assert (T2 : cstep q q2) by (eapply cstep_trans; [apply cstep_consumeIndent|apply cstep_advance]).
    assert (S2 : state q2 = stDescending).
    { unfold q2. rewrite state_advance_ne0; unfold q1; rewrite state_consumeIndent_ne0; assumption. }
    destruct (0 <? indent q2).
    - split; [rewrite state_consumeIndent_ne0; [exact S2|rewrite S2; discriminate]|]. split; [|discriminate].
      eapply cstep_trans; [exact T2|apply cstep_consumeIndent].
    - split; [exact S2|]. split; [exact T2|discriminate]. }
  destruct (containerKind q =? FencedCodeBlockKind) eqn:Ekf.
  { unfold matchFenced. cbv zeta.
    match goal with |- context [if ?c then (false, consumeLine q) else _] => destruct c eqn:Ecl end; [|right; apply Hci].
    left. cbn [snd]. split; [apply state_consumeLine_3, Hs|]. split; [left; apply Z.eqb_eq, Ekf|]. split; [apply li_consumeLine, HC|].
    apply len_pos_of_ne. intros El. unfold bytesAfterIndent in Ecl. rewrite (line_nil_rest q El) in Ecl.
    destruct (indent q <? codeBlockIndentLimit); [|discriminate]. vm_compute in Ecl. discriminate. }
  destruct (_ =? IndentedCodeBlockKind).
  { unfold matchIndented. cbv zeta. destruct (_ <? _); [destruct (negb _)|]; right; first [apply Hid|apply Hci]. }
  destruct (containerKind q =? HTMLBlockKind) eqn:Ek.
  { unfold matchHTML. destruct (htmlEnd _ _); [|right; apply Hid]. destruct (isRestBlank q) eqn:Eb; [right; apply Hid|]. left. cbn [snd].
    set (q' := collectInline q RawHTMLKind (len (bytesAfterIndent q))).
    assert (Eq : envS q q') by apply envS_collectInline.
    assert (Cq : CU q') by (apply CU_collectInline, HC).
    assert (Sq : state q' = stDescending) by (unfold q'; rewrite state_collectInline_ne0; assumption).
    split; [apply state_consumeLine_3, Sq|]. split; [right; apply Z.eqb_eq, Ek|]. destruct Eq as (_ & El & _).
    split; [rewrite <- El; apply li_consumeLine, Cq|].
    apply len_pos_of_ne. intros E0. unfold isRestBlank in Eb. rewrite (line_nil_rest q E0) in Eb. discriminate. }
  right. apply Hid.
Qed.

Lemma cstep_CU p p' : cstep p p' -> CU p -> CU p'.
Proof. intros (_ & (A & B & _) & C) [H1 H2]. specialize (C H2). unfold CU. rewrite A, B. split; [exact H1|lia]. Qed.

(* below the first level: the tree is left alone unless a block is ended, and the container ends up at depth >= d *)
Lemma descend_deep : forall fuel p d, state p = stDescending -> CU p ->
  let p' := snd (descend_loop fuel p d) in
  (state p' = stDescendTerminated \/ (state p' = stDescending /\ root p' = root p /\ env p p' /\ CU p')) /\
  exists d', container p' = Some d' /\ (d <= d')%nat.
Proof.
  induction fuel as [|f IH]; intros p d Hs HC; cbv zeta.
  { cbn [descend_loop snd]. split; [right; repeat split; try assumption; apply HC|exists d; split; [reflexivity|lia]]. }
  assert (Hexit : forall b : bool, let p' := snd (b, withCont p (Some d)) in
            (state p' = stDescendTerminated \/ (state p' = stDescending /\ root p' = root p /\ env p p' /\ CU p')) /\
            exists d', container p' = Some d' /\ (d <= d')%nat).
  { intros b. cbn [snd]. split; [right; repeat split; try assumption; apply HC|exists d; split; [reflexivity|lia]]. }
  cbn [descend_loop]. cbv zeta.
  destruct (getAt (S d) (root p)) as [x|]; [|apply Hexit].
  destruct (negb (isOpen x)); [apply Hexit|].
  destruct (negb (hasMatch (bkind x))); [apply Hexit|].
  set (q := withState (withCont p (Some (S d))) stDescending).
  assert (HCq : CU q) by exact HC.
  destruct (matchRule_desc q eq_refl HCq) as [(E1 & _)|(E1 & E2 & E3)].
  - destruct (matchRule q) as [ok p2]. cbn [fst snd] in *. rewrite E1. change (stDescendTerminated =? stDescendTerminated) with true. cbv iota.
    cbn [snd]. split; [left; exact E1|exists d; split; [reflexivity|lia]].
  - destruct (matchRule q) as [ok p2]. cbn [fst snd] in *. rewrite E1. change (stDescending =? stDescendTerminated) with false. cbv iota.
    assert (HC2 : CU p2) by (eapply cstep_CU; eassumption).
    destruct E2 as ([R2 C2] & V2 & _).
    destruct ok; cbn [negb].
    + destruct (IH p2 (S d) E1 HC2) as [A (d' & B1 & B2)]. cbv zeta in A.
      split; [|exists d'; split; [exact B1|lia]].
      destruct A as [A|(A1 & A2 & A3 & A4)]; [left; exact A|right].
      split; [exact A1|]. split; [rewrite A2, R2; reflexivity|]. split; [|exact A4].
      destruct V2 as (V1 & V2 & V3). destruct A3 as (W1 & W2 & W3).
      change (lineStart q) with (lineStart p) in V1. change (line q) with (line p) in V2. change (source q) with (source p) in V3.
      repeat split; congruence.
    + cbn [snd]. split; [|exists d; split; [reflexivity|lia]]. right. split; [exact E1|]. split; [exact R2|].
      split; [exact V2|exact HC2].
Qed.

(* the refinement: a descent that stays at depth d without ending a block has changed nothing *)
Lemma descend_stay : forall fuel p d, state p = stDescending -> CU p ->
  let p' := snd (descend_loop fuel p d) in
  container p' = Some d -> state p' <> stDescendTerminated -> p' = withCont p (Some d).
Proof.
  induction fuel as [|f IH]; intros p d Hs HC; cbv zeta; [reflexivity|].
  cbn [descend_loop]. cbv zeta.
  destruct (getAt (S d) (root p)) as [x|]; [|reflexivity].
  destruct (negb (isOpen x)); [reflexivity|].
  destruct (negb (hasMatch (bkind x))); [reflexivity|].
  set (q := withState (withCont p (Some (S d))) stDescending).
  assert (HCq : CU q) by exact HC.
  destruct (matchRule_desc q eq_refl HCq) as [(E1 & _)|(E1 & E2 & E3)].
  - destruct (matchRule q) as [ok p2]. cbn [fst snd] in *. rewrite E1. change (stDescendTerminated =? stDescendTerminated) with true. cbv iota.
    cbn [snd]. intros _ N. exfalso. apply N. exact E1.
  - destruct (matchRule q) as [ok p2]. cbn [fst snd] in *. rewrite E1. change (stDescending =? stDescendTerminated) with false. cbv iota.
    destruct ok; cbn [negb].
    + intros Hc _. exfalso.
      destruct (descend_deep f p2 (S d) E1 (cstep_CU _ _ E2 HCq)) as [_ (d' & B1 & B2)]. cbv zeta in B1. rewrite B1 in Hc. inversion Hc. lia.
    + cbn [snd]. intros _ _. rewrite (E3 eq_refl). unfold q, withCont, withState, setLP. cbn. rewrite <- Hs. reflexivity.
Qed.

Lemma descend_stay_am : forall fuel p d, state p = stDescending -> CU p ->
  let r := descend_loop fuel p d in
  container (snd r) = Some d -> state (snd r) <> stDescendTerminated -> fst r = true -> (fuel <> O) ->
  match getAt (S d) (root p) with Some x => isOpen x = false | None => True end.
Proof.
  intros fuel p d Hs HC. destruct fuel as [|f]; cbv zeta; [intros _ _ _ N; contradiction|].
  cbn [descend_loop]. cbv zeta.
  destruct (getAt (S d) (root p)) as [x|]; [|intros; exact Logic.I].
  destruct (isOpen x) eqn:Eo; cbn [negb]; [|intros; reflexivity].
  destruct (negb (hasMatch (bkind x))); [cbn [fst]; intros _ _ E; discriminate|].
  set (q := withState (withCont p (Some (S d))) stDescending).
  assert (HCq : CU q) by exact HC.
  destruct (matchRule_desc q eq_refl HCq) as [(E1 & _)|(E1 & E2 & E3)].
  - destruct (matchRule q) as [ok p2]. cbn [fst snd] in *. rewrite E1. change (stDescendTerminated =? stDescendTerminated) with true. cbv iota.
    cbn [snd]. intros _ N. exfalso. apply N. exact E1.
  - destruct (matchRule q) as [ok p2]. cbn [fst snd] in *. rewrite E1. change (stDescending =? stDescendTerminated) with false. cbv iota.
    destruct ok; cbn [negb].
    + intros Hc _ _ _. exfalso.
      destruct (descend_deep f p2 (S d) E1 (cstep_CU _ _ E2 HCq)) as [_ (d' & B1 & B2)]. cbv zeta in B1. rewrite B1 in Hc. inversion Hc. lia.
    + cbn [fst]. intros _ _ E. discriminate.
Qed.

Lemma cc_nokids b : cc b = true -> (forall K, canContain (bkind b) K = false) -> bkids b = [].
Proof.
  intros H Hk. apply cc_parts in H. destruct H as [H _]. destruct (bkids b) as [|x r]; [reflexivity|].
  cbn [forallb] in H. rewrite Hk in H. discriminate.
Qed.

Section Desc.
  Variables (src : bytes) (T : Z) (c : block).
  Hypothesis Hop : isOpen c = true.
  Hypothesis Hcc : cc c = true.
  Hypothesis HT : 0 <= T.

  Definition p0 (st : Z) : lp := resetLP st [c] T src.
  Definition qd : lp := withState (withCont (p0 0) (Some 1%nat)) stDescending.
  Definition pd (d : nat) : lp := withCont qd (Some d).
  Definition ln : bytes := from_ src T.

  Lemma CU_qd : CU qd. Proof. unfold CU, qd, p0, resetLP. cbn. unfold len. lia. Qed.
  Lemma root_qd : root qd = root0 [c]. Proof. reflexivity. Qed.

  Lemma descend_top st :
    descendOpenBlocks (p0 st) =
      if negb (hasMatch (bkind c)) then (false, p0 st) else
      let '(ok, p2) := matchRule qd in
      if state p2 =? stDescendTerminated then (true, withCont (closeLastChildAt p2 0 (lineStart p2 + li p2)) (Some O))
      else if negb ok then (false, withCont p2 (Some O)) else descend_loop (Nat.max (bheight c) 0) p2 1.
  Proof.
    unfold descendOpenBlocks. change (bheight (root (p0 st))) with (S (Nat.max (bheight c) 0)).
    cbn [descend_loop]. cbv zeta. change (getAt 1 (root (p0 st))) with (Some c). cbv iota. rewrite Hop. cbn [negb].
    destruct (negb (hasMatch (bkind c))); [reflexivity|].
    change (withState (withCont (p0 st) (Some 1%nat)) stDescending) with qd. reflexivity.
  Qed.

  Definition anchored (d : nat) : Prop := (2 <= d)%nat \/ ((1 <= d)%nat /\ wide (bkind c)).

  Inductive DescRes (st : Z) (am : bool) (p1 : lp) : Prop :=
  | DNoMatch : hasMatch (bkind c) = false -> am = false -> p1 = p0 st -> DescRes st am p1
  | DTerm0 y : state p1 = stDescendTerminated -> bkids (root p1) = [y] -> bend y = T + len ln -> 0 < len ln -> DescRes st am p1
  | DTermDeep c' : state p1 = stDescendTerminated -> bkids (root p1) = [c'] -> isOpen c' = true -> DescRes st am p1
  | DU : am = false -> p1 = pd 0 -> DescRes st am p1
  | DMP : bkind c = ParagraphKind -> am = true -> p1 = pd 1 -> isRestBlank qd = false -> DescRes st am p1
  | DML : bkind c = ListKind -> p1 = pd 1 ->
          (am = true -> match lastBlock c with Some x => isOpen x = false | None => True end) -> DescRes st am p1
  | DLeaf : acceptsLines (bkind c) = true -> bkind c <> ParagraphKind -> am = true -> state p1 = stDescending ->
            root p1 = root0 [c] -> container p1 = Some 1%nat -> env qd p1 -> CU p1 -> DescRes st am p1
  | DAnch d : state p1 = stDescending -> root p1 = root0 [c] -> container p1 = Some d -> anchored d -> env qd p1 -> CU p1 -> DescRes st am p1.

  Lemma fuel_pos : exists f, Nat.max (bheight c) 0 = S f.
  Proof. destruct (bheight_S c) as [n E]. rewrite E. exists n. reflexivity. Qed.

  Lemma kind_cases : hasMatch (bkind c) = true ->
    wide (bkind c) \/ bkind c = ListKind \/ bkind c = ParagraphKind \/
    (bkind c = FencedCodeBlockKind \/ bkind c = IndentedCodeBlockKind \/ bkind c = HTMLBlockKind).
  Proof.
    unfold hasMatch, wide. rewrite !orb_true_iff, !Z.eqb_eq. tauto.
  Qed.

  Theorem descend_class st : DescRes st (fst (descendOpenBlocks (p0 st))) (snd (descendOpenBlocks (p0 st))).
  Proof.
    rewrite descend_top. destruct (hasMatch (bkind c)) eqn:Hm; cbn [negb]; [|cbn [fst snd]; apply DNoMatch; [exact Hm|reflexivity|reflexivity]].
    pose proof (matchRule_desc qd eq_refl CU_qd) as HM.
    pose proof (matchRule_spec qd eq_refl CU_qd) as (MS1 & MS2 & MS3 & MS4).
    destruct fuel_pos as [f Ef]. rewrite Ef.
    destruct (matchRule qd) as [ok p2] eqn:Emr. cbn [fst snd] in HM, MS1, MS2, MS3, MS4.
    destruct HM as [(E1 & Ek & Eli & Eln)|(E1 & E2 & E3)].
    - (* the block ends here *)
      rewrite E1. change (stDescendTerminated =? stDescendTerminated) with true. cbv iota. cbn [fst snd].
      change (ks qd) with [c] in MS1. destruct MS1 as [[A _]|(pre & x & c2 & A1 & A2 & A3)]; [discriminate|].
      destruct pre as [|? pre]; [|destruct pre; discriminate]. cbn [app] in A1, A2. inversion A1; subst x.
      unfold ks in A2.
      assert (Ho2 : bend c2 < 0). { destruct A3 as (B1 & _). rewrite B1. unfold isOpen in Hop. apply Z.ltb_lt, Hop. }
      assert (Ek2 : bkind c2 = bkind c) by apply A3.
      change (containerKind qd) with (bkind c) in Ek.
      rewrite closeLastChildAt_clF. cbn [withCont withRoot setLP root updAt].
      unfold clF. unfold lastBlock. rewrite A2. cbn [rev app].
      destruct (bheight_S (root p2)) as [h Eh]. rewrite Eh.
      assert (Hsingle : forall y, In y (closeBlock (S h) (source p2) c2 (lineStart p2 + li p2)) -> bend y = lineStart p2 + li p2).
      { intros y. apply BSLine3.closeBlock_single; [exact Ho2|rewrite Ek2; destruct Ek as [-> | ->]; discriminate|rewrite Ek2; destruct Ek as [-> | ->]; discriminate]. }
      assert (Hone : exists y, closeBlock (S h) (source p2) c2 (lineStart p2 + li p2) = [y]).
      { cbn [closeBlock]. replace (isOpen c2) with true by (symmetry; apply Z.ltb_lt; exact Ho2). cbn [negb]. cbv zeta.
        rewrite !TOcp.bkind_set_bend', Ek2.
        destruct Ek as [-> | ->]; cbn; eexists; reflexivity. }
      destruct Hone as [y Ey]. rewrite Ey in Hsingle |- *.
      apply (DTerm0 st true _ y); [exact E1| | |exact Eln].
      + unfold set_lastBlocks. destruct (root p2) as [k0 s0 e0 bk0 ik0 a0 n0 ch0 l0 lb0]. cbn [bkids set_bkids] in *. rewrite A2. reflexivity.
      + rewrite (Hsingle y (or_introl eq_refl)). destruct MS2 as (L1 & L2 & _). rewrite L1, Eli. reflexivity.
    - rewrite E1. change (stDescending =? stDescendTerminated) with false. cbv iota.
      assert (HC2 : CU p2) by (eapply cstep_CU; [exact E2|exact CU_qd]).
      destruct E2 as ([R2 C2] & V2 & L2).
      destruct ok; cbn [negb].
      2:{ (* not matched at the first level: nothing has changed *)
          cbn [fst snd]. rewrite (E3 eq_refl). apply DU; reflexivity. }
      (* matched: go below *)
      pose proof (descend_deep (S f) p2 1 E1 HC2) as [HA (d' & HB1 & HB2)]. cbv zeta in HA, HB1.
      pose proof (descend_stay (S f) p2 1 E1 HC2) as HS. cbv zeta in HS.
      pose proof (descend_spec (S f) p2 1 HC2 ltac:(intros E; rewrite E1 in E; discriminate)) as (_ & _ & _ & HD).
      destruct HA as [HA|(HA1 & HA2 & HA3 & HA4)].
      { (* a block below ended *)
        destruct HD as [[HD _]|(HD & _)]; [|discriminate].
        assert (Ek2 : ks p2 = [c]) by (unfold ks; rewrite R2; reflexivity).
        rewrite Ek2 in HD. destruct HD as [[A _]|(pre & x & c2 & A1 & A2 & A3)]; [discriminate|].
        destruct pre as [|? pre]; [|destruct pre; discriminate]. cbn [app] in A1, A2. inversion A1; subst x.
        apply (DTermDeep st _ _ c2); [exact HA|exact A2|]. rewrite (shEq_isOpen _ _ A3). exact Hop. }
      assert (Hroot : root (snd (descend_loop (S f) p2 1)) = root0 [c]) by (rewrite HA2, R2; reflexivity).
      assert (Henv : env qd (snd (descend_loop (S f) p2 1))).
      { destruct V2 as (V1 & V2 & V3). destruct HA3 as (W1 & W2 & W3). repeat split; congruence. }
      destruct (kind_cases Hm) as [Hw|[Hl|[Hp|Hleaf]]].
      + (* a wide container: anchored *)
        apply (DAnch st _ _ d'); try assumption. right. split; assumption.
      + (* a list *)
        destruct (Nat.eq_dec d' 1) as [Ed|Nd].
        * subst d'. assert (Hp2 : p2 = qd).
          { unfold matchRule in Emr. change (containerKind qd) with (bkind c) in Emr. rewrite Hl in Emr. cbn in Emr. inversion Emr. reflexivity. }
          apply DML; [exact Hl|rewrite (HS HB1 ltac:(rewrite HA1; discriminate)), Hp2; reflexivity|].
          intros Eam. pose proof (descend_stay_am (S f) p2 1 E1 HC2) as HSA. cbv zeta in HSA.
          specialize (HSA HB1 ltac:(rewrite HA1; discriminate) Eam ltac:(discriminate)).
          rewrite Hp2 in HSA. change (getAt 2 (root qd)) with (match lastBlock c with Some x => Some x | None => None end) in HSA.
          destruct (lastBlock c); exact HSA.
        * apply (DAnch st _ _ d'); try assumption. left. lia.
      + (* a paragraph: no block children *)
        assert (Hnk : bkids c = []) by (apply cc_nokids; [exact Hcc|intros K; rewrite Hp; reflexivity]).
        assert (Emr' : matchRule qd = (negb (isRestBlank qd), qd)).
        { unfold matchRule. change (containerKind qd) with (bkind c). rewrite Hp. reflexivity. }
        rewrite Emr' in Emr. inversion Emr as [[Eok Ep2]]. subst p2.
        assert (Eg : getAt 2 (root qd) = None).
        { change (getAt 2 (root qd)) with (match lastBlock c with Some x => Some x | None => None end). unfold lastBlock. rewrite Hnk. reflexivity. }
        cbn [descend_loop]. cbv zeta. rewrite Eg. cbn [fst snd].
        apply DMP; [exact Hp|reflexivity|reflexivity|]. apply negb_true_iff. exact Eok.
      + (* a leaf that takes lines *)
        assert (Hnk : bkids c = []).
        { apply cc_nokids; [exact Hcc|intros K; destruct Hleaf as [-> |[-> | ->]]; reflexivity]. }
        assert (Eg : getAt 2 (root p2) = None).
        { rewrite R2. change (getAt 2 (root qd)) with (match lastBlock c with Some x => Some x | None => None end). unfold lastBlock. rewrite Hnk. reflexivity. }
        cbn [descend_loop]. cbv zeta. rewrite Eg. cbn [fst snd].
        apply DLeaf; try reflexivity.
        * destruct Hleaf as [-> |[-> | ->]]; reflexivity.
        * destruct Hleaf as [-> |[-> | ->]]; discriminate.
        * exact E1.
        * exact R2.
        * exact V2.
        * exact HC2.
  Qed.
End Desc.
