From Coq Require Import List ZArith Lia Bool.
Import ListNotations.
Require Import Base Tables Utf8 Tree Rdr Link Collect Html Recog Inl3a Inl3b Inl3c Inl3d Inl3e Driver Render Props PEProof.
Require Import Safe Leaf3a Leaf3b Leaf3e Leaf3f Leaf3i Leaf3j Leaf3n RdrBound.
Require Import GI0 GI1 GI2 GI3 GI4 GI5 GI6 GI7 ShapesBase ShapesR ShapesA ShapesCS ShapesHT.
Require Import IS0 IS2 IS1 IS3 IS4 IS5a IS5b IS6a IS8b IS8c IS5 IS6b IS6c IS6d IS6e IS6 IS7.
Require Import BndDefs BndPE BndRdr BndScan BndLink BndEB.
Open Scope Z_scope.

(* ================================================================== *)
(* BndTok: the tokeniser keeps the boundary predicate (in tandem with  *)
(* IS6.LI / IS7), and parseInlines returns nodes with good boundaries. *)
(* ================================================================== *)
Section Tok.
  Variable src : bytes.
  Variable U : list inline.
  Hypothesis HUe : forallb eok U = true.
  Hypothesis HOK : spOK src U = true.
  Hypothesis HBud : ibudget U <= len src + 9.
  Hypothesis HL : linesOK src U = true.
  Hypothesis HV : asciiOK src.
  Hypothesis HV0 : boundary_ok src 0 = true.
  Hypothesis HGS : GS src U.

  Notation MI := (MI true U).
  Notation IS := (Leaf3f.InvS src U).
  Notation J := (J src U).
  Notation nthU := (nthU U).
  Notation LI := (LI src U).
  Notation BP := (BP src).
  Notation bok := (boundary_ok src).

  Lemma HUk' : forall u, In u U -> ikids u = [].
  Proof. apply (HUk U HUe). Qed.

  Lemma EG_nth st : unp st = U -> forall i, EG src (nth i (unp st) (mkI 0 0 0)).
  Proof.
    intros Eu i. rewrite Eu. destruct (nth_in_or_default i U (mkI 0 0 0)) as [Hin|Hd].
    - destruct (spOK_all src U HOK _ Hin) as (S1 & S2 & S3 & _). split; [apply HGS, Hin|lia].
    - rewrite Hd. split; [apply gsp_mk; exact HV0|]. cbn. pose proof (ShapesBase.len_nonneg src). lia.
  Qed.

  (* the position parseEndBracket returns *)
  Lemma peb_pos st start : isrc st = src -> spOK src (unpFrom st) = true -> at_ src start = 93 ->
    bok (snd (parseEndBracket st start)) = true.
  Proof.
    intros Esrc HokF H93.
    assert (B1 : bok (start + 1) = true) by (apply (bok_after src _ 93 HV); [replace (start + 1 - 1) with start by lia; exact H93|lia|lia]).
    unfold parseEndBracket. cbv zeta. unfold lookForLinkOrImage.
    destruct (lfl_spec (S (length (stk st))) st (len (stk st) - 1) ltac:(lia)) as [(Er & Hst1)|(Hr & E1 & Htyp & Hact)].
    { destruct (lfl (S (length (stk st))) st (len (stk st) - 1)) as [st1 odi]. cbn [fst snd] in *. subst odi.
      cbn [Z.ltb Z.compare]. cbn [snd]. exact B1. }
    destruct (lfl (S (length (stk st))) st (len (stk st) - 1)) as [st1 odi]. cbn [fst snd] in *. subst st1.
    replace (odi <? 0) with false by (symmetry; apply Z.ltb_ge; lia).
    match goal with |- context [match ?X with Some _ => _ | None => _ end] => destruct X as [[[[[ispan dspan] dtext] tspan] ttext]|] eqn:Etry end.
    - destruct ((start + 1 <? spanEnd st) && (at_ (isrc st) (start + 1) =? 40)); [|discriminate].
      destruct (parseInlineLink (rfuelOf st) st (start + 1)) as [[is0 [ds0 dt0]] [ts0 tt0]] eqn:Ep.
      destruct (spanValid is0) eqn:Ev; [|discriminate]. inversion Etry; subst is0 ds0 dt0 ts0 tt0. clear Etry.
      destruct (parseInlineLink_end _ _ _ _ _ _ ltac:(rewrite Esrc; exact HokF) Ep Ev) as (Pf & P41 & Pge). rewrite Esrc in P41.
      destruct (wrap st _ _ None) as [st2 lid]. cbn [snd]. apply (bok_after src _ 41 HV P41); lia.
    - match goal with |- context [match ?X with pair _ _ => _ end] => destruct X as [lspan linner] eqn:Elab end.
      destruct ((start + 2 <? spanEnd st) && (at_ (isrc st) (start + 1) =? 91) && (at_ (isrc st) (start + 2) =? 93)) eqn:Ecoll.
      + destruct (negb (matchRef _ _)); [cbn [snd]; exact B1|].
        destruct (wrap st _ _ None) as [st2 lid]. cbn [snd].
        apply andb_true_iff in Ecoll. destruct Ecoll as [_ E93']. apply Z.eqb_eq in E93'. rewrite Esrc in E93'.
        apply (bok_after src _ 93 HV); [replace (start + 3 - 1) with (start + 2) by lia; exact E93'|lia|lia].
      + destruct (spanValid lspan) eqn:Evl.
        * destruct (negb (matchRef _ _)); [cbn [snd]; exact B1|].
          cbn [negb andb] in Elab.
          destruct ((start + 1 <? spanEnd st) && (at_ (isrc st) (start + 1) =? 91)); [|inversion Elab; subst; discriminate].
          destruct (parseLinkLabel (rfuelOf st) (newReader (isrc st) (unpFrom st) (start + 1))) as [[a b] r'] eqn:Epl.
          inversion Elab; subst a b. clear Elab.
          assert (HRI0 : RI (isrc st) (newReader (isrc st) (unpFrom st) (start + 1))) by (split; [reflexivity|rewrite Esrc; exact HokF]).
          destruct (parseLinkLabel_end (isrc st) _ _ _ _ _ HRI0 Epl Evl) as (Pf & P93 & Pge). rewrite Esrc in P93.
          destruct (wrap st _ _ None) as [st2 lid]. cbn [snd]. apply (bok_after src _ 93 HV P93); lia.
        * destruct (negb (matchRef _ _)); [cbn [snd]; exact B1|].
          destruct (wrap st _ _ None) as [st2 lid]. cbn [snd]. exact B1.
  Qed.

  (* ================================================================ one step of the tokeniser *)
  Lemma istep_BP st pos pl st' pos' pl' : LI st pos -> upos st < len U -> pos < spanEnd st ->
    istep st pos pl = (st', pos', pl') -> BP st -> bok pl = true -> BP st' /\ bok pl' = true.
  Proof.
    intros HLI Hu Hp E HB Hpl.
    destruct (cur_facts src U HOK st pos HLI Hu Hp) as (Es & R1 & R2 & R3 & Hni & HJ). cbv zeta in *.
    pose proof (j_src _ _ _ _ HJ) as Esrc. pose proof (j_unp _ _ _ _ HJ) as Eunp.
    set (u := nthU (upos st)) in *.
    assert (HJT : forall a, J pos (addText st a pos)) by (intros; apply J_addText; [exact HJ|lia]).
    assert (HFT : forall a b, sameF st (addText st a b)) by (intros; apply addText_sameF).
    assert (Hpos0 : 0 <= pos) by lia.
    assert (HBT : at_ src pos < 128 -> BP (addText st pl pos)) by (intros Hc; apply BP_addText; [exact HB|exact Hpl|apply bok_at, Hc]).
    assert (Haft : forall c, at_ src pos = c -> c <> 0 -> c < 128 -> bok (pos + 1) = true).
    { intros c Hc H0 Hlt. apply (bok_after src _ c HV); [replace (pos + 1 - 1) with pos by lia; exact Hc|exact H0|exact Hlt]. }
    assert (EsT : forall a b, isrc (addText st a b) = src) by (intros a b; destruct (HFT a b) as (_ & _ & ->); exact Esrc).
    assert (EuT : forall a b, unp (addText st a b) = U) by (intros a b; destruct (HFT a b) as (_ & -> & _); exact Eunp).
    unfold istep in E. cbv zeta in E. rewrite Esrc in E.
    destruct ((at_ src pos =? 42) || (at_ src pos =? 95)) eqn:E1.
    { (* delimiter run *)
      assert (Hc : at_ src pos = 42 \/ at_ src pos = 95) by (apply orb_true_iff in E1; destruct E1 as [E1|E1]; apply Z.eqb_eq in E1; tauto).
      unfold parseDelimiterRun in E. cbv zeta in E.
      assert (EeT : spanEnd (addText st pl pos) = spanEnd st) by (apply spanEnd_sameF, HFT).
      rewrite EsT, EeT in E.
      set (e := runEnd (length src) src (pos + 1) (spanEnd st) (at_ src pos)) in *.
      destruct (runEnd_spec src (spanEnd st) (at_ src pos) (length src) (pos + 1)) as (G1 & G2 & G3). fold e in G1, G2, G3.
      assert (Be : bok e = true).
      { apply (bok_after src _ (at_ src pos) HV); [|lia|lia]. destruct (Z.eq_dec e (pos + 1)) as [->|Ne]; [f_equal; lia|apply G2; lia]. }
      pose proof (BP_addNode src (addText st pl pos) TextKind pos e [] (HBT ltac:(lia)) ltac:(apply bok_at; lia) Be eq_refl) as HB1.
      destruct (addNode (addText st pl pos) TextKind pos e []) as [st1 id]. cbn [fst] in HB1. inversion E; subst st' pos' pl'.
      split; [apply BP_setStk, HB1|exact Be]. }
    destruct (at_ src pos =? 91) eqn:E2.
    { apply Z.eqb_eq in E2.
      pose proof (BP_addNode src (addText st pl pos) TextKind pos (pos + 1) [] (HBT ltac:(lia)) ltac:(apply bok_at; lia) (Haft 91 E2 ltac:(lia) ltac:(lia)) eq_refl) as HB1.
      destruct (addNode (addText st pl pos) TextKind pos (pos + 1) []) as [st1 id]. cbn [fst] in HB1. inversion E; subst st' pos' pl'.
      split; [apply BP_setStk, HB1|apply (Haft 91 E2); lia]. }
    destruct (at_ src pos =? 93) eqn:E3.
    { apply Z.eqb_eq in E3.
      assert (HMT : MI (addText st pl pos)) by (apply MI_addText, (li_mi _ _ _ _ HLI)).
      pose proof (parseEndBracket_BP src U HV HUk' HOK HGS HBud true pos (addText st pl pos) pos HMT (HJT pl) ltac:(lia) E3 (HBT ltac:(lia))) as HB2.
      assert (HokT : spOK src (unpFrom (addText st pl pos)) = true).
      { rewrite (unpFrom_sameF _ _ (HFT pl pos)). unfold unpFrom. rewrite Eunp. apply spOK_from, HOK. }
      pose proof (peb_pos (addText st pl pos) pos (EsT pl pos) HokT E3) as HP2.
      destruct (parseEndBracket (addText st pl pos) pos) as [st2 e2]. cbn [fst snd] in *. inversion E; subst st' pos' pl'.
      split; assumption. }
    destruct (at_ src pos =? 33) eqn:E4.
    { apply Z.eqb_eq in E4.
      destruct ((spanEnd st <=? pos + 1) || negb (at_ src (pos + 1) =? 91)) eqn:E4b.
      { inversion E; subst st' pos' pl'. split; assumption. }
      apply orb_false_iff in E4b. destruct E4b as [E4c E4d]. apply negb_false_iff in E4d. apply Z.eqb_eq in E4d.
      assert (B2 : bok (pos + 2) = true) by (apply (bok_after src _ 91 HV); [replace (pos + 2 - 1) with (pos + 1) by lia; exact E4d|lia|lia]).
      pose proof (BP_addNode src (addText st pl pos) TextKind pos (pos + 2) [] (HBT ltac:(lia)) ltac:(apply bok_at; lia) B2 eq_refl) as HB1.
      destruct (addNode (addText st pl pos) TextKind pos (pos + 2) []) as [st1 id]. cbn [fst] in HB1. inversion E; subst st' pos' pl'.
      split; [apply BP_setStk, HB1|exact B2]. }
    destruct (at_ src pos =? 32) eqn:E5.
    { apply Z.eqb_eq in E5.
      destruct (parseHardLineBreakSpace (sub src pos (spanEnd st))) as [e ok] eqn:Eh.
      destruct ok; cbn [andb] in E; [|inversion E; subst st' pos' pl'; split; assumption].
      destruct (isLastSpan st) eqn:Els; cbn [negb] in E; [inversion E; subst st' pos' pl'; split; assumption|].
      destruct (parseHardLineBreakSpace_shape _ _ Eh) as (He & H2e & A0 & A1 & Arest).
      pose proof (len_sub_le src pos (spanEnd st)) as Hl.
      assert (Be : bok (pos + e) = true).
      { assert (Hb : at_ src (pos + e - 1) = 32 \/ at_ src (pos + e - 1) = 10 \/ at_ src (pos + e - 1) = 13).
        { replace (pos + e - 1) with (pos + (e - 1)) by lia. rewrite <- (at_sub src pos (spanEnd st)) by lia.
          destruct (Z.eq_dec e 2) as [->|Ne]; [left; exact A1|apply Arest; lia]. }
        destruct Hb as [Hb|[Hb|Hb]]; apply (bok_after src _ _ HV Hb); lia. }
      inversion E; subst st' pos' pl'. split; [|exact Be].
      apply BP_setIgn. apply BP_addNode; [apply HBT; lia|apply bok_at; lia|exact Be|reflexivity]. }
    destruct (Z.eqb_spec (at_ src pos) 96) as [E6|E6].
    { destruct (fuel_ok' src U HOK HBud st pos Esrc Eunp Hpos0) as (Hok & Hfuel).
      destruct (parseCodeSpan (rfuelOf st) st pos) as [[cS cE] sE] eqn:Epc.
      destruct (Z.leb_spec 0 sE) as [Hse|Hse]; [|inversion E; subst st' pos' pl'; split; assumption].
      destruct (parseCodeSpan_shape (rfuelOf st) st pos cS cE sE Hok Hfuel Epc Hse) as (n0 & Hn0 & EcS & HcSE & EsE & Hopen & _ & Hticks & _).
      rewrite Esrc in Hopen, Hticks.
      assert (BcS : bok cS = true) by (apply (bok_after src _ 96 HV); [apply Hopen; lia|lia|lia]).
      assert (BcE : bok cE = true) by (apply (bok_byte src _ 96); [apply Hticks; lia|lia]).
      assert (HsE1 : at_ src (sE - 1) = 96) by (apply Hticks; lia).
      assert (BsE : bok sE = true) by (apply (bok_after src _ 96 HV HsE1); lia).
      pose proof (in_src src (sE - 1) ltac:(rewrite HsE1; discriminate)) as HinE.
      inversion E; subst st' pos' pl'. split; [|exact BsE].
      apply collectCodeSpan_BP; try assumption; try lia.
      - apply EsT.
      - apply EG_nth, EuT.
      - apply HBT. lia.
      - apply bok_at. lia. }
    destruct (at_ src pos =? 60) eqn:E7.
    { apply Z.eqb_eq in E7.
      destruct (Z.leb_spec 0 (parseAutolink (sub src pos (spanEnd st)))) as [Hae|Hae].
      - destruct (parseAutolink_shape _ _ eq_refl Hae) as (A0 & A1 & (A2 & A3) & _).
        rewrite len_sub in A3 by lia. rewrite at_sub in A0, A1 by lia.
        set (ae := parseAutolink (sub src pos (spanEnd st))) in *.
        assert (Hlast : at_ src (ae + pos - 1) = 62) by (replace (ae + pos - 1) with (pos + (ae - 1)) by lia; exact A1).
        assert (Be : bok (ae + pos) = true) by (apply (bok_after src _ 62 HV Hlast); lia).
        inversion E; subst st' pos' pl'. split; [|exact Be].
        apply BP_addNode; [apply HBT; lia|apply bok_at; lia|exact Be|].
        cbn [bpF forallb]. rewrite andb_true_r. apply bp_mk; [apply (Haft 60 E7); lia|apply (bok_byte src _ 62 Hlast); lia|reflexivity].
      - destruct (parseHTMLTag (rfuelOf st) (newReader src (unpFrom st) pos)) as [ts te] eqn:Eht.
        destruct (spanValid (ts, te)) eqn:Ev; cbn [negb] in E; [|inversion E; subst st' pos' pl'; split; assumption].
        destruct (parseHTMLTag_shape (rfuelOf st) (newReader src (unpFrom st) pos) ts te
                    ltac:(cbn [newReader r_src r_spans]; unfold unpFrom; rewrite Eunp; apply spOK_from, HOK) Eht Ev) as (Ets & B0 & B1 & B2 & B3).
        cbn [newReader r_pos r_src] in Ets, B0, B1, B3. subst ts.
        assert (Bte : bok te = true) by (apply (bok_after src _ 62 HV B1); lia).
        assert (Bp : bok pos = true) by (apply bok_at; lia).
        inversion E; subst st' pos' pl'. split; [|exact Bte].
        apply BP_advanceTo. apply BP_addNode; [apply HBT; lia|exact Bp|exact Bte|].
        apply kids_bp. apply (collectTextNodes_good src HV); [|exact Bp|exact Bte].
        apply QR_newReader; [rewrite (unpFrom_sameF _ _ (HFT pl pos)); unfold unpFrom; rewrite Eunp; apply spOK_from, HOK| |exact Bp].
        apply (GS_unpFrom src U HGS). apply EuT. }
    destruct (at_ src pos =? 92) eqn:E8.
    { apply Z.eqb_eq in E8. unfold parseBackslash in E. cbv zeta in E.
      pose proof (HFT pl pos) as HF0.
      rewrite EsT, (spanEnd_sameF _ _ HF0), (isLastSpan_sameF _ _ HF0) in E.
      assert (B1 : bok (pos + 1) = true) by (apply (Haft 92 E8); lia).
      assert (Bp : bok pos = true) by (apply bok_at; lia).
      destruct ((spanEnd st <=? pos + 1) || (at_ src (pos + 1) =? 10) || (at_ src (pos + 1) =? 13)) eqn:Ec.
      - destruct (isLastSpan st) eqn:Els.
        + inversion E; subst st' pos' pl'. split; [apply BP_addText; [apply HBT; lia|exact Bp|exact B1]|exact B1].
        + set (e := eolRun (length src) src (pos + 1) (spanEnd st)) in *.
          destruct (eolRun_spec src (spanEnd st) (length src) (pos + 1)) as (G1 & G2 & _). fold e in G1, G2.
          assert (Be : bok e = true).
          { destruct (Z.eq_dec e (pos + 1)) as [->|Ne]; [exact B1|].
            specialize (G2 (e - 1) ltac:(lia)). unfold isEol in G2. apply orb_true_iff in G2.
            destruct G2 as [G2|G2]; apply Z.eqb_eq in G2; apply (bok_after src _ _ HV G2); lia. }
          inversion E; subst st' pos' pl'. split; [|exact Be].
          apply BP_addNode; [apply BP_setIgn, HBT; lia|exact Bp|exact Be|reflexivity].
      - destruct (isASCIIPunctuation (at_ src (pos + 1))) eqn:Epu; inversion E; subst st' pos' pl'.
        + assert (Hpu : at_ src (pos + 1) <> 0 /\ at_ src (pos + 1) < 128).
          { unfold isASCIIPunctuation in Epu. repeat (apply orb_true_iff in Epu; destruct Epu as [Epu|Epu]);
              apply andb_true_iff in Epu; destruct Epu as [Ea Eb]; apply Z.leb_le in Ea, Eb; lia. }
          assert (B2 : bok (pos + 2) = true).
          { apply (bok_after src _ (at_ src (pos + 1)) HV); [f_equal; lia|tauto|tauto]. }
          split; [apply BP_addText; [apply HBT; lia|exact B1|exact B2]|exact B2].
        + split; [apply BP_addText; [apply HBT; lia|exact Bp|exact B1]|exact B1]. }
    destruct (at_ src pos =? 38) eqn:E9.
    { apply Z.eqb_eq in E9.
      destruct (Z.ltb_spec (parseCharacterEscape (sub src pos (spanEnd st))) 0) as [Hce|Hce]; [inversion E; subst st' pos' pl'; split; assumption|].
      destruct (parseCharacterEscape_shape _ _ eq_refl Hce) as (_ & C1 & C2 & C3). rewrite len_sub in C3 by lia.
      set (ce := parseCharacterEscape (sub src pos (spanEnd st))) in *.
      rewrite at_sub in C1 by lia.
      assert (Be : bok (pos + ce) = true) by (apply (bok_after src _ 59 HV); [replace (pos + ce - 1) with (pos + (ce - 1)) by lia; exact C1|lia|lia]).
      inversion E; subst st' pos' pl'. split; [|exact Be].
      apply BP_addNode; [apply HBT; lia|apply bok_at; lia|exact Be|reflexivity]. }
    destruct (at_ src pos =? 10) eqn:E10.
    { apply Z.eqb_eq in E10. assert (B1 : bok (pos + 1) = true) by (apply (Haft 10 E10); lia).
      inversion E; subst st' pos' pl'. split; [|exact B1].
      destruct (negb (isLastSpan (addText st pl pos))); [apply BP_addNode; [apply HBT; lia|apply bok_at; lia|exact B1|reflexivity]|apply HBT; lia]. }
    destruct (at_ src pos =? 13) eqn:E11.
    { apply Z.eqb_eq in E11. assert (B1 : bok (pos + 1) = true) by (apply (Haft 13 E11); lia).
      set (w := if (pos + 1 <? spanEnd (addText st pl pos)) && (at_ src (pos + 1) =? 10) then 2 else 1) in *.
      assert (Bw : bok (pos + w) = true).
      { unfold w. destruct ((pos + 1 <? spanEnd (addText st pl pos)) && (at_ src (pos + 1) =? 10)) eqn:Ew; [|exact B1].
        apply andb_true_iff in Ew. destruct Ew as [_ Ew]. apply Z.eqb_eq in Ew.
        apply (bok_after src _ 10 HV); [replace (pos + 2 - 1) with (pos + 1) by lia; exact Ew|lia|lia]. }
      inversion E; subst st' pos' pl'. split; [|exact Bw].
      destruct (negb (isLastSpan (addText st pl pos))); [apply BP_addNode; [apply HBT; lia|apply bok_at; lia|exact Bw|reflexivity]|apply HBT; lia]. }
    inversion E; subst st' pos' pl'. split; assumption.
  Qed.

  Lemma iloop_BP : forall fuel st pos pl, LI st pos -> BP st -> bok pl = true ->
    BP (fst (iloop fuel st pos pl)) /\ bok (snd (iloop fuel st pos pl)) = true.
  Proof.
    induction fuel as [|f IH]; intros st pos pl H HB Hpl; [split; assumption|]. cbn [iloop].
    pose proof (j_unp _ _ _ _ (li_j _ _ _ _ H)) as Eu. rewrite Eu.
    destruct (Z.ltb_spec (upos st) (len U)) as [Hu|Hu]; cbn [andb]; [|split; assumption].
    destruct (Z.ltb_spec pos (spanEnd st)) as [Hp|Hp]; [|split; assumption].
    destruct (istep st pos pl) as [[st2 pos2] pl2] eqn:E.
    destruct (istep_BP st pos pl st2 pos2 pl2 H Hu Hp E HB Hpl) as [HB2 Hpl2].
    apply IH; [|exact HB2|exact Hpl2]. apply (istep_LI src U HUe HOK HBud HL st pos pl st2 pos2 pl2 H Hu Hp E).
  Qed.

  Lemma skipSpTab_bok : forall fuel p lim, bok p = true -> bok (skipSpTab fuel src p lim) = true.
  Proof.
    induction fuel as [|f IH]; intros p lim Hb; [exact Hb|]. cbn [skipSpTab].
    destruct ((p <? lim) && isSpTab (at_ src p)) eqn:E; [|exact Hb]. apply IH.
    apply andb_true_iff in E. destruct E as [_ E]. apply blank_not in E.
    apply (bok_after src _ (at_ src p) HV); [f_equal; lia|lia|lia].
  Qed.

  Lemma outer_OB : forall fuel st, OI src U st -> BP st -> exists h, J h (outer fuel st) /\ BP (outer fuel st).
  Proof.
    induction fuel as [|f IH]; intros st (HM & HS & H0 & h & HJ & Hh) HB; [exists h; split; assumption|]. cbn [outer].
    pose proof (j_unp _ _ _ _ HJ) as Eu. pose proof (j_src _ _ _ _ HJ) as Esrc. rewrite Eu.
    destruct (Z.leb_spec (len U) (upos st)) as [Hge|Hlt]; [exists h; split; assumption|].
    specialize (Hh Hlt). fold (nthU (upos st)). set (u := nthU (upos st)) in *.
    destruct (nthU_range src U HOK (upos st) ltac:(lia)) as (R1 & R2 & R3). fold u in R1, R2, R3.
    assert (Hin : In u U) by (apply nthU_in; lia).
    pose proof HUe as HUe'. rewrite forallb_forall in HUe'. pose proof (HUe' u Hin) as He.
    unfold eok in He. apply andb_true_iff in He. destruct He as [Hk Hn]. apply nilb_true in Hn.
    assert (Hhe : h <= iend u) by lia.
    pose proof (HGS u Hin) as Gu.
    destruct (ikind u =? 0) eqn:E0.
    { apply IH; [|apply BP_setUpos, BP_setIgn, HB]. apply (OI_next src U HOK st _ h); [| | |exact H0|reflexivity|intros _; exact Hhe].
      - apply MI_setUpos, MI_setIgn, HM.
      - apply Leaf3f.S_setUpos, Leaf3f.S_setIgn, HS.
      - apply J_setUpos, J_setIgn, HJ. }
    destruct (ikind u =? IndentKind) eqn:Ei.
    { destruct (negb (ign st)).
      - apply IH; [|apply BP_setUpos, BP_pushU; assumption]. apply (OI_next src U HOK st _ h); [| | |exact H0|reflexivity|intros _; exact Hhe].
        + apply MI_setUpos, MI_pushU; [exact HM|right; apply Z.eqb_eq; exact Ei|exact Hn].
        + apply Leaf3f.S_setUpos. apply (S_pushU src U); [exact HS|]. pose proof (nthU_ok src U (HUg src U HUe) st HS) as Hg. rewrite Eu in Hg. exact Hg.
        + apply J_setUpos. apply (J_pushU src U HUe HOK); assumption.
      - apply IH; [|apply BP_setUpos, HB]. apply (OI_next src U HOK st _ h); [| | |exact H0|reflexivity|intros _; exact Hhe].
        + apply MI_setUpos, HM.
        + apply Leaf3f.S_setUpos, HS.
        + apply J_setUpos, HJ. }
    destruct (ikind u =? UnparsedKind) eqn:Eun.
    { set (pos0 := if ign st then skipSpTab (length (isrc st)) (isrc st) (istart u) (spanEnd st) else istart u).
      assert (Hp0 : istart u <= pos0) by (unfold pos0; destruct (ign st); [apply skipSpTab_ge|lia]).
      assert (Bp0 : bok pos0 = true).
      { unfold pos0. destruct (ign st); [rewrite Esrc; apply skipSpTab_bok|]; apply (gsp_start src), Gu. }
      assert (HLI0 : LI (setIgn st false) pos0).
      { constructor.
        - apply MI_setIgn, HM.
        - apply Leaf3f.S_setIgn, HS.
        - apply J_setIgn. apply (J_hi src U h); [|exact HJ]. change (spanEnd (setIgn st false)) with (spanEnd st).
          rewrite (spanEnd_in U st Eu) by lia. fold u. lia.
        - cbn [setIgn upos]. lia.
        - cbn [setIgn upos]. intros _. fold u. split; [exact Hp0|]. apply Z.eqb_eq in Eun. rewrite Eun. discriminate. }
      destruct (iloop_LI src U HUe HOK HBud HL (S (length (isrc (setIgn st false)))) (setIgn st false) pos0 pos0 HLI0) as (pos2 & HLI2).
      destruct (iloop_BP (S (length (isrc (setIgn st false)))) (setIgn st false) pos0 pos0 HLI0 (BP_setIgn src st false HB) Bp0) as [HB2 Hpl2].
      destruct (iloop (S (length (isrc (setIgn st false)))) (setIgn st false) pos0 pos0) as [st2 pl2]. cbn [fst snd] in *.
      destruct HLI2 as [A B C D E].
      pose proof (j_unp _ _ _ _ C) as Eu2.
      destruct (addText_sameF st2 pl2 (spanEnd st2)) as (AU & _ & _).
      assert (Bse : bok (spanEnd st2) = true).
      { unfold spanEnd. rewrite Eu2. destruct (len U <=? upos st2).
        - destruct (rev U) as [|x r] eqn:Er; [apply bok_end; rewrite (j_src _ _ _ _ C); lia|]. apply (gsp_end src), HGS. apply in_rev. rewrite Er. left. reflexivity.
        - destruct (nth_in_or_default (Z.to_nat (upos st2)) U (mkI 0 0 0)) as [Hi|Hd]; [apply (gsp_end src), HGS, Hi|rewrite Hd; exact HV0]. }
      apply IH; [|apply BP_setUpos, BP_addText; assumption].
      split; [apply MI_setUpos, MI_addText, A|]. split; [apply Leaf3f.S_setUpos, Leaf3f.S_addText, B|].
      split; [cbn [setUpos upos]; rewrite AU; lia|]. exists (spanEnd st2). split.
      - apply J_setUpos, J_addText; [apply (J_hi src U (Z.min pos2 (spanEnd st2))); [lia|exact C]|]. apply (spanEnd_le src U HOK); [apply (j_src _ _ _ _ C)|exact Eu2].
      - cbn [setUpos upos]. rewrite AU. intros Hlt2. rewrite (spanEnd_in U st2 Eu2) by lia.
        apply (nthU_sorted src U HOK (upos st2) (upos st2 + 1)); lia. }
    apply IH; [|apply BP_setUpos; change (rk st) with (rk (setIgn st false)); apply BP_pushU; [apply BP_setIgn, HB|exact Gu]].
    apply (OI_next src U HOK st _ h); [| | |exact H0|reflexivity|intros _; exact Hhe].
    - apply MI_setUpos. apply (MI_pushU true U (setIgn st false)); [apply MI_setIgn, HM| |exact Hn].
      cbn [orb] in Hk. rewrite orb_false_r in Hk. left. apply Z.eqb_eq. exact Hk.
    - apply Leaf3f.S_setUpos. change (rk st) with (rk (setIgn st false)). apply (S_pushU src U); [apply Leaf3f.S_setIgn, HS|].
      pose proof (nthU_ok src U (HUg src U HUe) st HS) as Hg. rewrite Eu in Hg. exact Hg.
    - apply J_setUpos. change (rk st) with (rk (setIgn st false)). apply (J_pushU src U HUe HOK); [apply J_setIgn, HJ|exact Hin].
  Qed.

  (* parseInlines: every node it returns, at any depth, has both ends on a character boundary *)
  Theorem parseInlines_bnd_tok m container : bik container = U -> bok (bend container) = true ->
    forallb (bndI src) (parseInlines src m container) = true.
  Proof.
    intros EU Hend. unfold parseInlines.
    set (st0 := {| rk := []; isrc := src; unp := bik container; upos := 0; stk := []; ign := false; nid := 1;
                   rootEnd := bend container; matcher := m |}).
    assert (H0 : MI st0).
    { constructor; cbn; try reflexivity; try exact EU; try lia; try (intros ? []); try constructor. }
    assert (HS0 : IS st0) by (split; [reflexivity|split; [exact EU|split; [cbn; lia|reflexivity]]]).
    assert (HJ0 : J 0 st0).
    { constructor; cbn; try reflexivity; try exact EU; try lia; constructor. }
    assert (HB0 : BP st0) by (split; [reflexivity|exact Hend]).
    assert (HO : OI src U st0).
    { split; [exact H0|]. split; [exact HS0|]. split; [cbn; lia|]. exists 0. split; [exact HJ0|]. cbn [upos st0]. intros Hlt.
      destruct (nthU_range src U HOK 0 ltac:(lia)) as (R1 & _). exact R1. }
    destruct (outer_OB (S (length (bik container))) st0 HO HB0) as (h & HJ1 & HB1).
    pose proof (processEmphasis_BP src U h _ 0 HJ1 ltac:(lia) HB1) as [HB2 _].
    rewrite forallb_forall. intros x Hx. apply in_map_iff in Hx. destruct Hx as (n & <- & Hn).
    apply bp_toInline. apply (bpF_in src _ n HB2 Hn).
  Qed.
End Tok.
Print Assumptions parseInlines_bnd_tok.
