From Coq Require Import List ZArith Lia Bool String Ascii.
Import ListNotations.
Require Import Base Tree Driver Inl3a Inl3e Render BSTest EolCRDefs EolCRRenderDefs EolCRRenderTest EolCRRenderTest3 InlineSpans SpanHypDef.
Open Scope Z_scope.
(* counterexample to the statement without childless entries *)
Definition cx_src : bytes := [97;10;10;98].
Definition cx_b : block := Blk ParagraphKind 0 4 []
  [Inl UnparsedKind 0 2 0 [] []; Inl IndentKind 2 3 1 [] [Inl LinkDestinationKind 2 3 0 [] [Inl TextKind 2 3 0 [] []]]; Inl UnparsedKind 3 4 0 [] []] 0 0 0 false false.
Eval vm_compute in (entriesOK cx_src cx_b, forallb (dokI cx_src) (parseInlines cx_src [] cx_b)).
Definition enil (u : inline) : bool := match ikids u with [] => true | _ => false end.
Definition chkH (d : bytes) : list bool :=
  flat_map (fun r => map (fun b => forallb enil (bik b)) (leavesU (bheight (rb_blk r)) (rb_blk r))) (fst (parseBlocks d)).
Eval vm_compute in map (fun d => forallb (fun x => x) (chkH d)) edocs.
