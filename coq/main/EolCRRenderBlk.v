From Coq Require Import List ZArith Lia Bool.
Import ListNotations.
Require Import Base Tree Rdr Link Collect LP Driver.
Require Import EolCRRenderDefs EolCRRenderBlkRdr EolCRRenderBlkOcp EolCRRenderBlkWalk EolCRRenderBlkDrv.
Require L2Kind2 SpanHypDef DefSpansOcp DefSpansWalk DefSpansDrv DefSpans BShDef BlockShapes BlockShapesAll BlockShapesNul IS2 En2OK LA2 ShDef ShapesBase EolCRRdr.
Open Scope Z_scope.

(* ================================================================================================
   T61 (block half), part 5: EolCRRenderDefs.destBlocks_statement for every input.
     invN B (EolCRRenderBlkDrv.parseBlocks_okRN): the span of a LinkDestination entry of a definition block has no line ending in B;
     L2Kind2.parseBlocks_kinds: a LinkDestination entry only sits in a definition block;
     DefSpansDrv.parseBlocks_invD: the children of an entry of a definition block lie inside the entry, the entries inside the block;
     BlockShapesAll.parseBlocks_block_shapes: every block span is valid in the root's source.
   ================================================================================================ *)
Notation noEolb := EolCRRdr.noEolb.

Lemma noEolb_sub_sub (B : bytes) s e s' e' : 0 <= s -> s <= s' -> s' <= e' -> e' <= e -> e <= len B ->
  noEolb (sub B s e) = true -> noEolb (sub B s' e') = true.
Proof.
  intros A1 A2 A3 A4 A5 H. unfold EolCRRdr.noEolb in *. apply ShapesBase.forallb_at. intros i Hi. rewrite ShapesBase.len_sub_in in Hi by lia.
  rewrite ShapesBase.at_sub by lia.
  pose proof (LA2.forallb_at _ (sub B s e) (s' - s + i) H ltac:(rewrite ShapesBase.len_sub_in by lia; lia)) as P.
  rewrite ShapesBase.at_sub in P by lia. replace (s + (s' - s + i)) with (s' + i) in P by lia. exact P.
Qed.
Lemma noEolb_sim a b : Forall2 BlockShapesNul.sim a b -> noEolb a = true -> noEolb b = true.
Proof.
  induction 1 as [|x y a b Hxy H IH]; [reflexivity|]. unfold EolCRRdr.noEolb in *. cbn [forallb]. intros Hh. apply andb_true_iff in Hh. destruct Hh as [P Q].
  rewrite (IH Q), andb_true_r. destruct Hxy as [[_ ->]|[_ [->|[->| ->]]]]; [exact P|reflexivity|reflexivity|reflexivity].
Qed.
Lemma sub_empty {A} (l : list A) a b : b < a -> sub l a b = [].
Proof. intros H. unfold sub, upto. replace (Z.to_nat (b - a)) with O by lia. reflexivity. Qed.

Section Root.
  Variables (B src : bytes) (n : Z).
  Hypothesis Hn : 0 <= n <= len B.
  Hypothesis Esrc : src = fillNulls (upto B n).
  Hypothesis Htri : BlockShapesNul.tri (upto B n).

  Lemma len_src : len src = n.
  Proof. rewrite Esrc, En2OK.len_fillNulls, ShapesBase.len_upto. lia. Qed.
  Lemma sim_src : Forall2 BlockShapesNul.sim (upto B n) src.
  Proof. rewrite Esrc. apply BlockShapesNul.fill_tri, Htri. Qed.

  Lemma kid_noEol s e sc ec : 0 <= s -> s <= sc -> ec <= e -> e <= n -> noEolb (sub B s e) = true -> noEolb (sub src sc ec) = true.
  Proof.
    intros A1 A2 A3 A4 H. destruct (Z.le_gt_cases sc ec) as [L|L]; [|rewrite sub_empty by lia; reflexivity].
    pose proof (noEolb_sub_sub B s e sc ec A1 A2 L A3 ltac:(lia) H) as H1.
    rewrite <- (ShDef.sub_upto B n sc ec ltac:(lia) ltac:(lia)) in H1.
    apply (noEolb_sim _ _ (BlockShapesNul.F2_sub _ _ sc ec sim_src) H1).
  Qed.

  Lemma ek_dest K u : L2Kind2.ek K u = true -> ikind u = LinkDestinationKind -> K = LinkReferenceDefinitionKind.
  Proof.
    unfold L2Kind2.ek. cbv zeta. intros H E. rewrite E in H.
    change (LinkDestinationKind =? UnparsedKind) with false in H. change (LinkDestinationKind =? TextKind) with false in H.
    change (LinkDestinationKind =? SoftLineBreakKind) with false in H. change (LinkDestinationKind =? RawHTMLKind) with false in H.
    change (LinkDestinationKind =? IndentKind) with false in H. change (LinkDestinationKind =? InfoStringKind) with false in H.
    cbn [orb] in H. cbv iota in H. apply andb_true_iff in H. destruct H as [_ H]. apply Z.eqb_eq. exact H.
  Qed.

  Lemma dest_local b : invN B b = true -> L2Kind2.inv b = true -> DefSpansWalk.invD b = true -> BShDef.bshapes src b = true ->
    forallb (destEntry src) (bik b) = true.
  Proof.
    intros H1 H2 H3 H4. apply forallb_forall. intros u Hu. unfold destEntry.
    destruct (Z.eqb_spec (ikind u) LinkDestinationKind) as [Ek|Ek]; [|reflexivity].
    (* the block is a definition *)
    apply L2Kind2.inv_parts in H2. destruct H2 as [H2 _]. rewrite forallb_forall in H2. pose proof (ek_dest _ _ (H2 u Hu) Ek) as HK.
    (* its span is valid *)
    rewrite BlockShapes.bshapes_eq in H4. apply andb_true_iff in H4. destruct H4 as [H4 _]. apply andb_true_iff in H4. destruct H4 as [H4 _].
    apply IS2.span_valid_elim in H4. rewrite len_src in H4. destruct H4 as (S1 & S2 & S3).
    (* entries inside the block, children inside the entries *)
    apply DefSpansWalk.invD_parts in H3. destruct H3 as [H3 _]. unfold DefSpansOcp.locD in H3. rewrite HK in H3.
    change (LinkReferenceDefinitionKind =? LinkReferenceDefinitionKind) with true in H3. cbn [negb orb] in H3.
    destruct (Z.leb_spec 0 (bstart b)) as [_|]; [|lia]. cbn [negb orb] in H3. apply andb_true_iff in H3. destruct H3 as [H3 D]. apply andb_true_iff in H3. destruct H3 as [_ O].
    assert (Hvs : forall x, In x (bik b) -> istart x <= iend x).
    { intros x Hx. rewrite forallb_forall in D. specialize (D x Hx). unfold DefSpansOcp.entD in D. apply andb_true_iff in D. destruct D as [D _]. apply andb_true_iff in D. destruct D as [D _]. apply Z.leb_le, D. }
    destruct (DefSpans.ordX_In _ _ _ u O Hvs Hu) as [P1 P2]. pose proof (Hvs u Hu) as Vu.
    rewrite forallb_forall in D. pose proof (D u Hu) as Du. unfold DefSpansOcp.entD in Du. apply andb_true_iff in Du. destruct Du as [Du V]. apply andb_true_iff in Du. destruct Du as [_ Ou].
    assert (Vk : forall y, In y (ikids u) -> istart y <= iend y) by (intros y Hy; rewrite forallb_forall in V; specialize (V y Hy); unfold DefSpansOcp.vkid in V; apply Z.leb_le, V).
    (* the span of the entry has no line ending *)
    apply invN_parts in H1. destruct H1 as [H1 _]. unfold locN in H1. rewrite HK in H1.
    change (LinkReferenceDefinitionKind =? LinkReferenceDefinitionKind) with true in H1. cbn [negb orb] in H1.
    rewrite forallb_forall in H1. pose proof (H1 u Hu) as Eu. unfold EN in Eu. rewrite Ek in Eu.
    change (LinkDestinationKind =? LinkDestinationKind) with true in Eu. cbn [negb orb] in Eu.
    destruct (spanOKb_elim B u Eu ltac:(lia) Vu) as [Q1 Q2].
    apply forallb_forall. intros c Hc. unfold kidNoEol. destruct (isTC (ikind c)); [|reflexivity].
    destruct (DefSpans.ordX_In _ _ _ c Ou Vk Hc) as [C1 C2].
    apply (kid_noEol (istart u) (iend u)); try assumption; lia.
  Qed.

  Lemma dest_tree : forall b, invN B b = true -> L2Kind2.inv b = true -> DefSpansWalk.invD b = true -> BShDef.bshapes src b = true ->
    destB src b = true.
  Proof.
    fix IH 1. intros b H1 H2 H3 H4. pose proof (dest_local b H1 H2 H3 H4) as Hloc.
    apply invN_parts in H1. destruct H1 as [_ H1]. apply L2Kind2.inv_parts in H2. destruct H2 as [_ H2].
    apply DefSpansWalk.invD_parts in H3. destruct H3 as [_ H3].
    rewrite BlockShapes.bshapes_eq in H4. apply andb_true_iff in H4. destruct H4 as [_ H4].
    destruct b as [K s e bk ik a nn c l lb]. cbn [bik bkids] in *. cbn [destB]. rewrite Hloc. cbn [andb].
    unfold invNL in H1. unfold L2Kind2.invL in H2. unfold DefSpansWalk.invDL in H3. clear Hloc.
    induction bk as [|x r IHr]; [reflexivity|]. cbn [forallb] in *.
    apply andb_true_iff in H1, H2, H3, H4. destruct H1 as [A1 A2]. destruct H2 as [B1 B2]. destruct H3 as [C1 C2]. destruct H4 as [D1 D2].
    rewrite (IH x A1 B1 C1 D1). apply IHr; assumption.
  Qed.
End Root.

Theorem destBlocks : destBlocks_statement.
Proof.
  intros input. apply forallb_forall. intros r Hr.
  pose proof (parseBlocks_okRN input) as G1. pose proof (L2Kind2.parseBlocks_kinds input) as G2.
  pose proof (DefSpansDrv.parseBlocks_invD input) as G3. pose proof (BlockShapesAll.parseBlocks_block_shapes input) as G4.
  rewrite Forall_forall in G1, G2, G3, G4.
  destruct (G1 r Hr) as (B & Hb & Es & Ht & Hi).
  apply (dest_tree B (rb_src r) (bend (rb_blk r)) Hb Es Ht); [exact Hi|apply G2, Hr|apply G3, Hr|apply G4, Hr].
Qed.
Print Assumptions destBlocks.
