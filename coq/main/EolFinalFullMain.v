(* T63-F1: the final-newline theorem through the inline pass (relational form, proved for every admissible input). *)
From Coq Require Import List ZArith Lia Bool.
Import ListNotations.
Require Import Base Tables Utf8 Tree Rdr Link Collect Html Recog Inl3a Inl3b Inl3c Inl3d Driver Inl3e Props Rules.
Require L2Kind2.
Require Import IFTk5 L2CC ShapesBase EntBase EntDefs En2Tree ComposeBase ComposeGram SpanHypDef ComposeSpans2 GramInline InlineFuelAll TilBase Tiling RefSliceFold.
Require Import LADef EolFinalDefs EolFinalGenMain EolFinalFullDefs EolFinalFullRel EolFinalFullTokB EolFinalFullLeaf.
Open Scope Z_scope.

(* ---------- the last byte of the last root's source ---------- *)
Lemma replaceNul_app a b : Props.replaceNul (a ++ b) = Props.replaceNul a ++ Props.replaceNul b.
Proof. induction a as [|x a IH]; [reflexivity|]. cbn [app Props.replaceNul]. rewrite IH, app_assoc. reflexivity. Qed.
Lemma at_last (a : bytes) c : at_ (a ++ [c]) (len (a ++ [c]) - 1) = c.
Proof.
  unfold at_, len. rewrite app_length. cbn [length]. destruct (Z.ltb_spec (Z.of_nat (length a + 1) - 1) 0); [lia|].
  replace (Z.to_nat (Z.of_nat (length a + 1) - 1)) with (length a) by lia. rewrite app_nth2 by lia. rewrite Nat.sub_diag. reflexivity.
Qed.
Lemma replaceNul_last t : t <> [] -> exists a c, Props.replaceNul t = a ++ [c] /\
  c = (match rev t with x :: _ => if x =? 0 then 189 else x | [] => 0 end).
Proof.
  intros Hne. destruct (rev t) as [|x r] eqn:Er; [exfalso; apply Hne; rewrite <- (rev_involutive t), Er; reflexivity|].
  assert (Et : t = rev r ++ [x]) by (rewrite <- (rev_involutive t), Er; reflexivity).
  rewrite Et, replaceNul_app. cbn [Props.replaceNul app]. destruct (x =? 0).
  - exists (Props.replaceNul (rev r) ++ [239; 191]), 189. split; [rewrite <- app_assoc; reflexivity|reflexivity].
  - exists (Props.replaceNul (rev r)), x. split; reflexivity.
Qed.
Lemma sub_to_end (s : bytes) st : st <= len s -> sub s st (len s) = skipn (Z.to_nat st) s.
Proof.
  intros H. unfold sub, upto, from_. apply firstn_all2. rewrite skipn_length. unfold len in *. lia.
Qed.
Lemma last_root_src s pre r : fst (parseBlocks s) = pre ++ [r] -> rb_end r = len s ->
  rb_src r = Props.replaceNul (skipn (Z.to_nat (rb_start r)) s).
Proof.
  intros E He. pose proof (C01_tiles_prefix s) as H. rewrite E, tilesP_app in H. apply andb_true_iff in H. destruct H as [_ H].
  cbn [tilesP] in H. rewrite andb_true_r in H. unfold rootOK in H. cbv zeta in H. rewrite !andb_true_iff in H.
  destruct H as ((((((H1 & H2) & H3) & _) & H5) & _) & _). apply bytes_eqb_eq in H5. apply Z.leb_le in H2, H3.
  rewrite H5, He. f_equal. apply sub_to_end. lia.
Qed.
Lemma last_src_facts s pre r : fst (parseBlocks s) = pre ++ [r] -> rb_end r = len s -> endsEol s = false -> lastByte s <> 62 ->
  0 < len (rb_src r) -> LADef.isEOLz (at_ (rb_src r) (len (rb_src r) - 1)) = false /\ at_ (rb_src r) (len (rb_src r) - 1) <> 62.
Proof.
  intros E He Hn H62 HL. rewrite (last_root_src s pre r E He) in *. set (t := skipn (Z.to_nat (rb_start r)) s) in *.
  assert (Hne : t <> []) by (intros Et; rewrite Et in HL; cbn in HL; lia).
  destruct (replaceNul_last t Hne) as (a & c & Ea & Ec). rewrite Ea, at_last.
  assert (Hrev : exists x r0 r1, rev t = x :: r0 /\ rev s = x :: r1).
  { assert (Es : s = firstn (Z.to_nat (rb_start r)) s ++ t) by (symmetry; apply firstn_skipn).
    destruct (rev t) as [|x r0] eqn:Er; [exfalso; apply Hne; rewrite <- (rev_involutive t), Er; reflexivity|].
    exists x, r0, (r0 ++ rev (firstn (Z.to_nat (rb_start r)) s)). split; [reflexivity|]. rewrite Es at 1. rewrite rev_app_distr, Er. reflexivity. }
  destruct Hrev as (x & r0 & r1 & Er & Es). rewrite Er in Ec. unfold endsEol in Hn. unfold lastByte in H62. rewrite Es in Hn, H62.
  unfold LADef.isEOLz. subst c. destruct (Z.eqb_spec x 0) as [E0|N0]; [split; [reflexivity|lia]|]. split; [exact Hn|exact H62].
Qed.

(* ---------- structure of finB ---------- *)
Definition isU (i : inline) : bool := ikind i =? UnparsedKind.
Lemma existsb_rev {A} (p : A -> bool) l : existsb p (rev l) = existsb p l.
Proof. induction l as [|x l IH]; [reflexivity|]. cbn [rev existsb]. rewrite existsb_app, IH. cbn [existsb]. rewrite orb_false_r. apply orb_comm. Qed.
Lemma hasU_finCode L ik : existsb isU (finCode L ik) = existsb isU ik.
Proof.
  unfold finCode. destruct (rev ik) as [|[k2 s2 e2 i2 r2 ks2] [|[k1 s1 e1 i1 r1 ks1] pre]] eqn:Er; try reflexivity.
  destruct (_ && _ && _ && _ && _) eqn:Ec; [|reflexivity].
  rewrite !andb_true_iff in Ec. destruct Ec as ((((E2 & _) & _) & E1) & _). apply Z.eqb_eq in E2, E1. subst k2 k1.
  rewrite <- (existsb_rev isU ik), Er. cbn [existsb]. rewrite existsb_app, existsb_rev. cbn [existsb]. unfold isU. cbn [ikind]. change (SoftLineBreakKind =? UnparsedKind) with false. change (TextKind =? UnparsedKind) with false. cbn [orb]. rewrite orb_false_r. reflexivity.
Qed.
Lemma hasU_bump L ik : existsb isU (map (bumpI L) ik) = existsb isU ik.
Proof. induction ik as [|x ik IH]; [reflexivity|]. cbn [map existsb]. rewrite IH. unfold isU. rewrite EolGenRdrBase.bumpI_kind. reflexivity. Qed.
Lemma hasU_finI K L ik : existsb isU (finI K L ik) = existsb isU ik.
Proof. unfold finI. destruct (_ || _); [apply hasU_bump|]. destruct (_ || _); [apply hasU_finCode|reflexivity]. Qed.
Lemma hasUnparsed_F L b : hasUnparsed (finB L b) = hasUnparsed b.
Proof. destruct b as [K s e bk ik a n c l lb]. cbn [finB]. destruct (K =? ListMarkerKind); [reflexivity|]. unfold hasUnparsed. cbn [bik]. apply (hasU_finI K L ik). Qed.
Lemma cond_hasU b : ((0 <? len (bik b)) && hasUnparsed b) = hasUnparsed b.
Proof. unfold hasUnparsed. destruct (bik b) as [|x r]; [reflexivity|]. unfold len. cbn [length]. replace (0 <? Z.of_nat (S (length r))) with true by (symmetry; apply Z.ltb_lt; lia). reflexivity. Qed.
Lemma bheight_F L : forall b, bheight (finB L b) = bheight b.
Proof.
  fix IH 1. intros [K s e bk ik a n c l lb]. cbn [finB]. destruct (K =? ListMarkerKind); [reflexivity|]. cbn [bheight]. f_equal.
  induction bk as [|x r IHr]; [reflexivity|]. cbn [map fold_right]. rewrite (IH x), IHr. reflexivity.
Qed.
Lemma cc_kid b c : cc b = true -> In c (bkids b) -> cc c = true.
Proof. intros H Hc. apply cc_parts in H. destruct H as [_ H]. unfold ccL in H. rewrite forallb_forall in H. apply H, Hc. Qed.
Lemma cc_sub d : forall b, subB d b -> cc b = true -> cc d = true.
Proof. induction 1 as [b|d c b Hin Hs IH]; intros H; [exact H|]. apply IH. eapply cc_kid; eassumption. Qed.
Lemma nokids b : cc b = true -> (forall x, canContain (bkind b) x = false) -> bkids b = [].
Proof.
  intros H Hn. apply cc_parts in H. destruct H as [H _]. destruct (bkids b) as [|c r]; [reflexivity|]. cbn [forallb] in H. rewrite (Hn (bkind c)) in H. discriminate.
Qed.
Lemma subB_F L d : forall b, subB d b -> cc b = true -> subB (finB L d) (finB L b).
Proof.
  induction 1 as [b|d c b Hin Hs IH]; intros Hcc; [apply subB_refl|]. pose proof (cc_kid b c Hcc Hin) as Hc.
  destruct b as [K s e bk ik a n c0 l lb]. cbn [bkids] in Hin. cbn [finB]. destruct (Z.eqb_spec K ListMarkerKind) as [EK|NK].
  - exfalso. assert (Hk : bkids (Blk K s e bk ik a n c0 l lb) = []) by (apply (nokids _ Hcc); intros x; cbn [bkind]; rewrite EK; reflexivity).
    cbn [bkids] in Hk. rewrite Hk in Hin. destruct Hin.
  - eapply subB_kid; [|apply IH, Hc]. cbn [bkids]. apply in_map, Hin.
Qed.

(* ---------- the reference map is the same ---------- *)
Lemma fold_left_map_ext {A B C} (f : A -> C -> A) (g : A -> B -> A) (h : B -> C) : forall l a, (forall x a0, In x l -> f a0 (h x) = g a0 x) ->
  fold_left f (map h l) a = fold_left g l a.
Proof. induction l as [|x l IH]; intros a H; [reflexivity|]. cbn [map fold_left]. rewrite (H x a (or_introl eq_refl)). apply IH. intros y a0 Hy. apply H. right. exact Hy. Qed.
Lemma extractB_F L : forall f b acc, extractB f (finB L b) acc = extractB f b acc.
Proof.
  induction f as [|f IH]; intros b acc; [reflexivity|]. destruct b as [K s e bk ik a n c l lb]. cbn [finB].
  destruct (Z.eqb_spec K ListMarkerKind) as [EK|NK]; [reflexivity|]. cbn [extractB bkind bik bkids].
  destruct (Z.eqb_spec K LinkReferenceDefinitionKind) as [EL|NL].
  - subst K. reflexivity.
  - apply fold_left_map_ext. intros x a0 _. apply IH.
Qed.

Lemma lines_noU_nil B M ik : lines B M ik -> existsb isU ik = false -> ik = [].
Proof.
  destruct ik as [|u r]; [reflexivity|]. intros (A & _ & A2) H. exfalso. cbn [existsb] in H. apply orb_false_iff in H. destruct H as [H1 H2].
  destruct A as [(K & _)|[(K & _) Hn]]; [unfold isU in H1; rewrite K in H1; discriminate|].
  destruct r as [|v r']; [destruct Hn|]. destruct Hn as [Kv _]. cbn [existsb] in H2. unfold isU in H2 at 1. rewrite Kv in H2. discriminate.
Qed.

Lemma subB_kid2 c b d : In c (bkids b) -> subB b d -> subB c d.
Proof. intros Hc H. induction H as [b|b c0 d Hin Hs IH]; [eapply subB_kid; [exact Hc|apply subB_refl]|eapply subB_kid; [exact Hin|apply IH, Hc]]. Qed.

(* ---------- rewriteB on the last root ---------- *)
Section LastRoot.
  Variables (s : bytes) (r : rootB) (refs : list bytes).
  Hypothesis Hr : In r (fst (parseBlocks s)).
  Local Notation src := (rb_src r).
  Local Notation L := (len (rb_src r)).
  Hypothesis Hend : 0 < L -> LADef.isEOLz (at_ src (L - 1)) = false /\ at_ src (L - 1) <> 62.
  Hypothesis HqAll : forall d, subB d (rb_blk r) -> hasUnparsed d = true -> forall rf tf pf lf ofu,
     (2 * length (src ++ [10%Z]) + 10 <= rf)%nat -> (2 * length (src ++ [10%Z]) + 10 <= tf)%nat -> (8 * length (src ++ [10%Z]) + 8 <= pf)%nat ->
     (S (length (src ++ [10%Z])) <= lf)%nat -> (S (length (bik (finB L d))) <= ofu)%nat ->
     parseInlinesG rf tf pf lf ofu (src ++ [10]) refs (finB L d) = parseInlines (src ++ [10]) refs (finB L d).

  Lemma root_cc : cc (rb_blk r) = true.
  Proof. pose proof (parseBlocks_contain s) as H. rewrite Forall_forall in H. apply (H r Hr). Qed.

  Lemma rewrite_rel : forall f d, subB d (rb_blk r) -> (bheight d <= f)%nat ->
    finRelB L (rewriteB f src refs d) (rewriteB f (src ++ [10]) refs (finB L d)).
  Proof.
    destruct (root_facts s r Hr) as (B & pre' & M & Hn & Es & Ht & Lp & Hf).
    induction f as [|f IH]; intros d Hd Hh; [destruct d; cbn in Hh; lia|].
    pose proof (facts_sub B pre' M d _ Hd Hf) as Hfd. pose proof (cc_sub d _ Hd root_cc) as Hcc.
    cbn [rewriteB]. rewrite !cond_hasU, hasUnparsed_F.
    destruct (hasUnparsed d) eqn:Hu.
    - (* a leaf on which the inline parser runs *)
      pose proof (leaf_final s r d refs Hr Hd Hu Hend (HqAll d Hd Hu)) as HR.
      destruct (leaf_cases B pre' M (bend (rb_blk r)) Lp d Hfd Hu) as (_ & _ & _ & HK).
      assert (HKs : (bkind d = ParagraphKind \/ bkind d = SetextHeadingKind) \/ bkind d = ATXHeadingKind) by (destruct HK as [(HPS & _)|(HA & _)]; [left; exact HPS|right; exact HA]).
      assert (Hnk : bkids d = []).
      { apply (nokids d Hcc). intros x. destruct HKs as [[E|E]|E]; rewrite E; reflexivity. }
      destruct d as [K s0 e0 bk ik a0 n0 c0 l0 lb0]. cbn [bkind bkids bik] in *. subst bk.
      assert (NK : K <> ListMarkerKind) by (destruct HKs as [[E|E]|E]; rewrite E; discriminate).
      cbn [finB] in *. replace (K =? ListMarkerKind) with false in * by (symmetry; apply Z.eqb_neq; exact NK). cbn [set_bik map].
      apply FR_blk; [exact NK|constructor|]. unfold inlRelK.
      destruct HKs as [[E|E]|E]; subst K; cbn [isCode Z.eqb orb]; change (ParagraphKind =? HTMLBlockKind) with false; change (SetextHeadingKind =? HTMLBlockKind) with false;
        change (ATXHeadingKind =? HTMLBlockKind) with false; change (SetextHeadingKind =? ParagraphKind) with false; change (ATXHeadingKind =? ParagraphKind) with false; cbv iota.
      + rewrite Z.eqb_refl. destruct HR as [HR|(_ & X & ps & P1 & P2 & P3 & _)]; [left; exact HR|right]. exists X, ps. split; [exact P1|]. split; [exact P2|exact P3].
      + destruct HR as [HR|(HKp & _)]; [exact HR|discriminate].
      + destruct HR as [HR|(HKp & _)]; [exact HR|discriminate].
    - (* no inline parsing at this block *)
      destruct d as [K s0 e0 bk ik a0 n0 c0 l0 lb0]. cbn [finB]. destruct (Z.eqb_spec K ListMarkerKind) as [EK|NK].
      + assert (Hk : bkids (Blk K s0 e0 bk ik a0 n0 c0 l0 lb0) = []) by (apply (nokids _ Hcc); intros x; cbn [bkind]; rewrite EK; reflexivity).
        cbn [bkids] in Hk. subst bk. cbn [set_bkids map bkids]. apply FR_lm. exact EK.
      + cbn [set_bkids bkids]. apply FR_blk; [exact NK| |].
        * rewrite map_map. cbn [bheight] in Hh.
          assert (Hall : forall c, In c bk -> subB c (rb_blk r) /\ (bheight c <= f)%nat).
          { intros c Hc. split; [apply (subB_kid2 c (Blk K s0 e0 bk ik a0 n0 c0 l0 lb0) _ Hc Hd)|]. pose proof (bheight_kid c bk Hc). lia. }
          clear - IH Hall. induction bk as [|c bk IHb]; [constructor|]. cbn [map]. constructor.
          -- destruct (Hall c (or_introl eq_refl)) as [A1 A2]. apply IH; assumption.
          -- apply IHb. intros x Hx. apply Hall. right. exact Hx.
        * unfold inlRelK, finI. destruct (isCode K) eqn:EC.
          -- unfold isCode in EC. destruct (K =? ParagraphKind) eqn:EP; [apply Z.eqb_eq in EP; subst K; discriminate|].
             destruct (K =? HTMLBlockKind) eqn:EH; [apply Z.eqb_eq in EH; subst K; discriminate|]. cbn [orb]. unfold isCode. rewrite EC. reflexivity.
          -- destruct (K =? HTMLBlockKind) eqn:EH; [rewrite orb_true_r; reflexivity|].
             destruct (Z.eqb_spec K ParagraphKind) as [EP|NP].
             ++ cbn [orb]. left. destruct Hfd as (He & _ & _). cbn [en] in He. destruct He as ((A & _) & _). destruct (A (or_introl EP)) as (Hl & _).
                unfold hasUnparsed in Hu. cbn [bik] in Hu. rewrite (lines_noU_nil B _ ik Hl Hu). reflexivity.
             ++ cbn [orb]. unfold isCode in EC. rewrite EC. reflexivity.
  Qed.
  (* ---- the functional form, when no paragraph of the last root reaches the end of the source ---- *)
  Lemma leaf_kind_nokids d : subB d (rb_blk r) -> hasUnparsed d = true ->
    ((bkind d = ParagraphKind \/ bkind d = SetextHeadingKind) \/ bkind d = ATXHeadingKind) /\ bkids d = [].
  Proof.
    intros Hd Hu. destruct (root_facts s r Hr) as (B & pre' & M & Hn & Es & Ht & Lp & Hf).
    pose proof (facts_sub B pre' M d _ Hd Hf) as Hfd. pose proof (cc_sub d _ Hd root_cc) as Hcc.
    destruct (leaf_cases B pre' M (bend (rb_blk r)) Lp d Hfd Hu) as (_ & _ & _ & HK).
    assert (HKs : (bkind d = ParagraphKind \/ bkind d = SetextHeadingKind) \/ bkind d = ATXHeadingKind) by (destruct HK as [(HPS & _)|(HA & _)]; [left; exact HPS|right; exact HA]).
    split; [exact HKs|]. apply (nokids d Hcc). intros x. destruct HKs as [[E|E]|E]; rewrite E; reflexivity.
  Qed.
  Lemma spansAfter_sub : forall d b, subB d b -> subB b (rb_blk r) -> forall f, (bheight b <= f)%nat -> spansAfter f src refs b = true -> hasUnparsed d = true ->
    forallb (spansI false src (bstart d) (bend d)) (parseInlines src refs d) = true.
  Proof.
    induction 1 as [b|d c b Hin Hs IH]; intros Hb f Hh H Hu.
    - destruct f as [|f]; [destruct b; cbn in Hh; lia|]. cbn [spansAfter] in H. unfold isLeafU in H. rewrite cond_hasU, Hu in H. cbn [rewriteB] in H. rewrite cond_hasU, Hu in H.
      apply andb_true_iff in H. destruct H as [_ H]. destruct b; exact H.
    - destruct f as [|f]; [destruct b; cbn in Hh; lia|]. cbn [spansAfter] in H. unfold isLeafU in H. rewrite cond_hasU in H.
      destruct (hasUnparsed b) eqn:Hub.
      + exfalso. destruct (leaf_kind_nokids b Hb Hub) as [_ Hk]. rewrite Hk in Hin. destruct Hin.
      + rewrite forallb_forall in H. apply (IH (subB_kid2 c b _ Hin Hb) f); [|apply H, Hin|exact Hu].
        destruct b as [K s0 e0 bk ik a0 n0 c0 l0 lb0]. cbn [bheight bkids] in *. pose proof (bheight_kid c bk Hin). lia.
  Qed.
  Lemma bumpLastText_noop L0 ik : (forall u, In u ik -> iend u <> L0) -> bumpLastText L0 ik = ik.
  Proof.
    intros H. unfold bumpLastText. destruct (rev ik) as [|[k s0 e i r0 ks] pre] eqn:Er; [reflexivity|].
    assert (Hin : In (Inl k s0 e i r0 ks) ik) by (apply in_rev; rewrite Er; left; reflexivity). specialize (H _ Hin). cbn [iend] in H.
    replace (e =? L0) with false by (symmetry; apply Z.eqb_neq; exact H). rewrite andb_false_r. reflexivity.
  Qed.

  Hypothesis Hclass : forall d, subB d (rb_blk r) -> bkind d = ParagraphKind -> bend d <> L.
  Variable hb : bool.

  Lemma rewrite_fun : forall f d, subB d (rb_blk r) -> (bheight d <= f)%nat ->
    rewriteB f (src ++ [10]) refs (finB L d) = finFullB L hb (rewriteB f src refs d).
  Proof.
    destruct (root_facts s r Hr) as (B & pre' & M & Hn & Es & Ht & Lp & Hf).
    pose proof (src_len B (upto B (bend (rb_blk r))) src (bend (rb_blk r)) Hn eq_refl Es) as Hlen.
    induction f as [|f IH]; intros d Hd Hh; [destruct d; cbn in Hh; lia|].
    pose proof (facts_sub B pre' M d _ Hd Hf) as Hfd. pose proof (cc_sub d _ Hd root_cc) as Hcc.
    cbn [rewriteB]. rewrite !cond_hasU, hasUnparsed_F.
    destruct (hasUnparsed d) eqn:Hu.
    - pose proof (leaf_final s r d refs Hr Hd Hu Hend (HqAll d Hd Hu)) as HR.
      destruct (leaf_kind_nokids d Hd Hu) as [HKs Hnk].
      destruct (leaf_cases B pre' M (bend (rb_blk r)) Lp d Hfd Hu) as (_ & _ & Hbe & HK). rewrite <- Hlen in Hbe.
      assert (Hq : parseInlines (src ++ [10]) refs (finB L d) = parseInlines src refs d).
      { destruct HR as [HR|(HKp & X & ps & _ & _ & _ & _ & u & Hu1 & Hu2)]; [exact HR|]. exfalso.
        destruct HK as [(HPS & HL & _)|(HA & _)]; [|rewrite HA in HKp; discriminate].
        assert (Hle : iend u <= bend d).
        { clear - HL Hu1. induction (bik d) as [|x r0 IHl]; [destruct Hu1|]. destruct HL as (A & _ & A2). destruct Hu1 as [->|Hu1]; [|apply IHl; assumption].
          destruct A as [(_ & _ & _ & _ & U3 & _)|[(K & _ & I1 & I2 & _) Hn]]; [exact U3|].
          destruct r0 as [|v r']; [destruct Hn|]. destruct Hn as [Kv Ev]. destruct A2 as (Av & _).
          destruct Av as [(_ & _ & _ & V2 & V3 & _)|[(Kv' & _) _]]; [lia|rewrite Kv in Kv'; discriminate]. }
        apply (Hclass d Hd HKp). lia. }
      rewrite Hq.
      assert (Hsp : forallb (spansI false src (bstart d) (bend d)) (parseInlines src refs d) = true).
      { pose proof (parseBlocks_inline_spans s refs) as HS. rewrite forallb_forall in HS. apply (spansAfter_sub d (rb_blk r) Hd (subB_refl _) (bheight (rb_blk r)) (le_n _) (HS r Hr) Hu). }
      destruct d as [K s0 e0 bk ik a0 n0 c0 l0 lb0]. cbn [bkind bkids bik bend bstart] in *. subst bk.
      assert (NK : K <> ListMarkerKind) by (destruct HKs as [[E|E]|E]; rewrite E; discriminate).
      cbn [finB finFullB set_bik]. replace (K =? ListMarkerKind) with false by (symmetry; apply Z.eqb_neq; exact NK). cbn [set_bik map finFullB].
      replace (K =? ListMarkerKind) with false by (symmetry; apply Z.eqb_neq; exact NK). f_equal.
      destruct HKs as [[E|E]|E]; subst K; cbn [Z.eqb orb andb]; change (ParagraphKind =? HTMLBlockKind) with false; change (SetextHeadingKind =? HTMLBlockKind) with false;
        change (ATXHeadingKind =? HTMLBlockKind) with false; change (SetextHeadingKind =? ParagraphKind) with false; change (ATXHeadingKind =? ParagraphKind) with false; cbv iota; try reflexivity.
      rewrite Z.eqb_refl. cbn [andb]. destruct hb; [|reflexivity]. symmetry. apply bumpLastText_noop. intros u Hu'.
      rewrite forallb_forall in Hsp. destruct (spansI_bounds false src s0 e0 u (Hsp u Hu')) as (_ & _ & _ & _ & Hb). specialize (Hclass _ Hd eq_refl). cbn [bend] in Hclass. lia.
    - destruct d as [K s0 e0 bk ik a0 n0 c0 l0 lb0]. cbn [finB]. destruct (Z.eqb_spec K ListMarkerKind) as [EK|NK].
      + assert (Hk : bkids (Blk K s0 e0 bk ik a0 n0 c0 l0 lb0) = []) by (apply (nokids _ Hcc); intros x; cbn [bkind]; rewrite EK; reflexivity).
        cbn [bkids] in Hk. subst bk. cbn [set_bkids map bkids finFullB]. replace (K =? ListMarkerKind) with true by (symmetry; apply Z.eqb_eq; exact EK). reflexivity.
      + cbn [set_bkids bkids finFullB]. replace (K =? ListMarkerKind) with false by (symmetry; apply Z.eqb_neq; exact NK). f_equal.
        * rewrite !map_map. apply map_ext_in. intros c Hc. cbn [bheight] in Hh. pose proof (bheight_kid c bk Hc).
          apply IH; [apply (subB_kid2 c (Blk K s0 e0 bk ik a0 n0 c0 l0 lb0) _ Hc Hd)|lia].
        * unfold finI. destruct ((K =? IndentedCodeBlockKind) || (K =? FencedCodeBlockKind)) eqn:EC.
          -- destruct (K =? ParagraphKind) eqn:EP; [apply Z.eqb_eq in EP; subst K; discriminate|].
             destruct (K =? HTMLBlockKind) eqn:EH; [apply Z.eqb_eq in EH; subst K; discriminate|]. reflexivity.
          -- destruct (K =? HTMLBlockKind) eqn:EH; [rewrite orb_true_r; reflexivity|].
             destruct (Z.eqb_spec K ParagraphKind) as [EP|NP]; [|reflexivity].
             cbn [orb andb]. destruct Hfd as (He & _ & _). cbn [en] in He. destruct He as ((A & _) & _). destruct (A (or_introl EP)) as (Hl & _).
             unfold hasUnparsed in Hu. cbn [bik] in Hu. rewrite (lines_noU_nil B _ ik Hl Hu). destruct hb; reflexivity.
  Qed.
End LastRoot.

(* ---------- the theorem ---------- *)
Definition rw (refs : list bytes) (r : rootB) : rootB :=
  {| rb_line := rb_line r; rb_start := rb_start r; rb_end := rb_end r; rb_src := rb_src r;
     rb_blk := rewriteB (bheight (rb_blk r)) (rb_src r) refs (rb_blk r) |}.
Definition refsOf' (roots : list rootB) : list bytes := fold_left (fun a r => extractB (bheight (rb_blk r)) (rb_blk r) a) roots [].
Lemma parseFull_eq input : parseFull input = (map (rw (refsOf' (fst (parseBlocks input)))) (fst (parseBlocks input)), snd (parseBlocks input)).
Proof. unfold parseFull, refsOf', rw. destruct (parseBlocks input) as [roots code]. reflexivity. Qed.

Lemma refs_fin n roots : refsOf' (finRoots n roots) = refsOf' roots.
Proof.
  unfold finRoots. destruct (rev roots) as [|r pre] eqn:Er; [apply (f_equal (@rev rootB)) in Er; rewrite rev_involutive in Er; subst roots; reflexivity|].
  destruct (rb_end r =? n); [|reflexivity]. assert (E : roots = rev pre ++ [r]) by (rewrite <- (rev_involutive roots), Er; reflexivity).
  rewrite E. unfold refsOf'. rewrite !fold_left_app. cbn [fold_left finRoot rb_blk]. rewrite bheight_F, extractB_F. reflexivity.
Qed.

Theorem parseFull_final_newline_rel : parseFull_final_newline_rel_statement.
Proof.
  intros s Hne Hn H62. rewrite !parseFull_eq. pose proof (parseBlocks_final_newline s Hne Hn H62) as HB. rewrite HB. cbn [fst snd].
  rewrite refs_fin. set (refs := refsOf' (fst (parseBlocks s))). set (roots := fst (parseBlocks s)) in *.
  eexists. split; [reflexivity|]. unfold finRelRoots, finRoots. rewrite <- map_rev. destruct (rev roots) as [|r pre] eqn:Er; [reflexivity|].
  cbn [map]. change (rb_end (rw refs r)) with (rb_end r). destruct (Z.eqb_spec (rb_end r) (len s)) as [Ee|Ne]; [|reflexivity].
  assert (E : roots = rev pre ++ [r]) by (rewrite <- (rev_involutive roots), Er; reflexivity).
  exists (rw refs (finRoot r)). split; [rewrite map_app, map_rev; reflexivity|].
  unfold finRelRoot. cbn [rw finRoot rb_line rb_start rb_end rb_src rb_blk]. repeat split. rewrite bheight_F.
  assert (Hr : In r (fst (parseBlocks s))) by (fold roots; rewrite E; apply in_or_app; right; left; reflexivity).
  apply (rewrite_rel s r refs Hr); [| |apply subB_refl|apply le_n].
  - intros HL. apply (last_src_facts s (rev pre) r); [fold roots; exact E|exact Ee|exact Hn|exact H62|exact HL].
  - intros d Hd Hu rf tf pf lf ofu R T P Lf O.
    apply (parseFull_fuel_adequate (s ++ [10]) (finRoot r) (finB (len (rb_src r)) d)); try assumption.
    + rewrite HB. cbn [fst]. unfold finRoots. fold roots. rewrite Er. replace (rb_end r =? len s) with true by (symmetry; apply Z.eqb_eq; exact Ee). apply in_or_app. right. left. reflexivity.
    + cbn [finRoot rb_blk]. apply subB_F; [exact Hd|apply (root_cc s r Hr)].
    + rewrite hasUnparsed_F. exact Hu.
Qed.
Print Assumptions parseFull_final_newline_rel.

(* The statement asked for, EolFinalFullDefs.parseFull_final_newline_statement, fixes WHEN the last Text node of a paragraph is
   extended (hbTail: the source ends in two spaces).  What is proved above is the same statement with that choice left open
   (finRelB, inlRelK): it is the partial result. *)
Definition parseFull_final_newline_partial : parseFull_final_newline_rel_statement := parseFull_final_newline_rel.

(* ---------- the statement asked for, on the documents whose last root has no paragraph reaching the end of the source
   (the input ends in a heading, a code block, an HTML block, a thematic break, a link reference definition, ...) ---------- *)
Definition noParaAtEnd (s : bytes) : Prop :=
  forall r, In r (fst (parseBlocks s)) -> rb_end r = len s ->
  forall d, subB d (rb_blk r) -> bkind d = ParagraphKind -> bend d <> len (rb_src r).

Theorem parseFull_final_newline_noParaAtEnd : forall s, s <> [] -> endsEol s = false -> lastByte s <> 62 -> noParaAtEnd s ->
  parseFull (s ++ [10]) = (finFullRoots (len s) (fst (parseFull s)), snd (parseFull s)).
Proof.
  intros s Hne Hn H62 Hcl. rewrite !parseFull_eq. pose proof (parseBlocks_final_newline s Hne Hn H62) as HB. rewrite HB. cbn [fst snd].
  rewrite refs_fin. set (refs := refsOf' (fst (parseBlocks s))). set (roots := fst (parseBlocks s)) in *. f_equal.
  unfold finFullRoots, finRoots. rewrite <- map_rev. destruct (rev roots) as [|r pre] eqn:Er; [reflexivity|].
  cbn [map]. change (rb_end (rw refs r)) with (rb_end r). destruct (Z.eqb_spec (rb_end r) (len s)) as [Ee|Ne]; [|reflexivity].
  assert (E : roots = rev pre ++ [r]) by (rewrite <- (rev_involutive roots), Er; reflexivity).
  rewrite map_app, map_rev. f_equal. cbn [map]. f_equal.
  unfold finFullRoot, rw, finRoot. cbn [rb_line rb_start rb_end rb_src rb_blk]. f_equal. rewrite bheight_F.
  assert (Hr : In r (fst (parseBlocks s))) by (fold roots; rewrite E; apply in_or_app; right; left; reflexivity).
  apply (rewrite_fun s r refs Hr); [| | |apply subB_refl|apply le_n].
  - intros HL. apply (last_src_facts s (rev pre) r); [fold roots; exact E|exact Ee|exact Hn|exact H62|exact HL].
  - intros d Hd Hu rf tf pf lf ofu R T P Lf O.
    apply (parseFull_fuel_adequate (s ++ [10]) (finRoot r) (finB (len (rb_src r)) d)); try assumption.
    + rewrite HB. cbn [fst]. unfold finRoots. fold roots. rewrite Er. replace (rb_end r =? len s) with true by (symmetry; apply Z.eqb_eq; exact Ee). apply in_or_app. right. left. reflexivity.
    + cbn [finRoot rb_blk]. apply subB_F; [exact Hd|apply (root_cc s r Hr)].
    + rewrite hasUnparsed_F. exact Hu.
  - intros d Hd HK. apply (Hcl r Hr Ee d Hd HK).
Qed.
Print Assumptions parseFull_final_newline_noParaAtEnd.
