From Coq Require Import List ZArith Lia Bool.
Import ListNotations.
Require Import Base Tree Rdr Link Collect Html Recog LP Rules Starts Driver Render L2Kind L2CC GramDefs GramTree GramLP GramLP2 GramLP3 GramLP4
  Rec17 Rec18 BSLine1 BSLine3 BSLine4
  TilBase TilDefs TilLP1 TilLP2 TilLP3 TilLP4 TilLP5 TilLP6 TilLP7 TilLP8 TilLP9 TilLP10 TilLP11 TilFr.
Require L2Kind2.
Open Scope Z_scope.

(* ================= one line: the invariant on the list of root children ================= *)

(* before the line that starts at ls *)
Definition KIn (src : bytes) (ls : Z) (ch : list block) : Prop :=
  (forall c, In c ch -> 0 <= bend c -> good src (bend c)) /\
  (forall c, In c (removelast ch) -> isOpen c = false) /\
  (forall c, lastL ch = Some c -> isOpen c = true) /\
  (forall c, lastL ch = Some c -> bkind c <> SetextHeadingKind) /\
  (forall c, lastL ch = Some c -> bkind c = ParagraphKind ->
     exists m, PIk src m (bik c) /\ m <= ls /\ blankR src m ls).
(* after the line *)
Definition KOut (src : bytes) (ch : list block) : Prop :=
  (forall c, In c ch -> 0 <= bend c -> good src (bend c)) /\
  (forall c, In c (removelast ch) -> isOpen c = false) /\
  (forall c, lastL ch = Some c -> isOpen c = true -> bkind c <> SetextHeadingKind) /\
  (forall c, lastL ch = Some c -> isOpen c = false -> blankR src (bend c) (len src)) /\
  (forall c, lastL ch = Some c -> isOpen c = true -> bkind c = ParagraphKind ->
     exists m, PIk src m (bik c) /\ m <= len src /\ blankR src m (len src)).

Lemma KOut_of_FF p : FF p -> KOut (source p) (bkids (root p)).
Proof. intros (A & B & C & D & E). unfold KOut. fold (top p). repeat split; assumption. Qed.

Section WithOcp.
  Hypothesis HOP : OcpPara.
  Hypothesis HOS : OcpSetext.

  Theorem processLine_K st ch ls src : ccF ch = true -> gbL ch = true -> 0 <= ls <= len src -> good src ls ->
    KIn src ls ch -> KOut src (fst (fst (processLine st ch ls src))).
  Proof.
    intros Hc Hg Hls Hgl (KA & KC & KO & KS & KP). unfold processLine. cbv zeta.
    set (p0 := resetLP st ch ls src).
    assert (G0 : GI p0).
    { split; [|split].
      - unfold ccP, wf, p0, resetLP, cdepth. cbn [root container]. split; [reflexivity|split; [exact Hc|eexists; reflexivity]].
      - unfold p0, resetLP. cbn [root]. apply gb_intro; [reflexivity|exact Hg].
      - reflexivity. }
    assert (E0 : EV p0).
    { unfold EV, p0, resetLP. cbn [line source lineStart li]. split; [reflexivity|]. split; [exact Hls|]. split; [|exact Hgl].
      pose proof (len_nonneg (from_ src ls)). lia. }
    assert (T0' : TT p0).
    { unfold TT, TA, TB1, TB2, TP, TS, TC, B1, cur, top, p0, resetLP. cbn [root bkids source lineStart li cdepth container].
      split; [exact KA|]. split; [|split; [|split; [|split; [|exact KC]]]].
      - intros _ _. apply sptR_empty. lia.
      - intros _ c Hcl Ho. rewrite (KO c Hcl) in Ho. discriminate.
      - intros c Hcl _ Hk. apply KP; assumption.
      - intros c Hcl _. apply KS, Hcl. }
    assert (R0 : RN p0) by (intros E; discriminate E).
    assert (Hsrc : forall p', fr p0 p' -> source p' = src) by (intros p' F; destruct F as (F1 & _); exact F1).
    destruct (TJ_descend_loop (bheight (root p0)) p0 O (conj G0 (conj E0 T0')) R0 eq_refl) as [H1 I1].
    pose proof (fr_descend_loop (bheight (root p0)) p0 O) as F1.
    fold (descendOpenBlocks p0) in H1, I1, F1.
    destruct (descendOpenBlocks p0) as [am p1]. cbn [snd] in H1, I1, F1.
    destruct (Z.eqb_spec (state p1) stDescendTerminated) as [Et|Nt]; cbn [negb fst].
    - (* the line ended an open block (or nothing was done) *)
      rewrite <- (Hsrc p1 F1). apply KOut_of_FF.
      destruct (I1 Et) as [Hli|(_ & Er & Hm)]; [apply FF_of_consumed; assumption|].
      (* stale state: the tree is unchanged and the last root child is open and is no paragraph *)
      destruct H1 as [(A1 & B1' & C1) _]. apply FF_of_NPQ; [apply TT_T0, C1|].
      intros c Hc1. unfold top in Hc1. rewrite Er in Hc1. change (bkids (root p0)) with ch in Hc1. split; [apply KO, Hc1|].
      destruct (bheight_S (root p0)) as (n & En). specialize (Hm ltac:(rewrite En; discriminate) c).
      rewrite top_getAt1 in Hm. specialize (Hm Hc1 (KO c Hc1)). intros Ek. rewrite Ek in Hm. discriminate.
    - pose proof (fr_openNewBlocks p1 am) as F2.
      destruct (Z.eq_dec (len (line p1)) 0) as [El|Nl].
      + (* the end of the input *)
        unfold openNewBlocks in *. apply Z.eqb_eq in El. rewrite El in *. cbn [fst snd] in *.
        rewrite <- (Hsrc _ (fr_trans _ _ _ F1 F2)). apply KOut_of_FF. apply (FF_eof HOP); [apply H1|apply Z.eqb_eq, El].
      + destruct (TJ_openNewBlocks HOP HOS p1 am H1 Nl) as [H2 L2].
        pose proof (L2Kind2.openNewBlocks_good p1 am) as G2.
        destruct (openNewBlocks p1 am) as [ht p2]. cbn [fst snd] in *.
        destruct ht.
        * pose proof (fr_addLineText p2) as F3.
          rewrite <- (Hsrc _ (fr_trans _ _ _ F1 (fr_trans _ _ _ F2 F3))). apply KOut_of_FF. apply (FF_addLineText HOP); [exact H2|apply G2; reflexivity].
        * rewrite <- (Hsrc _ (fr_trans _ _ _ F1 F2)). apply KOut_of_FF. apply FF_of_consumed; [exact H2|apply L2; reflexivity].
  Qed.
End WithOcp.
