(* EmphSlice2.v -- property C11 on the WIDENED slice (EmphSpec2.v): a one-line paragraph given as a list cs of characters
     ASCII letters, digits, single spaces, the delimiters, the 22 ASCII punctuation bytes that start no other inline construct,
     the 16 non-ASCII Zs code points, 46 non-ASCII punctuation code points, the letters U+00C0..U+024F (without the two signs) and
     12 other letters (okLine2 cs: first character an ASCII letter, no doubled space; ANY length),
   serialised as UTF-8 (t = utf8 cs), is parsed by the model to EXACTLY the forest that the spec's delimiter-run procedure denotes,
   where the neighbours of a run are the decoded CHARACTERS and flanking uses Unicode whitespace / Unicode punctuation (specWs2 / specPunct2).

     C11_parseInlines2     parseInlines (t ++ [LF]) [] paragraph = specForest2 t, and the spec run terminates within its fuel
     C11_emphasis_slice2   parseFull (t ++ [LF]) = one root, one closed paragraph whose inline children are specForest2 t, status 0
     C11_opt2              the run WITH openers_bottom gives the same result
     C11_slice2            the three together
     spec2_extends         on the old alphabet (okEmph t) the widened spec coincides with EmphSpec: specForest2 t = specForest t
   Layers: EmphFlags2.emphasisFlags_spec2 (a), EmphTok2.tok_pend2 / parseInlines_tok2 (b), EmphSim5.run_sim (c, d; reused unchanged). *)
From Coq Require Import List ZArith Lia Bool.
Import ListNotations.
Require Import Base Tables Utf8 Tree Rdr Link Collect Html Recog LP Rules Starts Driver Inl3a Inl3b Inl3c Inl3d Inl3e Render
  PE PEProof SliceBase SlicePara SliceText.
Require Import EmphSpec EmphFlags EmphTok EmphTree EmphSim1 EmphSim2 EmphSim4 EmphSim5 EmphSlice EmphSpec2 EmphFlags2 EmphTok2.
Require Emph EmphProof EmphSim3.
Open Scope Z_scope.

(* ---- the invariant of EmphSim5 holds after tokenising ---- *)
Lemma items_exist2 : forall g idx pos prev pend, wfSegs2 g -> 0 <= pos ->
  exists R, full R = pend ++ nodesOf g (Z.of_nat idx + 1) pos /\ map dl (fst R) = delimsOf2 g idx prev /\ Forall itOK (fst R).
Proof.
  induction g as [|x g IH]; intros idx pos prev pend Hw Hpos.
  - exists ([], pend). unfold full. cbn [fst snd wv flat_map nodesOf delimsOf2 map app]. rewrite app_nil_r. repeat split. constructor.
  - pose proof (segLen_nonneg x) as Hx. destruct x as [ch n|txt].
    + destruct Hw as (Hd & Hn & _ & Hw').
      destruct (IH (S idx) (pos + segLen (SD ch n)) (Some ch) [] Hw' ltac:(lia)) as (R' & HF & HD & HO).
      exists ({| gap := pend; dl := {| Emph.did := idx; Emph.dstar := ch =? 42; Emph.dn := n; Emph.dcur := n;
                                      Emph.dopen := canOpen2 ch prev (firstChar g); Emph.dclos := canClose2 ch prev (firstChar g) |};
                 ns := pos |} :: fst R', snd R').
      split; [|split].
      * unfold full in *. cbn [fst snd]. rewrite wv_cons. cbn [gap]. unfold nodeIt. cbn [dl ns Emph.did Emph.dcur].
        cbn [nodesOf]. unfold segLen at 1 2. cbn [segBytes]. rewrite len_repeat. rewrite <- app_assoc. f_equal. cbn [app]. f_equal.
        cbn [app] in HF. rewrite HF. unfold segLen. cbn [segBytes]. rewrite len_repeat. f_equal. lia.
      * cbn [fst map dl delimsOf2]. rewrite HD. reflexivity.
      * cbn [fst]. constructor; [|exact HO]. split; cbn [ns dl Emph.dcur]; lia.
    + destruct Hw as (_ & _ & _ & _ & _ & _ & Hw').
      destruct (IH (S idx) (pos + segLen (ST txt)) (lastRune txt) (pend ++ [textPN (Z.of_nat idx + 1) pos (pos + segLen (ST txt))]) Hw' ltac:(lia))
        as (R' & HF & HD & HO).
      exists R'. split; [|split; [|exact HO]].
      * rewrite HF. cbn [nodesOf]. rewrite <- app_assoc. cbn [app]. f_equal. f_equal. f_equal. lia.
      * rewrite HD. reflexivity.
Qed.

Lemma Inv_init2 t st : wfSegs2 (segment t) ->
  rk st = nodesOf (segment t) 1 0 -> stk st = map conc (delimsOf2 (segment t) 0 None) -> nid st = 1 + len (segment t) ->
  exists R, Inv (leavesOf (segment t) 0 0) st (specInit2 t) R.
Proof.
  intros Hw Hrk Hstk Hnid.
  destruct (items_exist2 (segment t) 0%nat 0 None [] Hw ltac:(lia)) as (R & HF & HD & HO).
  cbn [app] in HF. change (Z.of_nat 0 + 1) with 1 in HF.
  exists R. constructor; cbn [Emph.st Emph.cp Emph.evs specInit2 fold_left].
  - exact Hstk.
  - symmetry. exact HD.
  - rewrite Hrk, HF. reflexivity.
  - exact HO.
  - rewrite Hrk, Hnid. apply nodes_ids. lia.
  - rewrite Hnid. pose proof (sl_len_nonneg (segment t)). lia.
  - rewrite Hrk. apply (nodes_abs (segment t) 0%nat 0).
  - rewrite Hrk. apply nodes_wf.
  - lia.
Qed.

Lemma sumcur_delims2 : forall g idx prev, wfSegs2 g ->
  (EmphSim3.sumcur (delimsOf2 g idx prev) <= length (flat g))%nat /\
  (length (delimsOf2 g idx prev) <= EmphSim3.sumcur (delimsOf2 g idx prev))%nat.
Proof.
  induction g as [|x g IH]; intros idx prev Hw; [cbn; lia|]. rewrite flat_cons, app_length. destruct x as [ch n|txt].
  - destruct Hw as (_ & Hn & _ & Hw'). cbn [delimsOf2 segBytes length]. rewrite EmphSim3.sumcur_cons. cbn [Emph.dcur].
    rewrite repeat_length. destruct (IH (S idx) (Some ch) Hw'). lia.
  - destruct Hw as (_ & _ & _ & _ & _ & _ & Hw'). cbn [delimsOf2 segBytes]. destruct (IH (S idx) (lastRune txt) Hw'). lia.
Qed.

(* ---- the inline parser ---- *)
Theorem C11_parseInlines2 cs : okLine2 cs = true ->
  let t := utf8 cs in let L := t ++ [10] in
  (exists rest, specRun2 t = Some (rest, specEvents2 t)) /\
  parseInlines L [] (paraClosed 0 (len L) (len L)) = specForest2 t.
Proof.
  intros Hok t L. pose proof (segment_wf2 cs Hok) as Hw. fold t in Hw.
  destruct (parseInlines_tok2 cs Hok) as (st' & Hpi & Hsrc & Hrk & Hstk & Hnid). fold t in Hpi, Hsrc, Hrk, Hstk, Hnid. fold L in Hpi, Hsrc.
  destruct (Inv_init2 t st' Hw Hrk Hstk Hnid) as (R & HI).
  assert (Hpe : rk (processEmphasis st' 0) = rk (pe_loopY 0 (4 * (length (stk st') + length (isrc st')) + 8) st' 0)).
  { unfold processEmphasis. cbv zeta. rewrite rk_setStk. rewrite (processEmphasis_opt_sound st' 0 _ ltac:(lia)).
    rewrite pe_loopX_false. reflexivity. }
  pose proof (sumcur_delims2 (segment t) 0%nat None Hw) as [Hs1 Hs2]. rewrite segment_flat in Hs1.
  assert (Hmu : (EmphSim3.mu (specInit2 t) <= 2 * length t)%nat).
  { unfold EmphSim3.mu. cbn [Emph.st Emph.cp specInit2]. lia. }
  destruct (run_sim (leavesOf (segment t) 0 0) (4 * (length (stk st') + length (isrc st')) + 8) (specFuel t) st' (specInit2 t) R HI)
    as (rest & evs & Hrun & Hfin).
  { rewrite Hsrc. unfold L. rewrite app_length. cbn [length]. lia. }
  { unfold specFuel. lia. }
  change (Z.of_nat (Emph.cp (specInit2 t))) with 0 in Hfin.
  assert (Hev : specEvents2 t = evs) by (unfold specEvents2, specRun2; rewrite Hrun; reflexivity).
  split.
  - exists rest. unfold specRun2. rewrite Hev. exact Hrun.
  - rewrite Hpi, Hpe, Hfin. unfold specForest2, specNodes2. rewrite Hev. reflexivity.
Qed.
Print Assumptions C11_parseInlines2.

(* ---- the whole pipeline ---- *)
Lemma inB2_range b : inB2 b = true -> 32 <= b.
Proof.
  unfold inB2. intros H. apply orb_true_iff in H. destruct H as [H|H]; [apply isDelimB_cases in H; lia|apply textB2_range in H; lia].
Qed.

Theorem C11_emphasis_slice2 cs : okLine2 cs = true ->
  let t := utf8 cs in let L := t ++ [10] in
  parseFull L = ([oneRoot L (Blk ParagraphKind 0 (len L) [] (specForest2 t) 0 0 0 false false)], 0).
Proof.
  intros Hok t L. destruct (okLine2_parts cs Hok) as (c & r & Ecs & Hc & Ha & Hd).
  destruct (C11_parseInlines2 cs Hok) as [_ Hpi]. fold t in Hpi. fold L in Hpi.
  assert (Hrange : Forall (fun x => 32 <= x) t).
  { apply Forall_forall. intros x Hx. apply inB2_range. pose proof (utf8_inB2 cs Ha) as Hb. rewrite forallb_forall in Hb. apply Hb. exact Hx. }
  assert (Et : t = c :: utf8 r).
  { unfold t. rewrite Ecs, utf8_cons. rewrite enc1 by (apply letter_range in Hc; lia). reflexivity. }
  assert (Hpb : parseBlocks L = ([oneRoot L (paraClosed 0 (len L) (len L))], 0)).
  { unfold L. rewrite Et in *. apply parseBlocks_one_para.
    - eapply Forall_impl; [|exact Hrange]. cbv beta. intros; lia.
    - eapply Forall_impl; [|exact Hrange]. cbv beta. intros; lia.
    - apply plain_paraStart. apply letter_plainCh. exact Hc.
    - apply letter_range in Hc. lia.
    - cbn [app]. unfold parseListMarker. pose proof (letter_range c Hc) as Hr.
      assert (E1 : (c =? 45) || (c =? 43) || (c =? 42) = false).
      { repeat match goal with |- context [c =? ?k] => destruct (Z.eqb_spec c k); [exfalso; lia|] end. reflexivity. }
      rewrite E1. assert (E2 : isASCIIDigit c = false).
      { unfold isASCIIDigit. destruct (Z.leb_spec 48 c), (Z.leb_spec c 57); try reflexivity. lia. }
      rewrite E2. cbn; lia. }
  unfold parseFull. rewrite Hpb.
  cbn [fold_left map oneRoot rb_blk rb_src rb_line rb_start rb_end].
  change (bheight (paraClosed 0 (len L) (len L))) with 1%nat.
  change (extractB 1 (paraClosed 0 (len L) (len L)) []) with (@nil bytes).
  assert (Hrw : rewriteB 1 L [] (paraClosed 0 (len L) (len L)) = set_bik (paraClosed 0 (len L) (len L)) (specForest2 t)).
  { cbn [rewriteB]. change ((0 <? len (bik (paraClosed 0 (len L) (len L)))) && hasUnparsed (paraClosed 0 (len L) (len L))) with true.
    cbv iota. rewrite Hpi. reflexivity. }
  rewrite Hrw. reflexivity.
Qed.
Print Assumptions C11_emphasis_slice2.

Theorem C11_opt2 cs : okLine2 cs = true ->
  Emph.run true 0 (specFuel (utf8 cs)) (specInit2 (utf8 cs)) = specRun2 (utf8 cs).
Proof. intros _. unfold specRun2. apply (EmphProof.process_emphasis_opt_sound 0 (specFuel (utf8 cs)) (delimsOf2 (segment (utf8 cs)) 0 None)). Qed.

Definition C11_slice2_statement : Prop := forall cs, okLine2 cs = true ->
  let t := utf8 cs in let L := t ++ [10] in
  (exists rest, specRun2 t = Some (rest, specEvents2 t)) /\
  parseInlines L [] (paraClosed 0 (len L) (len L)) = specForest2 t /\
  parseFull L = ([oneRoot L (Blk ParagraphKind 0 (len L) [] (specForest2 t) 0 0 0 false false)], 0) /\
  Emph.run true 0 (specFuel t) (specInit2 t) = specRun2 t.
Theorem C11_slice2 : C11_slice2_statement.
Proof.
  intros cs Hok t L. destruct (C11_parseInlines2 cs Hok) as [H1 H2]. split; [exact H1|]. split; [exact H2|].
  split; [apply C11_emphasis_slice2; exact Hok|apply C11_opt2; exact Hok].
Qed.
Print Assumptions C11_slice2.

(* ---- the widened spec extends the spec of the first slice ---- *)
Definition asciiP (o : option Z) : Prop := match o with Some c => c < 128 | None => True end.
Lemma notin_uni c : c < 128 -> memZ2 c uniWsL = false /\ memZ2 c uniPunctL = false.
Proof.
  intros Hc. split.
  - destruct (memZ2 c uniWsL) eqn:E; [|reflexivity]. apply memZ2_In in E. cbn [In uniWsL] in E.
    repeat (destruct E as [E|E]; [subst c; lia|]). contradiction.
  - destruct (memZ2 c uniPunctL) eqn:E; [|reflexivity]. apply memZ2_In in E. cbn [In uniPunctL] in E.
    repeat (destruct E as [E|E]; [subst c; lia|]). contradiction.
Qed.
Lemma wsO2_ascii o : asciiP o -> wsO2 o = wsO o.
Proof. destruct o as [c|]; [|reflexivity]. cbn [asciiP wsO2 wsO]. intros H. unfold specWs2. rewrite (proj1 (notin_uni c H)). apply orb_false_r. Qed.
Lemma puO2_ascii o : asciiP o -> puO2 o = puO o.
Proof. destruct o as [c|]; [|reflexivity]. cbn [asciiP puO2 puO]. intros H. unfold specPunct2. rewrite (proj2 (notin_uni c H)). apply orb_false_r. Qed.
Lemma canOpen2_ascii ch p n : asciiP p -> asciiP n -> canOpen2 ch p n = canOpen ch p n /\ canClose2 ch p n = canClose ch p n.
Proof.
  intros Hp Hn. unfold canOpen2, canClose2, canOpen, canClose, leftFlanking2, rightFlanking2, leftFlanking, rightFlanking.
  rewrite !(wsO2_ascii p Hp), !(wsO2_ascii n Hn), !(puO2_ascii p Hp), !(puO2_ascii n Hn). split; reflexivity.
Qed.
Lemma firstChar_ascii g : wfSegs g -> firstChar g = firstByte g /\ asciiP (firstByte g).
Proof.
  destruct g as [|[ch n|txt] g']; [split; [reflexivity|exact I]| |].
  - intros (Hd & Hn & _). apply isDelimB_cases in Hd. destruct n as [|n]; [lia|]. cbn [firstChar firstByte segBytes repeat firstRune hd asciiP].
    destruct (Z.ltb_spec ch 128); [split; [reflexivity|lia]|lia].
  - intros (Hne & Ht & _). destruct txt as [|c r]; [contradiction|]. cbn [forallb] in Ht. apply andb_true_iff in Ht. destruct Ht as [Hc _].
    apply textA_range in Hc. cbn [firstChar firstByte segBytes firstRune hd asciiP]. destruct (Z.ltb_spec c 128); [split; [reflexivity|lia]|lia].
Qed.
Lemma lastRune_ascii txt : txt <> [] -> forallb textA txt = true -> lastRune txt = Some (last txt 0) /\ last txt 0 < 128.
Proof.
  intros Hne Ht. destruct (list_snoc_cases txt) as [->|(p & b & ->)]; [contradiction|].
  rewrite forallb_app in Ht. apply andb_true_iff in Ht. destruct Ht as [_ Hb]. cbn [forallb] in Hb. rewrite andb_true_r in Hb.
  apply textA_range in Hb. rewrite last_last. unfold lastRune. rewrite rev_app_distr. cbn [rev app].
  destruct (Z.ltb_spec b 128); [split; [reflexivity|lia]|lia].
Qed.
Lemma delims2_eq : forall g idx prev, wfSegs g -> asciiP prev -> delimsOf2 g idx prev = delimsOf g idx prev.
Proof.
  induction g as [|x g IH]; intros idx prev Hw Hp; [reflexivity|]. destruct x as [ch n|txt].
  - pose proof Hw as (Hd & Hn & _ & Hw'). cbn [delimsOf2 delimsOf]. destruct (firstChar_ascii g Hw') as [E Hn'].
    rewrite E. destruct (canOpen2_ascii ch prev (firstByte g) Hp Hn') as [-> ->].
    rewrite (IH (S idx) (Some ch) Hw'); [reflexivity|]. apply isDelimB_cases in Hd. cbn [asciiP]. lia.
  - destruct Hw as (Hne & Ht & _ & _ & Hw'). cbn [delimsOf2 delimsOf]. destruct (lastRune_ascii txt Hne Ht) as [-> Hl].
    apply IH; [exact Hw'|exact Hl].
Qed.
Theorem spec2_extends t : okEmph t = true -> specForest2 t = specForest t /\ specEvents2 t = specEvents t.
Proof.
  intros Hok. destruct (okEmph_parts t Hok) as (c & r & _ & _ & Ha & Hd).
  assert (E : specInit2 t = specInit t).
  { unfold specInit2, specInit. rewrite (delims2_eq (segment t) 0%nat None (segment_wf t Ha Hd) I). reflexivity. }
  assert (Ev : specEvents2 t = specEvents t) by (unfold specEvents2, specEvents, specRun2, specRun; rewrite E; reflexivity).
  split; [|exact Ev]. unfold specForest2, specForest, specNodes2, specNodes. rewrite Ev. reflexivity.
Qed.
Print Assumptions spec2_extends.

(* the hypothesis is satisfiable: a line with ASCII punctuation, digits, a no-break space, an em dash, curly quotes, accented and CJK letters *)
Example okLine2_example :
  okLine2 [97;42;42;50;43;50;61;52;42;42;32;8220;95;233;116;233;95;8221;160;42;26085;26412;42;8212;95;120;95;126;35] = true.
Proof. vm_compute. reflexivity. Qed.
