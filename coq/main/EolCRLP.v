From Coq Require Import List ZArith Lia Bool.
Import ListNotations.
Require Import Base Tree Rdr Link Collect Html Recog LP Rules Starts Driver TRdr EolCRDefs EolCRBytes EolCRRdr.
Open Scope Z_scope.

(* C14 (ii), CR clause: the line parser on a source and on its LF -> CR image. *)
Ltac relsplit H :=
  match type of H with relP ?p ?p' =>
    let Hs := fresh "Hs" in let Hl := fresh "Hl" in
    let src := fresh "src" in let rt := fresh "rt" in let cont := fresh "cont" in let ls := fresh "ls" in let ln := fresh "ln" in
    let i := fresh "i" in let cl := fresh "cl" in let tr := fresh "tr" in let st := fresh "st" in let pn := fresh "pn" in
    let src' := fresh "src'" in let rt' := fresh "rt'" in let cont' := fresh "cont'" in let ls' := fresh "ls'" in let ln' := fresh "ln'" in
    let i' := fresh "i'" in let cl' := fresh "cl'" in let tr' := fresh "tr'" in let st' := fresh "st'" in let pn' := fresh "pn'" in
    destruct p as [src rt cont ls ln i cl tr st pn]; destruct p' as [src' rt' cont' ls' ln' i' cl' tr' st' pn'];
    unfold relP in H; cbn [source line root container lineStart li col tabRem state panicked] in H;
    destruct H as (Hs & Hl & -> & -> & -> & -> & -> & -> & -> & ->) end.
Ltac flds := cbn [source line root container lineStart li col tabRem state panicked setLP withRoot withCont withState withCursor panic updCont cdepth].
Lemma relP_mk src src' ln ln' rt cont ls i cl tr st pn : crRel src src' -> crRel ln ln' ->
  relP {| source := src; root := rt; container := cont; lineStart := ls; line := ln; li := i; col := cl; tabRem := tr; state := st; panicked := pn |}
       {| source := src'; root := rt; container := cont; lineStart := ls; line := ln'; li := i; col := cl; tabRem := tr; state := st; panicked := pn |}.
Proof. intros A B. unfold relP. flds. repeat split; assumption. Qed.
Ltac rmk := apply relP_mk; assumption.

Lemma rel_withState p p' s : relP p p' -> relP (withState p s) (withState p' s). Proof. intros H. relsplit H. unfold withState. flds. rmk. Qed.
Lemma rel_withCont p p' c : relP p p' -> relP (withCont p c) (withCont p' c). Proof. intros H. relsplit H. unfold withCont. flds. rmk. Qed.
Lemma rel_withRoot p p' r : relP p p' -> relP (withRoot p r) (withRoot p' r). Proof. intros H. relsplit H. unfold withRoot. flds. rmk. Qed.
Lemma rel_withCursor p p' i c t : relP p p' -> relP (withCursor p i c t) (withCursor p' i c t). Proof. intros H. relsplit H. unfold withCursor. flds. rmk. Qed.
Lemma rel_panic p p' n : relP p p' -> relP (panic p n) (panic p' n). Proof. intros H. relsplit H. unfold panic. flds. rmk. Qed.
Lemma rel_updCont p p' f : relP p p' -> relP (updCont p f) (updCont p' f). Proof. intros H. relsplit H. unfold updCont, withRoot. flds. rmk. Qed.
Lemma rel_opened p p' : relP p p' -> relP (if state p =? stOpening then withState p stOpenMatched else p) (if state p' =? stOpening then withState p' stOpenMatched else p').
Proof. intros H. replace (state p') with (state p) by (symmetry; apply H). destruct (_ =? _); [apply rel_withState, H|exact H]. Qed.

(* observations *)
Lemma rel_rest p p' : relP p p' -> crRel (rest p) (rest p').
Proof. intros H. unfold rest. replace (li p') with (li p) by (symmetry; apply H). apply crRel_from, H. Qed.
Lemma rel_bai p p' : relP p p' -> crRel (bytesAfterIndent p) (bytesAfterIndent p').
Proof. intros H. apply cr_trimLeftSpTab, rel_rest, H. Qed.
Lemma rel_isRestBlank p p' : relP p p' -> isRestBlank p' = isRestBlank p.
Proof. intros H. apply cr_isBlankLine, rel_rest, H. Qed.
Lemma rel_contBlock p p' : relP p p' -> contBlock p' = contBlock p.
Proof. intros H. relsplit H. reflexivity. Qed.
Lemma rel_containerKind p p' : relP p p' -> containerKind p' = containerKind p.
Proof. intros H. unfold containerKind. rewrite (rel_contBlock p p' H). reflexivity. Qed.
Lemma rel_cdepth p p' : relP p p' -> cdepth p' = cdepth p. Proof. intros H. relsplit H. reflexivity. Qed.
Lemma rel_tipKind p p' : relP p p' -> tipKind p' = tipKind p. Proof. intros H. relsplit H. reflexivity. Qed.
Lemma rel_len_line p p' : relP p p' -> len (line p') = len (line p). Proof. intros H. apply crRel_len, H. Qed.
Lemma rel_at9 a b i : crRel a b -> (at_ b i =? 9) = (at_ a i =? 9).
Proof. intros H. apply (bR_eqb _ _ 9 (crRel_at a b i H)); discriminate. Qed.
Lemma rel_at32 a b i : crRel a b -> (at_ b i =? 32) = (at_ a i =? 32).
Proof. intros H. apply (bR_eqb _ _ 32 (crRel_at a b i H)); discriminate. Qed.

Lemma rel_advance p p' n : relP p p' -> relP (advance p n) (advance p' n).
Proof.
  intros H. unfold advance. destruct (n <? 0); [apply rel_panic, H|]. destruct (n =? 0); [exact H|]. cbv zeta.
  pose proof (rel_opened p p' H) as H1.
  set (q := if state p =? stOpening then withState p stOpenMatched else p) in *.
  set (q' := if state p' =? stOpening then withState p' stOpenMatched else p') in *. clearbody q q'.
  relsplit H1. flds. rewrite (crRel_len _ _ Hl). destruct (_ <? _); [unfold panic; flds; rmk|].
  rewrite (rel_at9 _ _ i Hl). rewrite !(cr_columnWidth _ _ _ (crRel_sub _ _ _ _ Hl)). rewrite (cr_computeTabRem _ _ _ _ Hl).
  unfold withCursor. flds. rmk.
Qed.
Lemma rel_consumeLine p p' : relP p p' -> relP (consumeLine p) (consumeLine p').
Proof.
  intros H. unfold consumeLine. cbv zeta. rewrite (rel_len_line p p' H). replace (li p') with (li p) by (symmetry; apply H).
  pose proof (rel_advance p p' (len (line p) - li p) H) as H1. set (q := advance p _) in *. set (q' := advance p' _) in *. clearbody q q'.
  replace (state q') with (state q) by (symmetry; apply H1). destruct (_ || _); [apply rel_withState, H1|].
  destruct (_ =? stDescending); [apply rel_withState, H1|exact H1].
Qed.
Lemma rel_indent p p' : relP p p' -> indent p' = indent p.
Proof.
  intros H. relsplit H. unfold indent. flds. rewrite (crRel_len _ _ Hl). destruct (_ <=? _); [reflexivity|]. cbv zeta.
  rewrite (rel_at32 _ _ i Hl), (rel_at9 _ _ i Hl).
  pose proof (crRel_from _ _ (i + 1) Hl) as Hf. rewrite (cr_indentLength _ _ Hf), !(cr_columnWidth _ _ _ (crRel_upto _ _ _ Hf)). reflexivity.
Qed.
Lemma rel_consumeIndent_loop : forall fuel p p' n, relP p p' -> relP (consumeIndent_loop fuel p n) (consumeIndent_loop fuel p' n).
Proof.
  induction fuel as [|f IH]; intros p p' n H; [exact H|]. cbn [consumeIndent_loop]. destruct (n <=? 0); [exact H|]. cbv zeta.
  pose proof (rel_opened p p' H) as H1.
  set (q := if state p =? stOpening then withState p stOpenMatched else p) in *.
  set (q' := if state p' =? stOpening then withState p' stOpenMatched else p') in *. clearbody q q'.
  assert (E1 : li q' = li q) by apply H1. assert (E2 : len (line q') = len (line q)) by (apply crRel_len, H1).
  assert (E3 : col q' = col q) by apply H1. assert (E4 : tabRem q' = tabRem q) by apply H1.
  assert (Hl : crRel (line q) (line q')) by apply H1.
  rewrite E1, E2, E3, E4, (rel_at32 _ _ _ Hl), (rel_at9 _ _ _ Hl), !(cr_computeTabRem _ _ _ _ Hl).
  destruct (_ && (_ =? 32)); [apply IH, rel_withCursor, H1|].
  destruct (_ && (_ =? 9)); [|apply rel_panic, H1].
  destruct (n <? _); [apply rel_withCursor, H1|apply IH, rel_withCursor, H1].
Qed.
Lemma rel_consumeIndent p p' n : relP p p' -> relP (consumeIndent p n) (consumeIndent p' n).
Proof. intros H. unfold consumeIndent. rewrite (crRel_length _ _ (proj1 (proj2 H))). apply rel_consumeIndent_loop, H. Qed.

(* ---- onClose handlers ---- *)
Lemma cr_trimBlankTail src src' : crRel src src' -> forall rk, trimBlankTail src' rk = trimBlankTail src rk.
Proof.
  intros H. induction rk as [|c r IH]; [reflexivity|]. cbn [trimBlankTail].
  rewrite (cr_isBlankLine _ _ (crRel_sub src src' (istart c) (iend c) H)), IH. reflexivity.
Qed.
Lemma cr_onCloseIndented src src' b : crRel src src' -> onCloseIndented src' b = onCloseIndented src b.
Proof.
  intros H. unfold onCloseIndented. cbv zeta. rewrite (cr_trimBlankTail src src' H).
  destruct (rev (bik b)) as [|lst [|prev r]]; try reflexivity.
  rewrite (cr_isBlankLine _ _ (crRel_sub src src' (istart prev) (iend prev) H)). reflexivity.
Qed.

Lemma ocp_loop_cur : forall fuel rf src orig orphan r result,
  ocp_loop fuel rf src orig orphan (snd (current r)) result = ocp_loop fuel rf src orig orphan r result.
Proof. intros [|f] rf src orig orphan r result; [reflexivity|]. cbn [ocp_loop]. rewrite parseLinkLabel_cur. reflexivity. Qed.

Lemma cr_ocp_loop : forall fuel rf src src' orig orphan r r' result, crRel src src' -> rdR r r' ->
  ocp_loop fuel rf src' orig orphan r' result = ocp_loop fuel rf src orig orphan r result.
Proof.
  induction fuel as [|f IH]; intros rf src src' orig orphan r r' result Hs H; [reflexivity|].
  assert (IHw : forall orig0 x x' res, rdW x x' -> ocp_loop f rf src' orig0 orphan x' res = ocp_loop f rf src orig0 orphan x res).
  { intros orig0 x x' res Hw. rewrite <- (ocp_loop_cur f rf src' orig0 orphan x' res), <- (ocp_loop_cur f rf src orig0 orphan x res). apply IH; assumption. }
  cbn [ocp_loop]. cbv zeta.
  stepS (cr_parseLinkLabel rf) H sp r1 r1' H1. destruct sp as [lspan linner].
  destruct (negb (spanValid lspan)); [reflexivity|].
  stepc H1 as c c' r2 r2' Hc H2. destruct (negb (c =? 58)); [reflexivity|].
  stepn H2 as okn r3 r3' H3.
  stepS (cr_skipLinkSpace rf) H3 ok r4 r4' H4. destruct (negb ok); [reflexivity|].
  stepS (cr_parseLinkDestination rf) H4 dsp r5 r5' H5. destruct dsp as [dspan dtext].
  destruct (negb (spanValid dspan)); [reflexivity|].
  posEq H5.
  pose proof (cr_readEOL rf r5 r5' H5) as (Ed & Hw6 & Ep6).
  destruct (readEOL rf r5) as [destEOL r6]. destruct (readEOL rf r5') as [destEOL' r6']. cbn [fst snd] in Ed, Hw6, Ep6. subst destEOL'.
  rewrite Ep6.
  assert (Hc6 : bR (fst (current r6)) (fst (current r6')) /\ rdR (snd (current r6)) (snd (current r6'))).
  { unfold rdW in Hw6. pose proof (cr_current _ _ Hw6) as [A B]. rewrite !current_idem in A, B. split; assumption. }
  destruct Hc6 as [Hc6 H7]. destruct (current r6) as [c6 r7]. destruct (current r6') as [c6' r7']. cbn [fst snd] in Hc6, H7. bt Hc6.
  destruct (_ && _ && _); [reflexivity|].
  rewrite !(cr_transformLinkReferenceSpan rf src src' _ _ _ Hs).
  rewrite !(cr_collectTextNodes rf _ _ _ _ _ (cr_newReader src src' _ _ Hs)).
  stepS (cr_skipLinkSpace rf) H7 ok2 r8 r8' H8. destruct (negb ok2); [reflexivity|].
  stepS (cr_parseLinkTitle rf) H8 tsp r9 r9' H9. destruct tsp as [tspan ttext].
  destruct (negb (spanValid tspan)).
  { destruct (destEOL <? 0); [reflexivity|]. destruct (_ <? 0); [reflexivity|]. apply IHw, Hw6. }
  pose proof (cr_readEOL rf r9 r9' H9) as (Et & Hw10 & Ep10).
  destruct (readEOL rf r9) as [titleEOL r10]. destruct (readEOL rf r9') as [titleEOL' r10']. cbn [fst snd] in Et, Hw10, Ep10. subst titleEOL'.
  destruct (titleEOL <? 0); [reflexivity|]. rewrite Ep10.
  rewrite !(cr_collectTextNodes rf _ _ _ _ _ (cr_newReader src src' _ _ Hs)).
  destruct (_ <? 0); [reflexivity|]. apply IHw, Hw10.
Qed.
Lemma cr_onCloseParagraph src src' orig : crRel src src' -> onCloseParagraph src' orig = onCloseParagraph src orig.
Proof.
  intros H. unfold onCloseParagraph. destruct (bik orig) as [|first rest]; [reflexivity|]. cbv zeta.
  rewrite (crRel_length src src' H), (cr_skipSpTabIdx src src' H). apply cr_ocp_loop; [exact H|apply cr_newReader, H].
Qed.
Lemma cr_closeBlock src src' e : crRel src src' -> forall fuel b, closeBlock fuel src' b e = closeBlock fuel src b e.
Proof.
  intros H. induction fuel as [|f IH]; intros b; [reflexivity|]. cbn [closeBlock]. destruct (negb (isOpen b)); [reflexivity|]. cbv zeta.
  assert (Hcl : forall x, match lastBlock x with Some c => set_lastBlocks x (closeBlock f src' c e) | None => x end =
                          match lastBlock x with Some c => set_lastBlocks x (closeBlock f src c e) | None => x end).
  { intros x. destruct (lastBlock x); [rewrite IH; reflexivity|reflexivity]. }
  rewrite !Hcl, (cr_onCloseIndented src src' _ H), (cr_onCloseParagraph src src' _ H). reflexivity.
Qed.
Lemma updAt_ext f g : (forall b, f b = g b) -> forall d r, updAt d f r = updAt d g r.
Proof.
  intros H. induction d as [|d IH]; intros r; [apply H|]. cbn [updAt]. destruct (lastBlock r); [rewrite IH; reflexivity|reflexivity].
Qed.
Lemma rel_closeLastChildAt p p' d e : relP p p' -> relP (closeLastChildAt p d e) (closeLastChildAt p' d e).
Proof.
  intros H. relsplit H.
  assert (E : updAt d (fun b : block => match lastBlock b with Some c => set_lastBlocks b (closeBlock (bheight rt) src' c e) | None => b end) rt =
              updAt d (fun b : block => match lastBlock b with Some c => set_lastBlocks b (closeBlock (bheight rt) src c e) | None => b end) rt).
  { apply updAt_ext. intros b. destruct (lastBlock b); [rewrite (cr_closeBlock src src' e Hs); reflexivity|reflexivity]. }
  unfold closeLastChildAt, withRoot. flds. rewrite E. rmk.
Qed.

(* ---- Rules.v ---- *)
Ltac eqf H f := match type of H with relP ?p ?p' => replace (f p') with (f p) by (symmetry; apply H) end.
Lemma rel_state p p' : relP p p' -> state p' = state p. Proof. intros H. apply H. Qed.
Lemma rel_openBlock_up : forall fuel p p' k, relP p p' -> relP (openBlock_up fuel p k) (openBlock_up fuel p' k).
Proof.
  induction fuel as [|f IH]; intros p p' k H; [exact H|]. cbn [openBlock_up]. rewrite (rel_containerKind p p' H), (rel_cdepth p p' H).
  destruct (canContain _ _); [exact H|]. destruct (cdepth p); [apply rel_panic, H|]. eqf H lineStart.
  apply IH, rel_withCont, rel_closeLastChildAt, H.
Qed.
Lemma rel_openBlock p p' k : relP p p' -> relP (openBlock p k) (openBlock p' k).
Proof.
  intros H. unfold openBlock. pose proof (rel_opened p p' H) as H1. rewrite (rel_state p p' H) in H1 |- *.
  destruct (_ || _); [apply rel_panic, H|]. cbv zeta.
  set (q := if state p =? stOpening then withState p stOpenMatched else p) in *.
  set (q' := if state p =? stOpening then withState p' stOpenMatched else p') in *. clearbody q q'.
  rewrite (rel_cdepth q q' H1).
  pose proof (rel_openBlock_up (S (cdepth q)) q q' k H1) as H2.
  set (u := openBlock_up (S (cdepth q)) q k) in *. set (u' := openBlock_up (S (cdepth q)) q' k) in *. clearbody u u'.
  rewrite (rel_cdepth u u' H2). eqf H2 lineStart.
  pose proof (rel_closeLastChildAt u u' (cdepth u) (lineStart u) H2) as H3.
  set (v := closeLastChildAt u (cdepth u) (lineStart u)) in *. set (v' := closeLastChildAt u' (cdepth u) (lineStart u)) in *. clearbody v v'.
  eqf H3 lineStart. eqf H3 li. apply rel_withCont, rel_updCont, H3.
Qed.
Lemma rel_endBlock p p' : relP p p' -> relP (endBlock p) (endBlock p').
Proof.
  intros H. unfold endBlock. pose proof (rel_opened p p' H) as H1. rewrite (rel_state p p' H) in H1 |- *.
  destruct (_ || _); [apply rel_panic, H|]. cbv zeta.
  set (q := if state p =? stOpening then withState p stOpenMatched else p) in *.
  set (q' := if state p =? stOpening then withState p' stOpenMatched else p') in *. clearbody q q'.
  rewrite (rel_cdepth q q' H1). destruct (cdepth q); [apply rel_panic, H1|]. eqf H1 lineStart. eqf H1 li.
  apply rel_withCont, rel_closeLastChildAt, H1.
Qed.

Lemma cr_infoString_loop src src' : crRel src src' -> forall fuel i e ps acc,
  infoString_loop fuel src' i e ps acc = infoString_loop fuel src i e ps acc.
Proof.
  intros H. induction fuel as [|f IH]; intros i e ps acc; [reflexivity|]. cbn [infoString_loop]. destruct (e <=? i); [reflexivity|]. cbv zeta.
  pose proof (crRel_at src src' i H) as Hc. bt Hc. rewrite (cr_isASCIIPunctuation _ _ (crRel_at src src' (i + 1) H)).
  rewrite (cr_parseCharacterEscape _ _ (crRel_sub src src' i e H)). rewrite !IH. reflexivity.
Qed.
Lemma cr_parseInfoString src src' s e : crRel src src' -> parseInfoString src' s e = parseInfoString src s e.
Proof. intros H. unfold parseInfoString. rewrite (cr_infoString_loop src src' H). reflexivity. Qed.

Lemma rel_collectInline p p' kind n : relP p p' -> relP (collectInline p kind n) (collectInline p' kind n).
Proof.
  intros H. unfold collectInline. pose proof (rel_opened p p' H) as H1. rewrite (rel_state p p' H) in H1 |- *.
  destruct (_ =? stDescendTerminated); [apply rel_panic, H|]. cbv zeta.
  set (q := if state p =? stOpening then withState p stOpenMatched else p) in *.
  set (q' := if state p =? stOpening then withState p' stOpenMatched else p') in *. clearbody q q'.
  rewrite (rel_indent q q' H1).
  set (w := if 0 <? indent q then _ else q).
  set (w' := if 0 <? indent q then _ else q').
  assert (Hw : relP w w').
  { unfold w, w'. destruct (0 <? indent q); [|exact H1].
    rewrite (cr_indentLength _ _ (rel_rest q q' H1)). eqf H1 lineStart. eqf H1 li.
    pose proof (rel_advance q q' (indentLength (rest q)) H1) as H2.
    set (a := advance q _) in *. set (a' := advance q' _) in *. clearbody a a'. eqf H2 lineStart. eqf H2 li. apply rel_updCont, H2. }
  clearbody w w'. eqf Hw lineStart. eqf Hw li.
  pose proof (rel_advance w w' n Hw) as H2. set (a := advance w n) in *. set (a' := advance w' n) in *. clearbody a a'.
  eqf H2 lineStart. eqf H2 li. rewrite (cr_parseInfoString _ _ _ _ (proj1 H2)). apply rel_updCont, H2.
Qed.

Definition relBP (x y : bool * lp) : Prop := fst y = fst x /\ relP (snd x) (snd y).
Lemma rel_matchRule p p' : relP p p' -> relBP (matchRule p) (matchRule p').
Proof.
  intros H. unfold matchRule. cbv zeta. rewrite (rel_containerKind p p' H).
  destruct (_ || _); [split; [reflexivity|exact H]|].
  destruct (_ =? ListItemKind).
  { unfold matchListItem. rewrite (rel_isRestBlank p p' H), (rel_containerKind p p' H), (rel_contBlock p p' H), (rel_indent p p' H).
    destruct (isRestBlank p); [destruct (negb _); [split; [reflexivity|exact H]|split; [reflexivity|apply rel_consumeIndent, H]]|].
    destruct (_ <=? _); [split; [reflexivity|apply rel_consumeIndent, H]|split; [reflexivity|exact H]]. }
  destruct (_ =? BlockQuoteKind).
  { unfold matchBlockQuote. cbv zeta. rewrite (rel_indent p p' H). destruct (_ <=? _); [split; [reflexivity|exact H]|].
    rewrite (cr_hasBytePrefix _ _ [62] (rel_bai p p' H)) by (apply noEolb_spec; reflexivity).
    destruct (negb _); [split; [reflexivity|exact H]|]. split; [reflexivity|]. cbn [snd]. unfold eatQuoteMarker. cbv zeta.
    pose proof (rel_advance _ _ 1 (rel_consumeIndent p p' (indent p) H)) as H2.
    set (a := advance _ 1) in *. set (a' := advance (consumeIndent p' _) 1) in *. clearbody a a'.
    rewrite (rel_indent a a' H2). destruct (0 <? _); [apply rel_consumeIndent, H2|exact H2]. }
  destruct (_ =? FencedCodeBlockKind).
  { unfold matchFenced. cbv zeta. rewrite (rel_indent p p' H), (rel_contBlock p p' H), (cr_parseCodeFence _ _ (rel_bai p p' H)).
    match goal with |- relBP (if ?c then _ else _) _ => destruct c end;
      (split; [reflexivity|cbn [snd]]); [apply rel_consumeLine, H|apply rel_consumeIndent, H]. }
  destruct (_ =? IndentedCodeBlockKind).
  { unfold matchIndented. cbv zeta. rewrite (rel_indent p p' H), (rel_isRestBlank p p' H).
    destruct (_ <? _); [destruct (negb _)|]; (split; [reflexivity|cbn [snd]]); first [exact H|apply rel_consumeIndent, H]. }
  destruct (_ =? HTMLBlockKind).
  { unfold matchHTML. rewrite (rel_contBlock p p' H), (cr_htmlEnd _ _ _ (rel_bai p p' H)), (rel_isRestBlank p p' H), (crRel_len _ _ (rel_bai p p' H)).
    destruct (htmlEnd _ _); [|split; [reflexivity|exact H]]. destruct (isRestBlank p); [split; [reflexivity|exact H]|].
    split; [reflexivity|]. cbn [snd]. apply rel_consumeLine, rel_collectInline, H. }
  rewrite (rel_isRestBlank p p' H). split; [reflexivity|exact H].
Qed.

Lemma rel_getAt p p' d : relP p p' -> getAt d (root p') = getAt d (root p).
Proof. intros H. eqf H root. reflexivity. Qed.
Lemma rel_descend_loop : forall fuel p p' d, relP p p' -> relBP (descend_loop fuel p d) (descend_loop fuel p' d).
Proof.
  induction fuel as [|f IH]; intros p p' d H; [split; [reflexivity|apply rel_withCont, H]|]. cbn [descend_loop]. cbv zeta.
  rewrite (rel_getAt p p' (S d) H). destruct (getAt (S d) (root p)) as [c|]; [|split; [reflexivity|apply rel_withCont, H]].
  destruct (negb (isOpen c)); [split; [reflexivity|apply rel_withCont, H]|].
  destruct (negb (hasMatch _)); [split; [reflexivity|apply rel_withCont, rel_withCont, H]|].
  pose proof (rel_matchRule _ _ (rel_withState _ _ stDescending (rel_withCont p p' (Some (S d)) H))) as [E1 H2].
  destruct (matchRule (withState (withCont p (Some (S d))) stDescending)) as [ok p2].
  destruct (matchRule (withState (withCont p' (Some (S d))) stDescending)) as [ok' p2']. cbn [fst snd] in E1, H2. subst ok'.
  eqf H2 state. destruct (_ =? stDescendTerminated).
  { split; [reflexivity|]. cbn [snd]. eqf H2 lineStart. eqf H2 li. apply rel_withCont, rel_closeLastChildAt, H2. }
  destruct (negb ok); [split; [reflexivity|apply rel_withCont, H2]|apply IH, H2].
Qed.
Lemma rel_descendOpenBlocks p p' : relP p p' -> relBP (descendOpenBlocks p) (descendOpenBlocks p').
Proof. intros H. unfold descendOpenBlocks. eqf H root. apply rel_descend_loop, H. Qed.

(* ---- Starts.v ---- *)
Ltac rchain H :=
  repeat match goal with
  | |- relP (consumeLine _) (consumeLine _) => apply rel_consumeLine
  | |- relP (endBlock _) (endBlock _) => apply rel_endBlock
  | |- relP (advance _ _) (advance _ _) => apply rel_advance
  | |- relP (consumeIndent _ _) (consumeIndent _ _) => apply rel_consumeIndent
  | |- relP (openBlock _ _) (openBlock _ _) => apply rel_openBlock
  | |- relP (collectInline _ _ _) (collectInline _ _ _) => apply rel_collectInline
  | |- relP (updCont _ _) (updCont _ _) => apply rel_updCont
  end; try exact H.
Definition NoE (l : bytes) := noEolb l = true.

Lemma rel_startBlockQuote p p' : relP p p' -> relP (startBlockQuote p) (startBlockQuote p').
Proof.
  intros H. unfold startBlockQuote. cbv zeta. rewrite (rel_indent p p' H). destruct (_ <=? _); [exact H|].
  rewrite (cr_hasBytePrefix _ _ [62] (rel_bai p p' H)) by (apply noEolb_spec; reflexivity). destruct (negb _); [exact H|].
  assert (H2 : relP (advance (openBlock (consumeIndent p (indent p)) BlockQuoteKind) 1) (advance (openBlock (consumeIndent p' (indent p)) BlockQuoteKind) 1)) by rchain H.
  rewrite (rel_indent _ _ H2). destruct (0 <? _); [apply rel_consumeIndent, H2|exact H2].
Qed.
Lemma rel_startATX p p' : relP p p' -> relP (startATX p) (startATX p').
Proof.
  intros H. unfold startATX. cbv zeta. rewrite (rel_indent p p' H). destruct (_ <=? _); [exact H|].
  rewrite (cr_parseATXHeading _ _ (rel_bai p p' H)). destruct (parseATXHeading _) as [[level cs] ce]. destruct (level <? 1); [exact H|]. rchain H.
Qed.
Lemma rel_startFenced p p' : relP p p' -> relP (startFenced p) (startFenced p').
Proof.
  intros H. unfold startFenced. cbv zeta. rewrite (rel_indent p p' H). destruct (_ <=? _); [exact H|].
  rewrite (cr_parseCodeFence _ _ (rel_bai p p' H)). destruct (parseCodeFence _) as [[[fc fnn] is_] ie]. destruct (fnn =? 0); [exact H|].
  destruct (spanValid _); rchain H.
Qed.
Lemma cr_firstHtmlCond a b : crRel a b -> forall k i, firstHtmlCond i k b = firstHtmlCond i k a.
Proof. intros H. induction k as [|k IH]; intros i; [reflexivity|]. cbn [firstHtmlCond]. rewrite (cr_htmlStart i a b H), IH. reflexivity. Qed.
Lemma rel_startHTML p p' : relP p p' -> relP (startHTML p) (startHTML p').
Proof.
  intros H. unfold startHTML. cbv zeta. rewrite (rel_indent p p' H). destruct (_ <=? _); [exact H|].
  pose proof (rel_bai p p' H) as Hb.
  rewrite (cr_hasBytePrefix _ _ [60] Hb) by (apply noEolb_spec; reflexivity). destruct (negb _); [exact H|].
  rewrite (cr_firstHtmlCond _ _ Hb). destruct (_ <? 0); [exact H|].
  rewrite (rel_containerKind p p' H), (rel_tipKind p p' H). destruct (negb _ && _); [exact H|].
  rewrite (cr_htmlEnd _ _ _ Hb).
  assert (H2 : relP (updCont (openBlock p HTMLBlockKind) (fun b => set_bn b (firstHtmlCond 0 7 (bytesAfterIndent p))))
                    (updCont (openBlock p' HTMLBlockKind) (fun b => set_bn b (firstHtmlCond 0 7 (bytesAfterIndent p))))) by rchain H.
  destruct (htmlEnd _ _); [|exact H2]. rewrite (crRel_len _ _ (rel_bai _ _ H2)). rchain H.
Qed.
Lemma rel_chpc p p' : relP p p' -> containerHasParagraphContent p' = containerHasParagraphContent p.
Proof.
  intros H. unfold containerHasParagraphContent. rewrite (rel_containerKind p p' H), (rel_contBlock p p' H), (cr_onCloseParagraph _ _ _ (proj1 H)). reflexivity.
Qed.
Lemma rel_startSetext p p' : relP p p' -> relP (startSetext p) (startSetext p').
Proof.
  intros H. unfold startSetext. cbv zeta. rewrite (rel_containerKind p p' H). destruct (negb _); [exact H|].
  rewrite (rel_indent p p' H). destruct (_ <=? _); [exact H|]. rewrite (cr_parseSetext _ _ (rel_bai p p' H)). destruct (_ =? 0); [exact H|].
  rewrite (rel_chpc p p' H). destruct (negb _); [exact H|]. rchain H.
Qed.
Lemma rel_startThematic p p' : relP p p' -> relP (startThematic p) (startThematic p').
Proof.
  intros H. unfold startThematic. cbv zeta. rewrite (rel_indent p p' H). destruct (_ <=? _); [exact H|].
  rewrite (cr_parseThematicBreak _ _ (rel_bai p p' H)). destruct (_ <? 0); [exact H|]. rchain H.
Qed.
Lemma rel_startListItem p p' : relP p p' -> relP (startListItem p) (startListItem p').
Proof.
  intros H. unfold startListItem. cbv zeta. rewrite (rel_indent p p' H). destruct (_ <=? _); [exact H|].
  pose proof (rel_bai p p' H) as Hb. rewrite (cr_parseListMarker _ _ Hb). destruct (parseListMarker _) as [[delim n] mend].
  rewrite (rel_containerKind p p' H). destruct (_ || _); [exact H|].
  rewrite (cr_isBlankLine _ _ (crRel_from _ _ mend Hb)). destruct (_ && _); [exact H|].
  pose proof (rel_consumeIndent p p' (indent p) H) as H1.
  set (p1 := consumeIndent p (indent p)) in *. set (p1' := consumeIndent p' (indent p)) in *. clearbody p1 p1'.
  rewrite (rel_containerKind p1 p1' H1), (rel_contBlock p1 p1' H1).
  set (p2 := if negb (containerKind p1 =? ListKind) || _ then _ else p1).
  set (p2' := if negb (containerKind p1 =? ListKind) || _ then _ else p1').
  assert (H2 : relP p2 p2') by (unfold p2, p2'; destruct (_ || _); rchain H1). clearbody p2 p2'.
  match goal with |- context [endBlock ?X] => match X with context [p2] => set (q := endBlock X) end end.
  match goal with |- context [endBlock ?X] => match X with context [p2'] => set (q' := endBlock X) end end.
  assert (Hq : relP q q') by (unfold q, q'; rchain H2). clearbody q q'.
  rewrite (rel_isRestBlank q q' Hq). destruct (isRestBlank q); [rchain Hq|].
  rewrite (rel_indent q q' Hq). destruct (indent q <? 1); [rchain Hq|]. destruct (4 <? indent q); rchain Hq.
Qed.
Lemma rel_startIndented p p' : relP p p' -> relP (startIndented p) (startIndented p').
Proof.
  intros H. unfold startIndented. rewrite (rel_indent p p' H), (rel_isRestBlank p p' H), (rel_tipKind p p' H).
  destruct (_ || _ || _); [exact H|]. rchain H.
Qed.

Definition relOK (f : lp -> lp) : Prop := forall p p', relP p p' -> relP (f p) (f p').
Lemma blockStarts_rel : Forall relOK blockStarts.
Proof.
  unfold blockStarts.
  apply Forall_cons; [exact rel_startBlockQuote|]. apply Forall_cons; [exact rel_startATX|].
  apply Forall_cons; [exact rel_startFenced|]. apply Forall_cons; [exact rel_startHTML|].
  apply Forall_cons; [exact rel_startSetext|]. apply Forall_cons; [exact rel_startThematic|].
  apply Forall_cons; [exact rel_startListItem|]. apply Forall_cons; [exact rel_startIndented|]. apply Forall_nil.
Qed.
Lemma rel_tryStarts : forall fs p p', Forall relOK fs -> relP p p' -> relBP (tryStarts fs p) (tryStarts fs p').
Proof.
  induction fs as [|f r IH]; intros p p' Hfs H; [split; [reflexivity|exact H]|]. inversion Hfs as [|? ? Hf Hr]; subst.
  cbn [tryStarts]. cbv zeta. pose proof (Hf _ _ (rel_withState p p' stOpening H)) as H1.
  rewrite (rel_state _ _ H1). destruct (_ || _); [split; [reflexivity|exact H1]|apply IH; assumption].
Qed.
Lemma rel_opening_loop : forall fuel p p', relP p p' -> relBP (opening_loop fuel p) (opening_loop fuel p').
Proof.
  induction fuel as [|f IH]; intros p p' H; [split; [reflexivity|exact H]|]. cbn [opening_loop]. rewrite (rel_containerKind p p' H).
  destruct (_ || _); [|split; [reflexivity|exact H]].
  pose proof (rel_tryStarts blockStarts p p' blockStarts_rel H) as [E H1].
  destruct (tryStarts blockStarts p) as [b p1]. destruct (tryStarts blockStarts p') as [b' p1']. cbn [fst snd] in E, H1. subst b'.
  destruct b; [|split; [reflexivity|exact H1]]. rewrite (rel_state _ _ H1).
  destruct (_ =? stLineConsumed); [split; [reflexivity|exact H1]|apply IH, H1].
Qed.
Lemma rel_deferredClose p p' : relP p p' -> relP (deferredClose p) (deferredClose p').
Proof.
  intros H. unfold deferredClose. cbv zeta. rewrite (rel_isRestBlank p p' H). eqf H root. rewrite (rel_cdepth p p' H). eqf H lineStart.
  destruct (_ && _); [apply rel_withCont, H|apply rel_closeLastChildAt, H].
Qed.
Lemma rel_openNewBlocks p p' am : relP p p' -> relBP (openNewBlocks p am) (openNewBlocks p' am).
Proof.
  intros H. unfold openNewBlocks. rewrite (rel_len_line p p' H). destruct (_ =? 0).
  - split; [reflexivity|]. cbn [snd]. eqf H root. eqf H lineStart. rewrite (cr_closeBlock _ _ _ (proj1 H)).
    apply rel_withCont, rel_withRoot, H.
  - rewrite (crRel_length _ _ (proj1 (proj2 H))).
    pose proof (rel_opening_loop (S (length (line p))) p p' H) as [E H1].
    destruct (opening_loop _ p) as [ht p1]. destruct (opening_loop _ p') as [ht' p1']. cbn [fst snd] in E, H1. subst ht'.
    destruct am; (split; [reflexivity|cbn [snd]]); [exact H1|apply rel_deferredClose, H1].
Qed.
