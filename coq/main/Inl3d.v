From Coq Require Import List ZArith Lia Bool.
Import ListNotations.
Require Import Base Tables Utf8 Tree Rdr Link Collect Html Recog Inl3a Inl3b Inl3c.
Open Scope Z_scope.

(* parseHTMLTag (parse_html.go:25): (start, end) or null *)
Fixpoint ht_pi (fuel : nat) (r : reader) (start : Z) : Z * Z :=
  match fuel with
  | O => nullSpan
  | S f =>
    if negb (cur r =? 63) then
      let '(ok, r1) := next (snd (current r)) in if negb ok then nullSpan else ht_pi f r1 start
    else
      let '(ok, r1) := next (snd (current r)) in
      if negb ok || jumped r1 then nullSpan else
      if cur r1 =? 62 then (start, r_pos r1 + 1) else ht_pi f r1 start
  end.
Fixpoint ht_until (fuel : nat) (r : reader) (c : Z) : option reader :=
  match fuel with
  | O => None
  | S f => if cur r =? c then Some (snd (current r)) else
           let '(ok, r1) := next (snd (current r)) in if negb ok then None else ht_until f r1 c
  end.
Fixpoint ht_comment (fuel : nat) (r : reader) (start : Z) : Z * Z :=
  match fuel with
  | O => nullSpan
  | S f =>
    let '(rem, r0) := remainingNodeBytes r in
    if hasBytePrefix rem [45; 45; 62] then
      let r2 := snd (next (snd (next r0))) in (start, r_pos r2 + 1)
    else if hasBytePrefix rem [45; 45] then nullSpan
    else let '(ok, r1) := next r0 in if negb ok then nullSpan else ht_comment f r1 start
  end.
Fixpoint ht_cdata (fuel : nat) (r : reader) (start : Z) : Z * Z :=
  match fuel with
  | O => nullSpan
  | S f =>
    let '(rem, r0) := remainingNodeBytes r in
    if hasBytePrefix rem [93; 93; 62] then
      let r2 := snd (next (snd (next r0))) in (start, r_pos r2 + 1)
    else let '(ok, r1) := next r0 in if negb ok then nullSpan else ht_cdata f r1 start
  end.
Fixpoint nextNok (n : nat) (r : reader) : option reader :=
  match n with O => Some r | S k => let '(ok, r1) := next r in if ok then nextNok k r1 else None end.

Definition parseHTMLTag (fuel : nat) (r : reader) : Z * Z :=
  if negb (cur r =? 60) then nullSpan else
  let start := r_pos r in
  let '(ok, r1) := next (snd (current r)) in
  if negb ok || jumped r1 then nullSpan else
  let c := cur r1 in
  let r1 := snd (current r1) in
  if c =? 63 then
    let '(ok2, r2) := next r1 in if negb ok2 then nullSpan else ht_pi fuel r2 start
  else if c =? 33 then
    let '(ok2, r2) := next r1 in
    if negb ok2 || jumped r2 then nullSpan else
    let '(rem, r3) := remainingNodeBytes r2 in
    if (0 <? len rem) && isASCIILetter (at_ rem 0) then
      let r4 := snd (next r3) in
      match ht_until fuel r4 62 with Some r5 => (start, r_pos r5 + 1) | None => nullSpan end
    else if hasBytePrefix rem [45; 45] then
      let r4 := snd (next r3) in
      let '(ok3, r5) := next r4 in
      if negb ok3 || jumped r5 then nullSpan else
      let '(ts, r6) := remainingNodeBytes r5 in
      if hasBytePrefix ts [62] || hasBytePrefix ts [45; 62] then nullSpan else ht_comment fuel r6 start
    else if hasBytePrefix rem [91;67;68;65;84;65;91] then
      match nextNok 7 r3 with Some r4 => ht_cdata fuel r4 start | None => nullSpan end
    else nullSpan
  else if c =? 47 then
    let '(e, _) := parseHTMLClosingTag fuel r1 in if e <? 0 then nullSpan else (start, e)
  else
    let '(e, _) := parseHTMLOpenTag fuel r1 in if e <? 0 then nullSpan else (start, e).

(* parseInlineLink (inlines.go:920, repaired: no deferred advance): (spanS, spanE, dest span/text, title span/text) *)
Definition parseInlineLink (fuel : nat) (st : ist) (start : Z)
  : (Z * Z) * ((Z * Z) * (Z * Z)) * ((Z * Z) * (Z * Z)) :=
  let none := (nullSpan, (nullSpan, nullSpan), (nullSpan, nullSpan)) in
  let r := newReader (isrc st) (unpFrom st) (start + 1) in
  let '(ok, r1) := skipLinkSpace fuel r in
  if negb ok then none else
  let '(dspan, dtext, r2) := parseLinkDestination fuel r1 in
  let '(ok2, r3) := if spanValid dspan then skipLinkSpace fuel r2 else (true, r2) in
  if negb ok2 then none else
  let '(tspan, ttext, r4) := parseLinkTitle fuel r3 in
  let '(ok3, r5) := if spanValid tspan then skipLinkSpace fuel r4 else (true, r4) in
  if negb ok3 then none else
  if negb (cur r5 =? 41) then none else
  ((start, r_pos r5 + 1), (dspan, dtext), (tspan, ttext)).

(* processEmphasis (inlines.go:1349, repaired) *)
Definition obIndex (d : delim) : Z :=
  if (d_typ d =? tStar) || (d_typ d =? tUnder) then
    d_n d mod 3 + (if hasFlag d fOpener then 3 else 0) + (if d_typ d =? tUnder then 6 else 0)
  else if d_typ d =? tLink then 12 else 13.
Definition isEmphMatch (o c : delim) : bool :=
  ((d_typ o =? tStar) || (d_typ o =? tUnder)) && (d_typ o =? d_typ c) && hasFlag o fOpener && hasFlag c fCloser &&
  ((negb (hasFlag o fCloser) && negb (hasFlag c fOpener)) || negb ((d_n o + d_n c) mod 3 =? 0) ||
   ((d_n o mod 3 =? 0) && (d_n c mod 3 =? 0))).
Definition getOB (ob : list Z) (i : Z) : Z := nth (Z.to_nat i) ob 0.
Definition setOB (ob : list Z) (i v : Z) : list Z := upto ob i ++ [v] ++ from_ ob (i + 1).

Fixpoint pe_findCloser (fuel : nat) (stack : list delim) (cp : Z) : Z :=
  match fuel with
  | O => -1
  | S f =>
    if len stack <=? cp then -1 else
    let d := nthD stack cp in
    if ((d_typ d =? tStar) || (d_typ d =? tUnder)) && hasFlag d fCloser then cp else pe_findCloser f stack (cp + 1)
  end.
Fixpoint pe_findOpener (fuel : nat) (stack : list delim) (oi lo : Z) (c : delim) : Z :=
  match fuel with
  | O => lo - 1
  | S f => if (lo <=? oi) && negb (isEmphMatch (nthD stack oi) c) then pe_findOpener f stack (oi - 1) lo c else oi
  end.

Fixpoint pe_loop (fuel : nat) (st : ist) (ob : list Z) (cp : Z) : ist :=
  match fuel with
  | O => st
  | S f =>
    let stack := stk st in
    let cp := pe_findCloser (S (length stack)) stack cp in
    if cp <? 0 then st else
    let c := nthD stack cp in
    let obi := obIndex c in
    let lo := getOB ob obi in
    let oi := pe_findOpener (S (length stack)) stack (cp - 1) lo c in
    if lo <=? oi then
      let o := nthD stack oi in
      let on := nodeOf st (d_node o) in let cn := nodeOf st (d_node c) in
      let strong := (2 <=? plen on) && (2 <=? plen cn) in
      let k := if strong then 2 else 1 in
      let st := updN st (d_node o) (fun n => setSpan n (ps n) (pe n - k)) in
      let st := updN st (d_node c) (fun n => setSpan n (ps n + k) (pe n)) in
      let '(st, _) := wrap st (if strong then StrongKind else EmphasisKind) (d_node o) (Some (d_node c)) in
      let st := setStk st (delStack (stk st) (oi + 1) cp) in
      let cp := oi + 1 in
      let ob := map (fun b => if oi + 1 <? b then oi + 1 else b) ob in
      let '(st, cp, ob) :=
        if plen (nodeOf st (d_node o)) =? 0 then
          (setStk (removeNode st (d_node o)) (delStack (stk st) oi (oi + 1)), cp - 1,
           map (fun b => if oi <? b then b - 1 else b) ob)
        else (st, cp, ob) in
      let st :=
        if plen (nodeOf st (d_node c)) =? 0 then
          setStk (removeNode st (d_node c)) (delStack (stk st) cp (cp + 1))
        else st in
      pe_loop f st ob cp
    else
      let ob := setOB ob obi cp in
      if negb (hasFlag c fOpener) then pe_loop f (setStk st (delStack (stk st) cp (cp + 1))) ob cp
      else pe_loop f st ob (cp + 1)
  end.
Definition processEmphasis (st : ist) (stackBottom : Z) : ist :=
  let fuel := (4 * (length (stk st) + length (isrc st)) + 8)%nat in
  let st := pe_loop fuel st (repeat stackBottom 14) stackBottom in
  setStk st (upto (stk st) stackBottom).
