From Coq Require Import List ZArith Lia Bool.
Import ListNotations.
Require Import Base Tables Utf8 Tree Rdr Link Collect Html Recog Inl3a Inl3b Inl3c Inl3d Inl3e LP Rules Starts Driver Props.
Require L2Kind2.
Require Import ShapesBase ShapesR ShapesComp3 GramInline EntBase EntDefs En2Tree EntriesOK ComposeBase.
Require Import IFBase IFTitle IFTokDef IFTokTf IFPe IFTk5 IFEmpty InlineFuel.
Open Scope Z_scope.

(* ================================================================================================
   T49 -- C04 for the inline parser on EVERY input: InlineFuel.C04_parseInlines_all_fuels composed with the block layer's
   entry invariant (T28 / T45: ComposeBase.root_facts, leaf_cases, leaf_bikOKw).
   ================================================================================================ *)

(* `lines`: an Indent entry is one tab byte *)
Lemma lines_ind1 B M : forall ik, lines B M ik -> ind1 ik = true.
Proof.
  induction ik as [|u r IH]; intros H; [reflexivity|]. destruct H as (A & _ & A2). unfold ind1. cbn [forallb]. fold (ind1 r). rewrite (IH A2), andb_true_r.
  destruct A as [(K & _)|[(K & _ & _ & E & _) _]].
  - rewrite K. reflexivity.
  - rewrite K, E. cbn [negb Z.eqb orb]. change (IndentKind =? IndentKind) with true. cbn [negb orb]. apply Z.eqb_refl.
Qed.

(* the facts of ComposeBase go down to every sub-block *)
Lemma facts_sub B pre' M : forall d b, subB d b -> facts B pre' M b -> facts B pre' M d.
Proof. induction 1 as [b|d c b Hin Hs IH]; intros H; [exact H|]. apply IH. eapply facts_kids; eassumption. Qed.

(* ---- one leaf ---- *)
Lemma leaf_fuel_adequate input r d : In r (fst (parseBlocks input)) -> subB d (rb_blk r) -> hasUnparsed d = true ->
  forall matcher rf tf pf lf ofu,
  (2 * length (rb_src r) + 10 <= rf)%nat -> (2 * length (rb_src r) + 10 <= tf)%nat -> (8 * length (rb_src r) + 8 <= pf)%nat ->
  (S (length (rb_src r)) <= lf)%nat -> (S (length (bik d)) <= ofu)%nat ->
  parseInlinesG rf tf pf lf ofu (rb_src r) matcher d = parseInlines (rb_src r) matcher d.
Proof.
  intros Hr Hd Hu matcher rf tf pf lf ofu R T P L O.
  destruct (root_facts input r Hr) as (B & pre' & M & Hn & Es & Ht & Lp & Hf).
  pose proof (facts_sub B pre' M d _ Hd Hf) as Hfd.
  pose proof (leaf_bikOKw B (upto B (bend (rb_blk r))) (rb_src r) pre' M (bend (rb_blk r)) Hn eq_refl Es Ht Lp d Hfd Hu) as Hw.
  destruct (leaf_cases B pre' M (bend (rb_blk r)) Lp d Hfd Hu) as (_ & _ & _ & [(HPS & HL & _)|(HA & a & t & Eb & _ & _ & Hat & _)]).
  - (* paragraph / setext heading *)
    assert (Hok : bikOK (rb_src r) d = true).
    { unfold bikOKw in Hw. apply orb_true_iff in Hw. destruct Hw as [Hw|Hw]; [exact Hw|].
      unfold emptyATX in Hw. apply andb_true_iff in Hw. destruct Hw as [Hk _]. apply Z.eqb_eq in Hk. destruct HPS as [E|E]; rewrite E in Hk; discriminate. }
    unfold bikOK in Hok. apply andb_true_iff in Hok. destruct Hok as [Hok _]. apply andb_true_iff in Hok. destruct Hok as [H1 H2]. apply Z.leb_le in H2.
    apply C04_parseInlines_all_fuels; try assumption. eapply lines_ind1; exact HL.
  - (* ATX heading: one entry *)
    destruct (Z.eq_dec a t) as [->|Hne].
    + apply C04_parseInlines_all_fuels_empty with (s := t); [exact Eb|lia].
    + assert (Hok : bikOK (rb_src r) d = true).
      { unfold bikOKw in Hw. apply orb_true_iff in Hw. destruct Hw as [Hw|Hw]; [exact Hw|].
        unfold emptyATX, emptyOne in Hw. rewrite Eb in Hw. cbn [mkI ikind istart iend ikids] in Hw.
        destruct (Z.eqb_spec a t); [contradiction|]. rewrite !andb_false_r in Hw. discriminate. }
      unfold bikOK in Hok. apply andb_true_iff in Hok. destruct Hok as [Hok _]. apply andb_true_iff in Hok. destruct Hok as [H1 H2]. apply Z.leb_le in H2.
      apply C04_parseInlines_all_fuels; try assumption. rewrite Eb. reflexivity.
Qed.

(* ================================================================ THE THEOREM
   For every input, every root block r of parseBlocks input, every block d at or below the root on which Rewrite runs the
   inline parser (hasUnparsed d), every matcher and ALL fuels above the explicit bounds (reader loops rf, label normalisation tf,
   processEmphasis pf, tokeniser loop lf, entry loop ofu): the inline parser with those fuels computes exactly what the model's
   parseInlines computes.  No loop of the inline parser ever stops for lack of fuel, on any input. *)
Theorem parseFull_fuel_adequate : forall input r d, In r (fst (parseBlocks input)) -> subB d (rb_blk r) -> hasUnparsed d = true ->
  forall matcher rf tf pf lf ofu,
  (2 * length (rb_src r) + 10 <= rf)%nat -> (2 * length (rb_src r) + 10 <= tf)%nat -> (8 * length (rb_src r) + 8 <= pf)%nat ->
  (S (length (rb_src r)) <= lf)%nat -> (S (length (bik d)) <= ofu)%nat ->
  parseInlinesG rf tf pf lf ofu (rb_src r) matcher d = parseInlines (rb_src r) matcher d.
Proof. exact leaf_fuel_adequate. Qed.
Print Assumptions parseFull_fuel_adequate.

(* in particular with the reference matcher that parseFull builds *)
Definition refsOf (input : bytes) : list bytes :=
  fold_left (fun a r => extractB (bheight (rb_blk r)) (rb_blk r) a) (fst (parseBlocks input)) [].
Corollary parseFull_fuel_adequate_refs input r d : In r (fst (parseBlocks input)) -> subB d (rb_blk r) -> hasUnparsed d = true ->
  forall rf tf pf lf ofu,
  (2 * length (rb_src r) + 10 <= rf)%nat -> (2 * length (rb_src r) + 10 <= tf)%nat -> (8 * length (rb_src r) + 8 <= pf)%nat ->
  (S (length (rb_src r)) <= lf)%nat -> (S (length (bik d)) <= ofu)%nat ->
  parseInlinesG rf tf pf lf ofu (rb_src r) (refsOf input) d = parseInlines (rb_src r) (refsOf input) d.
Proof. intros. apply parseFull_fuel_adequate with (input := input); assumption. Qed.

(* ================================================================ the other fuels of parseFull: structural
   rewriteB and extractB take the height of the block tree as fuel and recurse on the children only: any fuel >= the height
   gives the same result.  (The renderer's fuels -- isize / bsize of Render.v and Fmt.v -- are of the same kind: sizes of the
   tree being walked; they are outside parseFull.) *)
Lemma rewriteB_fuel src m : forall f1 f2 b, (bheight b <= f1)%nat -> (bheight b <= f2)%nat -> rewriteB f1 src m b = rewriteB f2 src m b.
Proof.
  induction f1 as [|f1 IH]; intros f2 b H1 H2; [destruct b; cbn in H1; lia|]. destruct f2 as [|f2]; [destruct b; cbn in H2; lia|].
  cbn [rewriteB]. destruct (_ && _); [reflexivity|]. f_equal. apply map_ext_in. intros c Hc.
  destruct b as [K s e bk ik a n cc l lb]. cbn [bkids bheight] in *. pose proof (bheight_kid c bk Hc). apply IH; lia.
Qed.
Lemma fold_left_ext_in {A B} (f g : A -> B -> A) : forall l a, (forall x a0, In x l -> f a0 x = g a0 x) -> fold_left f l a = fold_left g l a.
Proof. induction l as [|x l IH]; intros a H; [reflexivity|]. cbn [fold_left]. rewrite (H x a (or_introl eq_refl)). apply IH. intros y a0 Hy. apply H. right. exact Hy. Qed.
Lemma extractB_fuel : forall f1 f2 b acc, (bheight b <= f1)%nat -> (bheight b <= f2)%nat -> extractB f1 b acc = extractB f2 b acc.
Proof.
  induction f1 as [|f1 IH]; intros f2 b acc H1 H2; [destruct b; cbn in H1; lia|]. destruct f2 as [|f2]; [destruct b; cbn in H2; lia|].
  cbn [extractB]. destruct (_ =? LinkReferenceDefinitionKind); [reflexivity|]. apply fold_left_ext_in. intros c a0 Hc.
  destruct b as [K s e bk ik a n cc l lb]. cbn [bkids bheight] in *. pose proof (bheight_kid c bk Hc). apply IH; lia.
Qed.

(* parseFull with all its fuels as parameters: hf the two tree-walk fuels (per root: any number >= the height of its tree),
   and the five inline fuels (per leaf: any numbers above the bounds) *)
Fixpoint rewriteG (fu : bytes -> block -> nat * nat * nat * nat * nat) (fuel : nat) (src : bytes) (matcher : list bytes) (b : block) : block :=
  match fuel with
  | O => b
  | S f =>
    if (0 <? len (bik b)) && hasUnparsed b then
      let '(rf, tf, pf, lf, ofu) := fu src b in set_bik b (parseInlinesG rf tf pf lf ofu src matcher b)
    else set_bkids b (map (rewriteG fu f src matcher) (bkids b))
  end.
Definition parseFullG (hf : block -> nat) (fu : bytes -> block -> nat * nat * nat * nat * nat) (input : bytes) : list rootB * Z :=
  let '(roots, code) := parseBlocks input in
  let refs := fold_left (fun a r => extractB (hf (rb_blk r)) (rb_blk r) a) roots [] in
  (map (fun r => {| rb_line := rb_line r; rb_start := rb_start r; rb_end := rb_end r; rb_src := rb_src r;
                    rb_blk := rewriteG fu (hf (rb_blk r)) (rb_src r) refs (rb_blk r) |}) roots, code).
Definition fuelsOK (fu : bytes -> block -> nat * nat * nat * nat * nat) : Prop :=
  forall src b, let '(rf, tf, pf, lf, ofu) := fu src b in
    (2 * length src + 10 <= rf)%nat /\ (2 * length src + 10 <= tf)%nat /\ (8 * length src + 8 <= pf)%nat /\
    (S (length src) <= lf)%nat /\ (S (length (bik b)) <= ofu)%nat.

Lemma rewriteG_eq input r fu m : In r (fst (parseBlocks input)) -> fuelsOK fu ->
  forall f1 f2 b, subB b (rb_blk r) -> (bheight b <= f1)%nat -> (bheight b <= f2)%nat -> rewriteG fu f1 (rb_src r) m b = rewriteB f2 (rb_src r) m b.
Proof.
  intros Hr Hfu. induction f1 as [|f1 IH]; intros f2 b Hs H1 H2; [destruct b; cbn in H1; lia|]. destruct f2 as [|f2]; [destruct b; cbn in H2; lia|].
  cbn [rewriteG rewriteB]. destruct ((0 <? len (bik b)) && hasUnparsed b) eqn:Ec.
  - apply andb_true_iff in Ec. destruct Ec as [_ Hu]. specialize (Hfu (rb_src r) b). destruct (fu (rb_src r) b) as [[[[rf tf] pf] lf] ofu].
    destruct Hfu as (A1 & A2 & A3 & A4 & A5). rewrite (parseFull_fuel_adequate input r b Hr Hs Hu m rf tf pf lf ofu A1 A2 A3 A4 A5). reflexivity.
  - f_equal. apply map_ext_in. intros c Hc. assert (Hsc : subB c (rb_blk r)).
    { clear - Hs Hc. induction Hs as [b0|d c0 b0 Hin Hs IH]; [eapply subB_kid; [exact Hc|apply subB_refl]|eapply subB_kid; [exact Hin|apply IH, Hc]]. }
    destruct b as [K s e bk ik a n cc l lb]. cbn [bkids bheight] in *. pose proof (bheight_kid c bk Hc). apply IH; [exact Hsc|lia|lia].
Qed.

(* C04 for the whole parse on the model: parseFull does not depend on ANY of its fuels once they are above the bounds *)
Theorem parseFullG_eq input hf fu : (forall b, (bheight b <= hf b)%nat) -> fuelsOK fu -> parseFullG hf fu input = parseFull input.
Proof.
  intros Hh Hfu. unfold parseFullG, parseFull.
  assert (Hrw := fun r m (Hr : In r (fst (parseBlocks input))) => rewriteG_eq input r fu m Hr Hfu (hf (rb_blk r)) (bheight (rb_blk r)) (rb_blk r) (subB_refl _) (Hh _) (le_n _)).
  destruct (parseBlocks input) as [roots code]. cbn [fst] in Hrw.
  assert (Ex : fold_left (fun a r => extractB (hf (rb_blk r)) (rb_blk r) a) roots [] = fold_left (fun a r => extractB (bheight (rb_blk r)) (rb_blk r) a) roots []).
  { apply fold_left_ext_in. intros r a _. apply extractB_fuel; [apply Hh|lia]. }
  rewrite Ex. f_equal. apply map_ext_in. intros r Hr. rewrite (Hrw r _ Hr). reflexivity.
Qed.
Print Assumptions parseFullG_eq.

(* with Total.parseBlocks_total (the block layer never runs out of fuel: exit code 0) this is the "total" clause of C04
   for the whole parse on the model *)
Require Total.
Theorem parseFull_total input hf fu : (forall b, (bheight b <= hf b)%nat) -> fuelsOK fu ->
  snd (parseFull input) = 0 /\ parseFullG hf fu input = parseFull input.
Proof.
  intros Hh Hfu. split; [|apply parseFullG_eq; assumption].
  unfold parseFull. pose proof (Total.parseBlocks_total input) as H. destruct (parseBlocks input) as [roots code]. exact H.
Qed.
Print Assumptions parseFull_total.

(* ================================================================ an executable check *)
From Coq Require Import String Ascii.
Fixpoint bs (s : string) : bytes := match s with EmptyString => [] | String c r => Z.of_nat (nat_of_ascii c) :: bs r end.
Definition nl := String (ascii_of_nat 10) EmptyString.
Definition tab := String (ascii_of_nat 9) EmptyString.
Definition dq := String (ascii_of_nat 34) EmptyString.
(* tabs in list continuation lines (3-column Indent entries), a link whose title spans two lines, emphasis, a code span, an empty heading *)
Definition docT := bs ("123. *a* [l](<u> " ++ dq ++ "ti" ++ nl ++ tab ++ tab ++ "tle" ++ dq ++ ") `c`" ++ nl ++ tab ++ tab ++ "**b** _c_" ++ nl ++ nl ++ "#" ++ nl ++ "> q [r]" ++ nl ++ ">" ++ tab ++ "s" ++ nl ++ nl ++ "[r]: /x").
Definition big (n : nat) : bytes -> block -> nat * nat * nat * nat * nat := fun _ _ => (n, n, n, n, n).
Example docT_same : parseFullG (fun b => (bheight b + 7)%nat) (big 3000) docT = parseFull docT.
Proof. vm_compute. reflexivity. Qed.
Example docT_nontrivial : existsb (fun r => existsb (fun i => ikind i =? LinkKind) (bik (rb_blk r)) || negb (len (bkids (rb_blk r)) =? 0)) (fst (parseFull docT)) = true.
Proof. vm_compute. reflexivity. Qed.
