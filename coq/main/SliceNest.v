(* SliceNest.v -- property C09 (quote / list nesting) on text lines (T40 part A), one text line inside one container.

   For a text line t (SliceText.wfText), L = tline t = esc t ++ [10], and every configuration c without tag filter:

     C09_quote        : parseFull L = ([oneRoot L para], 0)  and  parseFull ("> " ++ L) = exactly one root, a BlockQuoteKind block
                        [0, len) whose single child is  shiftB 2 para  (the same paragraph, every span and inline position + 2), and
                        renderDoc c ("> " ++ L) = "<blockquote>" ++ renderDoc c L ++ "</blockquote>"
                        (the model renderer Render.v writes no newline after tags; found by computation).
     C09_bullet_item  : b in { - + * }:  parseFull ([b; 32] ++ L) = ListKind [0,len) > ListItemKind (indent 2, delimiter b) >
                        [ListMarker [0,1); shiftB 2 para];   renderDoc = "<ul><li>" ++ escapeHTML t ++ "</li></ul>"  (tight list: no <p>).
     C09_ordered_item : one digit dg and d in { . ) }:  the same with marker [0,2), shiftB 3 para, delimiter d, and
                        renderDoc = "<ol>" (dg = '1') or "<ol start=\"dg\">" ... "<li>" ++ escapeHTML t ++ "</li></ol>".
     parseFull_quote / parseFull_item give para explicitly: paraOf (len L) (tokSpec isASCIIPunctuation 0 0 t)  (SliceTok.v).
   No side condition beyond wfText t is needed (checked by vm_compute on several inputs, then proved).
   Route: eatQuote / atSpace_* (cursor over "> " and over the space after a marker), startBlockQuote_open, startListItem_open,
   openBlock_in_quote / openBlock_in_item, processLine_*_first / processLine_eof_* (the two lines of the run), closeBlock_list
   (onCloseList keeps the list tight), SliceTok.parseInlines_gen + tokSpec_shift (inline forest = shifted forest). *)
From Coq Require Import List ZArith Lia Bool.
Import ListNotations.
Require Import Base Tables Utf8 Tree Rdr Link Collect Html Recog LP Rules Starts Driver Inl3a Inl3b Inl3c Inl3d Inl3e Render Fmt Entry Cursor
  SliceBase SlicePara SliceText SliceCode SliceTok SliceLine SliceFormat.
Open Scope Z_scope.

(* ---------------------------------------------------------------------------------------------- *)
(* 1. the cursor over the quote marker "> "                                                        *)
(* ---------------------------------------------------------------------------------------------- *)
Lemma len3_pos (a b c : Z) (r : bytes) : 2 < len (a :: b :: c :: r).
Proof. lensimp. pose proof (sl_len_nonneg r). lia. Qed.

Lemma cil_S f p n : consumeIndent_loop (S f) p n =
    if n <=? 0 then p else
    let p := if state p =? stOpening then withState p stOpenMatched else p in
    let inLine := li p <? len (line p) in
    if inLine && (at_ (line p) (li p) =? 32) then
      let i' := li p + 1 in let cl := col p + 1 in
      consumeIndent_loop f (withCursor p i' cl (computeTabRem (line p) i' cl)) (n - 1)
    else if inLine && (at_ (line p) (li p) =? 9) then
      if n <? tabRem p then withCursor p (li p) (col p + n) (tabRem p - n)
      else
        let cl := col p + tabRem p in let i' := li p + 1 in
        consumeIndent_loop f (withCursor p i' cl (computeTabRem (line p) i' cl)) (n - tabRem p)
    else panic p 3.
Proof. reflexivity. Qed.
Lemma cil_0 f p : consumeIndent_loop f p 0 = p.
Proof. destruct f; reflexivity. Qed.

Lemma eatQuote p c r : li p = 0 -> line p = 62 :: 32 :: c :: r -> isSpTab c = false -> (state p =? stOpening) = false ->
  exists cl, (let p1 := advance p 1 in if 0 <? indent p1 then consumeIndent p1 1 else p1) =
             setLP p (root p) (container p) 2 cl 0 (state p) (panicked p).
Proof.
  intros Hli Hln Hc Hst. destruct p as [src rt cont ls ln i cl tr st pn]. cbn [li line state root container panicked] in *. subst i ln.
  pose proof (len3_pos 62 32 c r) as Hlen.
  assert (Hc9 : (c =? 9) = false) by (unfold isSpTab in Hc; apply orb_false_iff in Hc; apply Hc).
  cbv zeta. unfold advance. change (1 <? 0) with false. change (1 =? 0) with false. cbv iota. cbn [state]. rewrite Hst.
  cbn [li line]. destruct (Z.ltb_spec (len (62 :: 32 :: c :: r)) (0 + 1)); [lia|].
  change (at_ (62 :: 32 :: c :: r) 0 =? 9) with false. rewrite andb_false_r.
  set (cl1 := col _ + columnWidth _ _).
  assert (Et : computeTabRem (62 :: 32 :: c :: r) (0 + 1) cl1 = 0).
  { unfold computeTabRem. change (at_ (62 :: 32 :: c :: r) (0 + 1) =? 9) with false. rewrite andb_false_r. reflexivity. }
  rewrite Et. unfold withCursor, setLP. cbn [root container li col tabRem state panicked source lineStart line].
  set (p1 := {| source := src; root := rt; container := cont; lineStart := ls; line := 62 :: 32 :: c :: r; li := 0 + 1; col := cl1; tabRem := 0; state := st; panicked := pn |}).
  assert (Ei : indent p1 = 1).
  { unfold indent, p1. cbn [line li col]. destruct (Z.leb_spec (len (62 :: 32 :: c :: r)) (0 + 1)); [lia|].
    change (at_ (62 :: 32 :: c :: r) (0 + 1)) with 32. change (32 =? 32) with true. cbv iota.
    change (from_ (62 :: 32 :: c :: r) (0 + 1 + 1)) with (c :: r). cbn [indentLength]. rewrite Hc. change (upto (c :: r) 0) with (@nil Z).
    rewrite columnWidth_nil. reflexivity. }
  rewrite Ei. change (0 <? 1) with true. cbv iota.
  unfold consumeIndent. change (line p1) with (62 :: 32 :: c :: r). cbn [length]. rewrite cil_S.
  change (1 <=? 0) with false. cbv iota. change (state p1) with st. rewrite Hst. cbv zeta.
  change (li p1) with (0 + 1). change (line p1) with (62 :: 32 :: c :: r). change (col p1) with cl1.
  destruct (Z.ltb_spec (0 + 1) (len (62 :: 32 :: c :: r))); [|lia]. change (at_ (62 :: 32 :: c :: r) (0 + 1) =? 32) with true. cbn [andb]. cbv iota.
  assert (Et2 : computeTabRem (62 :: 32 :: c :: r) (0 + 1 + 1) (cl1 + 1) = 0).
  { unfold computeTabRem. change (at_ (62 :: 32 :: c :: r) (0 + 1 + 1)) with c. rewrite Hc9, andb_false_r. reflexivity. }
  rewrite Et2. change (1 - 1) with 0. rewrite cil_0.
  exists (cl1 + 1). reflexivity.
Qed.

(* ---------------------------------------------------------------------------------------------- *)
(* 2. the first line "> text": open the quote, then the paragraph                                  *)
(* ---------------------------------------------------------------------------------------------- *)
Definition quoteOpen (s : Z) (kids : list block) : block := Blk BlockQuoteKind s (-1) kids [] 0 0 0 false false.

Lemma startBlockQuote_open p c r : li p = 0 -> line p = 62 :: 32 :: c :: r -> isSpTab c = false ->
  container p = Some O -> root p = rootDoc [] -> state p = stOpening ->
  exists cl, startBlockQuote p = setLP p (rootDoc [quoteOpen (lineStart p + 0) []]) (Some 1%nat) 2 cl 0 stOpenMatched (panicked p).
Proof.
  intros Hli Hln Hc Hcont Hroot Hst. unfold startBlockQuote.
  assert (Hal : atLine p 62 (32 :: c :: r)) by (split; assumption).
  rewrite (al_indent p 62 _ Hal eq_refl). cbn [codeBlockIndentLimit Z.leb Z.compare].
  rewrite (al_bai p 62 _ Hal eq_refl). cbn [hasBytePrefix Z.eqb Pos.eqb andb negb].
  rewrite (consumeIndent_le0 p 0) by lia.
  rewrite (openBlock_empty_doc p BlockQuoteKind Hcont Hroot (or_introl Hst) eq_refl).
  set (p2 := setLP p _ _ _ _ _ _ _).
  destruct (eatQuote p2 c r Hli Hln Hc eq_refl) as (cl & E). cbv zeta in E. rewrite E.
  exists cl. subst p2. destruct p as [src rt cont ls ln i cl' tr st pn]. cbn [li] in Hli. subst i. reflexivity.
Qed.

(* opening a paragraph inside the (childless) open quote *)
Lemma openBlock_in_quote p s : container p = Some 1%nat -> root p = rootDoc [quoteOpen s []] ->
  (state p = stOpening \/ state p = stOpenMatched) ->
  openBlock p ParagraphKind =
  setLP p (rootDoc [quoteOpen s [newBlock ParagraphKind (lineStart p + li p)]]) (Some 2%nat) (li p) (col p) (tabRem p) stOpenMatched (panicked p).
Proof.
  destruct p as [src rt cont ls ln i cl tr st pn]. cbn [container root state lineStart li col tabRem panicked].
  intros -> -> Hst. unfold openBlock. cbn [state].
  assert (E34 : (st =? stDescending) || (st =? stDescendTerminated) = false) by (destruct Hst as [-> | ->]; reflexivity).
  rewrite E34.
  destruct Hst as [-> | ->]; reflexivity.
Qed.

Lemma addLineText_para_in_quote p pre c r s : atLineK p pre c r -> isSpaceTabOrLineEnding c = false ->
  container p = Some 1%nat -> root p = rootDoc [quoteOpen s []] -> state p = stOpening ->
  addLineText p = setLP p (rootDoc [quoteOpen s [Blk ParagraphKind (lineStart p + li p) (-1) [] [mkI UnparsedKind (lineStart p + li p) (lineStart p + len (line p))] 0 0 0 false false]])
                        (Some 2%nat) (li p) (col p) (tabRem p) stOpenMatched (panicked p).
Proof.
  intros Hal Hc Hcont Hroot Hst.
  pose proof (alk_blank p pre c r Hal Hc) as Hb.
  assert (Hsp : isSpTab c = false).
  { unfold isSpaceTabOrLineEnding in Hc. unfold isSpTab. destruct (c =? 32); [discriminate|]. destruct (c =? 9); [discriminate|reflexivity]. }
  rewrite (addLineText_nonblank_open p Hb); [|unfold contBlock, cdepth; rewrite Hcont, Hroot; reflexivity].
  cbv zeta.
  assert (E1 : withRoot p (setLastBlankUpTo (cdepth p) false (root p)) = p).
  { destruct p as [src rt cont ls ln i cl tr st pn]. cbn [container root] in Hcont, Hroot. subst rt cont. reflexivity. }
  rewrite E1.
  rewrite (openBlock_in_quote p s Hcont Hroot (or_introl Hst)).
  set (p2 := setLP p _ _ _ _ _ _ _).
  assert (Hal2 : atLineK p2 pre c r) by exact Hal.
  rewrite (alk_indent p2 pre c r Hal2 Hsp). rewrite (consumeIndent_le0 p2 0) by lia.
  subst p2. destruct p as [src rt cont ls ln i cl tr st pn]. reflexivity.
Qed.

Definition quotedParaOpen (ls e : Z) : block :=
  quoteOpen ls [Blk ParagraphKind (ls + 2) (-1) [] [mkI UnparsedKind (ls + 2) e] 0 0 0 false false].

Lemma processLine_quote_first src ls c r : from_ src ls = 62 :: 32 :: c :: r -> paraStart2 c = true ->
  snd (parseListMarker (c :: r)) < 0 ->
  processLine 0 [] ls src = ([quotedParaOpen ls (ls + len (62 :: 32 :: c :: r))], stOpenMatched, 0).
Proof.
  intros Hl Hc Hm. unfold processLine, resetLP. rewrite Hl.
  rewrite (computeTabRem_0 62 (32 :: c :: r) 0 eq_refl).
  set (ln := 62 :: 32 :: c :: r).
  set (p0 := {| source := src; root := Blk documentKind 0 (-1) [] [] 0 0 0 false false; container := Some 0%nat;
               lineStart := ls; line := ln; li := 0; col := 0; tabRem := 0; state := 0; panicked := 0 |}).
  assert (Hd : descendOpenBlocks p0 = (true, p0)) by reflexivity.
  rewrite Hd. change (negb (state p0 =? stDescendTerminated)) with true. cbv iota.
  destruct (startBlockQuote_open (withState p0 stOpening) c r eq_refl eq_refl (ps2_sptab c Hc) eq_refl eq_refl eq_refl) as (cl & Esq).
  set (q := setLP (withState p0 stOpening) (rootDoc [quoteOpen (lineStart (withState p0 stOpening) + 0) []]) (Some 1%nat) 2 cl 0 stOpenMatched
                  (panicked (withState p0 stOpening))) in *.
  assert (Ets : tryStarts blockStarts p0 = (true, q)).
  { unfold blockStarts. cbn [tryStarts]. rewrite Esq. reflexivity. }
  assert (Halq : atLineK q [62; 32] c r) by (split; reflexivity).
  assert (Ho : openNewBlocks p0 true = (true, withState q stOpening)).
  { unfold openNewBlocks. change (line p0) with ln.
    destruct (Z.eqb_spec (len ln) 0) as [E|_]; [pose proof (len3_pos 62 32 c r); unfold ln in E; lia|].
    unfold ln at 1. cbn [length opening_loop].
    change (containerKind p0) with documentKind.
    change ((documentKind =? ParagraphKind) || negb (acceptsLines documentKind)) with true. cbv iota.
    rewrite Ets. change (state q =? stLineConsumed) with false. cbv iota.
    change (containerKind q) with BlockQuoteKind.
    change ((BlockQuoteKind =? ParagraphKind) || negb (acceptsLines BlockQuoteKind)) with true. cbv iota.
    rewrite (tryStarts_none2 q c r); [reflexivity| | |exact Hc|reflexivity|exact Hm].
    - apply (alk_indent q _ c r Halq (ps2_sptab c Hc)).
    - apply (alk_bai q _ c r Halq (ps2_sptab c Hc)). }
  rewrite Ho.
  assert (Halq' : atLineK (withState q stOpening) [62; 32] c r) by (split; reflexivity).
  rewrite (addLineText_para_in_quote (withState q stOpening) [62; 32] c r (ls + 0) Halq' (ps2_ws c Hc) eq_refl eq_refl eq_refl).
  cbn [root setLP bkids rootDoc state panicked withState q p0 lineStart li line]. unfold quotedParaOpen. rewrite Z.add_0_r. reflexivity.
Qed.

(* ---------------------------------------------------------------------------------------------- *)
(* 3. end of input: the quote and its paragraph are closed                                         *)
(* ---------------------------------------------------------------------------------------------- *)
Definition quotedParaClosed (ls e ue : Z) : block :=
  Blk BlockQuoteKind ls e [Blk ParagraphKind (ls + 2) e [] [mkI UnparsedKind (ls + 2) ue] 0 0 0 false false] [] 0 0 0 false false.

Lemma closeBlock_doc_quote src ls ue e : 0 <= ls + 2 -> ls + 2 < ue -> ls + 2 < len src -> at_ src (ls + 2) <> 0 -> at_ src (ls + 2) <> 91 ->
  closeBlock 3 src (rootDoc [quotedParaOpen ls ue]) e = [Blk documentKind 0 e [quotedParaClosed ls e ue] [] 0 0 0 false false].
Proof.
  intros H0 Hse Hlen Hnz H91.
  set (pc := Blk ParagraphKind (ls + 2) e [] [mkI UnparsedKind (ls + 2) ue] 0 0 0 false false).
  assert (Ho : onCloseParagraph src pc = [pc]).
  { apply (onCloseParagraph_nolabel src _ (mkI UnparsedKind (ls + 2) ue) []); [reflexivity|].
    cbn [pc bik mkI istart]. change (Inl UnparsedKind (ls + 2) ue 0 [] []) with (mkI UnparsedKind (ls + 2) ue).
    rewrite (current_unparsed src (ls + 2) ue H0 Hse Hlen Hnz). apply Z.eqb_neq. exact H91. }
  rewrite (closeBlock_plain 2 src (rootDoc [quotedParaOpen ls ue]) e eq_refl eq_refl).
  change (lastBlock (set_bend (rootDoc [quotedParaOpen ls ue]) e)) with (Some (quotedParaOpen ls ue)). cbv iota.
  rewrite (closeBlock_plain 1 src (quotedParaOpen ls ue) e eq_refl eq_refl).
  change (lastBlock (set_bend (quotedParaOpen ls ue) e)) with (Some (Blk ParagraphKind (ls + 2) (-1) [] [mkI UnparsedKind (ls + 2) ue] 0 0 0 false false)).
  cbv iota.
  rewrite (closeBlock_para 0 src (Blk ParagraphKind (ls + 2) (-1) [] [mkI UnparsedKind (ls + 2) ue] 0 0 0 false false) e eq_refl eq_refl).
  change (set_bend (Blk ParagraphKind (ls + 2) (-1) [] [mkI UnparsedKind (ls + 2) ue] 0 0 0 false false) e) with pc. rewrite Ho. reflexivity.
Qed.

Lemma processLine_eof_quote st src ls ue : 0 <= ls + 2 -> ls + 2 < ue -> ls + 2 < len src -> at_ src (ls + 2) <> 0 -> at_ src (ls + 2) <> 91 ->
  processLine st [quotedParaOpen ls ue] (len src) src = ([quotedParaClosed ls (len src) ue], stDescending, 0).
Proof.
  intros H0 Hse Hlen Hnz H91. unfold processLine, resetLP. rewrite sl_from_all.
  change (computeTabRem [] 0 0) with 0.
  set (p0 := {| source := src; root := Blk documentKind 0 (-1) [quotedParaOpen ls ue] [] 0 0 0 false false; container := Some 0%nat;
               lineStart := len src; line := []; li := 0; col := 0; tabRem := 0; state := st; panicked := 0 |}).
  assert (Hd : descendOpenBlocks p0 = (false, setLP p0 (root p0) (Some 0%nat) 0 0 0 stDescending 0)) by reflexivity.
  rewrite Hd. set (q := setLP p0 (root p0) (Some 0%nat) 0 0 0 stDescending 0).
  change (negb (state q =? stDescendTerminated)) with true. cbv iota.
  unfold openNewBlocks. change (len (line q) =? 0) with true. cbv iota.
  change (bheight (root q)) with 3%nat. change (root q) with (rootDoc [quotedParaOpen ls ue]).
  change (source q) with src. change (lineStart q) with (len src).
  rewrite (closeBlock_doc_quote src ls ue (len src) H0 Hse Hlen Hnz H91).
  reflexivity.
Qed.

Theorem parseBlocks_quote c r :
  let body := c :: r in let X := [62; 32] ++ body ++ [10] in
  noEolB body -> noNul body -> paraStart2 c = true -> c <> 91 -> snd (parseListMarker (body ++ [10])) < 0 ->
  parseBlocks X = ([oneRoot X (quotedParaClosed 0 (len X) (len X))], 0).
Proof.
  intros body X Heol Hnul Hc H91 Hm.
  assert (HnulX : noNul X).
  { unfold X. apply noNul_app; [repeat constructor; lia|]. apply noNul_app; [exact Hnul|constructor; [lia|constructor]]. }
  assert (HX : X = 62 :: 32 :: c :: (r ++ [10])) by reflexivity.
  assert (Hlen : 2 < len X) by (rewrite HX; apply len3_pos).
  assert (Hc0 : c <> 0) by (inversion Hnul; assumption).
  unfold parseBlocks. rewrite (pad_noNul X HnulX).
  assert (Hfuel : exists f, length X = S (S f)) by (rewrite HX; cbn [length]; eexists; reflexivity).
  destruct Hfuel as [f Hf]. rewrite Hf.
  rewrite sl_allBlocks_S. cbn [buf]. rewrite Hf. rewrite sl_nextBlock_start.
  change (3 + S (S f))%nat with (S (S (S (S (S f))))). rewrite sl_skipLoop_S. cbv zeta. cbn [buf bi boff bline pending].
  assert (Hle : lineEnd X 0 = len X).
  { change X with ([] ++ ([62; 32] ++ body) ++ [10]). change 0 with (len (@nil Z)) at 1. rewrite (lineEnd_lf [] ([62; 32] ++ body) []).
    - lensimp. lia.
    - apply Forall_app. split; [repeat constructor; lia|exact Heol]. }
  rewrite Hle. destruct (Z.ltb_spec 0 (len X)); [|lia]. cbn [negb]. rewrite sl_upto_all.
  rewrite HX at 1. change (isBlankLine (62 :: 32 :: c :: r ++ [10])) with false. cbv iota.
  rewrite sl_lineLoop_S. cbn [buf bi boff bline pending]. rewrite sl_upto_all.
  rewrite (processLine_quote_first X 0 c (r ++ [10]) eq_refl Hc Hm).
  change (negb (0 =? 0)) with false. cbv iota.
  change (makeRoot [quotedParaOpen 0 (0 + len (62 :: 32 :: c :: r ++ [10]))] {| buf := X; bi := len X; boff := 0; bline := 1; pending := [] |})
    with (@None (rootB * bpst)). cbv iota.
  rewrite sl_lineLoop_S. cbn [buf bi boff bline pending].
  rewrite lineEnd_end. rewrite sl_upto_all.
  rewrite <- HX. rewrite Z.add_0_l.
  rewrite (processLine_eof_quote stOpenMatched X 0 (len X)); [|lia|lia|lia|rewrite HX; exact Hc0|rewrite HX; exact H91].
  change (negb (0 =? 0)) with false. cbv iota. unfold makeRoot, quotedParaClosed. unfold isOpen. cbn [bend buf bi boff bline pending].
  destruct (Z.ltb_spec (len X) 0); [lia|]. rewrite sl_upto_all, sl_from_all, Z.sub_diag.
  rewrite (unpadded_noNul X HnulX), (fillNulls_noNul X HnulX).
  rewrite sl_allBlocks_S. cbn [buf length Nat.add map app]. rewrite nextBlock_eof.
  unfold oneRoot. rewrite Z.add_0_l. reflexivity.
Qed.

(* ---------------------------------------------------------------------------------------------- *)
(* 4. C09, block-quote clause, one text line                                                       *)
(* ---------------------------------------------------------------------------------------------- *)
Definition quoteOf (e : Z) (kids : list block) : block := Blk BlockQuoteKind 0 e kids [] 0 0 0 false false.

Lemma shiftB_paraOf k e nodes : 0 <= e -> shiftB k (paraOf e nodes) = Blk ParagraphKind (0 + k) (e + k) [] (map (shiftI k) nodes) 0 0 0 false false.
Proof. intros H. unfold paraOf. cbn [shiftB map]. destruct (Z.leb_spec 0 e); [reflexivity|lia]. Qed.


Theorem parseFull_quote t : okText true t = true ->
  let L := tline t in let X := [62; 32] ++ L in
  let para := paraOf (len L) (tokSpec isASCIIPunctuation 0 0 t) in
  parseFull L = ([oneRoot L para], 0) /\
  parseFull X = ([oneRoot X (quoteOf (len X) [shiftB 2 para])], 0).
Proof.
  intros Hok L X para. split; [apply parseFull_esc; exact Hok|].
  destruct (esc_head t Hok) as (c & r & He & Hc & H91 & Hm).
  pose proof (esc_bytes t (okText_bytes t true Hok)) as Hb.
  assert (Hpb : parseBlocks X = ([oneRoot X (quotedParaClosed 0 (len X) (len X))], 0)).
  { unfold X, L, tline. rewrite He in *. apply parseBlocks_quote.
    - apply textBytes_noEol. exact Hb.
    - apply textBytes_noNul. exact Hb.
    - apply paraStartByte_2. exact Hc.
    - exact H91.
    - exact Hm. }
  unfold parseFull. rewrite Hpb.
  cbn [fold_left map oneRoot rb_blk rb_src rb_line rb_start rb_end].
  change (bheight (quotedParaClosed 0 (len X) (len X))) with 2%nat.
  change (extractB 2 (quotedParaClosed 0 (len X) (len X)) []) with (@nil bytes).
  set (pc := Blk ParagraphKind (0 + 2) (len X) [] [mkI UnparsedKind (0 + 2) (len X)] 0 0 0 false false).
  assert (Hrw : rewriteB 2 X [] (quotedParaClosed 0 (len X) (len X)) = quoteOf (len X) [set_bik pc (parseInlines X [] pc)]) by reflexivity.
  rewrite Hrw.
  rewrite (parseInlines_gen isASCIIPunctuation eq_refl t [62; 32] X [] pc (okText_punct t true Hok) eq_refl eq_refl).
  unfold para. rewrite shiftB_paraOf by apply sl_len_nonneg.
  change (len [62; 32]) with (0 + 2). rewrite (tokSpec_shift isASCIIPunctuation 2 t 0 0) by lia.
  assert (HlenX : len X = len L + 2) by (unfold X; lensimp; lia).
  rewrite <- HlenX. reflexivity.
Qed.

Theorem C09_quote_render c t : filterOn c = false -> okText true t = true ->
  renderDoc c ([62; 32] ++ tline t) =
  [60;98;108;111;99;107;113;117;111;116;101;62] ++ renderDoc c (tline t) ++ [60;47;98;108;111;99;107;113;117;111;116;101;62].
Proof.
  intros Hc Hok. destruct (parseFull_quote t Hok) as [HL HX]. cbv zeta in HL, HX.
  set (L := tline t) in *. set (X := [62; 32] ++ L) in *.
  set (nodes := tokSpec isASCIIPunctuation 0 0 t) in *.
  assert (HT : Forall isTextI nodes) by apply tokSpec_isText.
  assert (Hsp : spansOf L nodes = t) by apply spans_esc.
  rewrite (renderDoc_para c L (len L) nodes t Hc HL HT Hsp).
  unfold renderDoc. rewrite HX.
  cbn [fold_left map oneRoot rb_blk rb_src]. rewrite shiftB_paraOf by apply sl_len_nonneg.
  set (pb := Blk ParagraphKind (0 + 2) (len L + 2) [] (map (shiftI 2) nodes) 0 0 0 false false).
  change (bheight (quoteOf (len X) [pb])) with 2%nat.
  change (extractDefs 2 X (quoteOf (len X) [pb]) []) with (@nil (bytes * linkDef)).
  cbn [joinBlocks renderB]. change (bkind (quoteOf (len X) [pb])) with BlockQuoteKind. change (bkids (quoteOf (len X) [pb])) with [pb].
  change (BlockQuoteKind =? ParagraphKind) with false. change (BlockQuoteKind =? ThematicBreakKind) with false.
  change (isHeading BlockQuoteKind) with false. change (isCode BlockQuoteKind) with false.
  change (BlockQuoteKind =? BlockQuoteKind) with true. cbv iota.
  change (isTightList (quoteOf (len X) [pb])) with false.
  cbn [flat_map]. change (bkind pb) with ParagraphKind. change (bkids pb) with (@nil block). change (bik pb) with (map (shiftI 2) nodes).
  change (ParagraphKind =? ParagraphKind) with true. cbv iota. rewrite app_nil_r.
  assert (Hsh : map (shiftI 2) nodes = tokSpec isASCIIPunctuation 2 2 t).
  { unfold nodes. symmetry. apply (tokSpec_shift isASCIIPunctuation 2 t 0 0). lia. }
  rewrite Hsh.
  rewrite (kidsI_texts c [] X _ (tokSpec_isText isASCIIPunctuation t 2 2)).
  assert (Hsp2 : spansOf X (tokSpec isASCIIPunctuation 2 2 t) = t).
  { apply (tokSpec_spans isASCIIPunctuation t [62; 32] [] [10]). reflexivity. }
  rewrite Hsp2.
  rewrite !(openTag_nf c _ Hc), !(closeTag_nf c _ Hc). cbn [app]. rewrite <- !app_assoc. reflexivity.
Qed.
Print Assumptions parseFull_quote.
Print Assumptions C09_quote_render.

(* ---------------------------------------------------------------------------------------------- *)
(* 5. the list-item clause: one text line after a list marker                                      *)
(* ---------------------------------------------------------------------------------------------- *)
Definition listBlk (s e delim : Z) (kids : list block) : block := Blk ListKind s e kids [] 0 0 delim false false.
Definition itemBlk (s e ind delim : Z) (kids : list block) : block := Blk ListItemKind s e kids [] ind 0 delim false false.
Definition markerBlk (s e : Z) : block := Blk ListMarkerKind s e [] [] 0 0 0 false false.

Definition liOpenSeq (p : lp) (delim : Z) : lp :=
  let p := updCont (openBlock p ListKind) (fun b => set_bchar b delim) in
  let p := updCont (openBlock p ListItemKind) (fun b => set_bchar b delim) in
  openBlock p ListMarkerKind.

Lemma liOpenSeq_doc p delim : container p = Some O -> root p = rootDoc [] -> state p = stOpening ->
  openBlock (updCont (openBlock (updCont (openBlock p ListKind) (fun b => set_bchar b delim)) ListItemKind) (fun b => set_bchar b delim)) ListMarkerKind =
  setLP p (rootDoc [listBlk (lineStart p + li p) (-1) delim [itemBlk (lineStart p + li p) (-1) 0 delim [markerBlk (lineStart p + li p) (-1)]]])
        (Some 3%nat) (li p) (col p) (tabRem p) stOpenMatched (panicked p).
Proof.
  destruct p as [src rt cont ls ln i cl tr st pn]. cbn [container root state lineStart li col tabRem panicked].
  intros -> -> ->. reflexivity.
Qed.

(* the cursor on a single space that is followed by a non-blank byte *)
Lemma atSpace_indent p pre c r : li p = len pre -> line p = pre ++ 32 :: c :: r -> isSpTab c = false -> indent p = 1.
Proof.
  intros Hli Hln Hc. unfold indent. rewrite Hli, Hln.
  destruct (Z.leb_spec (len (pre ++ 32 :: c :: r)) (len pre)) as [H|_]; [revert H; lensimp; pose proof (sl_len_nonneg r); lia|].
  rewrite sl_at_app_len. change (32 =? 32) with true. cbv iota.
  replace (pre ++ 32 :: c :: r) with ((pre ++ [32]) ++ c :: r) by (rewrite <- app_assoc; reflexivity).
  replace (len pre + 1) with (len (pre ++ [32])) by (lensimp; lia). rewrite sl_from_app_len.
  cbn [indentLength]. rewrite Hc. change (upto (c :: r) 0) with (@nil Z). rewrite columnWidth_nil. reflexivity.
Qed.
Lemma atSpace_notblank p pre c r : li p = len pre -> line p = pre ++ 32 :: c :: r -> isSpaceTabOrLineEnding c = false -> isRestBlank p = false.
Proof.
  intros Hli Hln Hc. unfold isRestBlank, rest. rewrite Hli, Hln, sl_from_app_len. cbn [isBlankLine forallb]. rewrite Hc. reflexivity.
Qed.
Lemma atSpace_eat p pre c r : li p = len pre -> line p = pre ++ 32 :: c :: r -> isSpTab c = false -> (state p =? stOpening) = false ->
  consumeIndent p 1 = setLP p (root p) (container p) (len pre + 1) (col p + 1) 0 (state p) (panicked p).
Proof.
  intros Hli Hln Hc Hst. destruct p as [src rt cont ls ln i cl tr st pn]. cbn [li line state root container panicked col] in *. subst i ln.
  unfold consumeIndent. cbn [line].
  assert (Hfl : exists f, length (pre ++ 32 :: c :: r) = S f) by (rewrite app_length; cbn [length]; eexists; rewrite Nat.add_succ_r; reflexivity).
  destruct Hfl as [f ->]. rewrite cil_S. change (1 <=? 0) with false. cbv iota. cbn [state]. rewrite Hst. cbv iota zeta. cbn [li line col].
  destruct (Z.ltb_spec (len pre) (len (pre ++ 32 :: c :: r))) as [_|H]; [|revert H; lensimp; pose proof (sl_len_nonneg r); lia].
  rewrite sl_at_app_len. change (32 =? 32) with true. cbn [andb]. cbv iota.
  assert (Hc9 : (c =? 9) = false) by (unfold isSpTab in Hc; apply orb_false_iff in Hc; apply Hc).
  assert (Et2 : computeTabRem (pre ++ 32 :: c :: r) (len pre + 1) (cl + 1) = 0).
  { unfold computeTabRem. replace (pre ++ 32 :: c :: r) with ((pre ++ [32]) ++ c :: r) by (rewrite <- app_assoc; reflexivity).
    replace (len pre + 1) with (len (pre ++ [32])) by (lensimp; lia). rewrite sl_at_app_len. rewrite Hc9, andb_false_r. reflexivity. }
  rewrite Et2. change (1 - 1) with 0. rewrite cil_0. reflexivity.
Qed.

(* advancing over the marker and closing it *)
Lemma afterMarker p mk rest s delim : li p = 0 -> line p = mk ++ rest -> mk <> [] ->
  container p = Some 3%nat -> root p = rootDoc [listBlk s (-1) delim [itemBlk s (-1) 0 delim [markerBlk s (-1)]]] ->
  state p = stOpenMatched ->
  exists cl tr, endBlock (advance p (len mk)) =
             setLP p (rootDoc [listBlk s (-1) delim [itemBlk s (-1) 0 delim [markerBlk s (lineStart p + len mk)]]])
                   (Some 2%nat) (len mk) cl tr stOpenMatched (panicked p).
Proof.
  intros Hli Hln Hne Hcont Hroot Hst.
  assert (Hlm : 0 < len mk) by (destruct mk; [contradiction|lensimp; pose proof (sl_len_nonneg mk); lia]).
  assert (Hll : len (line p) = len mk + len rest) by (rewrite Hln; lensimp; lia).
  pose proof (sl_len_nonneg rest) as Hr0.
  destruct (advance_spec p (len mk)) as (cl1 & tr1 & Ea); [lia|lia|].
  rewrite Ea. rewrite Hst. change (stOpenMatched =? stOpening) with false. cbv iota. rewrite Hli, Z.add_0_l.
  destruct p as [src rt cont ls ln i cl tr st pn]. cbn [li line container root state lineStart panicked col tabRem] in *. subst i ln cont rt st.
  exists cl1, tr1. reflexivity.
Qed.

(* block starts 1-6 on a line whose first byte m0 is given (fine-grained version of SliceLine.st2_* ) *)
Section StartsFine.
Variables (p : lp) (m0 : Z) (rest : bytes).
Hypothesis Hi : indent p = 0.
Hypothesis Hb : bytesAfterIndent p = m0 :: rest.
Lemma stf_bq : m0 <> 62 -> startBlockQuote p = p.
Proof.
  intros H. unfold startBlockQuote. rewrite Hi. cbn [codeBlockIndentLimit Z.leb Z.compare]. rewrite Hb. cbn [hasBytePrefix].
  destruct (Z.eqb_spec 62 m0); [congruence|]. reflexivity.
Qed.
Lemma stf_atx : m0 <> 35 -> startATX p = p.
Proof.
  intros H. unfold startATX. rewrite Hi. cbn [codeBlockIndentLimit Z.leb Z.compare]. rewrite Hb. unfold parseATXHeading. cbn [countWhile].
  destruct (Z.eqb_spec m0 35); [congruence|]. reflexivity.
Qed.
Lemma stf_fenced : m0 <> 96 -> m0 <> 126 -> startFenced p = p.
Proof.
  intros H1 H2. unfold startFenced. rewrite Hi. cbn [codeBlockIndentLimit Z.leb Z.compare]. rewrite Hb. unfold parseCodeFence.
  destruct (Z.eqb_spec m0 96); [congruence|]. destruct (Z.eqb_spec m0 126); [congruence|]. cbn [orb negb]. rewrite orb_true_r. reflexivity.
Qed.
Lemma stf_html : m0 <> 60 -> startHTML p = p.
Proof.
  intros H. unfold startHTML. rewrite Hi. cbn [codeBlockIndentLimit Z.leb Z.compare]. rewrite Hb. cbn [hasBytePrefix].
  destruct (Z.eqb_spec 60 m0); [congruence|]. reflexivity.
Qed.
Lemma stf_thematic : parseThematicBreak (m0 :: rest) < 0 -> startThematic p = p.
Proof.
  intros H. unfold startThematic. rewrite Hi. cbn [codeBlockIndentLimit Z.leb Z.compare]. rewrite Hb.
  destruct (Z.ltb_spec (parseThematicBreak (m0 :: rest)) 0); [reflexivity|lia].
Qed.
End StartsFine.

(* what we need to know about a list marker mk (followed by one space) *)
Record markerOK (mk : bytes) (delim n : Z) : Prop := {
  mk_hd : exists m0 mr, mk = m0 :: mr /\ isSpTab m0 = false /\ m0 <> 62 /\ m0 <> 35 /\ m0 <> 96 /\ m0 <> 126 /\ m0 <> 60;
  mk_plm : forall rest, parseListMarker (mk ++ 32 :: rest) = (delim, n, len mk);
  mk_tb : forall c r, paraStart2 c = true -> parseThematicBreak (mk ++ 32 :: c :: r) < 0;
  mk_eol : noEolB mk; mk_nul : noNul mk }.

Lemma startListItem_open p mk delim n c r : markerOK mk delim n -> li p = 0 -> line p = mk ++ 32 :: c :: r -> paraStart2 c = true ->
  container p = Some O -> root p = rootDoc [] -> state p = stOpening ->
  exists cl, startListItem p =
    setLP p (rootDoc [listBlk (lineStart p + 0) (-1) delim [itemBlk (lineStart p + 0) (-1) (0 + len mk + 1) delim [markerBlk (lineStart p + 0) (lineStart p + len mk)]]])
          (Some 2%nat) (len mk + 1) cl 0 stOpenMatched (panicked p).
Proof.
  intros [Hhd Hplm _ _ _] Hli Hln Hc Hcont Hroot Hst. destruct Hhd as (m0 & mr & Hmk & Hsp & _).
  assert (Hal : atLine p m0 (mr ++ 32 :: c :: r)) by (split; [exact Hli|rewrite Hln, Hmk; reflexivity]).
  unfold startListItem. rewrite (al_indent p m0 _ Hal Hsp). cbn [codeBlockIndentLimit Z.leb Z.compare].
  rewrite (al_bai p m0 _ Hal Hsp). change (m0 :: mr ++ 32 :: c :: r) with ((m0 :: mr) ++ 32 :: c :: r). rewrite <- Hmk.
  rewrite (Hplm (c :: r)).
  assert (Hlm : 0 < len mk) by (rewrite Hmk; lensimp; pose proof (sl_len_nonneg mr); lia).
  destruct (Z.ltb_spec (len mk) 0); [lia|].
  assert (Hk : containerKind p = documentKind) by (unfold containerKind, contBlock, cdepth; rewrite Hcont, Hroot; reflexivity).
  rewrite Hk. change (documentKind =? ParagraphKind) with false. cbn [andb orb]. cbv iota.
  rewrite (consumeIndent_le0 p 0) by lia. rewrite Hk.
  change ((documentKind =? ListKind) || (documentKind =? ListItemKind)) with false. cbv iota.
  change (negb (documentKind =? ListKind)) with true. cbn [orb]. cbv iota.
  cbv zeta. rewrite (liOpenSeq_doc p delim Hcont Hroot Hst).
  set (p3 := setLP p _ _ _ _ _ _ _).
  destruct (afterMarker p3 mk (32 :: c :: r) (lineStart p + li p) delim Hli Hln ltac:(rewrite Hmk; discriminate) eq_refl eq_refl eq_refl) as (cl1 & tr1 & E4).
  rewrite E4. set (p4 := setLP p3 _ _ _ _ _ _ _).
  assert (Hli4 : li p4 = len mk) by reflexivity. assert (Hln4 : line p4 = mk ++ 32 :: c :: r) by exact Hln.
  rewrite (atSpace_notblank p4 mk c r Hli4 Hln4 (ps2_ws c Hc)).
  rewrite (atSpace_indent p4 mk c r Hli4 Hln4 (ps2_sptab c Hc)).
  change (1 <? 1) with false. change (4 <? 1) with false. cbv iota.
  rewrite (atSpace_eat p4 mk c r Hli4 Hln4 (ps2_sptab c Hc) eq_refl).
  exists (col p4 + 1). subst p4 p3. destruct p as [src rt cont ls ln i cl tr st pn]. cbn [li] in Hli. subst i. reflexivity.
Qed.

(* ---- general facts about the right spine ---- *)
Lemma set_lastBlocks_self b c : lastBlock b = Some c -> set_lastBlocks b [c] = b.
Proof.
  unfold lastBlock, set_lastBlocks. destruct (rev (bkids b)) as [|x t] eqn:E; [discriminate|]. intros H. inversion H; subst x.
  assert (Hk : bkids b = rev t ++ [c]) by (rewrite <- (rev_involutive (bkids b)), E; reflexivity).
  rewrite Hk, removelast_last. rewrite <- Hk. destruct b; reflexivity.
Qed.
Lemma updAt_id : forall d f rt cb, getAt d rt = Some cb -> f cb = cb -> updAt d f rt = rt.
Proof.
  induction d as [|d IH]; intros f rt cb Hg Hf; cbn [getAt updAt] in *.
  - inversion Hg; subst. exact Hf.
  - destruct (lastBlock rt) as [c|] eqn:El; [|reflexivity]. rewrite (IH f c cb Hg Hf). apply set_lastBlocks_self. exact El.
Qed.
Lemma closeBlock_closed f src b e : isOpen b = false -> closeBlock (S f) src b e = [b].
Proof. intros H. cbn [closeBlock]. rewrite H. reflexivity. Qed.

Lemma closeLastChildAt_closed p d e cb c : getAt d (root p) = Some cb -> lastBlock cb = Some c -> isOpen c = false ->
  closeLastChildAt p d e = withRoot p (root p).
Proof.
  intros Hg Hl Ho. unfold closeLastChildAt. f_equal. apply (updAt_id d _ (root p) cb Hg). rewrite Hl.
  destruct (bheight (root p)) as [|h] eqn:Eh; [destruct (root p); discriminate Eh|].
  rewrite (closeBlock_closed h _ c e Ho). apply set_lastBlocks_self. exact Hl.
Qed.

Lemma openBlock_eq p kind : (state p = stOpening \/ state p = stOpenMatched) -> canContain (containerKind p) kind = true ->
  openBlock p kind =
  withCont (updCont (closeLastChildAt (withState p stOpenMatched) (cdepth p) (lineStart p))
                    (fun b => set_bkids b (bkids b ++ [newBlock kind (lineStart p + li p)]))) (Some (S (cdepth p))).
Proof.
  intros Hst Hcc. unfold openBlock.
  assert (E34 : (state p =? stDescending) || (state p =? stDescendTerminated) = false) by (destruct Hst as [-> | ->]; reflexivity).
  rewrite E34.
  assert (E : (if state p =? stOpening then withState p stOpenMatched else p) = withState p stOpenMatched).
  { destruct Hst as [H | H]; rewrite H; [reflexivity|]. change (stOpenMatched =? stOpening) with false. cbv iota.
    destruct p as [src rt cont ls ln i cl tr st pn]. cbn [state] in H. subst st. reflexivity. }
  rewrite E. cbv zeta. change (cdepth (withState p stOpenMatched)) with (cdepth p). cbn [openBlock_up].
  change (containerKind (withState p stOpenMatched)) with (containerKind p). rewrite Hcc. reflexivity.
Qed.

(* opening the paragraph in the list item, after the (closed) marker *)
Definition itemRoot (s me ind delim : Z) (extra : list block) : block :=
  rootDoc [listBlk s (-1) delim [itemBlk s (-1) ind delim (markerBlk s me :: extra)]].

Lemma openBlock_in_item p s me ind delim : 0 <= me -> container p = Some 2%nat -> root p = itemRoot s me ind delim [] ->
  (state p = stOpening \/ state p = stOpenMatched) ->
  openBlock p ParagraphKind =
  setLP p (itemRoot s me ind delim [newBlock ParagraphKind (lineStart p + li p)]) (Some 3%nat) (li p) (col p) (tabRem p) stOpenMatched (panicked p).
Proof.
  intros Hme Hcont Hroot Hst.
  rewrite (openBlock_eq p ParagraphKind Hst); [|unfold containerKind, contBlock, cdepth; rewrite Hcont, Hroot; reflexivity].
  rewrite (closeLastChildAt_closed (withState p stOpenMatched) (cdepth p) (lineStart p)
             (itemBlk s (-1) ind delim [markerBlk s me]) (markerBlk s me)).
  - destruct p as [src rt cont ls ln i cl tr st pn]. cbn [container root] in Hcont, Hroot. subst cont rt. reflexivity.
  - change (root (withState p stOpenMatched)) with (root p). unfold cdepth. rewrite Hcont, Hroot. reflexivity.
  - reflexivity.
  - unfold isOpen, markerBlk. cbn [bend]. apply Z.ltb_ge. exact Hme.
Qed.

Lemma addLineText_para_in_item p pre c r s me ind delim : 0 <= me -> atLineK p pre c r -> isSpaceTabOrLineEnding c = false ->
  container p = Some 2%nat -> root p = itemRoot s me ind delim [] -> state p = stOpening ->
  addLineText p = setLP p (itemRoot s me ind delim [Blk ParagraphKind (lineStart p + li p) (-1) [] [mkI UnparsedKind (lineStart p + li p) (lineStart p + len (line p))] 0 0 0 false false])
                        (Some 3%nat) (li p) (col p) (tabRem p) stOpenMatched (panicked p).
Proof.
  intros Hme Hal Hc Hcont Hroot Hst.
  pose proof (alk_blank p pre c r Hal Hc) as Hb.
  assert (Hsp : isSpTab c = false).
  { unfold isSpaceTabOrLineEnding in Hc. unfold isSpTab. destruct (c =? 32); [discriminate|]. destruct (c =? 9); [discriminate|reflexivity]. }
  rewrite (addLineText_nonblank_open p Hb); [|unfold contBlock, cdepth; rewrite Hcont, Hroot; reflexivity].
  cbv zeta.
  assert (E1 : withRoot p (setLastBlankUpTo (cdepth p) false (root p)) = p).
  { destruct p as [src rt cont ls ln i cl tr st pn]. cbn [container root] in Hcont, Hroot. subst rt cont. reflexivity. }
  rewrite E1.
  rewrite (openBlock_in_item p s me ind delim Hme Hcont Hroot (or_introl Hst)).
  set (p2 := setLP p _ _ _ _ _ _ _).
  assert (Hal2 : atLineK p2 pre c r) by exact Hal.
  rewrite (alk_indent p2 pre c r Hal2 Hsp). rewrite (consumeIndent_le0 p2 0) by lia.
  subst p2. destruct p as [src rt cont ls ln i cl tr st pn]. reflexivity.
Qed.

Definition itemParaOpen (ls lm e delim : Z) : block :=
  listBlk ls (-1) delim [itemBlk ls (-1) (lm + 1) delim
    [markerBlk ls (ls + lm); Blk ParagraphKind (ls + (lm + 1)) (-1) [] [mkI UnparsedKind (ls + (lm + 1)) e] 0 0 0 false false]].

Lemma processLine_item_first src ls mk delim n c r : markerOK mk delim n -> from_ src ls = mk ++ 32 :: c :: r -> paraStart2 c = true ->
  snd (parseListMarker (c :: r)) < 0 -> 0 <= ls ->
  processLine 0 [] ls src = ([itemParaOpen ls (len mk) (ls + len (mk ++ 32 :: c :: r)) delim], stOpenMatched, 0).
Proof.
  intros Hmk Hl Hc Hm Hls. unfold processLine, resetLP. rewrite Hl.
  destruct Hmk as [Hhd Hplm Htb Heol Hnul]. destruct Hhd as (m0 & mr & Emk & Hsp & H62 & H35 & H96 & H126 & H60).
  set (ln := mk ++ 32 :: c :: r).
  assert (Eln : ln = m0 :: (mr ++ 32 :: c :: r)) by (unfold ln; rewrite Emk; reflexivity).
  assert (H9 : (m0 =? 9) = false) by (unfold isSpTab in Hsp; apply orb_false_iff in Hsp; apply Hsp).
  assert (Etr : computeTabRem ln 0 0 = 0) by (rewrite Eln; apply computeTabRem_0; exact H9).
  rewrite Etr.
  set (p0 := {| source := src; root := Blk documentKind 0 (-1) [] [] 0 0 0 false false; container := Some 0%nat;
               lineStart := ls; line := ln; li := 0; col := 0; tabRem := 0; state := 0; panicked := 0 |}).
  assert (Hd : descendOpenBlocks p0 = (true, p0)) by reflexivity.
  rewrite Hd. change (negb (state p0 =? stDescendTerminated)) with true. cbv iota.
  pose proof (Build_markerOK mk delim n (ex_intro _ m0 (ex_intro _ mr (conj Emk (conj Hsp (conj H62 (conj H35 (conj H96 (conj H126 H60)))))))) Hplm Htb Heol Hnul) as Hmk.
  destruct (startListItem_open (withState p0 stOpening) mk delim n c r Hmk eq_refl eq_refl Hc eq_refl eq_refl eq_refl) as (cl & Esl).
  set (q := setLP (withState p0 stOpening) _ (Some 2%nat) (len mk + 1) cl 0 stOpenMatched (panicked (withState p0 stOpening))) in *.
  assert (Hal0 : atLine (withState p0 stOpening) m0 (mr ++ 32 :: c :: r)) by (split; [reflexivity|exact Eln]).
  pose proof (al_indent _ m0 _ Hal0 Hsp) as Hi0. pose proof (al_bai _ m0 _ Hal0 Hsp) as Hb0.
  assert (Ets : tryStarts blockStarts p0 = (true, q)).
  { unfold blockStarts. cbn [tryStarts].
    rewrite (stf_bq _ m0 _ Hi0 Hb0 H62). change (state (withState p0 stOpening)) with stOpening.
    change ((stOpening =? stOpenMatched) || (stOpening =? stLineConsumed)) with false. cbv iota.
    change (withState (withState p0 stOpening) stOpening) with (withState p0 stOpening).
    rewrite (stf_atx _ m0 _ Hi0 Hb0 H35). change (state (withState p0 stOpening)) with stOpening.
    change ((stOpening =? stOpenMatched) || (stOpening =? stLineConsumed)) with false. cbv iota.
    change (withState (withState p0 stOpening) stOpening) with (withState p0 stOpening).
    rewrite (stf_fenced _ m0 _ Hi0 Hb0 H96 H126). change (state (withState p0 stOpening)) with stOpening.
    change ((stOpening =? stOpenMatched) || (stOpening =? stLineConsumed)) with false. cbv iota.
    change (withState (withState p0 stOpening) stOpening) with (withState p0 stOpening).
    rewrite (stf_html _ m0 _ Hi0 Hb0 H60). change (state (withState p0 stOpening)) with stOpening.
    change ((stOpening =? stOpenMatched) || (stOpening =? stLineConsumed)) with false. cbv iota.
    change (withState (withState p0 stOpening) stOpening) with (withState p0 stOpening).
    rewrite (st_setext (withState p0 stOpening) eq_refl). change (state (withState p0 stOpening)) with stOpening.
    change ((stOpening =? stOpenMatched) || (stOpening =? stLineConsumed)) with false. cbv iota.
    change (withState (withState p0 stOpening) stOpening) with (withState p0 stOpening).
    rewrite (stf_thematic _ m0 _ Hi0 Hb0) by (rewrite <- Eln; apply Htb; exact Hc).
    change (state (withState p0 stOpening)) with stOpening.
    change ((stOpening =? stOpenMatched) || (stOpening =? stLineConsumed)) with false. cbv iota.
    change (withState (withState p0 stOpening) stOpening) with (withState p0 stOpening).
    rewrite Esl. reflexivity. }
  assert (Halq : atLineK q (mk ++ [32]) c r).
  { split; [change (li q) with (len mk + 1); lensimp; lia|change (line q) with ln; unfold ln; rewrite <- app_assoc; reflexivity]. }
  assert (Hlln : 2 < len ln) by (unfold ln; rewrite Emk; lensimp; pose proof (sl_len_nonneg mr); pose proof (sl_len_nonneg r); lia).
  assert (Ho : openNewBlocks p0 true = (true, withState q stOpening)).
  { unfold openNewBlocks. change (line p0) with ln.
    destruct (Z.eqb_spec (len ln) 0) as [E|_]; [lia|].
    assert (Hfl : exists f, length ln = S f) by (rewrite Eln; eexists; reflexivity). destruct Hfl as [f ->].
    cbn [opening_loop].
    change (containerKind p0) with documentKind.
    change ((documentKind =? ParagraphKind) || negb (acceptsLines documentKind)) with true. cbv iota.
    rewrite Ets. change (state q =? stLineConsumed) with false. cbv iota.
    change (containerKind q) with ListItemKind.
    change ((ListItemKind =? ParagraphKind) || negb (acceptsLines ListItemKind)) with true. cbv iota.
    rewrite (tryStarts_none2 q c r); [reflexivity| | |exact Hc|reflexivity|exact Hm].
    - apply (alk_indent q _ c r Halq (ps2_sptab c Hc)).
    - apply (alk_bai q _ c r Halq (ps2_sptab c Hc)). }
  rewrite Ho.
  assert (Halq' : atLineK (withState q stOpening) (mk ++ [32]) c r) by exact Halq.
  pose proof (sl_len_nonneg mk) as Hmk0.
  rewrite (addLineText_para_in_item (withState q stOpening) (mk ++ [32]) c r (ls + 0) (ls + len mk) (0 + len mk + 1) delim ltac:(lia) Halq' (ps2_ws c Hc) eq_refl eq_refl eq_refl).
  cbn [root setLP bkids rootDoc itemRoot state panicked withState q p0 lineStart li line]. unfold itemParaOpen. rewrite !Z.add_0_r, !Z.add_0_l. reflexivity.
Qed.

(* ---- end of input: list, item and paragraph are closed; the list stays tight ---- *)
Lemma closeBlock_list f src b e : isOpen b = true -> bkind b = ListKind ->
  closeBlock (S f) src b e =
  [match lastBlock (onCloseList (set_bend b e)) with
   | Some c => set_lastBlocks (onCloseList (set_bend b e)) (closeBlock f src c e)
   | None => onCloseList (set_bend b e) end].
Proof.
  intros Ho Hk. cbn [closeBlock]. rewrite Ho. cbn [negb].
  assert (E : bkind (set_bend b e) = ListKind) by (destruct b; exact Hk). rewrite E. reflexivity.
Qed.

Definition itemParaClosed (ls lm e ue delim : Z) : block :=
  listBlk ls e delim [itemBlk ls e (lm + 1) delim
    [markerBlk ls (ls + lm); Blk ParagraphKind (ls + (lm + 1)) e [] [mkI UnparsedKind (ls + (lm + 1)) ue] 0 0 0 false false]].

Lemma closeBlock_doc_item src ls lm ue delim e : let s := ls + (lm + 1) in
  0 <= s -> s < ue -> s < len src -> at_ src s <> 0 -> at_ src s <> 91 ->
  closeBlock 4 src (rootDoc [itemParaOpen ls lm ue delim]) e = [Blk documentKind 0 e [itemParaClosed ls lm e ue delim] [] 0 0 0 false false].
Proof.
  intros s H0 Hse Hlen Hnz H91.
  set (po := Blk ParagraphKind s (-1) [] [mkI UnparsedKind s ue] 0 0 0 false false).
  set (pc := Blk ParagraphKind s e [] [mkI UnparsedKind s ue] 0 0 0 false false).
  assert (Ho : onCloseParagraph src pc = [pc]).
  { apply (onCloseParagraph_nolabel src _ (mkI UnparsedKind s ue) []); [reflexivity|].
    cbn [pc bik mkI istart]. change (Inl UnparsedKind s ue 0 [] []) with (mkI UnparsedKind s ue).
    rewrite (current_unparsed src s ue H0 Hse Hlen Hnz). apply Z.eqb_neq. exact H91. }
  rewrite (closeBlock_plain 3 src (rootDoc [itemParaOpen ls lm ue delim]) e eq_refl eq_refl).
  change (lastBlock (set_bend (rootDoc [itemParaOpen ls lm ue delim]) e)) with (Some (itemParaOpen ls lm ue delim)). cbv iota.
  rewrite (closeBlock_list 2 src (itemParaOpen ls lm ue delim) e eq_refl eq_refl).
  set (it := itemBlk ls (-1) (lm + 1) delim [markerBlk ls (ls + lm); po]).
  change (onCloseList (set_bend (itemParaOpen ls lm ue delim) e)) with (listBlk ls e delim [it]).
  change (lastBlock (listBlk ls e delim [it])) with (Some it). cbv iota.
  rewrite (closeBlock_plain 1 src it e eq_refl eq_refl).
  change (lastBlock (set_bend it e)) with (Some po). cbv iota.
  rewrite (closeBlock_para 0 src po e eq_refl eq_refl). change (set_bend po e) with pc. rewrite Ho. reflexivity.
Qed.

Lemma processLine_eof_item st src ls lm ue delim : let s := ls + (lm + 1) in
  0 <= s -> s < ue -> s < len src -> at_ src s <> 0 -> at_ src s <> 91 ->
  processLine st [itemParaOpen ls lm ue delim] (len src) src = ([itemParaClosed ls lm (len src) ue delim], stDescending, 0).
Proof.
  intros s H0 Hse Hlen Hnz H91. unfold processLine, resetLP. rewrite sl_from_all.
  change (computeTabRem [] 0 0) with 0.
  set (p0 := {| source := src; root := Blk documentKind 0 (-1) [itemParaOpen ls lm ue delim] [] 0 0 0 false false; container := Some 0%nat;
               lineStart := len src; line := []; li := 0; col := 0; tabRem := 0; state := st; panicked := 0 |}).
  assert (Hd : descendOpenBlocks p0 = (false, setLP p0 (root p0) (Some 2%nat) 0 0 0 stDescending 0)) by reflexivity.
  rewrite Hd. set (q := setLP p0 (root p0) (Some 2%nat) 0 0 0 stDescending 0).
  change (negb (state q =? stDescendTerminated)) with true. cbv iota.
  unfold openNewBlocks. change (len (line q) =? 0) with true. cbv iota.
  change (bheight (root q)) with 4%nat. change (root q) with (rootDoc [itemParaOpen ls lm ue delim]).
  change (source q) with src. change (lineStart q) with (len src).
  rewrite (closeBlock_doc_item src ls lm ue delim (len src) H0 Hse Hlen Hnz H91).
  reflexivity.
Qed.

Theorem parseBlocks_item mk delim n c r : markerOK mk delim n ->
  let body := c :: r in let X := mk ++ 32 :: body ++ [10] in
  noEolB body -> noNul body -> paraStart2 c = true -> c <> 91 -> snd (parseListMarker (body ++ [10])) < 0 ->
  parseBlocks X = ([oneRoot X (itemParaClosed 0 (len mk) (len X) (len X) delim)], 0).
Proof.
  intros Hmk body X Heol Hnul Hc H91 Hm.
  pose proof Hmk as [Hhd Hplm Htb Hmeol Hmnul]. destruct Hhd as (m0 & mr & Emk & Hsp & _).
  assert (HnulX : noNul X).
  { unfold X. apply noNul_app; [exact Hmnul|]. constructor; [lia|]. apply noNul_app; [exact Hnul|constructor; [lia|constructor]]. }
  assert (HX : X = m0 :: (mr ++ 32 :: c :: r ++ [10])) by (unfold X; rewrite Emk; reflexivity).
  pose proof (sl_len_nonneg mk) as Hmk0. pose proof (sl_len_nonneg r) as Hr0.
  assert (HlenX : len X = len mk + 3 + len r) by (unfold X, body; lensimp; lia).
  assert (Hc0 : c <> 0) by (inversion Hnul; assumption).
  unfold parseBlocks. rewrite (pad_noNul X HnulX).
  assert (Hfuel : exists f, length X = S (S f)).
  { rewrite HX. cbn [length]. rewrite app_length. cbn [length]. eexists. rewrite Nat.add_succ_r. reflexivity. }
  destruct Hfuel as [f Hf]. rewrite Hf.
  rewrite sl_allBlocks_S. cbn [buf]. rewrite Hf. rewrite sl_nextBlock_start.
  change (3 + S (S f))%nat with (S (S (S (S (S f))))). rewrite sl_skipLoop_S. cbv zeta. cbn [buf bi boff bline pending].
  assert (Hle : lineEnd X 0 = len X).
  { replace X with ([] ++ (mk ++ 32 :: body) ++ [10]) by (unfold X; cbn [app]; rewrite <- app_assoc; reflexivity).
    change 0 with (len (@nil Z)) at 1. rewrite (lineEnd_lf [] (mk ++ 32 :: body) []).
    - lensimp. lia.
    - apply Forall_app. split; [exact Hmeol|]. constructor; [lia|exact Heol]. }
  rewrite Hle. destruct (Z.ltb_spec 0 (len X)); [|lia]. cbn [negb]. rewrite sl_upto_all.
  assert (Hnb : isBlankLine X = false).
  { rewrite HX. apply noEolB_blank_hd. unfold isSpTab in Hsp. unfold isSpaceTabOrLineEnding.
    apply orb_false_iff in Hsp. destruct Hsp as [-> ->]. cbn [orb].
    rewrite Emk in Hmeol. apply Forall_cons_iff in Hmeol. destruct Hmeol as [[H10 H13] _].
    destruct (Z.eqb_spec m0 10); [contradiction|]. destruct (Z.eqb_spec m0 13); [contradiction|]. reflexivity. }
  rewrite Hnb.
  rewrite sl_lineLoop_S. cbn [buf bi boff bline pending]. rewrite sl_upto_all.
  rewrite (processLine_item_first X 0 mk delim n c (r ++ [10]) Hmk eq_refl Hc Hm ltac:(lia)).
  change (negb (0 =? 0)) with false. cbv iota.
  change (makeRoot [itemParaOpen 0 (len mk) (0 + len (mk ++ 32 :: c :: r ++ [10])) delim] {| buf := X; bi := len X; boff := 0; bline := 1; pending := [] |})
    with (@None (rootB * bpst)). cbv iota.
  rewrite sl_lineLoop_S. cbn [buf bi boff bline pending].
  rewrite lineEnd_end. rewrite sl_upto_all. change (mk ++ 32 :: c :: r ++ [10]) with X. rewrite Z.add_0_l.
  assert (Hat : at_ X (0 + (len mk + 1)) = c).
  { unfold X. replace (mk ++ 32 :: body ++ [10]) with ((mk ++ [32]) ++ c :: (r ++ [10])) by (rewrite <- app_assoc; reflexivity).
    replace (0 + (len mk + 1)) with (len (mk ++ [32])) by (lensimp; lia). apply sl_at_app_len. }
  rewrite (processLine_eof_item stOpenMatched X 0 (len mk) (len X) delim); [|lia|lia|lia|rewrite Hat; exact Hc0|rewrite Hat; exact H91].
  change (negb (0 =? 0)) with false. cbv iota. unfold makeRoot, itemParaClosed, listBlk. unfold isOpen. cbn [bend buf bi boff bline pending].
  destruct (Z.ltb_spec (len X) 0); [lia|]. rewrite sl_upto_all, sl_from_all, Z.sub_diag.
  rewrite (unpadded_noNul X HnulX), (fillNulls_noNul X HnulX).
  rewrite sl_allBlocks_S. cbn [buf length Nat.add map app]. rewrite nextBlock_eof.
  unfold oneRoot. rewrite Z.add_0_l. reflexivity.
Qed.

Definition listOf (e delim : Z) (kids : list block) : block := listBlk 0 e delim kids.
Definition itemOf (e ind delim : Z) (kids : list block) : block := itemBlk 0 e ind delim kids.

Theorem parseFull_item mk delim n t : markerOK mk delim n -> okText true t = true ->
  let L := tline t in let X := mk ++ 32 :: L in
  let para := paraOf (len L) (tokSpec isASCIIPunctuation 0 0 t) in
  parseFull L = ([oneRoot L para], 0) /\
  parseFull X = ([oneRoot X (listOf (len X) delim [itemOf (len X) (len mk + 1) delim [markerBlk 0 (len mk); shiftB (len mk + 1) para]])], 0).
Proof.
  intros Hmk Hok L X para. split; [apply parseFull_esc; exact Hok|].
  destruct (esc_head t Hok) as (c & r & He & Hc & H91 & Hm).
  pose proof (esc_bytes t (okText_bytes t true Hok)) as Hb.
  assert (Hpb : parseBlocks X = ([oneRoot X (itemParaClosed 0 (len mk) (len X) (len X) delim)], 0)).
  { unfold X, L, tline. rewrite He in *. apply (parseBlocks_item mk delim n c r Hmk).
    - apply textBytes_noEol. exact Hb.
    - apply textBytes_noNul. exact Hb.
    - apply paraStartByte_2. exact Hc.
    - exact H91.
    - exact Hm. }
  unfold parseFull. rewrite Hpb.
  cbn [fold_left map oneRoot rb_blk rb_src rb_line rb_start rb_end].
  change (bheight (itemParaClosed 0 (len mk) (len X) (len X) delim)) with 3%nat.
  change (extractB 3 (itemParaClosed 0 (len mk) (len X) (len X) delim) []) with (@nil bytes).
  set (pc := Blk ParagraphKind (0 + (len mk + 1)) (len X) [] [mkI UnparsedKind (0 + (len mk + 1)) (len X)] 0 0 0 false false).
  assert (Hrw : rewriteB 3 X [] (itemParaClosed 0 (len mk) (len X) (len X) delim) =
                listOf (len X) delim [itemOf (len X) (len mk + 1) delim [markerBlk 0 (0 + len mk); set_bik pc (parseInlines X [] pc)]]) by reflexivity.
  rewrite Hrw.
  assert (Hpre : 0 + (len mk + 1) = len (mk ++ [32])) by (rewrite sl_len_app; change (len [32]) with 1; lia).
  assert (HXe : X = (mk ++ [32]) ++ genEsc isASCIIPunctuation t ++ [10]) by (unfold X, L, tline; rewrite <- app_assoc; reflexivity).
  assert (Hbik : bik pc = [mkI UnparsedKind (len (mk ++ [32])) (len X)]) by (unfold pc; cbn [bik]; rewrite Hpre; reflexivity).
  rewrite (parseInlines_gen isASCIIPunctuation eq_refl t (mk ++ [32]) X [] pc (okText_punct t true Hok) HXe Hbik).
  unfold para. rewrite shiftB_paraOf by apply sl_len_nonneg.
  pose proof (sl_len_nonneg mk) as Hmk0.
  rewrite <- (tokSpec_shift isASCIIPunctuation (len mk + 1) t 0 0) by lia.
  assert (HlenX : len X = len L + (len mk + 1)) by (unfold X; lensimp; lia).
  rewrite <- HlenX, <- Hpre. unfold pc. cbn [set_bik]. rewrite Z.add_0_l. reflexivity.
Qed.
Print Assumptions parseFull_item.

(* ---- rendering the one-item list (tight: no <p>) ---- *)
Lemma render_item_para c X e0 nodes t : Forall isTextI nodes -> spansOf X nodes = t ->
  renderB 1 c [] X true (Blk ParagraphKind e0 (len X) [] nodes 0 0 0 false false) = escapeHTML t.
Proof.
  intros HT Hsp. cbn [renderB bkind bkids bik]. change (ParagraphKind =? ParagraphKind) with true. cbv iota.
  rewrite (kidsI_texts c [] X nodes HT), Hsp. reflexivity.
Qed.

Lemma renderB_item f c refs src pt b : bkind b = ListItemKind -> bkids b <> [] ->
  renderB (S f) c refs src pt b = openTag c [108;105] ++ flat_map (renderB f c refs src (isTightList b)) (bkids b) ++ closeTag c [108;105].
Proof.
  intros Hk Hne. cbn [renderB]. rewrite Hk. change (ListItemKind =? ParagraphKind) with false.
  change (ListItemKind =? ThematicBreakKind) with false. change (isHeading ListItemKind) with false. change (isCode ListItemKind) with false.
  change (ListItemKind =? BlockQuoteKind) with false. change (ListItemKind =? ListKind) with false. change (ListItemKind =? ListItemKind) with true.
  cbv iota. destruct (bkids b); [contradiction|reflexivity].
Qed.
Lemma renderB_list f c refs src pt b : bkind b = ListKind -> bkids b <> [] ->
  renderB (S f) c refs src pt b =
  if isOrdered b then
    openTagAttr c [111;108] ++
    (let n := match bkids b with it :: _ => listItemNumber src it | [] => -1 end in
     if (0 <=? n) && negb (n =? 1) then [32;115;116;97;114;116;61;34] ++ decimal 12 n ++ [34] else []) ++ [62] ++
    flat_map (renderB f c refs src (isTightList b)) (bkids b) ++ closeTag c [111;108]
  else openTag c [117;108] ++ flat_map (renderB f c refs src (isTightList b)) (bkids b) ++ closeTag c [117;108].
Proof.
  intros Hk Hne. cbn [renderB]. rewrite Hk. change (ListKind =? ParagraphKind) with false.
  change (ListKind =? ThematicBreakKind) with false. change (isHeading ListKind) with false. change (isCode ListKind) with false.
  change (ListKind =? BlockQuoteKind) with false. change (ListKind =? ListKind) with true.
  cbv iota. destruct (bkids b); [contradiction|reflexivity].
Qed.

Lemma renderDoc_item c mk delim n t : filterOn c = false -> markerOK mk delim n -> okText true t = true ->
  let X := mk ++ 32 :: tline t in
  let item := itemOf (len X) (len mk + 1) delim [markerBlk 0 (len mk); shiftB (len mk + 1) (paraOf (len (tline t)) (tokSpec isASCIIPunctuation 0 0 t))] in
  renderDoc c X =
  (if isOrdered (listOf (len X) delim [item])
   then [60;111;108] ++ (let k := listItemNumber X item in
                         if (0 <=? k) && negb (k =? 1) then [32;115;116;97;114;116;61;34] ++ decimal 12 k ++ [34] else []) ++ [62]
   else [60;117;108;62]) ++
  [60;108;105;62] ++ escapeHTML t ++ [60;47;108;105;62] ++
  (if isOrdered (listOf (len X) delim [item]) then [60;47;111;108;62] else [60;47;117;108;62]).
Proof.
  intros Hc Hmk Hok X item. destruct (parseFull_item mk delim n t Hmk Hok) as [_ HX]. cbv zeta in HX. fold X in HX.
  unfold renderDoc. rewrite HX. fold item.
  cbn [fold_left map oneRoot rb_blk rb_src].
  set (lst := listOf (len X) delim [item]).
  change (bheight lst) with 3%nat. change (extractDefs 3 X lst []) with (@nil (bytes * linkDef)).
  cbn [joinBlocks].
  pose proof (sl_len_nonneg mk) as Hmk0.
  set (nodes := tokSpec isASCIIPunctuation 0 0 t) in *.
  assert (Hsh : map (shiftI (len mk + 1)) nodes = tokSpec isASCIIPunctuation (0 + (len mk + 1)) (0 + (len mk + 1)) t).
  { unfold nodes. symmetry. apply (tokSpec_shift isASCIIPunctuation (len mk + 1) t 0 0). lia. }
  assert (Hpara : shiftB (len mk + 1) (paraOf (len (tline t)) nodes) =
                  Blk ParagraphKind (0 + (len mk + 1)) (len X) [] (tokSpec isASCIIPunctuation (0 + (len mk + 1)) (0 + (len mk + 1)) t) 0 0 0 false false).
  { rewrite shiftB_paraOf by apply sl_len_nonneg. rewrite Hsh. f_equal. unfold X. lensimp. lia. }
  assert (Hkp : renderB 1 c [] X true (shiftB (len mk + 1) (paraOf (len (tline t)) nodes)) = escapeHTML t).
  { rewrite Hpara. apply render_item_para; [apply tokSpec_isText|].
    replace (0 + (len mk + 1)) with (len (mk ++ [32])) by (rewrite sl_len_app; change (len [32]) with 1; lia).
    assert (HXe : X = (mk ++ [32]) ++ [] ++ genEsc isASCIIPunctuation t ++ [10]) by (unfold X, tline; rewrite <- app_assoc; reflexivity).
    pose proof (tokSpec_spans isASCIIPunctuation t (mk ++ [32]) [] [10] X HXe) as Hs.
    rewrite sl_len_nil, Z.add_0_r in Hs. exact Hs. }
  assert (Hitem : renderB 2 c [] X true item = [60;108;105;62] ++ escapeHTML t ++ [60;47;108;105;62]).
  { rewrite (renderB_item 1 c [] X true item eq_refl ltac:(discriminate)).
    change (isTightList item) with true. unfold item at 1. unfold itemOf, itemBlk. cbn [bkids flat_map].
    rewrite Hkp. change (renderB 1 c [] X true (markerBlk 0 (len mk))) with (@nil Z).
    rewrite (openTag_nf c _ Hc), (closeTag_nf c _ Hc). cbn [app]. rewrite app_nil_r. reflexivity. }
  rewrite (renderB_list 2 c [] X false lst eq_refl ltac:(discriminate)).
  change (isTightList lst) with true. change (bkids lst) with [item]. cbn [flat_map]. rewrite app_nil_r. rewrite Hitem. cbv zeta.
  destruct (isOrdered lst).
  - rewrite (openTagAttr_nf c _ Hc), (closeTag_nf c _ Hc). cbn [app]. rewrite <- !app_assoc. cbn [app]. reflexivity.
  - rewrite (openTag_nf c _ Hc), (closeTag_nf c _ Hc). cbn [app]. rewrite <- !app_assoc. cbn [app]. reflexivity.
Qed.

(* ---- the markers ---- *)
Lemma markerOK_bullet b : b = 45 \/ b = 43 \/ b = 42 -> markerOK [b] b 0.
Proof.
  intros Hb. constructor.
  - exists b, []. split; [reflexivity|]. destruct Hb as [-> | [-> | ->]]; repeat split; try reflexivity; lia.
  - intros rest. cbn [app]. unfold parseListMarker. destruct Hb as [-> | [-> | ->]]; reflexivity.
  - intros c r Hc. cbn [app]. unfold parseThematicBreak.
    assert (Hne : (c =? 45) || (c =? 95) || (c =? 42) = false).
    { rewrite (ps2_ne c 45 Hc), (ps2_ne c 95 Hc), (ps2_ne c 42 Hc) by (cbn; tauto). reflexivity. }
    destruct Hb as [-> | [-> | ->]]; cbn [tb_loop Z.eqb Pos.eqb orb isSpaceTabOrLineEnding]; rewrite ?Hne, ?(ps2_ws c Hc); cbn; lia.
  - destruct Hb as [-> | [-> | ->]]; repeat constructor; lia.
  - destruct Hb as [-> | [-> | ->]]; repeat constructor; lia.
Qed.

Lemma markerOK_ordered dg d : 48 <= dg <= 57 -> d = 46 \/ d = 41 -> markerOK [dg; d] d (dg - 48).
Proof.
  intros Hdg Hd.
  assert (Hdig : isASCIIDigit dg = true) by (unfold isASCIIDigit; apply andb_true_iff; split; apply Z.leb_le; lia).
  assert (Hnb : (dg =? 45) || (dg =? 43) || (dg =? 42) = false).
  { destruct (Z.eqb_spec dg 45); [lia|]. destruct (Z.eqb_spec dg 43); [lia|]. destruct (Z.eqb_spec dg 42); [lia|]. reflexivity. }
  constructor.
  - exists dg, [d]. split; [reflexivity|]. unfold isSpTab.
    destruct (Z.eqb_spec dg 32); [lia|]. destruct (Z.eqb_spec dg 9); [lia|]. repeat split; try reflexivity; lia.
  - intros rest. cbn [app]. unfold parseListMarker. rewrite Hnb, Hdig. cbn [lm_digits].
    change (10 <=? 1) with false. cbn [orb].
    destruct (Z.leb_spec (len (dg :: d :: 32 :: rest)) 1) as [H|_]; [revert H; lensimp; pose proof (sl_len_nonneg rest); lia|].
    change (at_ (dg :: d :: 32 :: rest) 1) with d. change (from_ (dg :: d :: 32 :: rest) (1 + 1)) with (32 :: rest).
    destruct Hd as [-> | ->]; reflexivity.
  - intros c r Hc. cbn [app]. unfold parseThematicBreak. cbn [tb_loop].
    destruct (Z.eqb_spec dg 45); [lia|]. destruct (Z.eqb_spec dg 95); [lia|]. destruct (Z.eqb_spec dg 42); [lia|]. cbn [orb].
    unfold isSpaceTabOrLineEnding. destruct (Z.eqb_spec dg 32); [lia|]. destruct (Z.eqb_spec dg 9); [lia|].
    destruct (Z.eqb_spec dg 10); [lia|]. destruct (Z.eqb_spec dg 13); [lia|]. cbn; lia.
  - constructor; [lia|]. constructor; [destruct Hd as [-> | ->]; lia|constructor].
  - constructor; [lia|]. constructor; [destruct Hd as [-> | ->]; lia|constructor].
Qed.

(* ---- C09, list-item clause, one text line ---- *)
Theorem C09_bullet_item c b t : filterOn c = false -> b = 45 \/ b = 43 \/ b = 42 -> wfText t ->
  let L := tline t in let X := [b; 32] ++ L in
  (exists para, parseFull L = ([oneRoot L para], 0) /\
     parseFull X = ([oneRoot X (listOf (len X) b [itemOf (len X) 2 b [markerBlk 0 1; shiftB 2 para]])], 0)) /\
  renderDoc c X = [60;117;108;62;60;108;105;62] ++ escapeHTML t ++ [60;47;108;105;62;60;47;117;108;62].
Proof.
  intros Hc Hb Hw L X. apply okText_iff_wfText in Hw. pose proof (markerOK_bullet b Hb) as Hmk. split.
  - destruct (parseFull_item [b] b 0 t Hmk Hw) as [H1 H2]. eexists. split; [exact H1|exact H2].
  - pose proof (renderDoc_item c [b] b 0 t Hc Hmk Hw) as Hr. cbv zeta in Hr. change ([b] ++ 32 :: tline t) with X in Hr. rewrite Hr.
    assert (Ho : forall k, isOrdered (listOf (len X) b k) = false).
    { intros k. unfold isOrdered, listOf, listBlk. cbn [bchar]. destruct Hb as [-> | [-> | ->]]; reflexivity. }
    rewrite !Ho. cbn [app]. rewrite <- ?app_assoc. reflexivity.
Qed.

Theorem C09_ordered_item c dg d t : filterOn c = false -> 48 <= dg <= 57 -> d = 46 \/ d = 41 -> wfText t ->
  let L := tline t in let X := [dg; d; 32] ++ L in
  (exists para, parseFull L = ([oneRoot L para], 0) /\
     parseFull X = ([oneRoot X (listOf (len X) d [itemOf (len X) 3 d [markerBlk 0 2; shiftB 3 para]])], 0)) /\
  renderDoc c X = [60;111;108] ++ (if dg =? 49 then [] else [32;115;116;97;114;116;61;34] ++ [dg] ++ [34]) ++ [62] ++
                  [60;108;105;62] ++ escapeHTML t ++ [60;47;108;105;62;60;47;111;108;62].
Proof.
  intros Hc Hdg Hd Hw L X. apply okText_iff_wfText in Hw. pose proof (markerOK_ordered dg d Hdg Hd) as Hmk. split.
  - destruct (parseFull_item [dg; d] d (dg - 48) t Hmk Hw) as [H1 H2]. eexists. split; [exact H1|exact H2].
  - pose proof (renderDoc_item c [dg; d] d (dg - 48) t Hc Hmk Hw) as Hr. cbv zeta in Hr. change ([dg; d] ++ 32 :: tline t) with X in Hr. rewrite Hr.
    assert (Ho : forall k, isOrdered (listOf (len X) d k) = true).
    { intros k. unfold isOrdered, listOf, listBlk. cbn [bchar]. destruct Hd as [-> | ->]; reflexivity. }
    rewrite !Ho.
    set (item := itemOf (len X) (len [dg; d] + 1) d _).
    assert (Hn : listItemNumber X item = dg - 48).
    { unfold listItemNumber, item, itemOf, itemBlk, isOrdered, markerBlk. cbn [bkind bkids bchar bstart bend].
      assert (Eo : (d =? 46) || (d =? 41) = true) by (destruct Hd as [-> | ->]; reflexivity).
      rewrite Eo. change (ListItemKind =? ListItemKind) with true. change (ListMarkerKind =? ListMarkerKind) with true. cbn [negb orb]. cbv iota.
      assert (Hs : sub X 0 (len [dg; d]) = [dg; d]) by (unfold X; change ([dg; d; 32] ++ L) with ([dg; d] ++ (32 :: L)); apply sl_sub_prefix).
      rewrite Hs. unfold parseListMarker.
      assert (Hnb : (dg =? 45) || (dg =? 43) || (dg =? 42) = false).
      { destruct (Z.eqb_spec dg 45); [lia|]. destruct (Z.eqb_spec dg 43); [lia|]. destruct (Z.eqb_spec dg 42); [lia|]. reflexivity. }
      assert (Hdig : isASCIIDigit dg = true) by (unfold isASCIIDigit; apply andb_true_iff; split; apply Z.leb_le; lia).
      rewrite Hnb, Hdig. cbn [lm_digits]. change (10 <=? 1) with false. change (len [dg; d] <=? 1) with false. cbn [orb].
      change (at_ [dg; d] 1) with d. destruct Hd as [-> | ->]; reflexivity. }
    cbv zeta. rewrite Hn.
    destruct (Z.leb_spec 0 (dg - 48)); [|lia]. cbn [andb].
    destruct (Z.eqb_spec dg 49) as [->|N49].
    + change (49 - 48 =? 1) with true. cbn [negb app]. rewrite <- ?app_assoc. reflexivity.
    + destruct (Z.eqb_spec (dg - 48) 1); [lia|]. cbn [negb].
      assert (Hdec : decimal 12 (dg - 48) = [dg]).
      { cbn [decimal]. destruct (Z.ltb_spec (dg - 48) 10); [|lia]. f_equal. lia. }
      rewrite Hdec. cbn [app]. rewrite <- ?app_assoc. reflexivity.
Qed.
Print Assumptions C09_bullet_item.
Print Assumptions C09_ordered_item.

(* ---------------------------------------------------------------------------------------------- *)
(* 6. the statements in the task's form, and examples                                              *)
(* ---------------------------------------------------------------------------------------------- *)
Theorem C09_quote c t : filterOn c = false -> wfText t ->
  let L := tline t in let X := [62; 32] ++ L in
  (exists para, parseFull L = ([oneRoot L para], 0) /\ parseFull X = ([oneRoot X (quoteOf (len X) [shiftB 2 para])], 0)) /\
  renderDoc c X = [60;98;108;111;99;107;113;117;111;116;101;62] ++ renderDoc c L ++ [60;47;98;108;111;99;107;113;117;111;116;101;62].
Proof.
  intros Hc Hw L X. apply okText_iff_wfText in Hw. split.
  - destruct (parseFull_quote t Hw) as [H1 H2]. eexists. split; [exact H1|exact H2].
  - apply C09_quote_render; assumption.
Qed.
Print Assumptions C09_quote.

Definition ex_nest_t : bytes := [72;105;33;32;50;46;53;32;42;120;42;32;60;38;62;32;91;97;93;40;98;41;32;92;32;35;43].   (* Hi! 2.5 *x* <&> [a](b) \ #+ *)
Example ex_quote :
  renderDoc c0 ([62; 32] ++ tline ex_nest_t) =
  [60;98;108;111;99;107;113;117;111;116;101;62] ++ renderDoc c0 (tline ex_nest_t) ++ [60;47;98;108;111;99;107;113;117;111;116;101;62]
  /\ match fst (parseFull ([62; 32] ++ tline ex_nest_t)), fst (parseFull (tline ex_nest_t)) with
     | [rq], [rp] => match bkids (rb_blk rq) with [k] => (bkind (rb_blk rq) =? BlockQuoteKind) && (bstart k =? 2) && (len (bik k) =? len (bik (rb_blk rp))) | _ => false end
     | _, _ => false end = true.
Proof. vm_compute. split; reflexivity. Qed.
Example ex_items :
  renderDoc c0 ([45; 32] ++ tline ex_nest_t) = [60;117;108;62;60;108;105;62] ++ escapeHTML ex_nest_t ++ [60;47;108;105;62;60;47;117;108;62] /\
  renderDoc c0 ([55; 41; 32] ++ tline ex_nest_t) =
    [60;111;108;32;115;116;97;114;116;61;34;55;34;62;60;108;105;62] ++ escapeHTML ex_nest_t ++ [60;47;108;105;62;60;47;111;108;62].
Proof. vm_compute. split; reflexivity. Qed.
