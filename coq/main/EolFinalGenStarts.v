From Coq Require Import List ZArith Lia Bool.
Import ListNotations.
Require Import Base Tree Rdr Link Collect Html Recog LP Rules Starts Driver Rec16 Rec17 Rec18 RecBounds Cursor CursorX L2Kind L2CC SpanSmall NoPanic12
  ShEnv GramTree GramLP GramLP2 EolInv EolCRBytes EolHtmlInv EolCRLFSimTree EolCRLFSimFuelWf Props LADef EolFinalDefs EolFinalSimBytes EolFinalSimTree EolFinalGenOcp EolFinalGenTree EolFinalGenClose EolFinalGenInv
  EolFinalGenLP EolFinalGenLP2 EolFinalGenLP3 EolFinalGenRules.
Open Scope Z_scope.

Section GenStarts.
Context {HO : OcpFinC}.

(* C14 (i), final newline: the eight block starts in the two runs. *)

(* ---- the single-run bundle through the operations ---- *)
Lemma Sp_mk L p : G p -> ccP p -> QP L p -> Sp L p. Proof. intros A B C. split; [exact A|split; [exact B|exact C]]. Qed.
Lemma Sp_consumeIndent L p n : Sp L p -> Sp L (consumeIndent p n).
Proof. intros (A & B & C). apply Sp_mk; [apply G_consumeIndent, A|apply ccP_consumeIndent, B|apply QP_consumeIndent, C]. Qed.
Lemma Sp_advance L p n : Sp L p -> 0 <= n -> li p + n <= len (line p) -> Sp L (advance p n).
Proof. intros (A & B & C) Hn Hb. apply Sp_mk; [apply (G_advance p n A Hn Hb)|apply ccP_advance, B|apply QP_advance, C]. Qed.
Lemma Sp_consumeLine L p : Sp L p -> Sp L (consumeLine p).
Proof. intros (A & B & C). apply Sp_mk; [apply G_consumeLine, A|apply ccP_consumeLine, B|apply QP_consumeLine, C]. Qed.
Lemma Sp_openBlock L p k : Sp L p -> (k <> ListItemKind \/ canContain (containerKind p) k = true) -> Sp L (openBlock p k).
Proof. intros (A & B & C) Hk. apply Sp_mk; [apply (G_openBlock p k A)|apply ccP_openBlock; assumption|apply QP_openBlock, C]. Qed.
Lemma Sp_endBlock L p : Sp L p -> Sp L (endBlock p).
Proof. intros (A & B & C). apply Sp_mk; [apply (G_endBlock p A)|apply ccP_endBlock, B|apply QP_endBlock, C]. Qed.
Lemma Sp_flag L p f : (forall b, cc (f b) = cc b /\ bkind (f b) = bkind b /\ forall SS src, qB2 L SS src (f b) = qB2 L SS src b) -> Sp L p -> Sp L (updCont p f).
Proof.
  intros Hf (A & B & C). apply Sp_mk.
  - apply (G_tree p); [repeat split|reflexivity|exact A].
  - apply ccP_updCont; [exact B|]. intros x _ Hx. destruct (Hf x) as (E1 & E2 & _). rewrite E1, E2. tauto.
  - apply QP_updCont; [exact C|]. intros SS x Hx. destruct (Hf x) as (_ & _ & E3). rewrite E3. exact Hx.
Qed.
Lemma flag_bn L v b : cc (set_bn b v) = cc b /\ bkind (set_bn b v) = bkind b /\ forall SS src, qB2 L SS src (set_bn b v) = qB2 L SS src b. Proof. destruct b; repeat split. Qed.
Lemma flag_bchar L v b : cc (set_bchar b v) = cc b /\ bkind (set_bchar b v) = bkind b /\ forall SS src, qB2 L SS src (set_bchar b v) = qB2 L SS src b. Proof. destruct b; repeat split. Qed.
Lemma flag_bindent L v b : cc (set_bindent b v) = cc b /\ bkind (set_bindent b v) = bkind b /\ forall SS src, qB2 L SS src (set_bindent b v) = qB2 L SS src b. Proof. destruct b; repeat split. Qed.
Lemma Sp_collectInline L p kind n K : Sp L p -> ckind p K -> isParaK K = false -> kind <> SoftLineBreakKind ->
  0 <= n -> li p + indentLength (rest p) + n <= len (line p) -> Sp L (collectInline p kind n).
Proof. intros (A & B & C) Hk NK Nk Hn Hb. apply Sp_mk; [apply G_collectInline; assumption|apply ccP_collectInline, B|apply (QP_collectInline L p kind n K); assumption]. Qed.

Lemma li_openBlock p k : li (openBlock p k) = li p /\ line (openBlock p k) = line p.
Proof.
  unfold openBlock. destruct (_ || _); [split; reflexivity|]. cbv zeta. cbn [li line withCont updCont withRoot closeLastChildAt setLP].
  rewrite li_openBlock_up. pose proof (env_openBlock_up (S (cdepth (if state p =? stOpening then withState p stOpenMatched else p))) (if state p =? stOpening then withState p stOpenMatched else p) k) as E.
  apply env_fields in E. destruct E as (_ & _ & ->). destruct (state p =? stOpening); split; reflexivity.
Qed.
Lemma FQ_consumeLine_q L p q : FQ L p q -> li (consumeLine q) = len (line p) + 1.
Proof.
  intros H. pose proof (FQ_li L p q H) as Hli. assert (Hq : 0 <= li q <= len (line q)).
  { destruct H as (_ & _ & _ & _ & _ & _ & _ & E & _ & Li & Hcu & _). rewrite E, fs_len_app, fs_len1. destruct Hcu as [(-> & _)|[_ ->]]; lia. }
  destruct (consumeLine_shape q Hq) as (c2 & t2 & ->). cbn [li]. assert (E : line q = line p ++ [10]) by apply H. rewrite E, fs_len_app, fs_len1. reflexivity.
Qed.

Definition sOK (L : Z) (f : lp -> lp) : Prop := forall p q, FQ L p q -> li q = li p -> Sp L p -> st_open p ->
  FQ L (f p) (f q) /\ (state (f p) <> stLineConsumed -> li (f q) = li (f p)).
Lemma sOK_id L p q : FQ L p q -> li q = li p -> FQ L p q /\ (state p <> stLineConsumed -> li q = li p).
Proof. intros H E. split; [exact H|intros _; exact E]. Qed.

(* the common prelude ConsumeIndent(Indent()); openBlock(kind) *)
Lemma FQ_prelude L p q kind : FQ L p q -> li q = li p -> Sp L p -> st_open p -> kind <> ListItemKind ->
  let p2 := openBlock (consumeIndent p (indent p)) kind in let q2 := openBlock (consumeIndent q (indent p)) kind in
  FQ L p2 q2 /\ li q2 = li p2 /\ Sp L p2 /\ sM p2 /\ ckind p2 kind /\ rest p2 = bytesAfterIndent p /\ li p2 = li p + indentLength (rest p) /\ line p2 = line p.
Proof.
  intros H Es HS Hst Nk. cbv zeta. destruct (after_indent L p q H Es (Sp_G L p HS)) as (H1 & Es1 & G1 & R1 & L1 & E1 & _). cbv zeta in H1, Es1, G1, R1, L1, E1.
  pose proof (Sp_consumeIndent L p (indent p) HS) as S1. pose proof (st_open_consumeIndent p (indent p) Hst) as O1.
  set (p1 := consumeIndent p (indent p)) in *. set (q1 := consumeIndent q (indent p)) in *. clearbody p1 q1.
  destruct (li_openBlock p1 kind) as [A1 A2]. destruct (li_openBlock q1 kind) as [B1 _].
  split; [apply FQ_openBlock; [exact H1|exact Es1|apply (Sp_ccP L p1 S1)|apply (Sp_QP L p1 S1)]|].
  split; [rewrite A1, B1; exact Es1|]. split; [apply Sp_openBlock; [exact S1|left; exact Nk]|]. split; [apply sM_openBlock, O1|].
  split; [apply ckind_openBlock, O1|]. split; [|split; [rewrite A1; exact L1|rewrite A2; exact E1]].
  unfold rest. rewrite A1, A2. exact R1.
Qed.

Lemma FQ_startBlockQuote L : sOK L startBlockQuote.
Proof.
  intros p q H Es HS Hst. unfold startBlockQuote. cbv zeta. rewrite (FQ_indent L p q H). destruct (_ <=? _); [apply sOK_id; assumption|].
  rewrite (ext_hbp1 _ _ 62 ltac:(discriminate) (proj1 (FQ_bai L p q H))).
  destruct (hasBytePrefix (bytesAfterIndent p) [62]) eqn:Hp; cbn [negb]; [|apply sOK_id; assumption].
  destruct (FQ_prelude L p q BlockQuoteKind H Es HS Hst ltac:(discriminate)) as (H2 & Es2 & S2 & M2 & _ & R2 & L2 & E2). cbv zeta in H2, Es2, S2, M2, R2, L2, E2.
  assert (Hne : bytesAfterIndent p <> []) by (intros X; rewrite X in Hp; discriminate).
  pose proof (bai_pos L p q H Hne) as Hpos.
  set (p2 := openBlock (consumeIndent p (indent p)) BlockQuoteKind) in *. set (q2 := openBlock (consumeIndent q (indent p)) BlockQuoteKind) in *. clearbody p2 q2.
  destruct (FQ_advance' L p2 q2 1 H2 ltac:(rewrite L2, E2; lia)) as [H3 Hs3]. specialize (Hs3 Es2).
  rewrite (FQ_indent L _ _ H3). destruct (0 <? _).
  - destruct (FQ_consumeIndent' L _ _ 1 H3) as [H4 Hs4]. split; [exact H4|intros _; apply Hs4, Hs3].
  - split; [exact H3|intros _; exact Hs3].
Qed.

(* results of the recognizers on the bytes after the indent lie inside the line *)
Lemma FQ_bai_recog L p q : FQ L p q ->
  parseThematicBreak (bytesAfterIndent q) = parseThematicBreak (bytesAfterIndent p) /\ parseATXHeading (bytesAfterIndent q) = parseATXHeading (bytesAfterIndent p) /\
  parseSetextHeadingUnderline (bytesAfterIndent q) = parseSetextHeadingUnderline (bytesAfterIndent p) /\ parseCodeFence (bytesAfterIndent q) = parseCodeFence (bytesAfterIndent p) /\
  parseListMarker (bytesAfterIndent q) = parseListMarker (bytesAfterIndent p).
Proof. intros H. apply ext_recog, (FQ_bai L p q H). Qed.

Lemma noKids_atx k : canContain ATXHeadingKind k = false. Proof. reflexivity. Qed.
Lemma noKids_thematic k : canContain ThematicBreakKind k = false. Proof. reflexivity. Qed.
Lemma noKids_setext k : canContain SetextHeadingKind k = false. Proof. reflexivity. Qed.

(* ConsumeLine; EndBlock on a leaf block of kind K *)
Lemma FQ_consume_end L p q K : FQ L p q -> Sp L p -> st_open p -> ckind p K -> (forall k, canContain K k = false) -> K <> ListMarkerKind ->
  FQ L (endBlock (consumeLine p)) (endBlock (consumeLine q)) /\ (state (endBlock (consumeLine p)) <> stLineConsumed -> li (endBlock (consumeLine q)) = li (endBlock (consumeLine p))).
Proof.
  intros H HS Hst Hk Hn N. destruct (FQ_consumeLine L p q H) as [H1 E1]. pose proof (FQ_consumeLine_q L p q H) as E1'.
  pose proof (Sp_consumeLine L p HS) as S1.
  split.
  - apply FQ_endBlock; [exact H1|apply (Sp_ccP L _ S1)|apply (Sp_QP L _ S1)|]. right.
    pose proof (env_consumeLine p) as Ee. apply env_fields in Ee. destruct Ee as (_ & _ & El). rewrite El.
    split; [exact E1|split; [exact E1'|]].
    apply (lmB_container (consumeLine p) K); [apply (Sp_ccP L _ S1)|eapply ckind_same; [apply same_consumeLine|exact Hk]|exact Hn|exact N].
  - intros X. exfalso. apply X. apply sC_endBlock, sC_consumeLine, Hst.
Qed.

Lemma FQ_startATX L : sOK L startATX.
Proof.
  intros p q H Es HS Hst. unfold startATX. cbv zeta. rewrite (FQ_indent L p q H). destruct (_ <=? _); [apply sOK_id; assumption|].
  destruct (FQ_bai_recog L p q H) as (_ & Ra & _). rewrite Ra.
  destruct (parseATXHeading (bytesAfterIndent p)) as [[level cs] ce] eqn:Ea. destruct (Z.ltb_spec level 1) as [|Hlv]; [apply sOK_id; assumption|].
  destruct (atx_bounds _ _ _ _ Ea Hlv) as (Bc & Be & Bn).
  pose proof (bai_len L p q H) as Hbl.
  destruct (FQ_prelude L p q ATXHeadingKind H Es HS Hst ltac:(discriminate)) as (H2 & Es2 & S2 & M2 & K2 & R2 & L2 & E2). cbv zeta in H2, Es2, S2, M2, K2, R2, L2, E2.
  set (p2 := openBlock (consumeIndent p (indent p)) ATXHeadingKind) in *. set (q2 := openBlock (consumeIndent q (indent p)) ATXHeadingKind) in *. clearbody p2 q2.
  assert (H3 : FQ L (updCont p2 (fun b => set_bn b level)) (updCont q2 (fun b => set_bn b level))) by (apply FQ_flag; [intros b; apply F_set_bn|exact H2|apply (Sp_cc L p2 S2)]).
  pose proof (Sp_flag L p2 (fun b => set_bn b level) (flag_bn L level) S2) as S3.
  assert (K3 : ckind (updCont p2 (fun b => set_bn b level)) ATXHeadingKind) by (apply ckind_updCont; [intros b; destruct b; reflexivity|exact K2]).
  set (p3 := updCont p2 (fun b => set_bn b level)) in *. set (q3 := updCont q2 (fun b => set_bn b level)) in *.
  assert (Es3 : li q3 = li p3) by exact Es2. assert (M3 : sM p3) by exact M2. assert (R3 : rest p3 = bytesAfterIndent p) by exact R2.
  assert (L3 : li p3 = li p + indentLength (rest p)) by exact L2. assert (E3 : line p3 = line p) by exact E2. clearbody p3 q3.
  assert (Hcs : li p3 + cs <= len (line p3)) by (rewrite L3, E3; lia).
  destruct (FQ_advance' L p3 q3 cs H3 Hcs) as [H4 Hs4]. specialize (Hs4 Es3).
  pose proof (Sp_advance L p3 cs S3 ltac:(lia) Hcs) as S4.
  destruct (G_advance p3 cs (Sp_G L p3 S3) ltac:(lia) Hcs) as (_ & L4 & E4).
  pose proof (rest_advance p3 cs (Sp_G L p3 S3) ltac:(lia) Hcs) as R4. rewrite R3 in R4.
  assert (K4 : ckind (advance p3 cs) ATXHeadingKind) by (eapply ckind_same; [apply same_advance|exact K3]).
  pose proof (sM_advance p3 cs M3) as M4.
  set (p4 := advance p3 cs) in *. set (q4 := advance q3 cs) in *. clearbody p4 q4.
  assert (Hb5 : li p4 + indentLength (rest p4) + (ce - cs) <= len (line p4)).
  { rewrite R4, L4, E4, L3, E3. destruct (Z.eq_dec cs ce) as [->|Nce].
    - pose proof (indentLength_le (from_ (bytesAfterIndent p) ce)) as A. rewrite len_from in A by lia. lia.
    - rewrite indentLength_from_nonws by (try lia; intros; apply Bn; lia). lia. }
  destruct (FQ_collect_bounded L ATXHeadingKind p4 q4 UnparsedKind (ce - cs) H4 Hs4 ltac:(split; [apply (Sp_ccP L p4 S4)|split; [apply (Sp_QP L p4 S4)|exact K4]])
              ltac:(discriminate) ltac:(discriminate) ltac:(discriminate) ltac:(discriminate) ltac:(discriminate) ltac:(lia) Hb5) as [H5 _].
  pose proof (Sp_collectInline L p4 UnparsedKind (ce - cs) ATXHeadingKind S4 K4 ltac:(reflexivity) ltac:(discriminate) ltac:(lia) Hb5) as S5.
  apply (FQ_consume_end L _ _ ATXHeadingKind); [exact H5|exact S5|apply sM_open, sM_collectInline, M4|apply ckind_collectInline, K4|apply noKids_atx|discriminate].
Qed.

Lemma F_flag2 L fc fnn b : finB L (set_bn (set_bchar b fc) fnn) = set_bn (set_bchar (finB L b) fc) fnn.
Proof. rewrite F_set_bn, F_set_bchar. reflexivity. Qed.
Lemma flag_2 L fc fnn b : cc (set_bn (set_bchar b fc) fnn) = cc b /\ bkind (set_bn (set_bchar b fc) fnn) = bkind b /\ forall SS src, qB2 L SS src (set_bn (set_bchar b fc) fnn) = qB2 L SS src b.
Proof. destruct b; repeat split. Qed.

Lemma FQ_startFenced L : sOK L startFenced.
Proof.
  intros p q H Es HS Hst. unfold startFenced. cbv zeta. rewrite (FQ_indent L p q H). destruct (_ <=? _); [apply sOK_id; assumption|].
  destruct (FQ_bai_recog L p q H) as (_ & _ & _ & Rf & _). rewrite Rf.
  destruct (parseCodeFence (bytesAfterIndent p)) as [[[fc fnn] is_] ie] eqn:Ef. destruct (Z.eqb_spec fnn 0) as [|Nf]; [apply sOK_id; assumption|].
  pose proof (bai_len L p q H) as Hbl.
  destruct (FQ_prelude L p q FencedCodeBlockKind H Es HS Hst ltac:(discriminate)) as (H2 & Es2 & S2 & M2 & K2 & R2 & L2 & E2). cbv zeta in H2, Es2, S2, M2, K2, R2, L2, E2.
  set (p2 := openBlock (consumeIndent p (indent p)) FencedCodeBlockKind) in *. set (q2 := openBlock (consumeIndent q (indent p)) FencedCodeBlockKind) in *. clearbody p2 q2.
  assert (H3 : FQ L (updCont (updCont p2 (fun b => set_bn (set_bchar b fc) fnn)) (fun b => set_bindent b (indent p)))
                  (updCont (updCont q2 (fun b => set_bn (set_bchar b fc) fnn)) (fun b => set_bindent b (indent p)))).
  { apply FQ_flag; [intros b; apply F_set_bindent| |].
    - apply FQ_flag; [intros b; apply F_flag2|exact H2|apply (Sp_cc L p2 S2)].
    - apply (Sp_cc L _ (Sp_flag L p2 _ (flag_2 L fc fnn) S2)). }
  pose proof (Sp_flag L _ (fun b => set_bindent b (indent p)) (flag_bindent L (indent p)) (Sp_flag L p2 _ (flag_2 L fc fnn) S2)) as S4.
  assert (K4 : ckind (updCont (updCont p2 (fun b => set_bn (set_bchar b fc) fnn)) (fun b => set_bindent b (indent p))) FencedCodeBlockKind).
  { apply ckind_updCont; [intros b; destruct b; reflexivity|]. apply ckind_updCont; [intros b; destruct b; reflexivity|exact K2]. }
  set (p4 := updCont (updCont p2 _) _) in *. set (q4 := updCont (updCont q2 _) _) in *.
  assert (Es4 : li q4 = li p4) by exact Es2. assert (M4 : sM p4) by exact M2. assert (R4 : rest p4 = bytesAfterIndent p) by exact R2.
  assert (L4 : li p4 = li p + indentLength (rest p)) by exact L2. assert (E4 : line p4 = line p) by exact E2. clearbody p4 q4.
  assert (Hfin : forall a b, FQ L a b -> st_open a -> FQ L (consumeLine a) (consumeLine b) /\ (state (consumeLine a) <> stLineConsumed -> li (consumeLine b) = li (consumeLine a))).
  { intros a b Hab Ha. split; [apply (FQ_consumeLine L a b Hab)|]. intros X. exfalso. apply X. apply sC_consumeLine, Ha. }
  destruct (spanValid (is_, ie)) eqn:Ev; [|apply Hfin; [exact H3|apply sM_open, M4]].
  unfold spanValid in Ev. cbn [fst snd] in Ev. apply andb_true_iff in Ev. destruct Ev as [Ev _]. apply andb_true_iff in Ev. destruct Ev as [Ev _]. apply Z.leb_le in Ev.
  assert (Hn : 0 < fnn).
  { destruct (Z.lt_ge_cases 0 fnn); [assumption|]. pose proof (parseCodeFence_none _ _ _ _ _ Ef ltac:(lia)) as En. inversion En. lia. }
  destruct (parseCodeFence_bounds _ _ _ _ _ Ef Hn Ev) as (B1 & B2 & B3 & B4).
  assert (His : li p4 + is_ <= len (line p4)) by (rewrite L4, E4; lia).
  destruct (FQ_advance' L p4 q4 is_ H3 His) as [H5 Hs5]. specialize (Hs5 Es4).
  pose proof (Sp_advance L p4 is_ S4 Ev His) as S5.
  destruct (G_advance p4 is_ (Sp_G L p4 S4) Ev His) as (_ & L5 & E5).
  pose proof (rest_advance p4 is_ (Sp_G L p4 S4) Ev His) as R5. rewrite R4 in R5.
  assert (K5 : ckind (advance p4 is_) FencedCodeBlockKind) by (eapply ckind_same; [apply same_advance|exact K4]).
  pose proof (sM_advance p4 is_ M4) as M5.
  set (p5 := advance p4 is_) in *. set (q5 := advance q4 is_) in *. clearbody p5 q5.
  assert (Hb6 : li p5 + indentLength (rest p5) + (ie - is_) <= len (line p5)).
  { rewrite R5, L5, E5, L4, E4. rewrite indentLength_from_nonws; [lia|lia|].
    intros _. unfold isSpaceTabOrLineEnding in B4. unfold isSpTab. apply orb_false_iff in B4. destruct B4 as [B4 _]. apply orb_false_iff in B4. tauto. }
  destruct (FQ_collect_bounded L FencedCodeBlockKind p5 q5 InfoStringKind (ie - is_) H5 Hs5 ltac:(split; [apply (Sp_ccP L p5 S5)|split; [apply (Sp_QP L p5 S5)|exact K5]])
              ltac:(discriminate) ltac:(discriminate) ltac:(discriminate) ltac:(discriminate) ltac:(discriminate) ltac:(lia) Hb6) as [H6 _].
  apply Hfin; [exact H6|apply sM_open, sM_collectInline, M5].
Qed.

Lemma FQ_startThematic L : sOK L startThematic.
Proof.
  intros p q H Es HS Hst. unfold startThematic. cbv zeta. rewrite (FQ_indent L p q H). destruct (_ <=? _); [apply sOK_id; assumption|].
  destruct (FQ_bai_recog L p q H) as (Rt & _). rewrite Rt.
  destruct (Z.ltb_spec (parseThematicBreak (bytesAfterIndent p)) 0) as [|Le]; [apply sOK_id; assumption|].
  pose proof (parseThematicBreak_le (bytesAfterIndent p)) as Bt. pose proof (bai_len L p q H) as Hbl.
  destruct (FQ_prelude L p q ThematicBreakKind H Es HS Hst ltac:(discriminate)) as (H2 & Es2 & S2 & M2 & K2 & R2 & L2 & E2). cbv zeta in H2, Es2, S2, M2, K2, R2, L2, E2.
  set (p2 := openBlock (consumeIndent p (indent p)) ThematicBreakKind) in *. set (q2 := openBlock (consumeIndent q (indent p)) ThematicBreakKind) in *. clearbody p2 q2.
  assert (Hb : li p2 + parseThematicBreak (bytesAfterIndent p) <= len (line p2)) by (rewrite L2, E2; lia).
  apply (FQ_consume_end L _ _ ThematicBreakKind); [apply FQ_advance; assumption|apply Sp_advance; assumption|apply sM_open, sM_advance, M2| |apply noKids_thematic|discriminate].
  eapply ckind_same; [apply same_advance|exact K2].
Qed.

Lemma FQ_startIndented L : sOK L startIndented.
Proof.
  intros p q H Es HS Hst. unfold startIndented. rewrite (FQ_indent L p q H), (FQ_isRestBlank L p q H), (FQ_tipKind L p q H (Sp_cc L p HS)).
  destruct (_ || _ || _); [apply sOK_id; assumption|].
  destruct (FQ_consumeIndent' L p q codeBlockIndentLimit H) as [H1 Hs1]. specialize (Hs1 Es). pose proof (Sp_consumeIndent L p codeBlockIndentLimit HS) as S1.
  destruct (li_openBlock (consumeIndent p codeBlockIndentLimit) IndentedCodeBlockKind) as [A1 _]. destruct (li_openBlock (consumeIndent q codeBlockIndentLimit) IndentedCodeBlockKind) as [B1 _].
  split; [apply FQ_openBlock; [exact H1|exact Hs1|apply (Sp_ccP L _ S1)|apply (Sp_QP L _ S1)]|intros _; rewrite A1, B1; exact Hs1].
Qed.

Lemma bai_curS p p' : curS p p' -> bytesAfterIndent p' = bytesAfterIndent p.
Proof. intros H. unfold bytesAfterIndent. rewrite (rest_curS p p' H). reflexivity. Qed.

Lemma FQ_startHTML L : sOK L startHTML.
Proof.
  intros p q H Es HS Hst. unfold startHTML. cbv zeta. rewrite (FQ_indent L p q H). destruct (_ <=? _); [apply sOK_id; assumption|].
  destruct (FQ_bai L p q H) as [Eb Ob]. rewrite (ext_hbp1 _ _ 60 ltac:(discriminate) Eb).
  destruct (negb _); [apply sOK_id; assumption|]. rewrite (ext_firstHtmlCond _ _ Eb). destruct (_ <? 0); [apply sOK_id; assumption|].
  rewrite (FQ_containerKind L p q H (Sp_cc L p HS)), (FQ_tipKind L p q H (Sp_cc L p HS)). destruct (negb _ && _); [apply sOK_id; assumption|].
  rewrite (ext_htmlEnd _ _ _ Eb Ob).
  set (i := firstHtmlCond 0 7 (bytesAfterIndent p)) in *.
  pose proof (FQ_openBlock L p q HTMLBlockKind H Es (Sp_ccP L p HS) (Sp_QP L p HS)) as H2.
  pose proof (Sp_openBlock L p HTMLBlockKind HS ltac:(left; discriminate)) as S2.
  destruct (li_openBlock p HTMLBlockKind) as [A1 A2]. destruct (li_openBlock q HTMLBlockKind) as [B1 _].
  destruct (G_openBlock p HTMLBlockKind (Sp_G L p HS)) as [_ C2].
  assert (H3 : FQ L (updCont (openBlock p HTMLBlockKind) (fun b => set_bn b i)) (updCont (openBlock q HTMLBlockKind) (fun b => set_bn b i)))
    by (apply FQ_flag; [intros b; apply F_set_bn|exact H2|apply (Sp_cc L _ S2)]).
  pose proof (Sp_flag L _ (fun b => set_bn b i) (flag_bn L i) S2) as S3.
  assert (K3 : ckind (updCont (openBlock p HTMLBlockKind) (fun b => set_bn b i)) HTMLBlockKind)
    by (apply ckind_updCont; [intros b; destruct b; reflexivity|apply ckind_openBlock, Hst]).
  assert (M3 : sM (updCont (openBlock p HTMLBlockKind) (fun b => set_bn b i))) by (apply sM_openBlock, Hst).
  assert (Es3 : li (updCont (openBlock q HTMLBlockKind) (fun b => set_bn b i)) = li (updCont (openBlock p HTMLBlockKind) (fun b => set_bn b i))).
  { change (li (openBlock q HTMLBlockKind) = li (openBlock p HTMLBlockKind)). rewrite A1, B1. exact Es. }
  assert (C3 : curS p (updCont (openBlock p HTMLBlockKind) (fun b => set_bn b i))) by exact C2.
  set (p3 := updCont (openBlock p HTMLBlockKind) (fun b => set_bn b i)) in *. set (q3 := updCont (openBlock q HTMLBlockKind) (fun b => set_bn b i)) in *. clearbody p3 q3.
  destruct (htmlEnd i (bytesAfterIndent p)); [|split; [exact H3|intros _; exact Es3]].
  destruct (FQ_collect_rest L p3 q3 H3 Es3 ltac:(split; [apply (Sp_ccP L p3 S3)|split; [apply (Sp_QP L p3 S3)|exact K3]]) (Sp_G L p3 S3)) as [H4 _].
  pose proof (FQ_li L p3 q3 H3) as Hli3.
  assert (S4 : Sp L (collectInline p3 RawHTMLKind (len (bytesAfterIndent p3)))).
  { apply (Sp_collectInline L p3 RawHTMLKind _ HTMLBlockKind S3 K3); [reflexivity|discriminate|apply len_nonneg|].
    pose proof (trim_len (rest p3)) as T. rewrite (len_rest p3 Hli3) in T. fold (bytesAfterIndent p3) in T. lia. }
  apply (FQ_consume_end L _ _ HTMLBlockKind); [exact H4|exact S4|apply sM_open, sM_collectInline, M3|apply ckind_collectInline, K3|apply noKids_html|discriminate].
Qed.

(* ---- setext ---- *)
Lemma bumpI_fix L u : fixI L u = true -> bumpI L u = u.
Proof.
  destruct u as [k s e i r ks]. unfold fixI, bumpI. cbn [ikind iend]. destruct (k =? IndentKind); [reflexivity|]. cbn [orb].
  intros Hf. apply negb_true_iff, Z.eqb_neq in Hf. rewrite (bump_ne L e Hf). reflexivity.
Qed.
Lemma map_bumpI_fix L ik : forallb (fixI L) ik = true -> map (bumpI L) ik = ik.
Proof. induction ik as [|u r IH]; [reflexivity|]. cbn [forallb map]. intros H. apply andb_true_iff in H. destruct H as [A B]. rewrite (bumpI_fix L u A), (IH B). reflexivity. Qed.
Lemma F_setext L b level : bkind b = ParagraphKind -> qP L b = true ->
  finB L (set_bn (set_bkind b SetextHeadingKind) level) = set_bn (set_bkind (finB L b) SetextHeadingKind) level.
Proof.
  intros Ek Hq. unfold qP in Hq. rewrite Ek in Hq. cbn [Z.eqb Pos.eqb negb orb ParagraphKind] in Hq. apply andb_true_iff in Hq. destruct Hq as [_ Hq].
  destruct b as [K s e bk ik a n c l lb]. cbn [bkind bik] in *. subst K. cbn [set_bkind set_bn finB]. cbn [Z.eqb Pos.eqb ParagraphKind SetextHeadingKind ListMarkerKind].
  cbn [set_bkind set_bn]. unfold finI. cbn [Z.eqb Pos.eqb orb ParagraphKind SetextHeadingKind HTMLBlockKind IndentedCodeBlockKind FencedCodeBlockKind].
  rewrite (map_bumpI_fix L ik Hq). reflexivity.
Qed.
Lemma FQ_chpc L p q : FQ L p q -> cc (root p) = true -> QP L p -> containerHasParagraphContent q = containerHasParagraphContent p.
Proof.
  intros H Hc HQ. unfold containerHasParagraphContent. rewrite (FQ_containerKind L p q H Hc). destruct (negb (containerKind p =? ParagraphKind)) eqn:Ek; [reflexivity|].
  apply negb_false_iff, Z.eqb_eq in Ek.
  assert (Es : source q = source p ++ [10]) by apply H. assert (EL : len (source p) = L) by apply H. rewrite Es, (FQ_contBlock L p q H Hc). subst L.
  destruct HQ as [(SS & Hq & Hev) _].
  unfold containerKind, contBlock in Ek |- *. destruct (getAt (cdepth p) (root p)) as [x|] eqn:Hx; [|discriminate Ek].
  pose proof (cc_getAt _ _ x Hc Hx) as Hcx. pose proof (allB_getAt (qP2 (len (source p)) SS (source p)) _ _ _ Hq Hx) as Hqx.
  apply (allB_parts (qP2 (len (source p)) SS (source p))) in Hqx. destruct Hqx as [Hqx _]. apply qP2_parts in Hqx. destruct Hqx as (_ & _ & Hpe).
  assert (Hk : isParaK (bkind x) = true) by (rewrite Ek; reflexivity).
  pose proof Hev as (Hne & Hee & Hc0 & _).
  rewrite (ocp_fin_PE (source p) (lineStart p) x Hne Hee Hk (paraK_leaf x Hcx Hk) ltac:(lia) (peP_PE (source p) SS (lineStart p) x Hev Hpe Hk)) by (intros E; rewrite Ek in E; discriminate E).
  rewrite <- map_rev. destruct (rev (onCloseParagraph (source p) x)) as [|l r]; [reflexivity|]. cbn [map]. rewrite bkind_F. reflexivity.
Qed.
Lemma FQ_startSetext L : sOK L startSetext.
Proof.
  intros p q H Es HS Hst. unfold startSetext. cbv zeta. pose proof (Sp_cc L p HS) as Hc. rewrite (FQ_containerKind L p q H Hc).
  destruct (negb (containerKind p =? ParagraphKind)) eqn:Ek; [apply sOK_id; assumption|]. apply negb_false_iff, Z.eqb_eq in Ek.
  rewrite (FQ_indent L p q H). destruct (_ <=? _); [apply sOK_id; assumption|].
  destruct (FQ_bai_recog L p q H) as (_ & _ & Rs & _). rewrite Rs. destruct (_ =? 0); [apply sOK_id; assumption|].
  rewrite (FQ_chpc L p q H Hc (Sp_QP L p HS)). destruct (containerHasParagraphContent p) eqn:Ech; cbn [negb]; [|apply sOK_id; assumption].
  set (lv := parseSetextHeadingUnderline (bytesAfterIndent p)).
  assert (H1 : FQ L (updCont p (fun b => set_bn (set_bkind b SetextHeadingKind) lv)) (updCont q (fun b => set_bn (set_bkind b SetextHeadingKind) lv))).
  { apply FQ_updCont_at; [exact H|exact Hc|]. intros x Hx. apply F_setext; [rewrite <- Ek; apply (ckind_self p x Hx)|].
    pose proof (allB_getAt (qP L) _ _ _ (QP_qB L p (Sp_QP L p HS)) Hx) as Hq. apply (allB_parts (qP L)) in Hq. tauto. }
  assert (S1 : Sp L (updCont p (fun b => set_bn (set_bkind b SetextHeadingKind) lv))).
  { destruct HS as (A & B & C). apply Sp_mk.
    - apply (G_tree p); [repeat split|reflexivity|exact A].
    - apply ccP_updCont_compat; [exact B| |].
      + intros x Hx Hcx. pose proof (ckind_self p x Hx) as Ex. rewrite Ek in Ex. apply cc_parts in Hcx. destruct Hcx as [C1 _]. rewrite Ex in C1.
        assert (Ekids : bkids x = []) by (apply forallb_false_nil; exact C1).
        destruct x as [K s e bk ik a n c l lb]. cbn [bkids bkind] in *. subst bk K. split; [reflexivity|]. right. split; discriminate.
      + intros E0. exfalso. rewrite (containerKind_root p E0) in Ek. destruct B as (B & _). rewrite B in Ek. discriminate.
    - apply QP_updCont_at; [exact C|]. intros SS x Hx Hq. rewrite qB2_set_bn. destruct (chpc_leaves p x Ek Ech Hx) as [E1 E2]. apply qB2_set_bkind_setext; assumption. }
  apply (FQ_consume_end L _ _ SetextHeadingKind); [exact H1|exact S1|exact Hst| |apply noKids_setext|discriminate].
  intros b Hb. unfold updCont, cdepth in Hb. cbn [root container withRoot setLP] in Hb. fold (cdepth p) in Hb. rewrite getAt_updAt_same in Hb.
  destruct (getAt (cdepth p) (root p)) as [x|]; [|discriminate]. cbn [option_map] in Hb. inversion Hb. destruct x; reflexivity.
Qed.

(* ---- list items ---- *)
Lemma li_endBlock p : li (endBlock p) = li p.
Proof. unfold endBlock. destruct (_ || _); [reflexivity|]. cbv zeta. destruct (state p =? stOpening); destruct (cdepth _); reflexivity. Qed.
Lemma blank_from_ext a b m : ext a b -> m <= len a -> isBlankLine (from_ b m) = isBlankLine (from_ a m).
Proof. intros [->|[-> ->]] Hm; [rewrite from_app10 by exact Hm; rewrite isBlankLine_app'; apply andb_true_r|reflexivity]. Qed.
Lemma Sp_wf L p : Sp L p -> wf p. Proof. intros (_ & (_ & _ & H) & _). exact H. Qed.

Lemma FQ_startListItem L : sOK L startListItem.
Proof.
  intros p q H Es HS Hst. unfold startListItem. cbv zeta. rewrite (FQ_indent L p q H). destruct (_ <=? _); [apply sOK_id; assumption|].
  destruct (FQ_bai L p q H) as [Eb _]. destruct (FQ_bai_recog L p q H) as (_ & _ & _ & _ & Rm). rewrite Rm.
  destruct (parseListMarker (bytesAfterIndent p)) as [[delim n] mend] eqn:Em.
  pose proof (Sp_cc L p HS) as Hc. rewrite (FQ_containerKind L p q H Hc).
  destruct (Z.ltb_spec mend 0) as [|Lm]; cbn [orb]; [apply sOK_id; assumption|].
  destruct (_ && _ && _); [apply sOK_id; assumption|].
  pose proof (parseListMarker_le _ _ _ _ Em) as Hmb. rewrite (blank_from_ext _ _ mend Eb Hmb).
  destruct (_ && isBlankLine _); [apply sOK_id; assumption|].
  pose proof (bai_len L p q H) as Hbl.
  destruct (after_indent L p q H Es (Sp_G L p HS)) as (H1 & Es1 & G1 & R1 & L1 & E1 & _). cbv zeta in H1, Es1, G1, R1, L1, E1.
  pose proof (Sp_consumeIndent L p (indent p) HS) as S1. pose proof (st_open_consumeIndent p (indent p) Hst) as O1.
  set (p1 := consumeIndent p (indent p)) in *. set (q1 := consumeIndent q (indent p)) in *. clearbody p1 q1.
  pose proof (Sp_cc L p1 S1) as Hc1. rewrite (FQ_containerKind L p1 q1 H1 Hc1). destruct (FQ_field L p1 q1 H1 Hc1) as (_ & _ & F3). rewrite F3.
  set (cdelim := if (containerKind p1 =? ListKind) || (containerKind p1 =? ListItemKind) then bchar (contBlock p1) else 0).
  set (p2 := if negb (containerKind p1 =? ListKind) || negb (cdelim =? delim) then updCont (openBlock p1 ListKind) (fun b => set_bchar b delim) else p1).
  set (q2 := if negb (containerKind p1 =? ListKind) || negb (cdelim =? delim) then updCont (openBlock q1 ListKind) (fun b => set_bchar b delim) else q1).
  assert (H2 : FQ L p2 q2 /\ li q2 = li p2 /\ Sp L p2 /\ st_open p2 /\ containerKind p2 = ListKind /\ li p2 = li p1 /\ line p2 = line p1).
  { unfold p2, q2. destruct (negb (containerKind p1 =? ListKind) || negb (cdelim =? delim)) eqn:Ec.
    - destruct (li_openBlock p1 ListKind) as [A1 A2]. destruct (li_openBlock q1 ListKind) as [B1 _].
      pose proof (Sp_openBlock L p1 ListKind S1 ltac:(left; discriminate)) as So.
      pose proof (Sp_flag L _ (fun b => set_bchar b delim) (flag_bchar L delim) So) as Sf.
      split; [apply FQ_flag; [intros b; apply F_set_bchar|apply FQ_openBlock; [exact H1|exact Es1|apply (Sp_ccP L p1 S1)|apply (Sp_QP L p1 S1)]|apply (Sp_cc L _ So)]|].
      split; [change (li (openBlock q1 ListKind) = li (openBlock p1 ListKind)); rewrite A1, B1; exact Es1|].
      split; [exact Sf|]. split; [apply st_open_updCont, L2Kind2.st_open_openBlock, O1|].
      split; [|split; [exact A1|exact A2]].
      apply containerKind_of; [apply (Sp_ccP L _ Sf)|]. apply ckind_updCont; [intros b; apply bkind_set_bchar|]. apply ckind_openBlock, O1.
    - apply orb_false_iff in Ec. destruct Ec as [Ec _]. apply negb_false_iff, Z.eqb_eq in Ec.
      split; [exact H1|split; [exact Es1|split; [exact S1|split; [exact O1|split; [exact Ec|split; reflexivity]]]]]. }
  destruct H2 as (H2 & Es2 & S2 & O2 & K2 & L2 & E2). clearbody p2 q2.
  (* the item *)
  destruct (li_openBlock p2 ListItemKind) as [A3 A3']. destruct (li_openBlock q2 ListItemKind) as [B3 _].
  pose proof (Sp_openBlock L p2 ListItemKind S2 ltac:(right; rewrite K2; reflexivity)) as So3.
  pose proof (Sp_flag L _ (fun b => set_bchar b delim) (flag_bchar L delim) So3) as S3.
  assert (H3 : FQ L (updCont (openBlock p2 ListItemKind) (fun b => set_bchar b delim)) (updCont (openBlock q2 ListItemKind) (fun b => set_bchar b delim))).
  { apply FQ_flag; [intros b; apply F_set_bchar|apply FQ_openBlock; [exact H2|exact Es2|apply (Sp_ccP L p2 S2)|apply (Sp_QP L p2 S2)]|apply (Sp_cc L _ So3)]. }
  assert (O3 : st_open (updCont (openBlock p2 ListItemKind) (fun b => set_bchar b delim))) by (apply st_open_updCont, L2Kind2.st_open_openBlock, O2).
  set (p3 := updCont (openBlock p2 ListItemKind) (fun b => set_bchar b delim)) in *. set (q3 := updCont (openBlock q2 ListItemKind) (fun b => set_bchar b delim)) in *.
  assert (Es3 : li q3 = li p3) by (change (li (openBlock q2 ListItemKind) = li (openBlock p2 ListItemKind)); rewrite A3, B3; exact Es2).
  assert (L3 : li p3 = li p2) by exact A3. assert (E3 : line p3 = line p2) by exact A3'. clearbody p3 q3.
  (* the marker *)
  destruct (li_openBlock p3 ListMarkerKind) as [A4 A4']. destruct (li_openBlock q3 ListMarkerKind) as [B4 _].
  pose proof (Sp_openBlock L p3 ListMarkerKind S3 ltac:(left; discriminate)) as S4.
  pose proof (FQ_openBlock L p3 q3 ListMarkerKind H3 Es3 (Sp_ccP L p3 S3) (Sp_QP L p3 S3)) as H4.
  pose proof (containerKind_openBlock p3 ListMarkerKind (Sp_wf L p3 S3) O3) as K4.
  pose proof (sM_openBlock p3 ListMarkerKind O3) as M4.
  set (p4 := openBlock p3 ListMarkerKind) in *. set (q4 := openBlock q3 ListMarkerKind) in *.
  assert (Es4 : li q4 = li p4) by (rewrite A4, B4; exact Es3). clearbody p4 q4.
  assert (Hb5 : li p4 + mend <= len (line p4)) by (rewrite A4, A4', L3, E3, L2, E2, L1, E1; lia).
  destruct (FQ_advance' L p4 q4 mend H4 Hb5) as [H5 Hs5]. specialize (Hs5 Es4).
  pose proof (Sp_advance L p4 mend S4 Lm Hb5) as S5.
  assert (K5 : containerKind (advance p4 mend) = ListMarkerKind) by (rewrite (containerKind_same _ _ (same_advance p4 mend)); exact K4).
  pose proof (sM_advance p4 mend M4) as M5.
  set (p5 := advance p4 mend) in *. set (q5 := advance q4 mend) in *. clearbody p5 q5.
  assert (H6 : FQ L (endBlock p5) (endBlock q5)).
  { apply FQ_endBlock; [exact H5|apply (Sp_ccP L p5 S5)|apply (Sp_QP L p5 S5)|]. left. split; [exact Hs5|right; exact K5]. }
  pose proof (Sp_endBlock L p5 S5) as S6. pose proof (sM_endBlock p5 M5) as M6.
  assert (Es6 : li (endBlock q5) = li (endBlock p5)) by (rewrite !li_endBlock; exact Hs5).
  set (p6 := endBlock p5) in *. set (q6 := endBlock q5) in *. clearbody p6 q6.
  rewrite (FQ_isRestBlank L p6 q6 H6). destruct (isRestBlank p6).
  - assert (H7 : FQ L (updCont p6 (fun b => set_bindent b (indent p + mend + 1))) (updCont q6 (fun b => set_bindent b (indent p + mend + 1))))
      by (apply FQ_flag; [intros b; apply F_set_bindent|exact H6|apply (Sp_cc L p6 S6)]).
    split; [apply (FQ_consumeLine L _ _ H7)|]. intros X. exfalso. apply X. apply sC_consumeLine. apply sM_open. exact M6.
  - rewrite (FQ_indent L p6 q6 H6). destruct (indent p6 <? 1).
    + split; [apply FQ_flag; [intros b; apply F_set_bindent|exact H6|apply (Sp_cc L p6 S6)]|intros _; exact Es6].
    + destruct (4 <? indent p6).
      * destruct (FQ_consumeIndent' L p6 q6 1 H6) as [H7 Hs7]. pose proof (Sp_consumeIndent L p6 1 S6) as S7.
        split; [apply FQ_flag; [intros b; apply F_set_bindent|exact H7|apply (Sp_cc L _ S7)]|intros _; apply Hs7, Es6].
      * destruct (FQ_consumeIndent' L p6 q6 (indent p6) H6) as [H7 Hs7]. pose proof (Sp_consumeIndent L p6 (indent p6) S6) as S7.
        split; [apply FQ_flag; [intros b; apply F_set_bindent|exact H7|apply (Sp_cc L _ S7)]|intros _; apply Hs7, Es6].
Qed.
End GenStarts.
